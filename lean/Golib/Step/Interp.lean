/-
  Golib.Step.Interp — an interpretation of the regenerated skeletons (tie A).

  `parseW` reads the token list of a Go `Write` method as a layout, `parseR` the token list of a Go
  `Read` method; both work on the tokens alone (calls, declared field types, conversions,
  constants, control structure) and know nothing of the hand-written model.  A layout has a
  semantics (`L.write`, `L.read`), so the regenerated code is thereby *given a meaning in Lean*.

  A writer does not show what only the reader knows (which other presence bytes it accepts, the
  older sections, the version test, the defaulting of a field) and vice versa (constants,
  presence conditions); `L.wview` / `L.rview` are the two projections of a full layout.  The bridge:

      wview_write : l.wview.write = l.write        rview_read : l.rview.read = l.read

  so when the two regenerated skeletons parse to the two views of one layout `T`
  (`Golib.Props.C08Gen`, by `decide`), the reader the reader-skeleton denotes round-trips what the
  writer the writer-skeleton denotes writes — for all field values (`interp_roundtrip`).
-/
import Golib.Step.Tok
import Golib.Step.Roundtrip

namespace Step
open Prim

/-! ### calls → primitives -/

def kindW : String → String → Option Kind
  | "WriteByte", "byte" => some .u8
  | "WriteBool", "bool" => some .bool
  | "WriteInt", "int32" => some .i32
  | "WriteLong", "int64" => some .i64
  | "WriteDecimal", "int32" => some .dec32      -- WriteDecimal(int64(x)), x int32
  | "WriteDecimal", "int64" => some .dec64
  | "WriteBlob", "[]byte" => some .blob
  | "WriteText", "string" => some .text
  | "WriteIntArray", "[]int32" => some .intArr
  | _, _ => none

/-- reader call, declared type of the target field, conversion applied to the result -/
def kindR : String → String → String → Option Kind
  | "ReadByte", "byte", "" => some .u8
  | "ReadBool", "bool", "" => some .bool
  | "ReadInt", "int32", "" => some .i32
  | "ReadLong", "int64", "" => some .i64
  | "ReadDecimal", "int32", "int32" => some .dec32
  | "ReadDecimal", "int64", "" => some .dec64
  | "ReadBlob", "[]byte", "" => some .blob
  | "ReadText", "string", "" => some .text
  | "ReadIntArray", "[]int32", "" => some .intArr
  | _, _, _ => none

def litKindW : String → Option Kind
  | "WriteByte" => some .u8
  | "WriteDecimal" => some .dec64
  | _ => none

def litKindR : String → Option Kind
  | "ReadByte" => some .u8
  | "ReadDecimal" => some .dec64
  | _ => none

/-! ### the hand-modelled loops, as token patterns -/

/-- `TxRecord.Write`, custom fields, after `if F == nil` -/
def fieldsWPat (nm : String) : List Tok :=
  let key := nm ++ ".Keys().NextString()"
  let val := nm ++ ".Get(" ++ key ++ ")"
  [.wl "WriteByte" 0, .el, .wx "WriteByte" (nm ++ ".Size()"), .lp (nm ++ ".Keys().HasMoreElements()"),
   .iff (val ++ " != nil"), .iff (val ++ ".(value.Value)#1"), .wx "WriteText" key,
   .wx "WriteValue" (val ++ ".(value.Value)#0"), .en, .el, .wx "WriteText" key,
   .wx "WriteValue" "value.NewTextValue(\"\")", .en, .en, .en]

/-- `TxRecord.Read`, custom fields, after `n := ReadByte(); if n > 0` -/
def fieldsRPat (nm n k v : String) : List Tok :=
  [.asg nm "*value.MapValue" "value.NewMapValue()", .lp ("0 < " ++ n), .rl "ReadText" k "", .rl "ReadValue" v "",
   .call (nm ++ ".Put(" ++ k ++ ", " ++ v ++ ")"), .en, .en]

def stripPrefix (p : List Tok) (ts : List Tok) : Option (List Tok) :=
  if ts.take p.length = p then some (ts.drop p.length) else none

/-- a sequence of plain fields, if the layout is one -/
def L.flat? : L → Option (List (String × Kind))
  | .nil => some []
  | .fld nm k rest => (rest.flat?).map (fun fs => (nm, k) :: fs)
  | _ => none

/-! ### the writer interpreter -/

def parseWF : Nat → List Tok → Option (L × List Tok)
  | 0, _ => none
  | _+1, [] => some (.nil, [])
  | f+1, t :: ts =>
    match t with
    | .el | .en | .cs _ | .sc | .ifnn _ => some (.nil, t :: ts)
    | .w m nm ty =>
      match kindW m ty with
      | some k => (parseWF f ts).map (fun (r, u) => (.fld nm k r, u))
      | none => none
    | .wl m v =>
      match litKindW m with
      | some k => (parseWF f ts).map (fun (r, u) => (.lit k v r, u))
      | none => none
    | .sw nm =>
      match ts with
      | .cs 1 :: ts1 =>
        match parseWF f ts1 with
        | some (c1, .cs 2 :: ts2) =>
          match parseWF f ts2 with
          | some (c2, .en :: ts3) => (parseWF f ts3).map (fun (r, u) => (.sw nm c1 c2 r, u))
          | _ => none
        | _ => none
      | _ => none
    | .ifnz cond =>
      match ts with
      | .wl "WriteByte" flag :: ts1 =>
        match parseWF f ts1 with
        | some (body, .el :: .wl "WriteByte" 0 :: .en :: ts2) =>
          (parseWF f ts2).map (fun (r, u) => (.opt flag.toNat false cond body [] r, u))
        | _ => none
      | _ => none
    | .ifbit fld k =>
      match parseWF f ts with
      | some (body, .en :: ts2) => (parseWF f ts2).map (fun (r, u) => (.bit fld k body r, u))
      | _ => none
    | .ifnil nm =>
      match stripPrefix (fieldsWPat nm) ts with
      | some ts2 => (parseWF f ts2).map (fun (r, u) => (.fields nm r, u))
      | none => none
    | .so =>
      match parseWF f ts with
      | some (body, .sc :: .wsub :: ts2) => (parseWF f ts2).map (fun (r, u) => (.wrap body none r, u))
      | some (body, .ifnn nm :: .w "WriteMapValue" nm' "*value.MapValue" :: .en :: .sc :: .wsub :: ts2) =>
        if nm = nm' then (parseWF f ts2).map (fun (r, u) => (.wrap body (some nm) r, u)) else none
      | _ => none
    | _ => none

/-- the layout a writer skeleton denotes -/
def parseW (ts : List Tok) : Option L :=
  match parseWF (ts.length + 1) ts with
  | some (l, []) => some l
  | _ => none

/-! ### the reader interpreter -/

mutual
def parseRF : Nat → List Tok → Option (L × List Tok)
  | 0, _ => none
  | _+1, [] => some (.nil, [])
  | f+1, t :: ts =>
    match t with
    | .el | .en | .cs _ | .sc | .ifavail => some (.nil, t :: ts)
    | .r m nm ty conv =>
      match kindR m ty conv with
      | some k =>
        match ts with
        | .ifz nm1 :: .ifnz cond :: .asgn nm2 _ d :: .en :: .en :: ts2 =>
          if nm1 = nm ∧ nm2 = nm then (parseRF f ts2).map (fun (r, u) => (.dflt nm k cond d r, u)) else none
        | _ => (parseRF f ts).map (fun (r, u) => (.fld nm k r, u))
      | none => none
    | .rd m =>
      match litKindR m with
      | some k => (parseRF f ts).map (fun (r, u) => (.lit k 0 r, u))
      | none => none
    | .sw nm =>
      match ts with
      | .cs 1 :: ts1 =>
        match parseRF f ts1 with
        | some (c1, .cs 2 :: ts2) =>
          match parseRF f ts2 with
          | some (c2, .en :: ts3) => (parseRF f ts3).map (fun (r, u) => (.sw nm c1 c2 r, u))
          | _ => none
        | _ => none
      | _ => none
    | .ifrdpos =>
      match parseRF f ts with
      | some (body, .en :: ts2) => (parseRF f ts2).map (fun (r, u) => (.opt 1 true "" body [] r, u))
      | _ => none
    | .swrd =>
      match parseCases f ts [] with
      | some (cases, ts2) =>
        match cases with
        | (flag, body) :: older =>
          match (older.reverse.mapM (fun (p : Nat × L) => (p.2.flat?).map (fun fs => (p.1, fs)))) with
          | some alts => (parseRF f ts2).map (fun (r, u) => (.opt flag false "" body alts r, u))
          | none => none
        | [] => none
      | none => none
    | .ifbit fld k =>
      match parseRF f ts with
      | some (body, .en :: ts2) => (parseRF f ts2).map (fun (r, u) => (.bit fld k body r, u))
      | _ => none
    | .rsub "ReadBlob" =>
      match ts with
      | .so :: ts1 =>
        match parseRF f ts1 with
        | some (body, .sc :: ts2) => (parseRF f ts2).map (fun (r, u) => (.wrap body none r, u))
        | _ => none
      | _ => none
    | .rl "ReadByte" a "" =>
      match ts with
      | .iflt a1 k :: .pn :: .en :: ts2 =>        -- version test
        if a1 = a then (parseRF f ts2).map (fun (r, u) => (.ver k 0 r, u)) else none
      | .ifpos a1 :: .asg nm ty e :: .lp c :: .rl "ReadText" k "" :: .rl "ReadValue" v "" :: rest =>   -- custom fields
        if a1 = a then
          match stripPrefix (fieldsRPat nm a k v) (.asg nm ty e :: .lp c :: .rl "ReadText" k "" :: .rl "ReadValue" v "" :: rest) with
          | some ts2 => (parseRF f ts2).map (fun (r, u) => (.fields nm r, u))
          | none => none
        else none
      | .rl "ReadBlob" b "" :: .ifz a1 :: .fr b1 :: .so :: ts1 =>   -- versioned blob (MessageStepX)
        if a1 = a ∧ b1 = b then
          match parseRF f ts1 with
          | some (body, .sc :: .en :: ts2) => (parseRF f ts2).map (fun (r, u) => (.lit .u8 0 (.wrap body none r), u))
          | some (body, .ifavail :: .rl "ReadValue" v "" :: .iftype v1 "*value.MapValue" ::
                .asgcast nm "*value.MapValue" v2 "*value.MapValue" :: .en :: .en :: .sc :: .en :: ts2) =>
            -- if bytes are left: read a value; if it is a map, it becomes the attribute map
            if v1 = v ∧ v2 = v then
              (parseRF f ts2).map (fun (r, u) => (.lit .u8 0 (.wrap body (some nm) r), u))
            else none
          | _ => none
        else none
      | _ => none
    | _ => none
/-- the cases of `switch ReadByte()`, most recent first -/
def parseCases : Nat → List Tok → List (Nat × L) → Option (List (Nat × L) × List Tok)
  | 0, _, _ => none
  | f+1, .cs n :: ts, acc =>
    match parseRF f ts with
    | some (l, ts1) => parseCases f ts1 ((n, l) :: acc)
    | none => none
  | _+1, .en :: ts, acc => some (acc, ts)
  | _+1, _, _ => none
end

/-- the layout a reader skeleton denotes -/
def parseR (ts : List Tok) : Option L :=
  match parseRF (ts.length + 1) ts with
  | some (l, []) => some l
  | _ => none

/-! ### the two projections of a layout -/

/-- what the writer shows of a layout -/
def L.wview : L → L
  | .nil => .nil
  | .fld nm k rest => .fld nm k rest.wview
  | .lit k v rest => .lit k v rest.wview
  | .sw nm c1 c2 rest => .sw nm c1.wview c2.wview rest.wview
  | .opt flag _ cond body _ rest => .opt flag false cond body.wview [] rest.wview
  | .dflt nm k _ _ rest => .fld nm k rest.wview
  | .wrap body attr rest => .wrap body.wview attr rest.wview
  | .fields nm rest => .fields nm rest.wview
  | .bit nm mask body rest => .bit nm mask body.wview rest.wview
  | .ver _ v rest => .lit .u8 v rest.wview

/-- what the reader shows of a layout -/
def L.rview : L → L
  | .nil => .nil
  | .fld nm k rest => .fld nm k rest.rview
  | .lit k _ rest => .lit k 0 rest.rview
  | .sw nm c1 c2 rest => .sw nm c1.rview c2.rview rest.rview
  | .opt flag anyPos _ body alts rest =>
    if anyPos then .opt 1 true "" body.rview [] rest.rview else .opt flag false "" body.rview alts rest.rview
  | .dflt nm k cond d rest => .dflt nm k cond d rest.rview
  | .wrap body attr rest => .wrap body.rview attr rest.rview
  | .fields nm rest => .fields nm rest.rview
  | .bit nm mask body rest => .bit nm mask body.rview rest.rview
  | .ver min _ rest => .ver min 0 rest.rview

/-- side conditions under which the projections keep the meaning: version constants are bytes,
    a presence section the reader only tests for `> 0` has a positive flag and no older variants -/
def L.viewOK : L → Bool
  | .nil => true
  | .fld _ _ rest => rest.viewOK
  | .lit _ _ rest => rest.viewOK
  | .sw _ c1 c2 rest => c1.viewOK && c2.viewOK && rest.viewOK
  | .opt flag anyPos _ body alts rest =>
    (if anyPos then decide (0 < flag) && alts.isEmpty else true) && body.viewOK && rest.viewOK
  | .dflt _ _ _ _ rest => rest.viewOK
  | .wrap body _ rest => body.viewOK && rest.viewOK
  | .fields _ rest => rest.viewOK
  | .bit _ _ body rest => body.viewOK && rest.viewOK
  | .ver _ v rest => decide (v < 256) && rest.viewOK

theorem L.wview_write (l : L) (h : l.viewOK = true) (x : Rec) : l.wview.write x = l.write x := by
  induction l with
  | nil => rfl
  | fld nm k rest ih => simp only [L.wview, L.write, ih h]
  | lit k v rest ih => simp only [L.wview, L.write, ih h]
  | sw nm c1 c2 rest ih1 ih2 ihr =>
    simp only [L.viewOK, Bool.and_eq_true] at h
    simp only [L.wview, L.write, ih1 h.1.1, ih2 h.1.2, ihr h.2]
  | opt flag anyPos cond body alts rest ihb ihr =>
    simp only [L.viewOK, Bool.and_eq_true] at h
    simp only [L.wview, L.write, ihb h.1.2, ihr h.2]
  | dflt nm k cond d rest ih => simp only [L.wview, L.write, ih h]
  | wrap body attr rest ihb ihr =>
    simp only [L.viewOK, Bool.and_eq_true] at h
    simp only [L.wview, L.write, ihb h.1, ihr h.2]
  | fields nm rest ih => simp only [L.wview, L.write, ih h]
  | bit nm mask body rest ihb ihr =>
    simp only [L.viewOK, Bool.and_eq_true] at h
    simp only [L.wview, L.write, ihb h.1, ihr h.2]
  | ver min v rest ih =>
    simp only [L.viewOK, Bool.and_eq_true, decide_eq_true_eq] at h
    simp only [L.wview, L.write, ih h.2, Kind.enc, Val.toInt, Int.toNat_natCast, Nat.mod_eq_of_lt h.1]
    rfl

theorem D.bind_congr {p : D α} {f g : α → D β} (h : ∀ a r, f a r = g a r) (bs : Bytes) :
    D.bind p f bs = D.bind p g bs := by
  simp only [D.bind]
  cases p bs with
  | none => rfl
  | some ar => obtain ⟨a, r⟩ := ar; exact h a r

theorem D.bind_congr2 {p q : D α} {f g : α → D β} {bs : Bytes} (hp : p bs = q bs)
    (h : ∀ a r, f a r = g a r) : D.bind p f bs = D.bind q g bs := by
  simp only [D.bind, hp]
  cases q bs with
  | none => rfl
  | some ar => obtain ⟨a, r⟩ := ar; exact h a r

theorem L.rview_read (l : L) (h : l.viewOK = true) (e : Env) (bs : Bytes) : l.rview.read e bs = l.read e bs := by
  induction l generalizing e bs with
  | nil => rfl
  | fld nm k rest ih => simp only [L.rview, L.read]; exact D.bind_congr (fun a r => ih h _ _) _
  | lit k v rest ih => simp only [L.rview, L.read]; exact D.bind_congr (fun a r => ih h _ _) _
  | sw nm c1 c2 rest ih1 ih2 ihr =>
    simp only [L.viewOK, Bool.and_eq_true] at h
    simp only [L.rview, L.read]
    have hc : (if (e.get nm).toInt = 1 then c1.rview.read e else if (e.get nm).toInt = 2 then c2.rview.read e else D.pure e) bs
        = (if (e.get nm).toInt = 1 then c1.read e else if (e.get nm).toInt = 2 then c2.read e else D.pure e) bs := by
      split
      · exact ih1 h.1.1 _ _
      · split
        · exact ih2 h.1.2 _ _
        · rfl
    simp only [D.bind, hc]
    cases (if (e.get nm).toInt = 1 then c1.read e else if (e.get nm).toInt = 2 then c2.read e else D.pure e) bs with
    | none => rfl
    | some ar => obtain ⟨a, r⟩ := ar; exact ihr h.2 _ _
  | opt flag anyPos cond body alts rest ihb ihr =>
    simp only [L.viewOK, Bool.and_eq_true] at h
    obtain ⟨⟨ha, hb⟩, hr⟩ := h
    cases anyPos with
    | false =>
      simp only [L.rview, Bool.false_eq_true, if_false, L.read]
      refine D.bind_congr (fun b r => ?_) _
      refine D.bind_congr2 ?_ (fun a r' => ihr hr _ _)
      split
      · exact ihb hb _ _
      · rfl
    | true =>
      simp only [if_true, Bool.and_eq_true, decide_eq_true_eq, List.isEmpty_iff] at ha
      obtain ⟨hf, hal⟩ := ha
      subst hal
      simp only [L.rview, if_true, L.read]
      refine D.bind_congr (fun b r => ?_) _
      have hcond : (b == 1 || (true && decide (0 < b))) = (b == flag || (true && decide (0 < b))) := by
        by_cases hb0 : 0 < b
        · simp [hb0]
        · have : b = 0 := by omega
          subst this
          have : (0 == flag) = false := by simp only [beq_eq_false_iff_ne, ne_eq]; omega
          simp [this]
      rw [hcond]
      refine D.bind_congr2 ?_ (fun a r' => ihr hr _ _)
      split
      · exact ihb hb _ _
      · rfl
  | dflt nm k cond d rest ih => simp only [L.rview, L.read]; exact D.bind_congr (fun a r => ih h _ _) _
  | wrap body attr rest ihb ihr =>
    simp only [L.viewOK, Bool.and_eq_true] at h
    simp only [L.rview, L.read]
    refine D.bind_congr (fun blob r => ?_) _
    rw [ihb h.1]
    cases body.read e blob with
    | none => rfl
    | some ar =>
      obtain ⟨e', r'⟩ := ar
      simp only
      cases readAttr attr e' r' with
      | none => rfl
      | some e'' => exact ihr h.2 _ _
  | fields nm rest ih =>
    simp only [L.rview, L.read]
    refine D.bind_congr (fun n r => ?_) _
    split
    · exact D.bind_congr (fun kvs r' => ih h _ _) _
    · exact ih h _ _
  | bit nm mask body rest ihb ihr =>
    simp only [L.viewOK, Bool.and_eq_true] at h
    simp only [L.rview, L.read]
    have hc : (if bitSet (e.get nm) mask = true then body.rview.read e else D.pure e) bs
        = (if bitSet (e.get nm) mask = true then body.read e else D.pure e) bs := by
      split
      · exact ihb h.1 _ _
      · rfl
    simp only [D.bind, hc]
    cases (if bitSet (e.get nm) mask = true then body.read e else D.pure e) bs with
    | none => rfl
    | some ar => obtain ⟨a, r⟩ := ar; exact ihr h.2 _ _
  | ver min v rest ih =>
    simp only [L.viewOK, Bool.and_eq_true] at h
    simp only [L.rview, L.read]
    refine D.bind_congr (fun b r => ?_) _
    split
    · rfl
    · exact ih h.2 _ _

/-- **interpreted obligation ⇒ round trip.**  If the regenerated writer skeleton `tw` denotes the
    writer view and the regenerated reader skeleton `tr` the reader view of a layout `T`, then the
    reader `tr` denotes reads back what the writer `tw` denotes writes, for every record in range
    and whatever follows. -/
theorem interp_roundtrip (V : ValueRT) (tw tr : List Tok) (T : L) (hok : T.viewOK = true)
    (hw : parseW tw = some T.wview) (hr : parseR tr = some T.rview) :
    ∃ lw lr, parseW tw = some lw ∧ parseR tr = some lr ∧
      ∀ (x : Rec) (r : Bytes), T.WF V x [] →
        (lw.write x = T.write x) ∧ lr.read [] (lw.write x ++ r) = some (T.expect x [], r) := by
  refine ⟨T.wview, T.rview, hw, hr, fun x r h => ⟨L.wview_write T hok x, ?_⟩⟩
  rw [L.wview_write T hok, L.rview_read T hok]
  exact L.roundtrip V T x [] r h

end Step
