/- what `TxRecord.Read` assigns from an encoding with version byte `w`, multi-trace presence byte `g`
   and caller flag `f`: everything a current record carries, except that the caller identity is cut
   down to the fields that flag carries (none for a flag the reader does not know) -/
import Golib.Step.LegacyCarriedA
import Golib.Step.LegacyCarriedB
import Golib.Step.LegacyCarriedC

namespace Step

theorem txRecord_legacy_carried (w g f : Nat) (x : Rec) :
    TxCarriedK (callerKeeps f) x (txRecord.expectAlt (legacyChoice w g f) x []) := by
  rw [txRecord_expectAlt_eq, sect_caller]
  unfold callerKeeps
  by_cases h6 : f = 6
  · simp only [h6, if_true]; exact txEnvOf_cur _ _
  by_cases h1 : f = 1
  · subst h1; simp only [h6, if_false, if_true]; exact txEnvOf_alt1 _ _
  by_cases h3 : f = 3
  · subst h3; simp only [h6, h1, if_false, if_true]; exact txEnvOf_alt3 _ _
  by_cases h4 : f = 4
  · subst h4; simp only [h6, h1, h3, if_false, if_true]; exact txEnvOf_alt4 _ _
  by_cases h5 : f = 5
  · subst h5; simp only [h6, h1, h3, h4, if_false, if_true]; exact txEnvOf_alt5 _ _
  simp only [h6, h1, h3, h4, h5, if_false]; exact txEnvOf_unknown _ _ _

end Step
