/-
  Golib.Step.Alt — encodings the readers accept but today's writers do not emit.

  `TxRecord.Read` still understands what older agents wrote:
    * the multi-trace section is present for ANY presence byte > 0 (the writer emits 1);
    * the caller-identity section may carry the flags 1, 3, 4, 5 (fewer fields each) besides 6,
      and an unknown flag means "no section";
    * any version byte ≥ 10 (the writer emits 10); below 10 the reader panics.

  `L.writeAlt ch` is the writer of such an encoding: `ch` chooses, per presence section (by the name
  of its condition field) and for the version byte (key `$ver`), the byte to emit; with no choice
  it is `L.write`.  `L.expectAlt` is what the reader must assign, `L.WFAlt` the ranges.
  `L.roundtrip_alt` is the generic theorem: the reader of the layout consumes exactly such an
  encoding and assigns exactly `expectAlt`.
-/
import Golib.Step.Roundtrip

namespace Step
open Prim

abbrev Choice := String → Option Nat

def flatWrite : List (String × Kind) → Rec → Bytes
  | [], _ => []
  | (nm, k) :: fs, x => k.enc (x nm) ++ flatWrite fs x

def flatExpect : List (String × Kind) → Rec → Env → Env
  | [], _, e => e
  | (nm, _) :: fs, x, e => flatExpect fs x ((nm, x nm) :: e)

def flatWF : List (String × Kind) → Rec → Prop
  | [], _ => True
  | (nm, k) :: fs, x => k.wf (x nm) ∧ flatWF fs x

theorem readFlat_rt (fs : List (String × Kind)) (x : Rec) (e : Env) (r : Bytes) (h : flatWF fs x) :
    readFlat fs e (flatWrite fs x ++ r) = some (flatExpect fs x e, r) := by
  induction fs generalizing e with
  | nil => rfl
  | cons p fs ih =>
    obtain ⟨nm, k⟩ := p
    obtain ⟨h1, h2⟩ := h
    simp only [readFlat, flatWrite, flatExpect, List.append_assoc]
    rw [D.bind_some (Kind.rt k (x nm) _ h1)]
    exact ih _ h2

/-- which shape a presence section takes under a choice -/
inductive Sect where
  | cur              -- the writer's own flag and section
  | anyFlag (f : Nat) -- another positive presence byte, same section (reader tests `> 0`)
  | alt (f : Nat) (fs : List (String × Kind))  -- an older flag with its shorter section
  | unknown (f : Nat) -- a flag the reader has no case for: no section

/-- what the reader ends up with, by the shape of the section: the full section (own flag or any
    positive flag), an older shorter section, or nothing -/
def Sect.pick {α : Type} : Sect → α → (List (String × Kind) → α) → α → α
  | .cur, a, _, _ => a
  | .anyFlag _, a, _, _ => a
  | .alt _ fs, _, b, _ => b fs
  | .unknown _, _, _, u => u

def sect (flag : Nat) (anyPos : Bool) (alts : List (Nat × List (String × Kind))) : Option Nat → Sect
  | none => .cur
  | some f =>
    if f = flag then .cur
    else if anyPos then .anyFlag f
    else match alts.lookup f with
      | some fs => .alt f fs
      | none => .unknown f

def L.writeAlt : L → Choice → Rec → Bytes
  | .nil, _, _ => []
  | .fld nm k rest, ch, x => k.enc (x nm) ++ rest.writeAlt ch x
  | .lit k v rest, ch, x => k.enc (.i v) ++ rest.writeAlt ch x
  | .sw nm c1 c2 rest, ch, x =>
    (if (x nm).toInt = 1 then c1.writeAlt ch x else if (x nm).toInt = 2 then c2.writeAlt ch x else [])
      ++ rest.writeAlt ch x
  | .opt flag anyPos cond body alts rest, ch, x =>
    (if (x cond).toInt ≠ 0 then
      (match sect flag anyPos alts (ch cond) with
       | .cur => flag :: body.writeAlt ch x
       | .anyFlag f => f :: body.writeAlt ch x
       | .alt f fs => f :: flatWrite fs x
       | .unknown f => [f])
     else [0]) ++ rest.writeAlt ch x
  | .dflt nm k _ _ rest, ch, x => k.enc (x nm) ++ rest.writeAlt ch x
  | .wrap body attr rest, ch, x => encBlob (body.writeAlt ch x ++ attrBytes attr x) ++ rest.writeAlt ch x
  | .fields nm rest, ch, x => encFields (x nm).toMapN ++ rest.writeAlt ch x
  | .bit nm mask body rest, ch, x => (if bitSet (x nm) mask then body.writeAlt ch x else []) ++ rest.writeAlt ch x
  | .ver _ v rest, ch, x => (match ch "$ver" with | some w => w | none => v) :: rest.writeAlt ch x

def L.expectAlt : L → Choice → Rec → Env → Env
  | .nil, _, _, e => e
  | .fld nm _ rest, ch, x, e => rest.expectAlt ch x ((nm, x nm) :: e)
  | .lit _ _ rest, ch, x, e => rest.expectAlt ch x e
  | .sw nm c1 c2 rest, ch, x, e =>
    rest.expectAlt ch x
      (if (x nm).toInt = 1 then c1.expectAlt ch x e else if (x nm).toInt = 2 then c2.expectAlt ch x e else e)
  | .opt flag anyPos cond body alts rest, ch, x, e =>
    rest.expectAlt ch x
      (if (x cond).toInt ≠ 0 then
        (sect flag anyPos alts (ch cond)).pick (body.expectAlt ch x e) (fun fs => flatExpect fs x e) e
       else e)
  | .dflt nm _ cond d rest, ch, x, e => rest.expectAlt ch x ((nm, dfl (x nm) (e.get cond) d) :: e)
  | .wrap body attr rest, ch, x, e => rest.expectAlt ch x (attrEnv attr x (body.expectAlt ch x e))
  | .fields nm rest, ch, x, e =>
    match (x nm).toMapN with
    | some (kv :: kvs) => rest.expectAlt ch x ((nm, .m (some (kv :: kvs))) :: e)
    | _ => rest.expectAlt ch x e
  | .bit nm mask body rest, ch, x, e =>
    rest.expectAlt ch x (if bitSet (x nm) mask then body.expectAlt ch x e else e)
  | .ver _ _ rest, ch, x, e => rest.expectAlt ch x e

def L.WFAlt (V : ValueRT) : L → Choice → Rec → Env → Prop
  | .nil, _, _, _ => True
  | .fld nm k rest, ch, x, e => k.wf (x nm) ∧ rest.WFAlt V ch x ((nm, x nm) :: e)
  | .lit k v rest, ch, x, e => k.wf (.i v) ∧ rest.WFAlt V ch x e
  | .sw nm c1 c2 rest, ch, x, e =>
    e.get nm = x nm ∧
    (if (x nm).toInt = 1 then c1.WFAlt V ch x e else if (x nm).toInt = 2 then c2.WFAlt V ch x e else True) ∧
    rest.WFAlt V ch x
      (if (x nm).toInt = 1 then c1.expectAlt ch x e else if (x nm).toInt = 2 then c2.expectAlt ch x e else e)
  | .opt flag anyPos cond body alts rest, ch, x, e =>
    0 < flag ∧ flag < 256 ∧ alts.lookup 0 = none ∧
    (if (x cond).toInt ≠ 0 then
      (match sect flag anyPos alts (ch cond) with
       | .cur => body.WFAlt V ch x e
       | .anyFlag f => 0 < f ∧ f < 256 ∧ body.WFAlt V ch x e
       | .alt f fs => f < 256 ∧ flatWF fs x
       | .unknown f => 0 < f ∧ f < 256)
     else True) ∧
    rest.WFAlt V ch x
      (if (x cond).toInt ≠ 0 then
        (sect flag anyPos alts (ch cond)).pick (body.expectAlt ch x e) (fun fs => flatExpect fs x e) e
       else e)
  | .dflt nm k cond d rest, ch, x, e => k.wf (x nm) ∧ rest.WFAlt V ch x ((nm, dfl (x nm) (e.get cond) d) :: e)
  | .wrap body attr rest, ch, x, e =>
    (body.writeAlt ch x ++ attrBytes attr x).length < 2147483648 ∧ body.WFAlt V ch x e ∧ attrWF V attr x ∧
    rest.WFAlt V ch x (attrEnv attr x (body.expectAlt ch x e))
  | .fields nm rest, ch, x, e =>
    fieldsWF V (x nm).toMapN ∧
    (match (x nm).toMapN with
     | some (kv :: kvs) => rest.WFAlt V ch x ((nm, .m (some (kv :: kvs))) :: e)
     | _ => rest.WFAlt V ch x e)
  | .bit nm mask body rest, ch, x, e =>
    e.get nm = x nm ∧ (if bitSet (x nm) mask then body.WFAlt V ch x e else True) ∧
    rest.WFAlt V ch x (if bitSet (x nm) mask then body.expectAlt ch x e else e)
  | .ver min v rest, ch, x, e =>
    (match ch "$ver" with | some w => min ≤ w ∧ w < 256 | none => min ≤ v ∧ v < 256) ∧ rest.WFAlt V ch x e

/-- a presence byte the reader only tests for `> 0` selects the full section whatever it is -/
theorem sect_pick_anyPos {α : Type} (flag : Nat) (alts : List (Nat × List (String × Kind))) (c : Option Nat)
    (a : α) (b : List (String × Kind) → α) (u : α) : (sect flag true alts c).pick a b u = a := by
  cases c with
  | none => rfl
  | some f =>
    simp only [sect]
    split
    · rfl
    · rfl

theorem sect_alt_props {flag : Nat} {anyPos : Bool} {alts : List (Nat × List (String × Kind))} {c : Option Nat}
    {f : Nat} {fs : List (String × Kind)} (h : sect flag anyPos alts c = .alt f fs) :
    f ≠ flag ∧ anyPos = false ∧ alts.lookup f = some fs := by
  cases c with
  | none => simp [sect] at h
  | some g =>
    simp only [sect] at h
    split at h
    · cases h
    · split at h
      · cases h
      · rename_i hne hap
        split at h
        · rename_i fs' hl
          cases h
          exact ⟨hne, by simpa using hap, hl⟩
        · cases h

theorem sect_unknown_props {flag : Nat} {anyPos : Bool} {alts : List (Nat × List (String × Kind))} {c : Option Nat}
    {f : Nat} (h : sect flag anyPos alts c = .unknown f) :
    f ≠ flag ∧ anyPos = false ∧ alts.lookup f = none := by
  cases c with
  | none => simp [sect] at h
  | some g =>
    simp only [sect] at h
    split at h
    · cases h
    · split at h
      · cases h
      · rename_i hne hap
        split at h
        · cases h
        · rename_i hl
          cases h
          exact ⟨hne, by simpa using hap, hl⟩

theorem sect_anyFlag_props {flag : Nat} {anyPos : Bool} {alts : List (Nat × List (String × Kind))} {c : Option Nat}
    {f : Nat} (h : sect flag anyPos alts c = .anyFlag f) : anyPos = true := by
  cases c with
  | none => simp [sect] at h
  | some g =>
    simp only [sect] at h
    split at h
    · cases h
    · split at h
      · rename_i hap; exact hap
      · split at h <;> cases h

/-- the reader of a layout consumes exactly an encoding written under any choice of legacy flags
    and assigns exactly `expectAlt` -/
theorem L.roundtrip_alt (V : ValueRT) (l : L) (ch : Choice) (x : Rec) (e : Env) (r : Bytes)
    (h : l.WFAlt V ch x e) : l.read e (l.writeAlt ch x ++ r) = some (l.expectAlt ch x e, r) := by
  induction l generalizing e r with
  | nil => simp [L.read, L.writeAlt, L.expectAlt, D.pure]
  | fld nm k rest ih =>
    obtain ⟨h1, h2⟩ := h
    simp only [L.read, L.writeAlt, L.expectAlt, List.append_assoc]
    rw [D.bind_some (Kind.rt k (x nm) _ h1)]
    exact ih _ _ h2
  | lit k v rest ih =>
    obtain ⟨h1, h2⟩ := h
    simp only [L.read, L.writeAlt, L.expectAlt, List.append_assoc]
    rw [D.bind_some (Kind.rt k (.i v) _ h1)]
    exact ih _ _ h2
  | sw nm c1 c2 rest ih1 ih2 ihr =>
    obtain ⟨hg, hc, hr⟩ := h
    simp only [L.read, L.writeAlt, L.expectAlt, List.append_assoc, hg]
    by_cases c1e : (x nm).toInt = 1
    · simp only [c1e, if_true] at hc hr ⊢
      rw [D.bind_some (ih1 _ _ hc)]
      exact ihr _ _ hr
    · by_cases c2e : (x nm).toInt = 2
      · have n21 : ¬ ((2 : Int) = 1) := by decide
        simp only [c2e, n21, if_true, if_false] at hc hr ⊢
        rw [D.bind_some (ih2 _ _ hc)]
        exact ihr _ _ hr
      · simp only [c1e, c2e, if_false] at hc hr ⊢
        rw [List.nil_append, D.bind_some (show D.pure e (rest.writeAlt ch x ++ r) = some (e, _) from rfl)]
        exact ihr _ _ hr
  | opt flag anyPos cond body alts rest ihb ihr =>
    obtain ⟨hf0, hf, ha, hb, hr⟩ := h
    simp only [L.read, L.writeAlt, L.expectAlt]
    by_cases c : (x cond).toInt ≠ 0
    · simp only [if_pos c] at hb hr ⊢
      cases hs : sect flag anyPos alts (ch cond) with
      | cur =>
        simp only [hs, Sect.pick] at hb hr ⊢
        simp only [List.cons_append, List.append_assoc]
        rw [D.bind_some (rdU1_cons flag _ hf)]
        simp only [beq_self_eq_true, Bool.true_or, if_true]
        rw [D.bind_some (ihb _ _ hb)]
        exact ihr _ _ hr
      | anyFlag f =>
        simp only [hs, Sect.pick] at hb hr ⊢
        obtain ⟨g0, g1, hb⟩ := hb
        have hap := sect_anyFlag_props hs
        simp only [List.cons_append, List.append_assoc]
        rw [D.bind_some (rdU1_cons f _ g1)]
        have : (f == flag || (anyPos && decide (0 < f))) = true := by simp [hap, g0]
        simp only [this, if_true]
        rw [D.bind_some (ihb _ _ hb)]
        exact ihr _ _ hr
      | alt f fs =>
        simp only [hs, Sect.pick] at hb hr ⊢
        obtain ⟨g1, hb⟩ := hb
        obtain ⟨hne, hap, hl⟩ := sect_alt_props hs
        simp only [List.cons_append, List.append_assoc]
        rw [D.bind_some (rdU1_cons f _ g1)]
        have : (f == flag || (anyPos && decide (0 < f))) = false := by simp [hap, hne]
        simp only [this, Bool.false_eq_true, if_false, hl]
        rw [D.bind_some (readFlat_rt fs x e _ hb)]
        exact ihr _ _ hr
      | unknown f =>
        simp only [hs, Sect.pick] at hb hr ⊢
        obtain ⟨g0, g1⟩ := hb
        obtain ⟨hne, hap, hl⟩ := sect_unknown_props hs
        simp only [List.cons_append, List.nil_append]
        rw [D.bind_some (rdU1_cons f _ g1)]
        have : (f == flag || (anyPos && decide (0 < f))) = false := by simp [hap, hne]
        simp only [this, Bool.false_eq_true, if_false, hl]
        rw [D.bind_some (show D.pure e (rest.writeAlt ch x ++ r) = some (e, _) from rfl)]
        exact ihr _ _ hr
    · simp only [if_neg c] at hb hr ⊢
      simp only [List.cons_append, List.nil_append]
      rw [D.bind_some (rdU1_cons 0 _ (by omega))]
      have hne : (0 == flag) = false := by
        simp only [beq_eq_false_iff_ne, ne_eq]; omega
      simp only [hne, Nat.lt_irrefl, decide_false, Bool.and_false, Bool.or_false, ha, Bool.false_eq_true, if_false]
      rw [D.bind_some (show D.pure e (rest.writeAlt ch x ++ r) = some (e, _) from rfl)]
      exact ihr _ _ hr
  | dflt nm k cond d rest ih =>
    obtain ⟨h1, h2⟩ := h
    simp only [L.read, L.writeAlt, L.expectAlt, List.append_assoc]
    rw [D.bind_some (Kind.rt k (x nm) _ h1)]
    exact ih _ _ h2
  | wrap body attr rest ihb ihr =>
    obtain ⟨hl, hb, ha, hr⟩ := h
    simp only [L.read, L.writeAlt, L.expectAlt, List.append_assoc]
    have hblob : D.ofP decBlob (encBlob (body.writeAlt ch x ++ attrBytes attr x) ++ (rest.writeAlt ch x ++ r))
        = some (body.writeAlt ch x ++ attrBytes attr x, rest.writeAlt ch x ++ r) := run_decBlob _ _ hl
    rw [D.bind_some hblob]
    simp only [ihb _ _ hb, readAttr_rt V attr x _ ha]
    exact ihr _ _ hr
  | fields nm rest ih =>
    obtain ⟨hf, hr⟩ := h
    simp only [L.read, L.writeAlt, L.expectAlt, List.append_assoc]
    generalize (x nm).toMapN = m at hf hr ⊢
    cases m with
    | none =>
      simp only at hr ⊢
      rw [D.bind_some (encFields_none_rt _)]
      simp only [Nat.lt_irrefl, if_false]
      exact ih _ _ hr
    | some kvs =>
      cases kvs with
      | nil =>
        simp only at hr ⊢
        rw [D.bind_some (encFields_nil_rt _)]
        simp only [Nat.lt_irrefl, if_false]
        exact ih _ _ hr
      | cons kv kvs =>
        simp only at hr ⊢
        obtain ⟨k1, k3⟩ := encFields_cons_rt V kv kvs (rest.writeAlt ch x ++ r) hf
        rw [D.bind_some k1]
        have k2 : 0 < (kv :: kvs).length := by simp
        simp only [k2, if_true]
        rw [D.bind_some k3]
        exact ih _ _ hr
  | bit nm mask body rest ihb ihr =>
    obtain ⟨hg, hb, hr⟩ := h
    simp only [L.read, L.writeAlt, L.expectAlt, List.append_assoc, hg]
    cases c : bitSet (x nm) mask
    · simp only [c, Bool.false_eq_true, if_false] at hb hr ⊢
      rw [List.nil_append, D.bind_some (show D.pure e (rest.writeAlt ch x ++ r) = some (e, _) from rfl)]
      exact ihr _ _ hr
    · simp only [c, if_true] at hb hr ⊢
      rw [D.bind_some (ihb _ _ hb)]
      exact ihr _ _ hr
  | ver min v rest ih =>
    obtain ⟨h1, h3⟩ := h
    simp only [L.read, L.writeAlt, L.expectAlt, List.cons_append]
    cases hc : ch "$ver" with
    | none =>
      simp only [hc] at h1 ⊢
      rw [D.bind_some (rdU1_cons v _ h1.2)]
      have : ¬ v < min := by omega
      simp only [this, if_false]
      exact ih _ _ h3
    | some w =>
      simp only [hc] at h1 ⊢
      rw [D.bind_some (rdU1_cons w _ h1.2)]
      have : ¬ w < min := by omega
      simp only [this, if_false]
      exact ih _ _ h3

/-- a version byte below the minimum is refused (in Go: panic "not supported version") -/
theorem ver_refuses (min v : Nat) (rest : L) (e : Env) (w : Nat) (bs : Bytes) (hw : w < min) (h256 : w < 256) :
    (L.ver min v rest).read e (w :: bs) = none := by
  simp only [L.read]
  rw [D.bind_some (rdU1_cons w bs h256)]
  simp [hw, D.fail]

/-- without a choice the legacy writer is the writer -/
theorem L.writeAlt_none (l : L) (x : Rec) : l.writeAlt (fun _ => none) x = l.write x := by
  induction l with
  | nil => rfl
  | fld nm k rest ih => simp [L.writeAlt, L.write, ih]
  | lit k v rest ih => simp [L.writeAlt, L.write, ih]
  | sw nm c1 c2 rest ih1 ih2 ihr => simp [L.writeAlt, L.write, ih1, ih2, ihr]
  | opt flag anyPos cond body alts rest ihb ihr => simp [L.writeAlt, L.write, sect, ihb, ihr]
  | dflt nm k cond d rest ih => simp [L.writeAlt, L.write, ih]
  | wrap body attr rest ihb ihr => simp [L.writeAlt, L.write, ihb, ihr]
  | fields nm rest ih => simp [L.writeAlt, L.write, ih]
  | bit nm mask body rest ihb ihr => simp [L.writeAlt, L.write, ihb, ihr]
  | ver min v rest ih => simp [L.writeAlt, L.write, ih]

end Step
