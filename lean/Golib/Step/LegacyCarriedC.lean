/- the carried projection of older TxRecord encodings: caller flag 5 and unknown flags -/
import Golib.Step.Legacy

namespace Step

set_option maxRecDepth 8000 in
set_option maxHeartbeats 1000000 in
theorem txEnvOf_alt5 (ch : Choice) (x : Rec) : TxCarriedK (alt5.map (·.1)) x (txEnvOf (.alt 5 alt5) ch x) := by
  unfold TxCarriedK
  generalize he : txEnvOf (.alt 5 alt5) ch x = e
  simp only [txEnvOf, seq, L.expectAlt, L.expect, attrEnv, Sect.pick, alt5, flatExpect] at he
  generalize (x "Fields").toMapN = fm at he ⊢
  by_cases hm : (x "Mtid").toInt ≠ 0 <;> by_cases hp : (x "McallerPcode").toInt ≠ 0 <;>
    rcases fm with _ | _ | ⟨kv, kvs⟩ <;>
    (subst he; simp (decide := true) [hm, hp, txPlain, callerAll, alt5, Env.get, List.lookup, dfl])

set_option maxRecDepth 8000 in
set_option maxHeartbeats 1000000 in
theorem txEnvOf_unknown (f : Nat) (ch : Choice) (x : Rec) : TxCarriedK [] x (txEnvOf (.unknown f) ch x) := by
  unfold TxCarriedK
  generalize he : txEnvOf (.unknown f) ch x = e
  simp only [txEnvOf, seq, L.expectAlt, L.expect, attrEnv, Sect.pick] at he
  generalize (x "Fields").toMapN = fm at he ⊢
  by_cases hm : (x "Mtid").toInt ≠ 0 <;> by_cases hp : (x "McallerPcode").toInt ≠ 0 <;>
    rcases fm with _ | _ | ⟨kv, kvs⟩ <;>
    (subst he; simp (decide := true) [hm, hp, txPlain, callerAll, Env.get, List.lookup, dfl])

end Step
