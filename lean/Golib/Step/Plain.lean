/-
  Golib.Step.Plain — layouts made of plain fields and constants only (most step types, the
  services, two of the pack bodies): well-formedness is "every field is in the range of its Go
  type", and every field comes back.
-/
import Golib.Step.Stream

namespace Step
open Prim

/-- the (name, primitive) pairs of the plain fields of a layout -/
def L.fieldKinds : L → List (String × Kind)
  | .nil => []
  | .fld nm k rest => (nm, k) :: rest.fieldKinds
  | .lit _ _ rest => rest.fieldKinds
  | _ => []

/-- the constants a layout writes fit their primitive (checked by `decide` per layout) -/
def L.litsOK : L → Bool
  | .nil => true
  | .fld _ _ rest => rest.litsOK
  | .lit k v rest =>
    (match k with
     | .u8 => decide (0 ≤ v ∧ v < 256)
     | .bool => decide (v = 0 ∨ v = 1)
     | .i32 | .dec32 => decide (inRange 4 v)
     | .i64 | .dec64 => decide (inRange 8 v)
     | _ => false) && rest.litsOK
  | _ => true

/-- every field holds a value of its Go type -/
def L.inRanges (l : L) (x : Rec) : Prop := ∀ p ∈ l.fieldKinds, p.2.wf (x p.1)

theorem L.plain_WF (V : ValueRT) (l : L) (x : Rec) (e : Env) (hp : l.plain = true)
    (hl : l.litsOK = true) (hf : l.inRanges x) : l.WF V x e := by
  induction l generalizing e with
  | nil => trivial
  | fld nm k rest ih =>
    refine ⟨hf (nm, k) (by simp [L.fieldKinds]), ih _ hp hl (fun p hp' => hf p (by simp [L.fieldKinds, hp']))⟩
  | lit k v rest ih =>
    simp only [L.litsOK, Bool.and_eq_true] at hl
    refine ⟨?_, ih _ hp hl.2 (fun p hp' => hf p (by simpa [L.fieldKinds] using hp'))⟩
    have h1 := hl.1
    cases k <;> simp only [Kind.wf] <;> simp_all
  | _ => simp [L.plain] at hp

end Step
