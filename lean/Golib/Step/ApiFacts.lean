/-
  Golib.Step.ApiFacts — facts about the API around `Write` / `Read` (Golib.Step.Api):
  accessor laws and frames, fields that never travel, the object `ReadStep` hands out, the Step-interface
  observation of a decoded step, `TxRecord.ToBytes/ToObject`, `WriteVer0/ReadVer0`, mixed streams.
  Proof file (not imported by the driver).
-/
import Golib.Step.Api
import Golib.Step.Plain

namespace Step
open Prim

/-! ### accessor laws -/

/-- the field an accessor may change -/
def Acc.target : Acc → Option String
  | .set f => some f | .orByte f => some f | _ => none

/-- frame: an accessor changes at most its own field; getters, constants and bit tests change nothing -/
theorem Acc.run_frame (a : Acc) (arg : Int) (o : Rec) (nm : String) (h : a.target ≠ some nm) :
    (a.run arg o).1 nm = o nm := by
  cases a <;> simp only [Acc.run, Acc.target] at h ⊢ <;> first
    | rfl
    | (apply Rec.set_other; intro e; exact h (by rw [e]))

/-- what was set is what the getter of the same field returns -/
theorem Acc.get_after_set (f : String) (v : Int) (o : Rec) :
    ((Acc.get f).run 0 ((Acc.set f).run v o).1).2 = v := by
  simp [Acc.run, Rec.set, Val.toInt]

/-- the last `Set` wins -/
theorem Acc.set_set (f : String) (v w : Int) (o : Rec) :
    ((Acc.set f).run w ((Acc.set f).run v o).1).1 = ((Acc.set f).run w o).1 := by
  funext nm; simp only [Acc.run, Rec.set]; split <;> rfl

theorem or_mod_and_self (n b : Nat) (hb : b < 256) : ((n ||| b) % 256) &&& b = b := by
  apply Nat.eq_of_testBit_eq
  intro i
  have e : (256 : Nat) = 2 ^ 8 := rfl
  rw [e, Nat.testBit_and, Nat.testBit_mod_two_pow, Nat.testBit_or]
  by_cases h : b.testBit i
  · have hi : i < 8 := by
      apply Classical.byContradiction
      intro hge
      have : b < 2 ^ i := Nat.lt_of_lt_of_le hb (Nat.pow_le_pow_right (by decide) (by omega) : 2 ^ 8 ≤ 2 ^ i)
      rw [Nat.testBit_lt_two_pow this] at h
      exact Bool.false_ne_true h
    simp [h, hi]
  · simp [h]

/-- `SetTrue(k)` then `IsTrue(k)` answers true for a non-zero flag byte, whatever the flags held -/
theorem Acc.bit_after_or (f : String) (k : Int) (o : Rec) (hk : byteOf k ≠ 0) :
    ((Acc.bit f).run k ((Acc.orByte f).run k o).1).2 = 1 := by
  have hlt : byteOf k < 256 := by
    unfold byteOf
    have := Int.emod_lt_of_pos k (by decide : (0 : Int) < 256)
    have := Int.emod_nonneg k (by decide : (256 : Int) ≠ 0)
    omega
  have e : ∀ v : Int, (Val.i v).toInt = v := fun _ => rfl
  simp only [Acc.run, Rec.set_same, e, Int.toNat_natCast]
  rw [or_mod_and_self _ _ hlt]
  simp [hk]

/-! ### fields that never travel -/

/-- the fields of a record that `Write` looks at -/
def L.reads : L → List String
  | .nil => []
  | .fld nm _ rest => nm :: rest.reads
  | .lit _ _ rest => rest.reads
  | .sw nm c1 c2 rest => nm :: (c1.reads ++ c2.reads ++ rest.reads)
  | .opt _ _ cond body _ rest => cond :: (body.reads ++ rest.reads)
  | .dflt nm _ _ _ rest => nm :: rest.reads
  | .wrap body attr rest => body.reads ++ attr.toList ++ rest.reads
  | .fields nm rest => nm :: rest.reads
  | .bit nm _ body rest => nm :: (body.reads ++ rest.reads)
  | .ver _ _ rest => rest.reads

/-- `Write` depends on nothing but those fields -/
theorem L.write_congr (l : L) (x y : Rec) (h : ∀ nm ∈ l.reads, x nm = y nm) : l.write x = l.write y := by
  induction l with
  | nil => rfl
  | fld nm k rest ih =>
    simp only [L.reads, List.mem_cons] at h
    simp only [L.write, h nm (Or.inl rfl), ih (fun n hn => h n (Or.inr hn))]
  | lit k v rest ih => simp only [L.write, ih h]
  | sw nm c1 c2 rest ih1 ih2 ihr =>
    simp only [L.reads, List.mem_cons, List.mem_append] at h
    simp only [L.write, h nm (Or.inl rfl), ih1 (fun n hn => h n (Or.inr (Or.inl (Or.inl hn)))),
      ih2 (fun n hn => h n (Or.inr (Or.inl (Or.inr hn)))), ihr (fun n hn => h n (Or.inr (Or.inr hn)))]
  | opt flag anyPos cond body alts rest ihb ihr =>
    simp only [L.reads, List.mem_cons, List.mem_append] at h
    simp only [L.write, h cond (Or.inl rfl), ihb (fun n hn => h n (Or.inr (Or.inl hn))),
      ihr (fun n hn => h n (Or.inr (Or.inr hn)))]
  | dflt nm k cond d rest ih =>
    simp only [L.reads, List.mem_cons] at h
    simp only [L.write, h nm (Or.inl rfl), ih (fun n hn => h n (Or.inr hn))]
  | wrap body attr rest ihb ihr =>
    simp only [L.reads, List.mem_append] at h
    have ha : attrBytes attr x = attrBytes attr y := by
      cases attr with
      | none => rfl
      | some a => simp only [attrBytes, h a (Or.inl (Or.inr (by simp)))]
    simp only [L.write, ihb (fun n hn => h n (Or.inl (Or.inl hn))), ha, ihr (fun n hn => h n (Or.inr hn))]
  | fields nm rest ih =>
    simp only [L.reads, List.mem_cons] at h
    simp only [L.write, h nm (Or.inl rfl), ih (fun n hn => h n (Or.inr hn))]
  | bit nm mask body rest ihb ihr =>
    simp only [L.reads, List.mem_cons, List.mem_append] at h
    simp only [L.write, h nm (Or.inl rfl), ihb (fun n hn => h n (Or.inr (Or.inl hn))),
      ihr (fun n hn => h n (Or.inr (Or.inr hn)))]
  | ver min v rest ih => simp only [L.write, ih h]

/-- an accessor whose target field the writer does not look at leaves the encoding unchanged -/
theorem write_after_acc (l : L) (a : Acc) (arg : Int) (o : Rec) (h : ∀ f, a.target = some f → f ∉ l.reads) :
    l.write (a.run arg o).1 = l.write o :=
  L.write_congr l _ _ (fun nm hn => Acc.run_frame a arg o nm (fun e => h nm e hn))

/-! ### the object `ReadStep` / `service.ToObject` hand out -/

theorem lookup_mem {β : Type} (tbl : List (Nat × β)) (k : Nat) (v : β) (h : tbl.lookup k = some v) : (k, v) ∈ tbl := by
  induction tbl with
  | nil => simp [List.lookup] at h
  | cons p t ih =>
    obtain ⟨k', v'⟩ := p
    by_cases hk : k = k'
    · subst hk
      simp only [List.lookup, beq_self_eq_true, Option.some.injEq] at h
      simp [h]
    · have : (k == k') = false := by simpa using hk
      simp only [List.lookup, this] at h
      exact List.mem_cons_of_mem _ (ih h)

theorem lookupLayout_some (tbl : List (Nat × String × L)) (c : Nat) (l : L) (h : lookupLayout tbl c = some l) :
    ∃ n, tbl.lookup c = some (n, l) := by
  unfold lookupLayout at h
  cases hl : tbl.lookup c with
  | none => simp [hl] at h
  | some p =>
    obtain ⟨n, l'⟩ := p
    simp only [hl, Option.some.injEq] at h
    exact ⟨n, by rw [h]⟩

/-- the registry's constructor makes the object, the reader assigns into it: exactly the expected fields
    over the constructor's object, exactly the item's bytes consumed -/
theorem readObj_roundtrip (V : ValueRT) (tbl : List (Nat × String × L)) (s : Item) (r : Bytes) (h : s.ok V tbl) :
    ∃ n, tbl.lookup s.code = some (n, s.lay) ∧
      readObj tbl (s.bytes ++ r) = some ((s.code, (s.lay.expect s.x []).over (freshOfType n)), r) := by
  obtain ⟨n, hn⟩ := lookupLayout_some tbl s.code s.lay h.2.1
  refine ⟨n, hn, ?_⟩
  simp only [readObj, tagged_roundtrip V tbl s r h, Item.expected, hn]

/-! ### what the Step interface shows of a decoded step -/

theorem getterVal_get (t m f : String) (e : Env) (o x : Rec) (ha : accOf t m = some (.get f))
    (hl : e.lookup f = some (x f)) : getterVal t m (e.over o) = getterVal t m x := by
  simp only [getterVal, ha, Acc.run, Env.over, hl]

theorem getterVal_const (t m : String) (v : Int) (o o' : Rec) (ha : accOf t m = some (.const v)) :
    getterVal t m o = getterVal t m o' := by
  simp only [getterVal, ha, Acc.run]

/-- a decoded step shows, through the getters of the interface, what the written step showed — given
    that the reader assigns parent, index, start time and (where `GetElapsed` reads a field) the elapsed time -/
theorem stepObs_over (t : String) (c : Nat) (e : Env) (o x : Rec)
    (h1 : accOf t "GetParent" = some (.get "Parent")) (h2 : accOf t "GetIndex" = some (.get "Index"))
    (h3 : accOf t "GetStartTime" = some (.get "StartTime"))
    (h4 : (accOf t "GetElapsed" = some (.get "Elapsed") ∧ e.lookup "Elapsed" = some (x "Elapsed")) ∨
          accOf t "GetElapsed" = some (.const 0))
    (l1 : e.lookup "Parent" = some (x "Parent")) (l2 : e.lookup "Index" = some (x "Index"))
    (l3 : e.lookup "StartTime" = some (x "StartTime")) :
    stepObs t c (e.over o) = stepObs t c x := by
  simp only [stepObs, getterVal_get t _ _ e o x h1 l1, getterVal_get t _ _ e o x h2 l2, getterVal_get t _ _ e o x h3 l3]
  rcases h4 with ⟨h4, l4⟩ | h4
  · rw [getterVal_get t _ _ e o x h4 l4]
  · rw [getterVal_const t _ 0 (e.over o) x h4]

theorem stepObs_plain (t : String) (c : Nat) (l : L) (o x : Rec) (hp : l.plain = true) (hd : l.names.Nodup)
    (h1 : accOf t "GetParent" = some (.get "Parent")) (h2 : accOf t "GetIndex" = some (.get "Index"))
    (h3 : accOf t "GetStartTime" = some (.get "StartTime"))
    (h4 : (accOf t "GetElapsed" = some (.get "Elapsed") ∧ "Elapsed" ∈ l.names) ∨ accOf t "GetElapsed" = some (.const 0))
    (n1 : "Parent" ∈ l.names) (n2 : "Index" ∈ l.names) (n3 : "StartTime" ∈ l.names) :
    stepObs t c ((l.expect x []).over o) = stepObs t c x :=
  stepObs_over t c _ o x h1 h2 h3
    (h4.imp (fun h => ⟨h.1, L.plain_expect_lookup l x [] _ hp hd h.2⟩) id)
    (L.plain_expect_lookup l x [] _ hp hd n1) (L.plain_expect_lookup l x [] _ hp hd n2)
    (L.plain_expect_lookup l x [] _ hp hd n3)

/-- HttpcStepX, any version byte: the common fields are assigned -/
theorem httpc_common_assigned (x : Rec) (nm : String)
    (hn : nm ∈ ["Parent", "Index", "StartTime", "Version", "Url", "Elapsed", "Error", "Host", "Port", "Status",
                "StartCpu", "StartMem", "Stack"]) :
    (httpcStepX.expect x []).lookup nm = some (x nm) := by
  simp only [List.mem_cons, List.mem_nil_iff, or_false] at hn
  simp only [httpcStepX, absStep, seq, L.expect]
  by_cases h1 : (x "Version").toInt = 1 <;> by_cases h2 : (x "Version").toInt = 2 <;>
    rcases hn with rfl | rfl | rfl | rfl | rfl | rfl | rfl | rfl | rfl | rfl | rfl | rfl | rfl <;>
    simp (decide := true) [h1, h2, List.lookup]

/-- one theorem for the nine registered types -/
theorem stepObs_roundtrip (s : Item) (n : String) (o : Rec) (hm : (s.code, n, s.lay) ∈ stepTable) :
    stepObs n s.code ((s.lay.expect s.x []).over o) = stepObs n s.code s.x := by
  obtain ⟨c, l, x⟩ := s
  simp only [stepTable, List.mem_cons, Prod.mk.injEq, List.mem_nil_iff, or_false] at hm
  rcases hm with ⟨rfl, rfl, rfl⟩ | ⟨rfl, rfl, rfl⟩ | ⟨rfl, rfl, rfl⟩ | ⟨rfl, rfl, rfl⟩ | ⟨rfl, rfl, rfl⟩ |
    ⟨rfl, rfl, rfl⟩ | ⟨rfl, rfl, rfl⟩ | ⟨rfl, rfl, rfl⟩ | ⟨rfl, rfl, rfl⟩
  · exact stepObs_plain _ _ methodStepX o x rfl (by decide) (by decide) (by decide) (by decide)
      (Or.inl ⟨by decide, by decide⟩) (by decide) (by decide) (by decide)
  · exact stepObs_plain _ _ sqlStepX o x rfl (by decide) (by decide) (by decide) (by decide)
      (Or.inl ⟨by decide, by decide⟩) (by decide) (by decide) (by decide)
  · exact stepObs_plain _ _ resultSetStep o x rfl (by decide) (by decide) (by decide) (by decide)
      (Or.inl ⟨by decide, by decide⟩) (by decide) (by decide) (by decide)
  · exact stepObs_plain _ _ socketStep o x rfl (by decide) (by decide) (by decide) (by decide)
      (Or.inl ⟨by decide, by decide⟩) (by decide) (by decide) (by decide)
  · exact stepObs_over _ _ _ o x (by decide) (by decide) (by decide)
      (Or.inl ⟨by decide, httpc_common_assigned x _ (by decide)⟩)
      (httpc_common_assigned x _ (by decide)) (httpc_common_assigned x _ (by decide))
      (httpc_common_assigned x _ (by decide))
  · exact stepObs_plain _ _ activeStackStep o x rfl (by decide) (by decide) (by decide) (by decide)
      (Or.inr (by decide)) (by decide) (by decide) (by decide)
  · exact stepObs_plain _ _ messageStep o x rfl (by decide) (by decide) (by decide) (by decide)
      (Or.inr (by decide)) (by decide) (by decide) (by decide)
  · exact stepObs_plain _ _ secureMsgStep o x rfl (by decide) (by decide) (by decide) (by decide)
      (Or.inr (by decide)) (by decide) (by decide) (by decide)
  · exact stepObs_plain _ _ dbcStep o x rfl (by decide) (by decide) (by decide) (by decide)
      (Or.inl ⟨by decide, by decide⟩) (by decide) (by decide) (by decide)

/-! ### TxRecord.ToBytes / ToObject -/

/-- `ToObject(ToBytes() ++ anything)`: the record's fields over the receiver; what follows is ignored -/
theorem txToObject_toBytes (V : ValueRT) (o x : Rec) (rest : Bytes) (h : txRecord.WF V x []) :
    txToObject o (txToBytes x ++ rest) = some ((txRecord.expect x []).over o) := by
  simp only [txToObject, txToBytes, L.readInto_roundtrip V txRecord o x rest h, Option.map]

/-! ### MessageStepX.WriteVer0 / ReadVer0 -/

/-- `Write` = the three decimals of AbstractStep, the version byte 0, then `WriteVer0()` as a blob -/
theorem messageStepX_write_ver0 (x : Rec) :
    messageStepX.write x = (absStep .nil).write x ++ [0] ++ encBlob (writeVer0 x) := by
  simp [messageStepX, absStep, seq, L.write, writeVer0, msgVer0Body, Kind.enc, Val.toInt]

/-- `ReadVer0(WriteVer0())` on any object: title, description and control bits are assigned, the attribute
    map exactly when one was written -/
theorem readVer0_writeVer0 (V : ValueRT) (o x : Rec) (hb : msgVer0Body.inRanges x) (ha : attrWF V (some "Attr") x) :
    readVer0 o (writeVer0 x) = some ((attrEnv (some "Attr") x (msgVer0Body.expect x [])).over o) := by
  have hw : msgVer0Body.WF V x [] := L.plain_WF V msgVer0Body x [] rfl rfl hb
  simp only [readVer0, writeVer0, L.roundtrip V msgVer0Body x [] _ hw, readAttr_rt V (some "Attr") x _ ha, Option.map]

/-! ### mixed streams -/

theorem Elem.roundtrip (V : ValueRT) (e : Elem) (r : Bytes) (h : e.ok V) :
    e.sch.read (e.bytes ++ r) = some (e.expected, r) := by
  obtain ⟨sch, it⟩ := e
  cases sch with
  | step => exact tagged_roundtrip V stepTable it r h
  | svc => exact tagged_roundtrip V serviceTable it r h
  | plain l =>
    simp only [Elem.ok] at h
    obtain ⟨hl, hw⟩ := h
    simp only [Schema.read, Elem.bytes, Elem.expected, hl]
    rw [D.bind_some (L.roundtrip V l it.x [] r hw)]
    rfl

theorem readMixedAcc_roundtrip (V : ValueRT) (es : List Elem) (acc : List (Nat × Env)) (r : Bytes)
    (h : ∀ e ∈ es, e.ok V) :
    readMixedAcc (es.map (·.sch)) acc (writeMixed es ++ r) = some (acc.reverse ++ es.map Elem.expected, r) := by
  induction es generalizing acc with
  | nil => simp [readMixedAcc, writeMixed, D.pure]
  | cons e es ih =>
    simp only [List.map_cons, readMixedAcc, writeMixed, List.append_assoc]
    rw [D.bind_some (Elem.roundtrip V e _ (h e (by simp)))]
    rw [ih (e.expected :: acc) (fun t ht => h t (by simp [ht]))]
    simp

/-- steps, service records and untagged records written one after another onto one output are read back
    from one input, each by the reader of its kind, each consuming exactly its own bytes -/
theorem mixed_roundtrip (V : ValueRT) (es : List Elem) (r : Bytes) (h : ∀ e ∈ es, e.ok V) :
    readMixed (es.map (·.sch)) (writeMixed es ++ r) = some (es.map Elem.expected, r) := by
  unfold readMixed
  rw [readMixedAcc_roundtrip V es [] r h]; simp

end Step
