/-
  Golib.Step.TxRecord — the transaction record's layout spelled out: well-formedness in terms of
  the Go field ranges and the presence conditions, and the `carried` projection (what a reader
  restores into a fresh record).
-/
import Golib.Step.Plain

namespace Step
open Prim

/-- the fields every TxRecord carries, with their primitives -/
def txAlways : List (String × Kind) :=
  [("Txid", .i64), ("EndTime", .dec64), ("Service", .dec32), ("Elapsed", .dec32), ("Error", .dec64),
   ("CpuTime", .dec32), ("Malloc", .dec64), ("SqlCount", .dec32), ("SqlTime", .dec32),
   ("SqlFetchCount", .dec32), ("SqlFetchTime", .dec32), ("HttpcCount", .dec32), ("HttpcTime", .dec32),
   ("Active", .bool), ("StepsDataPos", .dec64), ("Cipher", .dec32), ("IpAddr", .i32), ("WClientId", .dec64),
   ("UserAgent", .dec32), ("Referer", .dec32), ("Status", .dec32), ("HttpMethod", .u8), ("Domain", .dec32),
   ("Login", .dec32), ("ErrorLevel", .u8), ("Oid", .dec32), ("Okind", .dec32), ("Onode", .dec32),
   ("Uuid", .text), ("DbcTime", .dec32), ("Apdex", .u8), ("McallerStepId", .dec64), ("OriginUrl", .text),
   ("StepSplitCount", .dec64)]

/-- the always-present fields that come back unchanged (all of `txAlways` except ErrorLevel) -/
def txPlain : List String :=
  ["Txid", "EndTime", "Service", "Elapsed", "Error", "CpuTime", "Malloc", "SqlCount", "SqlTime",
   "SqlFetchCount", "SqlFetchTime", "HttpcCount", "HttpcTime", "Active", "StepsDataPos", "Cipher", "IpAddr",
   "WClientId", "UserAgent", "Referer", "Status", "HttpMethod", "Domain", "Login", "Oid", "Okind", "Onode",
   "Uuid", "DbcTime", "Apdex", "McallerStepId", "OriginUrl", "StepSplitCount"]

/-- a TxRecord is well-formed when: the always-present fields are in the ranges of their Go types;
    if Mtid ≠ 0 the multi-trace ids are in range; if McallerPcode ≠ 0 the caller identity is in range;
    Fields is nil or holds at most 255 well-formed entries (the count is one byte); and the body is
    shorter than 2^31 bytes (the blob length is a signed 32-bit number) -/
theorem txBody_WF (V : ValueRT) (x : Rec) (e : Env)
    (hc : ∀ p ∈ txAlways, p.2.wf (x p.1))
    (hm : (x "Mtid").toInt ≠ 0 →
        Kind.wf .dec64 (x "Mtid") ∧ Kind.wf .dec32 (x "Mdepth") ∧ Kind.wf .dec64 (x "Mcaller"))
    (hp : (x "McallerPcode").toInt ≠ 0 →
        Kind.wf .dec64 (x "McallerPcode") ∧ Kind.wf .dec32 (x "McallerOkind") ∧
        Kind.wf .dec32 (x "McallerOid") ∧ Kind.wf .dec32 (x "McallerSpec") ∧
        Kind.wf .dec32 (x "McallerUrl") ∧ Kind.wf .dec32 (x "MthisSpec"))
    (hf : fieldsWF V (x "Fields").toMapN) : txBody.WF V x e := by
  have w : ∀ nm k, (nm, k) ∈ txAlways → Kind.wf k (x nm) := fun nm k h => hc (nm, k) h
  simp only [txBody, seq, L.WF, callerAlts, List.lookup]
  repeat' apply And.intro
  all_goals first
    | exact w _ _ (by decide)
    | exact hf
    | decide
    | (split
       · rename_i h; simpa using hm h
       · trivial)
    | (split
       · rename_i h; simpa using hp h
       · trivial)
    | (split <;> (repeat' apply And.intro) <;> first | exact w _ _ (by decide) | trivial)

theorem txRecord_WF (V : ValueRT) (x : Rec)
    (hc : ∀ p ∈ txAlways, p.2.wf (x p.1))
    (hm : (x "Mtid").toInt ≠ 0 →
        Kind.wf .dec64 (x "Mtid") ∧ Kind.wf .dec32 (x "Mdepth") ∧ Kind.wf .dec64 (x "Mcaller"))
    (hp : (x "McallerPcode").toInt ≠ 0 →
        Kind.wf .dec64 (x "McallerPcode") ∧ Kind.wf .dec32 (x "McallerOkind") ∧
        Kind.wf .dec32 (x "McallerOid") ∧ Kind.wf .dec32 (x "McallerSpec") ∧
        Kind.wf .dec32 (x "McallerUrl") ∧ Kind.wf .dec32 (x "MthisSpec"))
    (hf : fieldsWF V (x "Fields").toMapN)
    (hl : (txBody.write x).length < 2147483648) : txRecord.WF V x [] := by
  unfold txRecord
  simp only [L.WF, attrBytes, List.append_nil, attrWF]
  exact ⟨by decide, by decide, hl, txBody_WF V x [] hc hm hp hf, trivial, trivial⟩

/-- the `carried` projection of a TxRecord: exactly which fields `Read` assigns (`lookup = some`), with
    what value, and which it leaves alone (`lookup = none`) -/
def TxCarried (x : Rec) (e : Env) : Prop :=
  (∀ nm ∈ txPlain, e.lookup nm = some (x nm)) ∧
  (if (x "Mtid").toInt ≠ 0
    then e.lookup "Mtid" = some (x "Mtid") ∧ e.lookup "Mdepth" = some (x "Mdepth") ∧ e.lookup "Mcaller" = some (x "Mcaller")
    else e.lookup "Mtid" = none ∧ e.lookup "Mdepth" = none ∧ e.lookup "Mcaller" = none) ∧
  (if (x "McallerPcode").toInt ≠ 0
    then e.lookup "McallerPcode" = some (x "McallerPcode") ∧ e.lookup "McallerOkind" = some (x "McallerOkind") ∧
         e.lookup "McallerOid" = some (x "McallerOid") ∧ e.lookup "McallerSpec" = some (x "McallerSpec") ∧
         e.lookup "McallerUrl" = some (x "McallerUrl") ∧ e.lookup "MthisSpec" = some (x "MthisSpec")
    else e.lookup "McallerPcode" = none ∧ e.lookup "McallerOkind" = none ∧ e.lookup "McallerOid" = none ∧
         e.lookup "McallerSpec" = none ∧ e.lookup "McallerUrl" = none ∧ e.lookup "MthisSpec" = none) ∧
  (e.lookup "Fields" = match (x "Fields").toMapN with
                       | some (kv :: kvs) => some (.m (some (kv :: kvs)))
                       | _ => none) ∧
  e.lookup "ErrorLevel" =
    some (if (x "ErrorLevel").toInt = 0 ∧ (x "Error").toInt ≠ 0 then .i 20 else x "ErrorLevel")

set_option maxRecDepth 8000 in
theorem txRecord_carried (x : Rec) : TxCarried x (txRecord.expect x []) := by
  unfold TxCarried
  generalize he : txRecord.expect x [] = e
  simp only [txRecord, txBody, seq, L.expect, attrEnv] at he
  generalize (x "Fields").toMapN = fm at he ⊢
  by_cases hm : (x "Mtid").toInt ≠ 0 <;> by_cases hp : (x "McallerPcode").toInt ≠ 0 <;>
    rcases fm with _ | _ | ⟨kv, kvs⟩ <;>
    (subst he; simp (decide := true) [hm, hp, txPlain, Env.get, List.lookup, dfl])

end Step
