/-
  Golib.Step.Layouts — the wire layouts of lang/step/*.go, lang/service/*.go and the bodies of the
  three profile-carrying packs, transcribed call by call from the Go `Write`/`Read` pairs, plus the
  two registries (`step.CreateStep`, `service.CreateService`).

  Field names are the Go struct field names.  The translator xlate/c08 regenerates the same data
  from the source (Golib.Gen.C08) and Golib.Props.C08Gen compares.
-/
import Golib.Step.IR

namespace Step

/-- a run of plain fields -/
def seq : List (String × Kind) → L → L
  | [], rest => rest
  | (nm, k) :: fs, rest => .fld nm k (seq fs rest)

/-! ### lang/step -/

/-- `AbstractStep.Write/Read`: three decimals (Drop and Opt are process-local, not on the wire) -/
def absStep (rest : L) : L :=
  seq [("Parent", .dec32), ("Index", .dec32), ("StartTime", .dec32)] rest

def methodStepX : L :=
  absStep (.lit .u8 0 (seq [("Hash", .dec32), ("Elapsed", .dec32), ("StartCpu", .dec32),
    ("StartMem", .dec32), ("Stack", .intArr)] .nil))

def sqlStepX : L :=
  absStep (.lit .u8 0 (seq [("Hash", .dec32), ("Elapsed", .dec32), ("Error", .dec64), ("Xtype", .u8),
    ("Dbc", .dec32), ("P1", .blob), ("P2", .blob), ("Pcrc", .u8), ("StartCpu", .dec32),
    ("StartMem", .dec64), ("Stack", .intArr)] .nil))

def resultSetStep : L :=
  absStep (seq [("Dbc", .dec32), ("SqlHash", .dec32), ("Elapsed", .dec32), ("Fetch", .dec32)] .nil)

def socketStep : L :=
  absStep (seq [("IpAddr", .blob), ("Port", .dec32), ("Elapsed", .dec32), ("Error", .dec64)] .nil)

/-- version 1: a placeholder decimal 0; version 2: step id, driver, origin url, param;
    any other version: nothing (both sides' `switch` have no default arm).
    `Version` is a field here: the model describes `Read` with the proposed fix for D29
    (`this.Version = ver`). -/
def httpcStepX : L :=
  absStep (seq [("Version", .u8), ("Url", .dec32), ("Elapsed", .dec32), ("Error", .dec64),
    ("Host", .dec32), ("Port", .dec32), ("Status", .dec32), ("StartCpu", .dec32), ("StartMem", .dec64),
    ("Stack", .intArr)]
    (.sw "Version"
      (.lit .dec64 0 .nil)
      (seq [("StepId", .dec64), ("Driver", .text), ("OriginUrl", .text), ("Param", .text)] .nil)
      .nil))

def activeStackStep : L :=
  absStep (seq [("Seq", .i64), ("HasCallstack", .bool)] .nil)

def messageStep : L :=
  absStep (seq [("Hash", .dec32), ("Time", .dec32), ("Value", .dec32), ("Desc", .text)] .nil)

/-- `SecureMsgStep.Opt` (the one on the wire) shadows `AbstractStep.Opt` -/
def secureMsgStep : L :=
  absStep (seq [("Hash", .dec32), ("Opt", .u8), ("Crc", .u8), ("Value", .blob)] .nil)

def dbcStep : L :=
  absStep (seq [("Hash", .dec32), ("Elapsed", .dec32), ("Error", .dec32)] .nil)

/-- version byte 0, then a blob holding title, desc, ctr and — only if `Attr != nil` — the tagged map -/
def messageStepX : L :=
  absStep (.lit .u8 0 (.wrap (seq [("Title", .text), ("Desc", .text), ("Ctr", .i32)] .nil) (some "Attr") .nil))

/-- `SqlStep_3` (not in the registry; its `GetStepType` answers STEP_SQL_X) -/
def sqlStep3 : L :=
  absStep (seq [("Hash", .dec32), ("Elapsed", .dec32), ("Error", .dec64), ("Xtype", .u8),
    ("Updated", .dec32), ("Crud", .u8), ("Dbc", .dec32), ("Opt", .u8)]
    (.bit "Opt" 1 (seq [("P1", .blob), ("P2", .blob), ("Pcrc", .u8)] .nil)
    (.bit "Opt" 2 (seq [("StartCpu", .dec32), ("Cpu", .dec32), ("StartMem", .dec32), ("Mem", .dec32)] .nil)
    (.bit "Opt" 4 (seq [("Stack", .intArr)] .nil) .nil))))

/-- `step.CreateStep`: type code → (Go type, layout), in the order of the switch -/
def stepTable : List (Nat × String × L) :=
  [ (17, "MethodStepX", methodStepX),
    (18, "SqlStepX", sqlStepX),
    (3, "ResultSetStep", resultSetStep),
    (5, "SocketStep", socketStep),
    (19, "HttpcStepX", httpcStepX),
    (6, "ActiveStackStep", activeStackStep),
    (7, "MessageStep", messageStep),
    (15, "SecureMsgStep", secureMsgStep),
    (8, "DBCStep", dbcStep) ]

/-- step types that exist with `Write/Read/GetStepType` but are absent from `CreateStep` -/
def unregisteredSteps : List (Nat × String × L) :=
  [ (22, "MessageStepX", messageStepX), (18, "SqlStep_3", sqlStep3) ]

/-! ### lang/service -/

def absService (rest : L) : L :=
  seq [("Seq", .i64), ("EndTime", .dec64), ("Service", .dec32), ("Elapsed", .dec32), ("Error", .dec64),
    ("CpuTime", .dec32), ("SqlCount", .dec32), ("SqlTime", .dec32), ("SqlFetchCount", .dec32),
    ("SqlFetchTime", .dec32), ("Malloc", .dec64), ("HttpcCount", .dec32), ("HttpcTime", .dec32),
    ("Active", .bool), ("Steps_data_pos", .dec64)] rest

/-- `WasService` (and `WasService2`, which delegates); `Mtid/Mdepth/Mcaller` are WasService's own
    fields (they shadow the ones of AbstractService, which never travel) -/
def wasService : L :=
  absService (.fld "IpAddr" .i32 (.lit .dec64 0 (seq [("WClientId", .dec64), ("UserAgent", .dec32),
    ("Referer", .dec32), ("Status", .dec32), ("Mtid", .dec64), ("Mdepth", .dec32), ("Mcaller", .dec64)] .nil)))

def appService : L := absService .nil

/-- `service.CreateService` -/
def serviceTable : List (Nat × String × L) :=
  [ (1, "WasService", wasService), (2, "AppService", appService), (3, "WasService2", wasService) ]

/-- the caller-identity section as older writers emitted it (reader side only) -/
def callerAlts : List (Nat × List (String × Kind)) :=
  [ (1, [("McallerPcode", .dec64)]),
    (3, [("McallerPcode", .dec64), ("McallerSpec", .dec32), ("McallerUrl", .dec32)]),
    (4, [("McallerPcode", .dec64), ("McallerSpec", .dec32), ("McallerUrl", .dec32), ("MthisSpec", .dec32)]),
    (5, [("McallerPcode", .dec64), ("McallerOid", .dec32), ("McallerSpec", .dec32), ("McallerUrl", .dec32),
         ("MthisSpec", .dec32)]) ]

/-- the blob body of `TxRecord.Write/Read` -/
def txBody : L :=
  seq [("Txid", .i64), ("EndTime", .dec64), ("Service", .dec32), ("Elapsed", .dec32), ("Error", .dec64),
    ("CpuTime", .dec32), ("Malloc", .dec64), ("SqlCount", .dec32), ("SqlTime", .dec32),
    ("SqlFetchCount", .dec32), ("SqlFetchTime", .dec32), ("HttpcCount", .dec32), ("HttpcTime", .dec32),
    ("Active", .bool), ("StepsDataPos", .dec64), ("Cipher", .dec32), ("IpAddr", .i32), ("WClientId", .dec64),
    ("UserAgent", .dec32), ("Referer", .dec32), ("Status", .dec32)]
  (.opt 1 true "Mtid" (seq [("Mtid", .dec64), ("Mdepth", .dec32), ("Mcaller", .dec64)] .nil) []
  (.opt 6 false "McallerPcode"
      (seq [("McallerPcode", .dec64), ("McallerOkind", .dec32), ("McallerOid", .dec32), ("McallerSpec", .dec32),
        ("McallerUrl", .dec32), ("MthisSpec", .dec32)] .nil) callerAlts
  (seq [("HttpMethod", .u8), ("Domain", .dec32)]
  (.fields "Fields"
  (.fld "Login" .dec32
  (.dflt "ErrorLevel" .u8 "Error" 20
  (seq [("Oid", .dec32), ("Okind", .dec32), ("Onode", .dec32), ("Uuid", .text), ("DbcTime", .dec32),
    ("Apdex", .u8), ("McallerStepId", .dec64), ("OriginUrl", .text), ("StepSplitCount", .dec64)] .nil)))))))

/-- `TxRecord.Write`: version byte 10, then the body as a blob; `TxRecord.Read` panics on a version below 10 -/
def txRecord : L := .ver 10 10 (.wrap txBody none .nil)

/-! ### bodies of the profile-carrying packs (after the AbstractPack header, which belongs to C03) -/

/-- `ProfilePack`: the transaction record, then the step stream as a blob
    (the model describes `Read` with the proposed fix for D23: it reads a TxRecord) -/
def profilePackBody : L := .ver 10 10 (.wrap txBody none (.fld "Steps" .blob .nil))

def profileStepSplitPackBody : L :=
  .lit .u8 0 (seq [("Txid", .i64), ("Inx", .dec64), ("Steps", .blob)] .nil)

def errorSnapPack1Body : L :=
  seq [("Seq", .i64), ("Profile", .blob), ("Stack", .blob), ("AppendType", .u8), ("AppendHash", .dec32)] .nil

/-- every single (untagged) layout by the name the driver and harness use -/
def singles : List (String × L) :=
  [ ("TxRecord", txRecord), ("MessageStepX", messageStepX), ("SqlStep_3", sqlStep3),
    ("ProfilePack", profilePackBody), ("ProfileStepSplitPack", profileStepSplitPackBody),
    ("ErrorSnapPack1", errorSnapPack1Body) ]

/-! ### names and shapes of the fields of a layout (for printing a decoded record) -/

inductive Shape where | int | bytes | ints | map
deriving DecidableEq, Repr

def Kind.shape : Kind → Shape
  | .blob => .bytes | .text => .bytes | .intArr => .ints | _ => .int

def L.fieldShapes : L → List (String × Shape)
  | .nil => []
  | .fld nm k rest => (nm, k.shape) :: rest.fieldShapes
  | .lit _ _ rest => rest.fieldShapes
  | .sw _ c1 c2 rest => c1.fieldShapes ++ c2.fieldShapes ++ rest.fieldShapes
  | .opt _ _ _ body _ rest => body.fieldShapes ++ rest.fieldShapes
  | .dflt nm k _ _ rest => (nm, k.shape) :: rest.fieldShapes
  | .wrap body attr rest =>
    body.fieldShapes ++ (match attr with | some nm => [(nm, Shape.map)] | none => []) ++ rest.fieldShapes
  | .fields nm rest => (nm, .map) :: rest.fieldShapes
  | .bit _ _ body rest => body.fieldShapes ++ rest.fieldShapes
  | .ver _ _ rest => rest.fieldShapes

def Shape.zero : Shape → Val
  | .int => .i 0 | .bytes => .b [] | .ints => .is [] | .map => .m none

/-- a freshly constructed Go object with the fields of `e` assigned -/
def Env.val (e : Env) (nm : String) (s : Shape) : Val :=
  match e.lookup nm with
  | some v => v
  | none => s.zero

/-! ### tagged families and streams -/

def lookupLayout (tbl : List (Nat × String × L)) (code : Nat) : Option L :=
  match tbl.lookup code with
  | some (_, l) => some l
  | none => none

/-- a value of some step (service) type: its type code, its layout, its fields -/
structure Item where
  code : Nat
  lay : L
  x : Rec

/-- `WriteStep` / `service.ToBytes`: the type byte, then the body -/
def Item.bytes (s : Item) : Bytes := s.code :: s.lay.write s.x

/-- `ToBytesStep`: the steps back to back -/
def toBytesStep : List Item → Bytes
  | [] => []
  | s :: ss => s.bytes ++ toBytesStep ss

/-- `ReadStep` / `service.ToObject`: type byte, constructor from the registry (an unknown code
    yields nil and the following `Read` call panics), then the body into the fresh object -/
def readOne (tbl : List (Nat × String × L)) : D (Nat × Env) :=
  D.bind (D.ofP (Prim.rdU 1)) (fun t =>
    match lookupLayout tbl t with
    | none => D.fail
    | some l => D.bind (l.read []) (fun e => D.pure (t, e)))

def readNAcc (tbl : List (Nat × String × L)) : Nat → List (Nat × Env) → D (List (Nat × Env))
  | 0, acc => D.pure acc.reverse
  | n+1, acc => D.bind (readOne tbl) (fun s => readNAcc tbl n (s :: acc))

/-- `n` calls of `ReadStep` -/
def readN (tbl : List (Nat × String × L)) (n : Nat) : D (List (Nat × Env)) := readNAcc tbl n []

/-- `ReadStep` until the input is used up (what a consumer of `ProfilePack.Steps` does) -/
def readAllF (tbl : List (Nat × String × L)) : Nat → List (Nat × Env) → Bytes → Option (List (Nat × Env))
  | _, acc, [] => some acc.reverse
  | 0, _, _ :: _ => none
  | f+1, acc, b :: bs =>
    match readOne tbl (b :: bs) with
    | none => none
    | some (s, r) => readAllF tbl f (s :: acc) r

def readAll (tbl : List (Nat × String × L)) (bs : Bytes) : Option (List (Nat × Env)) :=
  readAllF tbl bs.length [] bs

end Step
