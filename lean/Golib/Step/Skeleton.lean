/-
  Golib.Step.Skeleton — the call skeleton a layout stands for: the ordered `Write*` calls of the
  Go writer and the ordered `Read*` calls of the Go reader (with the declared Go type of each field,
  the conversion applied on reading, the constants, and the if/switch structure), in the token
  language of the translator xlate/c08.  `Golib.Props.C08Gen` compares these with the skeletons
  regenerated from the source on every run (tie A).
-/
import Golib.Step.Layouts

namespace Step

def Kind.wtok : Kind → String → String
  | .u8, nm => s!"WriteByte {nm}:byte"
  | .bool, nm => s!"WriteBool {nm}:bool"
  | .i32, nm => s!"WriteInt {nm}:int32"
  | .i64, nm => s!"WriteLong {nm}:int64"
  | .dec32, nm => s!"WriteDecimal {nm}:int32"
  | .dec64, nm => s!"WriteDecimal {nm}:int64"
  | .blob, nm => s!"WriteBlob {nm}:[]byte"
  | .text, nm => s!"WriteText {nm}:string"
  | .intArr, nm => s!"WriteIntArray {nm}:[]int32"

def Kind.rtok : Kind → String → String
  | .u8, nm => s!"ReadByte {nm}:byte"
  | .bool, nm => s!"ReadBool {nm}:bool"
  | .i32, nm => s!"ReadInt {nm}:int32"
  | .i64, nm => s!"ReadLong {nm}:int64"
  | .dec32, nm => s!"ReadDecimal {nm}:int32 int32"
  | .dec64, nm => s!"ReadDecimal {nm}:int64"
  | .blob, nm => s!"ReadBlob {nm}:[]byte"
  | .text, nm => s!"ReadText {nm}:string"
  | .intArr, nm => s!"ReadIntArray {nm}:[]int32"

def Kind.wlit : Kind → Int → String
  | .u8, v => s!"WriteByte #{v}"
  | .dec32, v => s!"WriteDecimal #{v}"
  | .dec64, v => s!"WriteDecimal #{v}"
  | _, v => s!"unknown-literal #{v}"

def Kind.rlit : Kind → String
  | .u8 => "ReadByte _"
  | .dec32 => "ReadDecimal _"
  | .dec64 => "ReadDecimal _"
  | _ => "unknown-literal"

/-- the custom-field section of `TxRecord.Write` (hand-modelled by `L.fields`) as the translator sees it -/
def fieldsW (nm : String) : List String :=
  [s!"if {nm} == nil", "WriteByte #0", "else", s!"WriteByte {nm}.Size()",
   s!"for {nm}.Keys().HasMoreElements()", s!"if {nm}.Get({nm}.Keys().NextString()) != nil",
   s!"if {nm}.Get({nm}.Keys().NextString()).(value.Value)#1", s!"WriteText {nm}.Keys().NextString()",
   s!"WriteValue {nm}.Get({nm}.Keys().NextString()).(value.Value)#0", "end", "else",
   s!"WriteText {nm}.Keys().NextString()", "WriteValue value.NewTextValue(\"\")", "end", "end", "end"]

/-- … and of `TxRecord.Read` -/
def fieldsR (nm : String) : List String :=
  ["ReadByte local2", "if local2 > 0", s!"assign {nm}:*value.MapValue = value.NewMapValue()",
   "for 0 < local2", "ReadText local3", "ReadValue local4", s!"call {nm}.Put(local3, local4)", "end", "end"]

def attrW : Option String → List String
  | none => []
  | some nm => [s!"if {nm} != nil", s!"WriteMapValue {nm}:*value.MapValue", "end"]

def flatR : List (String × Kind) → List String
  | [] => []
  | (nm, k) :: fs => k.rtok nm :: flatR fs

def altsR : List (Nat × List (String × Kind)) → List String
  | [] => []
  | (n, fs) :: as => s!"case {n}" :: (flatR fs ++ altsR as)

def L.wskel : L → List String
  | .nil => []
  | .fld nm k rest => k.wtok nm :: rest.wskel
  | .lit k v rest => k.wlit v :: rest.wskel
  | .sw nm c1 c2 rest =>
    [s!"switch {nm}", "case 1"] ++ c1.wskel ++ ["case 2"] ++ c2.wskel ++ ["end"] ++ rest.wskel
  | .opt flag _ cond body _ rest =>
    [s!"if {cond} != 0", s!"WriteByte #{flag}"] ++ body.wskel ++ ["else", "WriteByte #0", "end"] ++ rest.wskel
  | .dflt nm k _ _ rest => k.wtok nm :: rest.wskel
  | .wrap body attr rest => ["sub{"] ++ body.wskel ++ attrW attr ++ ["}sub", "WriteBlob sub"] ++ rest.wskel
  | .fields nm rest => fieldsW nm ++ rest.wskel
  | .bit _ mask body rest => [s!"if IsTrue({mask})"] ++ body.wskel ++ ["end"] ++ rest.wskel

/-- reader skeleton; a `wrap` closes at the end of the function (`}sub` after the rest), as the
    sub-stream reader of TxRecord.Read does -/
def L.rskel : L → List String
  | .nil => []
  | .fld nm k rest => k.rtok nm :: rest.rskel
  | .lit k _ rest => k.rlit :: rest.rskel
  | .sw nm c1 c2 rest =>
    [s!"switch {nm}", "case 1"] ++ c1.rskel ++ ["case 2"] ++ c2.rskel ++ ["end"] ++ rest.rskel
  | .opt flag anyPos _ body alts rest =>
    (if anyPos then ["if $.ReadByte() > 0"] ++ body.rskel ++ ["end"]
     else ["switch $.ReadByte()"] ++ altsR alts ++ [s!"case {flag}"] ++ body.rskel ++ ["end"]) ++ rest.rskel
  | .dflt nm k cond d rest =>
    [k.rtok nm, s!"if {nm} == 0", s!"if {cond} != 0", s!"assign {nm}:byte = {d}", "end", "end"] ++ rest.rskel
  | .wrap body _ rest => ["ReadBlob sub", "sub{"] ++ body.rskel ++ rest.rskel ++ ["}sub"]
  | .fields nm rest => fieldsR nm ++ rest.rskel
  | .bit _ mask body rest => [s!"if IsTrue({mask})"] ++ body.rskel ++ ["end"] ++ rest.rskel

/-! ### the skeletons of the irregular readers, by hand -/

/-- `TxRecord.Read`: the version test in front of the blob -/
def txRecordR : List String :=
  ["ReadByte local1", "if local1 < 10", "panic", "end"] ++ (L.wrap txBody none .nil).rskel

/-- `MessageStepX.Read` + `ReadVer0` (with the proposed fix: the value is read only if bytes are left) -/
def messageStepXR : List String :=
  (absStep .nil).rskel ++
  ["ReadByte local1", "ReadBlob local2", "if local1 == 0", "from local2", "sub{",
   "ReadText Title:string", "ReadText Desc:string", "ReadInt Ctr:int32",
   "if $.Available() > 0", "ReadValue local3", "if local3.(*value.MapValue)#1",
   "assign Attr:*value.MapValue = local3.(*value.MapValue)#0", "end", "end", "}sub", "end"]

/-- the packs: header call (C03's subject), then the body -/
def profilePackW : List String :=
  ["call AbstractPack.Write", "call Transaction.Write($)", "WriteBlob Steps:[]byte"]
/-- with the proposed fix for D23 -/
def profilePackR : List String :=
  ["call AbstractPack.Read", "assign Transaction:*service.TxRecord = service.NewTxRecord().Read($)",
   "ReadBlob Steps:[]byte"]

end Step
