/-
  Golib.Step.Api — the rest of the exported API of the anchored files, around `Write` / `Read`:

  * the one-line accessors of the `step.Step` interface (`GetParent/SetParent`, `GetIndex/SetIndex`,
    `GetStartTime/SetStartTime`, `GetDrop/SetDrop`, `IsTrue/SetTrue`, `GetElapsed` per type) and
    SqlStep_3's own `IsTrue/SetTrue`: `Acc` names what such a method does, `accessorTable` which method
    does what (regenerated from the source and compared in Golib.Props.C08Gen), `Acc.run` its meaning on
    a record, `runCalls` a history of calls on one object;
  * the constructors (`NewT()`: zero object, `NewHttpcStepX`: Version 2, `NewHttpcStepXVersion(v)`,
    `NewMessageStepXWithStartTime(t)`), hence the object `ReadStep` / `service.ToObject` hand out:
    the fields the reader assigns laid over the constructor's object (`readObj`);
  * `TxRecord.ToBytes` / `TxRecord.ToObject` (the latter ignores whatever follows the record);
  * `MessageStepX.WriteVer0` / `ReadVer0` called directly, `MessageStepX.CtrToJson`;
  * a mixed stream: steps, service records and untagged records (TxRecord, MessageStepX, pack bodies)
    written one after another onto ONE output and read back, each by its own reader, from ONE input.

  Definitions only (the driver imports this file); the facts are in Golib.Step.ApiFacts.
-/
import Golib.Step.Setters

namespace Step
open Prim

/-! ### accessors -/

inductive Acc where
  | get (f : String)        -- return this.f
  | const (v : Int)         -- return v
  | set (f : String)        -- this.f = arg
  | orByte (f : String)     -- this.f |= byte(arg)
  | bit (f : String)        -- return (this.f & byte(arg)) != 0
deriving DecidableEq, Repr

/-- the fields of `AbstractStep` that never travel live under qualified names: several step types have an
    `Opt` of their own (SecureMsgStep, SqlStep_3) that shadows the embedded one -/
def qualField (recv f : String) : String :=
  if recv = "AbstractStep" then (if f = "Drop" then "AbstractStep.Drop" else if f = "Opt" then "AbstractStep.Opt" else f)
  else f

/-- `byte(flag)` of an `int` argument -/
def byteOf (k : Int) : Nat := (k % 256).toNat

/-- the object after the call and the value returned (0 when the method returns nothing; booleans 0/1) -/
def Acc.run : Acc → Int → Rec → Rec × Int
  | .get f, _, o => (o, (o f).toInt)
  | .const v, _, o => (o, v)
  | .set f, a, o => (o.set f (.i a), 0)
  | .orByte f, a, o => (o.set f (.i (((o f).toInt.toNat ||| byteOf a) % 256 : Nat)), 0)
  | .bit f, a, o => (o, if ((o f).toInt.toNat &&& byteOf a) != 0 then 1 else 0)

/-- which method does what: (receiver type, method) ↦ semantics.  The nine registered step types, MessageStepX
    and SqlStep_3 embed `AbstractStep` and so answer its methods (`accOf`). -/
def accessorTable : List ((String × String) × Acc) :=
  [ (("AbstractStep", "GetStartTime"), .get "StartTime"), (("AbstractStep", "SetStartTime"), .set "StartTime"),
    (("AbstractStep", "SetParent"), .set "Parent"), (("AbstractStep", "GetParent"), .get "Parent"),
    (("AbstractStep", "SetIndex"), .set "Index"), (("AbstractStep", "GetIndex"), .get "Index"),
    (("AbstractStep", "SetDrop"), .set "AbstractStep.Drop"), (("AbstractStep", "GetDrop"), .get "AbstractStep.Drop"),
    (("AbstractStep", "IsTrue"), .bit "AbstractStep.Opt"), (("AbstractStep", "SetTrue"), .orByte "AbstractStep.Opt"),
    (("MethodStepX", "GetElapsed"), .get "Elapsed"), (("SqlStepX", "GetElapsed"), .get "Elapsed"),
    (("ResultSetStep", "GetElapsed"), .get "Elapsed"), (("SocketStep", "GetElapsed"), .get "Elapsed"),
    (("HttpcStepX", "GetElapsed"), .get "Elapsed"), (("ActiveStackStep", "GetElapsed"), .const 0),
    (("MessageStep", "GetElapsed"), .const 0), (("SecureMsgStep", "GetElapsed"), .const 0),
    (("DBCStep", "GetElapsed"), .get "Elapsed"), (("MessageStepX", "GetElapsed"), .const 0),
    (("SqlStep_3", "GetElapsed"), .get "Elapsed"),
    (("SqlStep_3", "IsTrue"), .bit "Opt"), (("SqlStep_3", "SetTrue"), .orByte "Opt") ]

/-- method resolution on a step type: its own method, else the promoted one of `AbstractStep` -/
def accOf (t m : String) : Option Acc :=
  match accessorTable.lookup (t, m) with
  | some a => some a
  | none => accessorTable.lookup ("AbstractStep", m)

/-- a history of accessor calls on one object: the object afterwards and what each call returned -/
def runCalls (t : String) : List (String × Int) → Rec → List Int → Option (Rec × List Int)
  | [], o, acc => some (o, acc.reverse)
  | (m, a) :: cs, o, acc =>
    match accOf t m with
    | none => none
    | some ac => let p := ac.run a o; runCalls t cs p.1 (p.2 :: acc)

/-- a getter of the Step interface evaluated on an object -/
def getterVal (t m : String) (o : Rec) : Int :=
  match accOf t m with
  | some a => (a.run 0 o).2
  | none => 0

/-- what the `step.Step` interface shows of a step: type code, parent, index, start time, elapsed -/
def stepObs (t : String) (code : Nat) (o : Rec) : List Int :=
  [code, getterVal t "GetParent" o, getterVal t "GetIndex" o, getterVal t "GetStartTime" o, getterVal t "GetElapsed" o]

/-! ### constructors -/

/-- constructor ↦ (type, the fields it sets; `none` = the constructor's argument) -/
def ctorTable : List (String × String × List (String × Option Val)) :=
  [ ("NewMethodStepX", "MethodStepX", []), ("NewSqlStepX", "SqlStepX", []), ("NewResultSetStep", "ResultSetStep", []),
    ("NewSocketStep", "SocketStep", []), ("NewHttpcStepX", "HttpcStepX", [("Version", some (.i 2))]),
    ("NewHttpcStepXVersion", "HttpcStepX", [("Version", none)]), ("NewActiveStackStep", "ActiveStackStep", []),
    ("NewMessageStep", "MessageStep", []), ("NewSecureMsgStep", "SecureMsgStep", []), ("NewDBCStep", "DBCStep", []),
    ("NewMessageStepX", "MessageStepX", []), ("NewMessageStepXWithStartTime", "MessageStepX", [("StartTime", none)]),
    ("NewSqlStep_3", "SqlStep_3", []), ("NewWasService", "WasService", []), ("NewAppService", "AppService", []),
    ("NewWasService2", "WasService2", []), ("NewTxRecord", "TxRecord", []), ("NewProfilePack", "ProfilePack", []),
    ("NewProfileStepSplitPack", "ProfileStepSplitPack", [("Steps", some (.b []))]),
    ("NewErrorSnapPack1", "ErrorSnapPack1", []) ]

/-- the layout of a Go type by name -/
def layoutOfType (t : String) : Option L :=
  match singles.lookup t with
  | some l => some l
  | none => ((stepTable ++ unregisteredSteps ++ serviceTable).find? (fun (_, n, _) => n == t)).map (fun (_, _, l) => l)

def applyInits (arg : Int) : List (String × Option Val) → Rec → Rec
  | [], o => o
  | (f, some v) :: is, o => applyInits arg is (o.set f v)
  | (f, none) :: is, o => applyInits arg is (o.set f (.i arg))

/-- the object a constructor returns: every field its zero value, then the constructor's assignments -/
def fresh (ctor : String) (arg : Int) : Option (String × Rec) :=
  match ctorTable.lookup ctor with
  | none => none
  | some (t, inits) =>
    match layoutOfType t with
    | none => none
    | some l => some (t, applyInits arg inits (zeroOf l))

/-- `CreateStep(code)` / `CreateService(code)` call the argument-less constructor of the type -/
def freshOfType (t : String) : Rec :=
  match ctorTable.find? (fun (_, ty, inits) => ty == t && inits.all (fun p => p.2.isSome)) with
  | some (c, _, _) =>
    (match fresh c 0 with
     | some (_, o) => o
     | none => fun _ => .i 0)
  | none => fun _ => .i 0

/-- `ReadStep` / `service.ToObject` as the caller sees them: the type code and the OBJECT handed out — the
    fields the reader assigned laid over what the registry's constructor made -/
def readObj (tbl : List (Nat × String × L)) : D (Nat × Rec) := fun bs =>
  match readOne tbl bs with
  | none => none
  | some ((c, e), r) =>
    match tbl.lookup c with
    | some (t, _) => some ((c, e.over (freshOfType t)), r)
    | none => none

/-! ### TxRecord.ToBytes / ToObject -/

/-- `t.ToBytes()`: a new output, `t.Write`, its bytes -/
def txToBytes (x : Rec) : Bytes := txRecord.write x

/-- `t.ToObject(b)`: `t.Read` on a new input over `b`; what follows the record is not looked at -/
def txToObject (o : Rec) (b : Bytes) : Option Rec := (txRecord.readInto o b).map (·.1)

/-! ### MessageStepX.WriteVer0 / ReadVer0 / CtrToJson -/

def msgVer0Body : L := seq [("Title", .text), ("Desc", .text), ("Ctr", .i32)] .nil

/-- `WriteVer0()`: title, description, control bits and — only if `Attr != nil` — the tagged map -/
def writeVer0 (x : Rec) : Bytes := msgVer0Body.write x ++ attrBytes (some "Attr") x

/-- `ReadVer0(bytes)` on an existing object -/
def readVer0 (o : Rec) (bs : Bytes) : Option Rec :=
  match msgVer0Body.read [] bs with
  | none => none
  | some (e, r) => (readAttr (some "Attr") e r).map (fun e' => e'.over o)

/-- `CtrToJson()`: the keys of the object it returns (all values `true`) -/
def ctrToJson (o : Rec) : List String :=
  if (toU 4 (o "Ctr").toInt &&& 1) != 0 then ["SINGLE_LINE_DISPLAY"] else []

/-! ### mixed streams -/

/-- how one element of a mixed stream is written and read -/
inductive Schema where
  | step                 -- step.WriteStep / step.ReadStep
  | svc                  -- service.ToBytes / service.ToObject
  | plain (l : L)        -- x.Write(out) / NewT().Read(in): TxRecord, MessageStepX, SqlStep_3, pack bodies
deriving DecidableEq, Repr

structure Elem where
  sch : Schema
  it : Item            -- for `plain` the code is not written (and reads back as 0)

def Elem.bytes (e : Elem) : Bytes :=
  match e.sch with
  | .plain _ => e.it.lay.write e.it.x
  | _ => e.it.bytes

def Schema.read : Schema → D (Nat × Env)
  | .step => readOne stepTable
  | .svc => readOne serviceTable
  | .plain l => D.bind (l.read []) (fun e => D.pure (0, e))

def Elem.expected (e : Elem) : Nat × Env :=
  match e.sch with
  | .plain _ => (0, e.it.lay.expect e.it.x [])
  | _ => e.it.expected

def Elem.ok (V : ValueRT) (e : Elem) : Prop :=
  match e.sch with
  | .step => e.it.ok V stepTable
  | .svc => e.it.ok V serviceTable
  | .plain l => e.it.lay = l ∧ l.WF V e.it.x []

/-- everything written onto one output, in order -/
def writeMixed : List Elem → Bytes
  | [] => []
  | e :: es => e.bytes ++ writeMixed es

/-- the consumer reads element by element from one input, each with the reader of its kind -/
def readMixedAcc : List Schema → List (Nat × Env) → D (List (Nat × Env))
  | [], acc => D.pure acc.reverse
  | s :: ss, acc => D.bind s.read (fun r => readMixedAcc ss (r :: acc))

def readMixed (ss : List Schema) : D (List (Nat × Env)) := readMixedAcc ss []

end Step
