/-
  Golib.Step.Tok — the tokens of a regenerated Write / Read skeleton (written by xlate/c08, which
  does the lexing; read by the interpreter Golib.Step.Interp).
-/
namespace Step

inductive Tok where
  | w (m nm ty : String)            -- <stream>.m(this.nm)            nm declared with Go type ty
  | wl (m : String) (v : Int)       -- <stream>.m(<integer literal>)
  | wsub                            -- <stream>.WriteBlob(<sub-stream>.ToByteArray())
  | wx (m arg : String)             -- <stream>.m(<other expression>)
  | r (m nm ty conv : String)       -- this.nm = conv(<stream>.m())
  | rd (m : String)                 -- <stream>.m()  result dropped
  | rsub (m : String)               -- NewDataInputX(<stream>.m())
  | rl (m loc conv : String)        -- loc := conv(<stream>.m())
  | sw (e : String) | swrd | cs (n : Nat)
  | ifnz (e : String) | ifz (e : String) | ifnil (e : String) | ifnn (e : String) | ifbit (f : String) (k : Nat)   -- if this.f & k != 0
  | iftype (v ty : String)          -- if _, ok := v.(ty); ok
  | asgcast (f fty v ty : String)   -- this.f = v.(ty)
  | iflt (loc : String) (k : Nat) | ifeq (loc : String) (k : Nat) | ifpos (loc : String)
  | ifrdpos | ifavail | iff (c : String)
  | el | en | lp (c : String) | so | sc | fr (e : String) | pn | ret
  | asg (f ty e : String) | asgn (f ty : String) (v : Int) | asgop (f ty op e : String)   -- this.f op= e
  | call (e : String) | raw (s : String)
deriving DecidableEq, Repr

end Step
