/-
  Golib.Step.Legacy — the transaction record as older agents wrote it.

  `legacyChoice w g f`: version byte `w`, multi-trace presence byte `g`, caller-identity flag `f`.
  Well-formedness of such an encoding spelled out (`txRecord_WFAlt`), which caller fields a flag
  carries (`callerKeeps`), and the shape of what the reader assigns (`TxCarriedLegacy`); the
  per-flag proofs of the latter are in LegacyCarried{A,B,C}.lean.
-/
import Golib.Step.Alt
import Golib.Step.TxRecord

namespace Step
open Prim

def legacyChoice (w g f : Nat) : Choice := fun k =>
  if k = "$ver" then some w else if k = "Mtid" then some g else if k = "McallerPcode" then some f else none

theorem legacyChoice_ver (w g f : Nat) : legacyChoice w g f "$ver" = some w := by simp [legacyChoice]
theorem legacyChoice_mtid (w g f : Nat) : legacyChoice w g f "Mtid" = some g := by
  simp (decide := true) [legacyChoice]
theorem legacyChoice_caller (w g f : Nat) : legacyChoice w g f "McallerPcode" = some f := by
  simp (decide := true) [legacyChoice]

def alt1 : List (String × Kind) := [("McallerPcode", .dec64)]
def alt3 : List (String × Kind) := [("McallerPcode", .dec64), ("McallerSpec", .dec32), ("McallerUrl", .dec32)]
def alt4 : List (String × Kind) :=
  [("McallerPcode", .dec64), ("McallerSpec", .dec32), ("McallerUrl", .dec32), ("MthisSpec", .dec32)]
def alt5 : List (String × Kind) :=
  [("McallerPcode", .dec64), ("McallerOid", .dec32), ("McallerSpec", .dec32), ("McallerUrl", .dec32),
   ("MthisSpec", .dec32)]

/-- how `TxRecord.Read` classifies the caller flag: 6 = today's section, 1/3/4/5 = older shorter
    sections, anything else = no section -/
theorem sect_caller (f : Nat) : sect 6 false callerAlts (some f) =
    if f = 6 then .cur else if f = 1 then .alt 1 alt1 else if f = 3 then .alt 3 alt3
    else if f = 4 then .alt 4 alt4 else if f = 5 then .alt 5 alt5 else .unknown f := by
  by_cases h6 : f = 6
  · subst h6; rfl
  by_cases h1 : f = 1
  · subst h1; rfl
  by_cases h3 : f = 3
  · subst h3; rfl
  by_cases h4 : f = 4
  · subst h4; rfl
  by_cases h5 : f = 5
  · subst h5; rfl
  have e1 : (f == 1) = false := by simpa using h1
  have e3 : (f == 3) = false := by simpa using h3
  have e4 : (f == 4) = false := by simpa using h4
  have e5 : (f == 5) = false := by simpa using h5
  simp [sect, callerAlts, List.lookup, h6, h1, h3, h4, h5, e1, e3, e4, e5]

theorem sect_mtid (g : Nat) : sect 1 true [] (some g) = if g = 1 then .cur else .anyFlag g := by
  simp [sect]

theorem txBody_WFAlt (V : ValueRT) (w g f : Nat) (x : Rec) (e : Env)
    (hg : 0 < g ∧ g < 256) (hf : 0 < f ∧ f < 256)
    (hc : ∀ p ∈ txAlways, p.2.wf (x p.1))
    (hm : (x "Mtid").toInt ≠ 0 →
        Kind.wf .dec64 (x "Mtid") ∧ Kind.wf .dec32 (x "Mdepth") ∧ Kind.wf .dec64 (x "Mcaller"))
    (hp : (x "McallerPcode").toInt ≠ 0 →
        Kind.wf .dec64 (x "McallerPcode") ∧ Kind.wf .dec32 (x "McallerOkind") ∧
        Kind.wf .dec32 (x "McallerOid") ∧ Kind.wf .dec32 (x "McallerSpec") ∧
        Kind.wf .dec32 (x "McallerUrl") ∧ Kind.wf .dec32 (x "MthisSpec"))
    (hfl : fieldsWF V (x "Fields").toMapN) : txBody.WFAlt V (legacyChoice w g f) x e := by
  have wv : ∀ nm k, (nm, k) ∈ txAlways → Kind.wf k (x nm) := fun nm k h => hc (nm, k) h
  simp only [txBody, seq, L.WFAlt, legacyChoice_mtid, legacyChoice_caller, sect_mtid, sect_caller, alt1, alt3, alt4, alt5]
  repeat' apply And.intro
  all_goals first
    | exact wv _ _ (by decide)
    | exact hfl
    | decide
    | (split
       · rename_i h
         obtain ⟨a, b, c⟩ := hm h
         by_cases hg1 : g = 1
         · simp only [hg1, if_true]; exact ⟨a, b, c, trivial⟩
         · simp only [hg1, if_false]; exact ⟨hg.1, hg.2, a, b, c, trivial⟩
       · trivial)
    | (split
       · rename_i h
         obtain ⟨p1, p2, p3, p4, p5, p6⟩ := hp h
         by_cases h6 : f = 6
         · simp only [h6, if_true]; exact ⟨p1, p2, p3, p4, p5, p6, trivial⟩
         by_cases h1 : f = 1
         · subst h1; simp only [h6, if_false, if_true, flatWF]; exact ⟨by decide, p1, trivial⟩
         by_cases h3 : f = 3
         · subst h3; simp only [h6, h1, if_false, if_true, flatWF]; exact ⟨by decide, p1, p4, p5, trivial⟩
         by_cases h4 : f = 4
         · subst h4; simp only [h6, h1, h3, if_false, if_true, flatWF]; exact ⟨by decide, p1, p4, p5, p6, trivial⟩
         by_cases h5 : f = 5
         · subst h5; simp only [h6, h1, h3, h4, if_false, if_true, flatWF]; exact ⟨by decide, p1, p3, p4, p5, p6, trivial⟩
         simp only [h6, h1, h3, h4, h5, if_false]; exact hf
       · trivial)
    | (split <;> (repeat' apply And.intro) <;> first | exact wv _ _ (by decide) | trivial)

/-- an older encoding of a TxRecord is well-formed when: version byte 10..255, presence bytes
    1..255, and the fields that encoding carries are in the ranges of their Go types -/
theorem txRecord_WFAlt (V : ValueRT) (w g f : Nat) (x : Rec)
    (hw : 10 ≤ w ∧ w < 256) (hg : 0 < g ∧ g < 256) (hf : 0 < f ∧ f < 256)
    (hc : ∀ p ∈ txAlways, p.2.wf (x p.1))
    (hm : (x "Mtid").toInt ≠ 0 →
        Kind.wf .dec64 (x "Mtid") ∧ Kind.wf .dec32 (x "Mdepth") ∧ Kind.wf .dec64 (x "Mcaller"))
    (hp : (x "McallerPcode").toInt ≠ 0 →
        Kind.wf .dec64 (x "McallerPcode") ∧ Kind.wf .dec32 (x "McallerOkind") ∧
        Kind.wf .dec32 (x "McallerOid") ∧ Kind.wf .dec32 (x "McallerSpec") ∧
        Kind.wf .dec32 (x "McallerUrl") ∧ Kind.wf .dec32 (x "MthisSpec"))
    (hfl : fieldsWF V (x "Fields").toMapN)
    (hl : (txBody.writeAlt (legacyChoice w g f) x).length < 2147483648) :
    txRecord.WFAlt V (legacyChoice w g f) x [] := by
  unfold txRecord
  simp only [L.WFAlt, attrBytes, List.append_nil, attrWF, legacyChoice_ver]
  exact ⟨hw, hl, txBody_WFAlt V w g f x [] hg hf hc hm hp hfl, trivial, trivial⟩

def callerAll : List String :=
  ["McallerPcode", "McallerOkind", "McallerOid", "McallerSpec", "McallerUrl", "MthisSpec"]

/-- what `TxRecord.Read` assigns from an encoding whose caller section carries exactly `keeps` -/
def TxCarriedK (keeps : List String) (x : Rec) (e : Env) : Prop :=
  (∀ nm ∈ txPlain, e.lookup nm = some (x nm)) ∧
  (if (x "Mtid").toInt ≠ 0
    then e.lookup "Mtid" = some (x "Mtid") ∧ e.lookup "Mdepth" = some (x "Mdepth") ∧ e.lookup "Mcaller" = some (x "Mcaller")
    else e.lookup "Mtid" = none ∧ e.lookup "Mdepth" = none ∧ e.lookup "Mcaller" = none) ∧
  (∀ nm ∈ callerAll,
     if (x "McallerPcode").toInt ≠ 0 ∧ nm ∈ keeps then e.lookup nm = some (x nm) else e.lookup nm = none) ∧
  (e.lookup "Fields" = match (x "Fields").toMapN with
                       | some (kv :: kvs) => some (.m (some (kv :: kvs)))
                       | _ => none) ∧
  e.lookup "ErrorLevel" =
    some (if (x "ErrorLevel").toInt = 0 ∧ (x "Error").toInt ≠ 0 then .i 20 else x "ErrorLevel")

/-- the caller-identity fields an encoding with caller flag `f` carries -/
def callerKeeps (f : Nat) : List String :=
  if f = 6 then callerAll else if f = 1 then alt1.map (·.1) else if f = 3 then alt3.map (·.1)
  else if f = 4 then alt4.map (·.1) else if f = 5 then alt5.map (·.1) else []

/-- the environment `TxRecord.Read` builds, as a function of how the caller flag was classified -/
def txEnvOf (sc : Sect) (ch : Choice) (x : Rec) : Env :=
  (L.wrap (seq [("Txid", .i64), ("EndTime", .dec64), ("Service", .dec32), ("Elapsed", .dec32), ("Error", .dec64),
    ("CpuTime", .dec32), ("Malloc", .dec64), ("SqlCount", .dec32), ("SqlTime", .dec32),
    ("SqlFetchCount", .dec32), ("SqlFetchTime", .dec32), ("HttpcCount", .dec32), ("HttpcTime", .dec32),
    ("Active", .bool), ("StepsDataPos", .dec64), ("Cipher", .dec32), ("IpAddr", .i32), ("WClientId", .dec64),
    ("UserAgent", .dec32), ("Referer", .dec32), ("Status", .dec32)] .nil) none .nil).expect x [] |>
  fun e0 =>
    let e1 := if (x "Mtid").toInt ≠ 0 then
      (seq [("Mtid", .dec64), ("Mdepth", .dec32), ("Mcaller", .dec64)] .nil).expect x e0 else e0
    let e2 := if (x "McallerPcode").toInt ≠ 0 then
      sc.pick ((seq [("McallerPcode", .dec64), ("McallerOkind", .dec32), ("McallerOid", .dec32),
        ("McallerSpec", .dec32), ("McallerUrl", .dec32), ("MthisSpec", .dec32)] .nil).expect x e1)
        (fun fs => flatExpect fs x e1) e1 else e1
    (seq [("HttpMethod", .u8), ("Domain", .dec32)]
      (.fields "Fields" (.fld "Login" .dec32 (.dflt "ErrorLevel" .u8 "Error" 20
      (seq [("Oid", .dec32), ("Okind", .dec32), ("Onode", .dec32), ("Uuid", .text), ("DbcTime", .dec32),
        ("Apdex", .u8), ("McallerStepId", .dec64), ("OriginUrl", .text), ("StepSplitCount", .dec64)] .nil))))).expectAlt ch x e2

theorem txRecord_expectAlt_eq (w g f : Nat) (x : Rec) :
    txRecord.expectAlt (legacyChoice w g f) x [] =
      txEnvOf (sect 6 false callerAlts (some f)) (legacyChoice w g f) x := by
  simp only [txRecord, txBody, txEnvOf, seq, L.expectAlt, L.expect, attrEnv, legacyChoice_mtid,
    legacyChoice_caller, sect_pick_anyPos]

end Step
