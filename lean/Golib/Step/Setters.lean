/-
  Golib.Step.Setters — the builders of the containers, called any number of times on one object.

  The Go code fills a pack through `SetProfile(steps)` / `SetStack(ints)` and sets control bits through
  `MessageStepX.SetCtr` / `SqlStep_3.SetTrue`.  What a *second* call does — replace or accumulate — is
  part of the behaviour: `SetProfile` REPLACES the step bytes (a pack re-filled, or filled after a
  `Read`, carries exactly the last profile), the bit setters ACCUMULATE (or).  `Setter` names the
  semantics; `parseSetter` reads it off the regenerated skeleton of the Go method (tie A,
  Golib.Props.C08Gen), `Setter.apply` is its meaning on a record, `applyOps` a whole history of
  setter calls, direct field assignments and `Read`s on one object.
-/
import Golib.Step.Tok
import Golib.Step.Reuse

namespace Step
open Prim

def Rec.set (o : Rec) (f : String) (v : Val) : Rec := fun nm => if nm = f then v else o nm

inductive Setter where
  | replaceProfile (f : String)   -- this.f = step.ToBytesStep(steps)
  | replaceIntArr (f : String)    -- this.f = bytes of WriteIntArray(ints)
  | orInt32 (f : String)          -- this.f = this.f | int32(key)
  | orByte (f : String)           -- this.f |= flag
deriving DecidableEq, Repr

/-- the semantics a setter skeleton denotes -/
def parseSetter : List Tok → Option Setter
  | [.asg f "[]byte" "step.ToBytesStep(local1)"] => some (.replaceProfile f)
  | [.so, .wx "WriteIntArray" "local1", .asg f "[]byte" "$.ToByteArray()", .sc] => some (.replaceIntArr f)
  | [.asg f "int32" e] => if e = f ++ " | int32(local1)" then some (.orInt32 f) else none
  | [.asgop f "byte" "|=" "local1"] => some (.orByte f)
  | _ => none

inductive SArg where
  | steps (ss : List Item)
  | ints (xs : List Int)
  | int (k : Int)

/-- bitwise or of two int32 values (on their two's-complement patterns) -/
def or32 (a b : Int) : Int := ofU 4 (toU 4 a ||| toU 4 b)

def Setter.apply : Setter → SArg → Rec → Rec
  | .replaceProfile f, .steps ss, o => o.set f (.b (toBytesStep ss))
  | .replaceIntArr f, .ints xs, o => o.set f (.b (encArr (encI 4) xs))
  | .orInt32 f, .int k, o => o.set f (.i (or32 (o f).toInt k))
  | .orByte f, .int k, o => o.set f (.i (((o f).toInt.toNat ||| k.toNat) % 256 : Nat))
  | _, _, o => o

def Setter.field : Setter → String
  | .replaceProfile f => f | .replaceIntArr f => f | .orInt32 f => f | .orByte f => f

/-- the setters of the types of this property (what `parseSetter` must find in the source) -/
def setterTable : List (String × Setter) :=
  [ ("ProfilePack.SetProfile", .replaceProfile "Steps"),
    ("ProfileStepSplitPack.SetProfile", .replaceProfile "Steps"),
    ("ErrorSnapPack1.SetProfile", .replaceProfile "Profile"),
    ("ErrorSnapPack1.SetStack", .replaceIntArr "Stack"),
    ("MessageStepX.SetCtr", .orInt32 "Ctr"),
    ("SqlStep_3.SetTrue", .orByte "Opt") ]

/-- one operation of a history on one object -/
inductive Op where
  | set (s : Setter) (a : SArg)         -- a builder call
  | assign (f : String) (v : Val)       -- obj.F = v
  | read (bs : Bytes)                   -- obj.Read(in)

/-- the object after an operation (`none`: the `Read` failed); `rd` is the type's `Read` on an existing object -/
def Op.apply (rd : Rec → D Rec) : Op → Rec → Option Rec
  | .set s a, o => some (s.apply a o)
  | .assign f v, o => some (o.set f v)
  | .read bs, o => (rd o bs).map (·.1)

def applyOps (rd : Rec → D Rec) : List Op → Rec → Option Rec
  | [], o => some o
  | op :: ops, o =>
    match op.apply rd o with
    | none => none
    | some o' => applyOps rd ops o'

/-! ### what a second call does -/

theorem Rec.set_same (o : Rec) (f : String) (v : Val) : (o.set f v) f = v := by simp [Rec.set]
theorem Rec.set_other (o : Rec) (f nm : String) (v : Val) (h : nm ≠ f) : (o.set f v) nm = o nm := by
  simp [Rec.set, h]

/-- a setter touches its own field only -/
theorem Setter.apply_frame (s : Setter) (a : SArg) (o : Rec) (nm : String) (h : nm ≠ s.field) :
    (s.apply a o) nm = o nm := by
  cases s <;> cases a <;> simp only [Setter.apply, Setter.field] at h ⊢ <;> first | rfl | exact Rec.set_other _ _ _ _ h

/-- `SetProfile` replaces: whatever the pack held — an earlier profile, the steps of a record read
    into it, anything assigned — after `SetProfile(steps)` the field is exactly `ToBytesStep(steps)` -/
theorem setProfile_replaces (f : String) (ss : List Item) (o : Rec) :
    ((Setter.replaceProfile f).apply (.steps ss) o) f = .b (toBytesStep ss) := Rec.set_same _ _ _

theorem setStack_replaces (f : String) (xs : List Int) (o : Rec) :
    ((Setter.replaceIntArr f).apply (.ints xs) o) f = .b (encArr (encI 4) xs) := Rec.set_same _ _ _

/-- in any history that ends with `SetProfile(steps)` the field holds exactly those steps -/
theorem applyOps_last_setProfile (rd : Rec → D Rec) (ops : List Op) (f : String) (ss : List Item) (o o' : Rec)
    (h : applyOps rd (ops ++ [.set (.replaceProfile f) (.steps ss)]) o = some o') :
    o' f = .b (toBytesStep ss) := by
  induction ops generalizing o with
  | nil =>
    simp only [List.nil_append, applyOps, Op.apply, Option.some.injEq] at h
    rw [← h]; exact setProfile_replaces f ss o
  | cons op ops ih =>
    simp only [List.cons_append, applyOps] at h
    cases hop : op.apply rd o with
    | none => simp [hop] at h
    | some o1 => simp only [hop] at h; exact ih o1 h

/-- the bit setters accumulate: a second call keeps the bits of the first -/
theorem orByte_accumulates (f : String) (b k1 k2 : Nat) (o : Rec) (h0 : o f = .i b) (hb : b < 256) (h1 : k1 < 256)
    (h2 : k2 < 256) :
    ((Setter.orByte f).apply (.int k2) ((Setter.orByte f).apply (.int k1) o)) f = .i ((b ||| k1 ||| k2 : Nat)) := by
  have hl1 : b ||| k1 < 256 := Nat.or_lt_two_pow (n := 8) hb h1
  have hl2 : b ||| k1 ||| k2 < 256 := Nat.or_lt_two_pow (n := 8) hl1 h2
  simp only [Setter.apply, Rec.set_same, h0, Val.toInt, Int.toNat_natCast, Nat.mod_eq_of_lt hl1, Nat.mod_eq_of_lt hl2]

end Step
