/-
  Golib.Step.ValueInst — the tagged-value facts the step/TxRecord round trips rest on, supplied by
  the C02 proofs (Golib.Value.Roundtrip / Facts).  Proof file only (not imported by the driver).
-/
import Golib.Step.IR
import Golib.Value.Facts

namespace Step

/-- `Value.WFV` / `Value.WFKVs` with their round-trip theorems -/
def valueRT : ValueRT where
  wf := Value.WFV
  wfKVs := Value.WFKVs
  rt := fun v r h => Value.decode_encV v r h
  rtKVs := fun kvs r h hn => by
    have := Value.decKVs_encKVs kvs [] ((Value.encKVs kvs ++ r).length + 1) r h (by simpa using hn)
      (by have := Value.szKVs_le_length kvs; simp only [List.length_append]; omega)
    simpa using this

end Step
