/-
  Golib.Step.Stream — tagged records and streams of them.

  * `tagged_roundtrip`: `ReadStep` (resp. `service.ToObject`) after `WriteStep` (`service.ToBytes`)
    returns the type code and the expected fields and leaves exactly what followed;
  * `stream_roundtrip_n` / `stream_roundtrip`: `ToBytesStep` of any list of registered, well-formed
    steps is read back step by step, in order, by `n` calls of `ReadStep` / by reading until the
    input is used up.  Induction on the list, using `tagged_roundtrip` with an arbitrary rest.
-/
import Golib.Step.Roundtrip
import Golib.Step.Layouts

namespace Step
open Prim

/-- a step/service value that its registry knows, with fields in the ranges of their Go types -/
def Item.ok (V : ValueRT) (tbl : List (Nat × String × L)) (s : Item) : Prop :=
  s.code < 256 ∧ lookupLayout tbl s.code = some s.lay ∧ s.lay.WF V s.x []

/-- what reading the item back yields: its type code and the fields assigned in the fresh object -/
def Item.expected (s : Item) : Nat × Env := (s.code, s.lay.expect s.x [])

theorem tagged_roundtrip (V : ValueRT) (tbl : List (Nat × String × L)) (s : Item) (r : Bytes)
    (h : s.ok V tbl) : readOne tbl (s.bytes ++ r) = some (s.expected, r) := by
  obtain ⟨hc, hl, hw⟩ := h
  unfold readOne Item.bytes
  rw [List.cons_append, D.bind_some (rdU1_cons s.code _ hc)]
  simp only [hl]
  rw [D.bind_some (L.roundtrip V s.lay s.x [] r hw)]
  rfl

theorem readNAcc_roundtrip (V : ValueRT) (tbl : List (Nat × String × L)) (ss : List Item)
    (acc : List (Nat × Env)) (r : Bytes) (h : ∀ s ∈ ss, s.ok V tbl) :
    readNAcc tbl ss.length acc (toBytesStep ss ++ r) = some (acc.reverse ++ ss.map Item.expected, r) := by
  induction ss generalizing acc with
  | nil => simp [readNAcc, toBytesStep, D.pure]
  | cons s ss ih =>
    simp only [List.length_cons, readNAcc, toBytesStep, List.append_assoc]
    rw [D.bind_some (tagged_roundtrip V tbl s _ (h s (by simp)))]
    rw [ih (s.expected :: acc) (fun t ht => h t (by simp [ht]))]
    simp

/-- `n` calls of `ReadStep` on `ToBytesStep steps` followed by anything -/
theorem stream_roundtrip_n (V : ValueRT) (tbl : List (Nat × String × L)) (ss : List Item) (r : Bytes)
    (h : ∀ s ∈ ss, s.ok V tbl) :
    readN tbl ss.length (toBytesStep ss ++ r) = some (ss.map Item.expected, r) := by
  unfold readN
  rw [readNAcc_roundtrip V tbl ss [] r h]; simp

theorem Item.bytes_length_pos (s : Item) : 0 < s.bytes.length := by simp [Item.bytes]

theorem toBytesStep_length (ss : List Item) : ss.length ≤ (toBytesStep ss).length := by
  induction ss with
  | nil => simp [toBytesStep]
  | cons s ss ih =>
    have := s.bytes_length_pos
    simp only [toBytesStep, List.length_cons, List.length_append]; omega

theorem readAllF_roundtrip (V : ValueRT) (tbl : List (Nat × String × L)) (ss : List Item)
    (acc : List (Nat × Env)) (f : Nat) (hf : ss.length ≤ f) (h : ∀ s ∈ ss, s.ok V tbl) :
    readAllF tbl f acc (toBytesStep ss) = some (acc.reverse ++ ss.map Item.expected) := by
  induction ss generalizing acc f with
  | nil => cases f <;> simp [readAllF, toBytesStep]
  | cons s ss ih =>
    cases f with
    | zero => simp at hf
    | succ f =>
      have hb : toBytesStep (s :: ss) = s.code :: (s.lay.write s.x ++ toBytesStep ss) := by
        simp [toBytesStep, Item.bytes]
      have hr := tagged_roundtrip V tbl s (toBytesStep ss) (h s (by simp))
      simp only [Item.bytes, List.cons_append] at hr
      rw [hb]
      simp only [readAllF, hr]
      rw [ih (s.expected :: acc) f (by simpa using hf) (fun t ht => h t (by simp [ht]))]
      simp

/-- reading `ToBytesStep steps` until the input is used up returns exactly the steps, in order -/
theorem stream_roundtrip (V : ValueRT) (tbl : List (Nat × String × L)) (ss : List Item)
    (h : ∀ s ∈ ss, s.ok V tbl) : readAll tbl (toBytesStep ss) = some (ss.map Item.expected) := by
  unfold readAll
  rw [readAllF_roundtrip V tbl ss [] _ (toBytesStep_length ss) h]; simp

/-! ### fields of a plain layout are all restored -/

/-- only `fld` and `lit` items -/
def L.plain : L → Bool
  | .nil => true
  | .fld _ _ rest => rest.plain
  | .lit _ _ rest => rest.plain
  | _ => false

def L.names : L → List String
  | .nil => []
  | .fld nm _ rest => nm :: rest.names
  | .lit _ _ rest => rest.names
  | .sw _ c1 c2 rest => c1.names ++ c2.names ++ rest.names
  | .opt _ _ _ body _ rest => body.names ++ rest.names
  | .dflt nm _ _ _ rest => nm :: rest.names
  | .wrap body attr rest => body.names ++ attr.toList ++ rest.names
  | .fields nm rest => nm :: rest.names
  | .bit _ _ body rest => body.names ++ rest.names
  | .ver _ _ rest => rest.names

theorem Env.get_cons_self (e : Env) (nm : String) (v : Val) : Env.get ((nm, v) :: e) nm = v := by
  simp [Env.get, List.lookup]

theorem Env.get_cons_ne (e : Env) (nm nm' : String) (v : Val) (h : nm' ≠ nm) :
    Env.get ((nm, v) :: e) nm' = Env.get e nm' := by
  have : (nm' == nm) = false := by simpa using h
  simp [Env.get, List.lookup, this]

theorem L.plain_expect_other (l : L) (x : Rec) (e : Env) (nm : String) (hp : l.plain = true)
    (hn : nm ∉ l.names) : (l.expect x e).get nm = e.get nm := by
  induction l generalizing e with
  | nil => rfl
  | fld n k rest ih =>
    simp only [L.names, List.mem_cons, not_or] at hn
    simp only [L.expect]
    rw [ih _ hp hn.2, Env.get_cons_ne _ _ _ _ hn.1]
  | lit k v rest ih => exact ih _ hp hn
  | _ => simp [L.plain] at hp

/-- every field named in a plain layout with distinct names comes back with the value written -/
theorem L.plain_expect_get (l : L) (x : Rec) (e : Env) (nm : String) (hp : l.plain = true)
    (hd : l.names.Nodup) (hn : nm ∈ l.names) : (l.expect x e).get nm = x nm := by
  induction l generalizing e with
  | nil => simp [L.names] at hn
  | fld n k rest ih =>
    simp only [L.names, List.nodup_cons] at hd
    simp only [L.names, List.mem_cons] at hn
    simp only [L.expect]
    rcases hn with rfl | hn
    · rw [L.plain_expect_other rest x _ nm hp hd.1, Env.get_cons_self]
    · exact ih _ hp hd.2 hn
  | lit k v rest ih => exact ih _ hp hd hn
  | _ => simp [L.plain] at hp

end Step
