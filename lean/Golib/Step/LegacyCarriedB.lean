/- the carried projection of older TxRecord encodings: caller flags 3 and 4 -/
import Golib.Step.Legacy

namespace Step

set_option maxRecDepth 8000 in
set_option maxHeartbeats 1000000 in
theorem txEnvOf_alt3 (ch : Choice) (x : Rec) : TxCarriedK (alt3.map (·.1)) x (txEnvOf (.alt 3 alt3) ch x) := by
  unfold TxCarriedK
  generalize he : txEnvOf (.alt 3 alt3) ch x = e
  simp only [txEnvOf, seq, L.expectAlt, L.expect, attrEnv, Sect.pick, alt3, flatExpect] at he
  generalize (x "Fields").toMapN = fm at he ⊢
  by_cases hm : (x "Mtid").toInt ≠ 0 <;> by_cases hp : (x "McallerPcode").toInt ≠ 0 <;>
    rcases fm with _ | _ | ⟨kv, kvs⟩ <;>
    (subst he; simp (decide := true) [hm, hp, txPlain, callerAll, alt3, Env.get, List.lookup, dfl])

set_option maxRecDepth 8000 in
set_option maxHeartbeats 1000000 in
theorem txEnvOf_alt4 (ch : Choice) (x : Rec) : TxCarriedK (alt4.map (·.1)) x (txEnvOf (.alt 4 alt4) ch x) := by
  unfold TxCarriedK
  generalize he : txEnvOf (.alt 4 alt4) ch x = e
  simp only [txEnvOf, seq, L.expectAlt, L.expect, attrEnv, Sect.pick, alt4, flatExpect] at he
  generalize (x "Fields").toMapN = fm at he ⊢
  by_cases hm : (x "Mtid").toInt ≠ 0 <;> by_cases hp : (x "McallerPcode").toInt ≠ 0 <;>
    rcases fm with _ | _ | ⟨kv, kvs⟩ <;>
    (subst he; simp (decide := true) [hm, hp, txPlain, callerAll, alt4, Env.get, List.lookup, dfl])

end Step
