/-
  Golib.Step.Roundtrip — the generic round trip of the layout language, proved once by
  induction on the layout: for every layout, record, rest and starting environment,

      WF  →  read l e (write l x ++ rest) = some (expect l x e, rest)

  i.e. the reader consumes exactly the writer's bytes and assigns exactly `expect`.
-/
import Golib.Step.IR

namespace Step
open Prim

theorem rdU1_cons (b : Nat) (r : Bytes) (h : b < 256) : D.ofP (rdU 1) (b :: r) = some (b, r) := by
  have := run_rdU 1 b r (by omega)
  simpa [beN, D.ofP, Nat.mod_eq_of_lt h] using this

theorem readMap_rt (V : ValueRT) (nm : String) (m : Option (List (Bytes × Value))) (e : Env)
    (h : mapWF V m) : readAttr (some nm) e (mapBytes m) = some (mapEnv nm m e) := by
  cases m with
  | none => simp [readAttr, mapBytes, mapEnv]
  | some kvs =>
    simp only [mapWF] at h
    have hne : (Value.encV (.map kvs)).isEmpty = false := by simp [Value.encV]
    have := V.rt (.map kvs) [] h
    simp only [List.append_nil] at this
    simp only [readAttr, mapBytes, mapEnv, hne, this]
    rfl

theorem readAttr_rt (V : ValueRT) (attr : Option String) (x : Rec) (e : Env) (h : attrWF V attr x) :
    readAttr attr e (attrBytes attr x) = some (attrEnv attr x e) := by
  cases attr with
  | none => rfl
  | some nm => exact readMap_rt V nm _ e h

theorem encFields_none_rt (r : Bytes) : D.ofP (rdU 1) (encFields none ++ r) = some (0, r) := by
  simp only [encFields]; exact rdU1_cons 0 r (by omega)

theorem encFields_nil_rt (r : Bytes) : D.ofP (rdU 1) (encFields (some []) ++ r) = some (0, r) := by
  simp only [encFields, Value.encKVs, List.length_nil]; exact rdU1_cons 0 r (by omega)

theorem encFields_cons_rt (V : ValueRT) (kv : Bytes × Value) (kvs : List (Bytes × Value)) (r : Bytes)
    (h : fieldsWF V (some (kv :: kvs))) :
    D.ofP (rdU 1) (encFields (some (kv :: kvs)) ++ r)
      = some ((kv :: kvs).length, Value.encKVs (kv :: kvs) ++ r) ∧
    readKVs (kv :: kvs).length (Value.encKVs (kv :: kvs) ++ r) = some (kv :: kvs, r) := by
  simp only [fieldsWF] at h
  obtain ⟨hl, hw, hn⟩ := h
  have hm : (kv :: kvs).length % 256 = (kv :: kvs).length := Nat.mod_eq_of_lt (by omega)
  refine ⟨?_, ?_⟩
  · simp only [encFields, hm, List.cons_append]
    exact rdU1_cons _ _ (by omega)
  · unfold readKVs
    exact V.rtKVs (kv :: kvs) r hw hn

/-- the generic round trip -/
theorem L.roundtrip (V : ValueRT) (l : L) (x : Rec) (e : Env) (r : Bytes) (h : l.WF V x e) :
    l.read e (l.write x ++ r) = some (l.expect x e, r) := by
  induction l generalizing e r with
  | nil => simp [L.read, L.write, L.expect, D.pure]
  | fld nm k rest ih =>
    obtain ⟨h1, h2⟩ := h
    simp only [L.read, L.write, L.expect, List.append_assoc]
    rw [D.bind_some (Kind.rt k (x nm) _ h1)]
    exact ih _ _ h2
  | lit k v rest ih =>
    obtain ⟨h1, h2⟩ := h
    simp only [L.read, L.write, L.expect, List.append_assoc]
    rw [D.bind_some (Kind.rt k (.i v) _ h1)]
    exact ih _ _ h2
  | sw nm c1 c2 rest ih1 ih2 ihr =>
    obtain ⟨hg, hc, hr⟩ := h
    simp only [L.read, L.write, L.expect, List.append_assoc, hg]
    by_cases c1e : (x nm).toInt = 1
    · simp only [c1e, if_true] at hc hr ⊢
      rw [D.bind_some (ih1 _ _ hc)]
      exact ihr _ _ hr
    · by_cases c2e : (x nm).toInt = 2
      · have n21 : ¬ ((2 : Int) = 1) := by decide
        simp only [c2e, n21, if_true, if_false] at hc hr ⊢
        rw [D.bind_some (ih2 _ _ hc)]
        exact ihr _ _ hr
      · simp only [c1e, c2e, if_false] at hc hr ⊢
        rw [List.nil_append, D.bind_some (show D.pure e (rest.write x ++ r) = some (e, _) from rfl)]
        exact ihr _ _ hr
  | opt flag anyPos cond body alts rest ihb ihr =>
    obtain ⟨hf0, hf, ha, hb, hr⟩ := h
    simp only [L.read, L.write, L.expect]
    by_cases c : (x cond).toInt ≠ 0
    · simp only [if_pos c] at hb hr ⊢
      simp only [List.cons_append, List.append_assoc]
      rw [D.bind_some (rdU1_cons flag _ hf)]
      simp only [beq_self_eq_true, Bool.true_or, if_true]
      rw [D.bind_some (ihb _ _ hb)]
      exact ihr _ _ hr
    · simp only [if_neg c] at hb hr ⊢
      simp only [List.cons_append, List.nil_append]
      rw [D.bind_some (rdU1_cons 0 _ (by omega))]
      have hne : (0 == flag) = false := by
        simp only [beq_eq_false_iff_ne, ne_eq]; omega
      simp only [hne, Nat.lt_irrefl, decide_false, Bool.and_false, Bool.or_false, ha, Bool.false_eq_true, if_false]
      rw [D.bind_some (show D.pure e (rest.write x ++ r) = some (e, _) from rfl)]
      exact ihr _ _ hr
  | dflt nm k cond d rest ih =>
    obtain ⟨h1, h2⟩ := h
    simp only [L.read, L.write, L.expect, List.append_assoc]
    rw [D.bind_some (Kind.rt k (x nm) _ h1)]
    exact ih _ _ h2
  | wrap body attr rest ihb ihr =>
    obtain ⟨hl, hb, ha, hr⟩ := h
    simp only [L.read, L.write, L.expect, List.append_assoc]
    have hblob : D.ofP decBlob (encBlob (body.write x ++ attrBytes attr x) ++ (rest.write x ++ r))
        = some (body.write x ++ attrBytes attr x, rest.write x ++ r) := run_decBlob _ _ hl
    rw [D.bind_some hblob]
    simp only [ihb _ _ hb, readAttr_rt V attr x _ ha]
    exact ihr _ _ hr
  | fields nm rest ih =>
    obtain ⟨hf, hr⟩ := h
    simp only [L.read, L.write, L.expect, List.append_assoc]
    generalize (x nm).toMapN = m at hf hr ⊢
    cases m with
    | none =>
      simp only at hr ⊢
      rw [D.bind_some (encFields_none_rt _)]
      simp only [Nat.lt_irrefl, if_false]
      exact ih _ _ hr
    | some kvs =>
      cases kvs with
      | nil =>
        simp only at hr ⊢
        rw [D.bind_some (encFields_nil_rt _)]
        simp only [Nat.lt_irrefl, if_false]
        exact ih _ _ hr
      | cons kv kvs =>
        simp only at hr ⊢
        obtain ⟨k1, k3⟩ := encFields_cons_rt V kv kvs (rest.write x ++ r) hf
        rw [D.bind_some k1]
        have k2 : 0 < (kv :: kvs).length := by simp
        simp only [k2, if_true]
        rw [D.bind_some k3]
        exact ih _ _ hr
  | bit nm mask body rest ihb ihr =>
    obtain ⟨hg, hb, hr⟩ := h
    simp only [L.read, L.write, L.expect, List.append_assoc, hg]
    cases c : bitSet (x nm) mask
    · simp only [c, Bool.false_eq_true, if_false] at hb hr ⊢
      rw [List.nil_append, D.bind_some (show D.pure e (rest.write x ++ r) = some (e, _) from rfl)]
      exact ihr _ _ hr
    · simp only [c, if_true] at hb hr ⊢
      rw [D.bind_some (ihb _ _ hb)]
      exact ihr _ _ hr
  | ver min v rest ih =>
    obtain ⟨h1, h2, h3⟩ := h
    simp only [L.read, L.write, L.expect, List.cons_append]
    rw [D.bind_some (rdU1_cons v _ h2)]
    have : ¬ v < min := by omega
    simp only [this, if_false]
    exact ih _ _ h3

end Step
