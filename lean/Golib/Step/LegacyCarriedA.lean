/- the carried projection of older TxRecord encodings: today's caller section (flag 6) and flag 1 -/
import Golib.Step.Legacy

namespace Step

set_option maxRecDepth 8000 in
set_option maxHeartbeats 1000000 in
theorem txEnvOf_cur (ch : Choice) (x : Rec) : TxCarriedK callerAll x (txEnvOf .cur ch x) := by
  unfold TxCarriedK
  generalize he : txEnvOf .cur ch x = e
  simp only [txEnvOf, seq, L.expectAlt, L.expect, attrEnv, Sect.pick] at he
  generalize (x "Fields").toMapN = fm at he ⊢
  by_cases hm : (x "Mtid").toInt ≠ 0 <;> by_cases hp : (x "McallerPcode").toInt ≠ 0 <;>
    rcases fm with _ | _ | ⟨kv, kvs⟩ <;>
    (subst he; simp (decide := true) [hm, hp, txPlain, callerAll, Env.get, List.lookup, dfl])

set_option maxRecDepth 8000 in
set_option maxHeartbeats 1000000 in
theorem txEnvOf_alt1 (ch : Choice) (x : Rec) : TxCarriedK (alt1.map (·.1)) x (txEnvOf (.alt 1 alt1) ch x) := by
  unfold TxCarriedK
  generalize he : txEnvOf (.alt 1 alt1) ch x = e
  simp only [txEnvOf, seq, L.expectAlt, L.expect, attrEnv, Sect.pick, alt1, flatExpect] at he
  generalize (x "Fields").toMapN = fm at he ⊢
  by_cases hm : (x "Mtid").toInt ≠ 0 <;> by_cases hp : (x "McallerPcode").toInt ≠ 0 <;>
    rcases fm with _ | _ | ⟨kv, kvs⟩ <;>
    (subst he; simp (decide := true) [hm, hp, txPlain, callerAll, alt1, Env.get, List.lookup, dfl])

end Step
