/-
  Golib.Step.Reuse — decoding into an object that already holds something, and histories of it.

  A Go `Read` assigns fields of an EXISTING object.  `L.readInto o` is that: the fields the reader
  assigns (the environment `L.read` builds) laid over the object `o`; every other field of `o`
  stays.  For a well-formed encoding the result is known exactly (`readInto_roundtrip`):

      result nm = value written      if the reader assigns nm for this record (`assigned`)
      result nm = o nm               otherwise — an absent optional section, a field of another
                                     version, any name the layout does not mention (frame)

  and a whole history — records decoded one after another into the same object from one stream — is
  the left fold of that (`readIntoSeq_roundtrip`).

  `ProfilePack.Read` does NOT decode its transaction record into the one the pack already holds: it
  builds a fresh `TxRecord` (`this.Transaction = service.NewTxRecord().Read(din)`).
  `profilePackReadInto` models that and `profilepack_transaction_fresh` states it: no field of the
  previous transaction survives, whatever the new record carries.
-/
import Golib.Step.Stream
import Golib.Step.TxRecord

namespace Step
open Prim

/-- the fields assigned by a reader, laid over an existing object -/
def Env.over (e : Env) (o : Rec) : Rec := fun nm =>
  match e.lookup nm with
  | some v => v
  | none => o nm

/-- `obj.Read(in)` on an existing object -/
def L.readInto (l : L) (o : Rec) : D Rec := fun bs =>
  match l.read [] bs with
  | none => none
  | some (e, r) => some (e.over o, r)

/-- the names the reader assigns when it reads the encoding of `x` -/
def L.assigned (l : L) (x : Rec) : List String := (l.expect x []).map (·.1)

theorem lookup_none_of_not_mem_keys (e : Env) (nm : String) (h : nm ∉ e.map (·.1)) : e.lookup nm = none := by
  induction e with
  | nil => rfl
  | cons p e ih =>
    obtain ⟨k, v⟩ := p
    simp only [List.map_cons, List.mem_cons, not_or] at h
    have : (nm == k) = false := by simpa using h.1
    simp only [List.lookup, this]
    exact ih h.2

theorem lookup_isSome_of_mem_keys (e : Env) (nm : String) (h : nm ∈ e.map (·.1)) : ∃ v, e.lookup nm = some v := by
  induction e with
  | nil => simp at h
  | cons p e ih =>
    obtain ⟨k, v⟩ := p
    by_cases hk : nm = k
    · subst hk; exact ⟨v, by simp [List.lookup]⟩
    · have : (nm == k) = false := by simpa using hk
      simp only [List.map_cons, List.mem_cons, hk, false_or] at h
      simp only [List.lookup, this]
      exact ih h

/-- decoding the encoding of `x` into the object `o`: exactly the assigned fields over `o`, exactly the
    record's bytes consumed -/
theorem L.readInto_roundtrip (V : ValueRT) (l : L) (o x : Rec) (r : Bytes) (h : l.WF V x []) :
    l.readInto o (l.write x ++ r) = some ((l.expect x []).over o, r) := by
  simp only [L.readInto, L.roundtrip V l x [] r h]

/-- frame: a field the reader does not assign for this record keeps the object's previous value -/
theorem over_frame (l : L) (o x : Rec) (nm : String) (h : nm ∉ l.assigned x) :
    (l.expect x []).over o nm = o nm := by
  simp only [Env.over, lookup_none_of_not_mem_keys _ _ h]

/-- an assigned field does not depend on what the object held before -/
theorem over_assigned (l : L) (o o' x : Rec) (nm : String) (h : nm ∈ l.assigned x) :
    (l.expect x []).over o nm = (l.expect x []).over o' nm := by
  obtain ⟨v, hv⟩ := lookup_isSome_of_mem_keys _ _ h
  simp only [Env.over, hv]

/-- a name the layout does not mention is never assigned (whatever the record) -/
theorem L.expect_lookup_other (l : L) (x : Rec) (e : Env) (nm : String) (h : nm ∉ l.names) :
    (l.expect x e).lookup nm = e.lookup nm := by
  induction l generalizing e with
  | nil => rfl
  | fld n k rest ih =>
    simp only [L.names, List.mem_cons, not_or] at h
    have : (nm == n) = false := by simpa using h.1
    simp only [L.expect, ih _ h.2, List.lookup, this]
  | lit k v rest ih => exact ih _ h
  | sw n c1 c2 rest ih1 ih2 ihr =>
    simp only [L.names, List.mem_append, not_or] at h
    simp only [L.expect, ihr _ h.2]
    split
    · exact ih1 _ h.1.1
    · split
      · exact ih2 _ h.1.2
      · rfl
  | opt flag anyPos cond body alts rest ihb ihr =>
    simp only [L.names, List.mem_append, not_or] at h
    simp only [L.expect, ihr _ h.2]
    split
    · exact ihb _ h.1
    · rfl
  | dflt n k cond d rest ih =>
    simp only [L.names, List.mem_cons, not_or] at h
    have : (nm == n) = false := by simpa using h.1
    simp only [L.expect, ih _ h.2, List.lookup, this]
  | wrap body attr rest ihb ihr =>
    simp only [L.names, List.mem_append, not_or] at h
    simp only [L.expect, ihr _ h.2]
    cases attr with
    | none => exact ihb _ h.1.1
    | some a =>
      have hne : (nm == a) = false := by
        have := h.1.2
        simp only [Option.toList, List.mem_cons, List.mem_nil_iff, or_false] at this
        simpa using this
      simp only [attrEnv]
      cases (x a).toMap with
      | none => exact ihb _ h.1.1
      | some kvs => simp only [mapEnv, List.lookup, hne]; exact ihb _ h.1.1
  | fields n rest ih =>
    simp only [L.names, List.mem_cons, not_or] at h
    have : (nm == n) = false := by simpa using h.1
    simp only [L.expect]
    split
    · simp only [ih _ h.2, List.lookup, this]
    · exact ih _ h.2
  | bit n mask body rest ihb ihr =>
    simp only [L.names, List.mem_append, not_or] at h
    simp only [L.expect, ihr _ h.2]
    split
    · exact ihb _ h.1
    · rfl
  | ver min v rest ih => exact ih _ h

/-- every field named in a plain layout with distinct names IS assigned, with the value written
    (`lookup = some`, not merely "reads as": a field that was not assigned would read as the zero value) -/
theorem L.plain_expect_lookup (l : L) (x : Rec) (e : Env) (nm : String) (hp : l.plain = true)
    (hd : l.names.Nodup) (hn : nm ∈ l.names) : (l.expect x e).lookup nm = some (x nm) := by
  induction l generalizing e with
  | nil => simp [L.names] at hn
  | fld n k rest ih =>
    simp only [L.names, List.nodup_cons] at hd
    simp only [L.names, List.mem_cons] at hn
    simp only [L.expect]
    rcases hn with rfl | hn
    · rw [L.expect_lookup_other rest x _ nm hd.1]; simp [List.lookup]
    · exact ih _ hp hd.2 hn
  | lit k v rest ih => exact ih _ hp hd hn
  | _ => simp [L.plain] at hp

theorem Env.get_of_lookup (e : Env) (nm : String) (v : Val) (h : e.lookup nm = some v) : e.get nm = v := by
  simp only [Env.get, h]

/-- frame for foreign names: whatever is decoded, a field the layout does not mention is untouched -/
theorem over_other (l : L) (o x : Rec) (nm : String) (h : nm ∉ l.names) : (l.expect x []).over o nm = o nm := by
  simp only [Env.over, L.expect_lookup_other l x [] nm h, List.lookup]

/-! ### histories: several records decoded one after another into the same object -/

def writeSeq (l : L) : List Rec → Bytes
  | [] => []
  | x :: xs => l.write x ++ writeSeq l xs

/-- `n` times `obj.Read(in)` on the same object and the same input -/
def L.readIntoSeq (l : L) : Nat → Rec → D Rec
  | 0, o => D.pure o
  | n+1, o => D.bind (l.readInto o) (fun o' => l.readIntoSeq n o')

/-- the object after the history: the left fold of "assigned fields over the object" -/
def L.afterAll (l : L) (o : Rec) (xs : List Rec) : Rec := xs.foldl (fun o x => (l.expect x []).over o) o

theorem L.readIntoSeq_roundtrip (V : ValueRT) (l : L) (xs : List Rec) (o : Rec) (r : Bytes)
    (h : ∀ x ∈ xs, l.WF V x []) :
    l.readIntoSeq xs.length o (writeSeq l xs ++ r) = some (l.afterAll o xs, r) := by
  induction xs generalizing o with
  | nil => rfl
  | cons x xs ih =>
    simp only [List.length_cons, L.readIntoSeq, writeSeq, List.append_assoc, L.afterAll, List.foldl_cons]
    rw [D.bind_some (L.readInto_roundtrip V l o x _ (h x (by simp)))]
    exact ih _ (fun y hy => h y (by simp [hy]))

/-- in a history the last record that assigns a field decides it; a field no record assigns keeps the
    initial value -/
theorem L.afterAll_untouched (l : L) (o : Rec) (xs : List Rec) (nm : String)
    (h : ∀ x ∈ xs, nm ∉ l.assigned x) : l.afterAll o xs nm = o nm := by
  induction xs generalizing o with
  | nil => rfl
  | cons x xs ih =>
    simp only [L.afterAll, List.foldl_cons]
    have := ih ((l.expect x []).over o) (fun y hy => h y (by simp [hy]))
    simp only [L.afterAll] at this
    rw [this, over_frame l o x nm (h x (by simp))]

theorem L.afterAll_last (l : L) (o : Rec) (xs : List Rec) (x : Rec) (nm : String) (h : nm ∈ l.assigned x) :
    l.afterAll o (xs ++ [x]) nm = (l.expect x []).over o nm := by
  simp only [L.afterAll, List.foldl_append, List.foldl_cons, List.foldl_nil]
  exact over_assigned l _ o x nm h

/-! ### ProfilePack: the transaction record is built afresh -/

/-- a freshly constructed object of a layout: every field its zero value -/
def zeroOf (l : L) : Rec := fun nm =>
  match l.fieldShapes.lookup nm with
  | some s => s.zero
  | none => .i 0

/-- `ProfilePack.Read` on an existing pack: `Steps` is assigned; the transaction is
    `service.NewTxRecord().Read(din)` — a new record, not the one the pack held -/
def profilePackReadInto (o : Rec) : D Rec := fun bs =>
  match profilePackBody.read [] bs with
  | none => none
  | some (e, r) => some ((fun nm => if nm ∈ txRecord.names then e.over (zeroOf txRecord) nm else e.over o nm), r)

theorem profilePackReadInto_roundtrip (V : ValueRT) (o x : Rec) (r : Bytes) (h : profilePackBody.WF V x []) :
    profilePackReadInto o (profilePackBody.write x ++ r) =
      some ((fun nm => if nm ∈ txRecord.names then (profilePackBody.expect x []).over (zeroOf txRecord) nm
                       else (profilePackBody.expect x []).over o nm), r) := by
  simp only [profilePackReadInto, L.roundtrip V profilePackBody x [] r h]

/-- no field of the transaction the pack held before survives a `Read`, whatever the new record
    carries: the result on the transaction's fields does not depend on the previous object -/
theorem profilepack_transaction_fresh (V : ValueRT) (o o' x : Rec) (r : Bytes) (h : profilePackBody.WF V x [])
    (p p' : Rec) (hp : profilePackReadInto o (profilePackBody.write x ++ r) = some (p, r))
    (hp' : profilePackReadInto o' (profilePackBody.write x ++ r) = some (p', r)) :
    ∀ nm ∈ txRecord.names, p nm = p' nm := by
  rw [profilePackReadInto_roundtrip V o x r h] at hp
  rw [profilePackReadInto_roundtrip V o' x r h] at hp'
  simp only [Option.some.injEq, Prod.mk.injEq, and_true] at hp hp'
  intro nm hnm
  rw [← hp, ← hp']
  simp only [hnm, if_true]

end Step
