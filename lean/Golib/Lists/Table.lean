/-
  Golib.Lists.Table — CodeModel of how lang/pack/StatGeneralPack.go uses the typed lists:
  a table = insertion-ordered map  key ↦ AnyList  (hmap.StringKeyLinkedMap, modelled as an
  association list: `Put` replaces in place or appends, as PUT_LAST does; C09 owns the map itself),

    create(t)                      the list type for a wire type code (default arm: StringList)
    Put / Get
    Sort(data, key, asc)           ord := data[key].Sorting(asc);  every column ↦ Filtering(ord)
    SortAnyList(data, k, asc, k2, asc2)   ord := data[k].SortingAnyList(asc, data[k2], asc2); same

  Columns of different element types live in one table, so elements are the tagged values `V`
  and a column carries its type code (ANYLIST_INT … ANYLIST_STRING = 1 … 5).
-/
import Golib.Basic
import Golib.Lists.Run
import Golib.Lists.Sort

namespace Lists

/-- one element of any of the five list types -/
inductive V where
  | i (v : Int)          -- IntList, LongList
  | b (bits : Nat)       -- FloatList, DoubleList: IEEE-754 bit pattern
  | s (bs : Bytes)       -- StringList
  deriving Inhabited, DecidableEq, Repr

namespace Table
open Lists.Sort

def V.rank : V → Nat
  | .i _ => 0
  | .b _ => 1
  | .s _ => 2

/-- the element order of a list type on tagged values: integers exactly, floats by IEEE order
    (`w` = 31 for float32, 63 for float64), strings bytewise; values of different kinds (never in
    one column) are ordered by kind so that the order is total on all of `V` -/
def vLe (w : Nat) : V → V → Bool
  | .i x, .i y => intLe x y
  | .b x, .b y => floatLe w x y
  | .s x, .s y => lexLe x y
  | a, b => decide (V.rank a ≤ V.rank b)

theorem vLe_tp (w : Nat) : TotalPreorder (vLe w) := by
  constructor
  · intro a b
    cases a <;> cases b <;> simp [vLe, V.rank] <;>
      first
        | exact intLe_tp.total _ _
        | exact (floatLe_tp w).total _ _
        | exact lexLe_tp.total _ _
  · intro a b c
    cases a <;> cases b <;> cases c <;> simp [vLe, V.rank] <;>
      first
        | exact intLe_tp.trans _ _ _
        | exact (floatLe_tp w).trans _ _ _
        | exact lexLe_tp.trans _ _ _

/-- a column: type code and list object -/
structure Col where
  ty : Nat
  l : TL V

def zeroOfTy (ty : Nat) : V :=
  if ty = 1 ∨ ty = 2 then .i 0 else if ty = 3 ∨ ty = 4 then .b 0 else .s []

def widthOfTy (ty : Nat) : Nat := if ty = 3 then 31 else 63

/-- `StatGeneralPack.create(t)` -/
def create (code : Nat) : Col :=
  let ty := if code = 1 ∨ code = 2 ∨ code = 3 ∨ code = 4 then code else 5
  { ty := ty, l := TL.mk' (zeroOfTy ty) 0 }

abbrev T := List (Bytes × Col)

/-- `data.Get(key)` (nil when absent) -/
def get : T → Bytes → Option Col
  | [], _ => none
  | (k, c) :: r, key => if k == key then some c else get r key

/-- `data.Put(key, list)`: an existing key keeps its place, a new one goes last -/
def put : T → Bytes → Col → T
  | [], key, c => [(key, c)]
  | (k, c') :: r, key, c => if k == key then (k, c) :: r else (k, c') :: put r key c

/-- the loop `for each key { data2.Put(key, data.Get(key).Filtering(ord)) }`
    (a failing Filtering panics out of the whole call) -/
def filterCols (g : Growth) : T → List Int → Option T
  | [], _ => some []
  | (k, c) :: r, idx =>
    match TL.filtering g (zeroOfTy c.ty) c.l idx with
    | none => none
    | some l' => (filterCols g r idx).map (fun r' => (k, { ty := c.ty, l := l' }) :: r')

/-- `this.get(i)` as the sort closures read it -/
def cell (c : Col) (i : Nat) : V := c.l.table.getD i (zeroOfTy c.ty)

/-- `Sort(data, sortKey, asc)`; `none` = panic (absent key: the nil interface conversion; a column
    shorter than the sort column: Filtering's index panic) -/
def sortTable (sort : SortFn) (g : Growth) (t : T) (key : Bytes) (asc : Bool) : Option T :=
  match get t key with
  | none => none
  | some c =>
    let ord := sorting sort (vLe (widthOfTy c.ty)) asc (cell c) c.l.size
    filterCols g t (ord.map Int.ofNat)

/-- `SortAnyList(data, sortKey, asc, sortKey2, asc2)` -/
def sortAnyTable (sort : SortFn) (g : Growth) (t : T) (key : Bytes) (asc : Bool)
    (key2 : Bytes) (asc2 : Bool) : Option T :=
  match get t key, get t key2 with
  | some c, some c2 =>
    let ord := sortingAnyList sort (vLe (widthOfTy c.ty)) asc (cell c)
      (vLe (widthOfTy c2.ty)) (cell c2) asc2 c.l.size
    filterCols g t (ord.map Int.ofNat)
  | _, _ => none

/-! ### Spec: a table of plain columns -/

abbrev AT := List (Bytes × Nat × List V)

def absT (t : T) : AT := t.map (fun e => (e.1, e.2.ty, TL.abs e.2.l))

/-- every column selected by the same index list -/
def specFilter : AT → List Int → Option AT
  | [], _ => some []
  | (k, ty, xs) :: r, idx =>
    match Spec.filtering xs idx with
    | none => none
    | some ys => (specFilter r idx).map (fun r' => (k, ty, ys) :: r')

def InvT (t : T) : Prop := ∀ e ∈ t, TL.Inv e.2.l

/-- **filterCols refines the column-wise selection** -/
theorem filterCols_spec (g : Growth) (hg : g.OK) (t : T) (hi : InvT t) (idx : List Int)
    (hb : idx.length ≤ TL.BOUND) :
    match specFilter (absT t) idx with
    | some a' => ∃ t', filterCols g t idx = some t' ∧ absT t' = a' ∧ InvT t'
    | none => filterCols g t idx = none := by
  induction t with
  | nil => exact ⟨[], rfl, rfl, fun e he => by cases he⟩
  | cons e r ih =>
    obtain ⟨k, c⟩ := e
    have hic : TL.Inv c.l := hi (k, c) (by simp)
    have hir : InvT r := fun e he => hi e (by simp [he])
    have hf := filtering_spec g hg (zeroOfTy c.ty) c.l hic idx hb
    simp only [absT, List.map_cons, specFilter, filterCols]
    cases hs : Spec.filtering (TL.abs c.l) idx with
    | none => rw [hs] at hf; simp [hf]
    | some ys =>
      rw [hs] at hf
      obtain ⟨out, h1, h2, h3⟩ := hf
      have ihr := ih hir
      simp only [h1]
      cases hr : specFilter (absT r) idx with
      | none =>
        rw [hr] at ihr
        have : specFilter (List.map (fun e => (e.1, e.2.ty, TL.abs e.2.l)) r) idx = none := hr
        simp [this, ihr]
      | some a' =>
        rw [hr] at ihr
        obtain ⟨t', h4, h5, h6⟩ := ihr
        have : specFilter (List.map (fun e => (e.1, e.2.ty, TL.abs e.2.l)) r) idx = some a' := hr
        simp only [this, Option.map_some, h4]
        refine ⟨_, rfl, ?_, ?_⟩
        · simp [absT, h2, ← h5]
        · intro e he
          rcases List.mem_cons.mp he with e1 | e1
          · subst e1; exact h3
          · exact h6 e e1

/-- selection of a column by indices that are all in range -/
def pick (xs : List V) (idx : List Int) : List V := idx.filterMap (fun i => xs[i.toNat]?)

theorem filtering_valid (xs : List V) (idx : List Int)
    (h : ∀ i ∈ idx, 0 ≤ i ∧ i < (xs.length : Int)) : Spec.filtering xs idx = some (pick xs idx) := by
  induction idx with
  | nil => rfl
  | cons i is ih =>
    have hi := h i (by simp)
    have hl : i.toNat < xs.length := by omega
    have hg : Spec.get xs i = some xs[i.toNat] := by simp [Spec.get, hi, hl]
    simp only [Spec.filtering, hg, ih (fun j hj => h j (by simp [hj])), Option.map_some, pick,
      List.filterMap_cons, List.getElem?_eq_getElem hl]

theorem pick_length (xs : List V) (idx : List Int)
    (h : ∀ i ∈ idx, 0 ≤ i ∧ i < (xs.length : Int)) : (pick xs idx).length = idx.length := by
  induction idx with
  | nil => rfl
  | cons i is ih =>
    have hi := h i (by simp)
    have hl : i.toNat < xs.length := by omega
    simp only [pick, List.filterMap_cons, List.getElem?_eq_getElem hl, List.length_cons]
    exact congrArg (· + 1) (ih (fun j hj => h j (by simp [hj])))

/-- row `r` of a selected column is row `idx[r]` of the source column -/
theorem pick_getElem (xs : List V) (idx : List Int)
    (h : ∀ i ∈ idx, 0 ≤ i ∧ i < (xs.length : Int)) (r : Nat) :
    (pick xs idx)[r]? = (idx[r]?).bind (fun i => xs[i.toNat]?) := by
  induction idx generalizing r with
  | nil => simp [pick]
  | cons i is ih =>
    have hi := h i (by simp)
    have hl : i.toNat < xs.length := by omega
    have ih' := ih (fun j hj => h j (by simp [hj]))
    simp only [pick, List.filterMap_cons, List.getElem?_eq_getElem hl]
    cases r with
    | zero => simp [List.getElem?_eq_getElem hl]
    | succ r => simpa [pick] using ih' r

/-- selecting all rows in their own order gives the column back -/
theorem pick_range (xs : List V) : pick xs ((List.range xs.length).map Int.ofNat) = xs := by
  apply List.ext_getElem?
  intro r
  have hv : ∀ i ∈ (List.range xs.length).map Int.ofNat, 0 ≤ i ∧ i < (xs.length : Int) := by
    intro i hi
    obtain ⟨j, hj, rfl⟩ := List.mem_map.mp hi
    exact ⟨Int.natCast_nonneg j, Int.ofNat_lt.mpr (List.mem_range.mp hj)⟩
  rw [pick_getElem xs _ hv r]
  by_cases h : r < xs.length
  · simp [h]
  · have : xs[r]? = none := List.getElem?_eq_none (by omega)
    simp [h]

/-- selecting along a permutation of the row numbers permutes the column: no row is lost,
    duplicated or invented (`pick` drops nothing here although it is defined by `filterMap`) -/
theorem pick_perm (xs : List V) (ord : List Nat) (h : ord.Perm (List.range xs.length)) :
    (pick xs (ord.map Int.ofNat)).Perm xs := by
  have := (h.map Int.ofNat).filterMap (fun i => xs[i.toNat]?)
  simpa [pick, pick_range] using this.trans (by rw [← pick]; rw [pick_range])

/-- when every index is in range for every column, the whole table is selected row-wise:
    all columns by the same indices — **rows stay aligned** -/
theorem specFilter_valid (a : AT) (idx : List Int)
    (h : ∀ e ∈ a, ∀ i ∈ idx, 0 ≤ i ∧ i < (e.2.2.length : Int)) :
    specFilter a idx = some (a.map (fun e => (e.1, e.2.1, pick e.2.2 idx))) := by
  induction a with
  | nil => rfl
  | cons e r ih =>
    obtain ⟨k, ty, xs⟩ := e
    have h1 := filtering_valid xs idx (h (k, ty, xs) (by simp))
    have h2 := ih (fun e he => h e (by simp [he]))
    simp [specFilter, h1, h2]

/-- an out-of-range index for some column makes the whole operation panic -/
theorem specFilter_invalid (a : AT) (idx : List Int)
    (h : ∃ e ∈ a, ∃ i ∈ idx, ¬ (0 ≤ i ∧ i < (e.2.2.length : Int))) : specFilter a idx = none := by
  induction a with
  | nil => obtain ⟨e, he, _⟩ := h; cases he
  | cons e r ih =>
    obtain ⟨k, ty, xs⟩ := e
    obtain ⟨e', he', i, hi, hbad⟩ := h
    simp only [specFilter]
    cases hs : Spec.filtering xs idx with
    | none => rfl
    | some ys =>
      rcases List.mem_cons.mp he' with e1 | e1
      · subst e1
        have := (Spec.filtering_eq_none_iff xs idx).mpr ⟨i, hi, hbad⟩
        rw [this] at hs; cases hs
      · simp [ih ⟨e', e1, i, hi, hbad⟩]

/-! ### get / put -/

theorem get_put_same (t : T) (k : Bytes) (c : Col) : get (put t k c) k = some c := by
  induction t with
  | nil => simp [put, get]
  | cons e r ih =>
    obtain ⟨k', c'⟩ := e
    simp only [put]
    split
    · rename_i h; simp [get, h]
    · rename_i h; simp [get, h, ih]

theorem get_put_other (t : T) (k k2 : Bytes) (c : Col) (h : (k == k2) = false) :
    get (put t k c) k2 = get t k2 := by
  induction t with
  | nil => simp [put, get, h]
  | cons e r ih =>
    obtain ⟨k', c'⟩ := e
    simp only [put]
    split
    · rename_i hk
      have e1 : k' = k := by simpa using hk
      subst e1
      simp [get, h]
    · simp only [get, ih]

/-- putting a new key appends; putting an existing key keeps the column order -/
theorem keys_put (t : T) (k : Bytes) (c : Col) :
    (put t k c).map (·.1) = if (t.map (·.1)).contains k then t.map (·.1) else t.map (·.1) ++ [k] := by
  induction t with
  | nil => simp [put]
  | cons e r ih =>
    obtain ⟨k', c'⟩ := e
    simp only [put]
    by_cases hk : (k' == k) = true
    · have e1 : k' = k := by simpa using hk
      subst e1
      simp
    · have hk' : (k' == k) = false := by simpa using hk
      have hk2 : (k == k') = false := by
        cases h : k == k' with
        | false => rfl
        | true => have e1 : k = k' := by simpa using h
                  subst e1; simp at hk
      simp only [hk', Bool.false_eq_true, if_false, List.map_cons, ih, List.contains_cons, hk2,
        Bool.false_or]
      split <;> simp

theorem create_type (code : Nat) :
    (create code).ty = (if code = 1 ∨ code = 2 ∨ code = 3 ∨ code = 4 then code else 5) ∧
    TL.abs (create code).l = [] ∧ TL.Inv (create code).l :=
  ⟨rfl, by simp [create], TL.inv_mk' _ _⟩

/-! ### sorting a table -/

/-- the cells the closures read are the column's elements -/
theorem cell_eq_abs (c : Col) (hi : TL.Inv c.l) (i : Nat) (h : i < c.l.size) :
    (TL.abs c.l)[i]? = some (cell c i) := by
  have ht : i < c.l.table.size := Nat.lt_of_lt_of_le h hi.1
  simp [TL.abs, cell, h, Array.getD, ht]

/-- **Sort(data, key, asc).**  For every `sort` keeping the contract: if the key is present and all
    columns are as long as the sort column, the result is the table with EVERY column selected by
    the SAME permutation `ord` of the row numbers — rows stay rows — and along `ord` the sort
    column is in the requested order. -/
theorem sortTable_spec (sort : SortFn) (hs : SortContract sort) (g : Growth) (hg : g.OK) (t : T)
    (hi : InvT t) (key : Bytes) (asc : Bool) (c : Col) (hk : get t key = some c)
    (hlen : ∀ e ∈ t, e.2.l.size = c.l.size) (hb : c.l.size ≤ TL.BOUND) :
    ∃ (ord : List Nat) (t' : T), sortTable sort g t key asc = some t' ∧
      ord.Perm (List.range c.l.size) ∧
      absT t' = (absT t).map (fun e => (e.1, e.2.1, pick e.2.2 (ord.map Int.ofNat))) ∧
      (ord.map (cell c)).Pairwise (fun a b => dir (vLe (widthOfTy c.ty)) asc a b = true) := by
  let ord := sorting sort (vLe (widthOfTy c.ty)) asc (cell c) c.l.size
  have ho := sorting_ok sort hs (vLe_tp (widthOfTy c.ty)) asc (cell c) c.l.size
  have hperm : ord.Perm (List.range c.l.size) := ho.1
  have hvalid : ∀ e ∈ absT t, ∀ i ∈ ord.map Int.ofNat, 0 ≤ i ∧ i < (e.2.2.length : Int) := by
    intro e he i hi'
    obtain ⟨e0, he0, rfl⟩ := List.mem_map.mp he
    obtain ⟨j, hj, rfl⟩ := List.mem_map.mp hi'
    have hj' : j < c.l.size := List.mem_range.mp (hperm.mem_iff.mp hj)
    have : (TL.abs e0.2.l).length = c.l.size := by rw [TL.abs_length (hi e0 he0), hlen e0 he0]
    simp only [this]
    constructor
    · exact Int.natCast_nonneg j
    · exact Int.ofNat_lt.mpr hj'
  have hlen' : (ord.map Int.ofNat).length ≤ TL.BOUND := by
    rw [List.length_map, hperm.length_eq, List.length_range]; exact hb
  have hf := filterCols_spec g hg t hi (ord.map Int.ofNat) hlen'
  rw [specFilter_valid (absT t) _ hvalid] at hf
  obtain ⟨t', h1, h2, _⟩ := hf
  exact ⟨ord, t', by simp only [sortTable, hk]; exact h1, hperm, h2, ho.2⟩

/-- **SortAnyList(data, key, asc, key2, asc2).**  The same with the two-level order: all columns
    are selected by one permutation, along which the first column is in the requested order and,
    inside its ties, the second column is in the order requested for it. -/
theorem sortAnyTable_spec (sort : SortFn) (hs : SortContract sort) (g : Growth) (hg : g.OK) (t : T)
    (hi : InvT t) (key : Bytes) (asc : Bool) (key2 : Bytes) (asc2 : Bool) (c c2 : Col)
    (hk : get t key = some c) (hk2 : get t key2 = some c2)
    (hlen : ∀ e ∈ t, e.2.l.size = c.l.size) (hb : c.l.size ≤ TL.BOUND) :
    ∃ (ord : List Nat) (t' : T), sortAnyTable sort g t key asc key2 asc2 = some t' ∧
      ord.Perm (List.range c.l.size) ∧
      absT t' = (absT t).map (fun e => (e.1, e.2.1, pick e.2.2 (ord.map Int.ofNat))) ∧
      ord.Pairwise (Ordered2 (vLe (widthOfTy c.ty)) asc (cell c) (vLe (widthOfTy c2.ty)) (cell c2) asc2) := by
  let ord := sortingAnyList sort (vLe (widthOfTy c.ty)) asc (cell c)
      (vLe (widthOfTy c2.ty)) (cell c2) asc2 c.l.size
  have ho := sortingAnyList_ok sort hs (vLe_tp (widthOfTy c.ty)) (vLe_tp (widthOfTy c2.ty)) asc asc2
    (cell c) (cell c2) c.l.size
  have hperm : ord.Perm (List.range c.l.size) := ho.1
  have hvalid : ∀ e ∈ absT t, ∀ i ∈ ord.map Int.ofNat, 0 ≤ i ∧ i < (e.2.2.length : Int) := by
    intro e he i hi'
    obtain ⟨e0, he0, rfl⟩ := List.mem_map.mp he
    obtain ⟨j, hj, rfl⟩ := List.mem_map.mp hi'
    have hj' : j < c.l.size := List.mem_range.mp (hperm.mem_iff.mp hj)
    have : (TL.abs e0.2.l).length = c.l.size := by rw [TL.abs_length (hi e0 he0), hlen e0 he0]
    simp only [this]
    exact ⟨Int.natCast_nonneg j, Int.ofNat_lt.mpr hj'⟩
  have hlen' : (ord.map Int.ofNat).length ≤ TL.BOUND := by
    rw [List.length_map, hperm.length_eq, List.length_range]; exact hb
  have hf := filterCols_spec g hg t hi (ord.map Int.ofNat) hlen'
  rw [specFilter_valid (absT t) _ hvalid] at hf
  obtain ⟨t', h1, h2, _⟩ := hf
  exact ⟨ord, t', by simp only [sortAnyTable, hk, hk2]; exact h1, hperm, h2, ho.2⟩

/-- an absent sort key panics (Go: the nil interface conversion in `data.Get(key).(list.AnyList)`,
    before the `== nil` test the code intends) -/
theorem sortTable_absent (sort : SortFn) (g : Growth) (t : T) (key : Bytes) (asc : Bool)
    (h : get t key = none) : sortTable sort g t key asc = none := by
  simp [sortTable, h]

end Table
end Lists
