/-
  Golib.Lists.Typed — CodeModel of util/list/{Int,Long,Float,Double,String}List.go
  (the five files are the same program over different element types).

    type XList struct { size int; table []X }

  `TL α` keeps exactly these two fields (plus the fact "table == nil", which the
  code tests in `ensure`).  Every function below follows the Go function of the
  same name statement by statement; a Go panic is `none`.

  Two places describe the *repaired* code (proposed/C13/fix-D44.diff, fix-D45.diff);
  the unrepaired statements are kept next to them as `ensureOrig` / `addAllSelfOrig`
  together with witness theorems (`Golib/Props/C13.lean: finding_D44, finding_D45`).

  Spec: a plain `List α`.
-/
namespace Lists

/-- `ANYLIST_DEFAULT_CAPACITY` -/
def DEFAULT_CAPACITY : Nat := 10
/-- `ANYLIST_MAX_SIZE = math.MaxInt32 - 8` -/
def MAX_SIZE : Nat := 2147483639
/-- the grow rule `oldSize + (oldSize >> 1)` -/
def growBy (old : Nat) : Nat := old + old / 2

/-- the capacity policy of `ensure`: the theorems hold for every policy that is `OK`; the one
    in /repo is `Growth.go`, and tie A re-derives it from the source on every run
    (Golib.Gen.C13, obligations in Golib/Props/C13Gen.lean) -/
structure Growth where
  /-- `newSize := oldSize + (oldSize >> 1); if newSize < minCapacity { newSize = minCapacity }` -/
  newSize : Nat → Nat → Nat
  /-- `ANYLIST_DEFAULT_CAPACITY` -/
  dcap : Nat
  /-- `ANYLIST_MAX_SIZE` -/
  maxSize : Nat

def Growth.go : Growth :=
  { newSize := fun oldSize minCapacity =>
      if growBy oldSize < minCapacity then minCapacity else growBy oldSize,
    dcap := DEFAULT_CAPACITY, maxSize := MAX_SIZE }

structure TL (α : Type) where
  size : Nat
  isNil : Bool
  table : Array α

namespace TL
variable {α : Type}

/-- `new(XList)` — the zero value: `table == nil` -/
def zeroValue : TL α := { size := 0, isNil := true, table := #[] }
/-- `NewXList(initialCapa)`: `make([]X, initialCapa)`;  `NewXListDefault()` is `mk 0` -/
def mk' (z : α) (cap : Nat) : TL α := { size := 0, isNil := false, table := Array.replicate cap z }

/-- `ensure(minCapacity)` — repaired form (fix-D44: `math.Max` where the code has `math.Min`) -/
def ensure (g : Growth) (z : α) (minCap : Nat) (l : TL α) : Option (TL α) :=
  if minCap > l.table.size then
    let minCap := if l.isNil then max g.dcap minCap else minCap
    let old := l.table.size
    let newSize := g.newSize old minCap
    if newSize > g.maxSize then none           -- panic("too big size")
    else some { size := l.size, isNil := false,
                table := l.table ++ Array.replicate (newSize - old) z }   -- make + copy
  else some l

/-- `ensure` as it stands in /repo: `minCapacity = min(DEFAULT_CAPACITY, minCapacity)` on a nil table -/
def ensureOrig (z : α) (minCap : Nat) (l : TL α) : Option (TL α) :=
  if minCap > l.table.size then
    let minCap := if l.isNil then min DEFAULT_CAPACITY minCap else minCap
    let old := l.table.size
    let new0 := growBy old
    let newSize := if new0 < minCap then minCap else new0
    if newSize > MAX_SIZE then none
    else some { size := l.size, isNil := false,
                table := l.table ++ Array.replicate (newSize - old) z }
  else some l

/-- `this.table[this.size] = e; this.size++` (index out of range → runtime panic) -/
def put (l : TL α) (e : α) : Option (TL α) :=
  match l with
  | ⟨size, nil, table⟩ =>
    if h : size < table.size then some ⟨size + 1, nil, table.set size e h⟩ else none

/-- the `for` loop of `AddAllArray` / `AddAll` over the elements taken from the other side -/
def putAll : List α → TL α → Option (TL α)
  | [], l => some l
  | x :: xs, l => (put l x).bind (putAll xs)

def add (g : Growth) (z : α) (e : α) (l : TL α) : Option (TL α) :=
  (ensure g z (l.size + 1) l).bind (fun l => put l e)

def addAllArray (g : Growth) (z : α) (xs : List α) (l : TL α) : Option (TL α) :=
  (ensure g z (l.size + xs.length) l).bind (putAll xs)

/-- the elements `other.table[0 .. other.size)` that `AddAll(other)` reads -/
def elems (l : TL α) : List α := (l.table.extract 0 l.size).toList

/-- `AddAll(other)` with `other` a different object -/
def addAll (g : Growth) (z : α) (other : TL α) (l : TL α) : Option (TL α) :=
  (ensure g z (l.size + other.size) l).bind (putAll other.elems)

/-- loop of `AddAll(this)` with the bound read once (`n := other.size`, fix-D45):
    `for i := 0; i < n; i++ { table[size] = table[i]; size++ }` — first argument: rounds left (n - i) -/
def selfLoop : Nat → Nat → TL α → Option (TL α)
  | 0, _, l => some l
  | r + 1, i, l =>
    match l.table[i]? with
    | none => none
    | some x => (put l x).bind (selfLoop r (i + 1))

def addAllSelf (g : Growth) (z : α) (l : TL α) : Option (TL α) :=
  (ensure g z (l.size + l.size) l).bind (fun l' => selfLoop l.size 0 l')

/-- loop of `AddAll(this)` as it stands in /repo: `i < other.size` is re-read every round and
    `other.size` *is* `this.size`, so the loop can only leave through the index panic -/
def selfLoopOrig (i : Nat) (l : TL α) : Option (TL α) :=
  if i < l.size then
    match l.table[i]? with
    | none => none
    | some x =>
      if h : l.size < l.table.size then
        selfLoopOrig (i + 1) ⟨l.size + 1, l.isNil, l.table.set l.size x h⟩
      else none
  else some l
termination_by l.table.size - l.size
decreasing_by simp [Array.size_set]; omega

def addAllSelfOrig (g : Growth) (z : α) (l : TL α) : Option (TL α) :=
  (ensure g z (l.size + l.size) l).bind (selfLoopOrig 0)

/-- `get(i)`: the explicit `i >= size` panic, then the slice access (negative index → runtime panic) -/
def get (l : TL α) (i : Int) : Option α :=
  if i ≥ (l.size : Int) then none
  else if i < 0 then none
  else l.table[i.toNat]?

/-- `set(i, v)` -/
def set (l : TL α) (i : Int) (v : α) : Option (TL α) :=
  if i ≥ (l.size : Int) then none
  else if i < 0 then none
  else if h : i.toNat < l.table.size then
    some { size := l.size, isNil := l.isNil, table := l.table.set i.toNat v h }
  else none

/-- `ToArray()`: `make([]X, size); copy(newArray, table)` -/
def toArray (l : TL α) : List α := l.table.toList.take l.size

/-- `Filtering(index)`: `out := NewXList(size); for … out.add(this.get(index[i]))` -/
def filteringLoop (g : Growth) (z : α) (l : TL α) : List Int → TL α → Option (TL α)
  | [], out => some out
  | i :: is, out =>
    match l.get i with
    | none => none
    | some v => (add g z v out).bind (filteringLoop g z l is)

def filtering (g : Growth) (z : α) (l : TL α) (idx : List Int) : Option (TL α) :=
  filteringLoop g z l idx (mk' z l.size)

/-! ### abstraction and invariant -/

/-- the sequence a list object stands for -/
def abs (l : TL α) : List α := l.table.toList.take l.size

/-- `size ≤ len(table)`, and a nil table is empty -/
def Inv (l : TL α) : Prop := l.size ≤ l.table.size ∧ (l.isNil = true → l.table.size = 0)

theorem inv_zeroValue : Inv (zeroValue : TL α) := by simp [Inv, zeroValue]
theorem inv_mk' (z : α) (cap : Nat) : Inv (mk' z cap) := by simp [Inv, mk']
@[simp] theorem abs_zeroValue : abs (zeroValue : TL α) = [] := by simp [abs, zeroValue]
@[simp] theorem abs_mk' (z : α) (cap : Nat) : abs (mk' z cap) = [] := by simp [abs, mk']

theorem abs_length {l : TL α} (h : Inv l) : (abs l).length = l.size := by
  simp [abs, List.length_take]; exact Nat.min_eq_left h.1

theorem toArray_eq_abs (l : TL α) : toArray l = abs l := rfl

theorem elems_eq_abs {l : TL α} (_h : Inv l) : elems l = abs l := by
  unfold elems abs
  simp [Array.toList_extract, List.extract_eq_take_drop]

/-- bound under which `ensure` cannot hit "too big size": `B + B/2 ≤ MAX_SIZE` -/
def BOUND : Nat := 1431655759

/-- what the refinement needs of a capacity policy: below `BOUND` elements it never reaches the
    "too big size" panic -/
structure _root_.Lists.Growth.OK (g : Growth) : Prop where
  ge_min : ∀ old m, m ≤ g.newSize old m
  le_max : ∀ old m, old < m → m ≤ BOUND → g.newSize old m ≤ g.maxSize
  dcap_le : g.dcap ≤ BOUND

theorem _root_.Lists.Growth.go_ok : Growth.go.OK :=
  ⟨fun old m => by simp only [Growth.go]; split <;> omega,
   fun old m h1 h2 => by
     simp only [Growth.go, growBy, MAX_SIZE]; unfold BOUND at h2
     by_cases h : old + old / 2 < m <;> simp only [h, if_true, if_false] <;> omega,
   by simp [Growth.go, DEFAULT_CAPACITY, BOUND]⟩

theorem ensure_spec (g : Growth) (hg : g.OK) (z : α) (m : Nat) (l : TL α) (hi : Inv l) (hm : m ≤ BOUND) :
    ∃ l', ensure g z m l = some l' ∧ l'.size = l.size ∧ abs l' = abs l ∧ m ≤ l'.table.size ∧ Inv l' := by
  unfold ensure
  by_cases hgt : m > l.table.size
  · simp only [hgt, if_true]
    have hm' : (if l.isNil = true then max g.dcap m else m) ≤ BOUND := by
      have := hg.dcap_le; split <;> omega
    have hlt' : l.table.size < (if l.isNil = true then max g.dcap m else m) := by split <;> omega
    have hnew : ¬ (g.newSize l.table.size (if l.isNil = true then max g.dcap m else m) > g.maxSize) := by
      have := hg.le_max _ _ hlt' hm'; omega
    have hge := hg.ge_min l.table.size (if l.isNil = true then max g.dcap m else m)
    have hmc : m ≤ (if l.isNil = true then max g.dcap m else m) := by split <;> omega
    rw [if_neg hnew]
    refine ⟨_, rfl, rfl, ?_, ?_, ?_, ?_⟩
    · simp only [abs, Array.toList_append]
      exact List.take_append_of_le_length (by simpa using hi.1)
    · simp only [Array.size_append, Array.size_replicate]
      omega
    · simp only [Array.size_append, Array.size_replicate]
      have := hi.1; omega
    · intro h; cases h
  · simp only [hgt, if_false]
    exact ⟨l, rfl, rfl, rfl, by omega, hi⟩

theorem put_spec (l : TL α) (e : α) (hi : Inv l) (hc : l.size < l.table.size) :
    ∃ l', put l e = some l' ∧ l'.size = l.size + 1 ∧ abs l' = abs l ++ [e] ∧
      l'.table.size = l.table.size ∧ Inv l' ∧ l'.table.toList = l.table.toList.set l.size e := by
  obtain ⟨size, nil, table⟩ := l
  simp only at hc
  refine ⟨⟨size + 1, nil, table.set size e hc⟩, by simp [put, hc], rfl, ?_, by simp, ?_, by simp⟩
  · simp only [abs, Array.toList_set]
    rw [List.take_add_one, List.take_set_of_le (Nat.le_refl _)]
    simp [hc]
  · constructor
    · simp; omega
    · intro h; have := hi.2 h; simp only at this; omega

theorem putAll_spec (xs : List α) (l : TL α) (hi : Inv l) (hc : l.size + xs.length ≤ l.table.size) :
    ∃ l', putAll xs l = some l' ∧ l'.size = l.size + xs.length ∧ abs l' = abs l ++ xs ∧
      l'.table.size = l.table.size ∧ Inv l' := by
  induction xs generalizing l with
  | nil => exact ⟨l, rfl, by simp, by simp, rfl, hi⟩
  | cons x xs ih =>
    simp only [List.length_cons] at hc
    obtain ⟨l1, h1, hs1, ha1, ht1, hi1, _⟩ := put_spec l x hi (by omega)
    obtain ⟨l2, h2, hs2, ha2, ht2, hi2⟩ := ih l1 hi1 (by omega)
    refine ⟨l2, by simp [putAll, h1, h2], ?_, ?_, by omega, hi2⟩
    · simp only [List.length_cons]; omega
    · rw [ha2, ha1]; simp

theorem add_spec (g : Growth) (hg : g.OK) (z e : α) (l : TL α) (hi : Inv l) (hb : l.size + 1 ≤ BOUND) :
    ∃ l', add g z e l = some l' ∧ abs l' = abs l ++ [e] ∧ Inv l' := by
  obtain ⟨l1, h1, hs1, ha1, hc1, hi1⟩ := ensure_spec g hg z (l.size + 1) l hi hb
  obtain ⟨l2, h2, _, ha2, _, hi2, _⟩ := put_spec l1 e hi1 (by omega)
  exact ⟨l2, by simp [add, h1, h2], by rw [ha2, ha1], hi2⟩

theorem addAllArray_spec (g : Growth) (hg : g.OK) (z : α) (xs : List α) (l : TL α) (hi : Inv l)
    (hb : l.size + xs.length ≤ BOUND) :
    ∃ l', addAllArray g z xs l = some l' ∧ abs l' = abs l ++ xs ∧ Inv l' := by
  obtain ⟨l1, h1, hs1, ha1, hc1, hi1⟩ := ensure_spec g hg z (l.size + xs.length) l hi hb
  obtain ⟨l2, h2, _, ha2, _, hi2⟩ := putAll_spec xs l1 hi1 (by omega)
  exact ⟨l2, by simp [addAllArray, h1, h2], by rw [ha2, ha1], hi2⟩

theorem addAll_spec (g : Growth) (hg : g.OK) (z : α) (o l : TL α) (hi : Inv l) (ho : Inv o)
    (hb : l.size + o.size ≤ BOUND) :
    ∃ l', addAll g z o l = some l' ∧ abs l' = abs l ++ abs o ∧ Inv l' := by
  obtain ⟨l1, h1, hs1, ha1, hc1, hi1⟩ := ensure_spec g hg z (l.size + o.size) l hi hb
  have hl : (elems o).length = o.size := by rw [elems_eq_abs ho, abs_length ho]
  obtain ⟨l2, h2, _, ha2, _, hi2⟩ := putAll_spec (elems o) l1 hi1 (by omega)
  exact ⟨l2, by simp [addAll, h1, h2], by rw [ha2, ha1, elems_eq_abs ho], hi2⟩

theorem get_spec (l : TL α) (i : Int) (hi : Inv l) :
    get l i = if 0 ≤ i ∧ i < (abs l).length then (abs l)[i.toNat]? else none := by
  rw [abs_length hi]
  unfold get
  by_cases h1 : i ≥ (l.size : Int)
  · have : ¬ (0 ≤ i ∧ i < (l.size : Int)) := by omega
    simp [h1, this]
  · by_cases h2 : i < 0
    · have : ¬ (0 ≤ i ∧ i < (l.size : Int)) := by omega
      simp [h1, h2, this]
    · have h3 : 0 ≤ i ∧ i < (l.size : Int) := by omega
      rw [if_neg h1, if_neg h2, if_pos h3]
      have : i.toNat < l.size := by omega
      simp [abs, this]

theorem set_spec (l : TL α) (i : Int) (v : α) (hi : Inv l) :
    (0 ≤ i ∧ i < (abs l).length →
        ∃ l', set l i v = some l' ∧ abs l' = (abs l).set i.toNat v ∧ Inv l') ∧
    (¬ (0 ≤ i ∧ i < (abs l).length) → set l i v = none) := by
  rw [abs_length hi]
  constructor
  · intro ⟨h0, h1⟩
    have hn : i.toNat < l.size := by omega
    have ht : i.toNat < l.table.size := by have := hi.1; omega
    refine ⟨⟨l.size, l.isNil, l.table.set i.toNat v ht⟩, ?_, ?_, ?_⟩
    · unfold set
      have : ¬ i ≥ (l.size : Int) := by omega
      have h2 : ¬ i < 0 := by omega
      simp [this, h2, ht]
    · simp only [abs, Array.toList_set, List.take_set]
    · constructor
      · simp; exact hi.1
      · intro h; have := hi.2 h; simp; omega
  · intro h
    unfold set
    by_cases h1 : i ≥ (l.size : Int)
    · simp [h1]
    · have : i < 0 := by omega
      simp [h1, this]

theorem selfLoop_spec (n : Nat) (A : List α) (hAl : A.length = n) :
    ∀ (k i : Nat) (l : TL α), k = n - i → Inv l → l.table.toList.take n = A →
      l.size = n + i → i ≤ n → n + n ≤ l.table.size →
      ∃ l', selfLoop k i l = some l' ∧ abs l' = abs l ++ A.drop i ∧ Inv l' := by
  intro k
  induction k with
  | zero =>
    intro i l hk hi hA hs hin hc
    have : i = n := by omega
    subst this
    exact ⟨l, rfl, by rw [List.drop_of_length_le (by omega)]; simp, hi⟩
  | succ k ih =>
    intro i l hk hi hA hs hin hc
    have hlt : i < n := by omega
    have hget : l.table[i]? = some (A[i]'(by omega)) := by
      rw [← Array.getElem?_toList]
      have : (List.take n l.table.toList)[i]? = l.table.toList[i]? := by
        rw [List.getElem?_take]; simp [hlt]
      rw [← this, hA]; simp
    obtain ⟨l1, h1, hs1, ha1, ht1, hi1, htl⟩ := put_spec l (A[i]'(by omega)) hi (by omega)
    have hA1 : l1.table.toList.take n = A := by
      rw [htl, List.take_set_of_le (by omega)]; exact hA
    obtain ⟨l2, h2, ha2, hi2⟩ := ih (i + 1) l1 (by omega) hi1 hA1 (by omega) (by omega) (by omega)
    refine ⟨l2, ?_, ?_, hi2⟩
    · simp [selfLoop, hget, h1, h2]
    · rw [ha2, ha1, List.append_assoc]
      congr 1
      rw [List.singleton_append]
      exact (List.drop_eq_getElem_cons (by omega)).symm

theorem addAllSelf_spec (g : Growth) (hg : g.OK) (z : α) (l : TL α) (hi : Inv l) (hb : l.size + l.size ≤ BOUND) :
    ∃ l', addAllSelf g z l = some l' ∧ abs l' = abs l ++ abs l ∧ Inv l' := by
  obtain ⟨l1, h1, hs1, ha1, hc1, hi1⟩ := ensure_spec g hg z (l.size + l.size) l hi hb
  have hA : l1.table.toList.take l.size = abs l := by rw [← ha1, abs, hs1]
  obtain ⟨l2, h2, ha2, hi2⟩ := selfLoop_spec l.size (abs l) (abs_length hi) l.size 0 l1 (by omega) hi1 hA
    (by omega) (by omega) hc1
  exact ⟨l2, by simp [addAllSelf, h1, h2], by rw [ha2, ha1]; simp, hi2⟩

/-! ### the two statements of /repo that differ (witnesses for fix-D44, fix-D45) -/

/-- `AddAllArray` with `ensure` as it stands in /repo -/
def addAllArrayOrig (z : α) (xs : List α) (l : TL α) : Option (TL α) :=
  (ensureOrig z (l.size + xs.length) l).bind (putAll xs)

theorem putAll_overflow (xs : List α) (l : TL α) (hs : l.size ≤ l.table.size)
    (h : l.table.size < l.size + xs.length) : putAll xs l = none := by
  induction xs generalizing l with
  | nil => simp at h; omega
  | cons x xs ih =>
    obtain ⟨size, nil, table⟩ := l
    simp only [List.length_cons] at h
    simp only [putAll, put]
    by_cases hc : size < table.size
    · simp only [hc, dite_true, Option.bind_some]
      exact ih _ (by simp; omega) (by simp; omega)
    · simp [hc]

/-- D44: on the zero value (`table == nil`) the unrepaired `ensure` grows to `min(10, n)` slots,
    so appending more than ten elements at once runs off the table -/
theorem addAllArrayOrig_zeroValue_panics (z : α) (xs : List α) (h : 10 < xs.length) :
    addAllArrayOrig z xs (zeroValue : TL α) = none := by
  unfold addAllArrayOrig ensureOrig
  have h1 : (0 + xs.length > (zeroValue : TL α).table.size) := by simp [zeroValue]; omega
  simp only [zeroValue, List.size_toArray, List.length_nil, Nat.zero_add] at h1 ⊢
  simp only [h1, if_true]
  have hm : min DEFAULT_CAPACITY xs.length = 10 := by unfold DEFAULT_CAPACITY; omega
  simp only [hm, growBy]
  have : ¬ (10 > MAX_SIZE) := by unfold MAX_SIZE; omega
  simp only [show (0 + 0 / 2 < 10) by omega, if_true, this, if_false, Option.bind_some]
  exact putAll_overflow xs _ (by simp) (by simp; omega)

/-- D45: with the loop bound re-read (`i < other.size`, `other == this`) the loop never ends
    normally: `i < size` is preserved by every round -/
theorem selfLoopOrig_panics : ∀ (k i : Nat) (l : TL α), k = l.table.size - l.size → i < l.size →
    selfLoopOrig i l = none := by
  intro k
  induction k with
  | zero =>
    intro i l hk hi
    rw [selfLoopOrig]
    simp only [hi, if_true]
    split
    · rfl
    · have : ¬ l.size < l.table.size := by omega
      simp [this]
  | succ k ih =>
    intro i l hk hi
    rw [selfLoopOrig]
    simp only [hi, if_true]
    split
    · rfl
    · by_cases hc : l.size < l.table.size
      · simp only [hc, dite_true]
        exact ih (i + 1) _ (by simp; omega) (by simp; omega)
      · simp [hc]

theorem addAllSelfOrig_panics (g : Growth) (hg : g.OK) (z : α) (l : TL α) (hi : Inv l) (h0 : 0 < l.size)
    (hb : l.size + l.size ≤ BOUND) : addAllSelfOrig g z l = none := by
  obtain ⟨l1, h1, hs1, _, _, _⟩ := ensure_spec g hg z (l.size + l.size) l hi hb
  unfold addAllSelfOrig
  rw [h1]
  exact selfLoopOrig_panics _ 0 l1 rfl (by omega)

end TL
end Lists
