/-
  Golib.Lists.Wire — wire form of the typed lists.

    Write:  out.WriteInt3(int32(size)); for i < size { out.WriteX(get(i)) }
    Read :  count := int(in.ReadInt3()); for i < count { add(in.ReadX()) }

  Element codec per list type (Golib.Prim.Codec = model of io.DataOutputX/DataInputX):
    IntList, LongList  WriteDecimal / ReadDecimal
    FloatList          WriteFloat   / ReadFloat     (IEEE-754 bit pattern, 4 bytes)
    DoubleList         WriteDouble  / ReadDouble    (bit pattern, 8 bytes)
    StringList         WriteText    / ReadText      (blob of the string's bytes)
-/
import Golib.Prim.Codec
import Golib.Lists.Typed

namespace Lists
open Prim

structure Codec (α : Type) where
  enc : α → Bytes
  dec : P α
  wf : α → Prop
  rt : ∀ x r, wf x → P.run dec (enc x ++ r) = some (x, r)

/-- int / int64 elements (Go `int` is 64 bits on the supported platforms) -/
def decimalCodec : Codec Int :=
  { enc := encDecimal, dec := decDecimal, wf := inRange 8, rt := run_decDecimal }

/-- float32 elements as bit patterns -/
def floatCodec : Codec Nat :=
  { enc := beN 4, dec := rdU 4, wf := fun b => b < 256 ^ 4, rt := fun x r h => run_rdU 4 x r h }

/-- float64 elements as bit patterns -/
def doubleCodec : Codec Nat :=
  { enc := beN 8, dec := rdU 8, wf := fun b => b < 256 ^ 8, rt := fun x r h => run_rdU 8 x r h }

/-- strings as byte lists -/
def textCodec : Codec Bytes :=
  { enc := encBlob, dec := decBlob, wf := fun bs => bs.length < 2147483648, rt := run_decBlob }

variable {α : Type}

/-- `Write` -/
def write (c : Codec α) (l : TL α) : Bytes :=
  encI 3 l.size ++ encMany c.enc (TL.toArray l)

/-- the `for` loop of `Read`: one element, one `add` -/
def readLoop (g : Growth) (c : Codec α) (z : α) : Nat → TL α → P (TL α)
  | 0, l => .pure l
  | n+1, l => P.bind c.dec (fun x =>
      match TL.add g z x l with
      | some l' => readLoop g c z n l'
      | none => .fail)

/-- `Read` into the receiver `l` (a negative count runs the loop zero times) -/
def read (g : Growth) (c : Codec α) (z : α) (l : TL α) : P (TL α) :=
  P.bind (rdI 3) (fun n => readLoop g c z n.toNat l)

theorem run_readLoop (g : Growth) (hg : g.OK) (c : Codec α) (z : α) (xs : List α) (l : TL α) (r : Bytes)
    (hi : TL.Inv l) (hw : ∀ x ∈ xs, c.wf x) (hb : l.size + xs.length ≤ TL.BOUND) :
    ∃ l', P.run (readLoop g c z xs.length l) (encMany c.enc xs ++ r) = some (l', r) ∧
      TL.abs l' = TL.abs l ++ xs ∧ TL.Inv l' := by
  induction xs generalizing l with
  | nil => exact ⟨l, by simp [readLoop, encMany], by simp, hi⟩
  | cons x xs ih =>
    simp only [List.length_cons] at hb
    obtain ⟨l1, h1, ha1, hi1⟩ := TL.add_spec g hg z x l hi (by omega)
    have hs1 : l1.size = l.size + 1 := by
      rw [← TL.abs_length hi1, ha1, List.length_append, TL.abs_length hi]; rfl
    obtain ⟨l2, h2, ha2, hi2⟩ := ih l1 hi1 (fun y hy => hw y (by simp [hy])) (by omega)
    refine ⟨l2, ?_, by rw [ha2, ha1]; simp, hi2⟩
    simp only [List.length_cons, readLoop, encMany, List.append_assoc]
    rw [P.run_bind_some _ _ _ _ _ (c.rt x _ (hw x (by simp)))]
    simp only [h1]
    exact h2

/-- round trip: reading what `Write` produced appends exactly the written sequence -/
theorem run_read_write (g : Growth) (hg : g.OK) (c : Codec α) (z : α) (l l0 : TL α) (r : Bytes)
    (hi : TL.Inv l) (hi0 : TL.Inv l0) (hsz : l.size < 8388608)
    (hw : ∀ x ∈ TL.abs l, c.wf x) (hb : l0.size + l.size ≤ TL.BOUND) :
    ∃ l', P.run (read g c z l0) (write c l ++ r) = some (l', r) ∧
      TL.abs l' = TL.abs l0 ++ TL.abs l ∧ TL.Inv l' := by
  have hlen : (TL.abs l).length = l.size := TL.abs_length hi
  obtain ⟨l', h, ha, hi'⟩ := run_readLoop g hg c z (TL.abs l) l0 r hi0 hw (by omega)
  refine ⟨l', ?_, ha, hi'⟩
  unfold read write
  rw [List.append_assoc, P.run_bind_some _ _ _ _ _ (run_rdI 3 (l.size : Int) _
      ((inRange_3 _).mpr (by omega)))]
  simp only [Int.toNat_natCast, TL.toArray_eq_abs]
  rw [← hlen]; exact h

/-- a strict prefix of a written list never reads back (the reader asks for bytes that are not
    there — in Go: `ReadBytes` panics), whatever the receiving list -/
theorem run_read_prefix_fails (g : Growth) (hg : g.OK) (c : Codec α) (z : α) (l l0 : TL α)
    (q s : Bytes) (hi : TL.Inv l) (hi0 : TL.Inv l0) (hsz : l.size < 8388608)
    (hw : ∀ x ∈ TL.abs l, c.wf x) (hb : l0.size + l.size ≤ TL.BOUND)
    (hs : s ≠ []) (hq : q ++ s = write c l) : P.run (read g c z l0) q = none := by
  obtain ⟨l', h, _, _⟩ := run_read_write g hg c z l l0 [] hi hi0 hsz hw hb
  rw [List.append_nil, ← hq] at h
  exact P.prefix_fails (read g c z l0) q s l' hs h

/-- the documented limit: from 2^23 elements on the 24-bit count reads back negative and the
    reader takes nothing -/
theorem run_read_count_wraps (g : Growth) (c : Codec α) (z : α) (l l0 : TL α) (r : Bytes)
    (h1 : 8388608 ≤ l.size) (h2 : l.size < 16777216) :
    P.run (read g c z l0) (write c l ++ r) = some (l0, encMany c.enc (TL.toArray l) ++ r) := by
  unfold read write
  have hr : inRange 3 ((l.size : Int) - 16777216) := (inRange_3 _).mpr (by omega)
  have he : encI 3 (l.size : Int) = encI 3 ((l.size : Int) - 16777216) := by
    unfold encI toU; rw [modulus_3]; congr 2
    exact (Int.sub_emod_right _ _).symm
  rw [he, List.append_assoc, P.run_bind_some _ _ _ _ _ (run_rdI 3 _ _ hr)]
  have : ((l.size : Int) - 16777216).toNat = 0 := by omega
  rw [this]; rfl

end Lists
