/-
  Golib.Lists.Cross — the cross-type convenience methods of `AnyList` that move between
  integers and their decimal text:

    IntList / LongList :  AddString / SetString (strconv.Atoi / ParseInt(v, 10, 64); error → panic),
                          GetString (strconv.Itoa / FormatInt(v, 10)); AddInt / AddLong / GetInt / GetLong
                          are the element operations themselves (Go `int` is 64 bits)
    StringList         :  AddInt / AddLong / SetInt / SetLong (Itoa), GetInt / GetLong (Atoi; error → panic)

  `strconv` is modelled by explicit digit functions (`itoa`, `atoi`) on byte strings.
  Not modelled: the float conversions (`AddFloat` on an int list, `GetString` of a float list, …):
  they are single Go conversion / `strconv.FormatFloat` calls.
-/
import Golib.Basic
import Golib.Lists.Run

namespace Lists.Cross

/-! ### strconv on int64 -/

/-- decimal digits of a natural, most significant first, as ASCII bytes -/
def decDigits (n : Nat) : Bytes :=
  if n < 10 then [48 + n] else decDigits (n / 10) ++ [48 + n % 10]
decreasing_by omega

/-- `strconv.Itoa` / `FormatInt(v, 10)` -/
def itoa (v : Int) : Bytes :=
  if v < 0 then 45 :: decDigits (-v).toNat else decDigits v.toNat

def parseDigits : Bytes → Nat → Option Nat
  | [], acc => some acc
  | d :: ds, acc => if 48 ≤ d ∧ d ≤ 57 then parseDigits ds (acc * 10 + (d - 48)) else none

/-- `strconv.Atoi` / `ParseInt(s, 10, 64)`: optional sign, then at least one digit and nothing but
    digits; a value outside int64 is an error -/
def atoi (s : Bytes) : Option Int :=
  let neg : Bool := s.head? == some 45
  let body : Bytes := if s.head? == some 45 || s.head? == some 43 then s.tail else s
  if body.isEmpty then none
  else match parseDigits body 0 with
    | none => none
    | some n =>
      let v : Int := if neg then -(n : Int) else (n : Int)
      if -9223372036854775808 ≤ v ∧ v ≤ 9223372036854775807 then some v else none

theorem parseDigits_append (a b : Bytes) (acc : Nat) :
    parseDigits (a ++ b) acc = (parseDigits a acc).bind (parseDigits b) := by
  induction a generalizing acc with
  | nil => rfl
  | cons d ds ih =>
    simp only [List.cons_append, parseDigits]
    split
    · exact ih _
    · rfl

theorem parseDigits_decDigits (n acc : Nat) :
    parseDigits (decDigits n) acc = some (acc * 10 ^ (decDigits n).length + n) := by
  induction n using Nat.strongRecOn generalizing acc with
  | _ n ih =>
    rw [decDigits]
    by_cases h : n < 10
    · simp only [h, if_true, parseDigits, List.length_singleton, Nat.pow_one]
      have : 48 ≤ 48 + n ∧ 48 + n ≤ 57 := by omega
      simp only [this, and_self, if_true]
      congr 1; omega
    · simp only [h, if_false, parseDigits_append, ih (n / 10) (by omega), Option.bind_some,
        parseDigits, List.length_append, List.length_singleton]
      have : 48 ≤ 48 + n % 10 ∧ 48 + n % 10 ≤ 57 := by omega
      simp only [this, and_self, if_true]
      congr 1
      rw [Nat.pow_succ]
      have := Nat.div_add_mod n 10
      have e : (acc * 10 ^ (decDigits (n / 10)).length + n / 10) * 10 =
          acc * (10 ^ (decDigits (n / 10)).length * 10) + n / 10 * 10 := by
        rw [Nat.add_mul, Nat.mul_assoc]
      rw [e]; omega

theorem decDigits_ne_nil (n : Nat) : decDigits n ≠ [] := by
  rw [decDigits]; split <;> simp

theorem decDigits_head (n : Nat) : ∀ d ∈ (decDigits n).head?, 48 ≤ d ∧ d ≤ 57 := by
  induction n using Nat.strongRecOn with
  | _ n ih =>
    rw [decDigits]
    by_cases h : n < 10
    · simp only [h, if_true, List.head?_cons, Option.mem_def, Option.some.injEq]
      intro d hd; omega
    · simp only [h, if_false]
      intro d hd
      have hne := decDigits_ne_nil (n / 10)
      cases hq : decDigits (n / 10) with
      | nil => exact absurd hq hne
      | cons q qs =>
        rw [hq] at hd
        simp only [List.cons_append, List.head?_cons, Option.mem_def, Option.some.injEq] at hd
        exact ih (n / 10) (by omega) d (by rw [hq]; simpa using hd)

/-- **Atoi ∘ Itoa = id** on int64 -/
theorem atoi_itoa (v : Int) (h : -9223372036854775808 ≤ v ∧ v ≤ 9223372036854775807) :
    atoi (itoa v) = some v := by
  unfold itoa
  by_cases hv : v < 0
  · have hne := decDigits_ne_nil (-v).toNat
    have hemp : (decDigits (-v).toNat).isEmpty = false := by
      cases hd : decDigits (-v).toNat with
      | nil => exact absurd hd hne
      | cons _ _ => rfl
    have e : -(((-v).toNat : Nat) : Int) = v := by omega
    simp only [hv, if_true, atoi, List.head?_cons, beq_self_eq_true, Bool.true_or, List.tail_cons,
      hemp, Bool.false_eq_true, if_false, parseDigits_decDigits, Nat.zero_mul, Nat.zero_add, e]
    simp [h]
  · have hne := decDigits_ne_nil v.toNat
    have hh := decDigits_head v.toNat
    cases hd : decDigits v.toNat with
    | nil => exact absurd hd hne
    | cons d ds =>
      have hdr : 48 ≤ d ∧ d ≤ 57 := hh d (by rw [hd]; simp)
      have h45 : (some d == some 45) = false := by simp; omega
      have h43 : (some d == some 43) = false := by simp; omega
      have e : ((v.toNat : Nat) : Int) = v := by omega
      simp only [hv, if_false, atoi, List.head?_cons, h45, h43, Bool.or_self, Bool.false_eq_true,
        List.isEmpty_cons]
      rw [← hd, parseDigits_decDigits]
      simp only [Nat.zero_mul, Nat.zero_add, e]
      simp [h]

/-! ### IntList / LongList seen through text -/

inductive IOp where
  | addInt (v : Int)                 -- AddInt / AddLong
  | addString (s : Bytes)            -- AddString
  | setInt (i : Int) (v : Int)       -- SetInt / SetLong
  | setString (i : Int) (s : Bytes)  -- SetString
  | getInt (i : Int)                 -- GetInt / GetLong
  | getString (i : Int)              -- GetString
  | toArray

inductive XOut where
  | unit
  | panic
  | int (v : Int)
  | str (s : Bytes)
  | ints (xs : List Int)
  | strs (xs : List Bytes)
  deriving DecidableEq, Repr

def orPanic {α : Type} (l : TL α) : Option (TL α) → XOut × TL α
  | some l' => (.unit, l')
  | none => (.panic, l)

/-- the methods as the code has them: parse first (a parse error panics before the index is looked at) -/
def stepI (g : Growth) (op : IOp) (l : TL Int) : XOut × TL Int :=
  match op with
  | .addInt v => orPanic l (TL.add g 0 v l)
  | .addString s => match atoi s with
    | some n => orPanic l (TL.add g 0 n l)
    | none => (.panic, l)
  | .setInt i v => orPanic l (TL.set l i v)
  | .setString i s => match atoi s with
    | some n => orPanic l (TL.set l i n)
    | none => (.panic, l)
  | .getInt i => match TL.get l i with
    | some v => (.int v, l)
    | none => (.panic, l)
  | .getString i => match TL.get l i with
    | some v => (.str (itoa v), l)
    | none => (.panic, l)
  | .toArray => (.ints (TL.toArray l), l)

def specI (op : IOp) (s : List Int) : XOut × List Int :=
  match op with
  | .addInt v => (.unit, s ++ [v])
  | .addString t => match atoi t with
    | some n => (.unit, s ++ [n])
    | none => (.panic, s)
  | .setInt i v => if 0 ≤ i ∧ i < s.length then (.unit, s.set i.toNat v) else (.panic, s)
  | .setString i t => match atoi t with
    | some n => if 0 ≤ i ∧ i < s.length then (.unit, s.set i.toNat n) else (.panic, s)
    | none => (.panic, s)
  | .getInt i => match Spec.get s i with
    | some v => (.int v, s)
    | none => (.panic, s)
  | .getString i => match Spec.get s i with
    | some v => (.str (itoa v), s)
    | none => (.panic, s)
  | .toArray => (.ints s, s)

theorem add_refines {α : Type} (g : Growth) (hg : g.OK) (z v : α) (l : TL α) (hi : TL.Inv l)
    (hb : (TL.abs l).length + 1 ≤ TL.BOUND) :
    (orPanic l (TL.add g z v l)).1 = .unit ∧ TL.abs (orPanic l (TL.add g z v l)).2 = TL.abs l ++ [v] ∧
    TL.Inv (orPanic l (TL.add g z v l)).2 := by
  rw [TL.abs_length hi] at hb
  obtain ⟨l', h1, h2, h3⟩ := TL.add_spec g hg z v l hi hb
  simp [h1, orPanic, h2, h3]

theorem set_refines {α : Type} (v : α) (l : TL α) (hi : TL.Inv l) (i : Int) :
    (orPanic l (TL.set l i v)).1 = (if 0 ≤ i ∧ i < (TL.abs l).length then XOut.unit else XOut.panic) ∧
    TL.abs (orPanic l (TL.set l i v)).2 =
      (if 0 ≤ i ∧ i < (TL.abs l).length then (TL.abs l).set i.toNat v else TL.abs l) ∧
    TL.Inv (orPanic l (TL.set l i v)).2 := by
  have hs := TL.set_spec l i v hi
  by_cases hr : 0 ≤ i ∧ i < ((TL.abs l).length : Int)
  · obtain ⟨l', h1, h2, h3⟩ := hs.1 hr
    simp [h1, orPanic, h2, h3, hr]
  · simp [hs.2 hr, orPanic, hi, hr]

/-- one step of the text view of an int / long list refines the plain sequence -/
theorem stepI_refines (g : Growth) (hg : g.OK) (op : IOp) (l : TL Int) (hi : TL.Inv l)
    (hb : (TL.abs l).length + 1 ≤ TL.BOUND) :
    (stepI g op l).1 = (specI op (TL.abs l)).1 ∧ TL.abs (stepI g op l).2 = (specI op (TL.abs l)).2 ∧
    TL.Inv (stepI g op l).2 := by
  have hget : ∀ i, TL.get l i = Spec.get (TL.abs l) i := fun i => by rw [TL.get_spec l i hi]; rfl
  cases op with
  | addInt v => simpa [stepI, specI] using add_refines g hg 0 v l hi hb
  | addString s =>
    simp only [stepI, specI]
    cases atoi s with
    | none => exact ⟨rfl, rfl, hi⟩
    | some n => simpa using add_refines g hg 0 n l hi hb
  | setInt i v =>
    have := set_refines v l hi i
    simp only [stepI, specI]
    split <;> simp_all
  | setString i s =>
    simp only [stepI, specI]
    cases atoi s with
    | none => exact ⟨rfl, rfl, hi⟩
    | some n =>
      have := set_refines n l hi i
      simp only []
      split <;> simp_all
  | getInt i => simp only [stepI, specI, hget]; split <;> exact ⟨rfl, rfl, hi⟩
  | getString i => simp only [stepI, specI, hget]; split <;> exact ⟨rfl, rfl, hi⟩
  | toArray => exact ⟨rfl, rfl, hi⟩

/-! ### StringList seen through integers -/

inductive SOp where
  | addString (s : Bytes)
  | addInt (v : Int)                 -- AddInt / AddLong: Itoa
  | setString (i : Int) (s : Bytes)
  | setInt (i : Int) (v : Int)
  | getString (i : Int)
  | getInt (i : Int)                 -- GetInt / GetLong: Atoi, error → panic
  | toArray

def stepS (g : Growth) (op : SOp) (l : TL Bytes) : XOut × TL Bytes :=
  match op with
  | .addString s => orPanic l (TL.add g [] s l)
  | .addInt v => orPanic l (TL.add g [] (itoa v) l)
  | .setString i s => orPanic l (TL.set l i s)
  | .setInt i v => orPanic l (TL.set l i (itoa v))
  | .getString i => match TL.get l i with
    | some s => (.str s, l)
    | none => (.panic, l)
  | .getInt i => match TL.get l i with
    | some s => match atoi s with
      | some n => (.int n, l)
      | none => (.panic, l)
    | none => (.panic, l)
  | .toArray => (.strs (TL.toArray l), l)

def specS (op : SOp) (s : List Bytes) : XOut × List Bytes :=
  match op with
  | .addString t => (.unit, s ++ [t])
  | .addInt v => (.unit, s ++ [itoa v])
  | .setString i t => if 0 ≤ i ∧ i < s.length then (.unit, s.set i.toNat t) else (.panic, s)
  | .setInt i v => if 0 ≤ i ∧ i < s.length then (.unit, s.set i.toNat (itoa v)) else (.panic, s)
  | .getString i => match Spec.get s i with
    | some t => (.str t, s)
    | none => (.panic, s)
  | .getInt i => match Spec.get s i with
    | some t => match atoi t with
      | some n => (.int n, s)
      | none => (.panic, s)
    | none => (.panic, s)
  | .toArray => (.strs s, s)

theorem stepS_refines (g : Growth) (hg : g.OK) (op : SOp) (l : TL Bytes) (hi : TL.Inv l)
    (hb : (TL.abs l).length + 1 ≤ TL.BOUND) :
    (stepS g op l).1 = (specS op (TL.abs l)).1 ∧ TL.abs (stepS g op l).2 = (specS op (TL.abs l)).2 ∧
    TL.Inv (stepS g op l).2 := by
  have hget : ∀ i, TL.get l i = Spec.get (TL.abs l) i := fun i => by rw [TL.get_spec l i hi]; rfl
  cases op with
  | addString s => simpa [stepS, specS] using add_refines g hg [] s l hi hb
  | addInt v => simpa [stepS, specS] using add_refines g hg [] (itoa v) l hi hb
  | setString i s =>
    have := set_refines s l hi i
    simp only [stepS, specS]
    split <;> simp_all
  | setInt i v =>
    have := set_refines (itoa v) l hi i
    simp only [stepS, specS]
    split <;> simp_all
  | getString i => simp only [stepS, specS, hget]; split <;> exact ⟨rfl, rfl, hi⟩
  | getInt i =>
    simp only [stepS, specS, hget]
    split
    · split <;> exact ⟨rfl, rfl, hi⟩
    · exact ⟨rfl, rfl, hi⟩
  | toArray => exact ⟨rfl, rfl, hi⟩

/-- an integer put into a StringList comes back as that integer -/
theorem stringList_int_roundtrip (s : List Bytes) (v : Int)
    (h : -9223372036854775808 ≤ v ∧ v ≤ 9223372036854775807) :
    (specS (.getInt s.length) (specS (.addInt v) s).2).1 = .int v := by
  have : (s.length : Int) < (s.length : Int) + 1 := by omega
  simp [specS, Spec.get, atoi_itoa v h, this]

/-- the text of an integer added to an int list is accepted back as the same integer -/
theorem intList_text_roundtrip (s : List Int) (v : Int)
    (h : -9223372036854775808 ≤ v ∧ v ≤ 9223372036854775807) :
    specI (.addString (itoa v)) s = specI (.addInt v) s := by
  simp [specI, atoi_itoa v h]

/-! tail-recursive runners for the driver -/

def runI (g : Growth) : List IOp → TL Int → List XOut → List XOut
  | [], _, acc => acc.reverse
  | op :: ops, l, acc => let r := stepI g op l; runI g ops r.2 (r.1 :: acc)

def runS (g : Growth) : List SOp → TL Bytes → List XOut → List XOut
  | [], _, acc => acc.reverse
  | op :: ops, l, acc => let r := stepS g op l; runS g ops r.2 (r.1 :: acc)

end Lists.Cross
