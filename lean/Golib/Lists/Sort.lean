/-
  Golib.Lists.Sort — CodeModel of Sorting / SortingAnyList / CompareChild
  (util/list/<T>List.go, util/list/AnyList.go, util/compare).

  The comparator closures are transcribed branch by branch; `sort.Sort` itself is a
  parameter (`SortFn`) with a written contract (`SortContract`).

  Orders per element type (`le`):
    int, int64   `a ≤ b` on Int
    float32/64   IEEE-754 order on bit patterns, NaN excluded (`fkey`: sign-magnitude → Int,
                 so -0 and +0 compare equal, as `==` does in Go)
    string       bytewise lexicographic (`strings.Compare`)
-/
namespace Lists.Sort

/-! ### total preorders -/

structure TotalPreorder {α : Type} (le : α → α → Bool) : Prop where
  total : ∀ a b, le a b = true ∨ le b a = true
  trans : ∀ a b c, le a b = true → le b c = true → le a c = true

theorem TotalPreorder.refl {α : Type} {le : α → α → Bool} (h : TotalPreorder le) (a : α) :
    le a a = true := by
  rcases h.total a a with h | h <;> exact h

def intLe (a b : Int) : Bool := decide (a ≤ b)

theorem intLe_tp : TotalPreorder intLe :=
  ⟨fun a b => by simp only [intLe, decide_eq_true_eq]; omega,
   fun a b c => by simp only [intLe, decide_eq_true_eq]; omega⟩

/-- order key of a float given by its bit pattern (`w` = 31 or 63: position of the sign bit) -/
def fkey (w : Nat) (bits : Nat) : Int :=
  if bits < 2 ^ w then (bits : Int) else -((bits - 2 ^ w : Nat) : Int)

def floatLe (w : Nat) (a b : Nat) : Bool := intLe (fkey w a) (fkey w b)

theorem floatLe_tp (w : Nat) : TotalPreorder (floatLe w) :=
  ⟨fun _ _ => intLe_tp.total _ _, fun _ _ _ => intLe_tp.trans _ _ _⟩

/-- bytewise lexicographic `≤` (what `strings.Compare(l, r) <= 0` decides) -/
def lexLe : List Nat → List Nat → Bool
  | [], _ => true
  | _ :: _, [] => false
  | a :: as, b :: bs => decide (a < b) || (a == b && lexLe as bs)

theorem lexLe_total : ∀ a b, lexLe a b = true ∨ lexLe b a = true
  | [], _ => Or.inl rfl
  | _ :: _, [] => Or.inr rfl
  | a :: as, b :: bs => by
    simp only [lexLe, Bool.or_eq_true, Bool.and_eq_true, decide_eq_true_eq, beq_iff_eq]
    rcases Nat.lt_trichotomy a b with h | h | h
    · exact Or.inl (Or.inl h)
    · subst h
      rcases lexLe_total as bs with h | h
      · exact Or.inl (Or.inr ⟨rfl, h⟩)
      · exact Or.inr (Or.inr ⟨rfl, h⟩)
    · exact Or.inr (Or.inl h)

theorem lexLe_trans : ∀ a b c, lexLe a b = true → lexLe b c = true → lexLe a c = true
  | [], _, _, _, _ => rfl
  | _ :: _, [], _, h, _ => by simp [lexLe] at h
  | _ :: _, _ :: _, [], _, h => by simp [lexLe] at h
  | a :: as, b :: bs, c :: cs, h1, h2 => by
    simp only [lexLe, Bool.or_eq_true, Bool.and_eq_true, decide_eq_true_eq, beq_iff_eq] at *
    rcases h1 with h1 | ⟨h1, h1'⟩ <;> rcases h2 with h2 | ⟨h2, h2'⟩
    · exact Or.inl (by omega)
    · exact Or.inl (by omega)
    · exact Or.inl (by omega)
    · exact Or.inr ⟨by omega, lexLe_trans as bs cs h1' h2'⟩

theorem lexLe_tp : TotalPreorder lexLe := ⟨lexLe_total, lexLe_trans⟩

/-! ### the code -/

/-- `compare.CompareToInt/Long/Float/Double/String(l, r)`:
    `if l == r {0} else if l > r {1} else {-1}`  (`l == r` ⇔ `l ≤ r ∧ r ≤ l`, `l > r` ⇔ `¬ l ≤ r`) -/
def cmp3 {α : Type} (le : α → α → Bool) (l r : α) : Int :=
  if le l r && le r l then 0 else if !(le l r) then 1 else -1

/-- the closure `c` of `Sorting(asc)`, over the three-way comparison it calls -/
def lessOneC {α : Type} (cmp : α → α → Int) (asc : Bool) (v1 v2 : α) : Bool :=
  if asc then
    if cmp v1 v2 > 0 then false else true
  else
    if cmp v2 v1 > 0 then false else true

/-- the closure `c` of `Sorting(asc)` -/
def lessOne {α : Type} (le : α → α → Bool) (asc : Bool) (v1 v2 : α) : Bool :=
  lessOneC (cmp3 le) asc v1 v2

/-- `CompareChild(child, ord, i1, i2)` for a child whose elements are compared by `cle`
    (which `cle` belongs to which child type: see `childLe…` below) -/
def compareChild {β : Type} (cle : β → β → Bool) (child : Nat → β) (ord : Bool) (i1 i2 : Nat) : Int :=
  if ord then cmp3 cle (child i1) (child i2) else cmp3 cle (child i2) (child i1)

/-- the closure `c` of `SortingAnyList(asc, child, childAsc)` on (key, value) pairs, over the
    three-way comparison it calls and `CompareChild` -/
def lessTwoC {α : Type} (cmp : α → α → Int) (asc : Bool) (cc : Nat → Nat → Int)
    (k1 : Nat) (v1 : α) (k2 : Nat) (v2 : α) : Bool :=
  let rt := if asc then cmp v1 v2 else cmp v2 v1
  if rt ≠ 0 then
    if rt > 0 then false else true
  else
    let rt := cc k1 k2
    if rt > 0 then false else true

/-- the closure `c` of `SortingAnyList(asc, child, childAsc)` -/
def lessTwo {α : Type} (le : α → α → Bool) (asc : Bool) (cc : Nat → Nat → Int)
    (k1 : Nat) (v1 : α) (k2 : Nat) (v2 : α) : Bool :=
  lessTwoC (cmp3 le) asc cc k1 v1 k2 v2

/-- `Less(i, j)` of the sortable built by `Sorting`, in terms of original indices -/
def lessIdx1 {α : Type} (le : α → α → Bool) (asc : Bool) (vals : Nat → α) (i j : Nat) : Bool :=
  lessOne le asc (vals i) (vals j)

/-- `Less(i, j)` of the sortable built by `SortingAnyList`, in terms of original indices -/
def lessIdx2 {α β : Type} (le : α → α → Bool) (asc : Bool) (vals : Nat → α)
    (cle : β → β → Bool) (child : Nat → β) (childAsc : Bool) (i j : Nat) : Bool :=
  lessTwo le asc (compareChild cle child childAsc) i (vals i) j (vals j)

/-! ### what the closures decide -/

/-- `le` read in the requested direction -/
def dir {α : Type} (le : α → α → Bool) (asc : Bool) (a b : α) : Bool := if asc then le a b else le b a

theorem dir_tp {α : Type} {le : α → α → Bool} (h : TotalPreorder le) (asc : Bool) :
    TotalPreorder (dir le asc) := by
  cases asc
  · exact ⟨fun a b => by simpa [dir] using h.total b a,
           fun a b c h1 h2 => by simp only [dir] at *; exact h.trans _ _ _ h2 h1⟩
  · exact ⟨fun a b => by simpa [dir] using h.total a b,
           fun a b c h1 h2 => by simp only [dir] at *; exact h.trans _ _ _ h1 h2⟩

theorem cmp3_pos {α : Type} (le : α → α → Bool) (l r : α) : cmp3 le l r > 0 ↔ le l r = false := by
  unfold cmp3; cases le l r <;> cases le r l <;> simp

theorem cmp3_zero {α : Type} (le : α → α → Bool) (l r : α) :
    cmp3 le l r = 0 ↔ (le l r = true ∧ le r l = true) := by
  unfold cmp3; cases le l r <;> cases le r l <;> simp

theorem lessOne_eq {α : Type} (le : α → α → Bool) (asc : Bool) (a b : α) :
    lessOne le asc a b = dir le asc a b := by
  unfold lessOne lessOneC dir
  cases asc <;> simp only [Bool.false_eq_true, if_false, if_true, cmp3_pos]
  · cases le b a <;> simp
  · cases le a b <;> simp

/-- the two-level closure is the lexicographic order: strictly before in the primary direction,
    or tied on the primary and not after in the child direction -/
theorem lessTwo_eq {α β : Type} (le : α → α → Bool) (asc : Bool) (vals : Nat → α)
    (cle : β → β → Bool) (child : Nat → β) (childAsc : Bool) (i j : Nat) :
    lessIdx2 le asc vals cle child childAsc i j =
      ((dir le asc (vals i) (vals j) && !(dir le asc (vals j) (vals i))) ||
       (dir le asc (vals i) (vals j) && dir le asc (vals j) (vals i) &&
        dir cle childAsc (child i) (child j))) := by
  unfold lessIdx2 lessTwo lessTwoC compareChild dir
  cases asc <;> cases childAsc <;>
    simp only [Bool.false_eq_true, if_false, if_true, ne_eq, cmp3_zero, cmp3_pos] <;>
    (try cases le (vals i) (vals j)) <;> (try cases le (vals j) (vals i)) <;>
    (try cases cle (child i) (child j)) <;> (try cases cle (child j) (child i)) <;> simp

/-- lexicographic product of two total preorders, on indices -/
theorem lex_tp {α β : Type} {p : α → α → Bool} {q : β → β → Bool}
    (hp : TotalPreorder p) (hq : TotalPreorder q) (vals : Nat → α) (child : Nat → β) :
    TotalPreorder (fun i j : Nat =>
      (p (vals i) (vals j) && !(p (vals j) (vals i))) ||
      (p (vals i) (vals j) && p (vals j) (vals i) && q (child i) (child j))) := by
  constructor
  · intro i j
    have t1 := hp.total (vals i) (vals j)
    have t2 := hq.total (child i) (child j)
    revert t1 t2
    cases p (vals i) (vals j) <;> cases p (vals j) (vals i) <;>
      cases q (child i) (child j) <;> cases q (child j) (child i) <;> simp
  · intro i j k h1 h2
    have a1 := hp.trans (vals i) (vals j) (vals k)
    have a2 := hp.trans (vals k) (vals i) (vals j)
    have a3 := hp.trans (vals j) (vals k) (vals i)
    have a4 := hp.trans (vals k) (vals j) (vals i)
    have b1 := hq.trans (child i) (child j) (child k)
    revert h1 h2 a1 a2 a3 a4 b1
    cases p (vals i) (vals j) <;> cases p (vals j) (vals i) <;>
      cases p (vals j) (vals k) <;> cases p (vals k) (vals j) <;>
      cases p (vals i) (vals k) <;> cases p (vals k) (vals i) <;>
      cases q (child i) (child j) <;> cases q (child j) (child k) <;>
      cases q (child i) (child k) <;> simp

theorem lessIdx1_tp {α : Type} {le : α → α → Bool} (h : TotalPreorder le) (asc : Bool)
    (vals : Nat → α) : TotalPreorder (lessIdx1 le asc vals) := by
  have := dir_tp h asc
  constructor
  · intro i j; simp only [lessIdx1, lessOne_eq]; exact this.total _ _
  · intro i j k; simp only [lessIdx1, lessOne_eq]; exact this.trans _ _ _

theorem lessIdx2_tp {α β : Type} {le : α → α → Bool} {cle : β → β → Bool}
    (h : TotalPreorder le) (hc : TotalPreorder cle) (asc childAsc : Bool)
    (vals : Nat → α) (child : Nat → β) :
    TotalPreorder (lessIdx2 le asc vals cle child childAsc) := by
  have := lex_tp (dir_tp h asc) (dir_tp hc childAsc) vals child
  constructor
  · intro i j; simp only [lessTwo_eq]; exact this.total i j
  · intro i j k; simp only [lessTwo_eq]; exact this.trans i j k

/-! ### "orders the values" -/

/-- `i` may stand before `j`: the primary values are in the requested order and, when they tie,
    the child values are in the order requested for the child -/
def Ordered2 {α β : Type} (le : α → α → Bool) (asc : Bool) (vals : Nat → α)
    (cle : β → β → Bool) (child : Nat → β) (childAsc : Bool) (i j : Nat) : Prop :=
  dir le asc (vals i) (vals j) = true ∧
  (dir le asc (vals j) (vals i) = true → dir cle childAsc (child i) (child j) = true)

theorem lessIdx2_iff_ordered {α β : Type} (le : α → α → Bool) (asc : Bool) (vals : Nat → α)
    (cle : β → β → Bool) (child : Nat → β) (childAsc : Bool) (i j : Nat) :
    lessIdx2 le asc vals cle child childAsc i j = true ↔
      Ordered2 le asc vals cle child childAsc i j := by
  rw [lessTwo_eq]; unfold Ordered2
  cases dir le asc (vals i) (vals j) <;> cases dir le asc (vals j) (vals i) <;>
    cases dir cle childAsc (child i) (child j) <;> simp

/-- a transitive chain is pairwise related -/
def chainB {α : Type} (r : α → α → Bool) : List α → Bool
  | [] => true
  | [_] => true
  | a :: b :: rest => r a b && chainB r (b :: rest)

theorem chainB_pairwise {α : Type} (r : α → α → Bool)
    (tr : ∀ a b c, r a b = true → r b c = true → r a c = true) :
    ∀ l : List α, chainB r l = true → l.Pairwise (fun a b => r a b = true)
  | [], _ => List.Pairwise.nil
  | [a], _ => by simp
  | a :: b :: rest, h => by
    simp only [chainB, Bool.and_eq_true] at h
    have ih := chainB_pairwise r tr (b :: rest) h.2
    refine List.pairwise_cons.mpr ⟨?_, ih⟩
    intro c hc
    rcases List.mem_cons.mp hc with hc | hc
    · subst hc; exact h.1
    · exact tr _ _ _ h.1 ((List.pairwise_cons.mp ih).1 c hc)

theorem pairwise_chainB {α : Type} (r : α → α → Bool) :
    ∀ l : List α, l.Pairwise (fun a b => r a b = true) → chainB r l = true
  | [], _ => rfl
  | [a], _ => rfl
  | a :: b :: rest, h => by
    rw [List.pairwise_cons] at h
    simp only [chainB, Bool.and_eq_true]
    exact ⟨h.1 b (by simp), pairwise_chainB r (b :: rest) h.2⟩

/-! ### `sort.Sort` as a parameter -/

/-- `sort.Sort` seen from the caller: `Less` on indices in, reordered index list out -/
abbrev SortFn := (Nat → Nat → Bool) → List Nat → List Nat

/-- Assumed of `sort.Sort` (trusted base): it only swaps (so the result is a permutation) and,
    when `Less` is a total preorder — the closures above are `≤`-like, *not* strict — no element
    ends up before one it is not `Less`-related to. -/
structure SortContract (sort : SortFn) : Prop where
  perm : ∀ less xs, (sort less xs).Perm xs
  sorted : ∀ less xs, TotalPreorder less → (sort less xs).Pairwise (fun a b => less a b = true)

/-- the contract is satisfiable (merge sort from core) -/
theorem mergeSort_contract : SortContract (fun less xs => xs.mergeSort less) :=
  ⟨fun less xs => List.mergeSort_perm xs less,
   fun less xs h => List.pairwise_mergeSort h.trans
     (fun a b => by rcases h.total a b with h | h <;> simp [h]) xs⟩

/-! ### Go's `sort.Sort` (go1.23 `pdqsort`): the part that is modelled

    func Sort(data) { n := data.Len(); if n <= 1 { return }; pdqsort(data, 0, n, bits.Len(n)) }
    func pdqsort(..) { …; if length <= 12 { insertionSort(data, a, b); return } … }
    func insertionSort(data, a, b) {
      for i := a + 1; i < b; i++ { for j := i; j > a && data.Less(j, j-1); j-- { data.Swap(j, j-1) } } }

  Up to 12 elements `sort.Sort` *is* this insertion sort.  It is transcribed on lists (the array
  prefix `data[a:i]` is kept reversed, so that the inner loop walks from its head) and proved to
  order its input for every total preorder — reflexive `Less` included, which is what the closures
  of this package hand to it.  Longer inputs go through partitioning / heap sort, which stay a
  parameter with the residual assumption `BigContract`. -/

/-- inner loop: `x` sits at position j; while `Less(j, j-1)` it is swapped one place to the left.
    `rp` = the elements to its left, nearest first. Returns the new left part, nearest-first. -/
def insLeft {α : Type} (less : α → α → Bool) (x : α) : List α → List α
  | [] => [x]
  | p :: ps => if less x p then p :: insLeft less x ps else x :: p :: ps

/-- outer loop of `insertionSort` -/
def goInsertionSort {α : Type} (less : α → α → Bool) (xs : List α) : List α :=
  (xs.foldl (fun rp x => insLeft less x rp) []).reverse

theorem insLeft_perm {α : Type} (less : α → α → Bool) (x : α) (rp : List α) :
    (insLeft less x rp).Perm (x :: rp) := by
  induction rp with
  | nil => exact List.Perm.refl _
  | cons p ps ih =>
    simp only [insLeft]
    split
    · exact ((List.Perm.cons p ih).trans (List.Perm.swap x p ps))
    · exact List.Perm.refl _

theorem foldl_insLeft_perm {α : Type} (less : α → α → Bool) (xs rp : List α) :
    (xs.foldl (fun rp x => insLeft less x rp) rp).Perm (xs.reverse ++ rp) := by
  induction xs generalizing rp with
  | nil => simp
  | cons x xs ih =>
    simp only [List.foldl_cons, List.reverse_cons, List.append_assoc, List.singleton_append]
    exact (ih _).trans (List.Perm.append_left _ (insLeft_perm less x rp))

theorem goInsertionSort_perm {α : Type} (less : α → α → Bool) (xs : List α) :
    (goInsertionSort less xs).Perm xs := by
  unfold goInsertionSort
  have := foldl_insLeft_perm less xs []
  simp only [List.append_nil] at this
  exact (List.reverse_perm _).trans (this.trans (List.reverse_perm xs))

/-- the reversed prefix stays sorted (read right to left) -/
theorem insLeft_sorted {α : Type} {less : α → α → Bool} (h : TotalPreorder less) (x : α) (rp : List α)
    (hs : rp.Pairwise (fun a b => less b a = true)) :
    (insLeft less x rp).Pairwise (fun a b => less b a = true) := by
  induction rp with
  | nil => simp [insLeft]
  | cons p ps ih =>
    rw [List.pairwise_cons] at hs
    simp only [insLeft]
    split
    · rename_i hxp
      refine List.pairwise_cons.mpr ⟨?_, ih hs.2⟩
      intro q hq
      have hq' := (insLeft_perm less x ps).mem_iff.mp hq
      rcases List.mem_cons.mp hq' with e | e
      · subst e; exact hxp
      · exact hs.1 q e
    · rename_i hxp
      have hpx : less p x = true := by
        rcases h.total x p with t | t
        · exact absurd t hxp
        · exact t
      refine List.pairwise_cons.mpr ⟨?_, List.pairwise_cons.mpr hs⟩
      intro q hq
      rcases List.mem_cons.mp hq with e | e
      · subst e; exact hpx
      · exact h.trans _ _ _ (hs.1 q e) hpx

theorem goInsertionSort_sorted {α : Type} {less : α → α → Bool} (h : TotalPreorder less) (xs : List α) :
    (goInsertionSort less xs).Pairwise (fun a b => less a b = true) := by
  unfold goInsertionSort
  rw [List.pairwise_reverse]
  have : ∀ (ys rp : List α), rp.Pairwise (fun a b => less b a = true) →
      (ys.foldl (fun rp x => insLeft less x rp) rp).Pairwise (fun a b => less b a = true) := by
    intro ys
    induction ys with
    | nil => intro rp hrp; exact hrp
    | cons y ys ih => intro rp hrp; exact ih _ (insLeft_sorted h y rp hrp)
  exact this xs [] List.Pairwise.nil

/-- `sort.Sort` with the long-input path (`big`) left open -/
def goSort (big : SortFn) : SortFn :=
  fun less xs => if xs.length ≤ 12 then goInsertionSort less xs else big less xs

/-- **Residual assumption** about `sort.Sort`, precisely: for inputs LONGER THAN 12 ELEMENTS
    (choosePivot / partition / partitionEqual / partialInsertionSort / breakPatterns / heapSort) the
    result is a permutation and, when `Less` is a total preorder (reflexive allowed), sorted.
    Exercised by tie B on every run (duplicate-heavy inputs up to 5000 elements), never proved. -/
structure BigContract (big : SortFn) : Prop where
  perm : ∀ less xs, 12 < xs.length → (big less xs).Perm xs
  sorted : ∀ less xs, 12 < xs.length → TotalPreorder less →
    (big less xs).Pairwise (fun a b => less a b = true)

/-- up to 12 elements nothing is assumed: the contract of `sort.Sort` follows from the model of
    `insertionSort`; beyond, from `BigContract` -/
theorem goSort_contract (big : SortFn) (hb : BigContract big) : SortContract (goSort big) := by
  constructor
  · intro less xs
    unfold goSort
    split
    · exact goInsertionSort_perm less xs
    · exact hb.perm less xs (by omega)
  · intro less xs h
    unfold goSort
    split
    · exact goInsertionSort_sorted h xs
    · exact hb.sorted less xs (by omega) h

/-- `Sorting(asc)` -/
def sorting {α : Type} (sort : SortFn) (le : α → α → Bool) (asc : Bool) (vals : Nat → α) (n : Nat) :
    List Nat :=
  sort (lessIdx1 le asc vals) (List.range n)

/-- `SortingAnyList(asc, child, childAsc)` -/
def sortingAnyList {α β : Type} (sort : SortFn) (le : α → α → Bool) (asc : Bool) (vals : Nat → α)
    (cle : β → β → Bool) (child : Nat → β) (childAsc : Bool) (n : Nat) : List Nat :=
  sort (lessIdx2 le asc vals cle child childAsc) (List.range n)

theorem sorting_ok {α : Type} (sort : SortFn) (hs : SortContract sort) {le : α → α → Bool}
    (h : TotalPreorder le) (asc : Bool) (vals : Nat → α) (n : Nat) :
    (sorting sort le asc vals n).Perm (List.range n) ∧
    ((sorting sort le asc vals n).map vals).Pairwise (fun a b => dir le asc a b = true) := by
  refine ⟨hs.perm _ _, ?_⟩
  rw [List.pairwise_map]
  exact (hs.sorted _ _ (lessIdx1_tp h asc vals)).imp (fun h => by simpa [lessIdx1, lessOne_eq] using h)

theorem sortingAnyList_ok {α β : Type} (sort : SortFn) (hs : SortContract sort)
    {le : α → α → Bool} {cle : β → β → Bool} (h : TotalPreorder le) (hc : TotalPreorder cle)
    (asc childAsc : Bool) (vals : Nat → α) (child : Nat → β) (n : Nat) :
    (sortingAnyList sort le asc vals cle child childAsc n).Perm (List.range n) ∧
    (sortingAnyList sort le asc vals cle child childAsc n).Pairwise
      (Ordered2 le asc vals cle child childAsc) :=
  ⟨hs.perm _ _, (hs.sorted _ _ (lessIdx2_tp h hc asc childAsc vals child)).imp
    (fun h => (lessIdx2_iff_ordered le asc vals cle child childAsc _ _).mp h)⟩

/-! ### D43: the child comparison of /repo goes through float64 -/

/-- nearest float64 to a natural below 2^64 (ties to even); exact below 2^53 -/
def roundNat (n : Nat) : Nat :=
  if n < 9007199254740992 then n else
  let e := if n < 2^54 then 1 else if n < 2^55 then 2 else if n < 2^56 then 3
    else if n < 2^57 then 4 else if n < 2^58 then 5 else if n < 2^59 then 6
    else if n < 2^60 then 7 else if n < 2^61 then 8 else if n < 2^62 then 9
    else if n < 2^63 then 10 else 11
  let q := n / 2^e
  let r := n % 2^e
  let half := 2^(e-1)
  let q' := if r > half || (r == half && q % 2 == 1) then q + 1 else q
  q' * 2^e

/-- `float64(v)` for an int64 `v`, as the integer it denotes -/
def toDouble (v : Int) : Int := if v < 0 then -(roundNat v.natAbs : Int) else (roundNat v.natAbs : Int)

/-- `CompareToDouble(child.GetDouble(i1), child.GetDouble(i2))` on an int / long child, as in /repo -/
def intLeViaDouble (a b : Int) : Bool := intLe (toDouble a) (toDouble b)

end Lists.Sort
