/-
  Golib.Lists.LinkedAtomic — what every interleaving of ATOMIC LinkedList operations conserves.

  The public mutators of LinkedList take the list's mutex, so a concurrent run is some sequential
  interleaving of them (linearizable).  For every sequential history of mutators, whatever its
  order: the elements still in the list together with the elements handed out by the Remove*
  calls are, as a multiset, the initial elements together with the elements added.  Tie B's
  concurrent stage checks exactly this conservation (and size = adds − removes) on the
  implementation, driving every public mutator alias from several goroutines.
-/
import Golib.Lists.LinkedSpec

namespace Lists.Linked

/-- the operations that only move elements in or out (no queries, no Clear, no PutBefore/Remove on a
    missing entity) -/
def Op.mutator : Op → Bool
  | .addFirst _ | .addLast _ | .add _ | .removeFirst | .removeLast | .removeAt _ => true
  | _ => false

def Op.added : Op → List Int
  | .addFirst v | .addLast v | .add v => [v]
  | _ => []

def Out.handedOut : Out → List Int
  | .val v => [v]
  | _ => []

theorem perm_eraseIdx (s : List Int) (k : Nat) (v : Int) (h : s[k]? = some v) :
    (s.eraseIdx k ++ [v]).Perm s := by
  induction s generalizing k with
  | nil => simp at h
  | cons a r ih =>
    cases k with
    | zero =>
      simp only [List.getElem?_cons_zero, Option.some.injEq] at h
      subst h
      simp only [List.eraseIdx_cons_zero]
      exact (List.perm_append_comm).trans (List.Perm.refl _)
    | succ k =>
      simp only [List.getElem?_cons_succ] at h
      simp only [List.eraseIdx_cons_succ, List.cons_append]
      exact List.Perm.cons a (ih k h)

/-- one atomic mutator conserves the elements -/
theorem step_conserves (op : Op) (s : List Int) (h : op.mutator = true) :
    ((Spec.step op s).2 ++ (Spec.step op s).1.handedOut).Perm (s ++ op.added) := by
  cases op <;> simp only [Op.mutator] at h <;> try (cases h)
  case addFirst v =>
    simp only [Spec.step, Out.handedOut, Op.added, List.append_nil]
    exact (List.perm_append_comm (l₁ := [v]) (l₂ := s))
  case addLast v => simp [Spec.step, Out.handedOut, Op.added]
  case add v => simp [Spec.step, Out.handedOut, Op.added]
  case removeFirst =>
    simp only [Spec.step, Op.added, List.append_nil]
    cases hs : s[0]? with
    | none => simp [Out.handedOut]
    | some v => simpa [Out.handedOut] using perm_eraseIdx s 0 v hs
  case removeLast =>
    simp only [Spec.step, Op.added, List.append_nil]
    cases hs : s[s.length - 1]? with
    | none => simp [Out.handedOut]
    | some v => simpa [Out.handedOut] using perm_eraseIdx s _ v hs
  case removeAt k =>
    simp only [Spec.step, Op.added, List.append_nil]
    cases hs : s[k]? with
    | none => simp [Out.handedOut]
    | some v => simpa [Out.handedOut] using perm_eraseIdx s k v hs

/-- **conservation over any history**: elements left ++ elements handed out ~ initial ++ added -/
theorem run_conserves (ops : List Op) (s : List Int) (h : ∀ op ∈ ops, op.mutator = true) :
    ((Spec.run ops s).2 ++ ((Spec.run ops s).1.map Out.handedOut).flatten).Perm
      (s ++ (ops.map Op.added).flatten) := by
  induction ops generalizing s with
  | nil => simp [Spec.run]
  | cons op ops ih =>
    have h1 := step_conserves op s (h op (by simp))
    have h2 := ih (Spec.step op s).2 (fun o ho => h o (by simp [ho]))
    simp only [Spec.run, List.map_cons, List.flatten_cons]
    rw [List.perm_iff_count] at h1 h2 ⊢
    intro x
    have c1 := h1 x
    have c2 := h2 x
    simp only [List.count_append] at c1 c2 ⊢
    omega

/-- hence the order in which concurrent (atomic) calls take effect does not matter for what is
    conserved: two interleavings of the same calls agree on "left ++ handed out" as multisets -/
theorem interleavings_agree (ops1 ops2 : List Op) (s : List Int) (hp : ops1.Perm ops2)
    (h : ∀ op ∈ ops1, op.mutator = true) :
    ((Spec.run ops1 s).2 ++ ((Spec.run ops1 s).1.map Out.handedOut).flatten).Perm
      ((Spec.run ops2 s).2 ++ ((Spec.run ops2 s).1.map Out.handedOut).flatten) := by
  have h2 : ∀ op ∈ ops2, op.mutator = true := fun o ho => h o (hp.mem_iff.mpr ho)
  refine (run_conserves ops1 s h).trans (List.Perm.trans ?_ (run_conserves ops2 s h2).symm)
  exact List.Perm.append_left _ ((hp.map Op.added).flatten)

end Lists.Linked
