/-
  Golib.Lists.RunLift — from one call to every history: a per-step refinement that needs room for
  one more element lifts to all op sequences that fit under the bound.
-/
import Golib.Lists.Cross
import Golib.Lists.CrossNum

namespace Lists.RunLift

def runG {Op Out σ : Type} (step : Op → σ → Out × σ) : List Op → σ → List Out × σ
  | [], s => ([], s)
  | op :: ops, s =>
    let r := step op s
    let rs := runG step ops r.2
    (r.1 :: rs.1, rs.2)

theorem lift {Op Out σc σa : Type} (stepC : Op → σc → Out × σc) (stepA : Op → σa → Out × σa)
    (Rel : σc → σa → Prop) (len : σa → Nat) (B : Nat)
    (hstep : ∀ op c a, Rel c a → len a + 1 ≤ B →
      (stepC op c).1 = (stepA op a).1 ∧ Rel (stepC op c).2 (stepA op a).2)
    (hlen : ∀ op a, len (stepA op a).2 ≤ len a + 1) :
    ∀ (ops : List Op) (c : σc) (a : σa), Rel c a → len a + ops.length ≤ B →
      (runG stepC ops c).1 = (runG stepA ops a).1 ∧ Rel (runG stepC ops c).2 (runG stepA ops a).2 := by
  intro ops
  induction ops with
  | nil => intro c a h _; exact ⟨rfl, h⟩
  | cons op ops ih =>
    intro c a h hb
    simp only [List.length_cons] at hb
    obtain ⟨h1, h2⟩ := hstep op c a h (by omega)
    have := hlen op a
    obtain ⟨h3, h4⟩ := ih _ _ h2 (by omega)
    simp only [runG, h1, h3]
    exact ⟨trivial, h4⟩

def RelL {α : Type} (c : TL α) (a : List α) : Prop := TL.Inv c ∧ TL.abs c = a

open Cross in
theorem specI_len (op : IOp) (s : List Int) : (specI op s).2.length ≤ s.length + 1 := by
  cases op <;> simp only [specI] <;> (repeat' split) <;> simp

open Cross in
theorem specS_len (op : SOp) (s : List Bytes) : (specS op s).2.length ≤ s.length + 1 := by
  cases op <;> simp only [specS] <;> (repeat' split) <;> simp

open CrossNum in
theorem specN_len (k : Kind) (op : NOp) (s : List Num) : (spec k op s).2.length ≤ s.length + 1 := by
  cases op <;> simp only [spec] <;> (repeat' split) <;> simp

open Cross in
/-- every history of the text view of an int / long list -/
theorem runI_refines (g : Growth) (hg : g.OK) (ops : List IOp) (l : TL Int) (hi : TL.Inv l)
    (hb : (TL.abs l).length + ops.length ≤ TL.BOUND) :
    (runG (stepI g) ops l).1 = (runG specI ops (TL.abs l)).1 ∧
    RelL (runG (stepI g) ops l).2 (runG specI ops (TL.abs l)).2 :=
  lift (stepI g) specI RelL List.length TL.BOUND
    (fun op c a h hb => by
      obtain ⟨hi, ha⟩ := h
      subst ha
      obtain ⟨h1, h2, h3⟩ := stepI_refines g hg op c hi hb
      exact ⟨h1, h3, h2⟩)
    specI_len ops l (TL.abs l) ⟨hi, rfl⟩ hb

open Cross in
theorem runS_refines (g : Growth) (hg : g.OK) (ops : List SOp) (l : TL Bytes) (hi : TL.Inv l)
    (hb : (TL.abs l).length + ops.length ≤ TL.BOUND) :
    (runG (stepS g) ops l).1 = (runG specS ops (TL.abs l)).1 ∧
    RelL (runG (stepS g) ops l).2 (runG specS ops (TL.abs l)).2 :=
  lift (stepS g) specS RelL List.length TL.BOUND
    (fun op c a h hb => by
      obtain ⟨hi, ha⟩ := h
      subst ha
      obtain ⟨h1, h2, h3⟩ := stepS_refines g hg op c hi hb
      exact ⟨h1, h3, h2⟩)
    specS_len ops l (TL.abs l) ⟨hi, rfl⟩ hb

open CrossNum in
theorem runN_refines (g : Growth) (hg : g.OK) (k : Kind) (ops : List NOp) (l : TL Num) (hi : TL.Inv l)
    (hb : (TL.abs l).length + ops.length ≤ TL.BOUND) :
    (runG (step g k) ops l).1 = (runG (spec k) ops (TL.abs l)).1 ∧
    RelL (runG (step g k) ops l).2 (runG (spec k) ops (TL.abs l)).2 :=
  lift (step g k) (spec k) RelL List.length TL.BOUND
    (fun op c a h hb => by
      obtain ⟨hi, ha⟩ := h
      subst ha
      obtain ⟨h1, h2, h3⟩ := CrossNum.step_refines g hg k op c hi hb
      exact ⟨h1, h3, h2⟩)
    (specN_len k) ops l (TL.abs l) ⟨hi, rfl⟩ hb

end Lists.RunLift
