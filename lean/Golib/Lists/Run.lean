/-
  Golib.Lists.Run — operation histories on a typed list: the CodeModel run, the
  Spec run (a plain `List α`) and the refinement between them.
-/
import Golib.Lists.Typed

namespace Lists

inductive Op (α : Type) where
  | add (v : α)                              -- AddX(v)
  | addAllArray (xs : List α)                -- AddAllArray(xs)
  | addAll (xs : List α) (pad : Nat)         -- AddAll(other); other holds xs and has `pad` spare slots
  | addAllSelf                               -- AddAll(this)
  | set (i : Int) (v : α)                    -- SetX(i, v)
  | get (i : Int)                            -- GetX(i)
  | size                                     -- Size()
  | toArray                                  -- ToArray()

inductive Out (α : Type) where
  | unit
  | panic
  | val (v : α)
  | size (n : Nat)
  | arr (xs : List α)
  deriving DecidableEq, Repr

/-- the other list object handed to `AddAll`: `xs` followed by `pad` unused slots -/
def otherOf {α : Type} (z : α) (xs : List α) (pad : Nat) : TL α :=
  { size := xs.length, isNil := false, table := (xs ++ List.replicate pad z).toArray }

theorem inv_otherOf {α : Type} (z : α) (xs : List α) (pad : Nat) : TL.Inv (otherOf z xs pad) := by
  simp [TL.Inv, otherOf]

@[simp] theorem abs_otherOf {α : Type} (z : α) (xs : List α) (pad : Nat) :
    TL.abs (otherOf z xs pad) = xs := by
  simp [TL.abs, otherOf]

namespace Code
variable {α : Type}

def orPanic (l : TL α) : Option (TL α) → Out α × TL α
  | some l' => (.unit, l')
  | none => (.panic, l)

def step (g : Growth) (z : α) (op : Op α) (l : TL α) : Out α × TL α :=
  match op with
  | .add v => orPanic l (TL.add g z v l)
  | .addAllArray xs => orPanic l (TL.addAllArray g z xs l)
  | .addAll xs pad => orPanic l (TL.addAll g z (otherOf z xs pad) l)
  | .addAllSelf => orPanic l (TL.addAllSelf g z l)
  | .set i v => orPanic l (TL.set l i v)
  | .get i => match TL.get l i with
    | some v => (.val v, l)
    | none => (.panic, l)
  | .size => (.size l.size, l)
  | .toArray => (.arr (TL.toArray l), l)

def run (g : Growth) (z : α) : List (Op α) → TL α → List (Out α) × TL α
  | [], l => ([], l)
  | op :: ops, l =>
    let r := step g z op l
    let rs := run g z ops r.2
    (r.1 :: rs.1, rs.2)

/-- tail-recursive form used by the driver -/
def runTR (g : Growth) (z : α) : List (Op α) → TL α → List (Out α) → List (Out α) × TL α
  | [], l, acc => (acc.reverse, l)
  | op :: ops, l, acc =>
    let r := step g z op l
    runTR g z ops r.2 (r.1 :: acc)

theorem runTR_eq (g : Growth) (z : α) (ops : List (Op α)) (l : TL α) (acc : List (Out α)) :
    runTR g z ops l acc = (acc.reverse ++ (run g z ops l).1, (run g z ops l).2) := by
  induction ops generalizing l acc with
  | nil => simp [runTR, run]
  | cons op ops ih => simp [runTR, run, ih]

end Code

namespace Spec
variable {α : Type}

def get (s : List α) (i : Int) : Option α :=
  if 0 ≤ i ∧ i < s.length then s[i.toNat]? else none

def step (op : Op α) (s : List α) : Out α × List α :=
  match op with
  | .add v => (.unit, s ++ [v])
  | .addAllArray xs => (.unit, s ++ xs)
  | .addAll xs _ => (.unit, s ++ xs)
  | .addAllSelf => (.unit, s ++ s)
  | .set i v => if 0 ≤ i ∧ i < s.length then (.unit, s.set i.toNat v) else (.panic, s)
  | .get i => match get s i with
    | some v => (.val v, s)
    | none => (.panic, s)
  | .size => (.size s.length, s)
  | .toArray => (.arr s, s)

def run : List (Op α) → List α → List (Out α) × List α
  | [], s => ([], s)
  | op :: ops, s =>
    let r := step op s
    let rs := run ops r.2
    (r.1 :: rs.1, rs.2)

theorem step_length_mono (op : Op α) (s : List α) : s.length ≤ (step op s).2.length := by
  cases op <;> simp [step]
  case set i v => split <;> simp
  case get i => split <;> simp

theorem run_length_mono (ops : List (Op α)) (s : List α) : s.length ≤ (run ops s).2.length := by
  induction ops generalizing s with
  | nil => simp [run]
  | cons op ops ih =>
    simp only [run]
    exact Nat.le_trans (step_length_mono op s) (ih _)

/-- `Filtering(index)` on a sequence: the selected elements in that order; fails iff an index is
    out of range -/
def filtering (s : List α) : List Int → Option (List α)
  | [] => some []
  | i :: is =>
    match get s i with
    | none => none
    | some v => (filtering s is).map (v :: ·)

theorem filtering_eq_none_iff (s : List α) (idx : List Int) :
    filtering s idx = none ↔ ∃ i ∈ idx, ¬ (0 ≤ i ∧ i < s.length) := by
  induction idx with
  | nil => simp [filtering]
  | cons i is ih =>
    simp only [filtering, List.mem_cons, exists_eq_or_imp]
    by_cases h : 0 ≤ i ∧ i < (s.length : Int)
    · have hl : i.toNat < s.length := by omega
      have : get s i = some s[i.toNat] := by simp [get, h, hl]
      rw [this]
      simp only [Option.map_eq_none_iff, ih]
      constructor
      · intro hh; exact Or.inr hh
      · intro hh; rcases hh with hh | hh
        · exact absurd h hh
        · exact hh
    · have : get s i = none := by simp [get, h]
      rw [this]
      exact ⟨fun _ => Or.inl h, fun _ => rfl⟩

theorem filtering_eq_map (s : List α) (idx : List Int) (vs : List α)
    (h : filtering s idx = some vs) : vs.map some = idx.map (fun i => s[i.toNat]?) := by
  induction idx generalizing vs with
  | nil => simp [filtering] at h; subst h; rfl
  | cons i is ih =>
    simp only [filtering] at h
    split at h
    · cases h
    · rename_i v hv
      cases hf : filtering s is with
      | none => rw [hf] at h; cases h
      | some ws =>
        rw [hf] at h
        simp only [Option.map_some, Option.some.injEq] at h
        subst h
        simp only [List.map_cons, ih ws hf]
        congr 1
        unfold get at hv
        split at hv
        · exact hv.symm
        · cases hv

end Spec

/-! ### refinement -/

variable {α : Type}

theorem step_refines (g : Growth) (hg : g.OK) (z : α) (op : Op α) (l : TL α) (hi : TL.Inv l)
    (hb : (Spec.step op (TL.abs l)).2.length ≤ TL.BOUND) :
    (Code.step g z op l).1 = (Spec.step op (TL.abs l)).1 ∧
    TL.abs (Code.step g z op l).2 = (Spec.step op (TL.abs l)).2 ∧
    TL.Inv (Code.step g z op l).2 := by
  have hlen := TL.abs_length hi
  cases op with
  | add v =>
    simp only [Spec.step, List.length_append, List.length_singleton, hlen] at hb
    obtain ⟨l', h, ha, hi'⟩ := TL.add_spec g hg z v l hi hb
    simp [Code.step, Spec.step, h, Code.orPanic, ha, hi']
  | addAllArray xs =>
    simp only [Spec.step, List.length_append, hlen] at hb
    obtain ⟨l', h, ha, hi'⟩ := TL.addAllArray_spec g hg z xs l hi hb
    simp [Code.step, Spec.step, h, Code.orPanic, ha, hi']
  | addAll xs pad =>
    simp only [Spec.step, List.length_append, hlen] at hb
    obtain ⟨l', h, ha, hi'⟩ := TL.addAll_spec g hg z (otherOf z xs pad) l hi (inv_otherOf z xs pad)
      (by simpa [otherOf] using hb)
    simp [Code.step, Spec.step, h, Code.orPanic, ha, hi']
  | addAllSelf =>
    simp only [Spec.step, List.length_append, hlen] at hb
    obtain ⟨l', h, ha, hi'⟩ := TL.addAllSelf_spec g hg z l hi hb
    simp [Code.step, Spec.step, h, Code.orPanic, ha, hi']
  | set i v =>
    have hs := TL.set_spec l i v hi
    by_cases hr : 0 ≤ i ∧ i < ((TL.abs l).length : Int)
    · obtain ⟨l', h, ha, hi'⟩ := hs.1 hr
      simp [Code.step, Spec.step, h, Code.orPanic, ha, hi', hr]
    · have h := hs.2 hr
      simp [Code.step, Spec.step, h, Code.orPanic, hi, hr]
  | get i =>
    have hg := TL.get_spec l i hi
    simp only [Code.step, Spec.step, Spec.get, hg]
    split <;> simp_all
  | size => simp [Code.step, Spec.step, hlen, hi]
  | toArray => simp [Code.step, Spec.step, TL.toArray_eq_abs, hi]

theorem run_refines (g : Growth) (hg : g.OK) (z : α) (ops : List (Op α)) (l : TL α) (hi : TL.Inv l)
    (hb : (Spec.run ops (TL.abs l)).2.length ≤ TL.BOUND) :
    (Code.run g z ops l).1 = (Spec.run ops (TL.abs l)).1 ∧
    TL.abs (Code.run g z ops l).2 = (Spec.run ops (TL.abs l)).2 ∧
    TL.Inv (Code.run g z ops l).2 := by
  induction ops generalizing l with
  | nil => simp [Code.run, Spec.run, hi]
  | cons op ops ih =>
    simp only [Spec.run] at hb
    have hb1 : (Spec.step op (TL.abs l)).2.length ≤ TL.BOUND :=
      Nat.le_trans (Spec.run_length_mono ops _) hb
    obtain ⟨h1, h2, h3⟩ := step_refines g hg z op l hi hb1
    have := ih (Code.step g z op l).2 h3 (by rw [h2]; exact hb)
    rw [h2] at this
    simp only [Code.run, Spec.run, h1, this.1, this.2.1, this.2.2, and_self]

/-! ### Filtering -/

theorem filteringLoop_spec (g : Growth) (hg : g.OK) (z : α) (l : TL α) (hi : TL.Inv l) (idx : List Int) (out : TL α)
    (ho : TL.Inv out) (hb : out.size + idx.length ≤ TL.BOUND) :
    match Spec.filtering (TL.abs l) idx with
    | some vs => ∃ out', TL.filteringLoop g z l idx out = some out' ∧
        TL.abs out' = TL.abs out ++ vs ∧ TL.Inv out'
    | none => TL.filteringLoop g z l idx out = none := by
  induction idx generalizing out with
  | nil => simp [Spec.filtering, TL.filteringLoop, ho]
  | cons i is ih =>
    simp only [List.length_cons] at hb
    have hget : TL.get l i = Spec.get (TL.abs l) i := by rw [TL.get_spec l i hi]; rfl
    simp only [Spec.filtering, TL.filteringLoop, hget]
    cases hv : Spec.get (TL.abs l) i with
    | none => simp
    | some v =>
      obtain ⟨o1, h1, ha1, hi1⟩ := TL.add_spec g hg z v out ho (by omega)
      have hs1 : o1.size = out.size + 1 := by
        rw [← TL.abs_length hi1, ha1, List.length_append, TL.abs_length ho]; rfl
      have := ih o1 hi1 (by omega)
      simp only [h1, Option.bind_some]
      cases hf : Spec.filtering (TL.abs l) is with
      | none => rw [hf] at this; simpa using this
      | some ws =>
        rw [hf] at this
        obtain ⟨o2, h2, ha2, hi2⟩ := this
        exact ⟨o2, h2, by rw [ha2, ha1]; simp, hi2⟩

theorem filtering_spec (g : Growth) (hg : g.OK) (z : α) (l : TL α) (hi : TL.Inv l) (idx : List Int)
    (hb : idx.length ≤ TL.BOUND) :
    match Spec.filtering (TL.abs l) idx with
    | some vs => ∃ out, TL.filtering g z l idx = some out ∧ TL.abs out = vs ∧ TL.Inv out
    | none => TL.filtering g z l idx = none := by
  have := filteringLoop_spec g hg z l hi idx (TL.mk' z l.size) (TL.inv_mk' z l.size)
    (by simpa [TL.mk'] using hb)
  unfold TL.filtering
  cases hf : Spec.filtering (TL.abs l) idx with
  | none => rw [hf] at this; exact this
  | some vs => rw [hf] at this; simpa using this

end Lists
