/-
  Golib.Lists.TableWire — StatGeneralPack.writeTable / readTable:

    writeTable:  WriteShort(count); per entry  WriteText(key) ; WriteByte(list.GetType()) ; list.Write
    readTable :  cnt := int(ReadShort()); cnt × { key := ReadText(); a := create(ReadByte()); a.Read(in); data.Put(key, a) }

  (the pack's own header around these bytes — AbstractPack, Id, the 24-bit length — is C03's)
-/
import Golib.Lists.Table
import Golib.Lists.Wire

namespace Lists.Table
open Prim

/-- the element codec of a list type, on tagged values -/
def encV (ty : Nat) : V → Bytes
  | .i x => if ty = 1 ∨ ty = 2 then encDecimal x else []
  | .b x => if ty = 3 then beN 4 x else if ty = 4 then beN 8 x else []
  | .s x => if ty = 1 ∨ ty = 2 ∨ ty = 3 ∨ ty = 4 then [] else encBlob x

def decV (ty : Nat) : P V :=
  if ty = 1 ∨ ty = 2 then P.map V.i decDecimal
  else if ty = 3 then P.map V.b (rdU 4)
  else if ty = 4 then P.map V.b (rdU 8)
  else P.map V.s decBlob

/-- a value a list of type `ty` can hold -/
def wfV (ty : Nat) : V → Prop
  | .i x => (ty = 1 ∨ ty = 2) ∧ inRange 8 x
  | .b x => (ty = 3 ∧ x < 256 ^ 4) ∨ (ty = 4 ∧ x < 256 ^ 8)
  | .s x => ¬ (ty = 1 ∨ ty = 2 ∨ ty = 3 ∨ ty = 4) ∧ x.length < 2147483648

theorem run_map_some {α β : Type} (f : α → β) (p : P α) (bs r : Bytes) (a : α)
    (h : P.run p bs = some (a, r)) : P.run (P.map f p) bs = some (f a, r) := by
  unfold P.map
  rw [P.run_bind_some _ _ _ _ _ h]; rfl

theorem decV_encV (ty : Nat) (v : V) (r : Bytes) (h : wfV ty v) :
    P.run (decV ty) (encV ty v ++ r) = some (v, r) := by
  cases v with
  | i x =>
    obtain ⟨ht, hx⟩ := h
    simp only [decV, encV, ht, if_true]
    exact run_map_some V.i _ _ _ _ (run_decDecimal x r hx)
  | b x =>
    rcases h with ⟨ht, hx⟩ | ⟨ht, hx⟩
    · subst ht
      simp only [decV, encV, if_true, show ¬ ((3 : Nat) = 1 ∨ (3 : Nat) = 2) by omega, if_false]
      exact run_map_some V.b _ _ _ _ (run_rdU 4 x r hx)
    · subst ht
      simp only [decV, encV, if_true, show ¬ ((4 : Nat) = 1 ∨ (4 : Nat) = 2) by omega,
        show ¬ ((4 : Nat) = 3) by omega, if_false]
      exact run_map_some V.b _ _ _ _ (run_rdU 8 x r hx)
  | s x =>
    obtain ⟨ht, hx⟩ := h
    have h12 : ¬ (ty = 1 ∨ ty = 2) := fun e => ht (by omega)
    have h3 : ¬ ty = 3 := fun e => ht (by omega)
    have h4 : ¬ ty = 4 := fun e => ht (by omega)
    have he : encV ty (.s x) = encBlob x := by simp only [encV, ht, if_false]
    rw [he]
    simp only [decV, h12, h3, h4, if_false]
    exact run_map_some V.s _ _ _ _ (run_decBlob x r hx)

def codecV (ty : Nat) : Codec V :=
  { enc := encV ty, dec := decV ty, wf := wfV ty, rt := fun x r h => decV_encV ty x r h }

/-- one entry of `writeTable` -/
def writeEntry (e : Bytes × Col) : Bytes :=
  encBlob e.1 ++ [e.2.ty] ++ write (codecV e.2.ty) e.2.l

def writeEntries : T → Bytes
  | [] => []
  | e :: r => writeEntry e ++ writeEntries r

/-- `writeTable(data)` -/
def writeTable (t : T) : Bytes := encI 2 t.length ++ writeEntries t

/-- the loop of `readTable` -/
def readEntries (g : Growth) : Nat → T → P T
  | 0, t => .pure t
  | n + 1, t =>
    P.bind decBlob (fun k =>
    P.bind (rdU 1) (fun code =>
      let c := create code
      P.bind (read g (codecV c.ty) (zeroOfTy c.ty) c.l) (fun l' =>
        readEntries g n (put t k { ty := c.ty, l := l' }))))

/-- `readTable(bytes, data)` (a negative count runs the loop zero times) -/
def readTable (g : Growth) (t0 : T) : P T :=
  P.bind (rdI 2) (fun n => readEntries g n.toNat t0)

/-- what a table must satisfy to travel: type codes 1..5, well-formed lists below 2^23 elements
    holding values of their type, keys shorter than 2^31 bytes -/
def WFEntry (e : Bytes × Col) : Prop :=
  (1 ≤ e.2.ty ∧ e.2.ty ≤ 5) ∧ TL.Inv e.2.l ∧ e.2.l.size < 8388608 ∧
  (∀ x ∈ TL.abs e.2.l, wfV e.2.ty x) ∧ e.1.length < 2147483648

theorem put_fresh (t : T) (k : Bytes) (c : Col) (h : ∀ e ∈ t, (e.1 == k) = false) :
    put t k c = t ++ [(k, c)] := by
  induction t with
  | nil => rfl
  | cons e r ih =>
    obtain ⟨k', c'⟩ := e
    have h1 := h (k', c') (by simp)
    simp only at h1
    simp only [put, h1, Bool.false_eq_true, if_false, List.cons_append]
    rw [ih (fun e he => h e (by simp [he]))]

theorem create_of_code (ty : Nat) (h : 1 ≤ ty ∧ ty ≤ 5) : (create ty).ty = ty := by
  simp only [create]
  split
  · rfl
  · omega

theorem run_readEntries (g : Growth) (hg : g.OK) (es : T) (acc : T) (r : Bytes)
    (hw : ∀ e ∈ es, WFEntry e)
    (hd : es.Pairwise (fun a b => (a.1 == b.1) = false))
    (hf : ∀ a ∈ acc, ∀ e ∈ es, (a.1 == e.1) = false) :
    ∃ es', P.run (readEntries g es.length acc) (writeEntries es ++ r) = some (acc ++ es', r) ∧
      absT es' = absT es ∧ InvT es' := by
  induction es generalizing acc with
  | nil => exact ⟨[], by simp [readEntries, writeEntries], rfl, fun e he => by cases he⟩
  | cons e rest ih =>
    obtain ⟨k, c⟩ := e
    obtain ⟨hty, hinv, hsz, hvals, hkl⟩ := hw (k, c) (by simp)
    simp only at hty hinv hsz hvals hkl
    have hct : (create c.ty).ty = c.ty := create_of_code c.ty hty
    have hcl : (create c.ty).l = TL.mk' (zeroOfTy c.ty) 0 := by
      simp only [create]
      split
      · rfl
      · have : c.ty = 5 := by omega
        simp [this]
    -- the list of this entry
    obtain ⟨l', hread, habs, hinv'⟩ := run_read_write g hg (codecV c.ty) (zeroOfTy c.ty) c.l
      (TL.mk' (zeroOfTy c.ty) 0) (writeEntries rest ++ r) hinv (TL.inv_mk' _ _) hsz hvals
      (by simp [TL.mk', TL.BOUND]; omega)
    have hfresh : ∀ a ∈ acc, (a.1 == k) = false := fun a ha => hf a ha (k, c) (by simp)
    rw [List.pairwise_cons] at hd
    -- the rest, with the accumulator grown by this entry
    obtain ⟨es', hrest, habs', hinvs⟩ := ih (acc ++ [(k, { ty := c.ty, l := l' })])
      (fun e he => hw e (by simp [he])) hd.2
      (by
        intro a ha e he
        rcases List.mem_append.mp ha with ha | ha
        · exact hf a ha e (by simp [he])
        · simp only [List.mem_singleton] at ha; subst ha; exact hd.1 e he)
    refine ⟨(k, { ty := c.ty, l := l' }) :: es', ?_, ?_, ?_⟩
    · simp only [List.length_cons, readEntries, writeEntries, writeEntry, List.append_assoc]
      rw [P.run_bind_some _ _ _ _ _ (run_decBlob k _ hkl)]
      have hb : c.ty < 256 ^ 1 := by omega
      have hbyte : ([c.ty] : Bytes) = beN 1 c.ty := by
        simp [beN, Nat.mod_eq_of_lt (show c.ty < 256 by omega)]
      rw [List.singleton_append, ← List.singleton_append, hbyte,
        P.run_bind_some _ _ _ _ _ (run_rdU 1 c.ty _ hb)]
      simp only [hct, hcl]
      rw [P.run_bind_some _ _ _ _ _ hread, put_fresh acc k _ hfresh]
      simpa [List.append_assoc] using hrest
    · simp only [absT, List.map_cons] at habs' ⊢
      rw [habs', habs]; simp
    · intro e he
      rcases List.mem_cons.mp he with e1 | e1
      · subst e1; exact hinv'
      · exact hinvs e e1

/-- the columns put one after the other (what the loop of `readTable` does to the receiver) -/
def putAll (acc : T) (es : T) : T := es.foldl (fun t e => put t e.1 e.2) acc

theorem putAll_fresh (acc es : T)
    (hd : es.Pairwise (fun a b => (a.1 == b.1) = false))
    (hf : ∀ a ∈ acc, ∀ e ∈ es, (a.1 == e.1) = false) : putAll acc es = acc ++ es := by
  induction es generalizing acc with
  | nil => simp [putAll]
  | cons e rest ih =>
    rw [List.pairwise_cons] at hd
    have h1 : put acc e.1 e.2 = acc ++ [e] := put_fresh acc e.1 e.2 (fun a ha => hf a ha e (by simp))
    have : putAll acc (e :: rest) = putAll (acc ++ [e]) rest := by
      simp only [putAll, List.foldl_cons, h1]
    rw [this, ih (acc ++ [e]) hd.2 (by
      intro a ha x hx
      rcases List.mem_append.mp ha with ha | ha
      · exact hf a ha x (by simp [hx])
      · simp only [List.mem_singleton] at ha; subst ha; exact hd.1 x hx)]
    simp

/-- **readTable into ANY receiver, ANY keys**: the entries of a written table are decoded (lists
    equal, types through `create`) and PUT into the receiver one after the other — a key that is
    already there (in the receiver, or earlier in the same table) is replaced in place, new keys go
    last.  No distinctness hypothesis. -/
theorem run_readEntries_gen (g : Growth) (hg : g.OK) (es : T) (acc : T) (r : Bytes)
    (hw : ∀ e ∈ es, WFEntry e) :
    ∃ es', P.run (readEntries g es.length acc) (writeEntries es ++ r) = some (putAll acc es', r) ∧
      absT es' = absT es ∧ InvT es' := by
  induction es generalizing acc with
  | nil => exact ⟨[], by simp [readEntries, writeEntries, putAll], rfl, fun e he => by cases he⟩
  | cons e rest ih =>
    obtain ⟨k, c⟩ := e
    obtain ⟨hty, hinv, hsz, hvals, hkl⟩ := hw (k, c) (by simp)
    simp only at hty hinv hsz hvals hkl
    have hct : (create c.ty).ty = c.ty := create_of_code c.ty hty
    have hcl : (create c.ty).l = TL.mk' (zeroOfTy c.ty) 0 := by
      simp only [create]
      split
      · rfl
      · have : c.ty = 5 := by omega
        simp [this]
    obtain ⟨l', hread, habs, hinv'⟩ := run_read_write g hg (codecV c.ty) (zeroOfTy c.ty) c.l
      (TL.mk' (zeroOfTy c.ty) 0) (writeEntries rest ++ r) hinv (TL.inv_mk' _ _) hsz hvals
      (by simp [TL.mk', TL.BOUND]; omega)
    obtain ⟨es', hrest, habs', hinvs⟩ := ih (put acc k { ty := c.ty, l := l' })
      (fun e he => hw e (by simp [he]))
    refine ⟨(k, { ty := c.ty, l := l' }) :: es', ?_, ?_, ?_⟩
    · simp only [List.length_cons, readEntries, writeEntries, writeEntry, List.append_assoc]
      rw [P.run_bind_some _ _ _ _ _ (run_decBlob k _ hkl)]
      have hb : c.ty < 256 ^ 1 := by omega
      have hbyte : ([c.ty] : Bytes) = beN 1 c.ty := by
        simp [beN, Nat.mod_eq_of_lt (show c.ty < 256 by omega)]
      rw [List.singleton_append, ← List.singleton_append, hbyte,
        P.run_bind_some _ _ _ _ _ (run_rdU 1 c.ty _ hb)]
      simp only [hct, hcl]
      rw [P.run_bind_some _ _ _ _ _ hread]
      simpa [putAll] using hrest
    · simp only [absT, List.map_cons] at habs' ⊢
      rw [habs', habs]; simp
    · intro e he
      rcases List.mem_cons.mp he with e1 | e1
      · subst e1; exact hinv'
      · exact hinvs e e1

/-- `readTable` of a written table into any receiver, in general -/
theorem run_readTable_gen (g : Growth) (hg : g.OK) (t acc : T) (r : Bytes)
    (hn : t.length ≤ 32767) (hw : ∀ e ∈ t, WFEntry e) :
    ∃ es', P.run (readTable g acc) (writeTable t ++ r) = some (putAll acc es', r) ∧
      absT es' = absT t ∧ InvT es' := by
  obtain ⟨es', h1, h2, h3⟩ := run_readEntries_gen g hg t acc r hw
  refine ⟨es', ?_, h2, h3⟩
  unfold readTable writeTable
  rw [List.append_assoc, P.run_bind_some _ _ _ _ _ (run_rdI 2 (t.length : Int) _
      ((inRange_2 _).mpr (by omega)))]
  simpa using h1

/-- **table_wire.**  `readTable` of what `writeTable` produced, into an empty table, gives a table
    with the same keys in the same order, the same list types (through `create`) and equal lists,
    and leaves the following bytes untouched — for at most 32767 columns with distinct keys. -/
theorem run_readTable_writeTable (g : Growth) (hg : g.OK) (t : T) (r : Bytes)
    (hn : t.length ≤ 32767) (hw : ∀ e ∈ t, WFEntry e)
    (hd : t.Pairwise (fun a b => (a.1 == b.1) = false)) :
    ∃ t', P.run (readTable g []) (writeTable t ++ r) = some (t', r) ∧ absT t' = absT t ∧ InvT t' := by
  obtain ⟨es', h1, h2, h3⟩ := run_readEntries g hg t [] r hw hd (fun a ha => by cases ha)
  refine ⟨es', ?_, h2, h3⟩
  unfold readTable writeTable
  rw [List.append_assoc, P.run_bind_some _ _ _ _ _ (run_rdI 2 (t.length : Int) _
      ((inRange_2 _).mpr (by omega)))]
  simpa using h1

end Lists.Table
