/-
  Golib.Lists.LinkedProof — the pointer structure of util/list/LinkedList.go (Golib.Lists.Linked)
  refines the deque on a plain list (Golib.Lists.LinkedSpec).

  Representation invariant `Rep o ids vals`: `ids` are the addresses of the nodes in list order
  (pairwise distinct), `vals` their values; `first`/`last` point at the ends, and the node at
  position k has prev = ids[k-1] (nil for k = 0), next = ids[k+1] (nil at the end), value vals[k].
  Two generic lemmas carry all the pointer surgery: `remove_spec` (unlink the node at position k)
  and `insert_spec` (link a fresh node at position k); AddFirst / AddLast / PutBefore are shown to
  be instances of the latter, RemoveFirst / RemoveLast / Remove of the former.
-/
import Golib.Lists.Linked
namespace Lists.Linked
open LL

theorem getElem?_upd (h : Array Node) (id j : Nat) (f : Node → Node) :
    (upd h id f)[j]? = if j = id then h[j]?.map f else h[j]? := by
  unfold upd
  split
  · rename_i hlt
    rw [Array.getElem?_set]
    by_cases hj : id = j
    · subst hj; simp [hlt]
    · have : ¬ j = id := fun e => hj e.symm
      simp [hj, this]
  · rename_i hlt
    by_cases hj : j = id
    · subst hj
      have : h[j]? = none := by simp; omega
      simp [this]
    · simp [hj]

theorem getElem?_updOpt (h : Array Node) (p : Option Nat) (j : Nat) (f : Node → Node) :
    (updOpt h p f)[j]? = if p = some j then h[j]?.map f else h[j]? := by
  cases p with
  | none => simp [updOpt]
  | some id =>
    simp only [updOpt, getElem?_upd, Option.some.injEq]
    by_cases e : j = id
    · subst e; simp
    · have : ¬ id = j := fun e' => e e'.symm
      simp [e, this]

structure Rep (o : LL) (ids : List Nat) (vals : List Int) : Prop where
  inj : ∀ (a b id : Nat), ids[a]? = some id → ids[b]? = some id → a = b
  len : ids.length = vals.length
  size : o.size = ids.length
  first : o.first = ids[0]?
  last : o.last = ids[ids.length - 1]?
  node : ∀ (k id : Nat), ids[k]? = some id → ∃ n, o.heap[id]? = some n ∧
      n.prev = (if k = 0 then none else ids[k-1]?) ∧ n.next = ids[k+1]? ∧ n.value = vals[k]?

theorem remove_spec (o : LL) (ids : List Nat) (vals : List Int) (h : Rep o ids vals)
    (k x : Nat) (hx : ids[k]? = some x) :
    ∃ o', o.remove x = some (vals[k]?, o') ∧ Rep o' (ids.eraseIdx k) (vals.eraseIdx k) := by
  obtain ⟨nx, hnx, hp, hn, hv⟩ := h.node k x hx
  have hk : k < ids.length := by
    have := List.getElem?_eq_some_iff.mp hx; exact this.1
  refine ⟨_, by simp only [remove, hnx]; rw [hv], ?_⟩
  constructor
  · intro a b id ha hb
    simp only [List.getElem?_eraseIdx] at ha hb
    split at ha <;> split at hb <;> have := h.inj _ _ _ ha hb <;> omega
  · simp [List.length_eraseIdx, h.len ▸ hk, h.len]
  · simp [List.length_eraseIdx, hk, h.size]
  · -- first
    simp only [List.getElem?_eraseIdx]
    by_cases h0 : k = 0
    · subst h0; simp only [if_true] at hp; simp [hp, hn]
    · have : ∃ p, ids[k-1]? = some p := ⟨ids[k-1]'(by omega), List.getElem?_eq_getElem (by omega)⟩
      obtain ⟨p, hpp⟩ := this
      simp only [h0, if_false] at hp
      have hpos : 0 < k := by omega
      simp [hp, hpp, hpos, h.first]
  · -- last
    simp only [List.getElem?_eraseIdx, List.length_eraseIdx, hk, if_true]
    by_cases hl : k + 1 < ids.length
    · have : ∃ q, ids[k+1]? = some q := ⟨ids[k+1]'hl, List.getElem?_eq_getElem hl⟩
      obtain ⟨q, hq⟩ := this
      have h1 : ¬ (ids.length - 1 - 1 < k) := by omega
      have h2 : ids.length - 1 - 1 + 1 = ids.length - 1 := by omega
      simp [hn, hq, h.last, h1, h2]
    · have hnone : ids[k+1]? = none := List.getElem?_eq_none (by omega)
      simp only [hn, hnone]
      by_cases h0 : k = 0
      · have : ids.length = 1 := by omega
        simp [hp, h0, this]
      · have h1 : ids.length - 1 - 1 < k := by omega
        have h2 : ids.length - 1 - 1 = k - 1 := by omega
        simp only [hp, h0, if_false, h2]
        have : k - 1 < k := by omega
        simp [this]
  · -- node
    intro j y hj
    have hjl : (vals.eraseIdx k)[j]? = if j < k then vals[j]? else vals[j+1]? := List.getElem?_eraseIdx
    rw [List.getElem?_eraseIdx] at hj
    simp only [List.getElem?_eraseIdx, hjl]
    have hlook : ∀ n, o.heap[y]? = some n → y ≠ x →
        (upd (updOpt (updOpt o.heap nx.prev (fun n => { n with next := nx.next })) nx.next
          (fun m => { m with prev := nx.prev })) x
          (fun _ => { prev := none, next := none, value := none }))[y]? =
        some { prev := if nx.next = some y then nx.prev else n.prev,
               next := if nx.prev = some y then nx.next else n.next, value := n.value } := by
      intro n hnn hne
      rw [getElem?_upd, if_neg hne, getElem?_updOpt, getElem?_updOpt, hnn]
      by_cases e1 : nx.next = some y <;> by_cases e2 : nx.prev = some y <;> simp [e1, e2]
    by_cases hjk : j < k
    · simp only [hjk, if_true] at hj ⊢
      obtain ⟨n, hnn, hnp, hnnx, hnv⟩ := h.node j y hj
      have hne : y ≠ x := fun e => by subst e; have := h.inj _ _ _ hj hx; omega
      have k0 : k ≠ 0 := by omega
      have hnq : nx.next ≠ some y := fun e => by
        rw [hn] at e; have := h.inj _ _ _ hj e; omega
      simp only [k0, if_false] at hp
      refine ⟨_, hlook n hnn hne, ?_, ?_, hnv⟩
      · simp only [hnq, if_false, hnp]
        by_cases j0 : j = 0
        · simp [j0]
        · have : j - 1 < k := by omega
          simp [j0, this]
      · by_cases hjp : j = k - 1
        · have : nx.prev = some y := by rw [hp, ← hjp]; exact hj
          have h1 : ¬ (j + 1 < k) := by omega
          have e : j + 1 + 1 = k + 1 := by omega
          simp [this, h1, e, hn]
        · have : nx.prev ≠ some y := fun e => by
            rw [hp] at e; have := h.inj _ _ _ hj e; omega
          have h1 : j + 1 < k := by omega
          simp [this, h1, hnnx]
    · simp only [hjk, if_false] at hj ⊢
      obtain ⟨n, hnn, hnp, hnnx, hnv⟩ := h.node (j+1) y hj
      have hne : y ≠ x := fun e => by subst e; have := h.inj _ _ _ hj hx; omega
      have hnpv : nx.prev ≠ some y := fun e => by
        rw [hp] at e
        by_cases k0 : k = 0
        · simp [k0] at e
        · simp only [k0, if_false] at e; have := h.inj _ _ _ hj e; omega
      have hnext : ¬ (j + 1 < k) := by omega
      simp only [hnext, if_false, Nat.add_one_ne_zero] at hnp ⊢
      refine ⟨_, hlook n hnn hne, ?_, ?_, hnv⟩
      · by_cases hjq : j = k
        · have : nx.next = some y := by rw [hn, ← hjq]; exact hj
          simp only [this, if_true, hp, hjq]
          by_cases k0 : k = 0
          · simp [k0]
          · have : k - 1 < k := by omega
            simp [k0, this]
        · have : nx.next ≠ some y := fun e => by
            rw [hn] at e; have := h.inj _ _ _ hj e; omega
          have j0 : j ≠ 0 := by omega
          have h1 : ¬ (j - 1 < k) := by omega
          have e : j - 1 + 1 = j := by omega
          simp [this, hnp, j0, h1, e]
      · simp only [hnpv, if_false, hnnx]

/-- one new node between `pred` and `succ` (either may be nil): what AddFirst, AddLast and
    PutBefore all do -/
def insertNode (o : LL) (v : Int) (pred succ : Option Nat) : LL :=
  { size := o.size + 1,
    first := if pred = none then some o.heap.size else o.first,
    last := if succ = none then some o.heap.size else o.last,
    heap := updOpt (updOpt (o.heap.push { prev := pred, value := some v, next := succ }) succ
      (fun n => { n with prev := some o.heap.size })) pred (fun n => { n with next := some o.heap.size }) }

theorem Rep.lt_size {o : LL} {ids : List Nat} {vals : List Int} (h : Rep o ids vals)
    {k y : Nat} (hy : ids[k]? = some y) : y < o.heap.size := by
  obtain ⟨n, hn, _⟩ := h.node k y hy
  have := Array.getElem?_eq_some_iff.mp hn
  exact this.1

theorem ins_get {α : Type} (l : List α) (k j : Nat) (N y : α) (hk : k ≤ l.length)
    (hy : (l.insertIdx k N)[j]? = some y) :
    (j < k ∧ l[j]? = some y) ∨ (j = k ∧ y = N) ∨ (k < j ∧ l[j-1]? = some y) := by
  rw [List.getElem?_insertIdx] at hy
  by_cases h1 : j < k
  · simp only [h1, if_true] at hy; exact Or.inl ⟨h1, hy⟩
  · by_cases h2 : j = k
    · subst h2
      simp only [Nat.lt_irrefl, if_false, if_true, hk, Option.some.injEq] at hy
      exact Or.inr (Or.inl ⟨rfl, hy.symm⟩)
    · simp only [h1, h2, if_false] at hy
      exact Or.inr (Or.inr ⟨by omega, hy⟩)

theorem insert_spec (o : LL) (ids : List Nat) (vals : List Int) (h : Rep o ids vals)
    (k : Nat) (v : Int) (hk : k ≤ ids.length) :
    Rep (insertNode o v (if k = 0 then none else ids[k-1]?) ids[k]?)
      (ids.insertIdx k o.heap.size) (vals.insertIdx k v) := by
  have hfresh : ∀ (a y : Nat), ids[a]? = some y → y ≠ o.heap.size := fun a y hy e => by
    have := h.lt_size hy; omega
  have hkv : k ≤ vals.length := by rw [← h.len]; exact hk
  constructor
  · intro a b y ha hb
    rcases ins_get ids k a _ y hk ha with ⟨a1, a2⟩ | ⟨a1, a2⟩ | ⟨a1, a2⟩ <;>
    rcases ins_get ids k b _ y hk hb with ⟨b1, b2⟩ | ⟨b1, b2⟩ | ⟨b1, b2⟩
    · exact h.inj _ _ _ a2 b2
    · exact absurd b2 (hfresh _ _ a2)
    · have := h.inj _ _ _ a2 b2; omega
    · exact absurd a2 (hfresh _ _ b2)
    · omega
    · exact absurd a2 (hfresh _ _ b2)
    · have := h.inj _ _ _ a2 b2; omega
    · exact absurd b2 (hfresh _ _ a2)
    · have := h.inj _ _ _ a2 b2; omega
  · simp [List.length_insertIdx, hkv, h.len]
  · simp [insertNode, List.length_insertIdx, hk, h.size]
  · -- first
    simp only [insertNode, List.getElem?_insertIdx]
    by_cases k0 : k = 0
    · simp [k0]
    · have : ∃ p, ids[k-1]? = some p := ⟨ids[k-1]'(by omega), List.getElem?_eq_getElem (by omega)⟩
      obtain ⟨p, hpp⟩ := this
      have : 0 < k := by omega
      simp [k0, hpp, this, h.first]
  · -- last
    simp only [insertNode, List.getElem?_insertIdx, List.length_insertIdx, hk, if_true,
      Nat.add_sub_cancel]
    by_cases kl : k = ids.length
    · have : ids[k]? = none := List.getElem?_eq_none (by omega)
      simp [kl]
    · have : ∃ q, ids[k]? = some q := ⟨ids[k]'(by omega), List.getElem?_eq_getElem (by omega)⟩
      obtain ⟨q, hq⟩ := this
      have h1 : ¬ ids.length < k := by omega
      have h2 : ¬ ids.length = k := fun e => kl e.symm
      simp [hq, h1, h2, h.last]
  · -- node
    intro j y hj
    have hvj : (vals.insertIdx k v)[j]? =
        if j < k then vals[j]? else if j = k then some v else vals[j-1]? := by
      rw [List.getElem?_insertIdx]
      by_cases h1 : j < k
      · simp [h1]
      · by_cases h2 : j = k
        · subst h2; simp [hkv]
        · simp [h1, h2]
    have hsuccN : ids[k]? ≠ some o.heap.size := fun e => hfresh _ _ e rfl
    have hpredN : (if k = 0 then none else ids[k-1]?) ≠ some o.heap.size := fun e => by
      by_cases k0 : k = 0
      · simp [k0] at e
      · simp only [k0, if_false] at e; exact hfresh _ _ e rfl
    have hlook : ∀ n, o.heap[y]? = some n → y ≠ o.heap.size →
        (insertNode o v (if k = 0 then none else ids[k-1]?) ids[k]?).heap[y]? =
        some { prev := if ids[k]? = some y then some o.heap.size else n.prev,
               next := if (if k = 0 then none else ids[k-1]?) = some y then some o.heap.size else n.next,
               value := n.value } := by
      intro n hnn hne
      simp only [insertNode]
      rw [getElem?_updOpt, getElem?_updOpt, Array.getElem?_push, if_neg hne, hnn]
      by_cases e1 : ids[k]? = some y <;>
        by_cases e2 : (if k = 0 then none else ids[k-1]?) = some y <;> simp [e1, e2]
    simp only [List.getElem?_insertIdx, hvj]
    rcases ins_get ids k j _ y hk hj with ⟨j1, j2⟩ | ⟨j1, j2⟩ | ⟨j1, j2⟩
    · obtain ⟨n, hnn, hnp, hnnx, hnv⟩ := h.node j y j2
      have hsy : ids[k]? ≠ some y := fun e => by have := h.inj _ _ _ j2 e; omega
      refine ⟨_, hlook n hnn (hfresh _ _ j2), ?_, ?_, ?_⟩
      · simp only [hsy, if_false, hnp]
        by_cases j0 : j = 0
        · simp [j0]
        · have : j - 1 < k := by omega
          simp [j0, this]
      · by_cases hjp : j + 1 = k
        · have k0 : k ≠ 0 := by omega
          have e : k - 1 = j := by omega
          have h1 : ¬ (j + 1 < k) := by omega
          simp [k0, e, j2, hjp, hk]
        · have h1 : j + 1 < k := by omega
          have : (if k = 0 then none else ids[k-1]?) ≠ some y := fun e => by
            have k0 : k ≠ 0 := by omega
            simp only [k0, if_false] at e
            have := h.inj _ _ _ j2 e; omega
          simp [this, h1, hnnx]
      · simp [j1, hnv]
    · subst j1; subst j2
      refine ⟨{ prev := (if j = 0 then none else ids[j-1]?), value := some v, next := ids[j]? }, ?_, ?_, ?_, ?_⟩
      · simp only [insertNode]
        rw [getElem?_updOpt, getElem?_updOpt, if_neg hpredN, if_neg hsuccN, Array.getElem?_push]
        simp
      · by_cases j0 : j = 0
        · simp [j0]
        · have : j - 1 < j := by omega
          simp [j0, this]
      · have h1 : ¬ (j + 1 < j) := by omega
        have h2 : ¬ (j + 1 = j) := by omega
        simp [h1]
      · simp
    · obtain ⟨n, hnn, hnp, hnnx, hnv⟩ := h.node (j-1) y j2
      have hpy : (if k = 0 then none else ids[k-1]?) ≠ some y := fun e => by
        by_cases k0 : k = 0
        · simp [k0] at e
        · simp only [k0, if_false] at e; have := h.inj _ _ _ j2 e; omega
      have j0 : j ≠ 0 := by omega
      have h1 : ¬ (j < k) := by omega
      have h2 : ¬ (j = k) := by omega
      refine ⟨_, hlook n hnn (hfresh _ _ j2), ?_, ?_, ?_⟩
      · simp only [j0, if_false]
        by_cases hjq : j - 1 = k
        · have : ids[k]? = some y := by rw [← hjq]; exact j2
          have h3 : ¬ (j - 1 < k) := by omega
          simp [this, hjq, hk]
        · have : ids[k]? ≠ some y := fun e => by have := h.inj _ _ _ j2 e; omega
          have h3 : ¬ (j - 1 < k) := by omega
          have h4 : j - 1 ≠ 0 := by omega
          simp [this, h3, hjq, hnp, h4]
      · have h3 : ¬ (j + 1 < k) := by omega
        have h4 : ¬ (j + 1 = k) := by omega
        have e : j - 1 + 1 = j := by omega
        simp [hpy, h3, h4, hnnx, e]
      · simp [h1, h2, hnv]

theorem addFirst_eq (o : LL) (v : Int) : o.addFirst v = insertNode o v none o.first := by
  unfold addFirst insertNode
  cases o.first <;> simp [updOpt]

theorem addLast_eq (o : LL) (v : Int) : o.addLast v = insertNode o v o.last none := by
  unfold addLast insertNode
  cases o.last <;> simp [updOpt]

theorem putBefore_eq (o : LL) (v : Int) (succ : Nat) (ns : Node) (h : o.heap[succ]? = some ns) :
    o.putBefore v succ = some (insertNode o v ns.prev (some succ)) := by
  unfold putBefore insertNode
  simp only [h]
  cases ns.prev <;> simp [updOpt]

theorem Rep.empty : Rep LL.empty [] [] := by
  constructor <;> simp [LL.empty]

theorem Rep.clear (o : LL) : Rep o.clear [] [] := by
  constructor <;> simp [LL.clear]

theorem walk_spec {o : LL} {ids : List Nat} {vals : List Int} (h : Rep o ids vals) :
    ∀ (k i : Nat), i ≤ ids.length →
      walk o.heap ids[i]? k = if i + k ≤ ids.length then some ids[i+k]? else none := by
  intro k
  induction k with
  | zero => intro i hi; simp [walk, hi]
  | succ k ih =>
    intro i hi
    by_cases hlt : i < ids.length
    · have hy : ids[i]? = some ids[i] := List.getElem?_eq_getElem hlt
      obtain ⟨n, hn, _, hnx, _⟩ := h.node i _ hy
      rw [hy]
      simp only [walk, hn, hnx]
      rw [ih (i+1) (by omega)]
      have : i + 1 + k = i + (k + 1) := by omega
      rw [this]
    · have : ids[i]? = none := List.getElem?_eq_none (by omega)
      rw [this]
      have : ¬ (i + (k + 1) ≤ ids.length) := by omega
      simp [walk, this]

theorem toArrayLoop_spec {o : LL} {ids : List Nat} {vals : List Int} (h : Rep o ids vals) :
    ∀ (n i : Nat) (acc : List (Option Int)), i + n ≤ ids.length →
      toArrayLoop o.heap n ids[i]? acc =
        some (acc.reverse ++ ((vals.drop i).take n).map some) := by
  intro n
  induction n with
  | zero => intro i acc _; simp [toArrayLoop]
  | succ n ih =>
    intro i acc hi
    have hlt : i < ids.length := by omega
    have hy : ids[i]? = some ids[i] := List.getElem?_eq_getElem hlt
    obtain ⟨nd, hn, _, hnx, hnv⟩ := h.node i _ hy
    rw [hy]
    simp only [toArrayLoop, hn, hnx]
    rw [ih (i+1) _ (by omega)]
    have hvl : i < vals.length := by rw [← h.len]; exact hlt
    have hv : vals[i]? = some vals[i] := List.getElem?_eq_getElem hvl
    have hd : (vals.map some).drop i = some vals[i] :: (vals.map some).drop (i+1) := by
      rw [List.drop_eq_getElem_cons (by simpa using hvl)]; simp
    rw [hnv, hv]
    simp [hd]

theorem toArray_spec {o : LL} {ids : List Nat} {vals : List Int} (h : Rep o ids vals) :
    o.toArray = some (vals.map some) := by
  unfold toArray
  rw [h.first, toArrayLoop_spec h o.size 0 [] (by rw [h.size]; omega)]
  simp [h.size, h.len]

theorem valueOf_spec {o : LL} {ids : List Nat} {vals : List Int} (h : Rep o ids vals) (k : Nat) :
    o.valueOf ids[k]? = vals[k]? := by
  by_cases hlt : k < ids.length
  · have hy : ids[k]? = some ids[k] := List.getElem?_eq_getElem hlt
    obtain ⟨n, hn, _, _, hnv⟩ := h.node k _ hy
    rw [hy]; simp [valueOf, hn, hnv]
  · have h1 : ids[k]? = none := List.getElem?_eq_none (by omega)
    have h2 : vals[k]? = none := List.getElem?_eq_none (by rw [← h.len]; omega)
    rw [h1, h2]; rfl

/-- removing the entity at position `k` (shared by RemoveFirst / RemoveLast / Remove) -/
theorem removePos_refines {o : LL} {ids : List Nat} {vals : List Int} (h : Rep o ids vals)
    (k x : Nat) (hx : ids[k]? = some x) :
    ∃ v o', o.remove x = some (some v, o') ∧ vals[k]? = some v ∧
      Rep o' (ids.eraseIdx k) (vals.eraseIdx k) := by
  obtain ⟨o', h1, h2⟩ := remove_spec o ids vals h k x hx
  have hk : k < vals.length := by rw [← h.len]; exact (List.getElem?_eq_some_iff.mp hx).1
  have hv : vals[k]? = some vals[k] := List.getElem?_eq_getElem hk
  exact ⟨vals[k], o', by rw [h1, hv], hv, h2⟩

theorem step_refines (op : Op) (o : LL) (ids : List Nat) (vals : List Int) (h : Rep o ids vals) :
    (LL.step op o).1 = (Spec.step op vals).1 ∧
    ∃ ids', Rep (LL.step op o).2 ids' (Spec.step op vals).2 := by
  cases op with
  | addFirst v =>
    refine ⟨rfl, ids.insertIdx 0 o.heap.size, ?_⟩
    have := insert_spec o ids vals h 0 v (by omega)
    simpa [LL.step, Spec.step, addFirst_eq, h.first] using this
  | addLast v =>
    refine ⟨rfl, ids ++ [o.heap.size], ?_⟩
    have := insert_spec o ids vals h ids.length v (by omega)
    have e : (if ids.length = 0 then none else ids[ids.length - 1]?) = o.last := by
      rw [h.last]; split
      · rename_i e0; simp [List.length_eq_zero_iff.mp e0]
      · rfl
    rw [e, List.getElem?_eq_none (Nat.le_refl _), List.insertIdx_length_self, h.len,
      List.insertIdx_length_self] at this
    simpa [LL.step, Spec.step, addLast_eq] using this
  | add v =>
    refine ⟨rfl, ids ++ [o.heap.size], ?_⟩
    have := insert_spec o ids vals h ids.length v (by omega)
    have e : (if ids.length = 0 then none else ids[ids.length - 1]?) = o.last := by
      rw [h.last]; split
      · rename_i e0; simp [List.length_eq_zero_iff.mp e0]
      · rfl
    rw [e, List.getElem?_eq_none (Nat.le_refl _), List.insertIdx_length_self, h.len,
      List.insertIdx_length_self] at this
    simpa [LL.step, Spec.step, addLast_eq] using this
  | removeFirst =>
    simp only [LL.step, Spec.step, removeFirst, h.first]
    cases hx : ids[0]? with
    | none =>
      have : vals[0]? = none := by
        have := List.getElem?_eq_none_iff.mp hx
        exact List.getElem?_eq_none (by rw [← h.len]; exact this)
      simp only [this]
      exact ⟨rfl, ids, h⟩
    | some x =>
      obtain ⟨v, o', h1, h2, h3⟩ := removePos_refines h 0 x hx
      simp only [h1, h2]
      exact ⟨rfl, _, h3⟩
  | removeLast =>
    simp only [LL.step, Spec.step, removeLast, h.last]
    cases hx : ids[ids.length - 1]? with
    | none =>
      have : vals[vals.length - 1]? = none := by
        have := List.getElem?_eq_none_iff.mp hx
        exact List.getElem?_eq_none (by rw [← h.len]; exact this)
      simp only [this]
      exact ⟨rfl, ids, h⟩
    | some x =>
      obtain ⟨v, o', h1, h2, h3⟩ := removePos_refines h _ x hx
      rw [h.len] at h2 h3
      simp only [h1, h2]
      exact ⟨rfl, _, h3⟩
  | removeAt k =>
    simp only [LL.step, Spec.step, h.first]
    have hw := walk_spec h k 0 (by omega)
    simp only [Nat.zero_add] at hw
    by_cases hk : k < ids.length
    · have hx : ids[k]? = some ids[k] := List.getElem?_eq_getElem hk
      obtain ⟨v, o', h1, h2, h3⟩ := removePos_refines h k _ hx
      have : k ≤ ids.length := by omega
      simp only [hw, this, if_true, hx, h1, h2]
      exact ⟨rfl, _, h3⟩
    · have hv : vals[k]? = none := List.getElem?_eq_none (by rw [← h.len]; omega)
      simp only [hv]
      by_cases hk2 : k ≤ ids.length
      · have : ids[k]? = none := List.getElem?_eq_none (by omega)
        simp only [hw, hk2, if_true, this]
        exact ⟨trivial, ids, h⟩
      · simp only [hw, hk2, if_false]
        exact ⟨trivial, ids, h⟩
  | putBefore k v =>
    simp only [LL.step, Spec.step, h.first]
    have hw := walk_spec h k 0 (by omega)
    simp only [Nat.zero_add] at hw
    by_cases hk : k < ids.length
    · have hx : ids[k]? = some ids[k] := List.getElem?_eq_getElem hk
      obtain ⟨ns, hns, hnp, _, _⟩ := h.node k _ hx
      have hkv : k < vals.length := by rw [← h.len]; exact hk
      have : k ≤ ids.length := by omega
      simp only [hw, this, if_true, hx, putBefore_eq o v _ ns hns, hkv]
      refine ⟨trivial, ids.insertIdx k o.heap.size, ?_⟩
      have := insert_spec o ids vals h k v (by omega)
      rw [hx, ← hnp] at this
      exact this
    · have hkv : ¬ k < vals.length := by rw [← h.len]; exact hk
      simp only [hkv, if_false]
      by_cases hk2 : k ≤ ids.length
      · have : ids[k]? = none := List.getElem?_eq_none (by omega)
        simp only [hw, hk2, if_true, this]
        exact ⟨trivial, ids, h⟩
      · simp only [hw, hk2, if_false]
        exact ⟨trivial, ids, h⟩
  | clear => exact ⟨rfl, [], by simpa [LL.step, Spec.step] using Rep.clear o⟩
  | toArray =>
    refine ⟨?_, ids, by simpa [LL.step, Spec.step, toArray_spec h] using h⟩
    simp [LL.step, Spec.step, toArray_spec h, Function.comp_def]
  | size => exact ⟨by simp [LL.step, Spec.step, h.size, h.len], ids, by simpa [LL.step, Spec.step] using h⟩
  | first =>
    refine ⟨?_, ids, by
      simp only [LL.step, Spec.step]; split <;> exact h⟩
    simp only [LL.step, Spec.step, h.first, valueOf_spec h 0]
    cases vals[0]? <;> rfl
  | last =>
    refine ⟨?_, ids, by
      simp only [LL.step, Spec.step]; split <;> exact h⟩
    simp only [LL.step, Spec.step, h.last, valueOf_spec h, h.len]
    cases vals[vals.length - 1]? <;> rfl

theorem run_refines (ops : List Op) (o : LL) (ids : List Nat) (vals : List Int) (h : Rep o ids vals) :
    (LL.run ops o).1 = (Spec.run ops vals).1 := by
  induction ops generalizing o ids vals with
  | nil => rfl
  | cons op ops ih =>
    obtain ⟨h1, ids', h2⟩ := step_refines op o ids vals h
    simp only [LL.run, Spec.run, h1, ih _ _ _ h2]

theorem run_refines_empty (ops : List Op) :
    (LL.run ops LL.empty).1 = (Spec.run ops []).1 := run_refines ops _ _ _ Rep.empty

end Lists.Linked
