/-
  Golib.Lists.LinkedText — the text views of the linked list:

    LinkedList.ToString()         x := first; for i < size { if i > 0 {","}; x.ToString(); x = x.next }
    LinkedListEntity.ToString()   "" for a nil Value, fmt.Sprint(Value) otherwise (decimal for the
                                  integers the histories hold)

  and the fact the history theorems need: the representation invariant holds after every history.
-/
import Golib.Lists.LinkedProof
import Golib.Lists.Cross

namespace Lists.Linked

def sprint : Option Int → Bytes
  | none => []
  | some v => Cross.itoa v

def joinComma : List Bytes → Bytes
  | [] => []
  | [x] => x
  | x :: rest => x ++ [44] ++ joinComma rest

/-- `ToString()`: walks `size` steps as `ToArray()` does (a nil `next` inside is a nil dereference) -/
def LL.toStringL (o : LL) : Option Bytes := o.toArray.map (fun xs => joinComma (xs.map sprint))

/-- `e := GetFirst(); k × { e = GetNext(e) }; e.ToString()` — `none`: nil dereference -/
def LL.entityToString (o : LL) (k : Nat) : Option Bytes :=
  match walk o.heap o.first k with
  | some (some x) => some (sprint (o.valueOf (some x)))
  | _ => none

theorem run_rep (ops : List Op) (o : LL) (ids : List Nat) (vals : List Int) (h : Rep o ids vals) :
    ∃ ids', Rep (LL.run ops o).2 ids' (Spec.run ops vals).2 := by
  induction ops generalizing o ids vals with
  | nil => exact ⟨ids, h⟩
  | cons op ops ih =>
    obtain ⟨_, ids', h2⟩ := step_refines op o ids vals h
    simpa only [LL.run, Spec.run] using ih _ _ _ h2

theorem toStringL_spec {o : LL} {ids : List Nat} {vals : List Int} (h : Rep o ids vals) :
    o.toStringL = some (joinComma (vals.map Cross.itoa)) := by
  simp only [LL.toStringL, toArray_spec h, Option.map_some, List.map_map]
  rfl

theorem entityToString_spec {o : LL} {ids : List Nat} {vals : List Int} (h : Rep o ids vals) (k : Nat) :
    o.entityToString k = vals[k]?.map Cross.itoa := by
  have hw := walk_spec h k 0 (Nat.zero_le _)
  simp only [Nat.zero_add] at hw
  unfold LL.entityToString
  rw [h.first, hw]
  by_cases hk : k < ids.length
  · have hk' : k ≤ ids.length := by omega
    have hy : ids[k]? = some ids[k] := List.getElem?_eq_getElem hk
    have hv := valueOf_spec h k
    rw [hy] at hv
    have hkv : k < vals.length := by rw [← h.len]; exact hk
    simp only [hk', if_true, hy, hv, List.getElem?_eq_getElem hkv, Option.map_some, sprint]
  · have hnone : ids[k]? = none := List.getElem?_eq_none (by omega)
    have hvn : vals[k]? = none := List.getElem?_eq_none (by rw [← h.len]; omega)
    by_cases hk' : k ≤ ids.length
    · simp [hk', hnone, hvn]
    · simp [hk', hvn]

end Lists.Linked
