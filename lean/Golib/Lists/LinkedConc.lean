/-
  Golib.Lists.LinkedConc — LinkedList under its mutex, for every schedule.

  C10's mutex-object machine (`Golib/Conc/Mutex.lean`, owner C10: imported, not edited): any number
  of threads, a schedule is an arbitrary list of `inv / acq / load / store / rel / ret` actions, the
  body of an operation runs between `acq` and `rel`.  Instantiated with the pointer-level model of
  LinkedList.go (`Conc.Inst.llStep`) and C13's refinement (`Conc.Inst.list_simulates`), C10's
  `mutex_refines` gives: the linearization points of every reachable state are a legal sequential
  history of the deque.  Composed with `Linked.run_conserves`:

    for EVERY schedule, the elements in the list together with the elements handed out by Remove*
    are the elements added — nothing is lost or duplicated, whatever the interleaving.

  That the code is an instance of this machine — every public mutator takes `o.lock` first thing
  and releases it by `defer`, or does nothing but delegate to one that does — is a fact about the
  source, regenerated on every run (`Golib/Gen/Locks.lean`, `C13Gen.linkedlist_*_locked`).
-/
import Golib.Conc.Instances
import Golib.Conc.Refine
import Golib.Lists.LinkedAtomic

namespace Lists.Linked
open Conc Conc.Inst

/-- the operations of a linearization, in order -/
def opsOf (l : List (Nat × Op × Out)) : List Op := l.map (fun x => x.2.1)
/-- the results recorded for them -/
def outsOf (l : List (Nat × Op × Out)) : List Out := l.map (fun x => x.2.2)

theorem runAbs_is_run (l : List (Nat × Op × Out)) (s : List Int) :
    runAbs llSpec l s = (Spec.run (opsOf l) s).2 := by
  induction l generalizing s with
  | nil => rfl
  | cons x xs ih =>
    obtain ⟨t, op, r⟩ := x
    simp only [runAbs, opsOf, List.map_cons, Spec.run, llSpec] at *
    exact ih _

theorem legalAbs_is_run (l : List (Nat × Op × Out)) (s : List Int)
    (h : legalAbs llSpec (fun r r' => r = r') l s) : outsOf l = (Spec.run (opsOf l) s).1 := by
  induction l generalizing s with
  | nil => rfl
  | cons x xs ih =>
    obtain ⟨t, op, r⟩ := x
    obtain ⟨h1, h2⟩ := h
    simp only [outsOf, opsOf, List.map_cons, Spec.run, llSpec] at *
    rw [h1]
    exact congrArg _ (ih _ h2)

/-- **LinkedList under its lock, every schedule.**  From the empty list, after any schedule of the
    mutex-object machine over the pointer model: the heap represents some list `vals`; `vals` is
    what the deque holds after the linearized operations, the recorded results are the deque's; and
    if the operations are mutators, `vals` together with the handed-out elements is a permutation
    of the added elements. -/
theorem locked_conservation (sched : List (Act Op)) (s : St LL Op Out)
    (hs : runActs llStep (initSt LL.empty) sched = some s) :
    ∃ vals, ListRel s.sh vals ∧
      vals = (Spec.run (opsOf (linOps s.log)) []).2 ∧
      outsOf (linOps s.log) = (Spec.run (opsOf (linOps s.log)) []).1 ∧
      ((∀ op ∈ opsOf (linOps s.log), op.mutator = true) →
        (vals ++ ((outsOf (linOps s.log)).map Out.handedOut).flatten).Perm
          (((opsOf (linOps s.log)).map Op.added).flatten)) := by
  obtain ⟨_, hlegal, hrel⟩ := mutex_refines llStep llSpec ListRel (fun r r' => r = r')
    list_simulates LL.empty [] list_init sched s hs
  refine ⟨_, hrel, runAbs_is_run _ _, legalAbs_is_run _ _ hlegal, ?_⟩
  intro hm
  rw [runAbs_is_run, legalAbs_is_run _ _ hlegal]
  simpa using run_conserves (opsOf (linOps s.log)) [] hm

/-- … and at no moment are two threads inside a mutator body -/
theorem locked_mutual_exclusion (sched : List (Act Op)) (s : St LL Op Out)
    (hs : runActs llStep (initSt LL.empty) sched = some s) (t u : Nat)
    (ht : inCS (s.ph t)) (hu : inCS (s.ph u)) : t = u :=
  mutual_exclusion llStep LL.empty sched s hs t u ht hu

end Lists.Linked
