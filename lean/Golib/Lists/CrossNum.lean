/-
  Golib.Lists.CrossNum — the numeric cross-type methods of `AnyList` on IntList / LongList /
  FloatList / DoubleList (each is one Go conversion around the element operation):

    AddInt/AddLong/AddFloat/AddDouble(v)   add(T(v))
    SetInt/…(i, v)                          set(i, T(v))
    GetInt/GetLong/GetFloat/GetDouble(i)    U(get(i))

  and the views every list type has: GetValue(i) (the element wrapped in the value type of the
  list), GetObject(i) (always nil, no index check), ToString() (`fmt.Sprintf("%v", table)`: the WHOLE
  table, unused capacity included — modelled for the integer and string lists).
-/
import Golib.Basic
import Golib.Lists.Run
import Golib.Lists.Cross
import Golib.Lists.FloatConv

namespace Lists.CrossNum
open FloatConv

/-- a number of one of the three kinds: int64, float32 bits, float64 bits -/
inductive Num where
  | int (v : Int)
  | f32 (b : Nat)
  | f64 (b : Nat)
  deriving DecidableEq, Repr, Inhabited

inductive Kind where
  | int | f32 | f64
  deriving DecidableEq, Repr

def Kind.zero : Kind → Num
  | .int => .int 0
  | .f32 => .f32 0
  | .f64 => .f64 0

/-- the Go conversion of `x` to kind `k`; `none` where Go leaves the result open (float → int of
    NaN / Inf / out of int64) or for NaN inputs (excluded by the property's quantifier) -/
def conv (k : Kind) (x : Num) : Option Num :=
  match k, x with
  | .int, .int v => some (.int v)
  | .int, .f32 b => (fToInt FloatConv.f32 b).map .int
  | .int, .f64 b => (fToInt FloatConv.f64 b).map .int
  | .f32, .int v => some (.f32 (intToF FloatConv.f32 v))
  | .f32, .f32 b => some (.f32 b)
  | .f32, .f64 b => (fToF FloatConv.f64 FloatConv.f32 b).map .f32
  | .f64, .int v => some (.f64 (intToF FloatConv.f64 v))
  | .f64, .f32 b => (fToF FloatConv.f32 FloatConv.f64 b).map .f64
  | .f64, .f64 b => some (.f64 b)

inductive NOp where
  | add (x : Num)                 -- AddInt / AddLong / AddFloat / AddDouble by the kind of x
  | set (i : Int) (x : Num)
  | get (i : Int) (as : Kind)     -- GetInt / GetLong / GetFloat / GetDouble
  | getValue (i : Int)
  | getObject (i : Int)
  | toArray

inductive NOut where
  | unit
  | panic
  | excluded                       -- an input outside the modelled domain (never generated)
  | num (x : Num)
  | value (tag : String) (x : Num) -- GetValue: DecimalValue / FloatValue / DoubleValue
  | nil
  | nums (xs : List Num)
  deriving DecidableEq, Repr

def valueTag : Kind → String
  | .int => "decimal"
  | .f32 => "float"
  | .f64 => "double"

def orPanic (l : TL Num) : Option (TL Num) → NOut × TL Num
  | some l' => (.unit, l')
  | none => (.panic, l)

/-- one method call on a list of kind `k` -/
def step (g : Growth) (k : Kind) (op : NOp) (l : TL Num) : NOut × TL Num :=
  match op with
  | .add x => match conv k x with
    | some y => orPanic l (TL.add g k.zero y l)
    | none => (.excluded, l)
  | .set i x => match conv k x with
    | some y => orPanic l (TL.set l i y)
    | none => (.excluded, l)
  | .get i as => match TL.get l i with
    | some y => match conv as y with
      | some r => (.num r, l)
      | none => (.excluded, l)
    | none => (.panic, l)
  | .getValue i => match TL.get l i with
    | some y => (.value (valueTag k) y, l)
    | none => (.panic, l)
  | .getObject _ => (.nil, l)
  | .toArray => (.nums (TL.toArray l), l)

def spec (k : Kind) (op : NOp) (s : List Num) : NOut × List Num :=
  match op with
  | .add x => match conv k x with
    | some y => (.unit, s ++ [y])
    | none => (.excluded, s)
  | .set i x => match conv k x with
    | some y => if 0 ≤ i ∧ i < s.length then (.unit, s.set i.toNat y) else (.panic, s)
    | none => (.excluded, s)
  | .get i as => match Spec.get s i with
    | some y => match conv as y with
      | some r => (.num r, s)
      | none => (.excluded, s)
    | none => (.panic, s)
  | .getValue i => match Spec.get s i with
    | some y => (.value (valueTag k) y, s)
    | none => (.panic, s)
  | .getObject _ => (.nil, s)
  | .toArray => (.nums s, s)

theorem step_refines (g : Growth) (hg : g.OK) (k : Kind) (op : NOp) (l : TL Num) (hi : TL.Inv l)
    (hb : (TL.abs l).length + 1 ≤ TL.BOUND) :
    (step g k op l).1 = (spec k op (TL.abs l)).1 ∧ TL.abs (step g k op l).2 = (spec k op (TL.abs l)).2 ∧
    TL.Inv (step g k op l).2 := by
  have hget : ∀ i, TL.get l i = Spec.get (TL.abs l) i := fun i => by rw [TL.get_spec l i hi]; rfl
  cases op with
  | add x =>
    simp only [step, spec]
    cases conv k x with
    | none => exact ⟨rfl, rfl, hi⟩
    | some y =>
      rw [TL.abs_length hi] at hb
      obtain ⟨l', h1, h2, h3⟩ := TL.add_spec g hg k.zero y l hi hb
      simp [h1, orPanic, h2, h3]
  | set i x =>
    simp only [step, spec]
    cases conv k x with
    | none => exact ⟨rfl, rfl, hi⟩
    | some y =>
      have hs := TL.set_spec l i y hi
      by_cases hr : 0 ≤ i ∧ i < ((TL.abs l).length : Int)
      · obtain ⟨l', h1, h2, h3⟩ := hs.1 hr
        simp [h1, orPanic, h2, h3, hr]
      · simp [hs.2 hr, orPanic, hi, hr]
  | get i as =>
    simp only [step, spec, hget]
    split
    · split <;> exact ⟨rfl, rfl, hi⟩
    · exact ⟨rfl, rfl, hi⟩
  | getValue i => simp only [step, spec, hget]; split <;> exact ⟨rfl, rfl, hi⟩
  | getObject i => exact ⟨rfl, rfl, hi⟩
  | toArray => exact ⟨rfl, rfl, hi⟩

def run (g : Growth) (k : Kind) : List NOp → TL Num → List NOut → List NOut
  | [], _, acc => acc.reverse
  | op :: ops, l, acc => let r := step g k op l; run g k ops r.2 (r.1 :: acc)

/-- conversions to the own kind are the identity; a value that went in through a conversion comes
    out of the matching getter unchanged -/
theorem conv_idem (k : Kind) (x y : Num) (h : conv k x = some y) : conv k y = some y := by
  cases k <;> cases x <;> simp only [conv, Option.map_eq_some_iff, Option.some.injEq] at h <;>
    first
      | (subst h; rfl)
      | (obtain ⟨_, _, rfl⟩ := h; rfl)

/-! ### ToString: `fmt.Sprintf("%v", this.table)` -/

def joinSp : List Bytes → Bytes
  | [] => []
  | [x] => x
  | x :: rest => x ++ [32] ++ joinSp rest

/-- IntList / LongList: every table slot in decimal, unused capacity (zeros) included -/
def toStringInts (l : TL Int) : Bytes := [91] ++ joinSp (l.table.toList.map Cross.itoa) ++ [93]

/-- StringList: every table slot as it is, unused capacity (empty strings) included -/
def toStringStrs (l : TL Bytes) : Bytes := [91] ++ joinSp l.table.toList ++ [93]

/-- ToString shows exactly the sequence iff the table has no spare capacity -/
theorem toStringInts_full (l : TL Int) (h : l.table.size = l.size) :
    toStringInts l = [91] ++ joinSp ((TL.abs l).map Cross.itoa) ++ [93] := by
  have : l.table.toList.take l.size = l.table.toList := by
    rw [← h]; exact List.take_of_length_le (by simp)
  simp [toStringInts, TL.abs, this]

end Lists.CrossNum
