/-
  Golib.Lists.FloatConv — Go's numeric conversions between int64, float32 and float64 on IEEE-754
  bit patterns, as the cross-type methods of the typed lists use them
  (`float64(v)`, `float32(v)`, `int(x)`, `int64(x)`).

    decode   bits ↦ (sign, m, e) with value ±m·2^e        (finite values; Inf / NaN → none)
    encode   ±m·2^e ↦ bits, rounded to nearest, ties to even; subnormals; overflow → ±Inf
    intToF   int64 → float            float64(v) / float32(v)
    fToF     float → float            float32(x) / float64(x)      (NaN excluded: the quiet-bit
                                       treatment of payloads is hardware business)
    fToInt   float → int64, truncation toward zero.  EXCLUDED (none): NaN, ±Inf and every value whose
             truncation is outside int64 — the Go specification leaves the result
             implementation-dependent there ("if the value cannot be represented by the type the
             result is implementation-dependent"); the harness never sends such inputs.
-/
namespace Lists.FloatConv

structure Fmt where
  ebits : Nat
  mbits : Nat

def f32 : Fmt := ⟨8, 23⟩
def f64 : Fmt := ⟨11, 52⟩

def Fmt.bias (f : Fmt) : Nat := 2 ^ (f.ebits - 1) - 1
def Fmt.signBit (f : Fmt) : Nat := 2 ^ (f.ebits + f.mbits)
def Fmt.inf (f : Fmt) : Nat := (2 ^ f.ebits - 1) * 2 ^ f.mbits
/-- exponent of the unit in the last place of subnormals -/
def Fmt.qmin (f : Fmt) : Int := 1 - (f.bias : Int) - (f.mbits : Int)

/-- a finite value as (negative?, m, e): ±m·2^e -/
def decode (f : Fmt) (bits : Nat) : Option (Bool × Nat × Int) :=
  let neg := bits / f.signBit % 2 == 1
  let ex := bits / 2 ^ f.mbits % 2 ^ f.ebits
  let man := bits % 2 ^ f.mbits
  if ex == 2 ^ f.ebits - 1 then none
  else if ex == 0 then some (neg, man, f.qmin)
  else some (neg, man + 2 ^ f.mbits, (ex : Int) - (f.bias : Int) - (f.mbits : Int))

def isNaN (f : Fmt) (bits : Nat) : Bool :=
  bits / 2 ^ f.mbits % 2 ^ f.ebits == 2 ^ f.ebits - 1 && bits % 2 ^ f.mbits != 0

/-- `m / 2^k` rounded to nearest, ties to even -/
def shiftRNE (m k : Nat) : Nat :=
  if k = 0 then m else
  let q := m / 2 ^ k
  let r := m % 2 ^ k
  let half := 2 ^ (k - 1)
  if r > half || (r == half && q % 2 == 1) then q + 1 else q

def encode (f : Fmt) (neg : Bool) (m : Nat) (e : Int) : Nat :=
  let s := if neg then f.signBit else 0
  if m = 0 then s else
  let L : Int := (Nat.log2 m + 1 : Nat)
  let E : Int := e + L - 1                                  -- exponent of the leading bit
  let q0 : Int := max (E - (f.mbits : Int)) f.qmin          -- exponent of the last kept bit
  let M0 := if e ≥ q0 then m * 2 ^ (e - q0).toNat else shiftRNE m (q0 - e).toNat
  let carry := M0 ≥ 2 ^ (f.mbits + 1)                        -- rounding reached the next binade
  let M := if carry then M0 / 2 else M0
  let q : Int := if carry then q0 + 1 else q0
  if M < 2 ^ f.mbits then s + M                              -- subnormal
  else
    let ef : Int := q + (f.mbits : Int) + (f.bias : Int)
    if ef ≥ ((2 ^ f.ebits - 1 : Nat) : Int) then s + f.inf  -- overflow → ±Inf
    else s + ef.toNat * 2 ^ f.mbits + (M - 2 ^ f.mbits)

/-- `float64(v)` / `float32(v)` for an int64 `v` -/
def intToF (f : Fmt) (v : Int) : Nat := encode f (decide (v < 0)) v.natAbs 0

/-- `float32(x)` / `float64(x)`; `none` for NaN -/
def fToF (src dst : Fmt) (bits : Nat) : Option Nat :=
  if isNaN src bits then none
  else match decode src bits with
    | some (neg, m, e) => some (encode dst neg m e)
    | none => some ((if bits / src.signBit % 2 == 1 then dst.signBit else 0) + dst.inf)

/-- `int64(x)` / `int(x)`: truncation toward zero; `none` where Go leaves the result open -/
def fToInt (f : Fmt) (bits : Nat) : Option Int :=
  match decode f bits with
  | none => none
  | some (neg, m, e) =>
    let mag : Nat := if e ≥ 0 then m * 2 ^ e.toNat else m / 2 ^ (-e).toNat
    let v : Int := if neg then -(mag : Int) else (mag : Int)
    if -9223372036854775808 ≤ v ∧ v ≤ 9223372036854775807 then some v else none

/-! a few fixed points of the definitions (the conversions are tied to Go by the harness on
    boundary-rich inputs; these pin the conventions) -/

example : intToF f64 1 = 0x3ff0000000000000 ∧ intToF f64 (-2) = 0xc000000000000000 ∧
    intToF f64 9007199254740993 = 0x4340000000000000 ∧ intToF f64 9007199254740995 = 0x4340000000000002 ∧
    intToF f32 16777217 = 0x4b800000 ∧ intToF f32 16777219 = 0x4b800002 ∧
    intToF f64 9223372036854775807 = 0x43e0000000000000 ∧ intToF f64 0 = 0 := by decide

example : fToInt f64 0xbff8000000000000 = some (-1) ∧ fToInt f64 0x8000000000000000 = some 0 ∧
    fToInt f64 0x43e0000000000000 = none ∧ fToInt f64 0xc3e0000000000000 = some (-9223372036854775808) ∧
    fToInt f32 0x3f7fffff = some 0 ∧ fToInt f64 0x7ff0000000000000 = none ∧
    fToInt f64 0x0000000000000001 = some 0 := by decide +kernel

example : fToF f64 f32 0x7e37e43c8800759c = some 0x7f800000 ∧      -- 1e300 → +Inf
    fToF f32 f64 1 = some 0x36a0000000000000 ∧                      -- smallest float32 subnormal, exact
    fToF f64 f32 0x36a0000000000000 = some 1 ∧
    fToF f64 f32 0x3690000000000000 = some 0 ∧                      -- half of it: tie → even (0)
    fToF f64 f32 0x3690000000000001 = some 1 ∧
    fToF f64 f32 0x3ff0000010000000 = some 0x3f800000 ∧            -- tie → even
    fToF f64 f32 0x3ff0000030000000 = some 0x3f800002 ∧
    fToF f64 f32 0x47efffffffffffff = some 0x7f800000 ∧            -- just below 2^128: rounds up to Inf
    fToF f32 f64 0x80000000 = some 0x8000000000000000 ∧
    fToF f32 f64 0xff800000 = some 0xfff0000000000000 ∧
    fToF f64 f32 0x7ff8000000000000 = none := by decide +kernel

end Lists.FloatConv
