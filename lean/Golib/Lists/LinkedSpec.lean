/-
  Golib.Lists.LinkedSpec — Spec of util/list/LinkedList.go: a deque on a plain list.
  Entities (`*LinkedListEntity` handles) are addressed by their position from the front,
  which is how a caller obtains them (`GetFirst` followed by `GetNext`).
-/
namespace Lists.Linked

inductive Op where
  | addFirst (v : Int)
  | addLast (v : Int)
  | add (v : Int)                       -- Add(v) = AddLast(v); returns true
  | removeFirst
  | removeLast
  | removeAt (k : Nat)                  -- Remove(e) for the entity k steps after GetFirst()
  | putBefore (k : Nat) (v : Int)       -- PutBefore(v, e) for that entity
  | clear
  | toArray
  | size
  | first                               -- GetFirst().Value
  | last                                -- GetLast().Value

inductive Out where
  | unit
  | panic
  | val (v : Int)
  | none_                                -- nil
  | size (n : Nat)
  | arr (xs : List Int)
  deriving DecidableEq, Repr

namespace Spec

def step (op : Op) (s : List Int) : Out × List Int :=
  match op with
  | .addFirst v => (.unit, v :: s)
  | .addLast v => (.unit, s ++ [v])
  | .add v => (.unit, s ++ [v])
  | .removeFirst => match s[0]? with
    | none => (.none_, s)
    | some v => (.val v, s.eraseIdx 0)
  | .removeLast => match s[s.length - 1]? with
    | none => (.none_, s)
    | some v => (.val v, s.eraseIdx (s.length - 1))
  | .removeAt k => match s[k]? with
    | none => (.panic, s)                     -- no such entity: the walk dereferences nil
    | some v => (.val v, s.eraseIdx k)
  | .putBefore k v => if k < s.length then (.unit, s.insertIdx k v) else (.panic, s)
  | .clear => (.unit, [])
  | .toArray => (.arr s, s)
  | .size => (.size s.length, s)
  | .first => match s[0]? with
    | none => (.none_, s)
    | some v => (.val v, s)
  | .last => match s[s.length - 1]? with
    | none => (.none_, s)
    | some v => (.val v, s)

def run : List Op → List Int → List Out × List Int
  | [], s => ([], s)
  | op :: ops, s =>
    let r := step op s
    let rs := run ops r.2
    (r.1 :: rs.1, rs.2)

end Spec
end Lists.Linked
