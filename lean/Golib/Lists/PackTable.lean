/-
  Golib.Lists.PackTable — the lazy table of lang/pack/StatGeneralPack.go, as the code has it:
  three fields — `dataBytes` (the encoded table: what `Read` stored or what `Write` cached),
  `dataBytesSize`, `data` (the in-memory table) — and the methods that move between them.

    Read            dataBytes := the table bytes of the input; `data` is left as it is
    unpack          if len(dataBytes) > 0 { readTable(dataBytes, data); dataBytes = nil; size = 0 }
                    — the wire columns are PUT into the in-memory table: a key that is already there
                    is replaced in place by the wire column, new keys go last
    Get / GetDataTable   unpack first;   Put / Sort / SortAnyList   do NOT unpack
    Write           if data.Size() > 0 && len(dataBytes) == 0 { dataBytes = writeTable(data) }   (a cache)
                    then emits dataBytesSize and dataBytes
    IsEmpty         dataBytesSize == 0 && data.IsEmpty()

  (C04's `Golib/FailClosed/Lazy.lean` models the failing side of the same `unpack` — damaged bytes
  are kept so that every later access fails too; here only decodable tables occur and the
  interest is in histories mixing wire state and in-memory edits.)
-/
import Golib.Lists.TableWire

namespace Lists.PackTable
open Table

structure St where
  raw : Bytes          -- dataBytes
  rawSize : Nat        -- dataBytesSize
  table : T            -- data

def empty : St := { raw := [], rawSize := 0, table := [] }

/-- `unpack`; `none` = readTable panicked (bytes kept, as in FailClosed.Lazy) -/
def unpack (g : Growth) (s : St) : Option St :=
  if s.raw.isEmpty then some s
  else match P.run (readTable g s.table) s.raw with
    | some (t, _) => some { raw := [], rawSize := 0, table := t }
    | none => none

def read (s : St) (tableBytes : Bytes) : St :=
  { s with raw := tableBytes, rawSize := tableBytes.length }

def put (s : St) (k : Bytes) (c : Col) : St := { s with table := Table.put s.table k c }

/-- `Write`: the state afterwards (cache filled) and the table bytes emitted with their length field -/
def write (s : St) : St × (Nat × Bytes) :=
  let s' : St :=
    if !s.table.isEmpty && s.raw.isEmpty then
      { s with raw := writeTable s.table, rawSize := (writeTable s.table).length }
    else s
  (s', (s'.rawSize, s'.raw))

def isEmpty (s : St) : Bool := s.rawSize == 0 && s.table.isEmpty

/-- `Get(key)`: unpack, then the column (absent key: the nil interface conversion panics) -/
def get (g : Growth) (s : St) (k : Bytes) : Option (St × Col) :=
  match unpack g s with
  | none => none
  | some s' => (Table.get s'.table k).map (fun c => (s', c))

/-- `Get(key)` followed by a mutation of the list it returned (the pack holds the same object) -/
def getEdit (g : Growth) (s : St) (k : Bytes) (f : Col → Option Col) : Option St :=
  match get g s k with
  | none => none
  | some (s', c) => match f c with
    | none => none
    | some c' => some { s' with table := Table.put s'.table k c' }

def sort (srt : Sort.SortFn) (g : Growth) (s : St) (k : Bytes) (asc : Bool) : Option St :=
  (sortTable srt g s.table k asc).map (fun t => { s with table := t })

def sortAny (srt : Sort.SortFn) (g : Growth) (s : St) (k : Bytes) (asc : Bool) (k2 : Bytes) (asc2 : Bool) :
    Option St :=
  (sortAnyTable srt g s.table k asc k2 asc2).map (fun t => { s with table := t })

/-- `Iterate(h)`: unpack; nothing for an empty table; otherwise `h(keys, lists, i)` for every `i`
    below the size of the FIRST column.  The answer: the keys handed over and the number of calls. -/
def iterate (g : Growth) (s : St) : Option (St × Option (List Bytes × Nat)) :=
  match unpack g s with
  | none => none
  | some s' => match s'.table with
    | [] => some (s', none)
    | e :: _ => some (s', some (s'.table.map (fun x => x.1), e.2.l.size))

/-- what `ToString()` shows of the lazy state: `data.Size()`, `dataBytesSize`, `len(dataBytes)` -/
def sizes (s : St) : Nat × Nat × Nat := (s.table.length, s.rawSize, s.raw.length)

/-! ### what the histories rely on -/

/-- Write with an empty cache encodes the CURRENT in-memory table -/
theorem write_current (s : St) (h1 : s.raw = []) (h2 : s.table ≠ []) :
    (write s).2 = ((writeTable s.table).length, writeTable s.table) := by
  cases ht : s.table with
  | nil => exact absurd ht h2
  | cons e r => simp [write, h1, ht]

/-- Write with a filled cache re-emits the cache, whatever was Put or edited in memory since:
    only an `unpack` (Get / GetDataTable / Iterate) empties the cache -/
theorem write_cached (s : St) (h : s.raw ≠ []) : (write s).2 = (s.rawSize, s.raw) ∧ (write s).1 = s := by
  cases hr : s.raw with
  | nil => exact absurd hr h
  | cons b r => simp [write, hr]

/-- after an unpack the cache is empty, so the next Write encodes the current table -/
theorem unpack_clears_cache (g : Growth) (s s' : St) (h : unpack g s = some s') : s'.raw = [] := by
  unfold unpack at h
  split at h
  · rename_i he
    cases h
    cases hr : s.raw with
    | nil => rfl
    | cons _ _ => rw [hr] at he; simp at he
  · split at h
    · cases h; rfl
    · cases h

/-- Iterate is an unpacking access: it leaves the state `unpack` leaves (cache empty), hands over the
    keys of the merged table and calls once per row of the first column -/
theorem iterate_spec (g : Growth) (s s' : St) (r : Option (List Bytes × Nat)) (h : iterate g s = some (s', r)) :
    unpack g s = some s' ∧ s'.raw = [] ∧
    r = (match s'.table with
      | [] => none
      | e :: _ => some (s'.table.map (fun x => x.1), e.2.l.size)) := by
  unfold iterate at h
  cases hu : unpack g s with
  | none => simp [hu] at h
  | some u =>
    simp only [hu] at h
    cases ht : u.table with
    | nil =>
      simp only [ht, Option.some.injEq, Prod.mk.injEq] at h
      obtain ⟨h1, h2⟩ := h
      subst h1; subst h2
      exact ⟨rfl, unpack_clears_cache g s u hu, by simp [ht]⟩
    | cons e rest =>
      simp only [ht, Option.some.injEq, Prod.mk.injEq] at h
      obtain ⟨h1, h2⟩ := h
      subst h1; subst h2
      exact ⟨rfl, unpack_clears_cache g s u hu, by simp [ht]⟩

theorem put_keeps_wire (s : St) (k : Bytes) (c : Col) : (put s k c).raw = s.raw ∧ (put s k c).rawSize = s.rawSize :=
  ⟨rfl, rfl⟩

theorem unpack_of_run (g : Growth) (s : St) (t : T) (r : Bytes) (h1 : s.raw.isEmpty = false)
    (h2 : P.run (readTable g s.table) s.raw = some (t, r)) :
    unpack g s = some { raw := [], rawSize := 0, table := t } := by
  unfold unpack
  rw [h1, h2]
  rfl

/-- **Read → (Put other columns) → Get / GetDataTable sees the wire columns.**  A pack whose
    in-memory table is `m` and whose `dataBytes` hold the encoding of `w` (keys of `w` pairwise
    distinct and different from those of `m`): unpack succeeds and the table is `m` followed by `w`
    — keys, types and contents. -/
theorem unpack_merges (g : Growth) (hg : g.OK) (m w : T) (sz : Nat)
    (hn : w.length ≤ 32767) (hw : ∀ e ∈ w, WFEntry e)
    (hd : w.Pairwise (fun a b => (a.1 == b.1) = false))
    (hf : ∀ a ∈ m, ∀ e ∈ w, (a.1 == e.1) = false) :
    ∃ s', unpack g { raw := writeTable w, rawSize := sz, table := m } = some s' ∧
      s'.raw = [] ∧ s'.rawSize = 0 ∧ absT s'.table = absT m ++ absT w := by
  obtain ⟨es', h1, h2, _⟩ := run_readEntries g hg w m [] hw hd hf
  have hrun : P.run (readTable g m) (writeTable w) = some (m ++ es', []) := by
    unfold readTable writeTable
    rw [P.run_bind_some _ _ _ _ _ (by
      have := Prim.run_rdI 2 (w.length : Int) (writeEntries w) ((Prim.inRange_2 _).mpr (by omega))
      exact this)]
    simpa using h1
  have hne' : (writeTable w).isEmpty = false := by
    unfold writeTable
    cases hq : Prim.encI 2 (w.length : Int) with
    | nil => have := Prim.encI_length 2 (w.length : Int); rw [hq] at this; simp at this
    | cons _ _ => rfl
  refine ⟨{ raw := [], rawSize := 0, table := m ++ es' }, ?_, rfl, rfl, ?_⟩
  · exact unpack_of_run g _ _ [] hne' hrun
  · show absT (m ++ es') = absT m ++ absT w
    unfold absT at h2 ⊢
    rw [List.map_append, h2]

/-! ### the merge in general (keys may collide) -/

/-- `Put` on plain columns -/
def aput : AT → Bytes × Nat × List V → AT
  | [], e => [e]
  | (k, x) :: r, e => if k == e.1 then e :: r else (k, x) :: aput r e

theorem absT_put (t : T) (k : Bytes) (c : Col) :
    absT (Table.put t k c) = aput (absT t) (k, c.ty, TL.abs c.l) := by
  induction t with
  | nil => rfl
  | cons e r ih =>
    obtain ⟨k', c'⟩ := e
    simp only [Table.put, absT, List.map_cons, aput]
    split
    · rename_i h
      have e1 : k' = k := by simpa using h
      subst e1; rfl
    · simp only [List.map_cons]; exact congrArg _ ih

theorem absT_putAll (acc es : T) :
    absT (putAll acc es) = (absT es).foldl aput (absT acc) := by
  induction es generalizing acc with
  | nil => rfl
  | cons e rest ih =>
    simp only [putAll, List.foldl_cons, absT, List.map_cons] at ih ⊢
    rw [ih (Table.put acc e.1 e.2)]
    congr 1
    exact absT_put acc e.1 e.2

/-- **unpack, in general.**  Whatever the in-memory table `m` holds and whatever keys the wire table
    `w` has (colliding with `m`, or repeated): unpack succeeds, empties the byte cache, and the
    table is `m` with the columns of `w` PUT one after the other — a colliding key is replaced in
    place by the wire column, new keys go last. -/
theorem unpack_general (g : Growth) (hg : g.OK) (m w : T) (sz : Nat)
    (hn : w.length ≤ 32767) (hw : ∀ e ∈ w, WFEntry e) :
    ∃ s', unpack g { raw := writeTable w, rawSize := sz, table := m } = some s' ∧
      s'.raw = [] ∧ s'.rawSize = 0 ∧ absT s'.table = (absT w).foldl aput (absT m) := by
  obtain ⟨es', h1, h2, _⟩ := run_readTable_gen g hg w m [] hn hw
  have hne' : (writeTable w).isEmpty = false := by
    unfold writeTable
    cases hq : Prim.encI 2 (w.length : Int) with
    | nil => have := Prim.encI_length 2 (w.length : Int); rw [hq] at this; simp at this
    | cons _ _ => rfl
  rw [List.append_nil] at h1
  refine ⟨{ raw := [], rawSize := 0, table := putAll m es' }, unpack_of_run g _ _ [] hne' h1, rfl, rfl, ?_⟩
  show absT (putAll m es') = _
  rw [absT_putAll, h2]

end Lists.PackTable
