/-
  Golib.Lists.Multi — histories over SEVERAL live objects: a pool of typed lists (slots 0,1,2,…)
  and a pool of Go slices handed in and out (`AddAllArray(arr)`, `arr = ToArray()`).

  In the model lists and slices are values: an operation on one object cannot reach another.
  That *is* the specification ("no aliasing"): `AddAll(other)` copies, `AddAllArray(arr)` copies,
  `ToArray()` and `Filtering` return fresh storage.  The frame theorems below state it; tie B checks
  it on the implementation by comparing ALL live objects with this model after every operation.
-/
import Golib.Lists.Run

namespace Lists.Multi
variable {α : Type}

inductive MOp (α : Type) where
  | newList (j : Nat) (cap : Option Nat)      -- slot j := new(XList) (none) / NewXList(cap)
  | add (j : Nat) (v : α)                      -- lists[j].AddX(v)
  | addAllArray (j k : Nat)                    -- lists[j].AddAllArray(arrs[k])
  | addAll (j k : Nat)                         -- lists[j].AddAll(lists[k])     (k = j: AddAll(this))
  | set (j : Nat) (i : Int) (v : α)            -- lists[j].SetX(i, v)
  | get (j : Nat) (i : Int)                    -- lists[j].GetX(i)
  | toArray (j k : Nat)                        -- arrs[k] = lists[j].ToArray()
  | arr (k : Nat) (xs : List α)                -- arrs[k] = []X{…}
  | arrSet (k : Nat) (i : Nat) (v : α)         -- arrs[k][i] = v   (the caller writes into its slice)
  | filtering (dst src : Nat) (idx : List Int) -- lists[dst] = lists[src].Filtering(idx)
  | sortScribble (j : Nat)                     -- p := lists[j].Sorting(..); overwrite p — no list may change

/-- the list slot an op may change (none: it changes no list) -/
def MOp.targetList : MOp α → Option Nat
  | .newList j _ => some j
  | .add j _ => some j
  | .addAllArray j _ => some j
  | .addAll j _ => some j
  | .set j _ _ => some j
  | .filtering dst _ _ => some dst
  | _ => none

/-- the slice slot an op may change -/
def MOp.targetArr : MOp α → Option Nat
  | .toArray _ k => some k
  | .arr k _ => some k
  | .arrSet k _ _ => some k
  | _ => none

def upd {β : Type} (f : Nat → β) (j : Nat) (x : β) : Nat → β := fun i => if i = j then x else f i

@[simp] theorem upd_same {β : Type} (f : Nat → β) (j : Nat) (x : β) : upd f j x j = x := by simp [upd]
theorem upd_other {β : Type} (f : Nat → β) (j i : Nat) (x : β) (h : i ≠ j) : upd f j x i = f i := by
  simp [upd, h]

/-! ### CodeModel -/

structure MState (α : Type) where
  lists : Nat → TL α
  arrs : Nat → List α

def MState.init : MState α := { lists := fun _ => TL.zeroValue, arrs := fun _ => [] }

def setList (st : MState α) (j : Nat) : Option (TL α) → Out α × MState α
  | some l => (.unit, { st with lists := upd st.lists j l })
  | none => (.panic, st)

def step (g : Growth) (z : α) (op : MOp α) (st : MState α) : Out α × MState α :=
  match op with
  | .newList j none => (.unit, { st with lists := upd st.lists j TL.zeroValue })
  | .newList j (some cap) => (.unit, { st with lists := upd st.lists j (TL.mk' z cap) })
  | .add j v => setList st j (TL.add g z v (st.lists j))
  | .addAllArray j k => setList st j (TL.addAllArray g z (st.arrs k) (st.lists j))
  | .addAll j k =>
    if k = j then setList st j (TL.addAllSelf g z (st.lists j))
    else setList st j (TL.addAll g z (st.lists k) (st.lists j))
  | .set j i v => setList st j (TL.set (st.lists j) i v)
  | .get j i => match TL.get (st.lists j) i with
    | some v => (.val v, st)
    | none => (.panic, st)
  | .toArray j k => (.unit, { st with arrs := upd st.arrs k (TL.toArray (st.lists j)) })
  | .arr k xs => (.unit, { st with arrs := upd st.arrs k xs })
  | .arrSet k i v =>
    if i < (st.arrs k).length then (.unit, { st with arrs := upd st.arrs k ((st.arrs k).set i v) })
    else (.panic, st)
  | .filtering dst src idx => setList st dst (TL.filtering g z (st.lists src) idx)
  | .sortScribble _ => (.unit, st)

/-! ### no aliasing: an op changes at most its own target -/

theorem setList_frame (st : MState α) (j : Nat) (r : Option (TL α)) (i : Nat) (h : i ≠ j) :
    (setList st j r).2.lists i = st.lists i := by
  cases r <;> simp [setList, upd_other, h]

theorem setList_arrs (st : MState α) (j : Nat) (r : Option (TL α)) :
    (setList st j r).2.arrs = st.arrs := by
  cases r <;> rfl

/-- **list frame.**  Every list other than the op's target is, after the op, the very same value
    (content, size and capacity) — in particular the source of `AddAll` / `Filtering` and every
    bystander. -/
theorem list_frame (g : Growth) (z : α) (op : MOp α) (st : MState α) (i : Nat)
    (h : op.targetList ≠ some i) : (step g z op st).2.lists i = st.lists i := by
  cases op with
  | newList j c =>
    have : i ≠ j := fun e => h (by simp [MOp.targetList, e])
    cases c <;> simp [step, upd_other, this]
  | add j v => exact setList_frame _ _ _ _ (fun e => h (by simp [MOp.targetList, e]))
  | addAllArray j k => exact setList_frame _ _ _ _ (fun e => h (by simp [MOp.targetList, e]))
  | addAll j k =>
    have : i ≠ j := fun e => h (by simp [MOp.targetList, e])
    simp only [step]; split <;> exact setList_frame _ _ _ _ this
  | set j i' v => exact setList_frame _ _ _ _ (fun e => h (by simp [MOp.targetList, e]))
  | get j i' => simp only [step]; split <;> rfl
  | toArray j k => rfl
  | arr k xs => rfl
  | arrSet k i' v => simp only [step]; split <;> rfl
  | filtering dst src idx => exact setList_frame _ _ _ _ (fun e => h (by simp [MOp.targetList, e]))
  | sortScribble j => rfl

/-- **slice frame.**  A slice the caller holds changes only when the caller assigns or writes it:
    no list operation reaches a slice handed in (`AddAllArray`) or out (`ToArray`) earlier. -/
theorem arr_frame (g : Growth) (z : α) (op : MOp α) (st : MState α) (k : Nat)
    (h : op.targetArr ≠ some k) : (step g z op st).2.arrs k = st.arrs k := by
  cases op with
  | newList j c => cases c <;> rfl
  | add j v => rw [step, setList_arrs]
  | addAllArray j k' => rw [step, setList_arrs]
  | addAll j k' => simp only [step]; split <;> rw [setList_arrs]
  | set j i v => rw [step, setList_arrs]
  | get j i => simp only [step]; split <;> rfl
  | toArray j k' =>
    have : k ≠ k' := fun e => h (by simp [MOp.targetArr, e])
    simp [step, upd_other, this]
  | arr k' xs =>
    have : k ≠ k' := fun e => h (by simp [MOp.targetArr, e])
    simp [step, upd_other, this]
  | arrSet k' i v =>
    have : k ≠ k' := fun e => h (by simp [MOp.targetArr, e])
    simp only [step]; split
    · simp [upd_other, this]
    · rfl
  | filtering dst src idx => rw [step, setList_arrs]
  | sortScribble j => rfl

/-- writing into a caller's slice never changes a list -/
theorem arrSet_keeps_lists (g : Growth) (z : α) (k i : Nat) (v : α) (st : MState α) :
    (step g z (.arrSet k i v) st).2.lists = st.lists := by
  simp only [step]; split <;> rfl

/-! ### Spec: every object is a plain sequence of its own -/

structure SState (α : Type) where
  lists : Nat → List α
  arrs : Nat → List α

def SState.init : SState α := { lists := fun _ => [], arrs := fun _ => [] }

def sstep (op : MOp α) (s : SState α) : Out α × SState α :=
  match op with
  | .newList j _ => (.unit, { s with lists := upd s.lists j [] })
  | .add j v => (.unit, { s with lists := upd s.lists j (s.lists j ++ [v]) })
  | .addAllArray j k => (.unit, { s with lists := upd s.lists j (s.lists j ++ s.arrs k) })
  | .addAll j k => (.unit, { s with lists := upd s.lists j (s.lists j ++ s.lists k) })
  | .set j i v =>
    if 0 ≤ i ∧ i < (s.lists j).length then
      (.unit, { s with lists := upd s.lists j ((s.lists j).set i.toNat v) })
    else (.panic, s)
  | .get j i => match Spec.get (s.lists j) i with
    | some v => (.val v, s)
    | none => (.panic, s)
  | .toArray j k => (.unit, { s with arrs := upd s.arrs k (s.lists j) })
  | .arr k xs => (.unit, { s with arrs := upd s.arrs k xs })
  | .arrSet k i v =>
    if i < (s.arrs k).length then (.unit, { s with arrs := upd s.arrs k ((s.arrs k).set i v) })
    else (.panic, s)
  | .filtering dst src idx => match Spec.filtering (s.lists src) idx with
    | some vs => (.unit, { s with lists := upd s.lists dst vs })
    | none => (.panic, s)
  | .sortScribble _ => (.unit, s)

/-- the state relation: every list object is well formed and stands for its sequence; slices equal -/
structure Rel (st : MState α) (s : SState α) : Prop where
  inv : ∀ i, TL.Inv (st.lists i)
  abs : ∀ i, TL.abs (st.lists i) = s.lists i
  arrs : st.arrs = s.arrs

theorem Rel.init : Rel (MState.init : MState α) SState.init :=
  ⟨fun _ => TL.inv_zeroValue, fun _ => by simp [MState.init, SState.init], rfl⟩

/-- sizes stay below the bound under which `ensure` cannot panic -/
def Small (op : MOp α) (s : SState α) : Prop :=
  (∀ i, ((sstep op s).2.lists i).length ≤ TL.BOUND) ∧
  (match op with | .filtering _ _ idx => idx.length ≤ TL.BOUND | _ => True)

theorem rel_setList {st : MState α} {s : SState α} (h : Rel st s) (j : Nat) (l : TL α) (xs : List α)
    (hi : TL.Inv l) (ha : TL.abs l = xs) :
    Rel { st with lists := upd st.lists j l } { s with lists := upd s.lists j xs } := by
  refine ⟨fun i => ?_, fun i => ?_, h.arrs⟩
  · by_cases e : i = j
    · subst e; simpa using hi
    · simpa [upd_other, e] using h.inv i
  · by_cases e : i = j
    · subst e; simpa using ha
    · simpa [upd_other, e] using h.abs i

/-- **multi-object refinement, one step**: same answer, and afterwards every object again stands
    for its own sequence -/
theorem step_refines (g : Growth) (hg : g.OK) (z : α) (op : MOp α) (st : MState α) (s : SState α)
    (h : Rel st s) (hs : Small op s) :
    (step g z op st).1 = (sstep op s).1 ∧ Rel (step g z op st).2 (sstep op s).2 := by
  obtain ⟨hb, hop⟩ := hs
  cases op with
  | newList j c =>
    cases c with
    | none => exact ⟨rfl, rel_setList h j _ _ TL.inv_zeroValue (by simp)⟩
    | some cap => exact ⟨rfl, rel_setList h j _ _ (TL.inv_mk' z cap) (by simp)⟩
  | add j v =>
    have hbj := hb j
    simp only [sstep, upd_same, List.length_append, List.length_singleton] at hbj
    rw [← h.abs j, TL.abs_length (h.inv j)] at hbj
    obtain ⟨l', h1, h2, h3⟩ := TL.add_spec g hg z v (st.lists j) (h.inv j) hbj
    simp only [step, sstep, h1, setList]
    exact ⟨trivial, rel_setList h j l' _ h3 (by rw [h2, h.abs j])⟩
  | addAllArray j k =>
    have hbj := hb j
    simp only [sstep, upd_same, List.length_append] at hbj
    rw [← h.abs j, TL.abs_length (h.inv j), ← h.arrs] at hbj
    obtain ⟨l', h1, h2, h3⟩ := TL.addAllArray_spec g hg z (st.arrs k) (st.lists j) (h.inv j) hbj
    simp only [step, sstep, h1, setList]
    exact ⟨trivial, rel_setList h j l' _ h3 (by rw [h2, h.abs j, h.arrs])⟩
  | addAll j k =>
    have hbj := hb j
    simp only [sstep, upd_same, List.length_append] at hbj
    rw [← h.abs j, ← h.abs k, TL.abs_length (h.inv j), TL.abs_length (h.inv k)] at hbj
    simp only [step, sstep]
    split
    · rename_i e; subst e
      obtain ⟨l', h1, h2, h3⟩ := TL.addAllSelf_spec g hg z (st.lists k) (h.inv k) hbj
      simp only [h1, setList]
      exact ⟨trivial, rel_setList h k l' _ h3 (by rw [h2, h.abs k])⟩
    · obtain ⟨l', h1, h2, h3⟩ := TL.addAll_spec g hg z (st.lists k) (st.lists j) (h.inv j) (h.inv k) hbj
      simp only [h1, setList]
      exact ⟨trivial, rel_setList h j l' _ h3 (by rw [h2, h.abs j, h.abs k])⟩
  | set j i v =>
    have hsp := TL.set_spec (st.lists j) i v (h.inv j)
    rw [h.abs j] at hsp
    simp only [step, sstep]
    by_cases hr : 0 ≤ i ∧ i < ((s.lists j).length : Int)
    · obtain ⟨l', h1, h2, h3⟩ := hsp.1 hr
      simp only [h1, setList, hr, and_self, if_true]
      exact ⟨trivial, rel_setList h j l' _ h3 h2⟩
    · simp only [hsp.2 hr, setList, hr, if_false]
      exact ⟨trivial, h⟩
  | get j i =>
    have hg' : TL.get (st.lists j) i = Spec.get (s.lists j) i := by
      rw [TL.get_spec _ i (h.inv j), h.abs j]; rfl
    simp only [step, sstep, hg']
    split <;> exact ⟨rfl, h⟩
  | toArray j k =>
    refine ⟨rfl, ⟨h.inv, h.abs, ?_⟩⟩
    simp only [step, sstep, TL.toArray_eq_abs, h.abs j, h.arrs]
  | arr k xs =>
    refine ⟨rfl, ⟨h.inv, h.abs, ?_⟩⟩
    simp only [step, sstep, h.arrs]
  | arrSet k i v =>
    simp only [step, sstep, h.arrs]
    split
    · exact ⟨rfl, ⟨h.inv, h.abs, rfl⟩⟩
    · exact ⟨rfl, h⟩
  | filtering dst src idx =>
    have hf := filtering_spec g hg z (st.lists src) (h.inv src) idx hop
    rw [h.abs src] at hf
    simp only [step, sstep]
    cases hsf : Spec.filtering (s.lists src) idx with
    | none =>
      rw [hsf] at hf
      simp only [hf, setList]
      exact ⟨trivial, h⟩
    | some vs =>
      rw [hsf] at hf
      obtain ⟨out, h1, h2, h3⟩ := hf
      simp only [h1, setList]
      exact ⟨trivial, rel_setList h dst out _ h3 h2⟩
  | sortScribble j => exact ⟨rfl, h⟩

def run (g : Growth) (z : α) : List (MOp α) → MState α → List (Out α) × MState α
  | [], st => ([], st)
  | op :: ops, st =>
    let r := step g z op st
    let rs := run g z ops r.2
    (r.1 :: rs.1, rs.2)

def srun : List (MOp α) → SState α → List (Out α) × SState α
  | [], s => ([], s)
  | op :: ops, s =>
    let r := sstep op s
    let rs := srun ops r.2
    (r.1 :: rs.1, rs.2)

/-- every step of the history stays below the bound -/
def SmallRun : List (MOp α) → SState α → Prop
  | [], _ => True
  | op :: ops, s => Small op s ∧ SmallRun ops (sstep op s).2

/-- **multi-object refinement**: for every history over the pools, all answers are those of
    independent plain sequences, and at the end every list and every slice holds exactly its own
    sequence -/
theorem run_refines (g : Growth) (hg : g.OK) (z : α) (ops : List (MOp α)) (st : MState α) (s : SState α)
    (h : Rel st s) (hs : SmallRun ops s) :
    (run g z ops st).1 = (srun ops s).1 ∧ Rel (run g z ops st).2 (srun ops s).2 := by
  induction ops generalizing st s with
  | nil => exact ⟨rfl, h⟩
  | cons op ops ih =>
    obtain ⟨h1, h2⟩ := step_refines g hg z op st s h hs.1
    obtain ⟨h3, h4⟩ := ih _ _ h2 hs.2
    simp only [run, srun, h1, h3]
    exact ⟨trivial, h4⟩

end Lists.Multi
