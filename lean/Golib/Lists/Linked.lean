/-
  Golib.Lists.Linked — CodeModel of util/list/LinkedList.go + LinkedEntity.go.

  Nodes live in a heap (`Array Node`, a node's address is its index; nodes are never freed,
  as under a garbage collector); `prev` / `next` are optional addresses (`nil` = `none`).
  Every function follows the Go function of the same name, pointer assignment by pointer
  assignment.  Dereferencing `nil` is `none` (Go: runtime panic).
-/
import Golib.Lists.LinkedSpec

namespace Lists.Linked

structure Node where
  prev : Option Nat
  next : Option Nat
  value : Option Int          -- `Value interface{}`; `nil` after removal
  deriving Inhabited, Repr

structure LL where
  size : Nat
  first : Option Nat
  last : Option Nat
  heap : Array Node

namespace LL

/-- `NewLinkedList()` -/
def empty : LL := { size := 0, first := none, last := none, heap := #[] }

/-- assignment through a pointer: `heap[id].field = …` -/
def upd (h : Array Node) (id : Nat) (f : Node → Node) : Array Node :=
  if hlt : id < h.size then h.set id (f h[id]) hlt else h

/-- the assignment in `if p == nil { … } else { p.field = … }`: only through a non-nil pointer -/
def updOpt (h : Array Node) (p : Option Nat) (f : Node → Node) : Array Node :=
  match p with
  | none => h
  | some id => upd h id f

/-- `AddFirst(v)` -/
def addFirst (o : LL) (v : Int) : LL :=
  let id := o.heap.size
  let heap := o.heap.push { prev := none, value := some v, next := o.first }
  match o.first with
  | none => { size := o.size + 1, first := some id, last := some id, heap := heap }
  | some f => { size := o.size + 1, first := some id, last := o.last,
                heap := upd heap f (fun n => { n with prev := some id }) }

/-- `AddLast(v)` -/
def addLast (o : LL) (v : Int) : LL :=
  let id := o.heap.size
  let heap := o.heap.push { prev := o.last, value := some v, next := none }
  match o.last with
  | none => { size := o.size + 1, first := some id, last := some id, heap := heap }
  | some l => { size := o.size + 1, first := o.first, last := some id,
                heap := upd heap l (fun n => { n with next := some id }) }

/-- `PutBefore(v, succ)` -/
def putBefore (o : LL) (v : Int) (succ : Nat) : Option LL :=
  match o.heap[succ]? with
  | none => none
  | some ns =>
    let id := o.heap.size
    let heap := o.heap.push { prev := ns.prev, value := some v, next := some succ }
    let heap := upd heap succ (fun n => { n with prev := some id })
    match ns.prev with
    | none => some { size := o.size + 1, first := some id, last := o.last, heap := heap }
    | some p => some { size := o.size + 1, first := o.first, last := o.last,
                       heap := upd heap p (fun n => { n with next := some id }) }

/-- `remove(x)` -/
def remove (o : LL) (x : Nat) : Option (Option Int × LL) :=
  match o.heap[x]? with
  | none => none
  | some nx =>
    let v := nx.value
    let first := match nx.prev with | none => nx.next | some _ => o.first
    let heap := updOpt o.heap nx.prev (fun n => { n with next := nx.next })
    let last := match nx.next with | none => nx.prev | some _ => o.last
    let heap := updOpt heap nx.next (fun m => { m with prev := nx.prev })
    let heap := upd heap x (fun _ => { prev := none, next := none, value := none })
    some (v, { size := o.size - 1, first := first, last := last, heap := heap })

/-- `RemoveFirst()` -/
def removeFirst (o : LL) : Option (Option Int × LL) :=
  match o.first with
  | some f => o.remove f
  | none => some (none, o)

/-- `RemoveLast()` -/
def removeLast (o : LL) : Option (Option Int × LL) :=
  match o.last with
  | some l => o.remove l
  | none => some (none, o)

/-- `Clear()` -/
def clear (o : LL) : LL := { size := 0, first := none, last := none, heap := o.heap }

/-- `e := GetFirst(); k × { e = GetNext(e) }`  (`GetNext(nil)` dereferences nil) -/
def walk (heap : Array Node) : Option Nat → Nat → Option (Option Nat)
  | cur, 0 => some cur
  | none, _ + 1 => none
  | some id, k + 1 =>
    match heap[id]? with
    | none => none
    | some n => walk heap n.next k

/-- `ToArray()`: `x := first; for i < size { result[i] = x.Value; x = x.next }` -/
def toArrayLoop (heap : Array Node) : Nat → Option Nat → List (Option Int) → Option (List (Option Int))
  | 0, _, acc => some acc.reverse
  | _ + 1, none, _ => none
  | n + 1, some id, acc =>
    match heap[id]? with
    | none => none
    | some nd => toArrayLoop heap n nd.next (nd.value :: acc)

def toArray (o : LL) : Option (List (Option Int)) := toArrayLoop o.heap o.size o.first []

/-- `e.Value` of an optional entity (`GetFirst()` / `GetLast()` may be nil) -/
def valueOf (o : LL) : Option Nat → Option Int
  | none => none
  | some id => match o.heap[id]? with
    | none => none
    | some n => n.value

def outOfVal : Option Int → Out
  | none => .none_
  | some v => .val v

def step (op : Op) (o : LL) : Out × LL :=
  match op with
  | .addFirst v => (.unit, o.addFirst v)
  | .addLast v => (.unit, o.addLast v)
  | .add v => (.unit, o.addLast v)
  | .removeFirst => match o.removeFirst with
    | some (v, o') => (outOfVal v, o')
    | none => (.panic, o)
  | .removeLast => match o.removeLast with
    | some (v, o') => (outOfVal v, o')
    | none => (.panic, o)
  | .removeAt k => match walk o.heap o.first k with
    | some (some x) => match o.remove x with
      | some (v, o') => (outOfVal v, o')
      | none => (.panic, o)
    | _ => (.panic, o)
  | .putBefore k v => match walk o.heap o.first k with
    | some (some x) => match o.putBefore v x with
      | some o' => (.unit, o')
      | none => (.panic, o)
    | _ => (.panic, o)
  | .clear => (.unit, o.clear)
  | .toArray => match o.toArray with
    | some xs => (.arr (xs.map (fun v => v.getD 0)), o)
    | none => (.panic, o)
  | .size => (.size o.size, o)
  | .first => (outOfVal (o.valueOf o.first), o)
  | .last => (outOfVal (o.valueOf o.last), o)

def run : List Op → LL → List Out × LL
  | [], o => ([], o)
  | op :: ops, o =>
    let r := step op o
    let rs := run ops r.2
    (r.1 :: rs.1, rs.2)

/-- tail-recursive form used by the driver -/
def runTR : List Op → LL → List Out → List Out × LL
  | [], o, acc => (acc.reverse, o)
  | op :: ops, o, acc =>
    let r := step op o
    runTR ops r.2 (r.1 :: acc)

theorem runTR_eq (ops : List Op) (o : LL) (acc : List Out) :
    runTR ops o acc = (acc.reverse ++ (run ops o).1, (run ops o).2) := by
  induction ops generalizing o acc with
  | nil => simp [runTR, run]
  | cons op ops ih => simp [runTR, run, ih]

end LL
end Lists.Linked
