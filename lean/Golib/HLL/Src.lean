/-
  Golib.HLL.Src — tie A for C14: the *source expressions* of util/hll as data.

  `Ex` is a small expression tree; `xlate/c14` regenerates one tree per function of
  /repo/util/hll from the Go source on every run (`Golib/Gen/C14.lean`), after normalising
  names (receiver, parameters by position, single-assignment locals inlined, constants
  replaced by their values).  This file holds

    * the trees the CodeModel was written from (`Src.get`, `Src.setVal`, `Src.updCond`, …) —
      `Golib/Props/C14Gen.lean` checks `Gen.C14.x = Src.x` for each of them;
    * an evaluator `Ex.eval` giving the integer fragment its Go meaning (fixed-width
      wrap-around arithmetic, shifts, bitwise operators);
    * bridge theorems: the evaluated source expression equals the arithmetic CodeModel
      (`HLL.wordGet`, `HLL.wordSet`, `HLL.wordUpd`, `HLL.wordCount`, `HLL.idx`, `HLL.rank`,
      `HLL.clz32`) for all inputs in range.

  Type tags: 0 untyped constant, 8/32/64 = uint8/uint32/uint64, 63 = int, 1 = float64, 2 = bool.
-/
import Golib.HLL.Model

namespace HLL.Src

inductive Op
  | add | sub | mul | div | mod | shl | shr | and | or | andnot | xor
  | lt | le | gt | ge | eq | ne | land | lor
deriving DecidableEq, Repr

inductive Ex
  | lit (n : Nat)
  | flit (mant dec : Nat)
  | tt | ff
  | arg (i : Nat)
  | loc (name : String)
  | glob (name : String)
  | recv (path : String)
  | fld (a : Ex) (name : String)
  | idx (a i : Ex)
  | bin (op : Op) (ty : Nat) (a b : Ex)
  | not (ty : Nat) (a : Ex)
  | conv (ty : Nat) (a : Ex)
  | call1 (f : String) (a : Ex)
  | call2 (f : String) (a b : Ex)
  | ite (c t e : Ex)
  | unknown (why : String)
deriving DecidableEq, Repr

/-! ### meaning of the integer fragment -/

/-- number of values of a type tag (0 = unbounded) -/
def card : Nat → Nat
  | 8 => 256
  | 32 => 4294967296
  | 63 => 18446744073709551616
  | 64 => 18446744073709551616
  | _ => 0

def trunc (ty x : Nat) : Nat := if card ty = 0 then x else x % card ty

def binop (op : Op) (ty a b : Nat) : Nat :=
  match op with
  | .add => trunc ty (a + b)
  | .sub => if b ≤ a then a - b else trunc ty (a + card ty - b)
  | .mul => trunc ty (a * b)
  | .div => a / b
  | .mod => a % b
  | .shl => trunc ty (a * 2 ^ b)
  | .shr => a / 2 ^ b
  | .and => a &&& b
  | .or => a ||| b
  | .xor => a ^^^ b
  | .andnot => a - (a &&& b)
  | .lt => (if a < b then 1 else 0)
  | .le => (if a ≤ b then 1 else 0)
  | .gt => (if b < a then 1 else 0)
  | .ge => (if b ≤ a then 1 else 0)
  | .eq => (if a = b then 1 else 0)
  | .ne => (if a ≠ b then 1 else 0)
  | .land => (if a ≠ 0 ∧ b ≠ 0 then 1 else 0)
  | .lor => (if a ≠ 0 ∨ b ≠ 0 then 1 else 0)

/-- environment: parameters, indexed tables (`M`, `clzLookup`), receiver fields, unary calls -/
structure Env where
  args : List Nat
  tab : String → Nat → Nat
  fldv : String → Nat
  fn1 : String → Nat → Nat
  locv : String → Nat

def tabName : Ex → String
  | .recv n => n
  | .glob n => n
  | .fld _ n => "that." ++ n
  | _ => ""

def Ex.eval (ρ : Env) : Ex → Nat
  | .lit n => n
  | .tt => 1
  | .ff => 0
  | .arg i => ρ.args.getD i 0
  | .recv p => ρ.fldv p
  | .loc n => ρ.locv n
  | .idx a i => ρ.tab (tabName a) (i.eval ρ)
  | .bin op ty a b => binop op ty (a.eval ρ) (b.eval ρ)
  | .not ty a => card ty - 1 - a.eval ρ
  | .conv ty a => trunc ty (a.eval ρ)
  | .call1 f a => ρ.fn1 f (a.eval ρ)
  | .ite c t e => if c.eval ρ ≠ 0 then t.eval ρ else e.eval ρ
  | _ => 0

/-! ### the source expressions (as in /repo/util/hll with fix-D30 applied) -/

/-- `REGISTER_SIZE * (position - (bucketPos * LOG2_BITS_PER_WORD))` with `position int` (Get) -/
def shiftI : Ex :=
  .conv 32 (.bin .mul 63 (.lit 5) (.bin .sub 63 (.arg 0) (.bin .mul 63 (.bin .div 63 (.arg 0) (.lit 6)) (.lit 6))))

/-- the same with `position uint32` (Set, UpdateIfGreater) -/
def shiftU : Ex :=
  .conv 32 (.bin .mul 32 (.lit 5) (.bin .sub 32 (.arg 0) (.bin .mul 32 (.bin .div 32 (.arg 0) (.lit 6)) (.lit 6))))

def wordI : Ex := .idx (.recv "M") (.bin .div 63 (.arg 0) (.lit 6))
def wordU : Ex := .idx (.recv "M") (.bin .div 32 (.arg 0) (.lit 6))

/-- `RegisterSet.Get`: `(this.M[bucketPos] & (0x1f << uint32(shift))) >> uint32(shift)` -/
def get : Ex := .bin .shr 32 (.bin .and 32 wordI (.bin .shl 32 (.lit 31) shiftI)) shiftI

/-- `RegisterSet.Set`: `this.M[bucketPos] = (this.M[bucketPos] & ^(0x1f << uint32(shift)) | (value << uint32(shift)))` -/
def setIdx : Ex := .bin .div 32 (.arg 0) (.lit 6)
def setVal : Ex :=
  .bin .or 32 (.bin .and 32 wordU (.not 32 (.bin .shl 32 (.lit 31) shiftU))) (.bin .shl 32 (.arg 1) shiftU)

/-- `RegisterSet.UpdateIfGreater`: `mask := uint32(0x1f) << uint32(shift)`,
    `curVal := uint64(this.M[bucket] & mask)`, `newVal := uint64(value) << uint32(shift)`,
    `if curVal < newVal { this.M[bucket] = uint32(uint64(this.M[bucket] & ^mask) | newVal); return true } else { return false }` -/
def maskU : Ex := .bin .shl 32 (.conv 32 (.lit 31)) shiftU
def newValU : Ex := .bin .shl 64 (.conv 64 (.arg 1)) shiftU
def updCond : Ex := .bin .lt 64 (.conv 64 (.bin .and 32 wordU maskU)) newValU
def updIdx : Ex := .bin .div 32 (.arg 0) (.lit 6)
def updVal : Ex := .conv 32 (.bin .or 64 (.conv 64 (.bin .and 32 wordU (.not 32 maskU))) newValU)

/-- `RegisterSet.Merge`, inner loop: `mask := uint32(0x1f << uint32(REGISTER_SIZE * j))`,
    `thisVal := this.M[bucket] & mask`, `thatVal := that.M[bucket] & mask`,
    `if thisVal < thatVal { word |= thatVal } else { word |= thisVal }` -/
def mergeMask : Ex := .conv 32 (.bin .shl 0 (.lit 31) (.conv 32 (.bin .mul 63 (.lit 5) (.loc "l2"))))
def mergeThis : Ex := .bin .and 32 (.idx (.recv "M") (.loc "l0")) mergeMask
def mergeThat : Ex := .bin .and 32 (.idx (.fld (.arg 0) "M") (.loc "l0")) mergeMask
def mergeCond : Ex := .bin .lt 32 mergeThis mergeThat

/-- `getBits` / `getSizeForCount` -/
def getBits : Ex := .bin .div 63 (.arg 0) (.lit 6)
def sizeForCount : Ex :=
  .ite (.bin .eq 63 (.call1 "getBits" (.arg 0)) (.lit 0)) (.lit 1)
    (.ite (.bin .eq 63 (.bin .mod 63 (.call1 "getBits" (.arg 0)) (.lit 32)) (.lit 0))
      (.call1 "getBits" (.arg 0))
      (.bin .add 63 (.call1 "getBits" (.arg 0)) (.lit 1)))

/-- `clz32`: the comparison tree that selects `n`, then `clzLookup[x>>n] - n` -/
def pow2 (k : Nat) : Ex := .bin .shl 32 (.lit 1) (.lit k)
def clzN : Ex :=
  .ite (.bin .ge 32 (.arg 0) (pow2 16))
    (.ite (.bin .ge 32 (.arg 0) (pow2 24))
      (.ite (.bin .ge 32 (.arg 0) (pow2 28)) (.lit 28) (.lit 24))
      (.ite (.bin .ge 32 (.arg 0) (pow2 20)) (.lit 20) (.lit 16)))
    (.ite (.bin .ge 32 (.arg 0) (pow2 8))
      (.ite (.bin .ge 32 (.arg 0) (pow2 12)) (.lit 12) (.lit 8))
      (.ite (.bin .ge 32 (.arg 0) (pow2 4)) (.lit 4) (.lit 0)))
def clz32 : Ex := .bin .sub 8 (.idx (.glob "clzLookup") (.bin .shr 32 (.arg 0) clzN)) clzN

/-- `offerHashed`: `j := hashedValue >> (32 - this.log2m)`,
    `r := uint32(clz32((hashedValue<<this.log2m)|(1<<(this.log2m-1))+1) + 1)` -/
def offerIdx : Ex := .bin .shr 32 (.arg 0) (.bin .sub 32 (.lit 32) (.recv "log2m"))
def offerRank : Ex :=
  .conv 32 (.bin .add 8 (.call1 "clz32"
    (.bin .add 32 (.bin .or 32 (.bin .shl 32 (.arg 0) (.recv "log2m"))
      (.bin .shl 32 (.lit 1) (.bin .sub 32 (.recv "log2m") (.lit 1)))) (.lit 1))) (.lit 1))

/-- `Cardinality`: loop term, zero test, the final branch (with fix-D30: `&& zeros != 0`) -/
def rawEstimate : Ex := .bin .mul 1 (.recv "alphaMM") (.bin .div 1 (.conv 1 (.lit 1)) (.loc "l0"))
def cardTerm : Ex :=
  .bin .add 1 (.loc "l0") (.bin .div 1 (.conv 1 (.flit 10 1))
    (.conv 1 (.bin .shl 63 (.conv 63 (.lit 1)) (.conv 64 (.call1 "registerSet.Get" (.loc "l2"))))))
def cardZeroTest : Ex :=
  .ite (.bin .eq 32 (.call1 "registerSet.Get" (.loc "l2")) (.lit 0)) (.bin .add 1 (.loc "l1") (.lit 1)) (.loc "l1")
def cardSmall : Ex :=
  .bin .le 1 rawEstimate
    (.bin .mul 1 (.bin .div 1 (.conv 1 (.flit 50 1)) (.conv 1 (.flit 20 1))) (.conv 1 (.recv "registerSet.Count")))
def cardCond : Ex := .bin .land 2 cardSmall (.bin .ne 1 (.loc "l1") (.lit 0))
/-- the condition of the unchanged code (no test of `zeros`) -/
def cardCondOrig : Ex := cardSmall
def cardThen : Ex := .conv 64 (.call1 "Round" (.call2 "linearCounting" (.recv "registerSet.Count") (.loc "l1")))
def cardElse : Ex := .conv 64 (.call1 "Round" rawEstimate)

def linearCounting : Ex :=
  .bin .mul 1 (.conv 1 (.arg 0)) (.call1 "math.Log" (.bin .div 1 (.conv 1 (.arg 0)) (.arg 1)))
def round : Ex :=
  .ite (.bin .lt 1 (.arg 0) (.lit 0)) (.conv 63 (.bin .sub 1 (.arg 0) (.flit 5 1)))
    (.conv 63 (.bin .add 1 (.arg 0) (.flit 5 1)))

/-- `getAlphaMM(p, m)` -/
def alphaSimple (c : Nat × Nat) : Ex :=
  .bin .mul 1 (.bin .mul 1 (.flit c.1 c.2) (.conv 1 (.arg 1))) (.conv 1 (.arg 1))
def alphaMM : Ex :=
  .ite (.bin .eq 32 (.arg 0) (.lit 4)) (alphaSimple consts.alpha4)
    (.ite (.bin .eq 32 (.arg 0) (.lit 5)) (alphaSimple consts.alpha5)
      (.ite (.bin .eq 32 (.arg 0) (.lit 6)) (alphaSimple consts.alpha6)
        (.bin .mul 1 (.bin .mul 1
          (.bin .div 1 (.flit consts.alphaInf.1 consts.alphaInf.2)
            (.bin .add 1 (.lit 1) (.bin .div 1 (.flit consts.alphaCorr.1 consts.alphaCorr.2) (.conv 1 (.arg 1)))))
          (.conv 1 (.arg 1))) (.conv 1 (.arg 1)))))

/-- statement skeletons (identifiers normalised by the translator) -/
def getBytesBody : List String :=
  ["v0 := io.NewDataOutputX()",
   "v0.WriteInt(int32(recv.log2m))",
   "v0.WriteInt(int32(recv.registerSet.Size))",
   "for _, v1 := range recv.registerSet.ReadOnlyBits() {; v0.WriteInt(int32(v1)); }",
   "return v0.ToByteArray()"]

def buildBody : List String :=
  ["v0 := io.NewDataInputX(p0)",
   "v1 := uint32(v0.ReadInt())",
   "v2 := v0.ReadInt()",
   "v3 := make([]uint32, v2)",
   "for v4 := 0; v4 < int(v2); v4++ {; v3[v4] = uint32(v0.ReadInt()); }",
   "return NewHyperLogLog(v1, NewRegisterSetInit(int(1<<v1), v3))"]

def mergeBody : List String :=
  ["v0 := NewHyperLogLog(recv.log2m, NewRegisterSet(recv.registerSet.Count))",
   "v0.AddAll(recv)",
   "if p0 == nil {; return v0; }",
   "for _, v1 := range p0 {; v2 := v1; v0.AddAll(v2); }",
   "return v0"]

def addAllBody : List String :=
  ["if recv.Sizeof() != p0.Sizeof() {; panic(\"AddAll Cannot merge estimators of different sizes\"); }",
   "recv.registerSet.Merge(p0.registerSet)"]

def newIntBody : List String :=
  ["v0 := NewHyperLogLog(p0, NewRegisterSet(1<<p0))",
   "return v0"]

def newRegisterSetInitBody : List String :=
  ["v0 := new(RegisterSet)",
   "v0.Count = p0",
   "if p1 == nil {; v0.M = make([]uint32, getSizeForCount(p0)); } else {; v0.M = p1; }",
   "v0.Size = len(v0.M)",
   "return v0"]

end HLL.Src
