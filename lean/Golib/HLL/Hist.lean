/-
  Golib.HLL.Hist — the register sum of `Cardinality` grouped by register value.

  `Cardinality` adds `2^-M[j]` register by register.  Any reformulation that first counts the
  registers per value (a histogram) computes the same sum exactly when the histogram covers every
  value that occurs; `regSum_by_value` is that statement on the integer sum `regSum`
  (`Σ 2^(31−M[j])`, see `regSum_prefix_le` for why the float sum is exact).
-/
import Golib.HLL.Card

namespace HLL

/-- sum of `2^(31−v)` over a register list, grouped by value -/
def histSum (K : Nat) (rs : List Nat) : Nat :=
  ((List.range (K + 1)).map (fun v => rs.count v * 2 ^ (31 - v))).sum

theorem sum_map_zero (l : List Nat) (f : Nat → Nat) (h : ∀ u ∈ l, f u = 0) : (l.map f).sum = 0 := by
  induction l with
  | nil => rfl
  | cons a l ih =>
    rw [List.map_cons, List.sum_cons, h a (List.mem_cons_self ..), ih (fun u hu => h u (List.mem_cons_of_mem _ hu))]

theorem indicator_sum (K v : Nat) (f : Nat → Nat) (hv : v ≤ K) :
    ((List.range (K + 1)).map (fun u => (if v = u then 1 else 0) * f u)).sum = f v := by
  induction K with
  | zero =>
    have : v = 0 := by omega
    subst this; simp
  | succ K ih =>
    rw [List.range_succ, List.map_append, List.sum_append]
    by_cases h : v ≤ K
    · rw [ih h]
      have : v ≠ K + 1 := by omega
      simp [this]
    · have hv' : v = K + 1 := by omega
      subst hv'
      have hz : ((List.range (K + 1)).map (fun u => (if K + 1 = u then 1 else 0) * f u)).sum = 0 := by
        apply sum_map_zero
        intro u hu
        have hu' := List.mem_range.mp hu
        have : K + 1 ≠ u := by omega
        simp [this]
      rw [hz]; simp

theorem histSum_nil (K : Nat) : histSum K [] = 0 := by
  unfold histSum
  apply sum_map_zero
  intro u _
  simp

theorem histSum_cons (K v : Nat) (rs : List Nat) (hv : v ≤ K) :
    histSum K (v :: rs) = 2 ^ (31 - v) + histSum K rs := by
  unfold histSum
  have h1 : (List.range (K + 1)).map (fun u => (v :: rs).count u * 2 ^ (31 - u)) =
      (List.range (K + 1)).map (fun u => (if v = u then 1 else 0) * 2 ^ (31 - u) + rs.count u * 2 ^ (31 - u)) := by
    apply List.map_congr_left
    intro u _
    rw [List.count_cons]
    by_cases h : v = u
    · subst h; simp [Nat.add_mul, Nat.add_comm]
    · simp [h]
  rw [h1]
  have h2 : ∀ (l : List Nat) (f g : Nat → Nat), (l.map (fun u => f u + g u)).sum = (l.map f).sum + (l.map g).sum := by
    intro l f g
    induction l with
    | nil => rfl
    | cons a l ih => simp only [List.map_cons, List.sum_cons, ih]; omega
  rw [h2, indicator_sum K v (fun u => 2 ^ (31 - u)) hv]

/-- grouping the register sum by value is exact iff the histogram covers every value present -/
theorem regSum_by_value (K : Nat) (rs : List Nat) (h : ∀ v ∈ rs, v ≤ K) : regSum rs = histSum K rs := by
  induction rs with
  | nil => rw [histSum_nil]; rfl
  | cons v rs ih =>
    rw [regSum_cons, histSum_cons K v rs (h v (List.mem_cons_self ..)), ih (fun u hu => h u (List.mem_cons_of_mem _ hu))]


end HLL
