/-
  Golib.HLL.IndexRank — what `offerHashed` computes from the 32-bit hashed value.

  For 2 ≤ p ≤ 31:
    idx p h  = the top p bits of h,
    rank p h = (number of leading zeros of the remaining 32−p bits, as a (32−p)-bit field) + 1,
               i.e. (32 − p) − bitlen (h mod 2^(32−p)) + 1, which is 32−p+1 when the rest is 0.
-/
import Golib.HLL.Model

namespace HLL

/-- the low `32 − p` bits of the hashed value -/
def rest (p h : Nat) : Nat := h % 2 ^ (32 - p)

theorem idx_rest (p h : Nat) : h = idx p h * 2 ^ (32 - p) + rest p h := by
  unfold idx rest
  rw [Nat.mul_comm]; exact (Nat.div_add_mod h _).symm

theorem rest_lt (p h : Nat) : rest p h < 2 ^ (32 - p) := Nat.mod_lt _ (Nat.two_pow_pos _)

theorem idx_lt (p h : Nat) (hp : p ≤ 32) (hh : h < 4294967296) : idx p h < 2 ^ p := by
  unfold idx
  apply (Nat.div_lt_iff_lt_mul (Nat.two_pow_pos _)).mpr
  rw [← Nat.pow_add]
  have : p + (32 - p) = 32 := by omega
  rw [this]; exact hh

theorem bitlen_le_of_lt (n k : Nat) (h : n < 2 ^ k) : bitlen n ≤ k := by
  rcases Nat.eq_zero_or_pos n with rfl | hpos
  · rw [bitlen_zero]; omega
  · have b := two_pow_bitlen_le n hpos
    have : bitlen n - 1 < k := (Nat.pow_lt_pow_iff_right (by decide : 1 < 2)).mp (Nat.lt_of_le_of_lt b h)
    omega

/-- the argument of `clz32` in arithmetic form: rest·2^p + 2^(p−1) + 1 -/
theorem rankArg_eq (p h : Nat) (hp1 : 2 ≤ p) (hp2 : p ≤ 32) :
    rankArg p h = rest p h * 2 ^ p + 2 ^ (p - 1) + 1 := by
  unfold rankArg rest
  have e32 : (4294967296 : Nat) = 2 ^ (32 - p) * 2 ^ p := by
    rw [← Nat.pow_add]
    have : 32 - p + p = 32 := by omega
    rw [this]
  have e1 : h * 2 ^ p % 4294967296 = h % 2 ^ (32 - p) * 2 ^ p := by
    rw [e32, Nat.mul_mod_mul_right]
  rw [e1]
  have hlt : 2 ^ (p - 1) < 2 ^ p := Nat.pow_lt_pow_right (by decide) (by omega)
  have e2 : h % 2 ^ (32 - p) * 2 ^ p ||| 2 ^ (p - 1) = h % 2 ^ (32 - p) * 2 ^ p + 2 ^ (p - 1) := by
    rw [Nat.mul_comm]
    exact (Nat.two_pow_add_eq_or_of_lt hlt _).symm
  rw [e2]
  apply Nat.mod_eq_of_lt
  -- (2^(32-p) − 1)·2^p + 2^(p−1) + 1 < 2^32
  have hr : h % 2 ^ (32 - p) < 2 ^ (32 - p) := Nat.mod_lt _ (Nat.two_pow_pos _)
  have h2 : 2 ^ (p - 1) + 1 ≤ 2 ^ p := by omega
  have h3 : (h % 2 ^ (32 - p) + 1) * 2 ^ p ≤ 2 ^ (32 - p) * 2 ^ p := Nat.mul_le_mul_right _ hr
  rw [e32]
  rw [Nat.add_mul, Nat.one_mul] at h3
  have h4 : 2 ^ (p - 1) + 1 < 2 ^ p := by
    have : 2 ^ (p - 1) = 2 ^ (p - 2) * 2 := by
      rw [← Nat.pow_succ]; congr 1; omega
    have hp : 2 ^ p = 2 ^ (p - 2) * 4 := by
      have : p = (p - 2) + 2 := by omega
      rw [this, Nat.pow_add]; simp
    have : 0 < 2 ^ (p - 2) := Nat.two_pow_pos _
    omega
  omega

theorem rankArg_lt (p h : Nat) : rankArg p h < 4294967296 := Nat.mod_lt _ (by decide)

/-- number of binary digits of the `clz32` argument -/
theorem bitlen_rankArg (p h : Nat) (hp1 : 2 ≤ p) (hp2 : p ≤ 32) :
    bitlen (rankArg p h) = bitlen (rest p h) + p := by
  rw [rankArg_eq p h hp1 hp2]
  have hpow : 2 ^ p = 2 ^ (p - 1) * 2 := by
    rw [← Nat.pow_succ]; congr 1; omega
  have hpos : 0 < 2 ^ (p - 1) := Nat.two_pow_pos _
  have h1 : 1 < 2 ^ (p - 1) := by
    have : 2 ^ 1 ≤ 2 ^ (p - 1) := Nat.pow_le_pow_right (by decide) (by omega)
    omega
  rcases Nat.eq_zero_or_pos (rest p h) with e | hpos'
  · rw [e, bitlen_zero]; simp only [Nat.zero_mul, Nat.zero_add]
    have := bitlen_unique (2 ^ (p - 1) + 1) (p - 1) (by omega)
      (by rw [show p - 1 + 1 = p by omega, hpow]; omega)
    rw [this]; omega
  · have hdiv : (rest p h * 2 ^ p + 2 ^ (p - 1) + 1) / 2 ^ p = rest p h := by
      rw [Nat.add_assoc, Nat.mul_comm, Nat.mul_add_div (Nat.two_pow_pos p)]
      rw [Nat.div_eq_of_lt (by omega)]; rfl
    have := bitlen_shift (rest p h * 2 ^ p + 2 ^ (p - 1) + 1) p (by rw [hdiv]; exact hpos')
    rw [hdiv] at this
    exact this

/-- `rank` = leading zeros of the remaining `32 − p` bits (as a field of that width) + 1;
    an all-zero rest gives `32 − p + 1` -/
theorem rank_spec (p h : Nat) (hp1 : 2 ≤ p) (hp2 : p ≤ 32) :
    rank p h = (32 - p) - bitlen (rest p h) + 1 := by
  unfold rank
  rw [clz32_correct _ (rankArg_lt p h)]
  unfold nlz32
  rw [bitlen_rankArg p h hp1 hp2]
  omega

theorem rank_pos (p h : Nat) : 1 ≤ rank p h := by unfold rank; omega

theorem rank_le (p h : Nat) (hp1 : 2 ≤ p) (hp2 : p ≤ 32) : rank p h ≤ 33 - p := by
  rw [rank_spec p h hp1 hp2]; omega

/-- the rank always fits a 5-bit register -/
theorem rank_lt_32 (p h : Nat) (hp1 : 2 ≤ p) (hp2 : p ≤ 32) : rank p h < 32 := by
  have := rank_le p h hp1 hp2; omega

/-- the rank characterised by the position of the first one-bit of the rest:
    `rank = t` with `t ≤ 32−p` iff `2^(32−p−t) ≤ rest < 2^(32−p−t+1)` -/
theorem rank_eq_iff (p h t : Nat) (hp1 : 2 ≤ p) (hp2 : p ≤ 32) (ht1 : 1 ≤ t) (ht2 : t ≤ 32 - p)
    (hlo : 2 ^ (32 - p - t) ≤ rest p h) (hhi : rest p h < 2 ^ (32 - p - t + 1)) : rank p h = t := by
  rw [rank_spec p h hp1 hp2, bitlen_unique _ _ hlo hhi]; omega

theorem rank_of_rest_zero (p h : Nat) (hp1 : 2 ≤ p) (hp2 : p ≤ 32) (hz : rest p h = 0) :
    rank p h = 32 - p + 1 := by
  rw [rank_spec p h hp1 hp2, hz, bitlen_zero]; omega

end HLL
