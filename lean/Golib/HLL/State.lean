/-
  Golib.HLL.State — the register array: what `offerHashed` does to it, and the proof that the
  state after offering a sequence is the pointwise supremum of the ranks (a function of the
  *set* offered).
-/
import Golib.HLL.IndexRank

namespace HLL

/-! ### arrays of words -/

theorem getD_setIfInBounds (ws : Array Nat) (i j a d : Nat) :
    (ws.setIfInBounds i a).getD j d = if i = j ∧ i < ws.size then a else ws.getD j d := by
  simp only [Array.getD_eq_getD_getElem?, Array.getElem?_setIfInBounds]
  by_cases h : i = j
  · subst h
    by_cases h2 : i < ws.size
    · simp [h2]
    · simp [h2]
  · simp [h]

theorem getD_of_size_le (ws : Array Nat) (i d : Nat) (h : ws.size ≤ i) : ws.getD i d = d := by
  simp [Array.getD_eq_getD_getElem?, Array.getElem?_eq_none h]

theorem getD_of_lt (ws : Array Nat) (i d : Nat) (h : i < ws.size) : ws.getD i d = ws[i] := by
  simp [Array.getD_eq_getD_getElem?, Array.getElem?_eq_getElem h]

/-- canonical words: bits 30 and 31 are clear (true of every state the code reaches from
    `NewRegisterSet`) -/
def Canon (ws : Array Nat) : Prop := ∀ i, ws.getD i 0 < 1073741824

/-- a well-formed register set of precision `p` -/
structure WFState (p : Nat) (ws : Array Nat) : Prop where
  size : ws.size = wordCount (2 ^ p)
  canon : Canon ws

/-- the precisions for which the model is claimed: `2 ≤ p ≤ 30` (the property quantifies over
    `4 ≤ p ≤ 16`; `validateLog2m` admits `0 … 30`) -/
structure PrecOK (p : Nat) : Prop where
  lo : 2 ≤ p
  hi : p ≤ 30

theorem PrecOK.of_range {p : Nat} (h1 : 4 ≤ p) (h2 : p ≤ 16) : PrecOK p := ⟨by omega, by omega⟩

/-- `getSizeForCount(2^p)` allocates enough words: `6 · wordCount ≥ 2^p` (and its
    `bits % 32 == 0` arm is never taken for a power of two) -/
theorem sizes_ok_all : ∀ p, p < 31 →
    2 ^ p ≤ 6 * wordCount (2 ^ p) ∧ (2 ^ p / 6 ≠ 0 → 2 ^ p / 6 % 32 ≠ 0) := by decide

theorem sizes_ok (p : Nat) (hp : PrecOK p) : 2 ^ p ≤ 6 * wordCount (2 ^ p) :=
  (sizes_ok_all p (by have := hp.hi; omega)).1

theorem regGet_lt (ws : Array Nat) (r : Nat) : regGet ws r < 32 := wordGet_lt _ _

theorem wordGet_zero (i : Nat) : wordGet 0 i = 0 := by simp [wordGet]

theorem regGet_fresh (p r : Nat) : regGet (fresh p) r = 0 := by
  unfold regGet fresh
  have : (Array.replicate (wordCount (2 ^ p)) 0).getD (r / 6) 0 = 0 := by
    simp only [Array.getD_eq_getD_getElem?, Array.getElem?_replicate]
    split <;> rfl
  rw [this, wordGet_zero]

theorem fresh_wf (p : Nat) : WFState p (fresh p) := by
  constructor
  · simp [fresh]
  · intro i
    simp only [fresh, Array.getD_eq_getD_getElem?, Array.getElem?_replicate]
    split <;> simp

/-! ### UpdateIfGreater on the array -/

theorem regUpd_size (ws : Array Nat) (r v : Nat) : (regUpd ws r v).1.size = ws.size := by
  simp [regUpd]

/-- register `r'` after `UpdateIfGreater(r, v)`: the maximum at `r`, untouched elsewhere -/
theorem regGet_regUpd (ws : Array Nat) (r r' v : Nat) (hr : r < 6 * ws.size) (hv : v < 32) :
    regGet (regUpd ws r v).1 r' = if r = r' then max (regGet ws r) v else regGet ws r' := by
  unfold regGet regUpd
  simp only
  rw [getD_setIfInBounds]
  have hlt : r / 6 < ws.size := by omega
  by_cases hq : r / 6 = r' / 6
  · rw [if_pos ⟨hq, hlt⟩]
    rw [wordGet_wordUpd _ _ _ _ (Nat.mod_lt _ (by decide)) (Nat.mod_lt _ (by decide)) hv]
    by_cases hm : r % 6 = r' % 6
    · have : r = r' := by omega
      subst this; simp
    · have : r ≠ r' := by intro h; subst h; exact hm rfl
      rw [if_neg hm, if_neg this, hq]
  · have : r ≠ r' := by intro h; subst h; exact hq rfl
    rw [if_neg (fun h => hq h.1), if_neg this]

/-- the boolean returned by `UpdateIfGreater`: "the register grew" -/
theorem regUpd_snd (ws : Array Nat) (r v : Nat) : (regUpd ws r v).2 = decide (regGet ws r < v) := by
  unfold regUpd regGet
  exact wordUpd_snd _ _ _

theorem regUpd_canon (ws : Array Nat) (r v : Nat) (hv : v < 32) (hc : Canon ws) :
    Canon (regUpd ws r v).1 := by
  intro i
  unfold regUpd
  simp only
  rw [getD_setIfInBounds]
  split
  · exact wordUpd_lt30 _ _ _ (Nat.mod_lt _ (by decide)) hv (hc _)
  · exact hc i

/-- a canonical register array is determined by its registers -/
theorem state_ext (a b : Array Nat) (hs : a.size = b.size) (ha : Canon a) (hb : Canon b)
    (h : ∀ r, r < 6 * a.size → regGet a r = regGet b r) : a = b := by
  apply Array.ext hs
  intro i h1 h2
  have e1 := getD_of_lt a i 0 h1
  have e2 := getD_of_lt b i 0 h2
  rw [← e1, ← e2]
  apply word_ext _ _ (ha i) (hb i)
  intro j hj
  have := h (6 * i + j) (by omega)
  unfold regGet at this
  have q : (6 * i + j) / 6 = i := by omega
  have m : (6 * i + j) % 6 = j := by omega
  rw [q, m] at this
  exact this

/-! ### offering hashed values -/

theorem offerHashed_size (p : Nat) (ws : Array Nat) (h : Nat) :
    (offerHashed p ws h).1.size = ws.size := regUpd_size _ _ _

theorem offerHashed_wf (p : Nat) (ws : Array Nat) (h : Nat) (hp : PrecOK p) (hw : WFState p ws) :
    WFState p (offerHashed p ws h).1 :=
  ⟨by rw [offerHashed_size]; exact hw.size,
   regUpd_canon _ _ _ (rank_lt_32 p h hp.lo (by have := hp.hi; omega)) hw.canon⟩

/-- a hashed value is a 32-bit number -/
def Hashed (h : Nat) : Prop := h < 4294967296

theorem idx_in_range (p : Nat) (ws : Array Nat) (h : Nat) (hp : PrecOK p) (hw : WFState p ws)
    (hh : Hashed h) : idx p h < 6 * ws.size := by
  have a := idx_lt p h (by have := hp.hi; omega) hh
  have b := sizes_ok p hp
  rw [hw.size]; omega

/-- one `offerHashed`: the selected register becomes the maximum of its old value and the rank -/
theorem regGet_offerHashed (p : Nat) (ws : Array Nat) (h r : Nat) (hp : PrecOK p)
    (hw : WFState p ws) (hh : Hashed h) :
    regGet (offerHashed p ws h).1 r =
      if idx p h = r then max (regGet ws (idx p h)) (rank p h) else regGet ws r :=
  regGet_regUpd ws _ r _ (idx_in_range p ws h hp hw hh)
    (rank_lt_32 p h hp.lo (by have := hp.hi; omega))

theorem offerHashed_snd (p : Nat) (ws : Array Nat) (h : Nat) :
    (offerHashed p ws h).2 = decide (regGet ws (idx p h) < rank p h) := regUpd_snd _ _ _

/-- pointwise supremum of the ranks of the hashed values that select register `r` -/
def supRank (p : Nat) (hs : List Nat) (r : Nat) : Nat :=
  hs.foldr (fun h acc => if idx p h = r then max (rank p h) acc else acc) 0

theorem supRank_nil (p r : Nat) : supRank p [] r = 0 := rfl

theorem supRank_cons (p h : Nat) (hs : List Nat) (r : Nat) :
    supRank p (h :: hs) r = if idx p h = r then max (rank p h) (supRank p hs r) else supRank p hs r := rfl

/-- `supRank` is the least upper bound of `{ rank h | h ∈ hs, idx h = r }` -/
theorem supRank_le_iff (p : Nat) (hs : List Nat) (r k : Nat) :
    supRank p hs r ≤ k ↔ ∀ h ∈ hs, idx p h = r → rank p h ≤ k := by
  induction hs with
  | nil => simp [supRank_nil]
  | cons x xs ih =>
    rw [supRank_cons]
    constructor
    · intro hle h hm hi
      rcases List.mem_cons.mp hm with rfl | hm
      · rw [if_pos hi] at hle; omega
      · apply ih.mp _ h hm hi
        split at hle <;> omega
    · intro hall
      have h2 := ih.mpr (fun h hm hi => hall h (List.mem_cons_of_mem _ hm) hi)
      split
      · rename_i hi
        have := hall x (List.mem_cons_self) hi
        omega
      · exact h2

/-- … hence a function of the set of hashed values only -/
theorem supRank_set (p : Nat) (xs ys : List Nat) (h : ∀ x, x ∈ xs ↔ x ∈ ys) (r : Nat) :
    supRank p xs r = supRank p ys r := by
  apply Nat.le_antisymm
  · apply (supRank_le_iff p xs r _).mpr
    intro x hx hi
    exact (supRank_le_iff p ys r _).mp (Nat.le_refl _) x ((h x).mp hx) hi
  · apply (supRank_le_iff p ys r _).mpr
    intro x hx hi
    exact (supRank_le_iff p xs r _).mp (Nat.le_refl _) x ((h x).mpr hx) hi

theorem supRank_append (p : Nat) (xs ys : List Nat) (r : Nat) :
    supRank p (xs ++ ys) r = max (supRank p xs r) (supRank p ys r) := by
  induction xs with
  | nil => simp [supRank_nil]
  | cons x xs ih =>
    rw [List.cons_append, supRank_cons, supRank_cons, ih]
    split <;> omega

/-- the supremum is attained (or it is 0 and no offered value selects the register) -/
theorem supRank_attained (p : Nat) (hs : List Nat) (r : Nat) :
    (supRank p hs r = 0 ∧ ∀ h ∈ hs, idx p h ≠ r) ∨
    (∃ h ∈ hs, idx p h = r ∧ rank p h = supRank p hs r) := by
  induction hs with
  | nil => left; simp [supRank_nil]
  | cons x xs ih =>
    rw [supRank_cons]
    by_cases hi : idx p x = r
    · rw [if_pos hi]
      right
      rcases ih with ⟨h0, _⟩ | ⟨h, hm, hi2, hr⟩
      · exact ⟨x, List.mem_cons_self, hi, by rw [h0]; omega⟩
      · by_cases hc : rank p x ≥ supRank p xs r
        · exact ⟨x, List.mem_cons_self, hi, by omega⟩
        · exact ⟨h, List.mem_cons_of_mem _ hm, hi2, by omega⟩
    · rw [if_neg hi]
      rcases ih with ⟨h0, hall⟩ | ⟨h, hm, hi2, hr⟩
      · left
        refine ⟨h0, ?_⟩
        intro h hm
        rcases List.mem_cons.mp hm with rfl | hm
        · exact hi
        · exact hall h hm
      · right; exact ⟨h, List.mem_cons_of_mem _ hm, hi2, hr⟩

theorem offerAll_cons (p : Nat) (ws : Array Nat) (h : Nat) (hs : List Nat) :
    offerAll p ws (h :: hs) = offerAll p (offerHashed p ws h).1 hs := rfl

theorem offerAll_wf (p : Nat) (ws : Array Nat) (hs : List Nat) (hp : PrecOK p) (hw : WFState p ws) :
    WFState p (offerAll p ws hs) := by
  induction hs generalizing ws with
  | nil => exact hw
  | cons h hs ih => rw [offerAll_cons]; exact ih _ (offerHashed_wf p ws h hp hw)

/-- **state_is_set_fn** (general start state): after offering `hs`, every register is the maximum
    of its old value and the supremum of the ranks that select it -/
theorem regGet_offerAll (p : Nat) (ws : Array Nat) (hs : List Nat) (r : Nat) (hp : PrecOK p)
    (hw : WFState p ws) (hh : ∀ h ∈ hs, Hashed h) :
    regGet (offerAll p ws hs) r = max (regGet ws r) (supRank p hs r) := by
  induction hs generalizing ws with
  | nil => simp [offerAll, supRank_nil]
  | cons h hs ih =>
    rw [offerAll_cons, ih _ (offerHashed_wf p ws h hp hw) (fun x hx => hh x (List.mem_cons_of_mem _ hx)),
      regGet_offerHashed p ws h r hp hw (hh h List.mem_cons_self), supRank_cons]
    split
    · rename_i hi; subst hi; omega
    · rfl

theorem stateOf_wf (p : Nat) (hs : List Nat) (hp : PrecOK p) : WFState p (stateOf p hs) :=
  offerAll_wf p _ hs hp (fresh_wf p)

theorem regGet_stateOf (p : Nat) (hs : List Nat) (r : Nat) (hp : PrecOK p) (hh : ∀ h ∈ hs, Hashed h) :
    regGet (stateOf p hs) r = supRank p hs r := by
  unfold stateOf
  rw [regGet_offerAll p _ hs r hp (fresh_wf p) hh, regGet_fresh, Nat.zero_max]

/-- two offer sequences with the same pointwise suprema lead to the same words -/
theorem offerAll_congr (p : Nat) (ws : Array Nat) (xs ys : List Nat) (hp : PrecOK p)
    (hw : WFState p ws) (hx : ∀ h ∈ xs, Hashed h) (hy : ∀ h ∈ ys, Hashed h)
    (h : ∀ r, supRank p xs r = supRank p ys r) : offerAll p ws xs = offerAll p ws ys := by
  have wx := offerAll_wf p ws xs hp hw
  have wy := offerAll_wf p ws ys hp hw
  apply state_ext _ _ (by rw [wx.size, wy.size]) wx.canon wy.canon
  intro r _
  rw [regGet_offerAll p ws xs r hp hw hx, regGet_offerAll p ws ys r hp hw hy, h r]

/-- offering is idempotent and commutative at the level of the words -/
theorem offerAll_set (p : Nat) (ws : Array Nat) (xs ys : List Nat) (hp : PrecOK p)
    (hw : WFState p ws) (hx : ∀ h ∈ xs, Hashed h) (hy : ∀ h ∈ ys, Hashed h)
    (h : ∀ x, x ∈ xs ↔ x ∈ ys) : offerAll p ws xs = offerAll p ws ys :=
  offerAll_congr p ws xs ys hp hw hx hy (supRank_set p xs ys h)

/-- the booleans: `Offer` returns true exactly when the selected register grows -/
theorem offerAllB_fst (p : Nat) (ws : Array Nat) (hs : List Nat) :
    (offerAllB p ws hs).1 = offerAll p ws hs := by
  unfold offerAllB offerAll
  simp only
  suffices ∀ (acc : List Bool) (ws : Array Nat),
      (hs.foldl (fun (s : Array Nat × List Bool) h =>
        ((offerHashed p s.1 h).1, (offerHashed p s.1 h).2 :: s.2)) (ws, acc)).1 =
      hs.foldl (fun s h => (offerHashed p s h).1) ws from this [] ws
  induction hs with
  | nil => intro acc ws; rfl
  | cons h hs ih => intro acc ws; simp only [List.foldl_cons]; exact ih _ _

/-! ### items through a hash function -/

theorem offerItems_eq {α : Type} (hash : α → Nat) (p : Nat) (ws : Array Nat) (xs : List α) :
    offerItems hash p ws xs = offerAll p ws (xs.map hash) := by
  unfold offerItems offerAll offer
  rw [List.foldl_map]

end HLL
