/-
  Golib.HLL.Serial — `GetBytes` / `BuildHyperLogLog` round trip.
-/
import Golib.HLL.State

namespace HLL
open Prim

/-- **bytes_roundtrip**: rebuilding from `GetBytes()` gives back precision, word count and
    words, and consumes exactly the bytes produced -/
theorem run_build_getBytes (p : Nat) (ws : Array Nat) (r : Bytes) (hp : p ≤ 30)
    (hs : ws.size < 2147483648) (hw : ∀ w ∈ ws.toList, w < 4294967296) :
    P.run build (getBytes p ws ++ r) = some ((p, ws), r) := by
  unfold build getBytes
  rw [List.append_assoc, P.run_bind_some _ _ _ _ _ (run_rdU 4 p _ (by simp only [Nat.reducePow]; omega))]
  rw [List.append_assoc, P.run_bind_some _ _ _ _ _ (run_rdI 4 (ws.size : Int) _
      ((inRange_4 _).mpr (by omega)))]
  have hn : ¬ ((ws.size : Int) < 0) := by omega
  rw [if_neg hn, Int.toNat_natCast]
  have hlen : ws.size = ws.toList.length := by simp
  rw [hlen]
  rw [P.run_bind_some _ _ _ _ _ (run_decMany (beN 4) (rdU 4) (fun w => w < 4294967296)
      (fun x r hx => run_rdU 4 x r (by simp only [Nat.reducePow]; exact hx)) ws.toList r hw)]
  rw [if_neg (by omega)]
  simp

theorem getBytes_length (p : Nat) (ws : Array Nat) : (getBytes p ws).length = 8 + 4 * ws.size := by
  unfold getBytes
  have : ∀ xs : List Nat, (encMany (beN 4) xs).length = 4 * xs.length := by
    intro xs
    induction xs with
    | nil => rfl
    | cons x xs ih => simp only [encMany, List.length_append, beN_length, ih, List.length_cons]; omega
  simp only [List.length_append, beN_length, encI_length, this, Array.length_toList]
  omega

/-- a well-formed state meets the hypotheses of the round trip -/
theorem wf_words_lt (p : Nat) (ws : Array Nat) (hw : WFState p ws) : ∀ w ∈ ws.toList, w < 4294967296 := by
  intro w hm
  rw [Array.mem_toList_iff, Array.mem_iff_getElem] at hm
  obtain ⟨i, hi, rfl⟩ := hm
  have := hw.canon i
  rw [getD_of_lt ws i 0 hi] at this
  omega

theorem wordCount_lt (p : Nat) (hp : p ≤ 30) : wordCount (2 ^ p) < 2147483648 := by
  have : ∀ p, p < 31 → wordCount (2 ^ p) < 2147483648 := by decide
  exact this p (by omega)

end HLL
