/-
  Golib.HLL.Model — CodeModel of /repo/util/hll/{HyperLogLog,RegisterSet}.go.

  * a hashed value is a `Nat` below 2^32 (the code's `uint32`); the hash itself is a
    parameter (its identity is property C15's business);
  * the register set is the array of packed words `M` (six 5-bit registers per word);
  * `idx`/`rank` are the expressions of `offerHashed`;
  * `Cardinality` is modelled by its decision logic over the exact integer register sum
    `S = Σ 2^(31 - reg)` (so that `registerSum = S / 2^31` exactly — all partial sums of the
    Go loop are exactly representable, see `HLL.regSum_exact`) with the floating-point
    formulas as the opaque parameter `Est`.

  The model describes the code *with proposed/C14/fix-D30.diff applied*
  (`cardBranch`); the behaviour of the unchanged code is `cardBranchOrig`.
-/
import Golib.HLL.Bits
import Golib.HLL.Word
import Golib.Prim.Codec

namespace HLL
open Prim

/-! ### offerHashed: register index and rank -/

/-- `j := hashedValue >> (32 - log2m)` -/
def idx (p h : Nat) : Nat := h / 2 ^ (32 - p)

/-- `(hashedValue<<log2m) | (1<<(log2m-1)) + 1` in `uint32` arithmetic
    (Go parses it as `((h<<p) | (1<<(p-1))) + 1`; `|` and `+` have the same precedence) -/
def rankArg (p h : Nat) : Nat :=
  ((((h * 2 ^ p) % 4294967296) ||| 2 ^ (p - 1)) + 1) % 4294967296

/-- `r := uint32(clz32(…) + 1)` -/
def rank (p h : Nat) : Nat := clz32 (rankArg p h) + 1

/-! ### RegisterSet -/

def LOG2_BITS_PER_WORD : Nat := 6
def REGISTER_SIZE : Nat := 5

/-- `getSizeForCount` -/
def wordCount (count : Nat) : Nat :=
  let bits := count / 6
  if bits = 0 then 1 else if bits % 32 = 0 then bits else bits + 1

/-- `NewRegisterSet(1 << log2m)` -/
def fresh (p : Nat) : Array Nat := Array.replicate (wordCount (2 ^ p)) 0

/-- `RegisterSet.Get(position)` -/
def regGet (ws : Array Nat) (r : Nat) : Nat := wordGet (ws.getD (r / 6) 0) (r % 6)

/-- `RegisterSet.Set(position, value)` -/
def regSet (ws : Array Nat) (r v : Nat) : Array Nat :=
  ws.setIfInBounds (r / 6) (wordSet (ws.getD (r / 6) 0) (r % 6) v)

/-- `RegisterSet.UpdateIfGreater(position, value)`: new words and the returned boolean.
    (The code stores only when the value grew; storing the unchanged word is the same.) -/
def regUpd (ws : Array Nat) (r v : Nat) : Array Nat × Bool :=
  let u := wordUpd (ws.getD (r / 6) 0) (r % 6) v
  (ws.setIfInBounds (r / 6) u.1, u.2)

/-- `RegisterSet.Merge(that)` (equal sizes; `AddAll` panics otherwise) -/
def merge (a b : Array Nat) : Array Nat := Array.zipWith mergeWord a b

/-! ### HyperLogLog -/

/-- `offerHashed(hashedValue)` -/
def offerHashed (p : Nat) (ws : Array Nat) (h : Nat) : Array Nat × Bool :=
  regUpd ws (idx p h) (rank p h)

/-- offering a sequence of hashed values; the booleans are returned in order -/
def offerAllB (p : Nat) (ws : Array Nat) (hs : List Nat) : Array Nat × List Bool :=
  let r := hs.foldl (fun (s : Array Nat × List Bool) h =>
    let o := offerHashed p s.1 h
    (o.1, o.2 :: s.2)) (ws, [])
  (r.1, r.2.reverse)

def offerAll (p : Nat) (ws : Array Nat) (hs : List Nat) : Array Nat :=
  hs.foldl (fun s h => (offerHashed p s h).1) ws

/-- `Offer(o)` / `OfferLong(o)`: hash, then `offerHashed` -/
def offer {α : Type} (hash : α → Nat) (p : Nat) (ws : Array Nat) (x : α) : Array Nat × Bool :=
  offerHashed p ws (hash x)

def offerItems {α : Type} (hash : α → Nat) (p : Nat) (ws : Array Nat) (xs : List α) : Array Nat :=
  xs.foldl (fun s x => (offer hash p s x).1) ws

/-- the state of a counter of precision `p` that was offered the hashed values `hs` -/
def stateOf (p : Nat) (hs : List Nat) : Array Nat := offerAll p (fresh p) hs

/-- `this.Merge(others…)`: a fresh register set, `AddAll(this)`, then `AddAll` of each -/
def mergeAll (p : Nat) (this : Array Nat) (others : List (Array Nat)) : Array Nat :=
  (this :: others).foldl merge (fresh p)

/-- `GetBytes()`: log2m, word count (`WriteInt(int32(Size))`), words — each a big-endian
    32-bit integer -/
def getBytes (p : Nat) (ws : Array Nat) : Bytes :=
  beN 4 p ++ (encI 4 (ws.size : Int) ++ encMany (beN 4) ws.toList)

/-- `BuildHyperLogLog(bytes)`: `none` where the code returns nil or panics.  Same order as the
    code: precision, word count (`make` panics on a negative count), the words, and only then
    `NewHyperLogLog` validates the precision (nil above 30). -/
def build : P (Nat × Array Nat) :=
  P.bind (rdU 4) (fun p =>
  P.bind (rdI 4) (fun n =>
    if n < 0 then .fail else
    P.bind (decMany (rdU 4) n.toNat) (fun ws =>
      if 30 < p then .fail else .pure (p, ws.toArray))))

/-! ### Cardinality -/

/-- the registers `0 … 2^p − 1` in order (the loop of `Cardinality`) -/
def regs (p : Nat) (ws : Array Nat) : List Nat := (List.range (2 ^ p)).map (regGet ws)

/-- `registerSum · 2^31`: every term `1/2^val` (`val ≤ 31`) scaled to an integer -/
def regSum (rs : List Nat) : Nat := (rs.map (fun v => 2 ^ (31 - v))).sum

/-- number of registers that are zero (`zeros`) -/
def zeros (rs : List Nat) : Nat := rs.count 0

/-- the floating-point formulas of `Cardinality`, opaque to the proofs:
    `raw p S` = `alphaMM * (1 / (S / 2^31))`, `small e m` = `e <= (5.0/2.0) * m`,
    `linear m V` = `uint64(Round(m * log(m / V)))`, `round e` = `uint64(Round(e))` -/
structure Est (α : Type) where
  raw : Nat → Nat → α
  small : α → Nat → Bool
  linear : Nat → Nat → Nat
  round : α → Nat

inductive Branch (α : Type) where
  | linear (m V : Nat)
  | raw (e : α)
deriving DecidableEq, Repr

/-- decision logic of `Cardinality` with fix-D30: linear counting only if some register is empty -/
def cardBranch {α : Type} (F : Est α) (p : Nat) (rs : List Nat) : Branch α :=
  let e := F.raw p (regSum rs)
  if F.small e (2 ^ p) && zeros rs != 0 then .linear (2 ^ p) (zeros rs) else .raw e

/-- decision logic of `Cardinality` as it stands in the unchanged code -/
def cardBranchOrig {α : Type} (F : Est α) (p : Nat) (rs : List Nat) : Branch α :=
  let e := F.raw p (regSum rs)
  if F.small e (2 ^ p) then .linear (2 ^ p) (zeros rs) else .raw e

def Branch.eval {α : Type} (F : Est α) : Branch α → Nat
  | .linear m V => F.linear m V
  | .raw e => F.round e

def cardinality {α : Type} (F : Est α) (p : Nat) (ws : Array Nat) : Nat :=
  (cardBranch F p (regs p ws)).eval F

def cardinalityOrig {α : Type} (F : Est α) (p : Nat) (ws : Array Nat) : Nat :=
  (cardBranchOrig F p (regs p ws)).eval F

/-- the decimal constants of `getAlphaMM` and of the small-range threshold, as written in
    the source: (mantissa, number of decimals) -/
structure Consts where
  alpha4 : Nat × Nat
  alpha5 : Nat × Nat
  alpha6 : Nat × Nat
  alphaInf : Nat × Nat
  alphaCorr : Nat × Nat
  thresholdNum : Nat × Nat
  thresholdDen : Nat × Nat
deriving DecidableEq, Repr

def consts : Consts :=
  { alpha4 := (673, 3), alpha5 := (697, 3), alpha6 := (709, 3),
    alphaInf := (7213, 4), alphaCorr := (1079, 3),
    thresholdNum := (50, 1), thresholdDen := (20, 1) }

end HLL
