/-
  Golib.HLL.Word — six 5-bit registers packed in one 32-bit word.

  CodeModel of the word-level part of /repo/util/hll/RegisterSet.go
  (`Get`, `Set`, `UpdateIfGreater`, the inner loop of `Merge`) in arithmetic
  form: register `i` of word `w` is the base-32 digit `w / 32^i % 32`
  (`(w & (0x1f << 5i)) >> 5i` in the code).  Literal powers of two so that
  `omega` decides everything after a case split on `i < 6`.
-/

namespace HLL

/-- `RegisterSet.Get` on one word: `(w & (0x1f << shift)) >> shift`, `shift = 5·i` -/
def wordGet (w i : Nat) : Nat := w / 2 ^ (5 * i) % 32

/-- `RegisterSet.Set` on one word: `(w & ^(0x1f << shift)) | (v << shift)` (for `v < 32`) -/
def wordSet (w i v : Nat) : Nat := w - wordGet w i * 2 ^ (5 * i) + v * 2 ^ (5 * i)

/-- `RegisterSet.UpdateIfGreater` on one word: compare the masked current value with the
    shifted new value, store the new value if greater; returns the word and "changed" -/
def wordUpd (w i v : Nat) : Nat × Bool :=
  if wordGet w i < v then (wordSet w i v, true) else (w, false)

/-- inner loop of `RegisterSet.Merge`: register-wise maximum, bits 30/31 dropped -/
def mergeWord (a b : Nat) : Nat :=
  max (wordGet a 0) (wordGet b 0)
  + max (wordGet a 1) (wordGet b 1) * 32
  + max (wordGet a 2) (wordGet b 2) * 1024
  + max (wordGet a 3) (wordGet b 3) * 32768
  + max (wordGet a 4) (wordGet b 4) * 1048576
  + max (wordGet a 5) (wordGet b 5) * 33554432

theorem wordGet_lt (w i : Nat) : wordGet w i < 32 := Nat.mod_lt _ (by decide)

theorem lt6_cases (i : Nat) (h : i < 6) : i = 0 ∨ i = 1 ∨ i = 2 ∨ i = 3 ∨ i = 4 ∨ i = 5 := by omega

/-- the packed-register law: `get (set w i v) j = if i = j then v else get w j` -/
theorem wordGet_wordSet (w i j v : Nat) (hi : i < 6) (hj : j < 6) (hv : v < 32) :
    wordGet (wordSet w i v) j = if i = j then v else wordGet w j := by
  rcases lt6_cases i hi with rfl | rfl | rfl | rfl | rfl | rfl <;>
  rcases lt6_cases j hj with rfl | rfl | rfl | rfl | rfl | rfl <;>
  simp only [wordSet, wordGet, Nat.reducePow, Nat.reduceMul, Nat.reduceEqDiff, if_true, if_false] <;>
  omega

theorem wordSet_lt32 (w i v : Nat) (hi : i < 6) (hv : v < 32) (hw : w < 4294967296) :
    wordSet w i v < 4294967296 := by
  rcases lt6_cases i hi with rfl | rfl | rfl | rfl | rfl | rfl <;>
  simp only [wordSet, wordGet, Nat.reducePow, Nat.reduceMul] <;> omega

theorem wordSet_lt30 (w i v : Nat) (hi : i < 6) (hv : v < 32) (hw : w < 1073741824) :
    wordSet w i v < 1073741824 := by
  rcases lt6_cases i hi with rfl | rfl | rfl | rfl | rfl | rfl <;>
  simp only [wordSet, wordGet, Nat.reducePow, Nat.reduceMul] <;> omega

/-- storing the value that is already there changes nothing -/
theorem wordSet_same (w i : Nat) (hi : i < 6) : wordSet w i (wordGet w i) = w := by
  rcases lt6_cases i hi with rfl | rfl | rfl | rfl | rfl | rfl <;>
  simp only [wordSet, wordGet, Nat.reducePow, Nat.reduceMul] <;> omega

/-- a 30-bit word is determined by its six registers -/
theorem word_ext (a b : Nat) (ha : a < 1073741824) (hb : b < 1073741824)
    (h : ∀ i, i < 6 → wordGet a i = wordGet b i) : a = b := by
  have h0 := h 0 (by decide); have h1 := h 1 (by decide); have h2 := h 2 (by decide)
  have h3 := h 3 (by decide); have h4 := h 4 (by decide); have h5 := h 5 (by decide)
  simp only [wordGet, Nat.reducePow, Nat.reduceMul] at h0 h1 h2 h3 h4 h5
  omega

/-- `UpdateIfGreater` stores the maximum of the old and the offered value … -/
theorem wordUpd_fst (w i v : Nat) (hi : i < 6) :
    (wordUpd w i v).1 = wordSet w i (max (wordGet w i) v) := by
  unfold wordUpd
  split
  · rw [Nat.max_eq_right (by omega)]
  · rw [Nat.max_eq_left (by omega), wordSet_same w i hi]

/-- … and reports whether the register grew -/
theorem wordUpd_snd (w i v : Nat) : (wordUpd w i v).2 = decide (wordGet w i < v) := by
  unfold wordUpd
  split <;> simp [*]

theorem wordGet_wordUpd (w i j v : Nat) (hi : i < 6) (hj : j < 6) (hv : v < 32) :
    wordGet (wordUpd w i v).1 j = if i = j then max (wordGet w i) v else wordGet w j := by
  rw [wordUpd_fst w i v hi]
  exact wordGet_wordSet w i j _ hi hj (by have := wordGet_lt w i; omega)

theorem wordUpd_lt30 (w i v : Nat) (hi : i < 6) (hv : v < 32) (hw : w < 1073741824) :
    (wordUpd w i v).1 < 1073741824 := by
  unfold wordUpd
  split
  · exact wordSet_lt30 w i v hi hv hw
  · exact hw

theorem max_lt32 {a b : Nat} (ha : a < 32) (hb : b < 32) : max a b < 32 := by
  rw [Nat.max_def]; split <;> assumption

theorem wordGet_pack (m0 m1 m2 m3 m4 m5 : Nat) (h0 : m0 < 32) (h1 : m1 < 32) (h2 : m2 < 32)
    (h3 : m3 < 32) (h4 : m4 < 32) (h5 : m5 < 32) :
    let w := m0 + m1 * 32 + m2 * 1024 + m3 * 32768 + m4 * 1048576 + m5 * 33554432
    wordGet w 0 = m0 ∧ wordGet w 1 = m1 ∧ wordGet w 2 = m2 ∧ wordGet w 3 = m3 ∧
    wordGet w 4 = m4 ∧ wordGet w 5 = m5 ∧ w < 1073741824 := by
  simp only [wordGet, Nat.reducePow, Nat.reduceMul]
  omega

theorem mergeWord_spec (a b : Nat) :
    wordGet (mergeWord a b) 0 = max (wordGet a 0) (wordGet b 0) ∧
    wordGet (mergeWord a b) 1 = max (wordGet a 1) (wordGet b 1) ∧
    wordGet (mergeWord a b) 2 = max (wordGet a 2) (wordGet b 2) ∧
    wordGet (mergeWord a b) 3 = max (wordGet a 3) (wordGet b 3) ∧
    wordGet (mergeWord a b) 4 = max (wordGet a 4) (wordGet b 4) ∧
    wordGet (mergeWord a b) 5 = max (wordGet a 5) (wordGet b 5) ∧
    mergeWord a b < 1073741824 :=
  wordGet_pack _ _ _ _ _ _
    (max_lt32 (wordGet_lt a 0) (wordGet_lt b 0)) (max_lt32 (wordGet_lt a 1) (wordGet_lt b 1))
    (max_lt32 (wordGet_lt a 2) (wordGet_lt b 2)) (max_lt32 (wordGet_lt a 3) (wordGet_lt b 3))
    (max_lt32 (wordGet_lt a 4) (wordGet_lt b 4)) (max_lt32 (wordGet_lt a 5) (wordGet_lt b 5))

/-- merged register = maximum of the two registers -/
theorem wordGet_mergeWord (a b i : Nat) (hi : i < 6) :
    wordGet (mergeWord a b) i = max (wordGet a i) (wordGet b i) := by
  obtain ⟨h0, h1, h2, h3, h4, h5, _⟩ := mergeWord_spec a b
  rcases lt6_cases i hi with rfl | rfl | rfl | rfl | rfl | rfl <;> assumption

theorem mergeWord_lt30 (a b : Nat) : mergeWord a b < 1073741824 := (mergeWord_spec a b).2.2.2.2.2.2

theorem mergeWord_comm (a b : Nat) : mergeWord a b = mergeWord b a := by
  unfold mergeWord; simp only [Nat.max_comm]

theorem mergeWord_assoc (a b c : Nat) :
    mergeWord (mergeWord a b) c = mergeWord a (mergeWord b c) := by
  apply word_ext _ _ (mergeWord_lt30 _ _) (mergeWord_lt30 _ _)
  intro i hi
  rw [wordGet_mergeWord _ _ i hi, wordGet_mergeWord _ _ i hi, wordGet_mergeWord _ _ i hi,
    wordGet_mergeWord _ _ i hi, Nat.max_assoc]

theorem mergeWord_idem (a : Nat) (ha : a < 1073741824) : mergeWord a a = a := by
  apply word_ext _ _ (mergeWord_lt30 _ _) ha
  intro i hi
  rw [wordGet_mergeWord _ _ i hi, Nat.max_self]

/-- merging with the empty word is the identity on canonical (30-bit) words -/
theorem mergeWord_zero_left (a : Nat) (ha : a < 1073741824) : mergeWord 0 a = a := by
  apply word_ext _ _ (mergeWord_lt30 _ _) ha
  intro i hi
  rw [wordGet_mergeWord _ _ i hi]
  have : wordGet 0 i = 0 := by simp [wordGet]
  rw [this, Nat.zero_max]

end HLL
