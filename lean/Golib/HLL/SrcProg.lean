/-
  Golib.HLL.SrcProg — tie A for the byte form: `GetBytes` and `BuildHyperLogLog` as *interpreted*
  statement lists.

  `xlate/c14` transcribes the two function bodies into the step lists below (locals are named
  v0, v1, … in order of definition).  The steps have a semantics — `WStep.run` produces the bytes,
  `RStep.sem` a decoder in the parser monad `P` — and the bridge theorems say that the transcribed
  programs are the model's `getBytes` and `build` for all inputs.
-/
import Golib.HLL.Src
import Golib.HLL.Serial

namespace HLL.Src
open HLL Prim

/-! ### writer programs -/

inductive WStep
  | newOut (v : String)                                  -- v := io.NewDataOutputX()
  | writeInt (out : String) (e : Ex)                     -- out.WriteInt(e)      (e of type int32)
  | forWriteInt (out : String) (coll : String) (x : String) (e : Ex)
                                                         -- for _, x := range recv.coll() { out.WriteInt(e) }
  | retBytes (out : String)                              -- return out.ToByteArray()
  | unknown (why : String)
deriving DecidableEq, Repr

def Env.withLoc (ρ : Env) (x : String) (v : Nat) : Env :=
  { ρ with locv := fun n => if n = x then v else ρ.locv n }

/-- `WriteInt(int32(v))`: the four bytes of `v mod 2^32`, most significant first -/
def writeInt32 (v : Nat) : Bytes := beN 4 (v % 4294967296)

/-- bytes written by a program (one output stream; `none` for a shape that is not understood) -/
def WStep.run (ρ : Env) (colls : String → List Nat) : List WStep → Bytes → Option Bytes
  | [], _ => none
  | .newOut _ :: rest, _ => WStep.run ρ colls rest []
  | .writeInt _ e :: rest, acc => WStep.run ρ colls rest (acc ++ writeInt32 (e.eval ρ))
  | .forWriteInt _ c x e :: rest, acc =>
    WStep.run ρ colls rest (acc ++ encMany (fun w => writeInt32 (e.eval (ρ.withLoc x w))) (colls c))
  | .retBytes _ :: _, acc => some acc
  | .unknown _ :: _, _ => none

/-- `GetBytes` -/
def getBytesProg : List WStep :=
  [.newOut "v0",
   .writeInt "v0" (.conv 63 (.recv "log2m")),
   .writeInt "v0" (.conv 63 (.recv "registerSet.Size")),
   .forWriteInt "v0" "registerSet.ReadOnlyBits" "v1" (.conv 63 (.loc "v1")),
   .retBytes "v0"]

theorem encMany_congr {α : Type} (f g : α → Bytes) (xs : List α) (h : ∀ x ∈ xs, f x = g x) :
    encMany f xs = encMany g xs := by
  induction xs with
  | nil => rfl
  | cons x xs ih =>
    simp only [encMany]
    rw [h x List.mem_cons_self, ih (fun y hy => h y (List.mem_cons_of_mem _ hy))]

theorem encI4_natCast (n : Nat) (h : n < 4294967296) : encI 4 (n : Int) = beN 4 n := by
  unfold encI toU modulus
  congr 1
  have : ((256 ^ 4 : Nat) : Int) = 4294967296 := by decide
  rw [this]
  omega

/-- **GetBytes**: the transcribed program writes the model's `getBytes` -/
theorem getBytes_bridge (ρ : Env) (colls : String → List Nat) (p : Nat) (ws : Array Nat)
    (hl : ρ.fldv "log2m" = p) (hsz : ρ.fldv "registerSet.Size" = ws.size)
    (hc : colls "registerSet.ReadOnlyBits" = ws.toList)
    (hp : p < 4294967296) (hs : ws.size < 4294967296) (hw : ∀ w ∈ ws.toList, w < 4294967296) :
    WStep.run ρ colls getBytesProg [] = some (getBytes p ws) := by
  simp only [getBytesProg, WStep.run, Ex.eval, trunc, card, hl, hsz, hc, writeInt32, List.nil_append]
  simp only [Nat.reduceEqDiff, if_false]
  have e1 : p % 18446744073709551616 % 4294967296 = p := by omega
  have e2 : ws.size % 18446744073709551616 % 4294967296 = ws.size := by omega
  rw [e1, e2]
  have e3 : encMany (fun w => beN 4 ((ρ.withLoc "v1" w).locv "v1" % 18446744073709551616 % 4294967296))
      ws.toList = encMany (beN 4) ws.toList := by
    apply encMany_congr
    intro w hm
    have := hw w hm
    simp only [Env.withLoc, if_true]
    congr 1; omega
  rw [e3]
  unfold getBytes
  rw [encI4_natCast _ hs, List.append_assoc]

/-! ### reader programs -/

inductive RStep
  | newIn (v : String) (src : Ex)              -- v := io.NewDataInputX(src)
  | readU32 (v : String) (inp : String)        -- v := uint32(inp.ReadInt())
  | readI32 (v : String) (inp : String)        -- v := inp.ReadInt()
  | makeU32 (v : String) (cnt : String)        -- v := make([]uint32, cnt)
  | fillU32 (arr : String) (cnt : String) (inp : String)
                                               -- for i := 0; i < int(cnt); i++ { arr[i] = uint32(inp.ReadInt()) }
  | retNew (log2m : String) (arr : String)     -- return NewHyperLogLog(log2m, NewRegisterSetInit(int(1<<log2m), arr))
  | unknown (why : String)
deriving DecidableEq, Repr

structure Store where
  int : String → Int
  arr : String → List Nat

def Store.setInt (σ : Store) (x : String) (v : Int) : Store :=
  { σ with int := fun n => if n = x then v else σ.int n }
def Store.setArr (σ : Store) (x : String) (v : List Nat) : Store :=
  { σ with arr := fun n => if n = x then v else σ.arr n }

/-- meaning of a reader program as a decoder: `ReadInt` reads four bytes (signed, or its
    `uint32` conversion), `make` panics on a negative length, the loop reads `cnt` words,
    `NewHyperLogLog` returns nil for a precision above 30 (`validateLog2m`).
    (Input-count guards `CheckCount` are listed separately by the translator — `countGuards` —
    and reject only input on which the reads below fail anyway.) -/
def RStep.sem : List RStep → Store → P (Nat × Array Nat)
  | [], _ => .fail
  | .newIn _ _ :: rest, σ => RStep.sem rest σ
  | .readU32 v _ :: rest, σ => P.bind (rdU 4) (fun x => RStep.sem rest (σ.setInt v (x : Int)))
  | .readI32 v _ :: rest, σ => P.bind (rdI 4) (fun x => RStep.sem rest (σ.setInt v x))
  | .makeU32 v cnt :: rest, σ =>
    if σ.int cnt < 0 then .fail else RStep.sem rest (σ.setArr v (List.replicate (σ.int cnt).toNat 0))
  | .fillU32 arr cnt _ :: rest, σ =>
    P.bind (decMany (rdU 4) (σ.int cnt).toNat) (fun ws => RStep.sem rest (σ.setArr arr ws))
  | .retNew l a :: _, σ =>
    if 30 < σ.int l then .fail else .pure ((σ.int l).toNat, (σ.arr a).toArray)
  | .unknown _ :: _, _ => .fail

/-- `BuildHyperLogLog` -/
def buildProg : List RStep :=
  [.newIn "v0" (.arg 0),
   .readU32 "v1" "v0",
   .readI32 "v2" "v0",
   .makeU32 "v3" "v2",
   .fillU32 "v3" "v2" "v0",
   .retNew "v1" "v3"]

/-- the store after the two scalar reads and the allocation -/
def st2 (σ : Store) (x n : Int) : Store :=
  ((σ.setInt "v1" x).setInt "v2" n).setArr "v3" (List.replicate (((σ.setInt "v1" x).setInt "v2" n).int "v2").toNat 0)

def buildUnfolded (σ : Store) : P (Nat × Array Nat) :=
  P.bind (rdU 4) (fun x => P.bind (rdI 4) (fun n =>
    if ((σ.setInt "v1" (x : Int)).setInt "v2" n).int "v2" < 0 then P.fail else
    P.bind (decMany (rdU 4) ((st2 σ (x : Int) n).int "v2").toNat)
      (fun ws =>
        if 30 < (((st2 σ (x : Int) n).setArr "v3" ws)).int "v1" then P.fail
        else P.pure (((((st2 σ (x : Int) n).setArr "v3" ws)).int "v1").toNat,
          ((((st2 σ (x : Int) n).setArr "v3" ws)).arr "v3").toArray))))

set_option maxRecDepth 8192 in
theorem sem_buildProg (σ : Store) : RStep.sem buildProg σ = buildUnfolded σ := rfl

theorem store_v2 (σ : Store) (x n : Int) : ((σ.setInt "v1" x).setInt "v2" n).int "v2" = n := by
  simp [Store.setInt]

theorem store_v1 (σ : Store) (x n : Int) (b : List Nat) :
    ((st2 σ x n).setArr "v3" b).int "v1" = x := by
  have e2 : ("v1" = "v2") = False := by decide
  simp [st2, Store.setInt, Store.setArr, e2]

theorem store_v2' (σ : Store) (x n : Int) : (st2 σ x n).int "v2" = n := by
  simp [st2, Store.setInt, Store.setArr]

theorem store_v3 (σ : Store) (b : List Nat) : (σ.setArr "v3" b).arr "v3" = b := by
  simp [Store.setArr]

theorem buildUnfolded_eq (σ : Store) : buildUnfolded σ = build := by
  have hb : build = P.bind (rdU 4) (fun p => P.bind (rdI 4) (fun n =>
      if n < 0 then P.fail else P.bind (decMany (rdU 4) n.toNat) (fun ws =>
        if 30 < p then P.fail else P.pure (p, ws.toArray)))) := rfl
  refine Eq.trans ?_ hb.symm
  unfold buildUnfolded
  refine congrArg (P.bind (rdU 4)) (funext fun p => ?_)
  refine congrArg (P.bind (rdI 4)) (funext fun n => ?_)
  simp only [store_v2, store_v2']
  split
  · rfl
  · refine congrArg (P.bind (decMany (rdU 4) n.toNat)) (funext fun ws => ?_)
    simp only [store_v1, store_v3]
    have : ((30 : Int) < (p : Int)) ↔ 30 < p := by omega
    simp only [this, Int.toNat_natCast]

/-- **BuildHyperLogLog**: the transcribed program is the model's decoder `build` -/
theorem build_bridge (σ : Store) : RStep.sem buildProg σ = build :=
  (sem_buildProg σ).trans (buildUnfolded_eq σ)

end HLL.Src
