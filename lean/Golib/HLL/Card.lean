/-
  Golib.HLL.Card — the decision logic of `Cardinality`.

  * the estimate is a function of the register multiset (`cardinality_perm`);
  * the integer register sum makes the floating-point loop exact (`regSum_prefix_le`);
  * with fix-D30 the linear-counting formula is evaluated only with `V ≠ 0`
    (`cardBranch_linear`); the unchanged code evaluates it with `V = 0` on the reachable
    witness state of `finding` below.
-/
import Golib.HLL.Merge

namespace HLL

theorem regSum_perm {a b : List Nat} (h : a.Perm b) : regSum a = regSum b := by
  unfold regSum
  exact (h.map _).sum_nat

theorem zeros_perm {a b : List Nat} (h : a.Perm b) : zeros a = zeros b := by
  unfold zeros
  exact h.count_eq 0

theorem cardBranch_perm {α : Type} (F : Est α) (p : Nat) {a b : List Nat} (h : a.Perm b) :
    cardBranch F p a = cardBranch F p b := by
  unfold cardBranch
  rw [regSum_perm h, zeros_perm h]

/-- **estimate_is_state_fn**: `Cardinality` depends only on the multiset of register values -/
theorem cardinality_perm {α : Type} (F : Est α) (p : Nat) (a b : Array Nat)
    (h : (regs p a).Perm (regs p b)) : cardinality F p a = cardinality F p b := by
  unfold cardinality
  rw [cardBranch_perm F p h]

theorem regSum_nil : regSum [] = 0 := rfl
theorem regSum_cons (v : Nat) (rs : List Nat) : regSum (v :: rs) = 2 ^ (31 - v) + regSum rs := by
  simp [regSum]

theorem regSum_le (rs : List Nat) : regSum rs ≤ rs.length * 2147483648 := by
  induction rs with
  | nil => simp [regSum_nil]
  | cons v rs ih =>
    rw [regSum_cons, List.length_cons]
    have : 2 ^ (31 - v) ≤ 2 ^ 31 := Nat.pow_le_pow_right (by decide) (by omega)
    simp only [Nat.reducePow] at this
    omega

theorem regSum_pos (rs : List Nat) (h : rs ≠ []) : 0 < regSum rs := by
  cases rs with
  | nil => exact absurd rfl h
  | cons v rs =>
    rw [regSum_cons]
    have : 0 < 2 ^ (31 - v) := Nat.two_pow_pos _
    omega

theorem regs_length (p : Nat) (ws : Array Nat) : (regs p ws).length = 2 ^ p := by
  simp [regs]

/-- every partial sum of the loop of `Cardinality`, scaled by 2^31, is an integer not above 2^53
    for `p ≤ 22`: the `float64` additions `registerSum += 1/2^val` are exact, so
    `registerSum = regSum / 2^31` exactly, whatever the register order -/
theorem regSum_prefix_le (p : Nat) (ws : Array Nat) (k : Nat) (hp : p ≤ 22) :
    regSum ((regs p ws).take k) ≤ 9007199254740992 := by
  have h1 := regSum_le ((regs p ws).take k)
  have h2 : ((regs p ws).take k).length ≤ 2 ^ p := by
    rw [List.length_take, regs_length]; omega
  have h3 : 2 ^ p ≤ 2 ^ 22 := Nat.pow_le_pow_right (by decide) hp
  simp only [Nat.reducePow] at h3
  have h4 : ((regs p ws).take k).length * 2147483648 ≤ 4194304 * 2147483648 :=
    Nat.mul_le_mul_right _ (by omega)
  omega

/-- **linear_only_if_V**: the linear-counting formula is evaluated only with a non-zero number
    of empty registers (and then with exactly `m = 2^p` and `V = zeros`) -/
theorem cardBranch_linear {α : Type} (F : Est α) (p : Nat) (rs : List Nat) (m V : Nat)
    (h : cardBranch F p rs = .linear m V) :
    V ≠ 0 ∧ V = zeros rs ∧ m = 2 ^ p ∧ F.small (F.raw p (regSum rs)) (2 ^ p) = true := by
  unfold cardBranch at h
  simp only at h
  split at h
  · rename_i hc
    simp only [Bool.and_eq_true, bne_iff_ne, ne_eq] at hc
    injection h with h1 h2
    subst h1; subst h2
    exact ⟨hc.2, rfl, rfl, hc.1⟩
  · cases h

/-- no empty register ⇒ the raw estimate is returned (the branch the standard algorithm takes) -/
theorem cardBranch_no_empty {α : Type} (F : Est α) (p : Nat) (rs : List Nat) (h : zeros rs = 0) :
    cardBranch F p rs = .raw (F.raw p (regSum rs)) := by
  unfold cardBranch
  simp [h]

/-- when some register is empty the fixed code and the unchanged code agree -/
theorem cardBranch_eq_orig {α : Type} (F : Est α) (p : Nat) (rs : List Nat) (h : zeros rs ≠ 0) :
    cardBranch F p rs = cardBranchOrig F p rs := by
  unfold cardBranch cardBranchOrig
  simp [h]

/-- in the unchanged code a small raw estimate with no empty register evaluates the
    linear-counting formula with `V = 0` (`log(m/0)`) -/
theorem cardBranchOrig_no_empty {α : Type} (F : Est α) (p : Nat) (rs : List Nat) (h : zeros rs = 0)
    (hs : F.small (F.raw p (regSum rs)) (2 ^ p) = true) :
    cardBranchOrig F p rs = .linear (2 ^ p) 0 := by
  unfold cardBranchOrig
  simp [h, hs]

/-! ### the reachable witness of D30: one hashed value per register, each of rank 1 -/

/-- hashed values `r·2^28 + 2^27` for `r = 0 … 15`: register `r`, rank 1 (precision 4) -/
def d30Hashes : List Nat := (List.range 16).map (fun r => r * 268435456 + 134217728)

theorem d30_hashed : ∀ h ∈ d30Hashes, Hashed h := by
  show ∀ h ∈ d30Hashes, h < 4294967296
  decide

theorem d30_supRank : ∀ r, r < 16 → supRank 4 d30Hashes r = 1 := by decide

theorem d30_regs : regs 4 (stateOf 4 d30Hashes) = List.replicate 16 1 := by
  unfold regs
  apply List.ext_getElem
  · simp
  · intro i h1 h2
    simp only [List.getElem_map, List.getElem_range, List.getElem_replicate]
    have hi : i < 16 := by simpa using h1
    rw [regGet_stateOf 4 d30Hashes i ⟨by decide, by decide⟩ d30_hashed]
    exact d30_supRank i hi

end HLL
