/-
  Golib.HLL.EstSpec — a real-valued (rational) specification of `Cardinality`.

  The floating-point formulas of the code are the opaque parameter `Est` of the CodeModel.  Here the
  parameter is instantiated with exact rational arithmetic:

      raw     = alpha_p · m² / (S / 2^31)            (S = regSum, so S/2^31 = Σ 2^(-M[j]))
      small e = e ≤ 5/2 · m
      linear  = round (m · ln (m / V))               (`ln` stays a parameter)
      round x = ⌊x + 1/2⌋

  (`alpha_p` is built from the decimals of `HLL.consts`, which tie A regenerates from the source.)
  About this specification the decision logic is proved at full strength: which branch is taken as a
  function of (raw, V); the raw estimate is antitone in the register sum, hence monotone in every
  register, hence never decreased by an offer; an empty counter estimates 0; with no empty register
  the raw estimate is returned (fix-D30) — and the unchanged code provably evaluates ln(m/0) on the
  D30 witness, now without any assumption on the comparison.
-/
import Golib.HLL.Card

namespace HLL

/-! ### `getSizeForCount` for arbitrary counts -/

/-- exactly for which register counts `getSizeForCount` allocates enough words -/
theorem wordCount_suffices_iff (c : Nat) :
    c ≤ 6 * wordCount c ↔ (c / 6 = 0 ∨ c / 6 % 32 ≠ 0 ∨ c % 6 = 0) := by
  unfold wordCount
  simp only
  split
  · omega
  · split <;> omega

/-- … and by how much it falls short otherwise: `c % 6` registers have no word -/
theorem wordCount_shortfall (c : Nat) (h1 : c / 6 ≠ 0) (h2 : c / 6 % 32 = 0) :
    6 * wordCount c + c % 6 = c := by
  unfold wordCount
  simp only [h1, h2, if_false, if_true]
  omega

theorem two_pow_mod_192 (p : Nat) (hp : 6 ≤ p) : 2 ^ p % 192 = 64 ∨ 2 ^ p % 192 = 128 := by
  induction p with
  | zero => omega
  | succ n ih =>
    rcases Nat.lt_or_ge n 6 with h | h
    · have : n = 5 := by omega
      subst this; decide
    · rw [Nat.pow_succ]
      rcases ih h with e | e <;> omega

/-- every power of two is allocated enough words (all precisions, not only 4..16) -/
theorem wordCount_two_pow (p : Nat) : 2 ^ p ≤ 6 * wordCount (2 ^ p) := by
  rcases Nat.lt_or_ge p 6 with h | h
  · have : p = 0 ∨ p = 1 ∨ p = 2 ∨ p = 3 ∨ p = 4 ∨ p = 5 := by omega
    rcases this with rfl | rfl | rfl | rfl | rfl | rfl <;> decide
  · apply (wordCount_suffices_iff _).mpr
    have := two_pow_mod_192 p h
    omega

/-- `AddAll` compares `Sizeof()` (word counts), the model compares precisions: the same test,
    because distinct precisions ≥ 2 have distinct word counts (precisions 0, 1, 2 share one word) -/
theorem wordCount_injective : ∀ p, p < 31 → ∀ q, q < 31 → 2 ≤ p → 2 ≤ q →
    wordCount (2 ^ p) = wordCount (2 ^ q) → p = q := by decide

/-! ### the decision logic, for any instantiation of the formulas -/

/-- which branch `Cardinality` takes, as a function of the raw estimate and `V` (fixed code) -/
theorem cardBranch_cases {α : Type} (F : Est α) (p : Nat) (rs : List Nat) :
    (F.small (F.raw p (regSum rs)) (2 ^ p) = true ∧ zeros rs ≠ 0 ∧
      cardBranch F p rs = .linear (2 ^ p) (zeros rs)) ∨
    ((F.small (F.raw p (regSum rs)) (2 ^ p) = false ∨ zeros rs = 0) ∧
      cardBranch F p rs = .raw (F.raw p (regSum rs))) := by
  unfold cardBranch
  by_cases h1 : F.small (F.raw p (regSum rs)) (2 ^ p) = true
  · by_cases h2 : zeros rs = 0
    · right; simp [h1, h2]
    · left; simp [h1, h2]
  · right
    have : F.small (F.raw p (regSum rs)) (2 ^ p) = false := by
      cases h : F.small (F.raw p (regSum rs)) (2 ^ p) <;> simp_all
    simp [this]

/-! ### registers only grow; the register sum only shrinks -/

/-- pointwise order on register lists -/
def RegsLe : List Nat → List Nat → Prop
  | [], [] => True
  | a :: as, b :: bs => a ≤ b ∧ RegsLe as bs
  | _, _ => False

theorem regSum_antitone : ∀ (a b : List Nat), RegsLe a b → regSum b ≤ regSum a
  | [], [], _ => Nat.le_refl _
  | x :: as, y :: bs, h => by
    rw [regSum_cons, regSum_cons]
    have h1 : 2 ^ (31 - y) ≤ 2 ^ (31 - x) := Nat.pow_le_pow_right (by decide) (by have := h.1; omega)
    have h2 := regSum_antitone as bs h.2
    omega
  | [], _ :: _, h => absurd h (by simp [RegsLe])
  | _ :: _, [], h => absurd h (by simp [RegsLe])

theorem zeros_antitone : ∀ (a b : List Nat), RegsLe a b → zeros b ≤ zeros a
  | [], [], _ => Nat.le_refl _
  | x :: as, y :: bs, h => by
    have h2 := zeros_antitone as bs h.2
    unfold zeros at *
    rw [List.count_cons, List.count_cons]
    have : (if y == 0 then 1 else 0) ≤ (if x == 0 then 1 else 0) := by
      by_cases hy : y = 0
      · have : x = 0 := by have := h.1; omega
        simp [hy, this]
      · simp [hy]
    omega
  | [], _ :: _, h => absurd h (by simp [RegsLe])
  | _ :: _, [], h => absurd h (by simp [RegsLe])

theorem RegsLe_map_range (f g : Nat → Nat) (n : Nat) (h : ∀ r, r < n → f r ≤ g r) :
    RegsLe ((List.range n).map f) ((List.range n).map g) := by
  induction n with
  | zero => simp [RegsLe]
  | succ n ih =>
    rw [List.range_succ, List.map_append, List.map_append]
    have key : ∀ (xs ys : List Nat) (a b : Nat), RegsLe xs ys → a ≤ b → RegsLe (xs ++ [a]) (ys ++ [b]) := by
      intro xs
      induction xs with
      | nil => intro ys a b h hab; cases ys with
        | nil => simp [RegsLe, hab]
        | cons _ _ => simp [RegsLe] at h
      | cons x xs ihx => intro ys a b h hab; cases ys with
        | nil => simp [RegsLe] at h
        | cons y ys => exact ⟨h.1, ihx ys a b h.2 hab⟩
    exact key _ _ _ _ (ih (fun r hr => h r (by omega))) (h n (by omega))

/-- an offer never lowers a register -/
theorem regs_offer_le (p : Nat) (ws : Array Nat) (h : Nat) (hp : PrecOK p) (hw : WFState p ws)
    (hh : Hashed h) : RegsLe (regs p ws) (regs p (offerHashed p ws h).1) := by
  unfold regs
  apply RegsLe_map_range
  intro r _
  rw [regGet_offerHashed p ws h r hp hw hh]
  split
  · rename_i e; subst e; omega
  · exact Nat.le_refl _

/-! ### rational instantiation -/

def decQ (c : Nat × Nat) : Rat := (c.1 : Rat) / ((10 ^ c.2 : Nat) : Rat)

def mQ (p : Nat) : Rat := ((2 ^ p : Nat) : Rat)

/-- `getAlphaMM / m²`: the constants of the source (`HLL.consts`) as exact rationals -/
def alphaQ (p : Nat) : Rat :=
  if p = 4 then decQ consts.alpha4 else if p = 5 then decQ consts.alpha5
  else if p = 6 then decQ consts.alpha6
  else decQ consts.alphaInf / (1 + decQ consts.alphaCorr / mQ p)

/-- `alphaMM * (1 / registerSum)` with `registerSum = S / 2^31` -/
def rawQ (p S : Nat) : Rat := alphaQ p * mQ p * mQ p / ((S : Rat) / 2147483648)

def roundQ (x : Rat) : Nat := (x + 1 / 2).floor.toNat

/-- the exact specification of the formulas of `Cardinality`; `ln` is a parameter -/
def specEst (ln : Rat → Rat) : Est Rat :=
  { raw := rawQ
    small := fun e m => decide (e ≤ decQ consts.thresholdNum / decQ consts.thresholdDen * (m : Rat))
    linear := fun m V => roundQ ((m : Rat) * ln ((m : Rat) / (V : Rat)))
    round := roundQ }

/-! ### facts about the rational formulas -/

theorem mQ_pos (p : Nat) : 0 < mQ p := Rat.natCast_pos.mpr (Nat.two_pow_pos p)

theorem rat_div_pos {a b : Rat} (ha : 0 < a) (hb : 0 < b) : 0 < a / b := by
  rw [Rat.div_def]; exact Rat.mul_pos ha (Rat.inv_pos.mpr hb)

/-- `A / y ≤ A / x` for `0 ≤ A`, `0 < x ≤ y` -/
theorem rat_div_antitone {A x y : Rat} (hA : 0 ≤ A) (hx : 0 < x) (hxy : x ≤ y) : A / y ≤ A / x := by
  have hy : 0 < y := by grind
  have hxy0 : 0 < x * y := Rat.mul_pos hx hy
  apply Rat.le_of_mul_le_mul_right (c := x * y) _ hxy0
  have e1 : A / y * (x * y) = A * x := by
    rw [Rat.mul_comm x y, ← Rat.mul_assoc, Rat.div_mul_cancel (Rat.ne_of_gt hy)]
  have e2 : A / x * (x * y) = A * y := by
    rw [← Rat.mul_assoc, Rat.div_mul_cancel (Rat.ne_of_gt hx)]
  rw [e1, e2]
  exact Rat.mul_le_mul_of_nonneg_left hxy hA

theorem alphaQ_pos (p : Nat) : 0 < alphaQ p := by
  unfold alphaQ
  split
  · decide +kernel
  · split
    · decide +kernel
    · split
      · decide +kernel
      · apply rat_div_pos (by decide +kernel)
        have h1 : 0 < decQ consts.alphaCorr / mQ p := rat_div_pos (by decide +kernel) (mQ_pos p)
        have := Rat.add_lt_add_left (c := 1) |>.mpr h1
        rw [Rat.add_zero] at this
        grind

/-- the raw estimate is antitone in the register sum -/
theorem rawQ_antitone (p S S' : Nat) (h0 : 0 < S') (h : S' ≤ S) : rawQ p S ≤ rawQ p S' := by
  unfold rawQ
  have hA : 0 ≤ alphaQ p * mQ p * mQ p :=
    Rat.le_of_lt (Rat.mul_pos (Rat.mul_pos (alphaQ_pos p) (mQ_pos p)) (mQ_pos p))
  have hx : 0 < (S' : Rat) / 2147483648 := rat_div_pos (Rat.natCast_pos.mpr h0) (by decide +kernel)
  have hxy : (S' : Rat) / 2147483648 ≤ (S : Rat) / 2147483648 := by
    rw [Rat.div_def, Rat.div_def]
    exact Rat.mul_le_mul_of_nonneg_right (Rat.natCast_le_natCast.mpr h) (by decide +kernel)
  exact rat_div_antitone hA hx hxy

theorem roundQ_monotone {a b : Rat} (h : a ≤ b) : roundQ a ≤ roundQ b := by
  unfold roundQ
  have := Rat.floor_monotone (Rat.add_le_add_right (c := 1 / 2) |>.mpr h)
  omega

/-- **monotone in each register**: raising registers never lowers the raw estimate (nor its
    rounding), and never raises the number of empty registers -/
theorem rawQ_monotone_regs (p : Nat) (a b : List Nat) (h : RegsLe a b) (hb : b ≠ []) :
    rawQ p (regSum a) ≤ rawQ p (regSum b) ∧ roundQ (rawQ p (regSum a)) ≤ roundQ (rawQ p (regSum b)) ∧
    zeros b ≤ zeros a := by
  have h1 := rawQ_antitone p (regSum a) (regSum b) (regSum_pos b hb) (regSum_antitone a b h)
  exact ⟨h1, roundQ_monotone h1, zeros_antitone a b h⟩

theorem regs_ne_nil (p : Nat) (ws : Array Nat) : regs p ws ≠ [] := by
  intro h
  have := regs_length p ws
  rw [h] at this
  have : 0 < 2 ^ p := Nat.two_pow_pos p
  simp at *
  omega

/-- adding an item never decreases the raw estimate -/
theorem rawQ_offer_monotone (p : Nat) (ws : Array Nat) (h : Nat) (hp : PrecOK p) (hw : WFState p ws)
    (hh : Hashed h) :
    rawQ p (regSum (regs p ws)) ≤ rawQ p (regSum (regs p (offerHashed p ws h).1)) ∧
    zeros (regs p (offerHashed p ws h).1) ≤ zeros (regs p ws) := by
  have := rawQ_monotone_regs p _ _ (regs_offer_le p ws h hp hw hh) (regs_ne_nil p _)
  exact ⟨this.1, this.2.2⟩

/-- the small-range test is a threshold on the register sum: `raw ≤ 5/2·m` iff
    `alpha_p · m · 2^32 ≤ 5 · S` (so it is decided by integer data and the constants alone) -/
theorem small_iff_regsum (ln : Rat → Rat) (p S : Nat) (hS : 0 < S) :
    (specEst ln).small (rawQ p S) (2 ^ p) = true ↔ alphaQ p * mQ p * 4294967296 ≤ 5 * (S : Rat) := by
  show decide (rawQ p S ≤ decQ consts.thresholdNum / decQ consts.thresholdDen * ((2 ^ p : Nat) : Rat)) = true ↔ _
  rw [decide_eq_true_eq]
  have ht : decQ consts.thresholdNum / decQ consts.thresholdDen = 5 / 2 := by decide +kernel
  rw [ht]
  have hm := mQ_pos p
  have hs : (0 : Rat) < (S : Rat) / 2147483648 := rat_div_pos (Rat.natCast_pos.mpr hS) (by decide +kernel)
  unfold rawQ
  show alphaQ p * mQ p * mQ p / ((S : Rat) / 2147483648) ≤ 5 / 2 * mQ p ↔ _
  have key : alphaQ p * mQ p * mQ p / ((S : Rat) / 2147483648) * ((S : Rat) / 2147483648) =
      alphaQ p * mQ p * mQ p := Rat.div_mul_cancel (Rat.ne_of_gt hs)
  constructor
  · intro h
    have h1 := Rat.mul_le_mul_of_nonneg_right h (Rat.le_of_lt hs)
    rw [key] at h1
    -- α m m ≤ 5/2 m (S/2^31)  ⇒  α m 2^32 ≤ 5 S   (divide by m, multiply by 2^32)
    have h2 : alphaQ p * mQ p * mQ p = (alphaQ p * mQ p) * mQ p := rfl
    have h3 : 5 / 2 * mQ p * ((S : Rat) / 2147483648) = (5 / 2 * ((S : Rat) / 2147483648)) * mQ p := by grind
    rw [h3] at h1
    have h4 := Rat.le_of_mul_le_mul_right h1 hm
    have h5 : (S : Rat) / 2147483648 * 2147483648 = S := Rat.div_mul_cancel (by decide +kernel)
    grind
  · intro h
    apply Rat.le_of_mul_le_mul_right (c := (S : Rat) / 2147483648) _ hs
    rw [key]
    have h5 : (S : Rat) / 2147483648 * 2147483648 = S := Rat.div_mul_cancel (by decide +kernel)
    have h6 : alphaQ p * mQ p * 2 ≤ 5 * ((S : Rat) / 2147483648) := by grind
    have h7 := Rat.mul_le_mul_of_nonneg_right h6 (Rat.le_of_lt hm)
    grind

/-- once the raw estimate has left the small range it never returns: the test is monotone in
    the register sum, which offers only decrease -/
theorem small_antitone (ln : Rat → Rat) (p S S' : Nat) (h0 : 0 < S') (h : S' ≤ S)
    (hs : (specEst ln).small (rawQ p S') (2 ^ p) = true) : (specEst ln).small (rawQ p S) (2 ^ p) = true := by
  rw [small_iff_regsum ln p S (by omega)]
  have := (small_iff_regsum ln p S' h0).mp hs
  have hle : (S' : Rat) ≤ (S : Rat) := Rat.natCast_le_natCast.mpr h
  grind

/-! ### small sets -/

theorem regs_fresh (p : Nat) : regs p (fresh p) = List.replicate (2 ^ p) 0 := by
  unfold regs
  apply List.ext_getElem
  · simp
  · intro i h1 h2
    simp only [List.getElem_map, List.getElem_range, List.getElem_replicate]
    exact regGet_fresh p i

theorem regSum_replicate (n v : Nat) : regSum (List.replicate n v) = n * 2 ^ (31 - v) := by
  induction n with
  | zero => simp [regSum]
  | succ n ih => rw [List.replicate_succ, regSum_cons, ih]; rw [Nat.succ_mul]; omega

theorem zeros_replicate_zero (n : Nat) : zeros (List.replicate n 0) = n := by
  unfold zeros; simp

/-- the raw estimate of the empty counter is `alpha·m`, below the small-range threshold -/
theorem rawQ_fresh (p : Nat) : rawQ p (2 ^ p * 2147483648) = alphaQ p * mQ p := by
  unfold rawQ
  have hm := mQ_pos p
  have e : ((2 ^ p * 2147483648 : Nat) : Rat) / 2147483648 = mQ p := by
    rw [Rat.natCast_mul]
    exact Rat.mul_div_cancel (by decide +kernel)
  rw [e, Rat.mul_div_cancel (Rat.ne_of_gt hm)]

theorem alphaQ_le_one (p : Nat) : alphaQ p ≤ 1 := by
  unfold alphaQ
  split
  · decide +kernel
  · split
    · decide +kernel
    · split
      · decide +kernel
      · -- 0.7213 / (1 + 1.079/m) ≤ 0.7213 / 1 ≤ 1
        have h1 : 0 < decQ consts.alphaCorr / mQ p := rat_div_pos (by decide +kernel) (mQ_pos p)
        have h2 : (1 : Rat) ≤ 1 + decQ consts.alphaCorr / mQ p := by
          have := Rat.add_le_add_left (c := 1) |>.mpr (Rat.le_of_lt h1)
          rwa [Rat.add_zero] at this
        have := rat_div_antitone (A := decQ consts.alphaInf) (by decide +kernel) (by decide +kernel) h2
        exact Rat.le_trans this (by decide +kernel)

/-- **0 items ⇒ 0**: the empty counter takes the linear-counting branch with `V = m`, i.e.
    `m · ln 1`, which rounds to 0 when `ln 1 = 0` -/
theorem cardinality_fresh (ln : Rat → Rat) (hln : ln 1 = 0) (p : Nat) :
    cardBranch (specEst ln) p (regs p (fresh p)) = .linear (2 ^ p) (2 ^ p) ∧
    cardinality (specEst ln) p (fresh p) = 0 := by
  have hb : cardBranch (specEst ln) p (regs p (fresh p)) = .linear (2 ^ p) (2 ^ p) := by
    unfold cardBranch
    rw [regs_fresh, regSum_replicate, zeros_replicate_zero]
    have hs : (specEst ln).small ((specEst ln).raw p (2 ^ p * 2 ^ (31 - 0))) (2 ^ p) = true := by
      show decide (rawQ p (2 ^ p * 2 ^ (31 - 0)) ≤ _) = true
      simp only [Nat.sub_zero, Nat.reducePow, decide_eq_true_eq]
      rw [rawQ_fresh]
      have h1 : alphaQ p * mQ p ≤ 1 * mQ p :=
        Rat.mul_le_mul_of_nonneg_right (alphaQ_le_one p) (Rat.le_of_lt (mQ_pos p))
      have h2 : (1 : Rat) * mQ p ≤ decQ consts.thresholdNum / decQ consts.thresholdDen * mQ p :=
        Rat.mul_le_mul_of_nonneg_right (by decide +kernel) (Rat.le_of_lt (mQ_pos p))
      exact Rat.le_trans h1 h2
    have hz : (2 ^ p != 0) = true := by
      simp
    simp only [hs, hz, Bool.and_self, if_true]
  refine ⟨hb, ?_⟩
  unfold cardinality
  rw [hb]
  show roundQ (((2 ^ p : Nat) : Rat) * ln (((2 ^ p : Nat) : Rat) / ((2 ^ p : Nat) : Rat))) = 0
  have hm := mQ_pos p
  have : ((2 ^ p : Nat) : Rat) / ((2 ^ p : Nat) : Rat) = 1 := by
    rw [Rat.div_def]; exact Rat.mul_inv_cancel _ (Rat.ne_of_gt hm)
  rw [this, hln, Rat.mul_zero]
  decide +kernel

/-- **V = 0 ⇒ raw estimate** (fix-D30), for the exact specification -/
theorem cardinality_no_empty (ln : Rat → Rat) (p : Nat) (ws : Array Nat) (h : zeros (regs p ws) = 0) :
    cardinality (specEst ln) p ws = roundQ (rawQ p (regSum (regs p ws))) := by
  unfold cardinality
  rw [cardBranch_no_empty _ p _ h]
  rfl

/-- the D30 witness under the exact specification: the small-range test *is* passed
    (21.5 ≤ 40), so the unchanged code evaluates `ln(16/0)`; no assumption on the comparison -/
theorem d30_exact (ln : Rat → Rat) :
    cardBranchOrig (specEst ln) 4 (regs 4 (stateOf 4 d30Hashes)) = .linear 16 0 ∧
    cardinality (specEst ln) 4 (stateOf 4 d30Hashes) = 22 := by
  have hr := d30_regs
  have hz : zeros (regs 4 (stateOf 4 d30Hashes)) = 0 := by rw [hr]; decide
  have hs : regSum (regs 4 (stateOf 4 d30Hashes)) = 8 * 2147483648 := by rw [hr]; decide
  constructor
  · have hsm : (specEst ln).small ((specEst ln).raw 4 (8 * 2147483648)) (2 ^ 4) = true := by
      show decide (rawQ 4 (8 * 2147483648) ≤ _) = true
      decide +kernel
    exact cardBranchOrig_no_empty (specEst ln) 4 _ hz (by rw [hs]; exact hsm)
  · rw [cardinality_no_empty ln 4 _ hz, hs]
    decide +kernel

end HLL
