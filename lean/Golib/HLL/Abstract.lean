/-
  Golib.HLL.Abstract — the abstract register function and the packed bytes: the commuting square.

      registers f : Nat → Nat  ──absOffer──▶  registers f'
            │ bytesOfRegs                          │ bytesOfRegs
            ▼                                      ▼
      GetBytes() of the counter ──Offer──▶  GetBytes() of the counter

  `bytesOfRegs p` is injective on the registers `0 … 2^p − 1` (values < 32), and every state the
  code reaches from `NewHyperLogLog` (`Reach`: canonical words, empty padding registers) is the
  packing of its own registers.  Hence every statement about abstract registers (set-dependence,
  commutativity, idempotence, merge = union) holds literally for the bytes.
-/
import Golib.HLL.Serial
import Golib.HLL.Merge

namespace HLL

/-- the registers beyond `2^p` in the last word are never written -/
def Padded (p : Nat) (ws : Array Nat) : Prop := ∀ r, 2 ^ p ≤ r → regGet ws r = 0

/-- the states reachable from a fresh counter by offers and merges -/
structure Reach (p : Nat) (ws : Array Nat) : Prop where
  wf : WFState p ws
  pad : Padded p ws

def clip (p : Nat) (f : Nat → Nat) (r : Nat) : Nat := if r < 2 ^ p then f r else 0

/-- six consecutive registers as one word -/
def packWord (g : Nat → Nat) (i : Nat) : Nat :=
  g (6 * i) + g (6 * i + 1) * 32 + g (6 * i + 2) * 1024 + g (6 * i + 3) * 32768 +
    g (6 * i + 4) * 1048576 + g (6 * i + 5) * 33554432

/-- the packed words of a register function -/
def packRegs (p : Nat) (f : Nat → Nat) : Array Nat :=
  Array.ofFn (n := wordCount (2 ^ p)) (fun i => packWord (clip p f) i.val)

/-- `GetBytes()` of the counter whose registers are `f` -/
def bytesOfRegs (p : Nat) (f : Nat → Nat) : Bytes := getBytes p (packRegs p f)

/-- one offer on abstract registers -/
def absOffer (p : Nat) (f : Nat → Nat) (h : Nat) (r : Nat) : Nat :=
  if idx p h = r then max (f r) (rank p h) else f r

theorem clip_lt (p : Nat) (f : Nat → Nat) (hf : ∀ r, f r < 32) (r : Nat) : clip p f r < 32 := by
  unfold clip; split
  · exact hf r
  · decide

theorem packRegs_size (p : Nat) (f : Nat → Nat) : (packRegs p f).size = wordCount (2 ^ p) := by
  simp [packRegs]

theorem getD_packRegs (p : Nat) (f : Nat → Nat) (i : Nat) (hi : i < wordCount (2 ^ p)) :
    (packRegs p f).getD i 0 = packWord (clip p f) i := by
  rw [getD_of_lt _ _ _ (by rw [packRegs_size]; exact hi)]
  simp [packRegs]

theorem wordGet_packWord (g : Nat → Nat) (hg : ∀ r, g r < 32) (i j : Nat) (hj : j < 6) :
    wordGet (packWord g i) j = g (6 * i + j) ∧ packWord g i < 1073741824 := by
  obtain ⟨h0, h1, h2, h3, h4, h5, hlt⟩ := wordGet_pack (g (6 * i)) (g (6 * i + 1)) (g (6 * i + 2))
    (g (6 * i + 3)) (g (6 * i + 4)) (g (6 * i + 5)) (hg _) (hg _) (hg _) (hg _) (hg _) (hg _)
  refine ⟨?_, hlt⟩
  rcases lt6_cases j hj with rfl | rfl | rfl | rfl | rfl | rfl <;> assumption

theorem regGet_packRegs (p : Nat) (f : Nat → Nat) (hf : ∀ r, f r < 32) (r : Nat)
    (hr : r < 6 * wordCount (2 ^ p)) : regGet (packRegs p f) r = clip p f r := by
  unfold regGet
  rw [getD_packRegs p f _ (by omega),
    (wordGet_packWord _ (clip_lt p f hf) (r / 6) (r % 6) (Nat.mod_lt _ (by decide))).1]
  congr 1; omega

theorem packRegs_reach (p : Nat) (f : Nat → Nat) (hf : ∀ r, f r < 32) : Reach p (packRegs p f) := by
  refine ⟨⟨packRegs_size p f, ?_⟩, ?_⟩
  · intro i
    by_cases hi : i < wordCount (2 ^ p)
    · rw [getD_packRegs p f i hi]
      exact (wordGet_packWord _ (clip_lt p f hf) i 0 (by decide)).2
    · rw [getD_of_size_le _ _ _ (by rw [packRegs_size]; omega)]; decide
  · intro r hr
    by_cases h6 : r < 6 * wordCount (2 ^ p)
    · rw [regGet_packRegs p f hf r h6]
      unfold clip; rw [if_neg (by omega)]
    · unfold regGet
      rw [getD_of_size_le _ _ _ (by rw [packRegs_size]; omega), wordGet_zero]

/-- a reachable state is the packing of its own registers -/
theorem packRegs_regGet (p : Nat) (ws : Array Nat) (hr : Reach p ws) : packRegs p (regGet ws) = ws := by
  have hp := packRegs_reach p (regGet ws) (regGet_lt ws)
  apply state_ext _ _ (by rw [packRegs_size, hr.wf.size]) hp.wf.canon hr.wf.canon
  intro r hlt
  rw [packRegs_size] at hlt
  rw [regGet_packRegs p _ (regGet_lt ws) r hlt]
  unfold clip
  split
  · rfl
  · exact (hr.pad r (by omega)).symm

/-- `bytesOfRegs` depends only on the registers below `2^p` … -/
theorem bytesOfRegs_congr (p : Nat) (f g : Nat → Nat) (h : ∀ r, r < 2 ^ p → f r = g r) :
    bytesOfRegs p f = bytesOfRegs p g := by
  have : clip p f = clip p g := by
    funext r; unfold clip; split
    · rename_i hr; exact h r hr
    · rfl
  unfold bytesOfRegs packRegs
  rw [this]

/-- … and is injective on them -/
theorem bytesOfRegs_injective (p : Nat) (f g : Nat → Nat) (hp : PrecOK p) (hf : ∀ r, f r < 32)
    (hg : ∀ r, g r < 32) (h : bytesOfRegs p f = bytesOfRegs p g) : ∀ r, r < 2 ^ p → f r = g r := by
  have rf := packRegs_reach p f hf
  have rg := packRegs_reach p g hg
  have h1 := run_build_getBytes p (packRegs p f) [] hp.hi
    (by rw [rf.wf.size]; exact wordCount_lt p hp.hi) (wf_words_lt p _ rf.wf)
  have h2 := run_build_getBytes p (packRegs p g) [] hp.hi
    (by rw [rg.wf.size]; exact wordCount_lt p hp.hi) (wf_words_lt p _ rg.wf)
  unfold bytesOfRegs at h
  rw [h] at h1
  rw [h1] at h2
  simp only [Option.some.injEq, Prod.mk.injEq, and_true, true_and] at h2
  intro r hr
  have hs := sizes_ok p hp
  have e1 := regGet_packRegs p f hf r (by omega)
  have e2 := regGet_packRegs p g hg r (by omega)
  rw [h2] at e1
  rw [e1] at e2
  unfold clip at e2
  rw [if_pos hr, if_pos hr] at e2
  exact e2

theorem bytesOfRegs_eq_iff (p : Nat) (f g : Nat → Nat) (hp : PrecOK p) (hf : ∀ r, f r < 32)
    (hg : ∀ r, g r < 32) : bytesOfRegs p f = bytesOfRegs p g ↔ ∀ r, r < 2 ^ p → f r = g r :=
  ⟨bytesOfRegs_injective p f g hp hf hg, bytesOfRegs_congr p f g⟩

/-- the bytes of a reachable counter are the bytes of its registers -/
theorem getBytes_eq_bytesOfRegs (p : Nat) (ws : Array Nat) (hr : Reach p ws) :
    getBytes p ws = bytesOfRegs p (regGet ws) := by
  unfold bytesOfRegs; rw [packRegs_regGet p ws hr]

/-! ### reachability is preserved -/

theorem fresh_reach (p : Nat) : Reach p (fresh p) :=
  ⟨fresh_wf p, fun r _ => regGet_fresh p r⟩

theorem offerHashed_reach (p : Nat) (ws : Array Nat) (h : Nat) (hp : PrecOK p) (hr : Reach p ws)
    (hh : Hashed h) : Reach p (offerHashed p ws h).1 := by
  refine ⟨offerHashed_wf p ws h hp hr.wf, ?_⟩
  intro r hge
  rw [regGet_offerHashed p ws h r hp hr.wf hh]
  have := idx_lt p h (by have := hp.hi; omega) hh
  rw [if_neg (by omega)]
  exact hr.pad r hge

theorem offerAll_reach (p : Nat) (ws : Array Nat) (hs : List Nat) (hp : PrecOK p) (hr : Reach p ws)
    (hh : ∀ h ∈ hs, Hashed h) : Reach p (offerAll p ws hs) := by
  induction hs generalizing ws with
  | nil => exact hr
  | cons h hs ih =>
    rw [offerAll_cons]
    exact ih _ (offerHashed_reach p ws h hp hr (hh h List.mem_cons_self))
      (fun x hx => hh x (List.mem_cons_of_mem _ hx))

theorem merge_reach (p : Nat) (a b : Array Nat) (ha : Reach p a) (hb : Reach p b) :
    Reach p (merge a b) := by
  refine ⟨merge_wf p a b ha.wf hb.wf, ?_⟩
  intro r hge
  rw [regGet_merge a b (by rw [ha.wf.size, hb.wf.size]), ha.pad r hge, hb.pad r hge]
  rfl

/-! ### the commuting squares -/

/-- **Offer**: bytes after an offer = bytes of the abstractly updated registers -/
theorem getBytes_offerHashed (p : Nat) (ws : Array Nat) (h : Nat) (hp : PrecOK p) (hr : Reach p ws)
    (hh : Hashed h) :
    getBytes p (offerHashed p ws h).1 = bytesOfRegs p (absOffer p (regGet ws) h) := by
  rw [getBytes_eq_bytesOfRegs p _ (offerHashed_reach p ws h hp hr hh)]
  apply bytesOfRegs_congr
  intro r _
  rw [regGet_offerHashed p ws h r hp hr.wf hh]
  unfold absOffer
  split
  · rename_i e; subst e; rfl
  · rfl

/-- **Merge**: bytes of the merge = bytes of the register-wise maximum -/
theorem getBytes_merge (p : Nat) (a b : Array Nat) (ha : Reach p a) (hb : Reach p b) :
    getBytes p (merge a b) = bytesOfRegs p (fun r => max (regGet a r) (regGet b r)) := by
  rw [getBytes_eq_bytesOfRegs p _ (merge_reach p a b ha hb)]
  apply bytesOfRegs_congr
  intro r _
  exact regGet_merge a b (by rw [ha.wf.size, hb.wf.size]) r

/-- bytes of the counter that was offered `hs` = bytes of the pointwise suprema -/
theorem getBytes_stateOf (p : Nat) (hs : List Nat) (hp : PrecOK p) (hh : ∀ h ∈ hs, Hashed h) :
    getBytes p (stateOf p hs) = bytesOfRegs p (supRank p hs) := by
  have hr : Reach p (stateOf p hs) := offerAll_reach p _ hs hp (fresh_reach p) hh
  rw [getBytes_eq_bytesOfRegs p _ hr]
  apply bytesOfRegs_congr
  intro r _
  exact regGet_stateOf p hs r hp hh

/-- abstract offers commute and are idempotent (pure arithmetic on `max`) -/
theorem absOffer_comm (p : Nat) (f : Nat → Nat) (h1 h2 : Nat) :
    absOffer p (absOffer p f h1) h2 = absOffer p (absOffer p f h2) h1 := by
  funext r
  unfold absOffer
  by_cases a : idx p h1 = r <;> by_cases b : idx p h2 = r <;> simp [a, b] <;> omega

theorem absOffer_idem (p : Nat) (f : Nat → Nat) (h : Nat) :
    absOffer p (absOffer p f h) h = absOffer p f h := by
  funext r
  unfold absOffer
  by_cases a : idx p h = r <;> simp [a]

end HLL
