/-
  Golib.HLL.SrcObj — tie A for the counter-level methods: `HyperLogLog.Merge` and
  `HyperLogLog.AddAll` as *interpreted* statement lists.

  The steps act on the receiver's register words, the words of the argument counters and local
  counters; a step that panics in the code (`AddAll` on different sizes) yields `none`.  The bridge
  theorems: the transcribed `Merge` returns the model's `mergeAll` **and leaves the receiver and the
  arguments as they were** (no step writes them); the transcribed `AddAll` replaces the receiver's
  words by `merge recv other` and nothing else.
-/
import Golib.HLL.Merge

namespace HLL.Src
open HLL

inductive MStep
  | newLike (v : String)                         -- v := NewHyperLogLog(recv.log2m, NewRegisterSet(recv.registerSet.Count))
  | addAll (dst src : String)                    -- dst.AddAll(src)            (src: "recv" or a local)
  | retIfNil (param v : String)                  -- if param == nil { return v }
  | forAddAll (param dst : String)               -- for _, x := range param { y := x; dst.AddAll(y) }
  | ret (v : String)                             -- return v
  | panicUnlessSameSize (q : String)             -- if recv.Sizeof() != q.Sizeof() { panic(…) }
  | mergeRegisters (q : String)                  -- recv.registerSet.Merge(q.registerSet)
  | unknown (why : String)
deriving DecidableEq, Repr

/-- the receiver (precision and words), the argument counters, the local counters -/
structure MState where
  p : Nat
  recv : Array Nat
  args : List (Array Nat)
  locals : String → Array Nat

def MState.get (σ : MState) (x : String) : Array Nat := if x = "recv" then σ.recv else σ.locals x
def MState.setLocal (σ : MState) (x : String) (v : Array Nat) : MState :=
  { σ with locals := fun n => if n = x then v else σ.locals n }

/-- `a.AddAll(b)` on words: panics (none) when the sizes differ -/
def addAllWords (a b : Array Nat) : Option (Array Nat) := if a.size = b.size then some (merge a b) else none

def addAllMany : Array Nat → List (Array Nat) → Option (Array Nat)
  | acc, [] => some acc
  | acc, b :: bs => match addAllWords acc b with
    | some acc' => addAllMany acc' bs
    | none => none

/-- result: `none` = panic; `some (returned counter?, final state)` -/
def MStep.sem : List MStep → MState → Option (Option (Array Nat) × MState)
  | [], σ => some (none, σ)
  | .newLike v :: rest, σ => MStep.sem rest (σ.setLocal v (fresh σ.p))
  | .addAll dst src :: rest, σ =>
    match addAllWords (σ.get dst) (σ.get src) with
    | some w => MStep.sem rest (σ.setLocal dst w)
    | none => none
  | .retIfNil _ v :: rest, σ => if σ.args = [] then some (some (σ.get v), σ) else MStep.sem rest σ
  | .forAddAll _ dst :: rest, σ =>
    match addAllMany (σ.get dst) σ.args with
    | some w => MStep.sem rest (σ.setLocal dst w)
    | none => none
  | .ret v :: _, σ => some (some (σ.get v), σ)
  | .panicUnlessSameSize _ :: rest, σ =>
    match σ.args with
    | [b] => if σ.recv.size = b.size then MStep.sem rest σ else none
    | _ => none
  | .mergeRegisters _ :: rest, σ =>
    match σ.args with
    | [b] => MStep.sem rest { σ with recv := merge σ.recv b }
    | _ => none
  | .unknown _ :: _, _ => none

/-- `HyperLogLog.Merge(estimators ...*HyperLogLog)` -/
def mergeProg : List MStep :=
  [.newLike "v0", .addAll "v0" "recv", .retIfNil "p0" "v0", .forAddAll "p0" "v0", .ret "v0"]

/-- `HyperLogLog.AddAll(other *HyperLogLog)` -/
def addAllProg : List MStep := [.panicUnlessSameSize "p0", .mergeRegisters "p0"]

theorem addAllMany_eq (acc : Array Nat) (bs : List (Array Nat)) (h : ∀ b ∈ bs, b.size = acc.size) :
    addAllMany acc bs = some (bs.foldl merge acc) := by
  induction bs generalizing acc with
  | nil => rfl
  | cons b bs ih =>
    have hb := h b List.mem_cons_self
    simp only [addAllMany, addAllWords, hb, if_true, List.foldl_cons]
    apply ih
    intro c hc
    rw [merge_size, hb, Nat.min_self]
    exact h c (List.mem_cons_of_mem _ hc)

/-- **Merge**: the transcribed body returns `mergeAll` of receiver and arguments, and the receiver
    and the arguments are exactly as before (the only thing written is the fresh local) -/
theorem merge_bridge_obj (σ : MState) (hr : σ.recv.size = wordCount (2 ^ σ.p))
    (ha : ∀ b ∈ σ.args, b.size = wordCount (2 ^ σ.p)) :
    ∃ τ, MStep.sem mergeProg σ = some (some (mergeAll σ.p σ.recv σ.args), τ) ∧
      τ.recv = σ.recv ∧ τ.args = σ.args ∧ τ.p = σ.p := by
  have hf : (fresh σ.p).size = σ.recv.size := by rw [hr]; simp [fresh]
  have e0 : ("v0" = "recv") = False := by decide
  have hacc : (merge (fresh σ.p) σ.recv).size = wordCount (2 ^ σ.p) := by
    rw [merge_size, hf, Nat.min_self, hr]
  by_cases hnil : σ.args = []
  · refine ⟨(σ.setLocal "v0" (fresh σ.p)).setLocal "v0" (merge (fresh σ.p) σ.recv), ?_, rfl, rfl, rfl⟩
    simp only [mergeProg, MStep.sem, MState.get, MState.setLocal, addAllWords, e0, if_true, if_false, hf, hnil]
    simp [mergeAll, hnil]
  · have hm := addAllMany_eq (merge (fresh σ.p) σ.recv) σ.args (by intro b hb; rw [hacc]; exact ha b hb)
    refine ⟨((σ.setLocal "v0" (fresh σ.p)).setLocal "v0" (merge (fresh σ.p) σ.recv)).setLocal "v0"
      (σ.args.foldl merge (merge (fresh σ.p) σ.recv)), ?_, rfl, rfl, rfl⟩
    simp only [mergeProg, MStep.sem, MState.get, MState.setLocal, addAllWords, e0, if_true, if_false, hf, hnil, hm]
    simp [mergeAll]

/-- **AddAll**: the transcribed body panics exactly when the sizes differ; otherwise the receiver's
    words become `merge recv other`, the argument is untouched, nothing is returned -/
theorem addAll_bridge_obj (σ : MState) (b : Array Nat) (hb : σ.args = [b]) :
    MStep.sem addAllProg σ =
      if σ.recv.size = b.size then some (none, { σ with recv := merge σ.recv b }) else none := by
  simp only [addAllProg, MStep.sem, hb]

end HLL.Src
