/-
  Golib.HLL.SrcBridge — bridge theorems of tie A: the Go expressions of util/hll (as the trees of
  Golib.HLL.Src, evaluated with fixed-width Go semantics) equal the arithmetic CodeModel.
-/
import Golib.HLL.Src
import Golib.HLL.IndexRank

namespace HLL.Src
open HLL

/-! ### bit-level lemmas -/

/-- disjoint bit patterns: `+` is `|` (32-bit operands) -/
theorem add_eq_or_of_and_eq_zero32 (a b : Nat) (ha : a < 4294967296) (hb : b < 4294967296)
    (h : a &&& b = 0) : a + b = a ||| b := by
  have h0 : BitVec.ofNat 64 a &&& BitVec.ofNat 64 b = 0#64 := by
    apply BitVec.eq_of_toNat_eq
    simp only [BitVec.toNat_and, BitVec.toNat_ofNat, Nat.reducePow]
    rw [Nat.mod_eq_of_lt (by omega), Nat.mod_eq_of_lt (by omega), h]
  have := congrArg BitVec.toNat (BitVec.add_eq_or_of_and_eq_zero _ _ h0)
  simp only [BitVec.toNat_add, BitVec.toNat_or, BitVec.toNat_ofNat, Nat.reducePow] at this
  rw [Nat.mod_eq_of_lt (show a < 18446744073709551616 by omega),
    Nat.mod_eq_of_lt (show b < 18446744073709551616 by omega),
    Nat.mod_eq_of_lt (show a + b < 18446744073709551616 by omega)] at this
  exact this

/-- masking a register: `w & (0x1f << s)` is the digit, still in place -/
theorem and_mask (w s : Nat) : w &&& (31 * 2 ^ s) = (w / 2 ^ s % 32) * 2 ^ s := by
  apply Nat.eq_of_testBit_eq
  intro k
  rw [Nat.testBit_and, Nat.testBit_mul_two_pow, Nat.testBit_mul_two_pow]
  have e31 : (31 : Nat) = 2 ^ 5 - 1 := by decide
  have e32 : (32 : Nat) = 2 ^ 5 := by decide
  rw [e31, Nat.testBit_two_pow_sub_one, e32, Nat.testBit_mod_two_pow, Nat.testBit_div_two_pow]
  by_cases h : s ≤ k
  · have : k - s + s = k := by omega
    simp [h, this, Bool.and_comm]
  · simp [h]

theorem mask_lt (s : Nat) (hs : s ≤ 25) : 31 * 2 ^ s < 4294967296 := by
  have : 2 ^ s ≤ 2 ^ 25 := Nat.pow_le_pow_right (by decide) hs
  simp only [Nat.reducePow] at this; omega

theorem testBit_notmask (s k : Nat) (hs : s ≤ 25) :
    (4294967296 - 1 - 31 * 2 ^ s).testBit k = (decide (k < 32) && !(31 * 2 ^ s).testBit k) := by
  have e : (4294967296 : Nat) - 1 - 31 * 2 ^ s = 2 ^ 32 - (31 * 2 ^ s + 1) := by
    simp only [Nat.reducePow]; omega
  rw [e, Nat.testBit_two_pow_sub_succ (by simpa using mask_lt s hs)]

theorem testBit_mask (s k : Nat) : (31 * 2 ^ s).testBit k = (decide (s ≤ k) && decide (k - s < 5)) := by
  have e31 : (31 : Nat) = 2 ^ 5 - 1 := by decide
  rw [Nat.testBit_mul_two_pow, e31, Nat.testBit_two_pow_sub_one]

/-- clearing a register: `w & ^(0x1f << s)` removes the digit -/
theorem and_notmask (w s : Nat) (hw : w < 4294967296) (hs : s ≤ 25) :
    w &&& (4294967296 - 1 - 31 * 2 ^ s) = w - (w / 2 ^ s % 32) * 2 ^ s := by
  have hm := mask_lt s hs
  have hdisj : (w &&& (31 * 2 ^ s)) &&& (w &&& (4294967296 - 1 - 31 * 2 ^ s)) = 0 := by
    apply Nat.eq_of_testBit_eq
    intro k
    simp only [Nat.testBit_and, testBit_notmask s k hs, Nat.zero_testBit]
    cases w.testBit k <;> cases (31 * 2 ^ s).testBit k <;> simp
  have hor : (w &&& (31 * 2 ^ s)) ||| (w &&& (4294967296 - 1 - 31 * 2 ^ s)) = w := by
    apply Nat.eq_of_testBit_eq
    intro k
    simp only [Nat.testBit_or, Nat.testBit_and, testBit_notmask s k hs]
    by_cases hk : k < 32
    · cases w.testBit k <;> cases (31 * 2 ^ s).testBit k <;> simp [hk]
    · have : w.testBit k = false := Nat.testBit_lt_two_pow (Nat.lt_of_lt_of_le hw
        (by have : 2 ^ 32 ≤ 2 ^ k := Nat.pow_le_pow_right (by decide) (by omega)
            simpa using this))
      simp [this]
  have hsum := add_eq_or_of_and_eq_zero32 _ _
    (Nat.lt_of_le_of_lt Nat.and_le_left hw) (Nat.lt_of_le_of_lt Nat.and_le_left hw) hdisj
  rw [hor, and_mask] at hsum
  omega

/-- storing a register: `(w & ^mask) | (v << s)` is the arithmetic `wordSet` -/
theorem set_bits (w i v : Nat) (hw : w < 4294967296) (hi : i < 6) (hv : v < 32) :
    (w &&& (4294967296 - 1 - 31 * 2 ^ (5 * i))) ||| (v * 2 ^ (5 * i)) = wordSet w i v := by
  have hs : 5 * i ≤ 25 := by omega
  have hvs : v * 2 ^ (5 * i) < 4294967296 := by
    have : 2 ^ (5 * i) ≤ 2 ^ 25 := Nat.pow_le_pow_right (by decide) hs
    simp only [Nat.reducePow] at this
    have : v * 2 ^ (5 * i) ≤ 31 * 2 ^ (5 * i) := Nat.mul_le_mul_right _ (by omega)
    omega
  have hdisj : (w &&& (4294967296 - 1 - 31 * 2 ^ (5 * i))) &&& (v * 2 ^ (5 * i)) = 0 := by
    apply Nat.eq_of_testBit_eq
    intro k
    simp only [Nat.testBit_and, testBit_notmask _ k hs, testBit_mask, Nat.zero_testBit]
    simp only [Nat.testBit_mul_two_pow]
    by_cases h1 : 5 * i ≤ k
    · by_cases h2 : k - 5 * i < 5
      · simp [h1, h2]
      · have : v.testBit (k - 5 * i) = false := Nat.testBit_lt_two_pow (Nat.lt_of_lt_of_le hv
          (by have : 2 ^ 5 ≤ 2 ^ (k - 5 * i) := Nat.pow_le_pow_right (by decide) (by omega)
              simpa using this))
        simp [this]
    · simp [h1]
  rw [← add_eq_or_of_and_eq_zero32 _ _ (Nat.lt_of_le_of_lt Nat.and_le_left hw) hvs hdisj,
    and_notmask w _ hw hs]
  rfl

/-! ### evaluation of the register expressions -/

theorem shiftI_eval (ρ : Env) (pos : Nat) (h : ρ.args.getD 0 0 = pos) (hp : pos < 4611686018427387904) :
    shiftI.eval ρ = 5 * (pos % 6) := by
  simp only [shiftI, Ex.eval, binop, trunc, card, h]
  have e1 : pos / 6 * 6 % 18446744073709551616 = pos / 6 * 6 := Nat.mod_eq_of_lt (by omega)
  simp only [Nat.reduceEqDiff, if_false, e1]
  rw [if_pos (by omega)]
  omega

theorem shiftU_eval (ρ : Env) (pos : Nat) (h : ρ.args.getD 0 0 = pos) (hp : pos < 4294967296) :
    shiftU.eval ρ = 5 * (pos % 6) := by
  simp only [shiftU, Ex.eval, binop, trunc, card, h]
  have e1 : pos / 6 * 6 % 4294967296 = pos / 6 * 6 := Nat.mod_eq_of_lt (by omega)
  simp only [Nat.reduceEqDiff, if_false, e1]
  rw [if_pos (by omega)]
  omega

theorem pow_shift_le (pos : Nat) : 2 ^ (5 * (pos % 6)) ≤ 33554432 := by
  have : 2 ^ (5 * (pos % 6)) ≤ 2 ^ 25 := Nat.pow_le_pow_right (by decide) (by omega)
  simpa using this

/-- **Get**: the source expression of `RegisterSet.Get(position)` is `wordGet M[position/6] (position%6)` -/
theorem get_bridge (ρ : Env) (pos : Nat) (h : ρ.args.getD 0 0 = pos) (hp : pos < 4611686018427387904) :
    get.eval ρ = wordGet (ρ.tab "M" (pos / 6)) (pos % 6) := by
  have hs := shiftI_eval ρ pos h hp
  have hpow := pow_shift_le pos
  simp only [get, Ex.eval, binop, hs, wordI, tabName, trunc, card, h]
  simp only [Nat.reduceEqDiff, if_false]
  rw [Nat.mod_eq_of_lt (show 31 * 2 ^ (5 * (pos % 6)) < 4294967296 by omega), and_mask,
    Nat.mul_div_cancel _ (Nat.two_pow_pos _)]
  rfl

/-- **Set**: the word stored by `RegisterSet.Set(position, value)` is `wordSet` of the old word -/
theorem set_bridge (ρ : Env) (pos v : Nat) (h0 : ρ.args.getD 0 0 = pos) (h1 : ρ.args.getD 1 0 = v)
    (hp : pos < 4294967296) (hv : v < 32) (hw : ρ.tab "M" (pos / 6) < 4294967296) :
    setIdx.eval ρ = pos / 6 ∧ setVal.eval ρ = wordSet (ρ.tab "M" (pos / 6)) (pos % 6) v := by
  have hs := shiftU_eval ρ pos h0 hp
  have hpow := pow_shift_le pos
  constructor
  · simp only [setIdx, Ex.eval, binop, h0]
  · simp only [setVal, Ex.eval, binop, hs, wordU, tabName, trunc, card, h0, h1]
    simp only [Nat.reduceEqDiff, if_false]
    have hv2 : v * 2 ^ (5 * (pos % 6)) ≤ 31 * 2 ^ (5 * (pos % 6)) := Nat.mul_le_mul_right _ (by omega)
    rw [Nat.mod_eq_of_lt (show 31 * 2 ^ (5 * (pos % 6)) < 4294967296 by omega),
      Nat.mod_eq_of_lt (show v * 2 ^ (5 * (pos % 6)) < 4294967296 by omega)]
    exact set_bits _ _ _ hw (Nat.mod_lt _ (by decide)) hv

/-- **UpdateIfGreater**: the comparison is "old register < value", the word stored is `wordSet` -/
theorem upd_bridge (ρ : Env) (pos v : Nat) (h0 : ρ.args.getD 0 0 = pos) (h1 : ρ.args.getD 1 0 = v)
    (hp : pos < 4294967296) (hv : v < 32) (hw : ρ.tab "M" (pos / 6) < 4294967296) :
    updIdx.eval ρ = pos / 6 ∧
    (updCond.eval ρ ≠ 0 ↔ wordGet (ρ.tab "M" (pos / 6)) (pos % 6) < v) ∧
    updVal.eval ρ = wordSet (ρ.tab "M" (pos / 6)) (pos % 6) v := by
  have hs := shiftU_eval ρ pos h0 hp
  have hpow := pow_shift_le pos
  have hv2 : v * 2 ^ (5 * (pos % 6)) ≤ 31 * 2 ^ (5 * (pos % 6)) := Nat.mul_le_mul_right _ (by omega)
  have hm : 31 * 2 ^ (5 * (pos % 6)) < 4294967296 := by omega
  refine ⟨?_, ?_, ?_⟩
  · simp only [updIdx, Ex.eval, binop, h0]
  · simp only [updCond, maskU, newValU, Ex.eval, binop, hs, wordU, tabName, trunc, card, h0, h1]
    simp only [Nat.reduceEqDiff, if_false, Nat.reduceMod]
    rw [Nat.mod_eq_of_lt hm, and_mask,
      Nat.mod_eq_of_lt (show v % 18446744073709551616 * 2 ^ (5 * (pos % 6)) < 18446744073709551616 by
        rw [Nat.mod_eq_of_lt (by omega)]; omega),
      Nat.mod_eq_of_lt (show v < 18446744073709551616 by omega)]
    have hd := wordGet_lt (ρ.tab "M" (pos / 6)) (pos % 6)
    unfold wordGet at hd ⊢
    rw [Nat.mod_eq_of_lt (show _ * 2 ^ (5 * (pos % 6)) < 18446744073709551616 by
      have : ρ.tab "M" (pos / 6) / 2 ^ (5 * (pos % 6)) % 32 * 2 ^ (5 * (pos % 6)) ≤ 31 * 2 ^ (5 * (pos % 6)) :=
        Nat.mul_le_mul_right _ (by omega)
      omega)]
    have hpos : 0 < 2 ^ (5 * (pos % 6)) := Nat.two_pow_pos _
    constructor
    · intro hne
      split at hne
      · rename_i hlt; exact Nat.lt_of_mul_lt_mul_right hlt
      · exact absurd rfl hne
    · intro hlt
      rw [if_pos (Nat.mul_lt_mul_of_pos_right hlt hpos)]
      decide
  · simp only [updVal, maskU, newValU, Ex.eval, binop, hs, wordU, tabName, trunc, card, h0, h1]
    simp only [Nat.reduceEqDiff, if_false, Nat.reduceMod]
    rw [Nat.mod_eq_of_lt hm, Nat.mod_eq_of_lt (show v < 18446744073709551616 by omega),
      Nat.mod_eq_of_lt (show v * 2 ^ (5 * (pos % 6)) < 18446744073709551616 by omega)]
    have hand : ρ.tab "M" (pos / 6) &&& 4294967296 - 1 - 31 * 2 ^ (5 * (pos % 6)) < 4294967296 :=
      Nat.lt_of_le_of_lt Nat.and_le_left hw
    rw [Nat.mod_eq_of_lt (show _ &&& _ < 18446744073709551616 by omega),
      set_bits _ _ _ hw (Nat.mod_lt _ (by decide)) hv]
    exact Nat.mod_eq_of_lt (wordSet_lt32 _ _ _ (Nat.mod_lt _ (by decide)) hv hw)

/-! ### sizes, clz, index and rank -/

/-- **getSizeForCount** -/
theorem sizeForCount_bridge (ρ : Env) (count : Nat) (h0 : ρ.args.getD 0 0 = count)
    (hf : ρ.fn1 "getBits" count = count / 6) (hc : count < 4611686018427387904) :
    getBits.eval ρ = count / 6 ∧ sizeForCount.eval ρ = wordCount count := by
  constructor
  · simp only [getBits, Ex.eval, binop, h0]
  · simp only [sizeForCount, Ex.eval, binop, h0, hf, trunc, card, wordCount]
    simp only [Nat.reduceEqDiff, if_false]
    by_cases h1 : count / 6 = 0
    · simp [h1]
    · by_cases h2 : count / 6 % 32 = 0
      · simp [h1, h2]
      · simp only [h1, h2, if_false, ne_eq, not_true_eq_false]
        rw [Nat.mod_eq_of_lt (by omega)]

/-- **clz32**: the comparison tree and the table lookup are `HLL.clz32` -/
theorem clz32_bridge (ρ : Env) (x : Nat) (h0 : ρ.args.getD 0 0 = x) (hx : x < 4294967296)
    (ht : ∀ i, ρ.tab "clzLookup" i = HLL.clzLookup.getD i 0) :
    Src.clz32.eval ρ = HLL.clz32 x := by
  have hn : clzN.eval ρ = clzShift x := by
    simp only [clzN, pow2, Ex.eval, binop, trunc, card, h0, clzShift]
    simp only [Nat.reduceEqDiff, if_false, Nat.reducePow, Nat.reduceMul, Nat.reduceMod, ge_iff_le]
    repeat' split
    all_goals first | rfl | (exfalso; simp_all)
  simp only [Src.clz32, Ex.eval, binop, hn, tabName, ht, h0, HLL.clz32]
  have hle : clzShift x ≤ clzLookup.getD (x / 2 ^ clzShift x) 0 := by
    have key : ∀ s, s ≤ 28 → x / 2 ^ s < 16 → s ≤ clzLookup.getD (x / 2 ^ s) 0 := by
      intro s hs hlt
      rw [lookup_spec _ hlt]
      have := bitlen_le_of_lt _ 4 (by simpa using hlt)
      omega
    rcases clzShift_cases x hx with ⟨e, h1⟩ | ⟨e, h1, h2⟩ | ⟨e, h1, h2⟩ | ⟨e, h1, h2⟩ | ⟨e, h1, h2⟩ |
      ⟨e, h1, h2⟩ | ⟨e, h1, h2⟩ | ⟨e, h1, h2⟩ <;> rw [e] <;> apply key <;>
      first | omega | (simp only [Nat.reducePow]; omega)
  rw [if_pos hle]

/-- **offerHashed**: the index and rank expressions are `HLL.idx` and `HLL.rank` -/
theorem offer_bridge (ρ : Env) (p h : Nat) (h0 : ρ.args.getD 0 0 = h) (hl : ρ.fldv "log2m" = p)
    (hc : ∀ x, ρ.fn1 "clz32" x = HLL.clz32 x) (hp1 : 1 ≤ p) (hp2 : p ≤ 32) :
    offerIdx.eval ρ = idx p h ∧ offerRank.eval ρ = rank p h := by
  constructor
  · simp only [offerIdx, Ex.eval, binop, h0, hl, idx]
    rw [if_pos hp2]
  · simp only [offerRank, Ex.eval, binop, h0, hl, hc, trunc, card, rank, rankArg]
    simp only [Nat.reduceEqDiff, if_false]
    rw [if_pos hp1, Nat.one_mul]
    have hlt : 2 ^ (p - 1) < 4294967296 := by
      have : 2 ^ (p - 1) ≤ 2 ^ 31 := Nat.pow_le_pow_right (by decide) (by omega)
      simp only [Nat.reducePow] at this; omega
    rw [Nat.mod_eq_of_lt hlt]
    have := clz32_le (((h * 2 ^ p % 4294967296 ||| 2 ^ (p - 1)) + 1) % 4294967296)
      (Nat.mod_lt _ (by decide))
    omega

/-! ### the inner loop of `RegisterSet.Merge` -/

/-- one iteration: the larger of the two masked registers (still in place) -/
def mergeTerm (a b j : Nat) : Nat :=
  if a &&& 31 * 2 ^ (5 * j) < b &&& 31 * 2 ^ (5 * j) then b &&& 31 * 2 ^ (5 * j) else a &&& 31 * 2 ^ (5 * j)

/-- `word := 0; for j := 0; j < 6; j++ { word |= … }` -/
def mergeLoop (a b : Nat) : Nat :=
  (((((0 ||| mergeTerm a b 0) ||| mergeTerm a b 1) ||| mergeTerm a b 2) ||| mergeTerm a b 3) |||
    mergeTerm a b 4) ||| mergeTerm a b 5

theorem mergeTerm_eq (a b j : Nat) :
    mergeTerm a b j = max (wordGet a j) (wordGet b j) * 2 ^ (5 * j) := by
  unfold mergeTerm
  rw [and_mask, and_mask]
  have hpos : 0 < 2 ^ (5 * j) := Nat.two_pow_pos _
  show (if wordGet a j * 2 ^ (5 * j) < wordGet b j * 2 ^ (5 * j) then wordGet b j * 2 ^ (5 * j)
    else wordGet a j * 2 ^ (5 * j)) = _
  split
  · rename_i h
    have := Nat.lt_of_mul_lt_mul_right h
    rw [Nat.max_eq_right (by omega)]
  · rename_i h
    have : ¬ wordGet a j < wordGet b j := fun hlt => h (Nat.mul_lt_mul_of_pos_right hlt hpos)
    rw [Nat.max_eq_left (by omega)]

/-- the OR-accumulation of the six masked maxima is the arithmetic `mergeWord` -/
theorem mergeLoop_eq (a b : Nat) : mergeLoop a b = mergeWord a b := by
  unfold mergeLoop mergeWord
  simp only [mergeTerm_eq, Nat.reduceMul, Nat.reducePow, Nat.zero_or, Nat.mul_one]
  have m0 := max_lt32 (wordGet_lt a 0) (wordGet_lt b 0)
  have m1 := max_lt32 (wordGet_lt a 1) (wordGet_lt b 1)
  have m2 := max_lt32 (wordGet_lt a 2) (wordGet_lt b 2)
  have m3 := max_lt32 (wordGet_lt a 3) (wordGet_lt b 3)
  have m4 := max_lt32 (wordGet_lt a 4) (wordGet_lt b 4)
  generalize max (wordGet a 0) (wordGet b 0) = x0 at *
  generalize max (wordGet a 1) (wordGet b 1) = x1 at *
  generalize max (wordGet a 2) (wordGet b 2) = x2 at *
  generalize max (wordGet a 3) (wordGet b 3) = x3 at *
  generalize max (wordGet a 4) (wordGet b 4) = x4 at *
  generalize max (wordGet a 5) (wordGet b 5) = x5
  have step : ∀ (i acc x : Nat), acc < 2 ^ i → acc ||| x * 2 ^ i = acc + x * 2 ^ i := by
    intro i acc x h
    rw [Nat.or_comm, Nat.mul_comm, ← Nat.two_pow_add_eq_or_of_lt h, Nat.add_comm]
  have s1 := step 5 x0 x1 (by simpa using m0)
  simp only [Nat.reducePow] at s1
  rw [s1]
  have s2 := step 10 (x0 + x1 * 32) x2 (by simp only [Nat.reducePow]; omega)
  simp only [Nat.reducePow] at s2
  rw [s2]
  have s3 := step 15 (x0 + x1 * 32 + x2 * 1024) x3 (by simp only [Nat.reducePow]; omega)
  simp only [Nat.reducePow] at s3
  rw [s3]
  have s4 := step 20 (x0 + x1 * 32 + x2 * 1024 + x3 * 32768) x4 (by simp only [Nat.reducePow]; omega)
  simp only [Nat.reducePow] at s4
  rw [s4]
  have s5 := step 25 (x0 + x1 * 32 + x2 * 1024 + x3 * 32768 + x4 * 1048576) x5
    (by simp only [Nat.reducePow]; omega)
  simp only [Nat.reducePow] at s5
  rw [s5]

/-- **Merge**: one iteration of the source loop is `mergeTerm` -/
theorem merge_bridge (ρ : Env) (a b j : Nat) (hj : ρ.locv "l2" = j) (hj6 : j < 6)
    (ha : ρ.tab "M" (ρ.locv "l0") = a) (hb : ρ.tab "that.M" (ρ.locv "l0") = b) :
    (if mergeCond.eval ρ ≠ 0 then mergeThat.eval ρ else mergeThis.eval ρ) = mergeTerm a b j := by
  have hpow : 2 ^ (5 * j) ≤ 33554432 := by
    have : 2 ^ (5 * j) ≤ 2 ^ 25 := Nat.pow_le_pow_right (by decide) (by omega)
    simpa using this
  have hm : mergeMask.eval ρ = 31 * 2 ^ (5 * j) := by
    simp only [mergeMask, Ex.eval, binop, trunc, card, hj]
    simp only [Nat.reduceEqDiff, if_false, if_true]
    rw [Nat.mod_eq_of_lt (show 5 * j < 18446744073709551616 by omega),
      Nat.mod_eq_of_lt (show 5 * j < 4294967296 by omega), Nat.mod_eq_of_lt (by omega)]
  have hb' : ρ.tab ("that." ++ "M") (ρ.locv "l0") = b := hb
  simp only [mergeCond, mergeThis, mergeThat, Ex.eval, binop, hm, tabName, ha, hb', mergeTerm]
  split <;> simp
  
end HLL.Src
