/-
  Golib.HLL.Heap — histories over several counters: "inputs untouched" as a theorem.

  A world is a list of counters (the index is the counter's identity); every counter carries, as
  ghost state, the list of hashed values that were offered to it directly or through merges.
  Operations (the public API of util/hll that creates, changes or reads counters):

      new p            NewHyperLogLogInt(p)                         → a new counter
      offer i h        counter i .offerHashed(h)  (Offer/OfferLong after hashing)
      addAll i j       counter i .AddAll(counter j)                 (panics if the sizes differ)
      merge i js       counter i .Merge(counters js…)                → a new counter (panics on a size mismatch)
      build i          BuildHyperLogLog(counter i .GetBytes())      → a new counter
      getBytes i       observation only

  An operation that panics (unknown counter, different precision) leaves the world as it is.
  Proved for every history: the frame condition of every operation (only the receiver of
  offer/addAll changes; merge/build/getBytes/new change no existing counter; identities are
  stable), and that every counter's words are `stateOf p (its ghost items)` — so its bytes depend
  only on the *set* of items that reached it, whatever the order, the duplication, self-merges or
  the same counter passed twice.
-/
import Golib.HLL.Abstract

namespace HLL

structure Counter where
  p : Nat
  ws : Array Nat
  items : List Nat        -- ghost: everything that reached this counter

abbrev World := List Counter

inductive HOp
  | new (p : Nat)
  | offer (i h : Nat)
  | addAll (i j : Nat)
  | merge (i : Nat) (js : List Nat)
  | build (i : Nat)
  | getBytes (i : Nat)
deriving Repr

/-- all arguments exist and have the precision `p` (otherwise `AddAll` panics) -/
def argsOK (w : World) (p : Nat) : List Nat → Bool
  | [] => true
  | j :: js => (match w[j]? with | some c => c.p == p | none => false) && argsOK w p js

/-- `merged.AddAll(arg)` for each argument in turn -/
def mergeArgs (w : World) : Array Nat → List Nat → List Nat → Array Nat × List Nat
  | acc, its, [] => (acc, its)
  | acc, its, j :: js =>
    match w[j]? with
    | some c => mergeArgs w (merge acc c.ws) (its ++ c.items) js
    | none => mergeArgs w acc its js

/-- `BuildHyperLogLog(a.GetBytes())` (the ghost items travel with the bytes) -/
def rebuildOf (r : Option ((Nat × Array Nat) × Bytes)) (items : List Nat) : Option Counter :=
  match r with
  | some ((p, ws), _) => some ⟨p, ws, items⟩
  | none => none

def rebuild (a : Counter) : Option Counter := rebuildOf (P.run build (getBytes a.p a.ws)) a.items

/-- one operation; the rebuilding function is a parameter so that the frame proofs do not look
    into the decoder -/
def stepWith (rb : Counter → Option Counter) (w : World) : HOp → World
  | .new p => w ++ [⟨p, fresh p, []⟩]
  | .offer i h =>
    match w[i]? with
    | some c => w.set i ⟨c.p, (offerHashed c.p c.ws h).1, c.items ++ [h]⟩
    | none => w
  | .addAll i j =>
    match w[i]?, w[j]? with
    | some a, some b => if a.p = b.p then w.set i ⟨a.p, merge a.ws b.ws, a.items ++ b.items⟩ else w
    | _, _ => w
  | .merge i js =>
    match w[i]? with
    | some a =>
      if argsOK w a.p js then
        let r := mergeArgs w (merge (fresh a.p) a.ws) a.items js
        w ++ [⟨a.p, r.1, r.2⟩]
      else w
    | none => w
  | .build i =>
    match w[i]? with
    | some a =>
      match rb a with
      | some c => w ++ [c]
      | none => w
    | none => w
  | .getBytes _ => w

def step (w : World) (op : HOp) : World := stepWith rebuild w op

def run (ops : List HOp) : World := ops.foldl step []

/-- what `GetBytes()` of counter `i` returns -/
def bytesAt (w : World) (i : Nat) : Option Bytes := (w[i]?).map (fun c => getBytes c.p c.ws)

/-! ### frame conditions -/

/-- identities are stable: the world only grows -/
theorem stepWith_length_le (rb : Counter → Option Counter) (w : World) (op : HOp) :
    w.length ≤ (stepWith rb w op).length := by
  cases op <;> simp only [stepWith]
  · simp
  · split <;> simp
  · split
    · split <;> simp
    · simp
  · split
    · split <;> simp
    · simp
  · split
    · split <;> simp
    · simp
  · simp

theorem step_length_le (w : World) (op : HOp) : w.length ≤ (step w op).length :=
  stepWith_length_le rebuild w op

/-- the only counter an operation may change -/
def target : HOp → Option Nat
  | .offer i _ => some i
  | .addAll i _ => some i
  | _ => none

/-- **frame**: every existing counter other than the receiver of `offer`/`addAll` is untouched —
    same precision, same words (hence same bytes), same identity; `new`, `merge`, `build` and
    `getBytes` touch no existing counter at all -/
theorem stepWith_frame (rb : Counter → Option Counter) (w : World) (op : HOp) (k : Nat)
    (hk : k < w.length) (hne : target op ≠ some k) : (stepWith rb w op)[k]? = w[k]? := by
  cases op with
  | new p => simp only [stepWith]; rw [List.getElem?_append_left hk]
  | offer i h =>
    simp only [stepWith]
    split
    · have : i ≠ k := by intro e; apply hne; simp [target, e]
      rw [List.getElem?_set_ne this]
    · rfl
  | addAll i j =>
    simp only [stepWith]
    split
    · split
      · have : i ≠ k := by intro e; apply hne; simp [target, e]
        rw [List.getElem?_set_ne this]
      · rfl
    · rfl
  | merge i js =>
    simp only [stepWith]
    split
    · split
      · rw [List.getElem?_append_left hk]
      · rfl
    · rfl
  | build i =>
    simp only [stepWith]
    split
    · split
      · rw [List.getElem?_append_left hk]
      · rfl
    · rfl
  | getBytes i => rfl

/-- **frame**: every existing counter other than the receiver of `offer`/`addAll` is untouched —
    same precision, same words (hence same bytes), same identity; `new`, `merge`, `build` and
    `getBytes` touch no existing counter at all -/
theorem step_frame (w : World) (op : HOp) (k : Nat) (hk : k < w.length) (hne : target op ≠ some k) :
    (step w op)[k]? = w[k]? := stepWith_frame rebuild w op k hk hne

/-- in particular the arguments of `Merge`, the argument of `AddAll` (unless it is the receiver
    itself) and the source of `Build` keep their bytes -/
theorem step_frame_bytes (w : World) (op : HOp) (k : Nat) (hk : k < w.length)
    (hne : target op ≠ some k) : bytesAt (step w op) k = bytesAt w k := by
  unfold bytesAt; rw [step_frame w op k hk hne]

/-! ### every counter is the fold of what reached it -/

/-- the invariant of a counter: valid precision, hashed ghost items, words = state of the items -/
structure CInv (c : Counter) : Prop where
  prec : PrecOK c.p
  hashed : ∀ h ∈ c.items, Hashed h
  state : c.ws = stateOf c.p c.items

def WInv (w : World) : Prop := ∀ c ∈ w, CInv c

/-- the operations of a history are well-formed: precisions in range, hashed values 32-bit -/
def OpOK : HOp → Prop
  | .new p => PrecOK p
  | .offer _ h => Hashed h
  | _ => True

theorem stateOf_append (p : Nat) (xs ys : List Nat) (hp : PrecOK p) (hx : ∀ h ∈ xs, Hashed h)
    (hy : ∀ h ∈ ys, Hashed h) : merge (stateOf p xs) (stateOf p ys) = stateOf p (xs ++ ys) :=
  merge_stateOf p xs ys hp hx hy

theorem stateOf_snoc (p : Nat) (xs : List Nat) (h : Nat) :
    (offerHashed p (stateOf p xs) h).1 = stateOf p (xs ++ [h]) := by
  unfold stateOf offerAll
  rw [List.foldl_append]; rfl

theorem mem_of_getElem? {w : World} {i : Nat} {c : Counter} (h : w[i]? = some c) : c ∈ w :=
  List.mem_of_getElem? h

theorem WInv_set (w : World) (i : Nat) (c : Counter) (hw : WInv w) (hc : CInv c) : WInv (w.set i c) := by
  intro d hd
  rcases List.mem_or_eq_of_mem_set hd with h | h
  · exact hw d h
  · rw [h]; exact hc

theorem WInv_append (w : World) (c : Counter) (hw : WInv w) (hc : CInv c) : WInv (w ++ [c]) := by
  intro d hd
  rcases List.mem_append.mp hd with h | h
  · exact hw d h
  · simp at h; rw [h]; exact hc

theorem mergeArgs_inv (w : World) (p : Nat) (hw : WInv w) (hp : PrecOK p) :
    ∀ (js : List Nat) (acc : Array Nat) (its : List Nat), argsOK w p js = true →
      (∀ h ∈ its, Hashed h) → acc = stateOf p its →
      (∀ h ∈ (mergeArgs w acc its js).2, Hashed h) ∧
      (mergeArgs w acc its js).1 = stateOf p (mergeArgs w acc its js).2 := by
  intro js
  induction js with
  | nil => intro acc its _ h1 h2; exact ⟨h1, h2⟩
  | cons j js ih =>
    intro acc its hok h1 h2
    simp only [argsOK, Bool.and_eq_true] at hok
    simp only [mergeArgs]
    cases hj : w[j]? with
    | none => rw [hj] at hok; simp at hok
    | some c =>
      rw [hj] at hok
      have hcp : c.p = p := by simpa using hok.1
      have ci := hw c (mem_of_getElem? hj)
      simp only
      apply ih _ _ hok.2
      · intro h hm
        rcases List.mem_append.mp hm with e | e
        · exact h1 h e
        · exact ci.hashed h e
      · rw [h2, ci.state, hcp]
        exact stateOf_append p its c.items hp h1 (by intro h hm; exact ci.hashed h hm)

theorem stepWith_inv (rb : Counter → Option Counter)
    (hrb : ∀ a, CInv a → rb a = some ⟨a.p, a.ws, a.items⟩)
    (w : World) (op : HOp) (hw : WInv w) (hop : OpOK op) : WInv (stepWith rb w op) := by
  cases op with
  | new p =>
    exact WInv_append w _ hw ⟨hop, (by intro h hm; cases hm), rfl⟩
  | offer i h =>
    simp only [stepWith]
    cases hi : w[i]? with
    | none => exact hw
    | some c =>
      have ci := hw c (mem_of_getElem? hi)
      apply WInv_set w i _ hw
      refine ⟨ci.prec, ?_, ?_⟩
      · intro x hx
        rcases List.mem_append.mp hx with e | e
        · exact ci.hashed x e
        · simp at e; rw [e]; exact hop
      · show (offerHashed c.p c.ws h).1 = stateOf c.p (c.items ++ [h])
        rw [ci.state]; exact stateOf_snoc c.p c.items h
  | addAll i j =>
    simp only [stepWith]
    cases hi : w[i]? with
    | none => exact hw
    | some a =>
      cases hj : w[j]? with
      | none => exact hw
      | some b =>
        simp only
        split
        · rename_i hp
          have ai := hw a (mem_of_getElem? hi)
          have bi := hw b (mem_of_getElem? hj)
          apply WInv_set w i _ hw
          refine ⟨ai.prec, ?_, ?_⟩
          · intro x hx
            rcases List.mem_append.mp hx with e | e
            · exact ai.hashed x e
            · exact bi.hashed x e
          · show merge a.ws b.ws = stateOf a.p (a.items ++ b.items)
            rw [ai.state, bi.state, ← hp]
            exact stateOf_append a.p _ _ ai.prec ai.hashed bi.hashed
        · exact hw
  | merge i js =>
    simp only [stepWith]
    cases hi : w[i]? with
    | none => exact hw
    | some a =>
      simp only
      split
      · rename_i hok
        have ai := hw a (mem_of_getElem? hi)
        have h0 : merge (fresh a.p) a.ws = stateOf a.p a.items := by
          rw [ai.state]; exact merge_fresh_left a.p _ (stateOf_wf a.p a.items ai.prec)
        have := mergeArgs_inv w a.p hw ai.prec js _ a.items hok ai.hashed h0
        exact WInv_append w _ hw ⟨ai.prec, this.1, this.2⟩
      · exact hw
  | build i =>
    simp only [stepWith]
    cases hi : w[i]? with
    | none => exact hw
    | some a =>
      have ai := hw a (mem_of_getElem? hi)
      simp only [hrb a ai]
      exact WInv_append w _ hw ⟨ai.prec, ai.hashed, ai.state⟩
  | getBytes i => exact hw

theorem rebuild_eq (a : Counter) (ai : CInv a) : rebuild a = some ⟨a.p, a.ws, a.items⟩ := by
  have wf : WFState a.p a.ws := by rw [ai.state]; exact stateOf_wf a.p a.items ai.prec
  have rt := run_build_getBytes a.p a.ws [] ai.prec.hi
    (by rw [wf.size]; exact wordCount_lt a.p ai.prec.hi) (wf_words_lt a.p a.ws wf)
  rw [List.append_nil] at rt
  exact congrArg (fun r => rebuildOf r a.items) rt

theorem step_inv (w : World) (op : HOp) (hw : WInv w) (hop : OpOK op) : WInv (step w op) :=
  stepWith_inv rebuild rebuild_eq w op hw hop

theorem run_inv (ops : List HOp) (hops : ∀ op ∈ ops, OpOK op) : WInv (run ops) := by
  unfold run
  suffices ∀ (w : World), WInv w → WInv (ops.foldl step w) from this [] (by intro c hc; cases hc)
  induction ops with
  | nil => intro w hw; exact hw
  | cons op ops ih =>
    intro w hw
    exact ih (fun o ho => hops o (List.mem_cons_of_mem _ ho)) _
      (step_inv w op hw (hops op List.mem_cons_self))

/-- **histories**: after any history, every counter's bytes are those of the counter that was
    offered exactly its ghost items — so they depend only on the *set* of items that reached it -/
theorem history_bytes (ops : List HOp) (hops : ∀ op ∈ ops, OpOK op) (i : Nat) (c : Counter)
    (hc : (run ops)[i]? = some c) :
    PrecOK c.p ∧ c.ws = stateOf c.p c.items ∧ Reach c.p c.ws ∧
    getBytes c.p c.ws = bytesOfRegs c.p (supRank c.p c.items) := by
  have ci := run_inv ops hops c (mem_of_getElem? hc)
  refine ⟨ci.prec, ci.state, ?_, ?_⟩
  · rw [ci.state]; exact offerAll_reach c.p _ c.items ci.prec (fresh_reach c.p) ci.hashed
  · rw [ci.state]; exact getBytes_stateOf c.p c.items ci.prec ci.hashed

/-- two counters (of any two histories) of the same precision that were reached by the same set
    of items have identical bytes — order, duplication, merge structure are irrelevant -/
theorem history_set_determines_bytes (ops1 ops2 : List HOp) (h1 : ∀ op ∈ ops1, OpOK op)
    (h2 : ∀ op ∈ ops2, OpOK op) (i j : Nat) (c d : Counter)
    (hc : (run ops1)[i]? = some c) (hd : (run ops2)[j]? = some d) (hp : c.p = d.p)
    (hset : ∀ x, x ∈ c.items ↔ x ∈ d.items) : getBytes c.p c.ws = getBytes d.p d.ws := by
  have ci := run_inv ops1 h1 c (mem_of_getElem? hc)
  have di := run_inv ops2 h2 d (mem_of_getElem? hd)
  rw [ci.state, di.state, ← hp]
  congr 1
  exact offerAll_set c.p _ _ _ ci.prec (fresh_wf c.p) ci.hashed di.hashed hset

/-! ### failing operations, the result of a merge, self-merge -/

/-- `AddAll` between counters of different precision panics: nothing changes -/
theorem addAll_mismatch (w : World) (i j : Nat) (a b : Counter) (hi : w[i]? = some a)
    (hj : w[j]? = some b) (hp : a.p ≠ b.p) : step w (.addAll i j) = w := by
  simp only [step, stepWith, hi, hj, hp, if_false]

/-- `Merge` with an unknown or differently sized argument panics: no counter is created, none changes -/
theorem merge_mismatch (w : World) (i : Nat) (js : List Nat) (a : Counter) (hi : w[i]? = some a)
    (hbad : argsOK w a.p js = false) : step w (.merge i js) = w := by
  simp only [step, stepWith, hi, hbad]
  rfl

theorem mem_mergeArgs_items (w : World) (x : Nat) :
    ∀ (js : List Nat) (acc : Array Nat) (its : List Nat),
      (x ∈ (mergeArgs w acc its js).2 ↔ x ∈ its ∨ ∃ j ∈ js, ∃ b, w[j]? = some b ∧ x ∈ b.items) := by
  intro js
  induction js with
  | nil => intro acc its; simp [mergeArgs]
  | cons j js ih =>
    intro acc its
    simp only [mergeArgs]
    cases hj : w[j]? with
    | none =>
      simp only
      rw [ih]
      constructor
      · rintro (h | ⟨k, hk, b, hb, hx⟩)
        · exact Or.inl h
        · exact Or.inr ⟨k, List.mem_cons_of_mem _ hk, b, hb, hx⟩
      · rintro (h | ⟨k, hk, b, hb, hx⟩)
        · exact Or.inl h
        · rcases List.mem_cons.mp hk with e | e
          · subst e; rw [hj] at hb; cases hb
          · exact Or.inr ⟨k, e, b, hb, hx⟩
    | some c =>
      simp only
      rw [ih]
      constructor
      · rintro (h | ⟨k, hk, b, hb, hx⟩)
        · rcases List.mem_append.mp h with e | e
          · exact Or.inl e
          · exact Or.inr ⟨j, List.mem_cons_self, c, hj, e⟩
        · exact Or.inr ⟨k, List.mem_cons_of_mem _ hk, b, hb, hx⟩
      · rintro (h | ⟨k, hk, b, hb, hx⟩)
        · exact Or.inl (List.mem_append_left _ h)
        · rcases List.mem_cons.mp hk with e | e
          · subst e; rw [hj] at hb; cases hb
            exact Or.inl (List.mem_append_right _ hx)
          · exact Or.inr ⟨k, e, b, hb, hx⟩

/-- **Merge**: a new counter at the end of the world, reached by exactly the items of the
    receiver and of the arguments (whatever their order, repeated or not, the receiver included) -/
theorem merge_result (w : World) (i : Nat) (js : List Nat) (a : Counter) (hw : WInv w)
    (hi : w[i]? = some a) (hok : argsOK w a.p js = true) :
    ∃ c, step w (.merge i js) = w ++ [c] ∧ c.p = a.p ∧ c.ws = stateOf c.p c.items ∧
      (∀ x, x ∈ c.items ↔ x ∈ a.items ∨ ∃ j ∈ js, ∃ b, w[j]? = some b ∧ x ∈ b.items) := by
  have ai := hw a (mem_of_getElem? hi)
  have h0 : merge (fresh a.p) a.ws = stateOf a.p a.items := by
    rw [ai.state]; exact merge_fresh_left a.p _ (stateOf_wf a.p a.items ai.prec)
  have inv := mergeArgs_inv w a.p hw ai.prec js _ a.items hok ai.hashed h0
  refine ⟨⟨a.p, (mergeArgs w (merge (fresh a.p) a.ws) a.items js).1,
    (mergeArgs w (merge (fresh a.p) a.ws) a.items js).2⟩, ?_, rfl, inv.2, ?_⟩
  · simp only [step, stepWith, hi, hok, if_true]
  · intro x; exact mem_mergeArgs_items w x js _ _

/-- self-merge, and the same counter passed several times: the result has the receiver's bytes -/
theorem self_merge_bytes (w : World) (i : Nat) (n : Nat) (a : Counter) (hw : WInv w)
    (hi : w[i]? = some a) :
    ∃ c, step w (.merge i (List.replicate n i)) = w ++ [c] ∧ getBytes c.p c.ws = getBytes a.p a.ws := by
  have ai := hw a (mem_of_getElem? hi)
  have hok : argsOK w a.p (List.replicate n i) = true := by
    induction n with
    | zero => rfl
    | succ n ih => simp only [List.replicate_succ, argsOK, hi, beq_self_eq_true, Bool.true_and]; exact ih
  obtain ⟨c, hs, hp, hst, hm⟩ := merge_result w i _ a hw hi hok
  refine ⟨c, hs, ?_⟩
  have hset : ∀ x, x ∈ c.items ↔ x ∈ a.items := by
    intro x
    rw [hm x]
    constructor
    · rintro (h | ⟨j, hj, b, hb, hx⟩)
      · exact h
      · have : j = i := (List.mem_replicate.mp hj).2
        subst this; rw [hi] at hb; cases hb; exact hx
    · intro h; exact Or.inl h
  have hc : ∀ h ∈ c.items, Hashed h := fun h hm' => ai.hashed h ((hset h).mp hm')
  rw [hst, ai.state, hp]
  congr 1
  exact offerAll_set a.p _ _ _ ai.prec (fresh_wf a.p) hc ai.hashed hset

end HLL
