/-
  Golib.HLL.Murmur — the hash `Offer`/`OfferLong` use: `MurmurHashLong` of util/hll/MurmurHash.go
  (MurmurHash2 on the two 32-bit halves of the item), in fixed-width arithmetic on `Nat`.
  `MurmurHash(o uint32) = MurmurHashLong(uint64(o))`.
-/
namespace HLL

/-- `x ^= x >> s` -/
def xorShr (x s : Nat) : Nat := x ^^^ (x / 2 ^ s)

/-- `x * m` in `uint32`, `m = 0x5bd1e995` -/
def mulM (x : Nat) : Nat := x * 1540483477 % 4294967296

/-- `MurmurHashLong(data uint64) uint32` -/
def murmurLong (data : Nat) : Nat :=
  let k0 := data * 1540483477 % 18446744073709551616 % 4294967296   -- uint32(data * uint64(m))
  let k1 := xorShr k0 24
  let h1 := 0 ^^^ mulM k1
  let k2 := (data / 4294967296) * 1540483477 % 18446744073709551616 % 4294967296
  let k3 := xorShr k2 24
  let h2 := mulM h1
  let h3 := h2 ^^^ mulM k3
  let h4 := xorShr h3 13
  let h5 := mulM h4
  xorShr h5 15

/-- `MurmurHash(o uint32) uint32` -/
def murmur32 (o : Nat) : Nat := murmurLong (o % 4294967296)

theorem xorShr_lt (x s : Nat) (h : x < 4294967296) : xorShr x s < 4294967296 := by
  unfold xorShr
  have h2 : x / 2 ^ s < 2 ^ 32 := Nat.lt_of_le_of_lt (Nat.div_le_self _ _) (by simpa using h)
  have := Nat.xor_lt_two_pow (show x < 2 ^ 32 by simpa using h) h2
  simpa using this

theorem mulM_lt (x : Nat) : mulM x < 4294967296 := Nat.mod_lt _ (by decide)

/-- the hash is a 32-bit value for every item -/
theorem murmurLong_lt (data : Nat) : murmurLong data < 4294967296 := by
  unfold murmurLong
  exact xorShr_lt _ _ (mulM_lt _)

/-- test vectors: the values the implementation returned when this file was written; the harness
    re-computes them with the implementation on every run and compares them with this model -/
def murmurVectors : List (Nat × Nat) :=
  [(0, 0), (1, 1527037976), (2, 2262979730), (255, 2629850360), (4294967295, 114743869),
   (4294967296, 2990572385), (4294967297, 1040440789), (9223372036854775808, 630388283),
   (9223372036854775809, 2302716845), (18446744073709551615, 2257181111),
   (81985529216486895, 3944479949), (16045690981097406464, 180615490),
   (1234567890123456789, 3964538363), (180388626432, 4209428433), (180388626439, 1111865740)]

theorem murmur_vectors_ok : murmurVectors.all (fun v => murmurLong v.1 == v.2) = true := by decide

end HLL
