/-
  Golib.HLL.Merge — `RegisterSet.Merge` / `HyperLogLog.AddAll` / `HyperLogLog.Merge`:
  register-wise maximum, hence exactly the state of the counter that saw the union.
-/
import Golib.HLL.State

namespace HLL

theorem merge_size (a b : Array Nat) : (merge a b).size = min a.size b.size :=
  (Array.size_zipWith : (Array.zipWith mergeWord a b).size = min a.size b.size)

theorem getD_zipWith (f : Nat → Nat → Nat) (hf : f 0 0 = 0) (a b : Array Nat)
    (hs : a.size = b.size) (i : Nat) :
    (Array.zipWith f a b).getD i 0 = f (a.getD i 0) (b.getD i 0) := by
  by_cases h : i < a.size
  · have h2 : i < b.size := by omega
    have h3 : i < (Array.zipWith f a b).size := by rw [Array.size_zipWith]; omega
    rw [getD_of_lt a _ _ h, getD_of_lt b _ _ h2, getD_of_lt _ _ _ h3, Array.getElem_zipWith]
  · rw [getD_of_size_le (Array.zipWith f a b) _ _ (by rw [Array.size_zipWith]; omega),
      getD_of_size_le a _ _ (by omega), getD_of_size_le b _ _ (by omega), hf]

theorem getD_merge (a b : Array Nat) (hs : a.size = b.size) (i : Nat) :
    (merge a b).getD i 0 = mergeWord (a.getD i 0) (b.getD i 0) :=
  getD_zipWith mergeWord (mergeWord_zero_left 0 (by decide)) a b hs i

/-- merged register = maximum of the two registers -/
theorem regGet_merge (a b : Array Nat) (hs : a.size = b.size) (r : Nat) :
    regGet (merge a b) r = max (regGet a r) (regGet b r) := by
  unfold regGet
  rw [getD_merge a b hs, wordGet_mergeWord _ _ _ (Nat.mod_lt _ (by decide))]

theorem merge_canon (a b : Array Nat) (hs : a.size = b.size) : Canon (merge a b) := by
  intro i; rw [getD_merge a b hs]; exact mergeWord_lt30 _ _

theorem merge_wf (p : Nat) (a b : Array Nat) (ha : WFState p a) (hb : WFState p b) :
    WFState p (merge a b) :=
  ⟨by rw [merge_size, ha.size, hb.size, Nat.min_self], merge_canon a b (by rw [ha.size, hb.size])⟩

theorem merge_comm (a b : Array Nat) (hs : a.size = b.size) : merge a b = merge b a := by
  apply Array.ext (by rw [merge_size, merge_size, Nat.min_comm])
  intro i h1 h2
  rw [← getD_of_lt _ i 0 h1, ← getD_of_lt _ i 0 h2, getD_merge a b hs, getD_merge b a hs.symm,
    mergeWord_comm]

theorem merge_assoc (a b c : Array Nat) (h1 : a.size = b.size) (h2 : b.size = c.size) :
    merge (merge a b) c = merge a (merge b c) := by
  have s1 : (merge a b).size = c.size := by rw [merge_size]; omega
  have s2 : a.size = (merge b c).size := by rw [merge_size]; omega
  apply Array.ext (by rw [merge_size, merge_size, merge_size, merge_size]; omega)
  intro i hi1 hi2
  rw [← getD_of_lt _ i 0 hi1, ← getD_of_lt _ i 0 hi2, getD_merge _ c s1, getD_merge a b h1,
    getD_merge a _ s2, getD_merge b c h2, mergeWord_assoc]

theorem merge_idem (a : Array Nat) (ha : Canon a) : merge a a = a := by
  apply Array.ext (by rw [merge_size, Nat.min_self])
  intro i h1 h2
  rw [← getD_of_lt _ i 0 h1, ← getD_of_lt _ i 0 h2, getD_merge a a rfl, mergeWord_idem _ (ha i)]

theorem merge_fresh_left (p : Nat) (a : Array Nat) (ha : WFState p a) : merge (fresh p) a = a := by
  have hs : (fresh p).size = a.size := by rw [(fresh_wf p).size, ha.size]
  apply Array.ext (by rw [merge_size]; omega)
  intro i h1 h2
  rw [← getD_of_lt _ i 0 h1, ← getD_of_lt _ i 0 h2, getD_merge _ a hs]
  have : (fresh p).getD i 0 = 0 := by
    simp only [fresh, Array.getD_eq_getD_getElem?, Array.getElem?_replicate]
    split <;> rfl
  rw [this, mergeWord_zero_left _ (ha.canon i)]

/-- **merge_is_union**: merging the counters that saw `xs` and `ys` gives exactly the counter
    that saw `xs ++ ys` -/
theorem merge_stateOf (p : Nat) (xs ys : List Nat) (hp : PrecOK p)
    (hx : ∀ h ∈ xs, Hashed h) (hy : ∀ h ∈ ys, Hashed h) :
    merge (stateOf p xs) (stateOf p ys) = stateOf p (xs ++ ys) := by
  have wx := stateOf_wf p xs hp
  have wy := stateOf_wf p ys hp
  have wz := stateOf_wf p (xs ++ ys) hp
  have wm := merge_wf p _ _ wx wy
  apply state_ext _ _ (by rw [wm.size, wz.size]) wm.canon wz.canon
  intro r _
  rw [regGet_merge _ _ (by rw [wx.size, wy.size]), regGet_stateOf p xs r hp hx, regGet_stateOf p ys r hp hy,
    regGet_stateOf p (xs ++ ys) r hp (by
      intro h hm; rcases List.mem_append.mp hm with h1 | h1
      · exact hx h h1
      · exact hy h h1),
    supRank_append]

/-- in-place union (`AddAll`) with an arbitrary well-formed counter: the registers afterwards -/
theorem regGet_merge_offerAll (p : Nat) (a : Array Nat) (ys : List Nat) (r : Nat) (hp : PrecOK p)
    (ha : WFState p a) (hy : ∀ h ∈ ys, Hashed h) :
    regGet (merge a (stateOf p ys)) r = regGet (offerAll p a ys) r := by
  have wy := stateOf_wf p ys hp
  rw [regGet_merge _ _ (by rw [ha.size, wy.size]), regGet_stateOf p ys r hp hy,
    regGet_offerAll p a ys r hp ha hy]

/-- merging a counter into `a` = offering that counter's items to `a` -/
theorem merge_eq_offerAll (p : Nat) (a : Array Nat) (ys : List Nat) (hp : PrecOK p)
    (ha : WFState p a) (hy : ∀ h ∈ ys, Hashed h) :
    merge a (stateOf p ys) = offerAll p a ys := by
  have wy := stateOf_wf p ys hp
  have wm := merge_wf p _ _ ha wy
  have wo := offerAll_wf p a ys hp ha
  apply state_ext _ _ (by rw [wm.size, wo.size]) wm.canon wo.canon
  intro r _
  exact regGet_merge_offerAll p a ys r hp ha hy

/-- `this.Merge(others…)` for counters that saw `xs`, `yss[0]`, `yss[1]`, …: the counter that saw
    everything -/
theorem mergeAll_stateOf (p : Nat) (xs : List Nat) (yss : List (List Nat)) (hp : PrecOK p)
    (hx : ∀ h ∈ xs, Hashed h) (hy : ∀ ys ∈ yss, ∀ h ∈ ys, Hashed h) :
    mergeAll p (stateOf p xs) (yss.map (stateOf p)) = stateOf p (xs ++ yss.flatten) := by
  unfold mergeAll
  rw [List.foldl_cons, merge_fresh_left p _ (stateOf_wf p xs hp)]
  induction yss generalizing xs with
  | nil => simp
  | cons ys yss ih =>
    rw [List.map_cons, List.foldl_cons,
      merge_stateOf p xs ys hp hx (hy ys List.mem_cons_self)]
    rw [ih (xs ++ ys) (by
        intro h hm; rcases List.mem_append.mp hm with h1 | h1
        · exact hx h h1
        · exact hy ys List.mem_cons_self h h1)
      (fun zs hz => hy zs (List.mem_cons_of_mem _ hz))]
    simp [List.append_assoc]

end HLL
