/-
  Golib.HLL.SrcHash — tie A for the hash: the body of `MurmurHashLong` (executed symbolically by
  `xlate/c14`: every re-assignment `k ^= k >> r`, `h *= m`, … becomes a nested expression) and the
  bridge to the arithmetic model `HLL.murmurLong`.
-/
import Golib.HLL.Src
import Golib.HLL.Murmur

namespace HLL.Src
open HLL

def mE : Ex := .conv 32 (.lit 1540483477)          -- m := uint32(0x5bd1e995)
def rE : Ex := .conv 32 (.lit 24)                  -- r := uint32(24)
def xorShrE (e s : Ex) : Ex := .bin .xor 32 e (.bin .shr 32 e s)     -- x ^= x >> s
def mulME (e : Ex) : Ex := .bin .mul 32 e mE                          -- x * m
def k0E : Ex := .conv 32 (.bin .mul 64 (.arg 0) (.conv 64 mE))       -- uint32(data * uint64(m))
def k2E : Ex := .conv 32 (.bin .mul 64 (.bin .shr 64 (.arg 0) (.lit 32)) (.conv 64 mE))
def h1E : Ex := .bin .xor 32 (.conv 32 (.lit 0)) (mulME (xorShrE k0E rE))   -- h ^= k * m   (h = 0)
def h3E : Ex := .bin .xor 32 (mulME h1E) (mulME (xorShrE k2E rE))           -- h *= m; h ^= k * m

/-- `MurmurHashLong` -/
def murmurLong : Ex := xorShrE (mulME (xorShrE h3E (.lit 13))) (.lit 15)

/-- `MurmurHash(o uint32)` -/
def murmur32 : Ex := .call1 "MurmurHashLong" (.conv 64 (.arg 0))

theorem eval_mE (ρ : Env) : mE.eval ρ = 1540483477 := by
  simp only [mE, Ex.eval, trunc, card]; decide

theorem eval_xorShrE (ρ : Env) (e s : Ex) : (xorShrE e s).eval ρ = xorShr (e.eval ρ) (s.eval ρ) := by
  simp only [xorShrE, Ex.eval, binop, xorShr]

theorem eval_mulME (ρ : Env) (e : Ex) : (mulME e).eval ρ = mulM (e.eval ρ) := by
  simp only [mulME, Ex.eval, binop, eval_mE, trunc, card, mulM]
  simp

/-- **MurmurHashLong**: the transcribed body computes the model's `murmurLong` for every item -/
theorem murmurLong_bridge (ρ : Env) (data : Nat) (h0 : ρ.args.getD 0 0 = data) :
    Src.murmurLong.eval ρ = HLL.murmurLong data := by
  have k0 : k0E.eval ρ = data * 1540483477 % 18446744073709551616 % 4294967296 := by
    simp only [k0E, Ex.eval, binop, eval_mE, trunc, card, h0]
    simp
  have k2 : k2E.eval ρ = (data / 4294967296) * 1540483477 % 18446744073709551616 % 4294967296 := by
    simp only [k2E, Ex.eval, binop, eval_mE, trunc, card, h0]
    simp
  have r24 : rE.eval ρ = 24 := by simp only [rE, Ex.eval, trunc, card]; decide
  have h1 : h1E.eval ρ = 0 ^^^ mulM (xorShr (data * 1540483477 % 18446744073709551616 % 4294967296) 24) := by
    simp only [h1E, Ex.eval, binop, eval_mulME, eval_xorShrE, k0, r24, trunc, card]
    simp
  have h3 : h3E.eval ρ = mulM (0 ^^^ mulM (xorShr (data * 1540483477 % 18446744073709551616 % 4294967296) 24)) ^^^
      mulM (xorShr ((data / 4294967296) * 1540483477 % 18446744073709551616 % 4294967296) 24) := by
    simp only [h3E, Ex.eval, binop, eval_mulME, eval_xorShrE, k2, r24, h1]
  simp only [Src.murmurLong, eval_xorShrE, eval_mulME, h3, Ex.eval, HLL.murmurLong]

/-- **MurmurHash**: the 32-bit entry point is the 64-bit hash of the zero-extended item -/
theorem murmur32_bridge (ρ : Env) (o : Nat) (h0 : ρ.args.getD 0 0 = o) (ho : o < 4294967296)
    (hf : ∀ x, ρ.fn1 "MurmurHashLong" x = HLL.murmurLong x) :
    Src.murmur32.eval ρ = HLL.murmur32 o := by
  simp only [Src.murmur32, Ex.eval, hf, h0, trunc, card, HLL.murmur32]
  have : o % 18446744073709551616 = o % 4294967296 := by omega
  simp [this]

end HLL.Src
