/-
  Golib.HLL.Bits — leading-zero count of a 32-bit word.

  CodeModel of `clz32` of /repo/util/hll/HyperLogLog.go (binary search on the
  position of the top nibble + 16-entry table) and its specification
  `nlz32 x = 32 − bitlen x` where `bitlen` is the number of binary digits.

  Everything is arithmetic on `Nat` with literal powers of two.
-/

namespace HLL

/-- number of binary digits of `n` (`0` for `0`) -/
def bitlen : Nat → Nat
  | 0 => 0
  | n+1 => bitlen ((n+1)/2) + 1
decreasing_by omega

theorem bitlen_zero : bitlen 0 = 0 := by simp [bitlen]

theorem bitlen_pos (n : Nat) (h : 0 < n) : bitlen n = bitlen (n/2) + 1 := by
  cases n with
  | zero => omega
  | succ n => rw [bitlen]

/-- `bitlen` is characterised by `2^(bitlen n − 1) ≤ n < 2^(bitlen n)` -/
theorem lt_two_pow_bitlen (n : Nat) : n < 2 ^ bitlen n := by
  induction n using Nat.strongRecOn with
  | _ n ih =>
    cases n with
    | zero => simp [bitlen]
    | succ n =>
      rw [bitlen_pos _ (by omega), Nat.pow_succ]
      have := ih ((n+1)/2) (by omega)
      omega

theorem two_pow_bitlen_le (n : Nat) (h : 0 < n) : 2 ^ (bitlen n - 1) ≤ n := by
  induction n using Nat.strongRecOn with
  | _ n ih =>
    rw [bitlen_pos _ h, Nat.add_sub_cancel]
    by_cases h2 : n / 2 = 0
    · rw [h2, bitlen_zero]; simp; omega
    · have := ih (n/2) (by omega) (by omega)
      have e : bitlen (n/2) = (bitlen (n/2) - 1) + 1 := by
        have := bitlen_pos (n/2) (by omega); omega
      rw [e, Nat.pow_succ]; omega

/-- uniqueness: the only `k` with `2^k ≤ n < 2^(k+1)` is `bitlen n − 1` -/
theorem bitlen_unique (n k : Nat) (h1 : 2 ^ k ≤ n) (h2 : n < 2 ^ (k+1)) : bitlen n = k + 1 := by
  have hpos : 0 < n := Nat.lt_of_lt_of_le (Nat.two_pow_pos k) h1
  have a := lt_two_pow_bitlen n
  have b := two_pow_bitlen_le n hpos
  -- 2^k ≤ n < 2^bitlen  ⇒ k < bitlen ;  2^(bitlen-1) ≤ n < 2^(k+1) ⇒ bitlen-1 < k+1
  have c : k < bitlen n := (Nat.pow_lt_pow_iff_right (by decide : 1 < 2)).mp (Nat.lt_of_le_of_lt h1 a)
  have d : bitlen n - 1 < k + 1 := (Nat.pow_lt_pow_iff_right (by decide : 1 < 2)).mp (Nat.lt_of_le_of_lt b h2)
  omega

/-- shifting out `s` low bits of a number that keeps a non-zero part removes `s` digits -/
theorem bitlen_shift (x s : Nat) (h : 0 < x / 2 ^ s) : bitlen x = bitlen (x / 2 ^ s) + s := by
  have a := lt_two_pow_bitlen (x / 2^s)
  have b := two_pow_bitlen_le (x / 2^s) h
  have hb : 0 < bitlen (x / 2^s) := by
    rcases Nat.eq_zero_or_pos (bitlen (x/2^s)) with e | e
    · rw [e, Nat.pow_zero] at a; omega
    · exact e
  have hs : 0 < 2 ^ s := Nat.two_pow_pos s
  have e : bitlen (x / 2 ^ s) + s = (bitlen (x / 2^s) - 1 + s) + 1 := by omega
  rw [e]
  apply bitlen_unique
  · rw [Nat.pow_add]
    calc 2 ^ (bitlen (x / 2 ^ s) - 1) * 2 ^ s ≤ (x / 2^s) * 2^s := Nat.mul_le_mul_right _ b
      _ ≤ x := Nat.div_mul_le_self x (2^s)
  · have e2 : bitlen (x / 2 ^ s) - 1 + s + 1 = bitlen (x / 2^s) + s := by omega
    rw [e2, Nat.pow_add]
    have := (Nat.div_lt_iff_lt_mul hs).mp a
    exact this

/-- specification: leading zeros of `x` in a 32-bit word -/
def nlz32 (x : Nat) : Nat := 32 - bitlen x

/-- the table of the Go code (`clzLookup`) -/
def clzLookup : List Nat := [32, 31, 30, 30, 29, 29, 29, 29, 28, 28, 28, 28, 28, 28, 28, 28]

/-- the shift selected by the comparison tree of `clz32` -/
def clzShift (x : Nat) : Nat :=
  if x ≥ 65536 then
    (if x ≥ 16777216 then (if x ≥ 268435456 then 28 else 24)
     else (if x ≥ 1048576 then 20 else 16))
  else
    (if x ≥ 256 then (if x ≥ 4096 then 12 else 8)
     else (if x ≥ 16 then 4 else 0))

/-- `clz32` as the code computes it: `clzLookup[x>>n] - n` -/
def clz32 (x : Nat) : Nat := clzLookup.getD (x / 2 ^ clzShift x) 0 - clzShift x

theorem lookup_spec : ∀ y, y < 16 → clzLookup.getD y 0 = 32 - bitlen y := by
  intro y hy
  have : y = 0 ∨ y = 1 ∨ y = 2 ∨ y = 3 ∨ y = 4 ∨ y = 5 ∨ y = 6 ∨ y = 7 ∨ y = 8 ∨ y = 9 ∨
      y = 10 ∨ y = 11 ∨ y = 12 ∨ y = 13 ∨ y = 14 ∨ y = 15 := by omega
  rcases this with rfl | rfl | rfl | rfl | rfl | rfl | rfl | rfl | rfl | rfl | rfl | rfl | rfl | rfl | rfl | rfl <;>
    simp [clzLookup, bitlen]

theorem clzShift_cases (x : Nat) (h : x < 4294967296) :
    (clzShift x = 0 ∧ x < 16) ∨ (clzShift x = 4 ∧ 16 ≤ x ∧ x < 256) ∨
    (clzShift x = 8 ∧ 256 ≤ x ∧ x < 4096) ∨ (clzShift x = 12 ∧ 4096 ≤ x ∧ x < 65536) ∨
    (clzShift x = 16 ∧ 65536 ≤ x ∧ x < 1048576) ∨ (clzShift x = 20 ∧ 1048576 ≤ x ∧ x < 16777216) ∨
    (clzShift x = 24 ∧ 16777216 ≤ x ∧ x < 268435456) ∨ (clzShift x = 28 ∧ 268435456 ≤ x ∧ x < 4294967296) := by
  unfold clzShift
  repeat' split
  all_goals omega

theorem clz32_correct (x : Nat) (h : x < 4294967296) : clz32 x = nlz32 x := by
  unfold clz32 nlz32
  have key : ∀ s, x / 2^s < 16 → (s = 0 ∨ 0 < x / 2^s) →
      clzLookup.getD (x / 2 ^ s) 0 - s = 32 - bitlen x := by
    intro s hlt hpos
    rw [lookup_spec _ hlt]
    rcases hpos with rfl | hpos
    · simp
    · rw [bitlen_shift x s hpos]; omega
  rcases clzShift_cases x h with ⟨e, h1⟩ | ⟨e, h1, h2⟩ | ⟨e, h1, h2⟩ | ⟨e, h1, h2⟩ | ⟨e, h1, h2⟩ |
      ⟨e, h1, h2⟩ | ⟨e, h1, h2⟩ | ⟨e, h1, h2⟩ <;> rw [e] <;> apply key <;>
    simp only [Nat.reducePow] <;> first | omega | exact Or.inl trivial

theorem clz32_le (x : Nat) (h : x < 4294967296) : clz32 x ≤ 32 := by
  rw [clz32_correct x h]; unfold nlz32; omega

end HLL
