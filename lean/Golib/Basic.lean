/-
  Golib.Basic — bytes and the decoder monad shared by every wire-format model.

  `Bytes` is a list of naturals; `WFB bs` says every element is a byte.
  `P α` is the *syntax* of a decoder: it can only ask for the next `n` bytes,
  return, or fail.  Because a decoder cannot look at its input in any other
  way, two generic theorems hold for every decoder written in `P`:

  * `P.locality`     – a successful parse depends only on the bytes it consumed;
  * `P.prefix_fails` – a strict prefix of a complete encoding never decodes.

  (core Lean only; no Mathlib)
-/

abbrev Bytes := List Nat

def WFB (bs : Bytes) : Prop := ∀ b ∈ bs, b < 256

instance (bs : Bytes) : Decidable (WFB bs) := by unfold WFB; infer_instance

theorem WFB_nil : WFB [] := by intro b h; cases h

theorem WFB_append {a b : Bytes} : WFB (a ++ b) ↔ WFB a ∧ WFB b := by
  unfold WFB
  constructor
  · intro h
    exact ⟨fun x hx => h x (List.mem_append_left _ hx), fun x hx => h x (List.mem_append_right _ hx)⟩
  · intro ⟨h1, h2⟩ x hx
    rcases List.mem_append.mp hx with h | h
    · exact h1 x h
    · exact h2 x h

theorem WFB_cons {a : Nat} {b : Bytes} : WFB (a :: b) ↔ a < 256 ∧ WFB b := by
  unfold WFB
  constructor
  · intro h
    exact ⟨h a (by simp), fun x hx => h x (by simp [hx])⟩
  · intro ⟨h1, h2⟩ x hx
    rcases List.mem_cons.mp hx with h | h
    · subst h; exact h1
    · exact h2 x h

inductive P (α : Type) where
  | pure : α → P α
  | fail : P α
  | read : (n : Nat) → (Bytes → P α) → P α

/-- `n ≤ bs.length`, computed by walking at most `n` cells (the decoders call this on
    every read, so it must not be linear in the remaining input) -/
def hasAtLeast (n : Nat) (bs : Bytes) : Bool := n == 0 || !(bs.drop (n - 1)).isEmpty

theorem hasAtLeast_iff (n : Nat) (bs : Bytes) : hasAtLeast n bs = true ↔ n ≤ bs.length := by
  unfold hasAtLeast
  cases n with
  | zero => simp
  | succ n =>
    have e : (n + 1 == 0) = false := by simp
    rw [e, Nat.add_sub_cancel, Bool.false_or]
    constructor
    · intro h
      have h2 : bs.drop n ≠ [] := by
        intro hh; rw [hh] at h; simp at h
      have := mt List.drop_eq_nil_iff.mpr h2
      omega
    · intro h
      have h2 : bs.drop n ≠ [] := by
        intro hh; have := List.drop_eq_nil_iff.mp hh; omega
      cases hd : bs.drop n with
      | nil => exact absurd hd h2
      | cons _ _ => rfl

@[simp] theorem hasAtLeast_one_cons (b : Nat) (r : Bytes) : hasAtLeast 1 (b :: r) = true := by
  simp [hasAtLeast]

namespace P

def run : P α → Bytes → Option (α × Bytes)
  | .pure a, bs => some (a, bs)
  | .fail, _ => none
  | .read n k, bs => if hasAtLeast n bs then run (k (bs.take n)) (bs.drop n) else none

theorem run_read (n : Nat) (k : Bytes → P α) (bs : Bytes) :
    run (.read n k) bs = if n ≤ bs.length then run (k (bs.take n)) (bs.drop n) else none := by
  simp only [run]
  by_cases h : n ≤ bs.length
  · rw [if_pos h, if_pos ((hasAtLeast_iff n bs).mpr h)]
  · rw [if_neg h, if_neg (fun h' => h ((hasAtLeast_iff n bs).mp h'))]

def bind : P α → (α → P β) → P β
  | .pure a, f => f a
  | .fail, _ => .fail
  | .read n k, f => .read n (fun bs => bind (k bs) f)

def map (f : α → β) (p : P α) : P β := bind p (fun a => .pure (f a))

instance : Monad P where
  pure := P.pure
  bind := P.bind

@[simp] theorem run_pure (a : α) (bs : Bytes) : run (.pure a) bs = some (a, bs) := rfl
@[simp] theorem run_fail (bs : Bytes) : run (.fail : P α) bs = none := rfl

theorem run_bind (p : P α) (f : α → P β) (bs : Bytes) :
    run (bind p f) bs = match run p bs with | none => none | some (a, r) => run (f a) r := by
  induction p generalizing bs with
  | pure a => simp [bind, run]
  | fail => simp [bind, run]
  | read n k ih =>
    simp only [bind, run]
    split
    · exact ih _ _
    · rfl

theorem run_bind_some (p : P α) (f : α → P β) (bs r : Bytes) (a : α)
    (h : run p bs = some (a, r)) : run (bind p f) bs = run (f a) r := by
  rw [run_bind, h]

theorem run_bind_none (p : P α) (f : α → P β) (bs : Bytes)
    (h : run p bs = none) : run (bind p f) bs = none := by
  rw [run_bind, h]

/-- reading exactly `n` bytes that are there -/
theorem run_read_append (n : Nat) (k : Bytes → P α) (a r : Bytes) (h : a.length = n) :
    run (.read n k) (a ++ r) = run (k a) r := by
  rw [run_read]
  have : n ≤ (a ++ r).length := by simp [List.length_append]; omega
  rw [if_pos this]
  have t1 : List.take n (a ++ r) = a := by
    rw [List.take_append_of_le_length (by omega)]; rw [← h]; simp
  have t2 : List.drop n (a ++ r) = r := by
    rw [List.drop_append_of_le_length (by omega)]
    rw [List.drop_of_length_le (by omega)]; simp
  rw [t1, t2]

theorem run_read1 (k : Bytes → P α) (b : Nat) (r : Bytes) :
    run (.read 1 k) (b :: r) = run (k [b]) r := by
  simp [run_read]

/-- locality: a successful parse depends only on the bytes it consumed -/
theorem locality (p : P α) (bs : Bytes) (v : α) (r : Bytes) (h : run p bs = some (v, r)) :
    ∃ a, bs = a ++ r ∧ ∀ c, run p (a ++ c) = some (v, c) := by
  induction p generalizing bs with
  | pure x =>
    simp [run] at h; obtain ⟨rfl, rfl⟩ := h
    exact ⟨[], by simp, by intro c; simp [run]⟩
  | fail => simp [run] at h
  | read n k ih =>
    rw [run_read] at h
    split at h
    · rename_i hn
      obtain ⟨a, ha, hc⟩ := ih _ _ h
      refine ⟨bs.take n ++ a, ?_, ?_⟩
      · rw [List.append_assoc, ← ha, List.take_append_drop]
      · intro c
        have hl : (bs.take n).length = n := by simp [List.length_take]; omega
        rw [List.append_assoc, run_read_append n k _ _ hl]
        exact hc c
    · simp at h

/-- decoding a strict prefix of a complete encoding fails -/
theorem prefix_fails (p : P α) (q s : Bytes) (v : α) (hs : s ≠ [])
    (h : run p (q ++ s) = some (v, [])) : run p q = none := by
  cases hq : run p q with
  | none => rfl
  | some x =>
    obtain ⟨v', r'⟩ := x
    obtain ⟨a, ha, hc⟩ := locality p q v' r' hq
    have := hc (r' ++ s)
    rw [← List.append_assoc, ← ha, h] at this
    simp at this
    exact absurd this.2.2 hs

/-- a decoder that succeeded consumed a prefix: the rest is a suffix of the input -/
theorem run_length_le (p : P α) (bs : Bytes) (v : α) (r : Bytes) (h : run p bs = some (v, r)) :
    r.length ≤ bs.length := by
  obtain ⟨a, ha, _⟩ := locality p bs v r h
  rw [ha]; simp

end P
