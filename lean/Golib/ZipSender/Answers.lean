/-
  Golib.ZipSender.Answers — a hand-over is final whatever the client answers.

  The client's answers to `SendFlush` are an environment stream in the state (`State.answers`).
  The code logs an error answer and carries on (`Variant.resetOnError`); hence two runs that differ
  only in the answers hand over the same packs and reach the same state (`Sim`: equal up to the
  remaining answers).  Together with `history_inv` (which holds for every answer stream) this is
  "no duplicate and no loss after a failed hand-over".
-/
import Golib.ZipSender.History

namespace ZipSender

open Prim (encMany)

variable {ρ : Type}

/-- everything but the remaining answers -/
def State.core (s : State ρ) : State ρ := { s with answers := [] }

/-- equal up to the client's remaining answers -/
def Sim (s t : State ρ) : Prop := s.core = t.core

theorem Sim.refl (s : State ρ) : Sim s s := rfl
theorem Sim.symm {s t : State ρ} (h : Sim s t) : Sim t s := Eq.symm h
theorem Sim.trans {s t u : State ρ} (h : Sim s t) (h' : Sim t u) : Sim s u := Eq.trans h h'

theorem Sim.fields {s t : State ρ} (h : Sim s t) :
    s.settings = t.settings ∧ s.queue = t.queue ∧ s.buf = t.buf ∧ s.bufLen = t.bufLen ∧ s.count = t.count ∧
    s.firstTime = t.firstTime ∧ s.stopped = t.stopped ∧ s.store = t.store ∧ s.dstores = t.dstores := by
  unfold Sim State.core at h
  simp only [State.mk.injEq, and_true] at h
  exact h

theorem Sim.of_fields {s t : State ρ}
    (h : s.settings = t.settings ∧ s.queue = t.queue ∧ s.buf = t.buf ∧ s.bufLen = t.bufLen ∧ s.count = t.count ∧
      s.firstTime = t.firstTime ∧ s.stopped = t.stopped ∧ s.store = t.store ∧ s.dstores = t.dstores) : Sim s t := by
  unfold Sim State.core
  simp only [State.mk.injEq, and_true]
  exact h

theorem sim_answers (s : State ρ) (a : List Bool) : Sim { s with answers := a } s := rfl

theorem sim_set_stopped {a b : State ρ} (h : Sim a b) : Sim { a with stopped := true } { b with stopped := true } := by
  obtain ⟨g1, g2, g3, g4, g5, g6, _, g8, g9⟩ := h.fields
  exact Sim.of_fields ⟨g1, g2, g3, g4, g5, g6, rfl, g8, g9⟩

section
variable (v : Variant) (Z : Zip) (C : Codec ρ) (hr : v.sound = true)
include hr

theorem sendAndClear_sim {s t : State ρ} (h : Sim s t) :
    Sim (sendAndClear v Z C s).1 (sendAndClear v Z C t).1 ∧ (sendAndClear v Z C s).2 = (sendAndClear v Z C t).2 := by
  obtain ⟨h1, h2, h3, h4, h5, h6, h7, h8, h9⟩ := h.fields
  by_cases h0 : s.bufLen = 0
  · rw [sendAndClear_noop v Z C s h0, sendAndClear_noop v Z C t (h4 ▸ h0)]
    exact ⟨h, rfl⟩
  · rw [sendAndClear_eq v Z C s hr h0, sendAndClear_eq v Z C t hr (h4 ▸ h0)]
    refine ⟨Sim.of_fields ?_, ?_⟩
    · simp [flushed, h1, h2, h3, h7, h8, h9]
    · simp [flushPack, h1, h3, h5]

theorem appendRec_sim {s t : State ρ} (h : Sim s t) (r : ρ) :
    Sim (appendRec v Z C s r).1 (appendRec v Z C t r).1 ∧ (appendRec v Z C s r).2 = (appendRec v Z C t r).2 := by
  obtain ⟨h1, h2, h3, h4, h5, h6, h7, h8, h9⟩ := h.fields
  have ha : Sim (appended C s r) (appended C t r) :=
    Sim.of_fields (by simp [appended, h1, h2, h3, h4, h5, h6, h7, h8, h9])
  have hm : mustFlush C s r ↔ mustFlush C t r := by unfold mustFlush; rw [h1, h4, h6]
  cases hb : C.fails r
  · rw [appendRec_ok v Z C s r hb, appendRec_ok v Z C t r hb, appendOk_eq, appendOk_eq]
    by_cases hf : mustFlush C s r
    · rw [if_pos hf, if_pos (hm.mp hf)]; exact sendAndClear_sim v Z C hr ha
    · rw [if_neg hf, if_neg (fun x => hf (hm.mpr x))]; exact ⟨ha, rfl⟩
  · rw [append_fail_noop v Z C s r hr hb, append_fail_noop v Z C t r hr hb]; exact ⟨h, rfl⟩

theorem drain_sim (q : List ρ) : ∀ {s t : State ρ}, Sim s t →
    Sim (drain v Z C s q).1 (drain v Z C t q).1 ∧ (drain v Z C s q).2 = (drain v Z C t q).2 := by
  induction q with
  | nil => intro s t h; exact ⟨h, rfl⟩
  | cons r q ih =>
    intro s t h
    obtain ⟨a1, a2⟩ := appendRec_sim v Z C hr h r
    obtain ⟨b1, b2⟩ := ih a1
    simp only [drain]
    exact ⟨b1, by rw [a2, b2]⟩

theorem step_sim {s t : State ρ} (h : Sim s t) :
    Sim (step v Z C s).1 (step v Z C t).1 ∧ (step v Z C s).2 = (step v Z C t).2 := by
  obtain ⟨h1, h2, h3, h4, h5, h6, h7, h8, h9⟩ := h.fields
  unfold step
  rw [← h7, ← h2]
  by_cases hs : s.stopped = true
  · rw [if_pos hs, if_pos hs]; exact ⟨h, rfl⟩
  · rw [if_neg hs, if_neg hs]
    cases hq : s.queue with
    | nil => exact sendAndClear_sim v Z C hr h
    | cons r q =>
      exact appendRec_sim v Z C hr (Sim.of_fields (by simp [h1, h3, h4, h5, h6, h7, h8, h9])) r

theorem stop_eq_drain (s : State ρ) (hs : ¬ s.stopped = true) (hv : v.drainOnStop = true) :
    stop v Z C s =
      ({ (sendAndClear v Z C (drain v Z C { s with queue := [] } s.queue).1).1 with stopped := true },
       (drain v Z C { s with queue := [] } s.queue).2 ++
         (sendAndClear v Z C (drain v Z C { s with queue := [] } s.queue).1).2) := by
  unfold stop; rw [if_neg hs]; simp only [hv, if_true]

theorem stop_eq_nodrain (s : State ρ) (hs : ¬ s.stopped = true) (hv : ¬ v.drainOnStop = true) :
    stop v Z C s = ({ (sendAndClear v Z C s).1 with stopped := true }, [] ++ (sendAndClear v Z C s).2) := by
  have hv' : v.drainOnStop = false := by simpa using hv
  unfold stop; rw [if_neg hs]; simp only [hv', Bool.false_eq_true, if_false]

theorem stop_sim {s t : State ρ} (h : Sim s t) :
    Sim (stop v Z C s).1 (stop v Z C t).1 ∧ (stop v Z C s).2 = (stop v Z C t).2 := by
  obtain ⟨h1, h2, h3, h4, h5, h6, h7, h8, h9⟩ := h.fields
  by_cases hs : s.stopped = true
  · rw [(stopped_inert' s hs), (stopped_inert' t (h7 ▸ hs))]; exact ⟨h, rfl⟩
  · have ht : ¬ t.stopped = true := h7 ▸ hs
    by_cases hv : v.drainOnStop = true
    · rw [stop_eq_drain v Z C hr s hs hv, stop_eq_drain v Z C hr t ht hv]
      have h0 : Sim { s with queue := [] } { t with queue := [] } :=
        Sim.of_fields (by simp [h1, h3, h4, h5, h6, h7, h8, h9])
      obtain ⟨d1, d2⟩ := drain_sim v Z C hr s.queue h0
      obtain ⟨f1, f2⟩ := sendAndClear_sim v Z C hr d1
      rw [← h2]
      exact ⟨sim_set_stopped f1, by rw [d2, f2]⟩
    · rw [stop_eq_nodrain v Z C hr s hs hv, stop_eq_nodrain v Z C hr t ht hv]
      obtain ⟨f1, f2⟩ := sendAndClear_sim v Z C hr h
      exact ⟨sim_set_stopped f1, by rw [f2]⟩
where
  stopped_inert' (s : State ρ) (hs : s.stopped = true) : stop v Z C s = (s, []) := by
    unfold stop; simp [hs]

end

/-! ### SendDirect: the answers never influence the local loop -/

section
variable (v : Variant) (Z : Zip) (C : Codec ρ) (st : Settings) (k : Nat)

def DSim (d e : DLoop ρ) : Prop :=
  d.cur = e.cur ∧ d.len = e.len ∧ d.count = e.count ∧ d.store = e.store ∧ d.out = e.out

theorem directStep_sim {d e : DLoop ρ} (h : DSim d e) (r : ρ) :
    DSim (directStep v Z C st k d r) (directStep v Z C st k e r) := by
  obtain ⟨h1, h2, h3, h4, h5⟩ := h
  simp only [directStep, h1, h2, h3, h4, h5]
  split <;> exact ⟨rfl, rfl, rfl, rfl, rfl⟩

theorem directLoop_sim (rs : List ρ) : ∀ {d e : DLoop ρ}, DSim d e →
    DSim (rs.foldl (directStep v Z C st k) d) (rs.foldl (directStep v Z C st k) e) := by
  induction rs with
  | nil => intro d e h; exact h
  | cons r rs ih => intro d e h; exact ih (directStep_sim v Z C st k h r)

theorem sendDirect_sim {s t : State ρ} (h : Sim s t) (rs : List ρ) :
    Sim (sendDirect v Z C s rs).1 (sendDirect v Z C t rs).1 ∧ (sendDirect v Z C s rs).2 = (sendDirect v Z C t rs).2 := by
  obtain ⟨h1, h2, h3, h4, h5, h6, h7, h8, h9⟩ := h.fields
  have hd : DSim (directLoop v Z C s.settings s.dstores.length s.answers rs)
                 (directLoop v Z C t.settings t.dstores.length t.answers rs) := by
    unfold directLoop
    rw [← h1, ← h9]
    exact directLoop_sim v Z C s.settings s.dstores.length rs ⟨rfl, rfl, rfl, rfl, rfl⟩
  unfold sendDirect
  generalize directLoop v Z C s.settings s.dstores.length s.answers rs = d at hd
  generalize directLoop v Z C t.settings t.dstores.length t.answers rs = e at hd
  obtain ⟨e1, e2, e3, e4, e5⟩ := hd
  unfold directFinish
  rw [e1, e2, e3, e4, e5, h1, h9]
  split
  · exact ⟨Sim.of_fields (by simp [h1, h2, h3, h4, h5, h6, h7, h8, h9]), rfl⟩
  · exact ⟨Sim.of_fields (by simp [h1, h2, h3, h4, h5, h6, h7, h8, h9]), rfl⟩
end

/-! ### whole histories -/

section
variable (v : Variant) (Z : Zip) (C : Codec ρ) (hr : v.sound = true)
include hr

theorem stepIn_sim {s t : State ρ} (h : Sim s t) (i : In ρ) :
    Sim (stepIn v Z C s i).1 (stepIn v Z C t i).1 ∧ (stepIn v Z C s i).2 = (stepIn v Z C t i).2 := by
  cases i with
  | add r =>
    obtain ⟨h1, h2, h3, h4, h5, h6, h7, h8, h9⟩ := h.fields
    have hc : canPut s = canPut t := by unfold canPut; rw [h1, h2]
    simp only [stepIn, add]
    rw [← hc]
    cases canPut s
    · exact ⟨h, rfl⟩
    · exact ⟨Sim.of_fields (by simp [h1, h2, h3, h4, h5, h6, h7, h8, h9]), rfl⟩
  | step => exact step_sim v Z C hr h
  | stop => exact stop_sim v Z C hr h
  | append r => exact appendRec_sim v Z C hr h r
  | sendDirect rs => exact sendDirect_sim v Z C h rs
  | applyConfig c =>
    obtain ⟨h1, h2, h3, h4, h5, h6, h7, h8, h9⟩ := h.fields
    exact ⟨Sim.of_fields (by simp [stepIn, h2, h3, h4, h5, h6, h7, h8, h9]), rfl⟩

theorem run_sim (h : List (In ρ)) : ∀ {s t : State ρ}, Sim s t →
    Sim (run v Z C s h).1 (run v Z C t h).1 ∧ (run v Z C s h).2 = (run v Z C t h).2 := by
  induction h with
  | nil => intro s t hs; exact ⟨hs, rfl⟩
  | cons i is ih =>
    intro s t hs
    obtain ⟨a1, a2⟩ := stepIn_sim v Z C hr hs i
    obtain ⟨b1, b2⟩ := ih a1
    rw [run_cons, run_cons]
    refine ⟨b1, ?_⟩
    simp only []
    rw [a2, b2, hs.fields.1]

end

end ZipSender
