/-
  Golib.ZipSender.LoopStop — the stop clause over the schedules of the real loop: whatever happened
  before (producers, SendDirect callers, configuration updates, any clock readings), when the loop
  meets the cancellation at its `select` it exits, and at that moment every serialisable record the
  queue ever accepted has been handed over, in order.
-/
import Golib.ZipSender.Loop
import Golib.ZipSender.Theorems

namespace ZipSender

variable {ρ : Type} (v : Variant) (Z : Zip) (C : Codec ρ)

theorem lrun_snoc (as : List (Act ρ)) (a : Act ρ) : ∀ l : LState ρ,
    lrun v Z C l (as ++ [a]) =
      ((lstep v Z C (lrun v Z C l as).1 a).1, (lrun v Z C l as).2 ++ (lstep v Z C (lrun v Z C l as).1 a).2) := by
  induction as with
  | nil => intro l; simp [lrun]
  | cons b bs ih => intro l; simp only [List.cons_append, lrun, ih, List.append_assoc]

theorem absHist_no_append (as : List (Act ρ)) : ∀ l : LState ρ, directAppends (absHist v Z C l as) = [] := by
  induction as with
  | nil => intro l; rfl
  | cons a as ih =>
    intro l
    simp only [absHist, directAppends_append, ih, List.append_nil]
    cases a with
    | add r => rfl
    | sendDirect rs => rfl
    | applyConfig c => rfl
    | cancel => rfl
    | select k => simp only [absAct]; split <;> rfl
    | poll =>
      simp only [absAct]
      split
      · split <;> rfl
      · rfl

theorem exit_emits_everything (hr : v.sound = true) (hv : v.drainOnStop = true) (hne : ∀ r, C.enc r ≠ [])
    (st : Settings) (ans : List Bool) (as : List (Act ρ)) (k : Int)
    (hpc : (lrun v Z C (linit st ans) as).1.pc = .top) (hc : (lrun v Z C (linit st ans) as).1.cancelled = true) :
    (lrun v Z C (linit st ans) (as ++ [.select k])).1.pc = .exited ∧
    sharedRecs (lrun v Z C (linit st ans) (as ++ [.select k])).2 =
      good C (accepted v Z C (init st ans) (absHist v Z C (linit st ans) (as ++ [.select k]))) := by
  have hi := (loop_refines v Z C hr as (linit st ans) (LInv_init st ans)).2.2
  obtain ⟨c1, c2, c3, _⟩ := cancel_exits v Z C hr hv (lrun v Z C (linit st ans) as).1 k hi hpc hc
  obtain ⟨r1, r2, _⟩ := loop_refines v Z C hr (as ++ [.select k]) (linit st ans) (LInv_init st ans)
  have e1 : (lrun v Z C (linit st ans) (as ++ [.select k])).1 = (lstep v Z C (lrun v Z C (linit st ans) as).1 (.select k)).1 := by
    rw [lrun_snoc]
  refine ⟨by rw [e1]; exact c1, ?_⟩
  have hcore : (linit st ans : LState ρ).core = init st ans := rfl
  rw [hcore] at r1 r2
  obtain ⟨deq, fed, h1, h2, h3⟩ := history_inv v Z C (absHist v Z C (linit st ans) (as ++ [.select k])) hr (init st ans)
  have hw := (history_WF v Z C (absHist v Z C (linit st ans) (as ++ [.select k])) hr (init st ans) (WF_init C st ans)).1
  rw [← r1] at h1 h3 hw
  rw [← r2] at h3
  have hq : (lrun v Z C (linit st ans) (as ++ [.select k])).1.core.queue = [] := by rw [e1]; exact c2
  have hl : (lrun v Z C (linit st ans) (as ++ [.select k])).1.core.bufLen = 0 := by rw [e1]; exact c3
  have hb := buf_nil_of_len C hne _ hw hl
  rw [absHist_no_append] at h2
  rw [hq, List.append_nil] at h1
  rw [hb] at h3
  have q0 : (init st ans : State ρ).queue = [] := rfl
  have b0 : (init st ans : State ρ).buf = [] := rfl
  rw [q0, List.nil_append] at h1
  rw [b0] at h3
  simp only [List.reverse_nil, List.append_nil, List.nil_append] at h3
  rw [h3, ← h1, h2.nil_right]

end ZipSender
