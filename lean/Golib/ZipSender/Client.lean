/-
  Golib.ZipSender.Client — `SetTcpClient`: the sender's TCP client can be replaced at any time.

  `this.client = c` touches nothing else: no pack is handed over, the batch under construction, the
  queue and the settings stay as they are, and every later hand-over (`sendAndClear`, `SendDirect`)
  calls `SendFlush` on the client in force at that moment.  The model wraps the histories of
  `Golib.ZipSender.Model`: `CIn` adds the input `setClient k` (clients are numbered; 0 is the one
  given at construction), `crun` tags every hand-over with the client that received it.

    crun_erase            forgetting who received what, a history with client switches is the history
                          without them: every theorem about `run` / `emitted` / `final` carries over
    crun_append           histories compose
    dest_constant         between two switches every pack goes to the same client
    crun_switch           … namely the one set last; the batch under construction at the moment of the
                          switch is handed to the NEW client when it is flushed, nothing is handed over
                          by the switch itself, nothing is handed over twice
-/
import Golib.ZipSender.History

namespace ZipSender

variable {ρ : Type}

inductive CIn (ρ : Type)
  | op (i : In ρ)
  | setClient (k : Nat)      -- SetTcpClient(c_k)

/-- a hand-over as the outside sees it -/
structure Delivery (ρ : Type) where
  dest : Nat               -- which client's `SendFlush` was called
  settings : Settings      -- the settings in force
  pack : Pack ρ

def crun (v : Variant) (Z : Zip) (C : Codec ρ) : State ρ → Nat → List (CIn ρ) → (State ρ × Nat) × List (Delivery ρ)
  | s, k, [] => ((s, k), [])
  | s, _, .setClient k' :: is => crun v Z C s k' is
  | s, k, .op i :: is =>
    let (s1, o1) := stepIn v Z C s i
    let (r, o2) := crun v Z C s1 k is
    (r, o1.map (fun p => ⟨k, s.settings, p⟩) ++ o2)

/-- the history without the client switches -/
def erase : List (CIn ρ) → List (In ρ)
  | [] => []
  | .op i :: is => i :: erase is
  | .setClient _ :: is => erase is

def isSwitch : CIn ρ → Bool
  | .setClient _ => true
  | .op _ => false

section
variable (v : Variant) (Z : Zip) (C : Codec ρ)

theorem crun_op (s : State ρ) (k : Nat) (i : In ρ) (is : List (CIn ρ)) :
    crun v Z C s k (.op i :: is) =
      ((crun v Z C (stepIn v Z C s i).1 k is).1,
       (stepIn v Z C s i).2.map (fun p => ⟨k, s.settings, p⟩) ++ (crun v Z C (stepIn v Z C s i).1 k is).2) := by
  simp only [crun]

/-- `SetTcpClient` hands nothing over and leaves the sender's state as it is -/
theorem crun_setClient (s : State ρ) (k k' : Nat) (is : List (CIn ρ)) :
    crun v Z C s k (.setClient k' :: is) = crun v Z C s k' is := rfl

theorem crun_erase (h : List (CIn ρ)) : ∀ (s : State ρ) (k : Nat),
    (crun v Z C s k h).1.1 = final v Z C s (erase h) ∧
    (crun v Z C s k h).2.map (fun x => (x.settings, x.pack)) = (run v Z C s (erase h)).2 := by
  induction h with
  | nil => intro s k; exact ⟨rfl, rfl⟩
  | cons i is ih =>
    intro s k
    cases i with
    | setClient k' => rw [crun_setClient]; exact ih s k'
    | op i =>
      obtain ⟨h1, h2⟩ := ih (stepIn v Z C s i).1 k
      rw [crun_op]
      simp only [erase, final_cons, run_cons, List.map_append, List.map_map, Function.comp_def]
      exact ⟨h1, by rw [h2]⟩

theorem crun_append (h h' : List (CIn ρ)) : ∀ (s : State ρ) (k : Nat),
    crun v Z C s k (h ++ h') =
      ((crun v Z C (crun v Z C s k h).1.1 (crun v Z C s k h).1.2 h').1,
       (crun v Z C s k h).2 ++ (crun v Z C (crun v Z C s k h).1.1 (crun v Z C s k h).1.2 h').2) := by
  induction h with
  | nil => intro s k; simp [crun]
  | cons i is ih =>
    intro s k
    cases i with
    | setClient k' => simp only [List.cons_append, crun_setClient]; exact ih s k'
    | op i =>
      simp only [List.cons_append, crun_op, ih, List.append_assoc]

/-- without a switch in the history the client stays, and every pack goes to it -/
theorem dest_constant (h : List (CIn ρ)) (hn : ∀ i ∈ h, isSwitch i = false) : ∀ (s : State ρ) (k : Nat),
    (crun v Z C s k h).1.2 = k ∧ ∀ x ∈ (crun v Z C s k h).2, x.dest = k := by
  induction h with
  | nil => intro s k; exact ⟨rfl, by simp [crun]⟩
  | cons i is ih =>
    intro s k
    cases i with
    | setClient k' => have := hn (.setClient k') (by simp); simp [isSwitch] at this
    | op i =>
      obtain ⟨h1, h2⟩ := ih (fun j hj => hn j (by simp [hj])) (stepIn v Z C s i).1 k
      rw [crun_op]
      refine ⟨h1, ?_⟩
      intro x hx
      rcases List.mem_append.mp hx with hx | hx
      · obtain ⟨p, _, rfl⟩ := List.mem_map.mp hx; rfl
      · exact h2 x hx

/-- **a switch in the middle of any history**: what was handed over before stays handed over (to
    whoever received it), the switch itself hands nothing over, and everything handed over until the
    next switch — the batch that was under construction included — goes to the new client -/
theorem crun_switch (h1 h2 : List (CIn ρ)) (k' : Nat) (hn : ∀ i ∈ h2, isSwitch i = false) (s : State ρ) (k : Nat) :
    (crun v Z C s k (h1 ++ .setClient k' :: h2)).2 =
      (crun v Z C s k h1).2 ++ (crun v Z C (crun v Z C s k h1).1.1 k' h2).2 ∧
    (∀ x ∈ (crun v Z C (crun v Z C s k h1).1.1 k' h2).2, x.dest = k') ∧
    (crun v Z C s k (h1 ++ .setClient k' :: h2)).1.2 = k' := by
  rw [crun_append, crun_setClient]
  obtain ⟨d1, d2⟩ := dest_constant v Z C h2 hn (crun v Z C s k h1).1.1 k'
  exact ⟨rfl, d2, d1⟩

/-- the packs of a history with switches, whoever received them -/
def cemitted (s : State ρ) (k : Nat) (h : List (CIn ρ)) : List (Pack ρ) := (crun v Z C s k h).2.map (·.pack)

theorem cemitted_erase (s : State ρ) (k : Nat) (h : List (CIn ρ)) :
    cemitted v Z C s k h = emitted v Z C s (erase h) := by
  have := (crun_erase v Z C h s k).2
  unfold cemitted emitted
  rw [← this, List.map_map]; rfl

end

end ZipSender
