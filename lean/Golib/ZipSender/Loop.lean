/-
  Golib.ZipSender.Loop — the real background loop `run()` as an action machine, and the queue of
  the sender as an instance of the C11 queue model.

  ```
  for true {
    select {
    case <-this.ctx.Done():  (drain;) this.sendAndClear(); return
    default:
      if tmp := this.Queue.GetTimeout(int(this.logsinkMaxWaitTime)); tmp != nil { this.Append(data) }
      else { this.sendAndClear() }
    }
  }
  ```
  `GetTimeout` polls: `for v = GetNoWait(); v == nil; v = GetNoWait() { sleep(t/3); t = timeto-now; if t <= 0 {break} }`.

  The goroutine's program counter is `top` (at the `select`), `polling n` (inside GetTimeout, `n`
  more polls fit before the deadline — chosen by the environment when the call starts) or `exited`.
  The actions of the environment (producers, configuration, cancellation) interleave freely with the
  loop's own actions `select` and `poll`; a cancellation is noticed only at the `select`.

  `loop_refines`: every execution of the machine is an execution of the atomic-action model of
  Model.lean (`absHist`: a poll that finds a record or times out is a `step`, the `select` that sees
  the cancellation is a `stop`, everything else of the loop stutters), so every theorem about
  histories holds for every schedule of the real loop.
-/
import Golib.Queue.Seq
import Golib.ZipSender.Theorems

namespace ZipSender

variable {ρ : Type}

/-! ### the sender's queue is the C11 queue -/

/-- the sender's queue seen as a `Queue.Q` of record handles (`key r ≠ 0`: a non-nil pointer) -/
def qAbs (key : ρ → Nat) (s : State ρ) : Queue.Q := ⟨s.queue.map key, s.settings.queueCap⟩

theorem canPut_eq_room (key : ρ → Nat) (s : State ρ) : canPut s = (qAbs key s).room := by
  simp only [canPut, qAbs, Queue.Q.room, Queue.Q.size, List.length_map]; rfl

/-- `Add` is `RequestQueue.Put`: same new content, same answer, `accepted`/`failed` event -/
theorem add_refines_put (key : ρ → Nat) (s : State ρ) (r : ρ) :
    Queue.step (qAbs key s) (.put (key r)) =
      (qAbs key (add s r).1, .bool (canPut s),
       [if canPut s then Queue.Ev.accepted (key r) else Queue.Ev.failed (key r)]) := by
  unfold Queue.step add
  rw [← canPut_eq_room]
  cases h : canPut s <;> simp [qAbs]

/-- acceptance as the C11 model decides it: the answer of `Put` -/
def putAccepts (key : ρ → Nat) (s : State ρ) (r : ρ) : Bool :=
  (Queue.step (qAbs key s) (.put (key r))).2.1 == .bool true

theorem putAccepts_eq (key : ρ → Nat) (s : State ρ) (r : ρ) : putAccepts key s r = canPut s := by
  unfold putAccepts; rw [add_refines_put]; cases canPut s <;> rfl

/-- what the loop's `GetTimeout` delivers is the C11 queue's answer: the oldest record, or nil -/
theorem dequeue_refines_getTimeout (key : ρ → Nat) (s : State ρ) (k : Nat) (hk : ∀ r ∈ s.queue, key r ≠ 0) :
    Queue.step (qAbs key s) (.getTimeout k) =
      match s.queue with
      | [] => (qAbs key s, .val 0, [])
      | r :: q => (qAbs key { s with queue := q }, .val (key r), [.delivered (key r)]) := by
  cases hq : s.queue with
  | nil => simp [Queue.step, qAbs, hq, Queue.getTimeoutLoop]
  | cons r q =>
    have : key r ≠ 0 := hk r (by simp [hq])
    simp [Queue.step, qAbs, hq, Queue.getTimeoutLoop, this]

/-- `ApplyConfig` → `SetCapacity` -/
theorem applyConfig_refines_setCapacity (key : ρ → Nat) (s : State ρ) (c : Conf) :
    (Queue.step (qAbs key s) (.setCapacity c.resolve.queueCap)).1 = qAbs key { s with settings := c.resolve } := by
  simp [Queue.step, qAbs]

/-- records accepted by the queue along a history, acceptance decided by the C11 model -/
def acceptedQ (key : ρ → Nat) (v : Variant) (Z : Zip) (C : Codec ρ) : State ρ → List (In ρ) → List ρ
  | _, [] => []
  | s, i :: is =>
    (match i with | .add r => if putAccepts key s r then [r] else [] | _ => []) ++
      acceptedQ key v Z C (stepIn v Z C s i).1 is

theorem acceptedQ_eq (key : ρ → Nat) (v : Variant) (Z : Zip) (C : Codec ρ) (h : List (In ρ)) :
    ∀ s : State ρ, acceptedQ key v Z C s h = accepted v Z C s h := by
  induction h with
  | nil => intro s; rfl
  | cons i is ih =>
    intro s
    cases i <;> simp [acceptedQ, accepted, ih, putAccepts_eq]

/-! ### the loop machine -/

inductive PC
  | top                     -- at the `select`
  | polling (left : Nat)    -- inside GetTimeout: `left` polls still fit before the deadline
  | exited                  -- `run` has returned
deriving DecidableEq, Repr

structure LState (ρ : Type) where
  core      : State ρ
  pc        : PC
  cancelled : Bool          -- ctx.Done() is closed

inductive Act (ρ : Type)
  | add (r : ρ)
  | sendDirect (rs : List ρ)
  | applyConfig (c : Conf)
  | cancel
  | select (extraPolls : Nat)   -- the loop evaluates its `select`; entering GetTimeout, 1 + extraPolls polls will fit
  | poll                        -- one `GetNoWait` of the polling loop (followed by the sleep / deadline test)

def linit (st : Settings) (ans : List Bool := []) : LState ρ := ⟨init st ans, .top, false⟩

def lstep (v : Variant) (Z : Zip) (C : Codec ρ) (l : LState ρ) : Act ρ → LState ρ × List (Pack ρ)
  | .add r => ({ l with core := (add l.core r).1 }, [])
  | .sendDirect rs => ({ l with core := (sendDirect v Z C l.core rs).1 }, (sendDirect v Z C l.core rs).2)
  | .applyConfig c => ({ l with core := { l.core with settings := c.resolve } }, [])
  | .cancel => ({ l with cancelled := true }, [])
  | .select k =>
    match l.pc with
    | .top =>
      if l.cancelled then ({ l with core := (stop v Z C l.core).1, pc := .exited }, (stop v Z C l.core).2)
      else ({ l with pc := .polling (k + 1) }, [])
    | _ => (l, [])
  | .poll =>
    match l.pc with
    | .polling (n + 1) =>
      match l.core.queue with
      | r :: q =>
        ({ l with core := (appendRec v Z C { l.core with queue := q } r).1, pc := .top },
         (appendRec v Z C { l.core with queue := q } r).2)
      | [] =>
        if n = 0 then ({ l with core := (sendAndClear v Z C l.core).1, pc := .top }, (sendAndClear v Z C l.core).2)
        else ({ l with pc := .polling n }, [])
    | _ => (l, [])

def lrun (v : Variant) (Z : Zip) (C : Codec ρ) : LState ρ → List (Act ρ) → LState ρ × List (Pack ρ)
  | l, [] => (l, [])
  | l, a :: as =>
    ((lrun v Z C (lstep v Z C l a).1 as).1, (lstep v Z C l a).2 ++ (lrun v Z C (lstep v Z C l a).1 as).2)

/-- the atomic actions of Model.lean that one machine action amounts to -/
def absAct (l : LState ρ) : Act ρ → List (In ρ)
  | .add r => [.add r]
  | .sendDirect rs => [.sendDirect rs]
  | .applyConfig c => [.applyConfig c]
  | .cancel => []
  | .select _ => if l.pc = .top ∧ l.cancelled = true then [.stop] else []
  | .poll =>
    match l.pc with
    | .polling (n + 1) => if l.core.queue ≠ [] ∨ n = 0 then [.step] else []
    | _ => []

def absHist (v : Variant) (Z : Zip) (C : Codec ρ) : LState ρ → List (Act ρ) → List (In ρ)
  | _, [] => []
  | l, a :: as => absAct l a ++ absHist v Z C (lstep v Z C l a).1 as

/-- the goroutine is alive exactly as long as the model's `stopped` flag is down -/
def LInv (l : LState ρ) : Prop := l.pc ≠ .exited → l.core.stopped = false

theorem LInv_init (st : Settings) (ans : List Bool) : LInv (linit st ans : LState ρ) := fun _ => rfl

section
variable (v : Variant) (Z : Zip) (C : Codec ρ) (hr : v.sound = true)
include hr

/-- one machine action = the model run on its abstraction -/
theorem lstep_refines (l : LState ρ) (a : Act ρ) (hi : LInv l) :
    (lstep v Z C l a).1.core = final v Z C l.core (absAct l a) ∧
    (lstep v Z C l a).2 = emitted v Z C l.core (absAct l a) ∧
    LInv (lstep v Z C l a).1 := by
  cases a with
  | add r =>
    refine ⟨by simp [lstep, absAct, final_cons, final_nil, stepIn], ?_, ?_⟩
    · simp only [lstep, absAct, emitted_cons, emitted_nil, stepIn, add]; split <;> rfl
    · intro hp
      have := hi hp
      simp only [lstep, add]; split <;> exact this
  | sendDirect rs =>
    refine ⟨by simp [lstep, absAct, final_cons, final_nil, stepIn],
            by simp [lstep, absAct, emitted_cons, emitted_nil, stepIn], ?_⟩
    intro hp
    have := hi hp
    simp only [lstep]
    rw [(sendDirect_spec v Z C l.core rs).2.2.1]; exact this
  | applyConfig c =>
    exact ⟨by simp [lstep, absAct, final_cons, final_nil, stepIn],
           by simp [lstep, absAct, emitted_cons, emitted_nil, stepIn], fun hp => hi hp⟩
  | cancel => exact ⟨rfl, rfl, fun hp => hi hp⟩
  | select k =>
    cases hpc : l.pc with
    | top =>
      by_cases hc : l.cancelled = true
      · simp only [lstep, absAct, hpc, hc, if_true, and_self, final_cons, final_nil, emitted_cons, emitted_nil,
          stepIn, List.append_nil]
        exact ⟨trivial, trivial, fun hp => absurd rfl hp⟩
      · have hc' : l.cancelled = false := by simpa using hc
        simp only [lstep, absAct, hpc, hc', Bool.false_eq_true, if_false, and_false, final_nil, emitted_nil]
        exact ⟨trivial, trivial, fun _ => hi (by rw [hpc]; exact PC.noConfusion)⟩
    | polling n =>
      have e1 : lstep v Z C l (.select k) = (l, []) := by simp [lstep, hpc]
      have e2 : absAct l (.select k) = [] := by simp [absAct, hpc]
      rw [e1, e2]; exact ⟨rfl, rfl, hi⟩
    | exited =>
      have e1 : lstep v Z C l (.select k) = (l, []) := by simp [lstep, hpc]
      have e2 : absAct l (.select k) = [] := by simp [absAct, hpc]
      rw [e1, e2]; exact ⟨rfl, rfl, hi⟩
  | poll =>
    cases hpc : l.pc with
    | top =>
      have e1 : lstep v Z C l .poll = (l, []) := by simp [lstep, hpc]
      have e2 : absAct l .poll = [] := by simp [absAct, hpc]
      rw [e1, e2]; exact ⟨rfl, rfl, hi⟩
    | exited =>
      have e1 : lstep v Z C l .poll = (l, []) := by simp [lstep, hpc]
      have e2 : absAct l .poll = [] := by simp [absAct, hpc]
      rw [e1, e2]; exact ⟨rfl, rfl, hi⟩
    | polling m =>
      have hs : l.core.stopped = false := hi (by rw [hpc]; exact PC.noConfusion)
      cases m with
      | zero =>
        have e1 : lstep v Z C l .poll = (l, []) := by simp [lstep, hpc]
        have e2 : absAct l .poll = [] := by simp [absAct, hpc]
        rw [e1, e2]; exact ⟨rfl, rfl, hi⟩
      | succ n =>
        cases hq : l.core.queue with
        | cons r q =>
          have e : step v Z C l.core = appendRec v Z C { l.core with queue := q } r := by
            unfold step; rw [if_neg (by simp [hs]), hq]
          simp only [lstep, absAct, hpc, hq, ne_eq, reduceCtorEq, not_false_eq_true, true_or, if_true,
            final_cons, final_nil, emitted_cons, emitted_nil, stepIn, List.append_nil, e]
          refine ⟨trivial, trivial, fun _ => ?_⟩
          rw [(appendRec_spec v Z C { l.core with queue := q } r hr).2.2.1]; exact hs
        | nil =>
          have e : step v Z C l.core = sendAndClear v Z C l.core := by
            unfold step; rw [if_neg (by simp [hs]), hq]
          by_cases hn : n = 0
          · simp only [lstep, absAct, hpc, hq, hn, ne_eq, not_true_eq_false, false_or, if_true,
              final_cons, final_nil, emitted_cons, emitted_nil, stepIn, List.append_nil, e]
            refine ⟨trivial, trivial, fun _ => ?_⟩
            rw [(sendAndClear_spec v Z C l.core hr).2.2.1]; exact hs
          · simp only [lstep, absAct, hpc, hq, hn, ne_eq, not_true_eq_false, false_or, if_false,
              final_nil, emitted_nil]
            exact ⟨trivial, trivial, fun _ => hs⟩

/-- **every schedule of the real loop is a history of the atomic-action model** -/
theorem loop_refines (as : List (Act ρ)) : ∀ l : LState ρ, LInv l →
    (lrun v Z C l as).1.core = final v Z C l.core (absHist v Z C l as) ∧
    (lrun v Z C l as).2 = emitted v Z C l.core (absHist v Z C l as) ∧
    LInv (lrun v Z C l as).1 := by
  induction as with
  | nil => intro l hi; exact ⟨rfl, rfl, hi⟩
  | cons a as ih =>
    intro l hi
    obtain ⟨a1, a2, a3⟩ := lstep_refines v Z C hr l a hi
    obtain ⟨b1, b2, b3⟩ := ih (lstep v Z C l a).1 a3
    simp only [lrun, absHist]
    rw [final_append, emitted_append, ← a1, ← a2]
    exact ⟨b1, by rw [b2], b3⟩

end

/-! ### progress of the loop -/

section
variable (v : Variant) (Z : Zip) (C : Codec ρ)

/-- `n` polls bring the loop out of GetTimeout, whatever the producers did before -/
theorem polls_reach_top (n : Nat) : ∀ l : LState ρ, l.pc = .polling n → n ≠ 0 →
    (lrun v Z C l (List.replicate n .poll)).1.pc = .top := by
  induction n with
  | zero => intro l _ h; exact absurd rfl h
  | succ n ih =>
    intro l hpc _
    simp only [List.replicate_succ, lrun]
    cases hq : l.core.queue with
    | cons r q =>
      have e : (lstep v Z C l .poll).1.pc = .top := by simp [lstep, hpc, hq]
      exact top_stays v Z C n _ e
    | nil =>
      by_cases hn : n = 0
      · subst hn
        simp [lstep, hpc, hq, lrun]
      · have e : (lstep v Z C l .poll).1.pc = .polling n := by simp [lstep, hpc, hq, hn]
        exact ih _ e hn
where
  top_stays (v : Variant) (Z : Zip) (C : Codec ρ) (n : Nat) : ∀ l : LState ρ, l.pc = .top →
      (lrun v Z C l (List.replicate n .poll)).1.pc = .top := by
    induction n with
    | zero => intro l h; exact h
    | succ n ih =>
      intro l h
      simp only [List.replicate_succ, lrun]
      have e : (lstep v Z C l .poll).1 = l := by simp [lstep, h]
      rw [e]; exact ih l h

/-- the idle timeout: the loop at its `select`, nothing queued, no producer active —
    `GetTimeout` runs out of polls and the batch is flushed -/
theorem idle_timeout_flushes (hr : v.sound = true) (l : LState ρ) (k : Nat) (hpc : l.pc = .top)
    (hc : l.cancelled = false) (hq : l.core.queue = []) :
    (lrun v Z C l (.select k :: List.replicate (k + 1) .poll)).1.core.bufLen = 0 ∧
    (lrun v Z C l (.select k :: List.replicate (k + 1) .poll)).1.pc = .top := by
  have h1 : (lstep v Z C l (.select k)).1 = { l with pc := .polling (k + 1) } := by simp [lstep, hpc, hc]
  simp only [lrun]
  rw [h1]
  generalize hl : ({ l with pc := .polling (k + 1) } : LState ρ) = l1
  have hq1 : l1.core.queue = [] := by rw [← hl]; exact hq
  have hp1 : l1.pc = .polling (k + 1) := by rw [← hl]
  clear hl h1 hpc hc hq
  induction k generalizing l1 with
  | zero =>
    simp only [List.replicate_succ, List.replicate_zero, lrun, lstep, hp1, hq1, if_true]
    exact ⟨(sendAndClear_spec v Z C l1.core hr).2.2.2.2.1, trivial⟩
  | succ k ih =>
    rw [List.replicate_succ]
    simp only [lrun]
    have e : (lstep v Z C l1 .poll).1 = { l1 with pc := .polling (k + 1) } := by simp [lstep, hp1, hq1]
    rw [e]
    exact ih _ hq1 rfl

/-- cancellation: at the next `select` the loop drains, flushes and returns -/
theorem cancel_exits (hr : v.sound = true) (hv : v.drainOnStop = true) (l : LState ρ) (k : Nat)
    (hi : LInv l) (hpc : l.pc = .top) (hc : l.cancelled = true) :
    let l' := (lstep v Z C l (.select k)).1
    l'.pc = .exited ∧ l'.core.queue = [] ∧ l'.core.bufLen = 0 ∧ l'.core.stopped = true := by
  have hs : l.core.stopped = false := hi (by rw [hpc]; exact PC.noConfusion)
  simp only [lstep, hpc, hc, if_true]
  exact ⟨trivial, stop_drains v Z C hv l.core hr hs, stop_flushes v Z C l.core hr hs, stop_stopped v Z C l.core⟩

/-- the verification hook `StepForVerif` (select without blocking, one `GetNoWait`, else flush)
    is one `select` entering a GetTimeout that allows a single poll, and that poll -/
def hookStep (l : LState ρ) : LState ρ × List (Pack ρ) :=
  if l.cancelled then (l, []) else ({ l with core := (step v Z C l.core).1 }, (step v Z C l.core).2)

theorem hookStep_is_loop_body (l : LState ρ) (hi : LInv l) (hpc : l.pc = .top) (hc : l.cancelled = false) :
    lrun v Z C l [.select 0, .poll] = hookStep v Z C l := by
  have hs : l.core.stopped = false := hi (by rw [hpc]; exact PC.noConfusion)
  unfold hookStep
  simp only [hc, Bool.false_eq_true, if_false, lrun, lstep, hpc]
  cases hq : l.core.queue with
  | cons r q =>
    have e : step v Z C l.core = appendRec v Z C { l.core with queue := q } r := by
      unfold step; rw [if_neg (by simp [hs]), hq]
    simp [e]
  | nil =>
    have e : step v Z C l.core = sendAndClear v Z C l.core := by
      unfold step; rw [if_neg (by simp [hs]), hq]
    simp [e]

end

end ZipSender
