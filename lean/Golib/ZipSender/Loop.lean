/-
  Golib.ZipSender.Loop — the real background loop `run()` as an action machine, and the queue of
  the sender as an instance of the C11 queue model.

  ```
  for true {
    select {
    case <-this.ctx.Done():  (drain;) this.sendAndClear(); return
    default:
      if tmp := this.Queue.GetTimeout(int(this.logsinkMaxWaitTime)); tmp != nil { this.Append(data) }
      else { this.sendAndClear() }
    }
  }
  ```
  `GetTimeout` polls: `for v = GetNoWait(); v == nil; v = GetNoWait() { sleep(t/3); t = timeto-now; if t <= 0 {break} }`.

  The goroutine's program counter is `top` (at the `select`), `polling timeto` (inside GetTimeout with
  deadline `timeto` = the clock read when the call started + the waiting time in force then) or `exited`.
  Clock readings are supplied by the environment with each `select` and `poll` (any integers: the
  theorems quantify over arbitrary clock histories, including a clock that jumps or goes backwards).
  The actions of the environment (producers, configuration, cancellation) interleave freely with the
  loop's own actions `select` and `poll`; a cancellation is noticed only at the `select`.

  `loop_refines`: every execution of the machine is an execution of the atomic-action model of
  Model.lean (`absHist`: a poll that finds a record or times out is a `step`, the `select` that sees
  the cancellation is a `stop`, everything else of the loop stutters), so every theorem about
  histories holds for every schedule of the real loop.
-/
import Golib.Queue.Seq
import Golib.ZipSender.Theorems

namespace ZipSender

variable {ρ : Type}

/-! ### the sender's queue is the C11 queue -/

/-- the sender's queue seen as a `Queue.Q` of record handles (`key r ≠ 0`: a non-nil pointer) -/
def qAbs (key : ρ → Nat) (s : State ρ) : Queue.Q := ⟨s.queue.map key, s.settings.queueCap⟩

theorem canPut_eq_room (key : ρ → Nat) (s : State ρ) : canPut s = (qAbs key s).room := by
  simp only [canPut, qAbs, Queue.Q.room, Queue.Q.size, List.length_map]; rfl

/-- `Add` is `RequestQueue.Put`: same new content, same answer, `accepted`/`failed` event -/
theorem add_refines_put (key : ρ → Nat) (s : State ρ) (r : ρ) :
    Queue.step (qAbs key s) (.put (key r)) =
      (qAbs key (add s r).1, .bool (canPut s),
       [if canPut s then Queue.Ev.accepted (key r) else Queue.Ev.failed (key r)]) := by
  unfold Queue.step add
  rw [← canPut_eq_room]
  cases h : canPut s <;> simp [qAbs]

/-- acceptance as the C11 model decides it: the answer of `Put` -/
def putAccepts (key : ρ → Nat) (s : State ρ) (r : ρ) : Bool :=
  (Queue.step (qAbs key s) (.put (key r))).2.1 == .bool true

theorem putAccepts_eq (key : ρ → Nat) (s : State ρ) (r : ρ) : putAccepts key s r = canPut s := by
  unfold putAccepts; rw [add_refines_put]; cases canPut s <;> rfl

/-- what the loop's `GetTimeout` delivers is the C11 queue's answer: the oldest record, or nil -/
theorem dequeue_refines_getTimeout (key : ρ → Nat) (s : State ρ) (k : Nat) (hk : ∀ r ∈ s.queue, key r ≠ 0) :
    Queue.step (qAbs key s) (.getTimeout k) =
      match s.queue with
      | [] => (qAbs key s, .val 0, [])
      | r :: q => (qAbs key { s with queue := q }, .val (key r), [.delivered (key r)]) := by
  cases hq : s.queue with
  | nil => simp [Queue.step, qAbs, hq, Queue.getTimeoutLoop]
  | cons r q =>
    have : key r ≠ 0 := hk r (by simp [hq])
    simp [Queue.step, qAbs, hq, Queue.getTimeoutLoop, this]

/-- `ApplyConfig` → `SetCapacity` -/
theorem applyConfig_refines_setCapacity (key : ρ → Nat) (s : State ρ) (c : Conf) :
    (Queue.step (qAbs key s) (.setCapacity c.resolve.queueCap)).1 = qAbs key { s with settings := c.resolve } := by
  simp [Queue.step, qAbs]

/-- records accepted by the queue along a history, acceptance decided by the C11 model -/
def acceptedQ (key : ρ → Nat) (v : Variant) (Z : Zip) (C : Codec ρ) : State ρ → List (In ρ) → List ρ
  | _, [] => []
  | s, i :: is =>
    (match i with | .add r => if putAccepts key s r then [r] else [] | _ => []) ++
      acceptedQ key v Z C (stepIn v Z C s i).1 is

theorem acceptedQ_eq (key : ρ → Nat) (v : Variant) (Z : Zip) (C : Codec ρ) (h : List (In ρ)) :
    ∀ s : State ρ, acceptedQ key v Z C s h = accepted v Z C s h := by
  induction h with
  | nil => intro s; rfl
  | cons i is ih =>
    intro s
    cases i <;> simp [acceptedQ, accepted, ih, putAccepts_eq]

/-! ### the loop machine -/

inductive PC
  | top                      -- at the `select`
  | polling (timeto : Int)   -- inside GetTimeout: `timeto := SystemNow() + timeout`
  | exited                   -- `run` has returned
deriving DecidableEq, Repr

structure LState (ρ : Type) where
  core      : State ρ
  pc        : PC
  cancelled : Bool          -- ctx.Done() is closed

inductive Act (ρ : Type)
  | add (r : ρ)
  | sendDirect (rs : List ρ)
  | applyConfig (c : Conf)
  | cancel
  | select (now : Int)   -- the loop evaluates its `select`; if not cancelled it enters
                         -- `GetTimeout(maxWait)`, which reads the clock: `now`
  | poll (now : Int)     -- one round of the polling loop: `GetNoWait`, and when that comes back
                         -- empty-handed the sleep and the clock reading `now` for `t = timeto - now; if t <= 0 {break}`

def linit (st : Settings) (ans : List Bool := []) : LState ρ := ⟨init st ans, .top, false⟩

def lstep (v : Variant) (Z : Zip) (C : Codec ρ) (l : LState ρ) : Act ρ → LState ρ × List (Pack ρ)
  | .add r => ({ l with core := (add l.core r).1 }, [])
  | .sendDirect rs => ({ l with core := (sendDirect v Z C l.core rs).1 }, (sendDirect v Z C l.core rs).2)
  | .applyConfig c => ({ l with core := { l.core with settings := c.resolve } }, [])
  | .cancel => ({ l with cancelled := true }, [])
  | .select now =>
    match l.pc with
    | .top =>
      if l.cancelled then ({ l with core := (stop v Z C l.core).1, pc := .exited }, (stop v Z C l.core).2)
      else ({ l with pc := .polling (now + l.core.settings.maxWait) }, [])
    | _ => (l, [])
  | .poll now =>
    match l.pc with
    | .polling timeto =>
      match l.core.queue with
      | r :: q =>
        ({ l with core := (appendRec v Z C { l.core with queue := q } r).1, pc := .top },
         (appendRec v Z C { l.core with queue := q } r).2)
      | [] =>
        if timeto - now ≤ 0 then
          ({ l with core := (sendAndClear v Z C l.core).1, pc := .top }, (sendAndClear v Z C l.core).2)
        else (l, [])
    | _ => (l, [])

def lrun (v : Variant) (Z : Zip) (C : Codec ρ) : LState ρ → List (Act ρ) → LState ρ × List (Pack ρ)
  | l, [] => (l, [])
  | l, a :: as =>
    ((lrun v Z C (lstep v Z C l a).1 as).1, (lstep v Z C l a).2 ++ (lrun v Z C (lstep v Z C l a).1 as).2)

/-- the atomic actions of Model.lean that one machine action amounts to -/
def absAct (l : LState ρ) : Act ρ → List (In ρ)
  | .add r => [.add r]
  | .sendDirect rs => [.sendDirect rs]
  | .applyConfig c => [.applyConfig c]
  | .cancel => []
  | .select _ => if l.pc = .top ∧ l.cancelled = true then [.stop] else []
  | .poll now =>
    match l.pc with
    | .polling timeto => if l.core.queue ≠ [] ∨ timeto - now ≤ 0 then [.step] else []
    | _ => []

def absHist (v : Variant) (Z : Zip) (C : Codec ρ) : LState ρ → List (Act ρ) → List (In ρ)
  | _, [] => []
  | l, a :: as => absAct l a ++ absHist v Z C (lstep v Z C l a).1 as

/-- the goroutine is alive exactly as long as the model's `stopped` flag is down -/
def LInv (l : LState ρ) : Prop := l.pc ≠ .exited → l.core.stopped = false

theorem LInv_init (st : Settings) (ans : List Bool) : LInv (linit st ans : LState ρ) := fun _ => rfl

section
variable (v : Variant) (Z : Zip) (C : Codec ρ) (hr : v.sound = true)
include hr

/-- one machine action = the model run on its abstraction -/
theorem lstep_refines (l : LState ρ) (a : Act ρ) (hi : LInv l) :
    (lstep v Z C l a).1.core = final v Z C l.core (absAct l a) ∧
    (lstep v Z C l a).2 = emitted v Z C l.core (absAct l a) ∧
    LInv (lstep v Z C l a).1 := by
  cases a with
  | add r =>
    refine ⟨by simp [lstep, absAct, final_cons, final_nil, stepIn], ?_, ?_⟩
    · simp only [lstep, absAct, emitted_cons, emitted_nil, stepIn, add]; split <;> rfl
    · intro hp
      have := hi hp
      simp only [lstep, add]; split <;> exact this
  | sendDirect rs =>
    refine ⟨by simp [lstep, absAct, final_cons, final_nil, stepIn],
            by simp [lstep, absAct, emitted_cons, emitted_nil, stepIn], ?_⟩
    intro hp
    have := hi hp
    simp only [lstep]
    rw [(sendDirect_spec v Z C l.core rs).2.2.1]; exact this
  | applyConfig c =>
    exact ⟨by simp [lstep, absAct, final_cons, final_nil, stepIn],
           by simp [lstep, absAct, emitted_cons, emitted_nil, stepIn], fun hp => hi hp⟩
  | cancel => exact ⟨rfl, rfl, fun hp => hi hp⟩
  | select k =>
    cases hpc : l.pc with
    | top =>
      by_cases hc : l.cancelled = true
      · simp only [lstep, absAct, hpc, hc, if_true, and_self, final_cons, final_nil, emitted_cons, emitted_nil,
          stepIn, List.append_nil]
        exact ⟨trivial, trivial, fun hp => absurd rfl hp⟩
      · have hc' : l.cancelled = false := by simpa using hc
        simp only [lstep, absAct, hpc, hc', Bool.false_eq_true, if_false, and_false, final_nil, emitted_nil]
        exact ⟨trivial, trivial, fun _ => hi (by rw [hpc]; exact PC.noConfusion)⟩
    | polling n =>
      have e1 : lstep v Z C l (.select k) = (l, []) := by simp [lstep, hpc]
      have e2 : absAct l (.select k) = [] := by simp [absAct, hpc]
      rw [e1, e2]; exact ⟨rfl, rfl, hi⟩
    | exited =>
      have e1 : lstep v Z C l (.select k) = (l, []) := by simp [lstep, hpc]
      have e2 : absAct l (.select k) = [] := by simp [absAct, hpc]
      rw [e1, e2]; exact ⟨rfl, rfl, hi⟩
  | poll now =>
    cases hpc : l.pc with
    | top =>
      have e1 : lstep v Z C l (.poll now) = (l, []) := by simp [lstep, hpc]
      have e2 : absAct l (.poll now) = [] := by simp [absAct, hpc]
      rw [e1, e2]; exact ⟨rfl, rfl, hi⟩
    | exited =>
      have e1 : lstep v Z C l (.poll now) = (l, []) := by simp [lstep, hpc]
      have e2 : absAct l (.poll now) = [] := by simp [absAct, hpc]
      rw [e1, e2]; exact ⟨rfl, rfl, hi⟩
    | polling tt =>
      have hs : l.core.stopped = false := hi (by rw [hpc]; exact PC.noConfusion)
      cases hq : l.core.queue with
      | cons r q =>
        have e : step v Z C l.core = appendRec v Z C { l.core with queue := q } r := by
          unfold step; rw [if_neg (by simp [hs]), hq]
        simp only [lstep, absAct, hpc, hq, ne_eq, reduceCtorEq, not_false_eq_true, true_or, if_true,
          final_cons, final_nil, emitted_cons, emitted_nil, stepIn, List.append_nil, e]
        refine ⟨trivial, trivial, fun _ => ?_⟩
        rw [(appendRec_spec v Z C { l.core with queue := q } r hr).2.2.1]; exact hs
      | nil =>
        have e : step v Z C l.core = sendAndClear v Z C l.core := by
          unfold step; rw [if_neg (by simp [hs]), hq]
        by_cases hn : tt - now ≤ 0
        · simp only [lstep, absAct, hpc, hq, hn, ne_eq, not_true_eq_false, false_or, if_true,
            final_cons, final_nil, emitted_cons, emitted_nil, stepIn, List.append_nil, e]
          refine ⟨trivial, trivial, fun _ => ?_⟩
          rw [(sendAndClear_spec v Z C l.core hr).2.2.1]; exact hs
        · have e1 : lstep v Z C l (.poll now) = (l, []) := by simp [lstep, hpc, hq, hn]
          have e2 : absAct l (.poll now) = [] := by simp [absAct, hpc, hq, hn]
          rw [e1, e2]; exact ⟨rfl, rfl, hi⟩

/-- **every schedule of the real loop, under every history of clock readings, is a history of the
    atomic-action model** -/
theorem loop_refines (as : List (Act ρ)) : ∀ l : LState ρ, LInv l →
    (lrun v Z C l as).1.core = final v Z C l.core (absHist v Z C l as) ∧
    (lrun v Z C l as).2 = emitted v Z C l.core (absHist v Z C l as) ∧
    LInv (lrun v Z C l as).1 := by
  induction as with
  | nil => intro l hi; exact ⟨rfl, rfl, hi⟩
  | cons a as ih =>
    intro l hi
    obtain ⟨a1, a2, a3⟩ := lstep_refines v Z C hr l a hi
    obtain ⟨b1, b2, b3⟩ := ih (lstep v Z C l a).1 a3
    simp only [lrun, absHist]
    rw [final_append, emitted_append, ← a1, ← a2]
    exact ⟨b1, by rw [b2], b3⟩

end

/-! ### timing of the loop, over arbitrary clock readings -/

section
variable (v : Variant) (Z : Zip) (C : Codec ρ)

/-- entering GetTimeout fixes the deadline: clock now + the waiting time in force at that moment -/
theorem select_sets_deadline (l : LState ρ) (t0 : Int) (hpc : l.pc = .top) (hc : l.cancelled = false) :
    lstep v Z C l (.select t0) = ({ l with pc := .polling (t0 + l.core.settings.maxWait) }, []) := by
  simp [lstep, hpc, hc]

/-- **waiting time, both directions**: inside GetTimeout with nothing queued, the round that reads
    the clock `now` flushes the batch (idle timeout) exactly when the deadline has been reached;
    before that it changes nothing at all -/
theorem idle_flush_iff_due (l : LState ρ) (timeto now : Int) (hpc : l.pc = .polling timeto) (hq : l.core.queue = []) :
    (timeto ≤ now → lstep v Z C l (.poll now) =
        ({ l with core := (sendAndClear v Z C l.core).1, pc := .top }, (sendAndClear v Z C l.core).2)) ∧
    (now < timeto → lstep v Z C l (.poll now) = (l, [])) := by
  constructor
  · intro h
    have : timeto - now ≤ 0 := by omega
    simp [lstep, hpc, hq, this]
  · intro h
    have : ¬ (timeto - now ≤ 0) := by omega
    simp [lstep, hpc, hq, this]

/-- any number of rounds whose clock readings are all before the deadline — in any order, the clock
    may stand still or jump back — leave the sender untouched: no early idle flush -/
theorem no_flush_before_deadline (nows : List Int) : ∀ (l : LState ρ) (timeto : Int), l.pc = .polling timeto →
    l.core.queue = [] → (∀ n ∈ nows, n < timeto) → lrun v Z C l (nows.map .poll) = (l, []) := by
  induction nows with
  | nil => intro l _ _ _ _; rfl
  | cons n ns ih =>
    intro l timeto hpc hq hb
    have e := (idle_flush_iff_due v Z C l timeto n hpc hq).2 (hb n (by simp))
    simp only [List.map_cons, lrun]
    rw [e]
    simp only [List.nil_append]
    exact ih l timeto hpc hq (fun m hm => hb m (by simp [hm]))

/-- the idle timeout end to end: `select` at clock `t0`, rounds at arbitrary earlier readings, then
    a round at a reading `t1 ≥ t0 + maxWait`: the batch is flushed at that round and not before, and
    `t1 - t0 ≥ maxWait` for the waiting time in force when GetTimeout was entered -/
theorem idle_timeout_flushes (hr : v.sound = true) (l : LState ρ) (t0 t1 : Int) (nows : List Int) (hpc : l.pc = .top)
    (hc : l.cancelled = false) (hq : l.core.queue = [])
    (hb : ∀ n ∈ nows, n < t0 + l.core.settings.maxWait) (hd : t0 + l.core.settings.maxWait ≤ t1) :
    let r := lrun v Z C l (.select t0 :: (nows.map .poll ++ [.poll t1]))
    r.1.core.bufLen = 0 ∧ r.1.pc = .top ∧ r.2 = (sendAndClear v Z C l.core).2 ∧
    t1 - t0 ≥ l.core.settings.maxWait := by
  have h1 := select_sets_deadline v Z C l t0 hpc hc
  generalize hl1 : ({ l with pc := .polling (t0 + l.core.settings.maxWait) } : LState ρ) = l1 at h1
  have hq1 : l1.core.queue = [] := by rw [← hl1]; exact hq
  have hp1 : l1.pc = .polling (t0 + l.core.settings.maxWait) := by rw [← hl1]
  have hcore : l1.core = l.core := by rw [← hl1]
  have lrun_append : ∀ (as bs : List (Act ρ)) (m : LState ρ),
      lrun v Z C m (as ++ bs) = ((lrun v Z C (lrun v Z C m as).1 bs).1, (lrun v Z C m as).2 ++ (lrun v Z C (lrun v Z C m as).1 bs).2) := by
    intro as
    induction as with
    | nil => intro bs m; simp [lrun]
    | cons a as ih => intro bs m; simp only [List.cons_append, lrun, ih, List.append_assoc]
  have h2 := no_flush_before_deadline v Z C nows l1 _ hp1 hq1 hb
  have h3 := (idle_flush_iff_due v Z C l1 _ t1 hp1 hq1).1 hd
  simp only [lrun, h1, lrun_append, h2, h3, List.nil_append, List.append_nil, hcore]
  exact ⟨(sendAndClear_spec v Z C l.core hr).2.2.2.2.1, trivial, trivial, by omega⟩

/-- GetTimeout returns: whatever happened before, a round whose clock reading has reached the
    deadline brings the loop back to its `select` -/
theorem due_poll_returns (l : LState ρ) (timeto now : Int) (hpc : l.pc = .polling timeto) (hd : timeto ≤ now) :
    (lstep v Z C l (.poll now)).1.pc = .top := by
  have : timeto - now ≤ 0 := by omega
  cases hq : l.core.queue <;> simp [lstep, hpc, hq, this]

/-- cancellation: at the next `select` the loop drains, flushes and returns -/
theorem cancel_exits (hr : v.sound = true) (hv : v.drainOnStop = true) (l : LState ρ) (k : Int)
    (hi : LInv l) (hpc : l.pc = .top) (hc : l.cancelled = true) :
    let l' := (lstep v Z C l (.select k)).1
    l'.pc = .exited ∧ l'.core.queue = [] ∧ l'.core.bufLen = 0 ∧ l'.core.stopped = true := by
  have hs : l.core.stopped = false := hi (by rw [hpc]; exact PC.noConfusion)
  simp only [lstep, hpc, hc, if_true]
  exact ⟨trivial, stop_drains v Z C hv l.core hr hs, stop_flushes v Z C l.core hr hs, stop_stopped v Z C l.core⟩

/-- the verification hook `StepForVerif` (select without blocking, one `GetNoWait`, else flush)
    is one `select` and one round whose clock reading is already at the deadline -/
def hookStep (l : LState ρ) : LState ρ × List (Pack ρ) :=
  if l.cancelled then (l, []) else ({ l with core := (step v Z C l.core).1 }, (step v Z C l.core).2)

theorem hookStep_is_loop_body (l : LState ρ) (t : Int) (hi : LInv l) (hpc : l.pc = .top) (hc : l.cancelled = false) :
    lrun v Z C l [.select t, .poll (t + l.core.settings.maxWait)] = hookStep v Z C l := by
  have hs : l.core.stopped = false := hi (by rw [hpc]; exact PC.noConfusion)
  unfold hookStep
  simp only [hc, Bool.false_eq_true, if_false, lrun, lstep, hpc]
  cases hq : l.core.queue with
  | cons r q =>
    have e : step v Z C l.core = appendRec v Z C { l.core with queue := q } r := by
      unfold step; rw [if_neg (by simp [hs]), hq]
    simp [e]
  | nil =>
    have e : step v Z C l.core = sendAndClear v Z C l.core := by
      unfold step; rw [if_neg (by simp [hs]), hq]
    simp [e]

end

end ZipSender
