/-
  Golib.ZipSender.LogSink — the record codec of the zip sender instantiated with the real
  LogSinkPack wire layout of property C03.

  `pack.WritePack(dout, p)` = 16-bit type code 0x170a ++ body, body = the hand-transcribed writer
  layout `Packs.Hand.LogSinkPack.w` (header, version byte 0, Category, TagHash, Tags, Line, Content,
  optional Fields); `pack.ReadPack` = type code, factory, the reader layout that `xlate/c03`
  regenerates from LogSinkPack.Read on every run (`Gen.Packs.LogSinkPack.r`).  That the two agree is
  decided here again (`logSink_agrees`); the generic layout round trip `Packs.readPack_writePack`
  (C03) with C02's `Value.decode_encV` plugged in (`Layout.valueRT`) then gives a `Decoder` without
  any assumption about the record codec: only gzip stays abstract.
-/
import Golib.ZipSender.Theorems
import Golib.Packs.Container
import Golib.Packs.Hand
import Golib.Layout.ValueInst
import Golib.Gen.PackLayouts

namespace ZipSender.LogSink

open Layout Packs ZipSender

/-- PACK_LOGSINK = 0x170a -/
def code : Int := 5898

def pv (x : Rec) : PV := ⟨code, Packs.Hand.LogSinkPack.w, Gen.Packs.LogSinkPack.r, x⟩

/-- a record is a LogSinkPack (its fields as a `Layout.Rec`); its time is the header's `Time` -/
def codec : Codec Rec := ⟨fun x => writePack (pv x), fun x => (hdrOf "" x).time, fun _ => false⟩

/-- `CreatePack`: any factory that constructs a LogSinkPack for its type code -/
def Fac (fac : Factory) : Prop := fac code = some Gen.Packs.LogSinkPack.r

theorem logSink_agrees : agrees Packs.Hand.LogSinkPack.w Gen.Packs.LogSinkPack.r = true := by decide

/-- the writer's explicit guards: Go field ranges, blobs < 2^31, well-formed tag/field values -/
def WFRec (x : Rec) : Prop := Packs.Hand.LogSinkPack.w.WF valueRT env0 "" x

theorem pv_ok (fac : Factory) (hf : Fac fac) (x : Rec) (h : WFRec x) : (pv x).ok valueRT fac :=
  ⟨(by decide : Prim.inRange 2 code), hf, logSink_agrees, h⟩

/-- the decoder of the real format: what `ReadPack` delivers for a written LogSinkPack is its type
    code and its carried fields, and the rest of the input is untouched -/
def decoder (fac : Factory) (hf : Fac fac) : Decoder codec where
  O := Int × Out
  dec := readPack fac
  obs := fun x => (pv x).carried
  wf := WFRec
  rt := fun x rest h => readPack_writePack valueRT fac (pv x) rest (pv_ok fac hf x h)

/-- an encoded pack is never empty: it starts with the 2-byte type code -/
theorem enc_ne_nil (x : Rec) : codec.enc x ≠ [] := by
  intro h
  have : (codec.enc x).length = 0 := by rw [h]; rfl
  simp [codec, writePack, Prim.encI_length] at this

/-- a factory as the Go code has it: the type code selects the LogSinkPack reader -/
def fac0 : Factory := fun c => if c = code then some Gen.Packs.LogSinkPack.r else none

theorem fac0_ok : Fac fac0 := by simp [Fac, fac0]

/-- the batch bytes are C03's container encoding of the records (`ZipPack.SetRecords`: the packs one
    after the other, each with its type code) -/
theorem encMany_is_writePacks (xs : List Rec) : Prim.encMany codec.enc xs = writePacks (xs.map pv) := by
  induction xs with
  | nil => rfl
  | cons x xs ih => simp only [Prim.encMany, List.map_cons, writePacks, ih]; rfl

/-- what travels for the tag section is the record's `TagHash` field as it is and its `Tags` as they
    are — the format (and the code: "stale hash, new tags") relates the two in no way -/
theorem carried_hash_and_tags (x : Rec) :
    ("TagHash", x "TagHash") ∈ (pv x).carried.2 ∧ ("Tags", x "Tags") ∈ (pv x).carried.2 := by
  simp [pv, PV.carried, Packs.Hand.LogSinkPack.w, Gen.Packs.LogSinkPack.w, Packs.Hand.tagSection, L.expect]

end ZipSender.LogSink
