/-
  Golib.ZipSender.Lemmas — invariants of the ZipSender CodeModel.

  * `Interleave`        – order-preserving merge of two producers' records
  * `Built`             – every emitted pack is `mkPack` of its records under the settings in force
  * `WF`                – cached counters (`count`, `bufLen`) agree with the buffered records
  * `stepIn_inv`/`history_inv` – queue FIFO + nothing lost, duplicated or reordered
  * `sendDirect_recs`   – SendDirect emits exactly its argument
-/
import Golib.ZipSender.Model

namespace ZipSender

open Prim (encMany)

variable {ρ : Type}

/-! ### small list facts -/

theorem encMany_append (enc : ρ → Bytes) (a b : List ρ) : encMany enc (a ++ b) = encMany enc a ++ encMany enc b := by
  induction a with
  | nil => simp [encMany]
  | cons x xs ih => simp [encMany, ih]

theorem encMany_singleton (enc : ρ → Bytes) (r : ρ) : encMany enc [r] = enc r := by simp [encMany]

theorem bytesOf_cons (C : Codec ρ) (r : ρ) (b : List ρ) : bytesOf C (r :: b) = bytesOf C b ++ C.enc r := by
  simp [bytesOf, encMany_append, encMany_singleton]

theorem bytesOf_nil (C : Codec ρ) : bytesOf C ([] : List ρ) = [] := by simp [bytesOf, encMany]

theorem encMany_eq_nil (enc : ρ → Bytes) (hne : ∀ r, enc r ≠ []) (xs : List ρ) (h : encMany enc xs = []) : xs = [] := by
  cases xs with
  | nil => rfl
  | cons x xs =>
    simp only [encMany, List.append_eq_nil_iff] at h
    exact absurd h.1 (hne x)

/-! ### interleavings -/

inductive Interleave : List ρ → List ρ → List ρ → Prop
  | nil : Interleave [] [] []
  | left (x : ρ) {xs ys zs : List ρ} : Interleave xs ys zs → Interleave (x :: xs) ys (x :: zs)
  | right (y : ρ) {xs ys zs : List ρ} : Interleave xs ys zs → Interleave xs (y :: ys) (y :: zs)

theorem Interleave.left_only (xs : List ρ) : Interleave xs [] xs := by
  induction xs with
  | nil => exact .nil
  | cons x xs ih => exact .left x ih

theorem Interleave.right_only (ys : List ρ) : Interleave [] ys ys := by
  induction ys with
  | nil => exact .nil
  | cons y ys ih => exact .right y ih

theorem Interleave.append {a b c a' b' c' : List ρ} (h : Interleave a b c) (h' : Interleave a' b' c') :
    Interleave (a ++ a') (b ++ b') (c ++ c') := by
  induction h with
  | nil => simpa using h'
  | left x _ ih => exact .left x ih
  | right y _ ih => exact .right y ih

theorem Interleave.nil_right {xs zs : List ρ} (h : Interleave xs [] zs) : zs = xs := by
  generalize hy : ([] : List ρ) = ys at h
  induction h with
  | nil => rfl
  | left x _ ih => rw [ih hy]
  | right y _ _ => cases hy

theorem Interleave.nil_left {ys zs : List ρ} (h : Interleave [] ys zs) : zs = ys := by
  generalize hx : ([] : List ρ) = xs at h
  induction h with
  | nil => rfl
  | left x _ _ => cases hx
  | right y _ ih => rw [ih hx]

theorem Interleave.length {xs ys zs : List ρ} (h : Interleave xs ys zs) : zs.length = xs.length + ys.length := by
  induction h with
  | nil => rfl
  | left x _ ih => simp [ih]; omega
  | right y _ ih => simp [ih]; omega

/-! ### projections of pack lists -/

@[simp] theorem sharedRecs_nil : sharedRecs ([] : List (Pack ρ)) = [] := rfl
@[simp] theorem directRecs_nil : directRecs ([] : List (Pack ρ)) = [] := rfl

theorem sharedRecs_append (a b : List (Pack ρ)) : sharedRecs (a ++ b) = sharedRecs a ++ sharedRecs b := by
  simp [sharedRecs, List.filter_append, List.flatMap_append]

theorem directRecs_append (a b : List (Pack ρ)) : directRecs (a ++ b) = directRecs a ++ directRecs b := by
  simp [directRecs, List.filter_append, List.flatMap_append]

theorem sharedRecs_cons (p : Pack ρ) (ps : List (Pack ρ)) :
    sharedRecs (p :: ps) = (if p.src = .shared then p.recs else []) ++ sharedRecs ps := by
  by_cases h : p.src = .shared <;> simp [sharedRecs, List.filter_cons, h]

theorem directRecs_cons (p : Pack ρ) (ps : List (Pack ρ)) :
    directRecs (p :: ps) = (if p.src = .direct then p.recs else []) ++ directRecs ps := by
  by_cases h : p.src = .direct <;> simp [directRecs, List.filter_cons, h]

/-! ### mkPack -/

section mk
variable (v : Variant) (Z : Zip) (st : Settings) (src : Src) (alias : Ref) (recs : List ρ) (count : Nat) (bytes : Bytes)

@[simp] theorem mkPack_src : (mkPack v Z st src alias recs count bytes).src = src := by
  unfold mkPack; split <;> rfl
@[simp] theorem mkPack_recs : (mkPack v Z st src alias recs count bytes).recs = recs := by
  unfold mkPack; split <;> rfl
@[simp] theorem mkPack_count : (mkPack v Z st src alias recs count bytes).count = count := by
  unfold mkPack; split <;> rfl

theorem mkPack_zipped : (mkPack v Z st src alias recs count bytes).zipped = true ↔ st.zipMin ≤ (bytes.length : Int) := by
  unfold mkPack; split
  · simp; omega
  · simp; omega

theorem mkPack_payload : (mkPack v Z st src alias recs count bytes).payload =
    if (mkPack v Z st src alias recs count bytes).zipped then Z.zip bytes else bytes := by
  unfold mkPack; split <;> simp

theorem mkPack_ref_owned (hv : v.copyOnHandOver = true) : (mkPack v Z st src alias recs count bytes).ref = .owned := by
  unfold mkPack; split <;> simp [hv]

theorem mkPack_zipped_owned (hz : (mkPack v Z st src alias recs count bytes).zipped = true) :
    (mkPack v Z st src alias recs count bytes).ref = .owned := by
  unfold mkPack at hz ⊢; split
  · rename_i h; simp [h] at hz
  · rfl
end mk

/-- `p` was produced by `doZip` from its records under settings `st` -/
def Built (v : Variant) (Z : Zip) (C : Codec ρ) (st : Settings) (p : Pack ρ) : Prop :=
  ∃ src alias recs count, p = mkPack v Z st src alias recs count (encMany C.enc recs)

theorem Built.zipped_iff {v : Variant} {Z : Zip} {C : Codec ρ} {st : Settings} {p : Pack ρ} (h : Built v Z C st p) :
    p.zipped = true ↔ st.zipMin ≤ ((encMany C.enc p.recs).length : Int) := by
  obtain ⟨src, alias, recs, count, rfl⟩ := h
  rw [mkPack_recs]; exact mkPack_zipped ..

theorem Built.payload {v : Variant} {Z : Zip} {C : Codec ρ} {st : Settings} {p : Pack ρ} (h : Built v Z C st p) :
    p.payload = if p.zipped then Z.zip (encMany C.enc p.recs) else encMany C.enc p.recs := by
  obtain ⟨src, alias, recs, count, rfl⟩ := h
  rw [mkPack_recs]; exact mkPack_payload ..

theorem Built.owned {v : Variant} {Z : Zip} {C : Codec ρ} {st : Settings} {p : Pack ρ} (h : Built v Z C st p)
    (hv : v.copyOnHandOver = true) : p.ref = .owned := by
  obtain ⟨src, alias, recs, count, rfl⟩ := h
  exact mkPack_ref_owned _ _ _ _ _ _ _ _ hv

theorem Built.zipped_owned {v : Variant} {Z : Zip} {C : Codec ρ} {st : Settings} {p : Pack ρ} (h : Built v Z C st p)
    (hz : p.zipped = true) : p.ref = .owned := by
  obtain ⟨src, alias, recs, count, rfl⟩ := h
  exact mkPack_zipped_owned _ _ _ _ _ _ _ _ hz

/-! ### the counters invariant -/

def WF (C : Codec ρ) (s : State ρ) : Prop := s.count = s.buf.length ∧ s.bufLen = (bytesOf C s.buf).length

theorem WF_init (C : Codec ρ) (st : Settings) (ans : List Bool := []) : WF C (init st ans : State ρ) := by
  simp [WF, init, bytesOf_nil]

/-! ### sendAndClear -/

/-- the state a flush leaves behind (when the batch is reset) -/
def flushed (C : Codec ρ) (s : State ρ) : State ρ :=
  { s with answers := s.answers.tail, buf := [], bufLen := 0, count := 0, firstTime := 0,
           store := encMany C.enc s.buf.reverse ++ s.store.drop (encMany C.enc s.buf.reverse).length }

/-- the pack a flush hands over -/
def flushPack (v : Variant) (Z : Zip) (C : Codec ρ) (s : State ρ) : Pack ρ :=
  mkPack v Z s.settings .shared .sharedBuf s.buf.reverse s.count (encMany C.enc s.buf.reverse)

theorem sendAndClear_eq (v : Variant) (Z : Zip) (C : Codec ρ) (s : State ρ) (hr : v.sound = true)
    (h : s.bufLen ≠ 0) : sendAndClear v Z C s = (flushed C s, [flushPack v Z C s]) := by
  have hr' : v.resetOnError = true := by
    have := hr; simp only [Variant.sound, Bool.and_eq_true] at this; exact this.1
  unfold sendAndClear flushed flushPack
  rw [if_neg h]
  simp [hr']

section sac
variable (v : Variant) (Z : Zip) (C : Codec ρ) (s : State ρ)

/-- everything one needs to know about a flush -/
theorem sendAndClear_spec (hr : v.sound = true) :
    let r := sendAndClear v Z C s
    r.1.settings = s.settings ∧ r.1.queue = s.queue ∧ r.1.stopped = s.stopped ∧ r.1.dstores = s.dstores ∧
    r.1.bufLen = 0 ∧
    sharedRecs r.2 ++ r.1.buf.reverse = s.buf.reverse ∧ directRecs r.2 = [] ∧
    (∀ p ∈ r.2, Built v Z C s.settings p) ∧
    (WF C s → WF C r.1 ∧ ∀ p ∈ r.2, p.count = p.recs.length) := by
  by_cases h : s.bufLen = 0
  · have e : sendAndClear v Z C s = (s, []) := by unfold sendAndClear; rw [if_pos h]
    rw [e]; simp [h]
  · have e := sendAndClear_eq v Z C s hr h
    rw [e]
    refine ⟨rfl, rfl, rfl, rfl, rfl, ?_, ?_, ?_, ?_⟩
    · simp [sharedRecs_cons, flushPack, flushed]
    · simp [directRecs_cons, flushPack]
    · intro p hp
      simp only [List.mem_singleton] at hp
      exact ⟨_, _, _, _, hp⟩
    · intro hw
      refine ⟨by simp [WF, bytesOf_nil, flushed], ?_⟩
      intro p hp
      simp only [List.mem_singleton] at hp
      subst hp
      simp [hw.1, flushPack]

/-- a flush happens exactly when bytes are buffered -/
theorem sendAndClear_emits : (sendAndClear v Z C s).2 = [] ↔ s.bufLen = 0 := by
  unfold sendAndClear
  by_cases h : s.bufLen = 0
  · simp [h]
  · simp only [h, if_false]; split <;> simp

theorem sendAndClear_noop (h : s.bufLen = 0) : sendAndClear v Z C s = (s, []) := by
  unfold sendAndClear; simp [h]
end sac

/-! ### Append -/

section app
variable (v : Variant) (Z : Zip) (C : Codec ρ) (s : State ρ) (r : ρ)

/-- the flush decision of `Append`, as written in the code -/
def mustFlush (C : Codec ρ) (s : State ρ) (r : ρ) : Prop :=
  s.settings.maxBuf ≤ ((s.bufLen + (C.enc r).length : Nat) : Int) ∨
  (s.firstTime ≠ 0 ∧ s.settings.maxWait ≤ C.time r - s.firstTime)

instance : Decidable (mustFlush C s r) := by unfold mustFlush; infer_instance

/-- the state `Append` reaches before it decides about flushing -/
def appended (C : Codec ρ) (s : State ρ) (r : ρ) : State ρ :=
  { s with buf := r :: s.buf, bufLen := s.bufLen + (C.enc r).length, count := s.count + 1,
           firstTime := if s.firstTime = 0 then C.time r else s.firstTime }

theorem appendOk_eq : appendOk v Z C s r =
    if mustFlush C s r then sendAndClear v Z C (appended C s r) else (appended C s r, []) := by
  unfold appendOk mustFlush appended
  by_cases h0 : s.firstTime = 0
  · simp only [h0, if_true, ne_eq, not_true_eq_false, false_and, or_false]
  · simp only [h0, if_false, ne_eq, not_false_eq_true, true_and]

theorem appended_WF (hw : WF C s) : WF C (appended C s r) := by
  unfold WF appended at *
  simp [bytesOf_cons, hw.1, hw.2]

theorem appendOk_spec (hr : v.sound = true) :
    let x := appendOk v Z C s r
    x.1.settings = s.settings ∧ x.1.queue = s.queue ∧ x.1.stopped = s.stopped ∧ x.1.dstores = s.dstores ∧
    sharedRecs x.2 ++ x.1.buf.reverse = s.buf.reverse ++ [r] ∧ directRecs x.2 = [] ∧
    (∀ p ∈ x.2, Built v Z C s.settings p) ∧
    (WF C s → WF C x.1 ∧ ∀ p ∈ x.2, p.count = p.recs.length) := by
  rw [appendOk_eq]
  by_cases hm : mustFlush C s r
  · simp only [hm, if_true]
    have h := sendAndClear_spec v Z C (appended C s r) hr
    obtain ⟨h1, h2, h3, h4, _, h6, h7, h8, h9⟩ := h
    refine ⟨h1, h2, h3, h4, ?_, h7, h8, fun hw => h9 (appended_WF C s r hw)⟩
    rw [h6]; simp [appended]
  · simp only [hm, if_false]
    refine ⟨rfl, rfl, rfl, rfl, by simp [appended], rfl, by simp, fun hw => ⟨appended_WF C s r hw, by simp⟩⟩

/-- **a failing append is a no-op**: a record whose serialisation panics (recovered by `Append`)
    leaves the batch state exactly as it was and hands nothing over -/
theorem append_fail_noop (hr : v.sound = true) (hf : C.fails r = true) : appendRec v Z C s r = (s, []) := by
  have hc : v.countAfterWrite = true := by
    have := hr; simp only [Variant.sound, Bool.and_eq_true] at this; exact this.2
  unfold appendRec; simp [hf, hc]

theorem appendRec_ok (hf : C.fails r = false) : appendRec v Z C s r = appendOk v Z C s r := by
  unfold appendRec; simp [hf]

@[simp] theorem good_nil (C : Codec ρ) : good C ([] : List ρ) = [] := rfl

theorem good_append (C : Codec ρ) (a b : List ρ) : good C (a ++ b) = good C a ++ good C b := by
  simp [good, List.filter_append]

theorem good_singleton (C : Codec ρ) (r : ρ) : good C [r] = if C.fails r then [] else [r] := by
  unfold good; cases h : C.fails r <;> simp [h]

theorem appendRec_spec (hr : v.sound = true) :
    let x := appendRec v Z C s r
    x.1.settings = s.settings ∧ x.1.queue = s.queue ∧ x.1.stopped = s.stopped ∧ x.1.dstores = s.dstores ∧
    sharedRecs x.2 ++ x.1.buf.reverse = s.buf.reverse ++ good C [r] ∧ directRecs x.2 = [] ∧
    (∀ p ∈ x.2, Built v Z C s.settings p) ∧
    (WF C s → WF C x.1 ∧ ∀ p ∈ x.2, p.count = p.recs.length) := by
  cases hf : C.fails r
  · rw [appendRec_ok v Z C s r hf, good_singleton, hf]
    exact appendOk_spec v Z C s r hr
  · rw [append_fail_noop v Z C s r hr hf, good_singleton, hf]
    exact ⟨rfl, rfl, rfl, rfl, by simp, rfl, by simp, fun hw => ⟨hw, by simp⟩⟩
end app

/-! ### drain -/

theorem drain_spec (v : Variant) (Z : Zip) (C : Codec ρ) (q : List ρ) (hr : v.sound = true) : ∀ (s : State ρ),
    let x := drain v Z C s q
    x.1.settings = s.settings ∧ x.1.queue = s.queue ∧ x.1.stopped = s.stopped ∧ x.1.dstores = s.dstores ∧
    sharedRecs x.2 ++ x.1.buf.reverse = s.buf.reverse ++ good C q ∧ directRecs x.2 = [] ∧
    (∀ p ∈ x.2, Built v Z C s.settings p) ∧
    (WF C s → WF C x.1 ∧ ∀ p ∈ x.2, p.count = p.recs.length) := by
  induction q with
  | nil => intro s; simp [drain, good]
  | cons r q ih =>
    intro s
    simp only [drain]
    obtain ⟨a1, a2, a3, a4, a5, a6, a7, a8⟩ := appendRec_spec v Z C s r hr
    obtain ⟨b1, b2, b3, b4, b5, b6, b7, b8⟩ := ih (appendRec v Z C s r).1
    refine ⟨by rw [b1, a1], by rw [b2, a2], by rw [b3, a3], by rw [b4, a4], ?_, ?_, ?_, ?_⟩
    · rw [sharedRecs_append, List.append_assoc, b5, ← List.append_assoc, a5, List.append_assoc, ← good_append]; rfl
    · rw [directRecs_append, a6, b6]; rfl
    · intro p hp
      rcases List.mem_append.mp hp with h | h
      · exact a7 p h
      · have := b7 p h; rwa [a1] at this
    · intro hw
      obtain ⟨w1, c1⟩ := a8 hw
      obtain ⟨w2, c2⟩ := b8 w1
      refine ⟨w2, ?_⟩
      intro p hp
      rcases List.mem_append.mp hp with h | h
      · exact c1 p h
      · exact c2 p h

/-! ### SendDirect -/

section direct
variable (v : Variant) (Z : Zip) (C : Codec ρ) (st : Settings) (k : Nat)

/-- loop invariant of `SendDirect` after the records `done` -/
structure DInv (d : DLoop ρ) (done : List ρ) : Prop where
  recs  : (d.out.reverse).flatMap (·.recs) ++ d.cur.reverse = done
  len   : d.len = (bytesOf C d.cur).length
  count : d.count = d.cur.length
  src   : ∀ p ∈ d.out, p.src = .direct
  built : ∀ p ∈ d.out, Built v Z C st p
  cnt   : ∀ p ∈ d.out, p.count = p.recs.length

theorem directStep_inv (d : DLoop ρ) (done : List ρ) (r : ρ) (h : DInv v Z C st d done) :
    DInv v Z C st (directStep v Z C st k d r) (done ++ [r]) := by
  unfold directStep
  by_cases hf : st.maxBuf ≤ ((d.len + (C.enc r).length : Nat) : Int)
  · simp only [hf, if_true]
    refine ⟨?_, by simp [bytesOf_nil], rfl, ?_, ?_, ?_⟩
    · simp only [List.reverse_cons, List.flatMap_append, List.flatMap_cons, List.flatMap_nil, mkPack_recs,
        List.append_nil, List.reverse_nil]
      rw [← h.recs]; simp
    · intro p hp
      rcases List.mem_cons.mp hp with e | e
      · subst e; simp
      · exact h.src p e
    · intro p hp
      rcases List.mem_cons.mp hp with e | e
      · exact ⟨_, _, _, _, e⟩
      · exact h.built p e
    · intro p hp
      rcases List.mem_cons.mp hp with e | e
      · subst e; simp [h.count]
      · exact h.cnt p e
  · simp only [hf, if_false]
    refine ⟨?_, ?_, ?_, h.src, h.built, h.cnt⟩
    · simp only [List.reverse_cons]; rw [← List.append_assoc, h.recs]
    · simp [bytesOf_cons, h.len]
    · simp [h.count]

theorem directLoop_inv (rs : List ρ) : ∀ (d : DLoop ρ) (done : List ρ), DInv v Z C st d done →
    DInv v Z C st (rs.foldl (directStep v Z C st k) d) (done ++ rs) := by
  induction rs with
  | nil => intro d done h; simpa using h
  | cons r rs ih =>
    intro d done h
    simp only [List.foldl_cons]
    have := ih _ _ (directStep_inv v Z C st k d done r h)
    simpa using this

theorem DInv_init (a : List Bool) : DInv v Z C st ({ cur := [], len := 0, count := 0, store := [], out := [], ans := a } : DLoop ρ) [] :=
  ⟨by simp, by simp [bytesOf_nil], rfl, by simp, by simp, by simp⟩

theorem directRecs_of_all_direct (ps : List (Pack ρ)) (h : ∀ p ∈ ps, p.src = .direct) :
    directRecs ps = ps.flatMap (·.recs) ∧ sharedRecs ps = [] := by
  induction ps with
  | nil => simp
  | cons p ps ih =>
    have hp := h p (by simp)
    obtain ⟨i1, i2⟩ := ih (fun q hq => h q (by simp [hq]))
    rw [directRecs_cons, sharedRecs_cons, i1, i2]
    simp [hp]

theorem sendDirect_spec (s : State ρ) (rs : List ρ) :
    let x := sendDirect v Z C s rs
    x.1.settings = s.settings ∧ x.1.queue = s.queue ∧ x.1.stopped = s.stopped ∧ x.1.buf = s.buf ∧
    x.1.bufLen = s.bufLen ∧ x.1.count = s.count ∧ x.1.firstTime = s.firstTime ∧ x.1.store = s.store ∧
    sharedRecs x.2 = [] ∧
    ((∀ r, C.enc r ≠ []) → directRecs x.2 = rs) ∧
    (∀ p ∈ x.2, Built v Z C s.settings p) ∧
    (∀ p ∈ x.2, p.count = p.recs.length) := by
  have inv := directLoop_inv v Z C s.settings s.dstores.length rs _ _ (DInv_init v Z C s.settings s.answers)
  simp only [List.nil_append] at inv
  unfold sendDirect directLoop
  generalize rs.foldl (directStep v Z C s.settings s.dstores.length)
    { cur := [], len := 0, count := 0, store := [], out := [], ans := s.answers } = d at inv ⊢
  unfold directFinish
  by_cases hl : d.len > 0
  · rw [if_pos hl]
    have hsrc : ∀ p ∈ (mkPack v Z s.settings .direct (.directBuf s.dstores.length) d.cur.reverse d.count
        (encMany C.enc d.cur.reverse) :: d.out).reverse, p.src = .direct := by
      intro p hp
      rcases List.mem_cons.mp (List.mem_reverse.mp hp) with e | e
      · subst e; simp
      · exact inv.src p e
    obtain ⟨e1, e2⟩ := directRecs_of_all_direct _ hsrc
    refine ⟨rfl, rfl, rfl, rfl, rfl, rfl, rfl, rfl, e2, ?_, ?_, ?_⟩
    · intro _
      rw [e1]
      simp only [List.reverse_cons, List.flatMap_append, List.flatMap_cons, List.flatMap_nil, mkPack_recs,
        List.append_nil]
      exact inv.recs
    · intro p hp
      rcases List.mem_cons.mp (List.mem_reverse.mp hp) with e | e
      · exact ⟨_, _, _, _, e⟩
      · exact inv.built p e
    · intro p hp
      rcases List.mem_cons.mp (List.mem_reverse.mp hp) with e | e
      · subst e; simp [inv.count]
      · exact inv.cnt p e
  · rw [if_neg hl]
    have hsrc : ∀ p ∈ d.out.reverse, p.src = .direct := fun p hp => inv.src p (List.mem_reverse.mp hp)
    obtain ⟨e1, e2⟩ := directRecs_of_all_direct _ hsrc
    refine ⟨rfl, rfl, rfl, rfl, rfl, rfl, rfl, rfl, e2, ?_, ?_, ?_⟩
    · intro hne
      rw [e1]
      have hz : d.len = 0 := by omega
      have hb : bytesOf C d.cur = [] := by
        have := inv.len; rw [hz] at this
        exact List.eq_nil_of_length_eq_zero this.symm
      have hc : d.cur.reverse = [] := encMany_eq_nil C.enc hne _ hb
      have := inv.recs
      rw [hc, List.append_nil] at this
      exact this
    · exact fun p hp => inv.built p (List.mem_reverse.mp hp)
    · exact fun p hp => inv.cnt p (List.mem_reverse.mp hp)
end direct

end ZipSender
