/-
  Golib.ZipSender.FactsWire — tie A, interpreted, for the container methods of lang/pack/ZipPack.go
  and for `SetTcpClient`: the statements `xlate/c16` transcribes (`ZStmt`), their semantics
  (`execSet`, `execGet`, `execClient`) and the proofs that the reference transcriptions *are* C03's
  container model (`Packs.Zip.setRecords`, `Packs.Zip.getRecords`) and the `setClient` input of
  `Golib.ZipSender.Client`, for all inputs.
-/
import Golib.Packs.Container
import Golib.ZipSender.Client

namespace ZipSender

open Layout Packs

/-- the statements of `ZipPack.SetRecords`, `ZipPack.GetRecords` and `SetTcpClient`, as transcribed -/
inductive ZStmt
  | setCountLen              -- this.RecordCount = len(items)
  | newOut                   -- o := io.NewDataOutputX()
  | writeEach                -- for _, it := range items { o = WritePack(o, it) }
  | setRecordsOut            -- this.Records = o.ToByteArray()
  | retThis                  -- return this
  | newItems                 -- items := make([]Pack, 0)
  | nilGuard                 -- if this.Records == nil { return nil }
  | newIn                    -- in := io.NewDataInputX(this.Records)
  | readLoop (bound : String) (stamps : List (String × String)) (appends : Bool)
      -- for i := 0; i < this.<bound>; i++ { p := ReadPack(in); p.<setter>(this.<field>) …; items = append(items, p) }
  | retItems                 -- return items
  | setClient                -- this.client = c
  | unknown (src : String)
deriving DecidableEq, Repr

/-! ### SetRecords -/

def refSetRecords : List ZStmt := [.setCountLen, .newOut, .writeEach, .setRecordsOut, .retThis]

/-- run the statements on the receiver `z` with the argument `ps`; `o` is the local output stream -/
def execSet (ps : List PV) : List ZStmt → Packs.Zip → Bytes → Option Packs.Zip
  | [], _, _ => none                                   -- fell off the end without `return this`
  | .setCountLen :: r, z, o => execSet ps r { z with count := ps.length } o
  | .newOut :: r, z, _ => execSet ps r z []
  | .writeEach :: r, z, o => execSet ps r z (o ++ writePacks ps)
  | .setRecordsOut :: r, z, o => execSet ps r { z with records := o } o
  | .retThis :: _, z, _ => some z
  | _ :: _, _, _ => none

theorem execSet_ref (z : Packs.Zip) (ps : List PV) : execSet ps refSetRecords z [] = some (z.setRecords ps) := by
  simp [refSetRecords, execSet, Packs.Zip.setRecords]

/-! ### GetRecords -/

def refStamps : List (String × String) :=
  [("SetPCODE", "Pcode"), ("SetOID", "Oid"), ("SetOKIND", "Okind"), ("SetONODE", "Onode")]

def refGetRecords : List ZStmt :=
  [.newItems, .nilGuard, .newIn, .readLoop "RecordCount" refStamps true, .retItems]

/-- the header field of the container a stamp reads (`this.<field>`) -/
def hdrGet (h : Hdr) : String → Option Int
  | "Pcode" => some h.pcode | "Oid" => some h.oid | "Okind" => some h.okind | "Onode" => some h.onode
  | "Time" => some h.time | _ => none

/-- the field of the inner pack a setter writes -/
def setterKey : String → Option String
  | "SetPCODE" => some "Pcode" | "SetOID" => some "Oid" | "SetOKIND" => some "Okind" | "SetONODE" => some "Onode"
  | _ => none

/-- one `p.<setter>(this.<field>)` applied to a field of the inner pack -/
def applyStamp (h : Hdr) (kv : String × Val) (st : String × String) : String × Val :=
  match setterKey st.1, hdrGet h st.2 with
  | some k, some v => if kv.1 = k then (kv.1, .int v) else kv
  | _, _ => kv

def stampWith (h : Hdr) (stamps : List (String × String)) (p : Int × Out) : Int × Out :=
  (p.1, p.2.map (fun kv => stamps.foldl (applyStamp h) kv))

structure GetSt where
  items : List (Int × Out)
  inp : Bytes

def execGet (fac : Factory) (z : Packs.Zip) : List ZStmt → GetSt → Option (List (Int × Out))
  | [], _ => none
  | .newItems :: r, g => execGet fac z r { g with items := [] }
  | .nilGuard :: r, g => execGet fac z r g       -- the model's `records` is never nil (nil = no payload at all)
  | .newIn :: r, g => execGet fac z r { g with inp := z.records }
  | .readLoop bound stamps appends :: r, g =>
    if bound = "RecordCount" ∧ appends = true then
      match readPacks fac z.count g.inp with
      | none => none                               -- ReadPack panics on a short / foreign payload
      | some (xs, rest) => execGet fac z r { items := g.items ++ xs.map (stampWith z.hdr stamps), inp := rest }
    else none
  | .retItems :: _, g => some g.items
  | _ :: _, _ => none

theorem stampField_eq (h : Hdr) (kv : String × Val) : refStamps.foldl (applyStamp h) kv = stampField h kv := by
  simp only [refStamps, List.foldl_cons, List.foldl_nil, applyStamp, setterKey, hdrGet, stampField]
  by_cases h1 : kv.1 = "Pcode"
  · simp [h1]
  · by_cases h2 : kv.1 = "Oid"
    · simp [h2]
    · by_cases h3 : kv.1 = "Okind"
      · simp [h3]
      · by_cases h4 : kv.1 = "Onode" <;> simp [h1, h2, h3, h4]

theorem stampWith_ref (h : Hdr) (p : Int × Out) : stampWith h refStamps p = stamp h p := by
  unfold stampWith stamp
  congr 1
  exact List.map_congr_left (fun kv _ => stampField_eq h kv)

theorem execGet_ref (fac : Factory) (z : Packs.Zip) : execGet fac z refGetRecords ⟨[], []⟩ = Packs.Zip.getRecords fac z := by
  simp only [refGetRecords, execGet, Packs.Zip.getRecords, and_self, if_true]
  cases readPacks fac z.count z.records with
  | none => rfl
  | some x =>
    obtain ⟨xs, rest⟩ := x
    simp only [List.nil_append, Option.map_some]
    congr 1
    exact List.map_congr_left (fun p _ => stampWith_ref z.hdr p)

/-! ### SetTcpClient -/

def refSetTcpClient : List ZStmt := [.setClient]

/-- the body of `SetTcpClient(c_k')` on a sender in state `s` whose client is `k`: new pair and the
    packs handed over -/
def execClient {ρ : Type} (k' : Nat) : List ZStmt → State ρ × Nat → Option ((State ρ × Nat) × List (Pack ρ))
  | [], x => some (x, [])
  | .setClient :: r, (s, _) => execClient k' r (s, k')
  | _ :: _, _ => none

theorem execClient_ref {ρ : Type} (s : State ρ) (k k' : Nat) :
    execClient k' refSetTcpClient (s, k) = some ((s, k'), []) := rfl

end ZipSender
