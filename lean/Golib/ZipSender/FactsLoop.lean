/-
  Golib.ZipSender.FactsLoop — interpreted tie A for the background loop and for the tail of
  `sendAndClear`.

  `xlate/c16` transcribes the body of `run()` into a `RunIR` (the statements of the Done branch, of
  the "GetTimeout returned a record" branch and of its else branch) and the statements of
  `sendAndClear` from the hand-over on into a `List TStmt`.  Both get a semantics here (`execR`,
  `execT`), and the model's `stop` / `step` / `sendAndClear` are proved to *be* that semantics of the
  reference IRs for every state and input; the generated obligations then only have to say that the
  transcribed IR is the reference IR.
-/
import Golib.ZipSender.Facts
import Golib.ZipSender.Answers

namespace ZipSender

open Prim (encMany)

variable {ρ : Type}

/-! ### the loop body -/

inductive RStmt
  | drain        -- `for tmp := Queue.GetNoWait(); tmp != nil; tmp = Queue.GetNoWait() { …this.Append(data)… }`
  | flush        -- `this.sendAndClear()`
  | ret          -- `return`
  | appendData   -- `if data, ok := tmp.(*pack.LogSinkPack); ok { this.Append(data) }`
  | unknown (src : String)
deriving DecidableEq, Repr

structure RunIR where
  done    : List RStmt   -- `case <-this.ctx.Done():`
  got     : List RStmt   -- `default:` … `GetTimeout(…)` returned a record
  idle    : List RStmt   -- … returned nil
  timeout : T            -- the argument of GetTimeout
deriving DecidableEq, Repr

/-- (state, packs handed over, returned from `run`) -/
def execR (v : Variant) (Z : Zip) (C : Codec ρ) (data : Option ρ) : List RStmt → State ρ → State ρ × List (Pack ρ) × Bool
  | [], s => (s, [], false)
  | .ret :: _, s => ({ s with stopped := true }, [], true)
  | .drain :: rest, s =>
    let x := drain v Z C { s with queue := [] } s.queue
    let y := execR v Z C data rest x.1
    (y.1, x.2 ++ y.2.1, y.2.2)
  | .flush :: rest, s =>
    let x := sendAndClear v Z C s
    let y := execR v Z C data rest x.1
    (y.1, x.2 ++ y.2.1, y.2.2)
  | .appendData :: rest, s =>
    match data with
    | some r =>
      let x := appendRec v Z C s r
      let y := execR v Z C data rest x.1
      (y.1, x.2 ++ y.2.1, y.2.2)
    | none => execR v Z C data rest s
  | .unknown _ :: rest, s => execR v Z C data rest s

/-- the loop body the model of variant `v` stands for -/
def runIROf (v : Variant) : RunIR :=
  { done := if v.drainOnStop then [.drain, .flush, .ret] else [.flush, .ret],
    got := [.appendData], idle := [.flush], timeout := .maxWait }

def refRun : RunIR := runIROf .fixed

theorem stop_is_execR (v : Variant) (Z : Zip) (C : Codec ρ) (s : State ρ) (hs : s.stopped = false) :
    execR v Z C none (runIROf v).done s = ((stop v Z C s).1, (stop v Z C s).2, true) := by
  have hs' : ¬ s.stopped = true := by simp [hs]
  by_cases hv : v.drainOnStop = true
  · unfold stop; rw [if_neg hs']
    simp [runIROf, hv, execR]
  · have hv' : v.drainOnStop = false := by simpa using hv
    unfold stop; rw [if_neg hs']
    simp [runIROf, hv', execR]

theorem step_got_is_execR (v : Variant) (Z : Zip) (C : Codec ρ) (s : State ρ) (r : ρ) (q : List ρ)
    (hs : s.stopped = false) (hq : s.queue = r :: q) :
    execR v Z C (some r) (runIROf v).got { s with queue := q } = ((step v Z C s).1, (step v Z C s).2, false) := by
  unfold step; rw [if_neg (by simp [hs]), hq]
  simp [runIROf, execR]

theorem step_idle_is_execR (v : Variant) (Z : Zip) (C : Codec ρ) (s : State ρ)
    (hs : s.stopped = false) (hq : s.queue = []) :
    execR v Z C none (runIROf v).idle s = ((step v Z C s).1, (step v Z C s).2, false) := by
  unfold step; rw [if_neg (by simp [hs]), hq]
  simp [runIROf, execR]

/-! ### the tail of sendAndClear: hand-over, error branch, reset -/

/-- statements of an error branch (no nested hand-over) -/
inductive EStmt | log | ret | unknown (src : String)
deriving DecidableEq, Repr

inductive SStmt
  | handOver (onError : List EStmt)
  | resetBuf | clearFirst | clearCount
  | unknown (src : String)
deriving DecidableEq, Repr

def errReturns : List EStmt → Bool
  | [] => false
  | .ret :: _ => true
  | _ :: rest => errReturns rest

/-- `this.buffer.Reset()`: the bytes stay in the backing array -/
def resetBuffer (C : Codec ρ) (s : State ρ) : State ρ :=
  { s with buf := [], bufLen := 0,
           store := encMany C.enc s.buf.reverse ++ s.store.drop (encMany C.enc s.buf.reverse).length }

/-- run the tail; `ok` is the client's answer to this hand-over (already taken off `answers`) -/
def execS (C : Codec ρ) (ok : Bool) : List SStmt → State ρ → State ρ
  | [], s => s
  | .handOver onErr :: rest, s => if !ok && errReturns onErr then s else execS C ok rest s
  | .resetBuf :: rest, s => execS C ok rest (resetBuffer C s)
  | .clearFirst :: rest, s => execS C ok rest { s with firstTime := 0 }
  | .clearCount :: rest, s => execS C ok rest { s with count := 0 }
  | .unknown _ :: rest, s => execS C ok rest s

def tailOf (v : Variant) : List SStmt :=
  [.handOver (if v.resetOnError then [.log] else [.log, .ret]), .resetBuf, .clearFirst, .clearCount]

def refTail : List SStmt := tailOf .fixed

/-- the model's flush, for every variant, state and answer, is the semantics of `tailOf v` -/
theorem sendAndClear_is_execS (v : Variant) (Z : Zip) (C : Codec ρ) (s : State ρ) (h : s.bufLen ≠ 0) :
    (sendAndClear v Z C s).1 = execS C (s.answers.headD true) (tailOf v) { s with answers := s.answers.tail } := by
  unfold sendAndClear
  rw [if_neg h]
  cases hv : v.resetOnError <;> cases ha : s.answers.headD true <;>
    simp [tailOf, execS, errReturns, resetBuffer, hv, ha]

/-- **a hand-over is final**: with the reference tail the state after a flush does not depend on
    what the client answered -/
theorem refTail_ignores_answer (C : Codec ρ) (s : State ρ) (ok ok' : Bool) :
    execS C ok refTail s = execS C ok' refTail s := by
  cases ok <;> cases ok' <;> simp [refTail, tailOf, Variant.fixed, execS, errReturns]

end ZipSender
