/-
  Golib.ZipSender.WireFacts — facts about `Golib.ZipSender.Wire`: a ZipPack written with
  `pack.WritePack` reads back with `pack.ReadPack` as the same header, status, record count and
  payload, whatever follows it in the stream; hence the receiving side (read, decompress when
  flagged, `GetRecords`) obtains the records the sender batched.  Proof file (not imported by the driver).
-/
import Golib.ZipSender.Wire
import Golib.ZipSender.LogSink

namespace ZipSender.Wire

open Layout Packs ZipSender

/-- the regenerated writer and reader layouts of ZipPack agree (decided again here, as in C03Gen) -/
theorem zip_agrees : agrees Gen.Packs.ZipPack.w Gen.Packs.ZipPack.r = true := by decide

/-- any factory that constructs a ZipPack for PACK_ZIP -/
def FacZ (fac : Factory) : Prop := fac zipCode = some Gen.Packs.ZipPack.r

theorem facZ_ok : FacZ facZ := by simp [FacZ, facZ]

/-- the writer's explicit guards: header ranges, `Status` a byte, `RecordCount` an int64, a blob < 2^31 -/
def WFZip (h : Hdr) (status count : Int) (records : Bytes) : Prop :=
  h.WF ∧ (0 ≤ status ∧ status ≤ 255) ∧ Prim.inRange 8 count ∧ records.length < 2147483648

theorem hdrOf_zipRec (h : Hdr) (st c : Int) (r : Bytes) : hdrOf "" (zipRec h st c r) = h := rfl

theorem zipPV_ok (fac : Factory) (hf : FacZ fac) (h : Hdr) (st c : Int) (r : Bytes) (hw : WFZip h st c r) :
    (zipPV h st c r).ok valueRT fac := by
  obtain ⟨h1, h2, h3, h4⟩ := hw
  refine ⟨(by decide : Prim.inRange 2 zipCode), hf, zip_agrees, ?_⟩
  show Gen.Packs.ZipPack.w.WF valueRT env0 "" (zipRec h st c r)
  simp only [Gen.Packs.ZipPack.w, L.WF]
  refine ⟨by rw [hdrOf_zipRec]; exact h1, ?_, ?_, ?_, ?_, ?_, ?_, trivial⟩
  · show 0 ≤ st ∧ st < 256; omega
  · show 0 ≤ st ∧ st ≤ 255; exact h2
  · show Prim.inRange 8 c; exact h3
  · show Prim.inRange 8 c; exact h3
  · show r.length < 2147483648; exact h4
  · rfl

theorem carried_zipPV (h : Hdr) (st c : Int) (r : Bytes) :
    (zipPV h st c r).carried =
      (zipCode, hdrOut "" h ++ [("Status", .int st), ("RecordCount", .int c), ("Records", .bytes r)]) := rfl

theorem received_carried (h : Hdr) (st c : Int) (r : Bytes) :
    received (hdrOut "" h ++ [("Status", .int st), ("RecordCount", .int c), ("Records", .bytes r)]) = ⟨h, st, c, r⟩ := rfl

/-- **ZipPack.Write then ZipPack.Read** (through `WritePack` / `ReadPack`): the receiver holds the same
    header, status, count and payload, and the stream continues where the pack ended -/
theorem unwire_wire (fac : Factory) (hf : FacZ fac) (h : Hdr) (st c : Int) (r rest : Bytes) (hw : WFZip h st c r) :
    unwire fac (wire h st c r ++ rest) = some (⟨h, st, c, r⟩, rest) := by
  unfold unwire wire
  rw [readPack_writePack valueRT fac (zipPV h st c r) rest (zipPV_ok fac hf h st c r hw), carried_zipPV]
  simp only [if_true, received_carried]

/-! ### packs of the sender on the wire -/

variable {ρ : Type}

def statusOf (p : Pack ρ) : Int := if p.zipped then 1 else 0

/-- the emitted pack as the client transmits it; `h` is the header the client's side stamped it with
    (`ZipPack.Time = SystemNow()` and the agent's Pcode/Oid — not the sender's business) -/
def wirePack (h : Hdr) (p : Pack ρ) : Bytes := wire h (statusOf p) p.count p.payload

/-- the receiving side, complete: `ReadPack`, decompress when `Status == ZIPPED`, `GetRecords` -/
def receive {Z : Zip} (U : Unzip Z) (fac : Factory) (bs : Bytes) : Option (List (Int × Out) × Bytes) :=
  match unwire fac bs with
  | none => none
  | some (rc, rest) =>
    ((if rc.status = 1 then U.unzip rc.records else some rc.records).bind
      (fun raw => Zip.getRecords fac ⟨rc.hdr, raw, rc.count.toNat⟩)).map (fun xs => (xs, rest))

theorem receive_wirePack {Z : Zip} (U : Unzip Z) (fac : Factory) (hf : FacZ fac) (h : Hdr) (p : Pack ρ) (rest : Bytes)
    (hh : h.WF) (hc : (p.count : Int) < 9223372036854775808) (hl : p.payload.length < 2147483648) :
    receive U fac (wirePack h p ++ rest) =
      ((if p.zipped then U.unzip p.payload else some p.payload).bind
        (fun raw => Zip.getRecords fac ⟨h, raw, p.count⟩)).map (fun xs => (xs, rest)) := by
  have hw : WFZip h (statusOf p) p.count p.payload := by
    refine ⟨hh, ?_, ?_, hl⟩
    · unfold statusOf; split <;> omega
    · rw [Prim.inRange_8]; omega
  unfold receive wirePack
  rw [unwire_wire fac hf h _ _ _ rest hw]
  simp only [Int.toNat_natCast]
  cases hz : p.zipped <;> simp [statusOf, hz]

end ZipSender.Wire
