/-
  Golib.ZipSender.Facts — vocabulary for the facts the translator `xlate/c16` regenerates from
  logsink/zip/ZipSendProxyThread.go (tie A), the reference values the model was written
  against, and lemmas saying that the model's decisions *are* those expressions.
-/
import Golib.ZipSender.Lemmas

namespace ZipSender

/-- integer terms occurring in the sender's conditions -/
inductive T
  | bufLen        -- this.buffer.Len()  /  buffer.Len()
  | maxBuf        -- this.logsinkMaxBufferSize
  | recTime       -- p.Time
  | firstTime     -- this.firstTime
  | maxWait       -- this.logsinkMaxWaitTime
  | zipMin        -- this.logsinkZipMinSize
  | recordsLen    -- len(p.Records)
  | status        -- p.Status
  | lit (n : Int)
  | sub (a b : T)
  | unknown (src : String)
deriving DecidableEq, Repr

inductive Cnd
  | ge (a b : T) | gt (a b : T) | lt (a b : T) | le (a b : T) | eq (a b : T) | ne (a b : T)
  | or (a b : Cnd) | and (a b : Cnd)
  | unknown (src : String)
deriving DecidableEq, Repr

structure Env where
  bufLen : Int
  maxBuf : Int
  recTime : Int
  firstTime : Int
  maxWait : Int
  zipMin : Int
  recordsLen : Int
  status : Int

def Env.zero : Env := ⟨0, 0, 0, 0, 0, 0, 0, 0⟩

def T.eval (e : Env) : T → Int
  | .bufLen => e.bufLen | .maxBuf => e.maxBuf | .recTime => e.recTime | .firstTime => e.firstTime
  | .maxWait => e.maxWait | .zipMin => e.zipMin | .recordsLen => e.recordsLen | .status => e.status
  | .lit n => n | .sub a b => a.eval e - b.eval e | .unknown _ => 0

def Cnd.eval (e : Env) : Cnd → Bool
  | .ge a b => decide (a.eval e ≥ b.eval e) | .gt a b => decide (a.eval e > b.eval e)
  | .lt a b => decide (a.eval e < b.eval e) | .le a b => decide (a.eval e ≤ b.eval e)
  | .eq a b => decide (a.eval e = b.eval e) | .ne a b => decide (a.eval e ≠ b.eval e)
  | .or a b => a.eval e || b.eval e | .and a b => a.eval e && b.eval e
  | .unknown _ => false

/-- shape of `Append`: `if <split> { firstTime = p.Time; if <first> {flush} } else { if <other> {flush} }` -/
structure AppendShape where
  split : Cnd
  setsFirstTime : Bool
  first : Cnd
  other : Cnd
deriving DecidableEq, Repr

/-- a `client.SendFlush(p, …)` site -/
structure HandOver where
  fn          : String   -- enclosing function
  recordsFrom : String   -- expression assigned to p.Records before ("buffer.Bytes" = view of a bytes.Buffer)
  doZipBefore : Bool     -- this.doZip(p) runs between that assignment and the hand-over
  resetAfter  : Bool     -- the buffer is Reset (and reused) after the hand-over
deriving DecidableEq, Repr

/-! ### reference values (what the model was written against) -/

def refAppend : AppendShape :=
  { split := .eq .firstTime (.lit 0), setsFirstTime := true,
    first := .ge .bufLen .maxBuf,
    other := .or (.ge .bufLen .maxBuf) (.ge (.sub .recTime .firstTime) .maxWait) }

def refSendAndClearGuard : Cnd := .eq .bufLen (.lit 0)
def refDoZipGuards : List Cnd := [.ne .status (.lit 0), .lt .recordsLen .zipMin]
def refDirectLoop : Cnd := .ge .bufLen .maxBuf
def refDirectTail : Cnd := .gt .bufLen (.lit 0)

def refHandOvers : List HandOver :=
  [⟨"sendAndClear", "buffer.Bytes", true, true⟩, ⟨"SendDirect", "buffer.Bytes", true, true⟩,
   ⟨"SendDirect", "buffer.Bytes", true, true⟩]

def refConfigKeys : List (Field × String × Int) :=
  [(.queueCap, "logsink_queue_size", 1000), (.maxWait, "max_wait_time", 2000),
   (.maxBuf, "max_buffer_size", 65536), (.zipMin, "logsink_zip_min_size", 100)]

/-! ### the model's decisions are these expressions -/

variable {ρ : Type}

/-- environment in which `Append` evaluates its conditions: after the write -/
def appendEnv (C : Codec ρ) (s : State ρ) (r : ρ) : Env :=
  { Env.zero with
    bufLen := ((s.bufLen + (C.enc r).length : Nat) : Int)
    maxBuf := s.settings.maxBuf
    recTime := C.time r
    firstTime := s.firstTime
    maxWait := s.settings.maxWait
    zipMin := s.settings.zipMin }

theorem mustFlush_is_refAppend (C : Codec ρ) (s : State ρ) (r : ρ) :
    mustFlush C s r ↔
      (if refAppend.split.eval (appendEnv C s r) then refAppend.first.eval (appendEnv C s r)
       else refAppend.other.eval (appendEnv C s r)) = true := by
  unfold mustFlush
  simp only [refAppend, Cnd.eval, T.eval, appendEnv]
  by_cases h0 : s.firstTime = 0
  · simp [h0]
  · simp [h0]

theorem sendAndClear_guard_is_ref (v : Variant) (Z : Zip) (C : Codec ρ) (s : State ρ) :
    (sendAndClear v Z C s).2 = [] ↔
      refSendAndClearGuard.eval { Env.zero with bufLen := s.bufLen } = true := by
  rw [sendAndClear_emits]
  simp [refSendAndClearGuard, Cnd.eval, T.eval]

theorem mkPack_is_refDoZip (v : Variant) (Z : Zip) (st : Settings) (src : Src) (alias : Ref) (recs : List ρ)
    (count : Nat) (bytes : Bytes) :
    (mkPack v Z st src alias recs count bytes).zipped =
      !(refDoZipGuards.any (fun c => c.eval { Env.zero with zipMin := st.zipMin, recordsLen := bytes.length })) := by
  unfold mkPack
  simp only [refDoZipGuards, List.any_cons, List.any_nil, Cnd.eval, T.eval, Env.zero]
  split
  · rename_i h; simp [h]
  · rename_i h; simp [h]

theorem directStep_is_refDirectLoop (v : Variant) (Z : Zip) (C : Codec ρ) (st : Settings) (k : Nat) (d : DLoop ρ) (r : ρ) :
    ((directStep v Z C st k d r).out.length = d.out.length + 1) ↔
      refDirectLoop.eval { Env.zero with bufLen := ((d.len + (C.enc r).length : Nat) : Int), maxBuf := st.maxBuf } = true := by
  unfold directStep
  simp only [refDirectLoop, Cnd.eval, T.eval, decide_eq_true_eq, ge_iff_le]
  split <;> simp_all

theorem confFallback_is_refConfigKeys :
    refConfigKeys.map (fun x => (x.1, x.2.2)) =
      [(.queueCap, confFallback.queueCap), (.maxWait, confFallback.maxWait), (.maxBuf, confFallback.maxBuf),
       (.zipMin, confFallback.zipMin)] := by decide

/-- `ApplyConfig` given a semantics: for each (setting, key, fall-back) row, in source order,
    `this.<setting> = conf.GetInt(key, fall-back)` -/
def applyKeys (keys : List (Field × String × Int)) (lookup : String → Option Int) (s : Settings) : Settings :=
  keys.foldl (fun acc row => acc.set row.1 ((lookup row.2.1).getD row.2.2)) s

/-- the configuration the model's `Conf` stands for -/
def Conf.lookup (c : Conf) (key : String) : Option Int :=
  if key = "logsink_queue_size" then c.queueSize else if key = "max_wait_time" then c.maxWait
  else if key = "max_buffer_size" then c.maxBuf else if key = "logsink_zip_min_size" then c.zipMin else none

/-- `if this.logsinkQueueSize != queueSize { this.logsinkQueueSize = queueSize … }` is the unconditional
    assignment (which is how the translator records that `if`) -/
theorem conditional_set_is_set (s : Settings) (q : Int) :
    (if s.queueCap ≠ q then s.set .queueCap q else s) = s.set .queueCap q := by
  by_cases h : s.queueCap = q
  · subst h; simp [Settings.set]
  · simp [h]

theorem applyKeys_ref_is_resolve (c : Conf) (s : Settings) : applyKeys refConfigKeys c.lookup s = c.resolve := by
  simp [applyKeys, refConfigKeys, Conf.lookup, Settings.set, Conf.resolve, confFallback]

end ZipSender
