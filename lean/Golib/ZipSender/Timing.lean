/-
  Golib.ZipSender.Timing — the size and time clauses as invariants of whole histories.

  `flush_on_append` / `no_flush_below_limits` (Props) speak about one `Append`.  Here the same
  clauses are lifted to every state a history can reach: the batch under construction is always
  below the buffer limit in force, and every record in it is younger than the waiting time in force,
  measured from the first record of the batch (`firstTime`, with the code's `0 = "no first record
  yet"` sentinel spelled out).
-/
import Golib.ZipSender.Theorems

namespace ZipSender

variable {ρ : Type}

/-- the batch under construction respects the limits in force -/
def BInv (C : Codec ρ) (s : State ρ) : Prop :=
  ((s.bufLen : Int) < s.settings.maxBuf ∨ s.bufLen = 0) ∧
  (s.firstTime = 0 → ∀ r ∈ s.buf, C.time r = 0) ∧
  (s.firstTime ≠ 0 → ∀ r ∈ s.buf,
    C.time r = 0 ∨ C.time r = s.firstTime ∨ C.time r - s.firstTime < s.settings.maxWait)

theorem BInv_init (C : Codec ρ) (st : Settings) (ans : List Bool) : BInv C (init st ans : State ρ) := by
  refine ⟨Or.inr rfl, ?_, ?_⟩ <;> intro _ r hr <;> simp [init] at hr

/-- `BInv` only looks at these fields -/
theorem BInv_congr (C : Codec ρ) {s t : State ρ} (h1 : t.settings = s.settings) (h2 : t.buf = s.buf)
    (h3 : t.bufLen = s.bufLen) (h4 : t.firstTime = s.firstTime) (h : BInv C s) : BInv C t := by
  unfold BInv at *; rw [h1, h2, h3, h4]; exact h

section
variable (v : Variant) (Z : Zip) (C : Codec ρ)

theorem sendAndClear_BInv (hr : v.sound = true) (s : State ρ) (h : BInv C s) : BInv C (sendAndClear v Z C s).1 := by
  by_cases h0 : s.bufLen = 0
  · rw [sendAndClear_noop v Z C s h0]; exact h
  · rw [sendAndClear_eq v Z C s hr h0]
    refine ⟨Or.inr rfl, ?_, ?_⟩ <;> intro _ r hr' <;> simp [flushed] at hr'

theorem appendRec_BInv (hr : v.sound = true) (hne : ∀ r, C.enc r ≠ []) (s : State ρ) (r : ρ) (h : BInv C s) :
    BInv C (appendRec v Z C s r).1 := by
  cases hf : C.fails r
  · rw [appendRec_ok v Z C s r hf, appendOk_eq]
    by_cases hm : mustFlush C s r
    · rw [if_pos hm]
      have h0 : (appended C s r).bufLen ≠ 0 := by
        show s.bufLen + (C.enc r).length ≠ 0
        have := List.length_pos_iff.mpr (hne r)
        omega
      rw [sendAndClear_eq v Z C _ hr h0]
      refine ⟨Or.inr rfl, ?_, ?_⟩ <;> intro _ x hx <;> simp [flushed] at hx
    · rw [if_neg hm]
      unfold mustFlush at hm
      obtain ⟨_, b2, b3⟩ := h
      refine ⟨Or.inl ?_, ?_, ?_⟩
      · show ((s.bufLen + (C.enc r).length : Nat) : Int) < s.settings.maxBuf
        omega
      · intro h0 x hx
        have h0' : (if s.firstTime = 0 then C.time r else s.firstTime) = 0 := h0
        by_cases hs : s.firstTime = 0
        · rw [if_pos hs] at h0'
          rcases List.mem_cons.mp hx with e | e
          · rw [e]; exact h0'
          · exact b2 hs x e
        · rw [if_neg hs] at h0'; exact absurd h0' hs
      · intro _ x hx
        show C.time x = 0 ∨ C.time x = (if s.firstTime = 0 then C.time r else s.firstTime) ∨
          C.time x - (if s.firstTime = 0 then C.time r else s.firstTime) < s.settings.maxWait
        by_cases hs : s.firstTime = 0
        · rw [if_pos hs]
          rcases List.mem_cons.mp hx with e | e
          · rw [e]; exact Or.inr (Or.inl rfl)
          · exact Or.inl (b2 hs x e)
        · rw [if_neg hs]
          rcases List.mem_cons.mp hx with e | e
          · rw [e]; right; right; omega
          · exact b3 hs x e
  · rw [append_fail_noop v Z C s r hr hf]; exact h

theorem drain_BInv (hr : v.sound = true) (hne : ∀ r, C.enc r ≠ []) (q : List ρ) : ∀ s : State ρ, BInv C s →
    BInv C (drain v Z C s q).1 := by
  induction q with
  | nil => intro s h; exact h
  | cons r q ih => intro s h; simp only [drain]; exact ih _ (appendRec_BInv v Z C hr hne s r h)

theorem stepIn_BInv (hr : v.sound = true) (hne : ∀ r, C.enc r ≠ []) (s : State ρ) (i : In ρ) (hc : isConfig i = false)
    (h : BInv C s) : BInv C (stepIn v Z C s i).1 := by
  cases i with
  | add r => simp only [stepIn, add]; split <;> exact BInv_congr C rfl rfl rfl rfl h
  | step =>
    simp only [stepIn]; unfold step
    split
    · exact h
    · split
      · exact appendRec_BInv v Z C hr hne _ _ (BInv_congr C rfl rfl rfl rfl h)
      · exact sendAndClear_BInv v Z C hr s h
  | stop =>
    simp only [stepIn]
    by_cases hs : s.stopped = true
    · rw [(stopped_inert v Z C s hs).2]; exact h
    · by_cases hv : v.drainOnStop = true
      · rw [stop_eq_drain' v Z C s hs hv]
        exact BInv_congr C rfl rfl rfl rfl
          (sendAndClear_BInv v Z C hr _ (drain_BInv v Z C hr hne s.queue _ (BInv_congr C rfl rfl rfl rfl h)))
      · rw [stop_eq_nodrain' v Z C s hs hv]
        exact BInv_congr C rfl rfl rfl rfl (sendAndClear_BInv v Z C hr s h)
  | append r => exact appendRec_BInv v Z C hr hne s r h
  | sendDirect rs =>
    obtain ⟨a1, _, _, a4, a5, _, a7, _⟩ := sendDirect_spec v Z C s rs
    exact BInv_congr C a1 a4 a5 a7 h
  | applyConfig c => simp [isConfig] at hc
where
  stop_eq_drain' (v : Variant) (Z : Zip) (C : Codec ρ) (s : State ρ) (hs : ¬ s.stopped = true) (hv : v.drainOnStop = true) :
      stop v Z C s =
        ({ (sendAndClear v Z C (drain v Z C { s with queue := [] } s.queue).1).1 with stopped := true },
         (drain v Z C { s with queue := [] } s.queue).2 ++
           (sendAndClear v Z C (drain v Z C { s with queue := [] } s.queue).1).2) := by
    unfold stop; rw [if_neg hs]; simp only [hv, if_true]
  stop_eq_nodrain' (v : Variant) (Z : Zip) (C : Codec ρ) (s : State ρ) (hs : ¬ s.stopped = true) (hv : ¬ v.drainOnStop = true) :
      stop v Z C s = ({ (sendAndClear v Z C s).1 with stopped := true }, [] ++ (sendAndClear v Z C s).2) := by
    have hv' : v.drainOnStop = false := by simpa using hv
    unfold stop; rw [if_neg hs]; simp only [hv', Bool.false_eq_true, if_false]

/-- **size and time clauses over whole histories**: whatever the history (no configuration update in
    it), the client's answers and the records that fail, the batch under construction stays below
    the buffer limit and within the waiting time -/
theorem history_BInv (hr : v.sound = true) (hne : ∀ r, C.enc r ≠ []) (h : List (In ρ)) : ∀ s : State ρ,
    (∀ i ∈ h, isConfig i = false) → BInv C s → BInv C (final v Z C s h) := by
  induction h with
  | nil => intro s _ hb; exact hb
  | cons i is ih =>
    intro s hc hb
    rw [final_cons]
    exact ih _ (fun j hj => hc j (by simp [hj])) (stepIn_BInv v Z C hr hne s i (hc i (by simp)) hb)

end

end ZipSender
