/-
  Golib.ZipSender.Model — CodeModel of logsink/zip/ZipSendProxyThread.go.

  The sender batches encoded log records in one reusable `bytes.Buffer`, wraps the
  buffer in a `ZipPack` when a flush condition is met and hands the pack to a TCP
  client.  The model follows the code that exists, statement by statement:

    GetInstance   → `resolve`        (the settings assignments as an effect list)
    ApplyConfig   → `Conf.resolve`
    Add           → `add`            (RequestQueue.Put: bounded, drops on overflow)
    run (1 iter.) → `step`           (dequeue → Append | queue idle → sendAndClear)
    run (Done)    → `stop`
    Append        → `appendRec`
    sendAndClear  → `sendAndClear`
    doZip         → `mkPack`
    SendDirect    → `sendDirect`

  Three behaviours of the code as found are switched by a `Variant` so that the same
  definitions describe the repaired code (`Variant.fixed`, what the theorems are about and
  what the driver runs) and the code as found (`Variant.asFound`, for the `finding_*`
  witnesses): D31 defaults overwritten, D32 uncompressed payload aliases the reusable
  buffer, D33 queue not drained on stop.

  Aliasing is modelled explicitly because the property is about it: a pack's payload is
  either `owned` or a view (`sharedBuf`, `directBuf k`) of a reusable buffer whose
  backing array persists across `Reset` and is overwritten by later writes
  (`State.store`; worst case of `bytes.Buffer`: the capacity suffices, no reallocation).

  Records are abstract (`ρ`) with an encoder and a time stamp (`Codec`); gzip is abstract
  (`Zip`).  Their round-trip facts are *hypotheses of theorems*, not axioms.
-/
import Golib.Prim.Codec

namespace ZipSender

open Prim (encMany)

/-! ### settings, construction, configuration -/

structure Settings where
  maxWait  : Int      -- logsinkMaxWaitTime (ms)
  queueCap : Int      -- logsinkQueueSize
  maxBuf   : Int      -- logsinkMaxBufferSize (bytes)
  zipMin   : Int      -- logsinkZipMinSize (bytes)
deriving DecidableEq, Repr, Inhabited

/-- the constants of the `const (…)` block: 5 s, 1000 records, 64 KiB, 100 bytes -/
def defaults : Settings := ⟨5000, 1000, 65536, 100⟩

structure Variant where
  keepDefaults   : Bool   -- D31 repaired: an option left at zero keeps the default
  copyOnHandOver : Bool   -- D32 repaired: an uncompressed payload is copied out of the reusable buffer
  drainOnStop    : Bool   -- D33 repaired: the queue is drained into the last batch on cancellation
  resetOnError   : Bool := true
    -- the code logs a SendFlush error and resets the batch all the same (true in the code as found
    -- and in the repaired code; `false` describes the seeded regression "return on error before the reset")
  countAfterWrite : Bool := true
    -- `packCount += 1` comes after the record has been written to the buffer (true in the code);
    -- `false` describes the seeded regression "count first, then serialise"
deriving DecidableEq, Repr

def Variant.fixed : Variant := ⟨true, true, true, true, true⟩
def Variant.asFound : Variant := ⟨false, false, false, true, true⟩
/-- the repaired code with the regression "sendAndClear returns when SendFlush fails" -/
def Variant.returnOnError : Variant := ⟨true, true, true, false, true⟩
/-- the repaired code with the regression "packCount += 1 before WritePack" -/
def Variant.countFirst : Variant := ⟨true, true, true, true, false⟩

/-- the two error-path behaviours every theorem about histories relies on -/
def Variant.sound (v : Variant) : Bool := v.resetOnError && v.countAfterWrite

inductive Field | maxWait | queueCap | maxBuf | zipMin
deriving DecidableEq, Repr

def Settings.get (s : Settings) : Field → Int
  | .maxWait => s.maxWait | .queueCap => s.queueCap | .maxBuf => s.maxBuf | .zipMin => s.zipMin

def Settings.set (s : Settings) (f : Field) (x : Int) : Settings :=
  match f with
  | .maxWait => { s with maxWait := x } | .queueCap => { s with queueCap := x }
  | .maxBuf => { s with maxBuf := x } | .zipMin => { s with zipMin := x }

/-- one assignment `p.<field> = …` of `GetInstance`: the right-hand side is a constant or the
    same field of the option struct `o`; `guarded` = wrapped in `if o.<field> > 0 { … }` -/
inductive Rhs | const (n : Int) | opt
deriving DecidableEq, Repr

structure Assign where
  field   : Field
  rhs     : Rhs
  guarded : Bool
deriving DecidableEq, Repr

def applyAssign (o : Settings) (p : Settings) (a : Assign) : Settings :=
  match a.rhs with
  | .const n => p.set a.field n
  | .opt => if a.guarded && !(o.get a.field > 0) then p else p.set a.field (o.get a.field)

/-- run the assignment sequence on a zero-initialised struct (`new(ZipSendProxyThread)`) -/
def resolveBy (as : List Assign) (o : Settings) : Settings := as.foldl (applyAssign o) ⟨0, 0, 0, 0⟩

def defaultAssigns : List Assign :=
  [⟨.maxWait, .const 5000, false⟩, ⟨.queueCap, .const 1000, false⟩,
   ⟨.maxBuf, .const 65536, false⟩, ⟨.zipMin, .const 100, false⟩]

/-- the settings assignments of `GetInstance`, in source order, repaired (D31) -/
def getInstanceFixed : List Assign :=
  defaultAssigns ++ [⟨.maxWait, .opt, true⟩, ⟨.queueCap, .opt, true⟩, ⟨.maxBuf, .opt, true⟩, ⟨.zipMin, .opt, true⟩]

/-- … and as found: defaults, then an unconditional overwrite from the option struct -/
def getInstanceFound : List Assign :=
  defaultAssigns ++ [⟨.maxWait, .opt, false⟩, ⟨.queueCap, .opt, false⟩, ⟨.maxBuf, .opt, false⟩, ⟨.zipMin, .opt, false⟩]

/-- settings of a sender created by `GetInstance` when the option struct carries `o`
    (no exported option sets these four fields, so `o` is all zeros in practice) -/
def resolve (v : Variant) (o : Settings) : Settings :=
  resolveBy (if v.keepDefaults then getInstanceFixed else getInstanceFound) o

/-- a configuration as `ApplyConfig` sees it: the four keys, `none` = key absent -/
structure Conf where
  queueSize : Option Int   -- logsink_queue_size
  maxWait   : Option Int   -- max_wait_time
  maxBuf    : Option Int   -- max_buffer_size
  zipMin    : Option Int   -- logsink_zip_min_size
deriving DecidableEq, Repr

/-- fall-back values written in `ApplyConfig` (note: 2000 ms, not the 5000 ms default) -/
def confFallback : Settings := ⟨2000, 1000, 65536, 100⟩

def Conf.resolve (c : Conf) : Settings :=
  ⟨c.maxWait.getD confFallback.maxWait, c.queueSize.getD confFallback.queueCap,
   c.maxBuf.getD confFallback.maxBuf, c.zipMin.getD confFallback.zipMin⟩

/-! ### records, packs, state -/

structure Codec (ρ : Type) where
  enc   : ρ → Bytes    -- pack.WritePack
  time  : ρ → Int      -- LogSinkPack.Time
  fails : ρ → Bool     -- pack.WritePack panics on this record (nil Tags, nil *LogSinkPack) or the queue
                       -- element is not a *LogSinkPack at all: `Append` recovers / the loop skips it

/-- the records that serialise -/
def good (C : Codec ρ) (rs : List ρ) : List ρ := rs.filter (fun r => !C.fails r)

structure Zip where
  zip : Bytes → Bytes -- compressutil.DoZip

/-- hand-over site: `sendAndClear` (the shared batch) or `SendDirect` -/
inductive Src | shared | direct
deriving DecidableEq, Repr

/-- what `ZipPack.Records` refers to -/
inductive Ref
  | owned                 -- a slice of its own
  | sharedBuf             -- a view of the sender's reusable buffer
  | directBuf (k : Nat)   -- a view of the local buffer of the k-th `SendDirect` call
deriving DecidableEq, Repr

structure Pack (ρ : Type) where
  src     : Src
  recs    : List ρ     -- ghost: the records the pack was built from
  count   : Nat        -- RecordCount
  zipped  : Bool       -- Status == ZIPPED
  payload : Bytes      -- Records, as handed over
  ref     : Ref

structure State (ρ : Type) where
  settings  : Settings
  queue     : List ρ      -- RequestQueue, oldest first
  buf       : List ρ      -- records encoded into the buffer, newest first
  bufLen    : Nat         -- buffer.Len()
  count     : Nat         -- packCount
  firstTime : Int
  stopped   : Bool        -- the background loop has returned
  store     : Bytes       -- backing array of the reusable buffer as of its last Reset
  dstores   : List Bytes  -- backing arrays of the local buffers of finished SendDirect calls, newest first
  answers   : List Bool   -- environment: what the client will answer to the hand-overs to come
                          -- (`true` = nil error; an exhausted list answers `true`)

/-- a fresh sender; `ans` = the client's future answers (any list: the theorems quantify over it) -/
def init (st : Settings) (ans : List Bool := []) : State ρ :=
  { settings := st, queue := [], buf := [], bufLen := 0, count := 0, firstTime := 0,
    stopped := false, store := [], dstores := [], answers := ans }

/-- bytes of a batch whose records are listed newest first -/
def bytesOf (C : Codec ρ) (bufRev : List ρ) : Bytes := encMany C.enc bufRev.reverse

/-! ### doZip, sendAndClear, Append -/

/-- `NewZipPack` + `RecordCount`/`Records` assignments + `doZip` -/
def mkPack (v : Variant) (Z : Zip) (st : Settings) (src : Src) (alias : Ref)
    (recs : List ρ) (count : Nat) (bytes : Bytes) : Pack ρ :=
  if (bytes.length : Int) < st.zipMin then
    { src, recs, count, zipped := false, payload := bytes,
      ref := if v.copyOnHandOver then .owned else alias }
  else
    { src, recs, count, zipped := true, payload := Z.zip bytes, ref := .owned }

def sendAndClear (v : Variant) (Z : Zip) (C : Codec ρ) (s : State ρ) : State ρ × List (Pack ρ) :=
  if s.bufLen = 0 then (s, [])
  else
    let recs := s.buf.reverse
    let bytes := encMany C.enc recs
    let p := mkPack v Z s.settings .shared .sharedBuf recs s.count bytes
    -- `if err := this.client.SendFlush(p, true); err != nil { this.Log.Errorf(…) }`
    let ok := s.answers.headD true
    let s1 := { s with answers := s.answers.tail }
    if !ok && !v.resetOnError then (s1, [p])
    else
      ({ s1 with buf := [], bufLen := 0, count := 0, firstTime := 0,
                 store := bytes ++ s.store.drop bytes.length },
       [p])

/-- `Append` when the record serialises -/
def appendOk (v : Variant) (Z : Zip) (C : Codec ρ) (s : State ρ) (r : ρ) : State ρ × List (Pack ρ) :=
  let s1 := { s with buf := r :: s.buf, bufLen := s.bufLen + (C.enc r).length, count := s.count + 1 }
  if s.firstTime = 0 then
    let s2 := { s1 with firstTime := C.time r }
    if s.settings.maxBuf ≤ (s2.bufLen : Int) then sendAndClear v Z C s2 else (s2, [])
  else
    if s.settings.maxBuf ≤ (s1.bufLen : Int) ∨ s.settings.maxWait ≤ C.time r - s.firstTime then
      sendAndClear v Z C s1
    else (s1, [])

/-- `Append`: `defer recover()`; a record whose serialisation panics is dropped and — the count is
    incremented only after the write — leaves no trace in the batch -/
def appendRec (v : Variant) (Z : Zip) (C : Codec ρ) (s : State ρ) (r : ρ) : State ρ × List (Pack ρ) :=
  if C.fails r then
    (if v.countAfterWrite then s else { s with count := s.count + 1 }, [])
  else appendOk v Z C s r

/-! ### queue, background loop -/

/-- `RequestQueue.Put` succeeds -/
def canPut (s : State ρ) : Bool := decide (s.settings.queueCap ≤ 0) || decide ((s.queue.length : Int) < s.settings.queueCap)

def add (s : State ρ) (r : ρ) : State ρ × List (Pack ρ) :=
  if canPut s then ({ s with queue := s.queue ++ [r] }, []) else (s, [])

/-- one iteration of `run` while the context is live -/
def step (v : Variant) (Z : Zip) (C : Codec ρ) (s : State ρ) : State ρ × List (Pack ρ) :=
  if s.stopped then (s, [])
  else match s.queue with
    | r :: q => appendRec v Z C { s with queue := q } r
    | [] => sendAndClear v Z C s

/-- `Append` every record of `q` in turn -/
def drain (v : Variant) (Z : Zip) (C : Codec ρ) : State ρ → List ρ → State ρ × List (Pack ρ)
  | s, [] => (s, [])
  | s, r :: q =>
    let (s1, o1) := appendRec v Z C s r
    let (s2, o2) := drain v Z C s1 q
    (s2, o1 ++ o2)

/-- cancellation observed by `run`: (drain,) final flush, return -/
def stop (v : Variant) (Z : Zip) (C : Codec ρ) (s : State ρ) : State ρ × List (Pack ρ) :=
  if s.stopped then (s, [])
  else
    let d := if v.drainOnStop then drain v Z C { s with queue := [] } s.queue else (s, [])
    let f := sendAndClear v Z C d.1
    ({ f.1 with stopped := true }, d.2 ++ f.2)

/-! ### SendDirect -/

structure DLoop (ρ : Type) where
  cur   : List ρ          -- records in the local buffer, newest first
  len   : Nat             -- buffer.Len()
  count : Nat             -- p.RecordCount
  store : Bytes           -- backing array of the local buffer as of its last Reset
  out   : List (Pack ρ)   -- packs handed over so far, newest first
  ans   : List Bool       -- client answers still to come (an error is logged, nothing else)

def directStep (v : Variant) (Z : Zip) (C : Codec ρ) (st : Settings) (k : Nat) (d : DLoop ρ) (r : ρ) : DLoop ρ :=
  let cur := r :: d.cur
  let len := d.len + (C.enc r).length
  let count := d.count + 1
  if st.maxBuf ≤ (len : Int) then
    let recs := cur.reverse
    let bytes := encMany C.enc recs
    { cur := [], len := 0, count := 0, store := bytes ++ d.store.drop bytes.length,
      out := mkPack v Z st .direct (.directBuf k) recs count bytes :: d.out, ans := d.ans.tail }
  else { d with cur, len, count }

/-- the `for _, it := range arr` loop -/
def directLoop (v : Variant) (Z : Zip) (C : Codec ρ) (st : Settings) (k : Nat) (ans : List Bool) (rs : List ρ) : DLoop ρ :=
  rs.foldl (directStep v Z C st k) { cur := [], len := 0, count := 0, store := [], out := [], ans := ans }

/-- the `if buffer.Len() > 0 { … }` after the loop -/
def directFinish (v : Variant) (Z : Zip) (C : Codec ρ) (s : State ρ) (k : Nat) (d : DLoop ρ) : State ρ × List (Pack ρ) :=
  if d.len > 0 then
    let recs := d.cur.reverse
    let bytes := encMany C.enc recs
    ({ s with dstores := (bytes ++ d.store.drop bytes.length) :: s.dstores, answers := d.ans.tail },
     (mkPack v Z s.settings .direct (.directBuf k) recs d.count bytes :: d.out).reverse)
  else ({ s with dstores := d.store :: s.dstores, answers := d.ans }, d.out.reverse)

def sendDirect (v : Variant) (Z : Zip) (C : Codec ρ) (s : State ρ) (rs : List ρ) : State ρ × List (Pack ρ) :=
  directFinish v Z C s s.dstores.length (directLoop v Z C s.settings s.dstores.length s.answers rs)

/-! ### histories -/

inductive In (ρ : Type)
  | add (r : ρ)                -- Add: Queue.Put
  | step                       -- one iteration of the background loop
  | stop                       -- cancel + the loop's Done branch
  | append (r : ρ)             -- Append called directly (sender used without its queue)
  | sendDirect (rs : List ρ)
  | applyConfig (c : Conf)

def stepIn (v : Variant) (Z : Zip) (C : Codec ρ) (s : State ρ) : In ρ → State ρ × List (Pack ρ)
  | .add r => add s r
  | .step => step v Z C s
  | .stop => stop v Z C s
  | .append r => appendRec v Z C s r
  | .sendDirect rs => sendDirect v Z C s rs
  | .applyConfig c => ({ s with settings := c.resolve }, [])

/-- run a history; every emitted pack is paired with the settings in force when it was built -/
def run (v : Variant) (Z : Zip) (C : Codec ρ) : State ρ → List (In ρ) → State ρ × List (Settings × Pack ρ)
  | s, [] => (s, [])
  | s, i :: is =>
    let (s1, o1) := stepIn v Z C s i
    let (s2, o2) := run v Z C s1 is
    (s2, o1.map (fun p => (s.settings, p)) ++ o2)

def emitted (v : Variant) (Z : Zip) (C : Codec ρ) (s : State ρ) (h : List (In ρ)) : List (Pack ρ) :=
  (run v Z C s h).2.map (·.2)

def final (v : Variant) (Z : Zip) (C : Codec ρ) (s : State ρ) (h : List (In ρ)) : State ρ :=
  (run v Z C s h).1

/-! ### what a retained pack shows later -/

/-- current content of the reusable buffer's backing array -/
def backing (C : Codec ρ) (s : State ρ) : Bytes := bytesOf C s.buf ++ s.store.drop s.bufLen

/-- `p.Records` as a client that kept the pack reads it in state `s` -/
def view (C : Codec ρ) (s : State ρ) (p : Pack ρ) : Bytes :=
  match p.ref with
  | .owned => p.payload
  | .sharedBuf => (backing C s).take p.payload.length
  | .directBuf k => ((s.dstores.reverse)[k]?.getD []).take p.payload.length

/-! ### ghost projections of a history (specification side) -/

/-- records accepted by the queue, in order -/
def accepted (v : Variant) (Z : Zip) (C : Codec ρ) : State ρ → List (In ρ) → List ρ
  | _, [] => []
  | s, i :: is =>
    (match i with | .add r => if canPut s then [r] else [] | _ => []) ++ accepted v Z C (stepIn v Z C s i).1 is

/-- records passed to `Append` directly, in order -/
def directAppends : List (In ρ) → List ρ
  | [] => []
  | .append r :: is => r :: directAppends is
  | _ :: is => directAppends is

/-- records passed to `SendDirect`, in order -/
def directSent : List (In ρ) → List ρ
  | [] => []
  | .sendDirect rs :: is => rs ++ directSent is
  | _ :: is => directSent is

def sharedRecs (ps : List (Pack ρ)) : List ρ := (ps.filter (fun p => p.src == .shared)).flatMap (·.recs)
def directRecs (ps : List (Pack ρ)) : List ρ := (ps.filter (fun p => p.src == .direct)).flatMap (·.recs)

end ZipSender
