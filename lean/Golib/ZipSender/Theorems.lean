/-
  Golib.ZipSender.Theorems — the derived facts the property file C16 refers to.
-/
import Golib.ZipSender.History

namespace ZipSender

open Prim (encMany decMany)

variable {ρ : Type}

/-! ### decoding side: assumptions about gzip and the record codec, as structures -/

/-- gzip is assumed lossless: `UnZip (DoZip b) = b` -/
structure Unzip (Z : Zip) where
  unzip : Bytes → Option Bytes
  rt : ∀ b, unzip (Z.zip b) = some b

/-- a decoder for the record codec: reading an encoded record delivers an *observation* of it
    (`obs r`: the record itself for a hand-made codec, the carried fields for the LogSinkPack
    layout of C03) and leaves exactly what followed.  `wf` are the writer's explicit guards. -/
structure Decoder (C : Codec ρ) where
  O : Type
  dec : Bytes → Option (O × Bytes)
  obs : ρ → O
  wf : ρ → Prop
  rt : ∀ r rest, wf r → dec (C.enc r ++ rest) = some (obs r, rest)

/-- a decoder written in the parser monad that returns the record itself -/
def Decoder.ofP {C : Codec ρ} (dec : P ρ) (wf : ρ → Prop)
    (rt : ∀ r rest, wf r → P.run dec (C.enc r ++ rest) = some (r, rest)) : Decoder C :=
  { O := ρ, dec := P.run dec, obs := id, wf := wf, rt := rt }

/-- `for i := 0; i < RecordCount; i++ { ReadPack(in) }` -/
def readN (dec : Bytes → Option (α × Bytes)) : Nat → Bytes → Option (List α × Bytes)
  | 0, bs => some ([], bs)
  | n + 1, bs =>
    match dec bs with
    | none => none
    | some (a, r) =>
      match readN dec n r with
      | none => none
      | some (as, r') => some (a :: as, r')

theorem readN_encMany {C : Codec ρ} (D : Decoder C) (rs : List ρ) (rest : Bytes) (h : ∀ r ∈ rs, D.wf r) :
    readN D.dec rs.length (encMany C.enc rs ++ rest) = some (rs.map D.obs, rest) := by
  induction rs with
  | nil => rfl
  | cons r rs ih =>
    simp only [List.length_cons, readN, encMany, List.append_assoc, List.map_cons]
    rw [D.rt r _ (h r (by simp))]
    simp only []
    rw [ih (fun q hq => h q (by simp [hq]))]

/-- what a receiver does with a pack: decompress when flagged, then read `count` records -/
def decodePack {Z : Zip} {C : Codec ρ} (U : Unzip Z) (D : Decoder C) (p : Pack ρ) : Option (List D.O × Bytes) :=
  (if p.zipped then U.unzip p.payload else some p.payload).bind (fun raw => readN D.dec p.count raw)

theorem decode_built {v : Variant} {Z : Zip} {C : Codec ρ} (U : Unzip Z) (D : Decoder C) {st : Settings} {p : Pack ρ}
    (hb : Built v Z C st p) (hc : p.count = p.recs.length) (hw : ∀ r ∈ p.recs, D.wf r) :
    decodePack U D p = some (p.recs.map D.obs, []) := by
  unfold decodePack
  have hp := hb.payload
  have hd : readN D.dec p.count (encMany C.enc p.recs) = some (p.recs.map D.obs, []) := by
    have := readN_encMany D p.recs [] hw
    rw [hc]; simpa using this
  by_cases hz : p.zipped = true
  · rw [hp]; simp only [hz, if_true, U.rt, Option.bind_some]; exact hd
  · rw [hp]; simp only [hz, Bool.false_eq_true, if_false, Option.bind_some]; exact hd

section
variable (v : Variant) (Z : Zip) (C : Codec ρ)

/-! ### settings in force -/

def isConfig : In ρ → Bool
  | .applyConfig _ => true
  | _ => false

theorem stepIn_settings (s : State ρ) (i : In ρ) (hr : v.sound = true) (h : isConfig i = false) :
    (stepIn v Z C s i).1.settings = s.settings := by
  cases i with
  | add r => simp only [stepIn, add]; split <;> rfl
  | step => exact (step_spec v Z C s hr).1
  | stop => exact (stop_spec v Z C s hr).1
  | append r => exact (appendRec_spec v Z C s r hr).1
  | sendDirect rs => exact (sendDirect_spec v Z C s rs).1
  | applyConfig c => simp [isConfig] at h

theorem settings_const (h : List (In ρ)) (hr : v.sound = true) : ∀ s : State ρ, (∀ i ∈ h, isConfig i = false) →
    (final v Z C s h).settings = s.settings ∧ ∀ x ∈ (run v Z C s h).2, x.1 = s.settings := by
  induction h with
  | nil => intro s _; exact ⟨rfl, by simp [run]⟩
  | cons i is ih =>
    intro s hc
    have e := stepIn_settings v Z C s i hr (hc i (by simp))
    obtain ⟨f1, f2⟩ := ih (stepIn v Z C s i).1 (fun j hj => hc j (by simp [hj]))
    rw [final_cons, run_cons]
    refine ⟨by rw [f1, e], ?_⟩
    intro x hx
    rcases List.mem_append.mp hx with h1 | h1
    · obtain ⟨p, _, rfl⟩ := List.mem_map.mp h1; rfl
    · rw [f2 x h1, e]

/-! ### stop -/

theorem stopped_inert (s : State ρ) (hs : s.stopped = true) :
    step v Z C s = (s, []) ∧ stop v Z C s = (s, []) := by
  unfold step stop; simp [hs]

theorem stop_stopped (s : State ρ) : (stop v Z C s).1.stopped = true := by
  unfold stop
  by_cases hs : s.stopped = true
  · rw [if_pos hs]; exact hs
  · rw [if_neg hs]

theorem stop_flushes (s : State ρ) (hr : v.sound = true) (hs : s.stopped = false) : (stop v Z C s).1.bufLen = 0 := by
  unfold stop
  rw [if_neg (by simp [hs])]
  exact (sendAndClear_spec v Z C _ hr).2.2.2.2.1

theorem stop_drains (hv : v.drainOnStop = true) (s : State ρ) (hr : v.sound = true) (hs : s.stopped = false) :
    (stop v Z C s).1.queue = [] := by
  unfold stop
  rw [if_neg (by simp [hs])]
  simp only [hv, if_true]
  show (sendAndClear v Z C _).1.queue = []
  rw [(sendAndClear_spec v Z C _ hr).2.1, (drain_spec v Z C s.queue hr _).2.1]

/-- with non-empty encodings an empty byte buffer holds no records -/
theorem buf_nil_of_len (hne : ∀ r, C.enc r ≠ []) (s : State ρ) (hw : WF C s) (h0 : s.bufLen = 0) : s.buf = [] := by
  have hb : bytesOf C s.buf = [] := by
    have := hw.2; rw [h0] at this
    exact List.eq_nil_of_length_eq_zero this.symm
  have := encMany_eq_nil C.enc hne _ hb
  simpa using this

theorem directAppends_append (a b : List (In ρ)) : directAppends (a ++ b) = directAppends a ++ directAppends b := by
  induction a with
  | nil => rfl
  | cons i is ih => rw [List.cons_append, directAppends_cons, directAppends_cons i is, ih, List.append_assoc]

/-- after a stop every *serialisable* record the queue accepted or that was appended directly has
    been emitted: the emitted records are the good ones of an order-preserving merge of the two -/
theorem all_emitted_at_stop (hv : v.drainOnStop = true) (hr : v.sound = true) (hne : ∀ r, C.enc r ≠ []) (st : Settings) (ans : List Bool) (h : List (In ρ))
    (hs : (final v Z C (init st ans) h).stopped = false) :
    ∃ fed, Interleave (accepted v Z C (init st ans) (h ++ [.stop])) (directAppends h) fed ∧
      sharedRecs (emitted v Z C (init st ans) (h ++ [.stop])) = good C fed := by
  obtain ⟨deq, fed, h1, h2, h3⟩ := history_inv v Z C (h ++ [.stop]) hr (init st ans)
  have hf : final v Z C (init st ans) (h ++ [.stop]) = (stop v Z C (final v Z C (init st ans) h)).1 := by
    rw [final_append]; rfl
  have hw : WF C (final v Z C (init st ans) (h ++ [.stop])) := (history_WF v Z C _ hr _ (WF_init C st ans)).1
  have hq : (final v Z C (init st ans) (h ++ [.stop])).queue = [] := by rw [hf]; exact stop_drains v Z C hv _ hr hs
  have hl : (final v Z C (init st ans) (h ++ [.stop])).bufLen = 0 := by rw [hf]; exact stop_flushes v Z C _ hr hs
  have hb := buf_nil_of_len C hne _ hw hl
  rw [hq, List.append_nil] at h1
  rw [hb] at h3
  have q0 : (init st ans : State ρ).queue = [] := rfl
  have b0 : (init st ans : State ρ).buf = [] := rfl
  rw [q0, List.nil_append] at h1
  rw [b0] at h3
  simp only [List.nil_append, List.reverse_nil, List.append_nil] at h3
  rw [directAppends_append] at h2
  simp only [directAppends, List.append_nil] at h2
  exact ⟨fed, by rw [← h1]; exact h2, h3⟩

/-! ### flush conditions -/

theorem append_flushes (s : State ρ) (r : ρ) (hr : v.sound = true) (hok : C.fails r = false) (hm : mustFlush C s r) : (appendRec v Z C s r).1.bufLen = 0 := by
  rw [appendRec_ok v Z C s r hok, appendOk_eq, if_pos hm]
  exact (sendAndClear_spec v Z C _ hr).2.2.2.2.1

theorem append_flushes_pack (s : State ρ) (r : ρ) (hr : v.sound = true) (hok : C.fails r = false) (hm : mustFlush C s r) (hpos : 0 < s.bufLen + (C.enc r).length) :
    (appendRec v Z C s r).1.buf = [] ∧
    (appendRec v Z C s r).2.map (·.recs) = [s.buf.reverse ++ [r]] := by
  rw [appendRec_ok v Z C s r hok, appendOk_eq, if_pos hm]
  have hne : (appended C s r).bufLen ≠ 0 := by
    show s.bufLen + (C.enc r).length ≠ 0
    omega
  rw [sendAndClear_eq v Z C _ hr hne]
  simp [appended, flushed, flushPack]

theorem append_buffers (s : State ρ) (r : ρ) (hok : C.fails r = false) (hm : ¬ mustFlush C s r) :
    (appendRec v Z C s r).2 = [] ∧ (appendRec v Z C s r).1.buf = r :: s.buf := by
  rw [appendRec_ok v Z C s r hok, appendOk_eq, if_neg hm]; exact ⟨rfl, rfl⟩

theorem idle_flushes (s : State ρ) (hr : v.sound = true) (hs : s.stopped = false) (hq : s.queue = []) : (step v Z C s).1.bufLen = 0 := by
  unfold step
  rw [if_neg (by simp [hs]), hq]
  exact (sendAndClear_spec v Z C _ hr).2.2.2.2.1

/-! ### ownership -/

theorem all_owned (hv : v.copyOnHandOver = true) (hr : v.sound = true) (h : List (In ρ)) (s : State ρ) :
    ∀ p ∈ emitted v Z C s h, p.ref = .owned := by
  intro p hp
  obtain ⟨st, hb⟩ := emitted_built v Z C h s hr p hp
  exact hb.owned hv

theorem zipped_owned (hr : v.sound = true) (h : List (In ρ)) (s : State ρ) :
    ∀ p ∈ emitted v Z C s h, p.zipped = true → p.ref = .owned := by
  intro p hp hz
  obtain ⟨st, hb⟩ := emitted_built v Z C h s hr p hp
  exact hb.zipped_owned hz

theorem view_owned (s : State ρ) (p : Pack ρ) (h : p.ref = .owned) : view C s p = p.payload := by
  unfold view; rw [h]

/-- right after a flush the client sees what it was handed, alias or not -/
theorem view_at_handover (s : State ρ) (hr : v.sound = true) : ∀ p ∈ (sendAndClear v Z C s).2,
    view C (sendAndClear v Z C s).1 p = p.payload := by
  by_cases h : s.bufLen = 0
  · rw [sendAndClear_noop v Z C s h]; simp
  · rw [sendAndClear_eq v Z C s hr h]
    intro p hp
    simp only [List.mem_singleton] at hp
    subst hp
    unfold flushPack mkPack
    split
    · by_cases hc : v.copyOnHandOver = true
      · simp [view, hc]
      · simp [view, hc, backing, bytesOf_nil, flushed]
    · simp [view]

end

/-! ### construction and configuration -/

theorem resolve_fixed (o : Settings) : resolve .fixed o =
    ⟨if o.maxWait > 0 then o.maxWait else 5000, if o.queueCap > 0 then o.queueCap else 1000,
     if o.maxBuf > 0 then o.maxBuf else 65536, if o.zipMin > 0 then o.zipMin else 100⟩ := by
  simp only [resolve, Variant.fixed, if_true, resolveBy, getInstanceFixed, defaultAssigns, List.cons_append,
    List.nil_append, List.foldl_cons, List.foldl_nil, applyAssign, Settings.set, Settings.get, Bool.true_and,
    Bool.not_eq_true']
  by_cases h1 : o.maxWait > 0 <;> by_cases h2 : o.queueCap > 0 <;> by_cases h3 : o.maxBuf > 0 <;>
    by_cases h4 : o.zipMin > 0 <;> simp [h1, h2, h3, h4]

theorem resolve_found (o : Settings) : resolve .asFound o = o := by
  simp [resolve, Variant.asFound, resolveBy, getInstanceFound, defaultAssigns, applyAssign, Settings.set, Settings.get]

end ZipSender
