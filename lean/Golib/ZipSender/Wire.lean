/-
  Golib.ZipSender.Wire — the emitted ZipPack as it travels and as it is received.

  What the TCP client does with a pack handed to it is `pack.WritePack(dout, p)`; the receiving
  side calls `pack.ReadPack`, which dispatches on the type code (PACK_ZIP = 0x170b) to
  `ZipPack.Read`, decompresses `Records` when `Status == ZIPPED` and calls `ZipPack.GetRecords`.

    zipRec / zipPV   the ZipPack object (header, Status, RecordCount, Records) as a `Layout.Rec`;
                     its writer and reader layouts are the ones `xlate/c03` regenerates from
                     ZipPack.Write / ZipPack.Read on every run (`Gen.Packs.ZipPack.w / .r`)
    wire             `pack.WritePack` of it: 16-bit type code ++ header ++ status byte ++ decimal
                     record count ++ blob
    unwire           `pack.ReadPack` with the factory entry for the type code, projected to the
                     fields a receiver uses
    setRecords       `ZipPack.SetRecords(items)` (C03's `Zip.setRecords`), as the sender's
                     uncompressed packs turn out to be

  Definitions are executable (the driver runs `wire` / `unwire`); the facts are below them.
-/
import Golib.Packs.Container
import Golib.Gen.PackLayouts

namespace ZipSender.Wire

open Layout Packs

/-- PACK_ZIP = 0x170b -/
def zipCode : Int := 5899

/-- a ZipPack object: the AbstractPack header and the three fields of ZipPack.go -/
def zipRec (h : Hdr) (status count : Int) (records : Bytes) : Rec := fun k =>
  if k = "Pcode" then .int h.pcode else if k = "Oid" then .int h.oid
  else if k = "Okind" then .int h.okind else if k = "Onode" then .int h.onode
  else if k = "Time" then .int h.time
  else if k = "Status" then .int status else if k = "RecordCount" then .int count
  else if k = "Records" then .bytes records else .int 0

def zipPV (h : Hdr) (status count : Int) (records : Bytes) : PV :=
  ⟨zipCode, Gen.Packs.ZipPack.w, Gen.Packs.ZipPack.r, zipRec h status count records⟩

/-- `pack.WritePack(dout, zipPack)` -/
def wire (h : Hdr) (status count : Int) (records : Bytes) : Bytes := writePack (zipPV h status count records)

/-- `CreatePack`: the factory constructs a ZipPack for its type code -/
def facZ : Factory := fun c => if c = zipCode then some Gen.Packs.ZipPack.r else none

/-- what a receiver takes from a pack that `ReadPack` delivered -/
structure Received where
  hdr : Hdr
  status : Int
  count : Int
  records : Bytes
deriving Repr

def getInt (o : Out) (k : String) : Int := ((o.lookup k).getD (.int 0)).toInt
def getBytes (o : Out) (k : String) : Bytes :=
  match o.lookup k with
  | some (.bytes b) => b
  | _ => []

def received (o : Out) : Received :=
  ⟨⟨getInt o "Pcode", getInt o "Oid", getInt o "Okind", getInt o "Onode", getInt o "Time"⟩,
   getInt o "Status", getInt o "RecordCount", getBytes o "Records"⟩

/-- `pack.ReadPack(din)` for a ZipPack on the wire: the fields read and what follows in the stream -/
def unwire (fac : Factory) (bs : Bytes) : Option (Received × Bytes) :=
  match readPack fac bs with
  | some ((code, o), rest) => if code = zipCode then some (received o, rest) else none
  | none => none

end ZipSender.Wire
