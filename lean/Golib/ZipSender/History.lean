/-
  Golib.ZipSender.History — the invariants of Lemmas.lean lifted to single inputs and to
  whole histories.
-/
import Golib.ZipSender.Lemmas

namespace ZipSender

open Prim (encMany)

variable {ρ : Type}

section
variable (v : Variant) (Z : Zip) (C : Codec ρ)

/-! ### unfolding `run` -/

theorem run_cons (s : State ρ) (i : In ρ) (is : List (In ρ)) :
    run v Z C s (i :: is) =
      ((run v Z C (stepIn v Z C s i).1 is).1,
       (stepIn v Z C s i).2.map (fun p => (s.settings, p)) ++ (run v Z C (stepIn v Z C s i).1 is).2) := by
  simp only [run]

theorem emitted_nil (s : State ρ) : emitted v Z C s [] = [] := rfl
theorem final_nil (s : State ρ) : final v Z C s [] = s := rfl

theorem emitted_cons (s : State ρ) (i : In ρ) (is : List (In ρ)) :
    emitted v Z C s (i :: is) = (stepIn v Z C s i).2 ++ emitted v Z C (stepIn v Z C s i).1 is := by
  simp [emitted, run_cons, List.map_append, List.map_map, Function.comp_def]

theorem final_cons (s : State ρ) (i : In ρ) (is : List (In ρ)) :
    final v Z C s (i :: is) = final v Z C (stepIn v Z C s i).1 is := by
  simp [final, run_cons]

theorem final_append (h h' : List (In ρ)) : ∀ s : State ρ,
    final v Z C s (h ++ h') = final v Z C (final v Z C s h) h' := by
  induction h with
  | nil => intro s; rfl
  | cons i is ih => intro s; simp only [List.cons_append, final_cons]; exact ih _

theorem emitted_append (h h' : List (In ρ)) : ∀ s : State ρ,
    emitted v Z C s (h ++ h') = emitted v Z C s h ++ emitted v Z C (final v Z C s h) h' := by
  induction h with
  | nil => intro s; simp [emitted_nil, final_nil]
  | cons i is ih => intro s; simp only [List.cons_append, emitted_cons, final_cons, ih, List.append_assoc]

/-! ### the background loop and stop -/

theorem step_spec (s : State ρ) (hr : v.sound = true) :
    let x := step v Z C s
    x.1.settings = s.settings ∧ x.1.stopped = s.stopped ∧ directRecs x.2 = [] ∧
    (∀ p ∈ x.2, Built v Z C s.settings p) ∧
    (WF C s → WF C x.1 ∧ ∀ p ∈ x.2, p.count = p.recs.length) ∧
    ∃ d0, d0 ++ x.1.queue = s.queue ∧ sharedRecs x.2 ++ x.1.buf.reverse = s.buf.reverse ++ good C d0 := by
  unfold step
  by_cases hs : s.stopped = true
  · rw [if_pos hs]
    exact ⟨rfl, rfl, rfl, by simp, fun hw => ⟨hw, by simp⟩, [], by simp, by simp⟩
  · rw [if_neg hs]
    cases hq : s.queue with
    | nil =>
      obtain ⟨a1, a2, a3, _, _, a6, a7, a8, a9⟩ := sendAndClear_spec v Z C s hr
      exact ⟨a1, a3, a7, a8, a9, [], by simp [a2, hq], by simp [a6]⟩
    | cons r q =>
      obtain ⟨a1, a2, a3, _, a5, a6, a7, a8⟩ := appendRec_spec v Z C { s with queue := q } r hr
      refine ⟨a1, a3, a6, a7, ?_, [r], ?_, a5⟩
      · intro hw; exact a8 hw
      · simp [a2]

theorem stop_spec (s : State ρ) (hr : v.sound = true) :
    let x := stop v Z C s
    x.1.settings = s.settings ∧ directRecs x.2 = [] ∧
    (∀ p ∈ x.2, Built v Z C s.settings p) ∧
    (WF C s → WF C x.1 ∧ ∀ p ∈ x.2, p.count = p.recs.length) ∧
    ∃ d0, d0 ++ x.1.queue = s.queue ∧ sharedRecs x.2 ++ x.1.buf.reverse = s.buf.reverse ++ good C d0 := by
  unfold stop
  by_cases hs : s.stopped = true
  · rw [if_pos hs]
    exact ⟨rfl, rfl, by simp, fun hw => ⟨hw, by simp⟩, [], by simp, by simp⟩
  · rw [if_neg hs]
    by_cases hd : v.drainOnStop = true
    · simp only [hd, if_true]
      obtain ⟨b1, b2, _, _, b5, b6, b7, b8⟩ := drain_spec v Z C s.queue hr { s with queue := [] }
      obtain ⟨a1, a2, _, _, _, a6, a7, a8, a9⟩ := sendAndClear_spec v Z C (drain v Z C { s with queue := [] } s.queue).1 hr
      refine ⟨by rw [a1, b1], ?_, ?_, ?_, s.queue, ?_, ?_⟩
      · rw [directRecs_append, a7, b6]; rfl
      · intro p hp
        rcases List.mem_append.mp hp with h | h
        · exact b7 p h
        · have := a8 p h; rwa [b1] at this
      · intro hw
        obtain ⟨w1, c1⟩ := b8 hw
        obtain ⟨w2, c2⟩ := a9 w1
        refine ⟨w2, ?_⟩
        intro p hp
        rcases List.mem_append.mp hp with h | h
        · exact c1 p h
        · exact c2 p h
      · show _ ++ (sendAndClear v Z C _).1.queue = _
        rw [a2, b2]; simp
      · show sharedRecs _ ++ (sendAndClear v Z C _).1.buf.reverse = _
        rw [sharedRecs_append, List.append_assoc, a6, b5]
    · simp only [hd, Bool.false_eq_true, if_false]
      obtain ⟨a1, a2, _, _, _, a6, a7, a8, a9⟩ := sendAndClear_spec v Z C s hr
      refine ⟨a1, by simpa using a7, by simpa using a8, ?_, [], ?_, ?_⟩
      · intro hw
        obtain ⟨w, c⟩ := a9 hw
        exact ⟨w, by simpa using c⟩
      · show _ ++ (sendAndClear v Z C s).1.queue = _
        rw [a2]; rfl
      · show sharedRecs _ ++ (sendAndClear v Z C s).1.buf.reverse = _
        simpa using a6

/-! ### one input -/

/-- records newly accepted by the queue on input `i` -/
def acc0 (s : State ρ) : In ρ → List ρ
  | .add r => if canPut s then [r] else []
  | _ => []

theorem accepted_cons (s : State ρ) (i : In ρ) (is : List (In ρ)) :
    accepted v Z C s (i :: is) = acc0 s i ++ accepted v Z C (stepIn v Z C s i).1 is := by
  cases i <;> simp [accepted, acc0]

theorem directAppends_cons (i : In ρ) (is : List (In ρ)) :
    directAppends (i :: is) = directAppends [i] ++ directAppends is := by
  cases i <;> simp [directAppends]

theorem directSent_cons (i : In ρ) (is : List (In ρ)) :
    directSent (i :: is) = directSent [i] ++ directSent is := by
  cases i <;> simp [directSent]

theorem stepIn_inv (s : State ρ) (i : In ρ) (hr : v.sound = true) :
    ∃ d0 f0, d0 ++ (stepIn v Z C s i).1.queue = s.queue ++ acc0 s i ∧
      Interleave d0 (directAppends [i]) f0 ∧
      sharedRecs (stepIn v Z C s i).2 ++ (stepIn v Z C s i).1.buf.reverse = s.buf.reverse ++ good C f0 := by
  cases i with
  | add r =>
    refine ⟨[], [], ?_, .nil, ?_⟩
    · simp only [stepIn, add, acc0]; split <;> simp
    · simp only [stepIn, add]; split <;> simp
  | step =>
    obtain ⟨_, _, _, _, _, d0, h1, h2⟩ := step_spec v Z C s hr
    exact ⟨d0, d0, by simpa [stepIn, acc0] using h1, Interleave.left_only d0, h2⟩
  | stop =>
    obtain ⟨_, _, _, _, d0, h1, h2⟩ := stop_spec v Z C s hr
    exact ⟨d0, d0, by simpa [stepIn, acc0] using h1, Interleave.left_only d0, h2⟩
  | append r =>
    obtain ⟨_, a2, _, _, a5, _⟩ := appendRec_spec v Z C s r hr
    exact ⟨[], [r], by simpa [stepIn, acc0] using a2, Interleave.right_only [r], a5⟩
  | sendDirect rs =>
    obtain ⟨_, a2, _, a4, _, _, _, _, a9, _⟩ := sendDirect_spec v Z C s rs
    refine ⟨[], [], by simpa [stepIn, acc0] using a2, .nil, ?_⟩
    simp only [stepIn]; rw [a9, a4]; simp
  | applyConfig c =>
    exact ⟨[], [], by simp [stepIn, acc0], .nil, by simp [stepIn]⟩

theorem stepIn_built (s : State ρ) (i : In ρ) (hr : v.sound = true) : ∀ p ∈ (stepIn v Z C s i).2, Built v Z C s.settings p := by
  cases i with
  | add r => simp only [stepIn, add]; split <;> simp
  | step => exact (step_spec v Z C s hr).2.2.2.1
  | stop => exact (stop_spec v Z C s hr).2.2.1
  | append r => exact (appendRec_spec v Z C s r hr).2.2.2.2.2.2.1
  | sendDirect rs => exact (sendDirect_spec v Z C s rs).2.2.2.2.2.2.2.2.2.2.1
  | applyConfig c => simp [stepIn]

theorem stepIn_WF (s : State ρ) (i : In ρ) (hr : v.sound = true) (hw : WF C s) :
    WF C (stepIn v Z C s i).1 ∧ ∀ p ∈ (stepIn v Z C s i).2, p.count = p.recs.length := by
  cases i with
  | add r => simp only [stepIn, add]; split <;> exact ⟨hw, by simp⟩
  | step => exact (step_spec v Z C s hr).2.2.2.2.1 hw
  | stop => exact (stop_spec v Z C s hr).2.2.2.1 hw
  | append r => exact (appendRec_spec v Z C s r hr).2.2.2.2.2.2.2 hw
  | sendDirect rs =>
    obtain ⟨_, _, _, a4, a5, a6, _, _, _, _, _, a12⟩ := sendDirect_spec v Z C s rs
    refine ⟨?_, a12⟩
    simp only [stepIn]
    unfold WF at hw ⊢
    rw [a4, a5, a6]; exact hw
  | applyConfig c => exact ⟨hw, by simp [stepIn]⟩

theorem stepIn_direct (hne : ∀ r, C.enc r ≠ []) (s : State ρ) (i : In ρ) (hr : v.sound = true) :
    directRecs (stepIn v Z C s i).2 = directSent [i] := by
  cases i with
  | add r => simp only [stepIn, add]; split <;> simp [directSent]
  | step => exact (step_spec v Z C s hr).2.2.1
  | stop => exact (stop_spec v Z C s hr).2.1
  | append r => exact (appendRec_spec v Z C s r hr).2.2.2.2.2.1
  | sendDirect rs =>
    have := (sendDirect_spec v Z C s rs).2.2.2.2.2.2.2.2.2.1 hne
    simpa [stepIn, directSent] using this
  | applyConfig c => simp [stepIn, directSent]

/-! ### whole histories -/

/-- FIFO queue, no loss, no duplication, order per producer preserved -/
theorem history_inv (h : List (In ρ)) (hr : v.sound = true) : ∀ s : State ρ,
    ∃ deq fed, deq ++ (final v Z C s h).queue = s.queue ++ accepted v Z C s h ∧
      Interleave deq (directAppends h) fed ∧
      sharedRecs (emitted v Z C s h) ++ (final v Z C s h).buf.reverse = s.buf.reverse ++ good C fed := by
  induction h with
  | nil => intro s; exact ⟨[], [], by simp [final_nil, accepted], .nil, by simp [emitted_nil, final_nil]⟩
  | cons i is ih =>
    intro s
    obtain ⟨d0, f0, h1, h2, h3⟩ := stepIn_inv v Z C s i hr
    obtain ⟨d1, f1, g1, g2, g3⟩ := ih (stepIn v Z C s i).1
    refine ⟨d0 ++ d1, f0 ++ f1, ?_, ?_, ?_⟩
    · rw [final_cons, accepted_cons, List.append_assoc, g1, ← List.append_assoc, h1, List.append_assoc]
    · rw [directAppends_cons]; exact h2.append g2
    · rw [final_cons, emitted_cons, sharedRecs_append, List.append_assoc, g3, ← List.append_assoc, h3,
        List.append_assoc, good_append]

theorem history_direct (hne : ∀ r, C.enc r ≠ []) (h : List (In ρ)) (hr : v.sound = true) : ∀ s : State ρ,
    directRecs (emitted v Z C s h) = directSent h := by
  induction h with
  | nil => intro s; rfl
  | cons i is ih =>
    intro s
    rw [emitted_cons, directRecs_append, stepIn_direct v Z C hne _ _ hr, ih, ← directSent_cons]

theorem history_built (h : List (In ρ)) (hr : v.sound = true) : ∀ s : State ρ,
    ∀ x ∈ (run v Z C s h).2, Built v Z C x.1 x.2 := by
  induction h with
  | nil => intro s x hx; simp [run] at hx
  | cons i is ih =>
    intro s x hx
    rw [run_cons] at hx
    rcases List.mem_append.mp hx with h1 | h1
    · obtain ⟨p, hp, rfl⟩ := List.mem_map.mp h1
      exact stepIn_built v Z C s i hr p hp
    · exact ih _ x h1

theorem history_WF (h : List (In ρ)) (hr : v.sound = true) : ∀ s : State ρ, WF C s →
    WF C (final v Z C s h) ∧ ∀ p ∈ emitted v Z C s h, p.count = p.recs.length := by
  induction h with
  | nil => intro s hw; exact ⟨hw, by simp [emitted_nil]⟩
  | cons i is ih =>
    intro s hw
    obtain ⟨w1, c1⟩ := stepIn_WF v Z C s i hr hw
    obtain ⟨w2, c2⟩ := ih _ w1
    rw [final_cons, emitted_cons]
    refine ⟨w2, ?_⟩
    intro p hp
    rcases List.mem_append.mp hp with h1 | h1
    · exact c1 p h1
    · exact c2 p h1

theorem emitted_built (h : List (In ρ)) (s : State ρ) (hr : v.sound = true) :
    ∀ p ∈ emitted v Z C s h, ∃ st, Built v Z C st p := by
  intro p hp
  obtain ⟨x, hx, rfl⟩ := List.mem_map.mp hp
  exact ⟨x.1, history_built v Z C h hr s x hx⟩

end

end ZipSender
