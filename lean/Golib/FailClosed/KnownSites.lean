/-
  Golib.FailClosed.KnownSites — the allocation site that is recorded as a known finding rather
  than repaired (the model contains the quirk).

  `CounterPack1.readTxcallerPOidMeter` (lang/pack/CounterPack1.go):

      count := ReadDecimal()                         -- number of meters
      count times:  pcode, oid, time, count, error := 5 × ReadDecimal()
                    m.Acts = ReadShortArray(din, count)    -- !! the *meter count* is the array size
                    actx := ReadDecimal()
      func ReadShortArray(din, sz) { len := ReadByte(); arr := make([]int16, sz); len × ReadShort() }

  Every meter allocates `2·count` bytes whatever the input holds; the writer never writes the
  array at all (layout mismatch, C03), so what the reader intends is arguable.
-/
import Golib.FailClosed.PrimA

namespace FailClosed
open Prim

/-- the five decimals in front of the array -/
def dec5 : P Unit :=
  P.bind decDecimal (fun _ => P.bind decDecimal (fun _ => P.bind decDecimal (fun _ =>
    P.bind decDecimal (fun _ => P.bind decDecimal (fun _ => .pure ())))))

/-- `k` more meters, each with an array of `sz` shorts allocated ahead -/
def poidMeters (sz : Nat) : Nat → A Unit
  | 0 => .pure ()
  | k+1 =>
    A.bind (A.ofP dec5) (fun _ =>
      .read 1 (fun l => .alloc (2 * sz)
        (A.bind (A.ofP (decMany (rdI 2) (l.headD 0))) (fun _ =>
          A.bind (A.ofP decDecimal) (fun _ => poidMeters sz k)))))

/-- the version ≥ 9 form of the section: the count, then the meters -/
def readPOidMeters : A Unit :=
  A.bind (A.ofP decDecimal) (fun n => poidMeters n.toNat n.toNat)

/-- **alloc_bounded, partial**: relative to a bound `B` on the count field the section allocates
    at most `1 + 2·B` bytes per input byte — the constant depends on the count found in the input,
    which is exactly what the property forbids -/
theorem poidMeters_paid_partial (B sz : Nat) (h : sz ≤ B) (k : Nat) :
    Paid (1 + 2 * B) 0 (poidMeters sz k) := by
  induction k with
  | zero => exact paid_pure _ _
  | succ k ih =>
    simp only [poidMeters]
    apply paid_bind (paid_ofP0 _ (by omega))
    intro _
    apply paid_read_alloc (U := 2 * B) 1 _ _ (by omega) (fun _ => by omega) (by omega)
    intro l
    exact paid_bind (paid_ofP0 _ (by omega)) (fun _ => paid_bind (paid_ofP0 _ (by omega)) (fun _ => ih))

/-- witness: count 2^32 (9 bytes) and one complete meter (7 bytes): 8 GiB for a 16-byte input -/
theorem poid_witness :
    A.cost readPOidMeters [8, 0, 0, 0, 1, 0, 0, 0, 0, 0, 0, 0, 0, 0, 0, 0] = 8589934608 := by
  decide +kernel

end FailClosed
