/-
  Golib.FailClosed.ValueAlloc — allocation bound of the repaired value decoder.

  Every decoded value leaves `slot` units of slack (its own type byte pays for the slot it will
  occupy in the list or map that contains it), so the bound is linear in the input whatever the
  nesting: `cost (decVA true f) bs ≤ 1280 · |bs|`.
-/
import Golib.FailClosed.ValueACorrect

namespace FailClosed
open Prim Value

theorem paid_decVA_all (f : Nat) :
    Paid 1280 slot (decVA true f) ∧
    (∀ c acc, Paid 1280 0 (decVsA true f c acc)) ∧
    (∀ c acc, Paid 1280 0 (decKVsA true f c acc)) ∧
    (∀ c acc, Paid 1280 0 (decIKVsA true f c acc)) := by
  induction f with
  | zero =>
    refine ⟨?_, ?_, ?_, ?_⟩
    · simp only [decVA]; exact paid_fail _ _
    · intro c acc; cases c <;> simp only [decVsA] <;> first | exact paid_pure _ _ | exact paid_fail _ _
    · intro c acc; cases c <;> simp only [decKVsA] <;> first | exact paid_pure _ _ | exact paid_fail _ _
    · intro c acc; cases c <;> simp only [decIKVsA] <;> first | exact paid_pure _ _ | exact paid_fail _ _
  | succ f ih =>
    obtain ⟨ihV, ihVs, ihK, ihI⟩ := ih
    refine ⟨?_, ?_, ?_, ?_⟩
    · simp only [decVA]
      have hk : ∀ t : Bytes, Paid 1280 0 (
          match t.headD 0 with
          | 0 => .pure .null
          | 10 => A.map Value.bool (A.ofP rdBool)
          | 20 => A.map Value.dec (A.ofP decDecimal)
          | 21 => A.map Value.int (A.ofP (rdI 4))
          | 22 => A.map Value.long (A.ofP (rdI 8))
          | 30 => A.map Value.f32 (A.ofP (rdU 4))
          | 40 => A.map Value.f64 (A.ofP (rdU 8))
          | 45 => A.ofP (P.bind (rdU 8) (fun s => P.bind (rdI 4) (fun c => P.bind (rdU 8) (fun mn =>
                    P.bind (rdU 8) (fun mx => .pure (Value.dsum s c mn mx))))))
          | 46 => A.ofP (P.bind (rdI 8) (fun s => P.bind (rdI 4) (fun c => P.bind (rdI 8) (fun mn =>
                    P.bind (rdI 8) (fun mx => .pure (Value.lsum s c mn mx))))))
          | 50 => A.map Value.text (A.ofP decBlob)
          | 51 => A.map Value.hash (A.ofP (rdI 4))
          | 60 => A.map Value.blob (A.ofP decBlob)
          | 61 => A.map Value.ip4 (A.ofP (rdBytes 4))
          | 70 => A.bind (A.ofP decDecimal) (fun n =>
                    if n < 0 then .fail
                    else if true then A.map Value.list (decVsA true f n.toNat [])
                    else .alloc (16 * n.toNat) (A.map Value.list (decVsA true f n.toNat [])))
          | 71 => A.map Value.ai (arrA true 4 4 (rdI 4))
          | 72 => A.map Value.af (arrA true 4 4 (rdU 4))
          | 73 => A.map Value.at (arrA true 1 16 decBlob)
          | 74 => A.map Value.al (arrA true 8 8 (rdI 8))
          | 80 => A.bind (A.ofP decDecimal) (fun n => A.map Value.map (decKVsA true f n.toNat []))
          | 81 => A.bind (A.ofP decDecimal) (fun n => A.map Value.imap (decIKVsA true f n.toNat []))
          | _ => (.fail : A Value)) := by
        intro t
        split
        case h_1 => exact paid_pure _ _
        case h_2 => exact paid_map _ (paid_ofP0 _ (by omega))
        case h_3 => exact paid_map _ (paid_ofP0 _ (by omega))
        case h_4 => exact paid_map _ (paid_ofP0 _ (by omega))
        case h_5 => exact paid_map _ (paid_ofP0 _ (by omega))
        case h_6 => exact paid_map _ (paid_ofP0 _ (by omega))
        case h_7 => exact paid_map _ (paid_ofP0 _ (by omega))
        case h_8 => exact paid_ofP0 _ (by omega)
        case h_9 => exact paid_ofP0 _ (by omega)
        case h_10 => exact paid_map _ (paid_ofP0 _ (by omega))
        case h_11 => exact paid_map _ (paid_ofP0 _ (by omega))
        case h_12 => exact paid_map _ (paid_ofP0 _ (by omega))
        case h_13 => exact paid_map _ (paid_ofP0 _ (by omega))
        case h_14 =>
          apply paid_bind (paid_ofP0 _ (by omega))
          intro n
          split
          · exact paid_fail _ _
          · simp only [if_true]; exact paid_map _ (ihVs _ _)
        case h_15 => exact paid_map _ ((paid_arrA 4 4 1 _ (by omega) (rdI_consumes 4)).mono (by omega))
        case h_16 => exact paid_map _ ((paid_arrA 4 4 1 _ (by omega) (rdU_consumes 4)).mono (by omega))
        case h_17 => exact paid_map _ ((paid_arrA 1 16 16 _ (by omega) decBlob_consumes).mono (by omega))
        case h_18 => exact paid_map _ ((paid_arrA 8 8 1 _ (by omega) (rdI_consumes 8)).mono (by omega))
        case h_19 => exact paid_bind (paid_ofP0 _ (by omega)) (fun n => paid_map _ (ihK _ _))
        case h_20 => exact paid_bind (paid_ofP0 _ (by omega)) (fun n => paid_map _ (ihI _ _))
        case h_21 => exact paid_fail _ _
      exact paid_read_alloc (c := 1280) (U := 1088) 1 _ _ (by omega)
        (fun b => by unfold objUnits; split <;> omega) (by unfold slot; omega) hk
    · intro c acc
      cases c with
      | zero => simp only [decVsA]; exact paid_pure _ _
      | succ c =>
        simp only [decVsA, if_true]
        exact paid_bind_alloc ihV (fun x => ihVs _ _)
    · intro c acc
      cases c with
      | zero => simp only [decKVsA]; exact paid_pure _ _
      | succ c =>
        simp only [decKVsA]
        exact paid_bind (paid_ofP0 _ (by omega)) (fun k => paid_bind_alloc ihV (fun x => ihK _ _))
    · intro c acc
      cases c with
      | zero => simp only [decIKVsA]; exact paid_pure _ _
      | succ c =>
        simp only [decIKVsA]
        exact paid_bind (paid_ofP0 _ (by omega)) (fun k => paid_bind_alloc ihV (fun x => ihI _ _))

theorem paid_decVA (f : Nat) : Paid 1280 slot (decVA true f) := (paid_decVA_all f).1

/-- **alloc_bounded** for `value.ReadValue` (repaired code): on *every* byte string — valid,
    truncated or corrupted — at most 1280 bytes are allocated per input byte
    (1088 of them are the bucket table a map value is constructed with) -/
theorem cost_decVA_le (f : Nat) (bs : Bytes) : A.cost (decVA true f) bs ≤ 1280 * bs.length :=
  (paid_decVA f).bounded bs

end FailClosed
