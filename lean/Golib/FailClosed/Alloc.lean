/-
  Golib.FailClosed.Alloc — the instrumented decoder syntax `A` (property C04).

  `A α` extends the decoder syntax `P` of Golib.Basic by the three other things a Go decoder of
  /repo does with its input stream besides asking for the next `n` bytes:

  * `alloc u rest`  – `make(…, k)` ahead of reading (`u` = bytes requested from the allocator),
  * `need n rest`   – a guard `if n > Available() { panic }` (the repaired code),
  * `avail0 e t`    – `if din.Available() == 0 { e } else { t }` (SMBasePack: the tail added by a
                      newer version of the format).

  Two semantics are given:

  * `run` / `cost`   – the repaired `io.DataInputX.ReadBytes`: a read of `n` bytes fails when fewer
                       than `n` remain, and allocates its `n` bytes only after that check;
  * `runF` / `costF` – `ReadBytes` *as found*: `make([]byte, n)` first, then `bytes.Buffer.Read`,
                       whose short read (0 < remaining < n) is not an error — the caller gets the
                       remaining bytes followed by zeros (candidate defect D01), and the allocation is
                       charged whether or not the bytes exist (D02).  `Available()` is
                       `bufsize - offset` with `offset += n` on every read, so after a short read it is
                       negative: the flag `over` records that.

  `cost` counts allocation units: `n` per `ReadBytes(n)` performed, `u` per `alloc u`.
-/
import Golib.Basic

namespace FailClosed

inductive A (α : Type) where
  | pure : α → A α
  | fail : A α
  | read : (n : Nat) → (Bytes → A α) → A α
  | alloc : (units : Nat) → A α → A α
  | need : (n : Nat) → A α → A α
  | avail0 : A α → A α → A α

/-- what the as-found `ReadBytes(n)` hands back on a short read: the bytes that are there, then zeros -/
def pad (n : Nat) (bs : Bytes) : Bytes := bs.take n ++ List.replicate (n - bs.length) 0

theorem pad_length (n : Nat) (bs : Bytes) : (pad n bs).length = n := by
  unfold pad
  simp only [List.length_append, List.length_take, List.length_replicate]
  omega

namespace A

/-! ### the repaired reader -/

def run : A α → Bytes → Option (α × Bytes)
  | .pure a, bs => some (a, bs)
  | .fail, _ => none
  | .read n k, bs => if hasAtLeast n bs then run (k (bs.take n)) (bs.drop n) else none
  | .alloc _ rest, bs => run rest bs
  | .need n rest, bs => if hasAtLeast n bs then run rest bs else none
  | .avail0 e t, bs => if bs.isEmpty then run e bs else run t bs

def cost : A α → Bytes → Nat
  | .pure _, _ => 0
  | .fail, _ => 0
  | .read n k, bs => if hasAtLeast n bs then n + cost (k (bs.take n)) (bs.drop n) else 0
  | .alloc u rest, bs => u + cost rest bs
  | .need n rest, bs => if hasAtLeast n bs then cost rest bs else 0
  | .avail0 e t, bs => if bs.isEmpty then cost e bs else cost t bs

/-! ### the reader as found (`over` = a short read has happened, `Available()` is negative) -/

def runF : A α → Bytes → Bool → Option (α × Bytes)
  | .pure a, bs, _ => some (a, bs)
  | .fail, _, _ => none
  | .read n k, bs, over =>
    if n == 0 then runF (k []) bs over            -- Buffer.Read(empty slice) = (0, nil), always
    else if bs.isEmpty then none                   -- io.EOF → panic "WA003-01"
    else runF (k (pad n bs)) (bs.drop n) (over || !hasAtLeast n bs)
  | .alloc _ rest, bs, over => runF rest bs over
  | .need n rest, bs, over => if !over && hasAtLeast n bs then runF rest bs over else none
  | .avail0 e t, bs, over => if !over && bs.isEmpty then runF e bs over else runF t bs over

def costF : A α → Bytes → Bool → Nat
  | .pure _, _, _ => 0
  | .fail, _, _ => 0
  | .read n k, bs, over =>
    n + (if n == 0 then costF (k []) bs over       -- `make([]byte, n)` comes first
         else if bs.isEmpty then 0
         else costF (k (pad n bs)) (bs.drop n) (over || !hasAtLeast n bs))
  | .alloc u rest, bs, over => u + costF rest bs over
  | .need n rest, bs, over => if !over && hasAtLeast n bs then costF rest bs over else 0
  | .avail0 e t, bs, over => if !over && bs.isEmpty then costF e bs over else costF t bs over

/-! ### monad structure -/

def bind : A α → (α → A β) → A β
  | .pure a, f => f a
  | .fail, _ => .fail
  | .read n k, f => .read n (fun bs => bind (k bs) f)
  | .alloc u rest, f => .alloc u (bind rest f)
  | .need n rest, f => .need n (bind rest f)
  | .avail0 e t, f => .avail0 (bind e f) (bind t f)

def map (f : α → β) (a : A α) : A β := bind a (fun x => .pure (f x))

/-- a `P` program is an `A` program without allocations, guards or tails -/
def ofP : P α → A α
  | .pure a => .pure a
  | .fail => .fail
  | .read n k => .read n (fun bs => ofP (k bs))

/-- forget allocations and guards (for `avail0` the newer-version branch is kept) -/
def toP : A α → P α
  | .pure a => .pure a
  | .fail => .fail
  | .read n k => .read n (fun bs => toP (k bs))
  | .alloc _ rest => toP rest
  | .need _ rest => toP rest
  | .avail0 _ t => toP t

/-- no `avail0` node: the decoder never asks whether the input has ended -/
inductive TailFree : A α → Prop
  | pure (a : α) : TailFree (.pure a)
  | fail : TailFree .fail
  | read (n : Nat) (k : Bytes → A α) (h : ∀ bs, TailFree (k bs)) : TailFree (.read n k)
  | alloc (u : Nat) (rest : A α) (h : TailFree rest) : TailFree (.alloc u rest)
  | need (n : Nat) (rest : A α) (h : TailFree rest) : TailFree (.need n rest)

@[simp] theorem run_pure (a : α) (bs : Bytes) : run (.pure a) bs = some (a, bs) := rfl
@[simp] theorem run_fail (bs : Bytes) : run (.fail : A α) bs = none := rfl
@[simp] theorem cost_pure (a : α) (bs : Bytes) : cost (.pure a) bs = 0 := rfl
@[simp] theorem cost_fail (bs : Bytes) : cost (.fail : A α) bs = 0 := rfl
@[simp] theorem run_alloc (u : Nat) (r : A α) (bs : Bytes) : run (.alloc u r) bs = run r bs := rfl
@[simp] theorem cost_alloc (u : Nat) (r : A α) (bs : Bytes) :
    cost (.alloc u r) bs = u + cost r bs := rfl

theorem run_need (n : Nat) (r : A α) (bs : Bytes) :
    run (.need n r) bs = if n ≤ bs.length then run r bs else none := by
  simp only [run]
  by_cases h : n ≤ bs.length
  · rw [if_pos h, if_pos ((hasAtLeast_iff n bs).mpr h)]
  · rw [if_neg h, if_neg (fun h' => h ((hasAtLeast_iff n bs).mp h'))]

theorem cost_need (n : Nat) (r : A α) (bs : Bytes) :
    cost (.need n r) bs = if n ≤ bs.length then cost r bs else 0 := by
  simp only [cost]
  by_cases h : n ≤ bs.length
  · rw [if_pos h, if_pos ((hasAtLeast_iff n bs).mpr h)]
  · rw [if_neg h, if_neg (fun h' => h ((hasAtLeast_iff n bs).mp h'))]

theorem run_read (n : Nat) (k : Bytes → A α) (bs : Bytes) :
    run (.read n k) bs = if n ≤ bs.length then run (k (bs.take n)) (bs.drop n) else none := by
  simp only [run]
  by_cases h : n ≤ bs.length
  · rw [if_pos h, if_pos ((hasAtLeast_iff n bs).mpr h)]
  · rw [if_neg h, if_neg (fun h' => h ((hasAtLeast_iff n bs).mp h'))]

theorem cost_read (n : Nat) (k : Bytes → A α) (bs : Bytes) :
    cost (.read n k) bs = if n ≤ bs.length then n + cost (k (bs.take n)) (bs.drop n) else 0 := by
  simp only [cost]
  by_cases h : n ≤ bs.length
  · rw [if_pos h, if_pos ((hasAtLeast_iff n bs).mpr h)]
  · rw [if_neg h, if_neg (fun h' => h ((hasAtLeast_iff n bs).mp h'))]

theorem run_read1_cons (k : Bytes → A α) (b : Nat) (r : Bytes) :
    run (.read 1 k) (b :: r) = run (k [b]) r := by
  simp [run_read]

theorem run_read1_nil (k : Bytes → A α) : run (.read 1 k) [] = none := by
  simp [run_read]

theorem run_bind (a : A α) (f : α → A β) (bs : Bytes) :
    run (bind a f) bs = match run a bs with | none => none | some (x, r) => run (f x) r := by
  induction a generalizing bs with
  | pure x => simp [bind, run]
  | fail => simp [bind, run]
  | read n k ih =>
    simp only [bind, run]
    split
    · exact ih _ _
    · rfl
  | alloc u rest ih => simp only [bind, run]; exact ih bs
  | need n rest ih =>
    simp only [bind, run]
    split
    · exact ih bs
    · rfl
  | avail0 e t ihe iht =>
    simp only [bind, run]
    split
    · exact ihe bs
    · exact iht bs

theorem cost_bind (a : A α) (f : α → A β) (bs : Bytes) :
    cost (bind a f) bs =
      cost a bs + match run a bs with | none => 0 | some (x, r) => cost (f x) r := by
  induction a generalizing bs with
  | pure x => simp [bind, run, cost]
  | fail => simp [bind, run, cost]
  | read n k ih =>
    simp only [bind, run, cost]
    split
    · rw [ih, Nat.add_assoc]
    · rfl
  | alloc u rest ih => simp only [bind, run, cost]; rw [ih, Nat.add_assoc]
  | need n rest ih =>
    simp only [bind, run, cost]
    split
    · exact ih bs
    · rfl
  | avail0 e t ihe iht =>
    simp only [bind, run, cost]
    split
    · exact ihe bs
    · exact iht bs

theorem run_bind_some (a : A α) (f : α → A β) (bs r : Bytes) (x : α)
    (h : run a bs = some (x, r)) : run (bind a f) bs = run (f x) r := by
  rw [run_bind, h]

theorem run_bind_none (a : A α) (f : α → A β) (bs : Bytes)
    (h : run a bs = none) : run (bind a f) bs = none := by
  rw [run_bind, h]

theorem run_map (f : α → β) (a : A α) (bs : Bytes) :
    run (map f a) bs = (run a bs).map (fun (x, r) => (f x, r)) := by
  unfold map
  rw [run_bind]
  cases run a bs with
  | none => rfl
  | some p => obtain ⟨x, r⟩ := p; rfl

theorem cost_map (f : α → β) (a : A α) (bs : Bytes) : cost (map f a) bs = cost a bs := by
  unfold map
  rw [cost_bind]
  cases run a bs with
  | none => rfl
  | some p => obtain ⟨x, r⟩ := p; simp

/-! ### `ofP`: the `P` programs inside `A` -/

theorem run_ofP (p : P α) (bs : Bytes) : run (ofP p) bs = P.run p bs := by
  induction p generalizing bs with
  | pure a => rfl
  | fail => rfl
  | read n k ih =>
    simp only [ofP, run, P.run]
    split
    · exact ih _ _
    · rfl

theorem toP_ofP (p : P α) : toP (ofP p) = p := by
  induction p with
  | pure a => rfl
  | fail => rfl
  | read n k ih => simp only [ofP, toP]; congr 1; funext bs; exact ih bs

theorem ofP_bind (p : P α) (f : α → P β) :
    ofP (P.bind p f) = bind (ofP p) (fun x => ofP (f x)) := by
  induction p with
  | pure a => rfl
  | fail => rfl
  | read n k ih => simp only [P.bind, ofP, bind]; congr 1; funext bs; exact ih bs

theorem tailFree_ofP (p : P α) : TailFree (ofP p) := by
  induction p with
  | pure a => exact .pure a
  | fail => exact .fail
  | read n k ih => exact .read n _ ih

theorem tailFree_bind (a : A α) (f : α → A β) (ha : TailFree a) (hf : ∀ x, TailFree (f x)) :
    TailFree (bind a f) := by
  induction ha with
  | pure x => exact hf x
  | fail => exact .fail
  | read n k _ ih => exact .read n _ ih
  | alloc u rest _ ih => exact .alloc u _ ih
  | need n rest _ ih => exact .need n _ ih

theorem tailFree_map (f : α → β) (a : A α) (ha : TailFree a) : TailFree (map f a) :=
  tailFree_bind a _ ha (fun x => .pure (f x))

/-- a read of the repaired reader allocates exactly the bytes it consumes: a `P` program costs
    what it consumed when it succeeds and never more than the input when it fails -/
theorem cost_ofP (p : P α) (bs : Bytes) :
    match P.run p bs with
    | some (_, r) => cost (ofP p) bs + r.length = bs.length
    | none => cost (ofP p) bs ≤ bs.length := by
  induction p generalizing bs with
  | pure a => simp [ofP, P.run]
  | fail => simp [ofP, P.run]
  | read n k ih =>
    simp only [ofP, cost_read, P.run_read]
    by_cases h : n ≤ bs.length
    · simp only [if_pos h]
      have := ih (bs.take n) (bs.drop n)
      have hl : (bs.drop n).length = bs.length - n := List.length_drop
      cases hr : P.run (k (List.take n bs)) (List.drop n bs) with
      | none => rw [hr] at this; simp only at this ⊢; omega
      | some x => rw [hr] at this; obtain ⟨v, r⟩ := x; simp only at this ⊢; omega
    · simp [if_neg h]

/-! ### guards and allocations only remove successes; they never change a result -/

theorem run_toP_of_some (a : A α) (ht : TailFree a) (bs : Bytes) (x : α × Bytes)
    (h : run a bs = some x) : P.run (toP a) bs = some x := by
  induction ht generalizing bs with
  | pure v => exact h
  | fail => simp [run] at h
  | read n k _ ih =>
    simp only [run, toP, P.run] at h ⊢
    split at h
    · rename_i hn; rw [if_pos hn]; exact ih _ _ h
    · simp at h
  | alloc u rest _ ih => exact ih bs h
  | need n rest _ ih =>
    simp only [run] at h
    split at h
    · exact ih bs h
    · simp at h

/-- **prefix failure** for every tail-free instrumented decoder (from `P.prefix_fails`) -/
theorem prefix_fails (a : A α) (ht : TailFree a) (q s : Bytes) (v : α) (hs : s ≠ [])
    (h : run a (q ++ s) = some (v, [])) : run a q = none := by
  cases hq : run a q with
  | none => rfl
  | some x =>
    have h1 := run_toP_of_some a ht _ _ h
    have h2 := run_toP_of_some a ht _ _ hq
    rw [P.prefix_fails (toP a) q s v hs h1] at h2
    simp at h2

/-- no guard either: the program never looks at how much input remains -/
inductive NeedFree : A α → Prop
  | pure (a : α) : NeedFree (.pure a)
  | fail : NeedFree .fail
  | read (n : Nat) (k : Bytes → A α) (h : ∀ bs, NeedFree (k bs)) : NeedFree (.read n k)
  | alloc (u : Nat) (rest : A α) (h : NeedFree rest) : NeedFree (.alloc u rest)

/-- a program without guards and tails is its underlying `P` program -/
theorem run_eq_toP (a : A α) (h : NeedFree a) (bs : Bytes) : run a bs = P.run (toP a) bs := by
  induction h generalizing bs with
  | pure v => rfl
  | fail => rfl
  | read n k _ ih =>
    simp only [run, toP, P.run]
    split
    · exact ih _ _
    · rfl
  | alloc u rest _ ih => exact ih bs

theorem needFree_ofP (p : P α) : NeedFree (ofP p) := by
  induction p with
  | pure a => exact .pure a
  | fail => exact .fail
  | read n k ih => exact .read n _ ih

theorem needFree_bind (a : A α) (f : α → A β) (ha : NeedFree a) (hf : ∀ x, NeedFree (f x)) :
    NeedFree (bind a f) := by
  induction ha with
  | pure x => exact hf x
  | fail => exact .fail
  | read n k _ ih => exact .read n _ ih
  | alloc u rest _ ih => exact .alloc u _ ih

theorem needFree_map (f : α → β) (a : A α) (ha : NeedFree a) : NeedFree (map f a) :=
  needFree_bind a _ ha (fun x => .pure (f x))

/-- a successful run leaves a suffix of its input -/
theorem run_length_le (a : A α) (bs : Bytes) (v : α) (r : Bytes) (h : run a bs = some (v, r)) :
    r.length ≤ bs.length := by
  induction a generalizing bs with
  | pure x => simp [run] at h; rw [h.2]; exact Nat.le_refl _
  | fail => simp [run] at h
  | read n k ih =>
    rw [run_read] at h
    split at h
    · have := ih _ _ h
      have hl : (bs.drop n).length = bs.length - n := List.length_drop
      omega
    · simp at h
  | alloc u rest ih => exact ih bs h
  | need n rest ih =>
    rw [run_need] at h
    split at h
    · exact ih bs h
    · simp at h
  | avail0 e t ihe iht =>
    simp only [run] at h
    split at h
    · exact ihe bs h
    · exact iht bs h

/-! ### the repair removes no behaviour: whatever the repaired reader decodes, the reader as
    found decodes identically -/

theorem runF_of_run (a : A α) (bs : Bytes) (x : α × Bytes) (h : run a bs = some x) :
    runF a bs false = some x := by
  induction a generalizing bs with
  | pure v => exact h
  | fail => simp [run] at h
  | read n k ih =>
    rw [run_read] at h
    split at h
    · rename_i hn
      have hal : hasAtLeast n bs = true := (hasAtLeast_iff n bs).mpr hn
      simp only [runF]
      by_cases h0 : n = 0
      · subst h0; simp only [List.take_zero, List.drop_zero] at h
        simp only [beq_self_eq_true, if_true]; exact ih _ _ h
      · have hne : bs ≠ [] := by intro hh; subst hh; simp at hn; exact h0 hn
        have hpad : pad n bs = bs.take n := by
          unfold pad; rw [Nat.sub_eq_zero_of_le hn]; simp
        simp only [beq_iff_eq, h0, if_false, List.isEmpty_iff, hne, hal, hpad,
          Bool.not_true, Bool.or_false]
        exact ih _ _ h
    · simp at h
  | alloc u rest ih => exact ih bs h
  | need n rest ih =>
    simp only [run] at h
    split at h
    · rename_i hn; simp only [runF, hn, Bool.not_false, Bool.and_self, if_true]; exact ih bs h
    · simp at h
  | avail0 e t ihe iht =>
    simp only [run] at h
    simp only [runF, Bool.not_false, Bool.true_and]
    split at h
    · rename_i he; rw [if_pos he]; exact ihe bs h
    · rename_i he; rw [if_neg he]; exact iht bs h

end A

/-! ### allocation accounting: `Paid c s a` — on every input the decoder `a` allocates at most
    `c` units per byte it consumed (leaving `s` units of slack when it succeeds), and at most `c`
    units per input byte when it fails -/

def Paid (c s : Nat) (a : A α) : Prop :=
  ∀ bs, match A.run a bs with
    | some (_, r) => A.cost a bs + s + c * r.length ≤ c * bs.length
    | none => A.cost a bs ≤ c * bs.length

/-- **alloc_bounded** (generic form): a paid decoder allocates at most `c · |input|` -/
theorem Paid.bounded {c s : Nat} {a : A α} (h : Paid c s a) (bs : Bytes) :
    A.cost a bs ≤ c * bs.length := by
  have := h bs
  cases hr : A.run a bs with
  | none => rw [hr] at this; exact this
  | some x => rw [hr] at this; obtain ⟨v, r⟩ := x; simp only at this; omega

theorem Paid.weaken {c s s' : Nat} {a : A α} (h : Paid c s a) (hs : s' ≤ s) : Paid c s' a := by
  intro bs
  have := h bs
  revert this
  cases A.run a bs with
  | none => exact id
  | some x => obtain ⟨v, r⟩ := x; simp only; omega

theorem paid_pure (c : Nat) (x : α) : Paid c 0 (.pure x) := by
  intro bs; simp [A.run, A.cost]

theorem paid_fail (c s : Nat) : Paid c s (.fail : A α) := by
  intro bs; simp [A.run, A.cost]

theorem paid_bind {c s : Nat} {a : A α} {f : α → A β} (ha : Paid c 0 a) (hf : ∀ x, Paid c s (f x)) :
    Paid c s (A.bind a f) := by
  intro bs
  rw [A.run_bind, A.cost_bind]
  have h1 := ha bs
  cases hr : A.run a bs with
  | none => rw [hr] at h1; simpa using h1
  | some x =>
    obtain ⟨v, r⟩ := x
    rw [hr] at h1; simp only at h1 ⊢
    have h2 := hf v r
    cases hr2 : A.run (f v) r with
    | none => rw [hr2] at h2; simp only at h2 ⊢; omega
    | some y => obtain ⟨w, r'⟩ := y; rw [hr2] at h2; simp only at h2 ⊢; omega

theorem paid_map {c s : Nat} {a : A α} (f : α → β) (ha : Paid c s a) : Paid c s (A.map f a) := by
  intro bs
  rw [A.run_map, A.cost_map]
  have h1 := ha bs
  cases hr : A.run a bs with
  | none => rw [hr] at h1; simpa using h1
  | some x => obtain ⟨v, r⟩ := x; rw [hr] at h1; simpa using h1

/-- one read of `n` bytes leaves `(c-1)·n` more units of slack -/
theorem paid_read {c s : Nat} (n : Nat) (k : Bytes → A α) (hc : 1 ≤ c) (hk : ∀ b, Paid c s (k b)) :
    Paid c (s + (c - 1) * n) (.read n k) := by
  intro bs
  rw [A.run_read, A.cost_read]
  by_cases h : n ≤ bs.length
  · simp only [if_pos h]
    have h1 := hk (bs.take n) (bs.drop n)
    have hl : (bs.drop n).length = bs.length - n := List.length_drop
    have hm : c * bs.length = c * n + c * (bs.length - n) := by
      rw [← Nat.mul_add]; congr 1; omega
    have hcn : c * n = (c - 1) * n + n := by
      obtain ⟨c1, rfl⟩ : ∃ c1, c = c1 + 1 := ⟨c - 1, by omega⟩
      rw [Nat.add_sub_cancel, Nat.add_mul, Nat.one_mul]
    cases hr : A.run (k (List.take n bs)) (List.drop n bs) with
    | none => rw [hr] at h1; simp only at h1 ⊢; rw [hl] at h1; omega
    | some x => obtain ⟨v, r⟩ := x; rw [hr] at h1; simp only at h1 ⊢; rw [hl] at h1; omega
  · simp [if_neg h]

/-- `b := ReadBytes(n); make(u b units); k b` with `u b ≤ U`: the read pays for the allocation
    and for `s` units of slack when `U + s ≤ (c-1)·n` -/
theorem paid_read_alloc {c s U : Nat} (n : Nat) (u : Bytes → Nat) (k : Bytes → A α) (hc : 1 ≤ c)
    (hu : ∀ b, u b ≤ U) (hU : U + s ≤ (c - 1) * n) (hk : ∀ b, Paid c 0 (k b)) :
    Paid c s (.read n (fun b => .alloc (u b) (k b))) := by
  intro bs
  rw [A.run_read, A.cost_read]
  by_cases h : n ≤ bs.length
  · simp only [if_pos h, A.run_alloc, A.cost_alloc]
    have h1 := hk (bs.take n) (bs.drop n)
    have h2 := hu (bs.take n)
    have hl : (bs.drop n).length = bs.length - n := List.length_drop
    have hm : c * bs.length = c * n + c * (bs.length - n) := by
      rw [← Nat.mul_add]; congr 1; omega
    have hcn : c * n = (c - 1) * n + n := by
      obtain ⟨c1, rfl⟩ : ∃ c1, c = c1 + 1 := ⟨c - 1, by omega⟩
      rw [Nat.add_sub_cancel, Nat.add_mul, Nat.one_mul]
    cases hr : A.run (k (List.take n bs)) (List.drop n bs) with
    | none => rw [hr] at h1; simp only at h1 ⊢; rw [hl] at h1; omega
    | some x => obtain ⟨v, r⟩ := x; rw [hr] at h1; simp only at h1 ⊢; rw [hl] at h1; omega
  · simp [if_neg h]

/-- `x := a; make(s units); g x` — the allocation is paid from the slack `a` left -/
theorem paid_bind_alloc {c s s' : Nat} {a : A α} {g : α → A β} (ha : Paid c s a)
    (hg : ∀ x, Paid c s' (g x)) : Paid c s' (A.bind a (fun x => .alloc s (g x))) := by
  intro bs
  rw [A.run_bind, A.cost_bind]
  have h1 := ha bs
  cases hr : A.run a bs with
  | none => rw [hr] at h1; simpa using h1
  | some x =>
    obtain ⟨v, r⟩ := x
    rw [hr] at h1; simp only [A.run_alloc, A.cost_alloc] at h1 ⊢
    have h2 := hg v r
    cases hr2 : A.run (g v) r with
    | none => rw [hr2] at h2; simp only at h2 ⊢; omega
    | some y => obtain ⟨w, r'⟩ := y; rw [hr2] at h2; simp only at h2 ⊢; omega

/-- a `P` program that consumes at least one byte when it succeeds leaves `c - 1` units of slack -/
theorem paid_ofP {c : Nat} (p : P α) (hc : 1 ≤ c)
    (h1 : ∀ bs v r, P.run p bs = some (v, r) → r.length < bs.length) :
    Paid c (c - 1) (A.ofP p) := by
  intro bs
  rw [A.run_ofP]
  have h2 := A.cost_ofP p bs
  cases hr : P.run p bs with
  | none =>
    rw [hr] at h2; simp only at h2 ⊢
    exact Nat.le_trans h2 (Nat.le_mul_of_pos_left _ hc)
  | some x =>
    obtain ⟨v, r⟩ := x
    rw [hr] at h2; simp only at h2 ⊢
    have h3 := h1 bs v r hr
    obtain ⟨d, hd⟩ : ∃ d, bs.length = r.length + (d + 1) := ⟨bs.length - r.length - 1, by omega⟩
    have hcost : A.cost (A.ofP p) bs = d + 1 := by omega
    rw [hcost, hd, Nat.mul_add, Nat.mul_add]
    have : d ≤ c * d := Nat.le_mul_of_pos_left d hc
    omega

/-- any `P` program at all is paid with no slack -/
theorem paid_ofP0 {c : Nat} (p : P α) (hc : 1 ≤ c) : Paid c 0 (A.ofP p) := by
  intro bs
  rw [A.run_ofP]
  have h2 := A.cost_ofP p bs
  cases hr : P.run p bs with
  | none =>
    rw [hr] at h2; simp only at h2 ⊢
    exact Nat.le_trans h2 (Nat.le_mul_of_pos_left _ hc)
  | some x =>
    obtain ⟨v, r⟩ := x
    rw [hr] at h2; simp only at h2 ⊢
    have hl := P.run_length_le p bs v r hr
    obtain ⟨d, hd⟩ : ∃ d, bs.length = r.length + d := ⟨bs.length - r.length, by omega⟩
    have hcost : A.cost (A.ofP p) bs = d := by omega
    rw [hcost, hd, Nat.mul_add]
    have : d ≤ c * d := Nat.le_mul_of_pos_left d hc
    omega

end FailClosed
