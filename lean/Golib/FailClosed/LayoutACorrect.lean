/-
  Golib.FailClosed.LayoutACorrect — the instrumented layout reader `toA` reads exactly what
  `Layout.L.read` reads (`run_toA`): the `CheckCount` guard in front of a table's allocation is
  invisible in the result, because it refuses only counts the element loop would fail on
  (every element begins with a read of at least one byte).
-/
import Golib.FailClosed.LayoutA
namespace FailClosed
open Layout (L Val Env Out elemPfx)

theorem run_toA (F : Nat) (l : L) (hok : costOK l = true) :
    ∀ pfx e bs, bs.length + 2 ≤ F → A.run (toA F l pfx e) bs = (l.read pfx e bs).map reshape := by
  induction l with
  | nil => intro pfx e bs _; simp [toA, L.read, reshape]
  | fld name p rng rest ih =>
    simp only [costOK] at hok
    intro pfx e bs hF
    simp only [toA, L.read]
    rw [A.run_bind, run_primA F p bs hF]
    cases h1 : p.decode bs with
    | none => rfl
    | some t =>
      obtain ⟨v, r⟩ := t
      have hr : r.length ≤ bs.length := by
        have h2 := run_primA F p bs hF; rw [h1] at h2; exact A.run_length_le _ _ _ _ h2
      simp only
      rw [A.run_map, ih hok pfx e r (by omega)]
      cases rest.read pfx e r with
      | none => rfl
      | some t2 => obtain ⟨o, e', r'⟩ := t2; rfl
  | lit p v rest ih =>
    simp only [costOK] at hok
    intro pfx e bs hF
    simp only [toA, L.read]; exact ih hok pfx e bs hF
  | skip p rest ih =>
    simp only [costOK] at hok
    intro pfx e bs hF
    simp only [toA, L.read]
    rw [A.run_bind, run_primA F p bs hF]
    cases h1 : p.decode bs with
    | none => rfl
    | some t =>
      obtain ⟨v, r⟩ := t
      have hr : r.length ≤ bs.length := by
        have h2 := run_primA F p bs hF; rw [h1] at h2; exact A.run_length_le _ _ _ _ h2
      simp only
      exact ih hok pfx e r (by omega)
  | var name p rest ih =>
    simp only [costOK] at hok
    intro pfx e bs hF
    simp only [toA, L.read]
    rw [A.run_bind, run_primA F p bs hF]
    cases h1 : p.decode bs with
    | none => rfl
    | some t =>
      obtain ⟨v, r⟩ := t
      have hr : r.length ≤ bs.length := by
        have h2 := run_primA F p bs hF; rw [h1] at h2; exact A.run_length_le _ _ _ _ h2
      simp only
      exact ih hok pfx _ r (by omega)
  | ite c t el rest iht ihe ihr =>
    simp only [costOK, Bool.and_eq_true] at hok
    intro pfx e bs hF
    simp only [toA, L.read]
    rw [A.run_bind]
    have hb : A.run (if c.eval e then toA F t pfx e else toA F el pfx e) bs =
        (if c.eval e then t.read pfx e bs else el.read pfx e bs).map reshape := by
      split
      · exact iht hok.1.1 pfx e bs hF
      · exact ihe hok.1.2 pfx e bs hF
    rw [hb]
    cases h1 : (if c.eval e then t.read pfx e bs else el.read pfx e bs) with
    | none => rfl
    | some t1 =>
      obtain ⟨o1, e1, r1⟩ := t1
      have hr : r1.length ≤ bs.length := by
        rw [h1] at hb; exact A.run_length_le _ _ _ _ hb
      simp only [Option.map_some, reshape]
      rw [A.run_map, ihr hok.2 pfx e1 r1 (by omega)]
      cases rest.read pfx e1 r1 with
      | none => rfl
      | some t2 => obtain ⟨o2, e2, r2⟩ := t2; rfl
  | guard c rest ih =>
    simp only [costOK] at hok
    intro pfx e bs hF
    simp only [toA, L.read]
    split
    · rfl
    · exact ih hok pfx e bs hF
  | opt name body rest ihb ihr =>
    simp only [costOK, Bool.and_eq_true] at hok
    intro pfx e bs hF
    simp only [toA, L.read]
    rw [A.run_bind, run_primA F .u8 bs hF]
    cases h1 : Layout.Prim.decode .u8 bs with
    | none => rfl
    | some t =>
      obtain ⟨flag, r⟩ := t
      have hr : r.length ≤ bs.length := by
        have h2 := run_primA F .u8 bs hF; rw [h1] at h2; exact A.run_length_le _ _ _ _ h2
      simp only
      split
      · rw [A.run_bind, ihb hok.1 pfx e r (by omega)]
        cases h3 : body.read pfx e r with
        | none => rfl
        | some t1 =>
          obtain ⟨o1, e1, r1⟩ := t1
          have hr1 : r1.length ≤ r.length := by
            have h4 := ihb hok.1 pfx e r (by omega); rw [h3] at h4; exact A.run_length_le _ _ _ _ h4
          simp only [Option.map_some, reshape]
          rw [A.run_map, ihr hok.2 pfx e1 r1 (by omega)]
          cases rest.read pfx e1 r1 with
          | none => rfl
          | some t2 => obtain ⟨o2, e2, r2⟩ := t2; rfl
      · rw [A.run_map, ihr hok.2 pfx e r (by omega)]
        cases rest.read pfx e r with
        | none => rfl
        | some t2 => obtain ⟨o2, e2, r2⟩ := t2; rfl
  | hdr rest ih =>
    simp only [costOK] at hok
    intro pfx e bs hF
    simp only [toA, L.read]
    rw [A.run_bind, A.run_ofP]
    cases h1 : P.run Layout.decHeader bs with
    | none => rfl
    | some t =>
      obtain ⟨h, r⟩ := t
      have hr := P.run_length_le _ _ _ _ h1
      simp only
      rw [A.run_map, ih hok pfx e r (by omega)]
      cases rest.read pfx e r with
      | none => rfl
      | some t2 => obtain ⟨o, e', r'⟩ := t2; rfl
  | sub name body rest ihb ihr =>
    simp only [costOK, Bool.and_eq_true] at hok
    intro pfx e bs hF
    simp only [toA, L.read]
    rw [A.run_bind, ihb hok.1 _ e bs hF]
    cases h3 : body.read (pfx ++ name ++ ".") e bs with
    | none => rfl
    | some t1 =>
      obtain ⟨o1, e1, r1⟩ := t1
      have hr1 : r1.length ≤ bs.length := by
        have h4 := ihb hok.1 (pfx ++ name ++ ".") e bs hF; rw [h3] at h4; exact A.run_length_le _ _ _ _ h4
      simp only [Option.map_some, reshape]
      rw [A.run_map, ihr hok.2 pfx e1 r1 (by omega)]
      cases rest.read pfx e1 r1 with
      | none => rfl
      | some t2 => obtain ⟨o2, e2, r2⟩ := t2; rfl
  | times n name body rest ihb ihr =>
    simp only [costOK, Bool.and_eq_true] at hok
    intro pfx e bs hF
    simp only [toA, L.read]
    have hel := run_elemsA F (fun q e' => toA F body q e') (fun q => body.read q)
      (fun q e' bs' h => ihb hok.1 q e' bs' h) pfx name n 0 e bs hF
    rw [A.run_bind, hel]
    cases h3 : Layout.readElems (fun q => body.read q) pfx name 0 n e bs with
    | none => rfl
    | some t1 =>
      obtain ⟨o1, e1, r1⟩ := t1
      have hr1 : r1.length ≤ bs.length := by
        rw [h3] at hel; exact A.run_length_le _ _ _ _ hel
      simp only [Option.map_some, reshape]
      rw [A.run_map, ihr hok.2 pfx e1 r1 (by omega)]
      cases rest.read pfx e1 r1 with
      | none => rfl
      | some t2 => obtain ⟨o2, e2, r2⟩ := t2; rfl
  | unknown w => intro pfx e bs _; simp [toA, L.read]
  | rep cnt name body rest ihb ihr =>
    simp only [costOK, Bool.and_eq_true] at hok
    intro pfx e bs hF
    simp only [toA, L.read]
    rw [A.run_bind, run_primA F cnt bs hF]
    cases h1 : cnt.decode bs with
    | none => rfl
    | some t =>
      obtain ⟨n, r⟩ := t
      have hr : r.length ≤ bs.length := by
        have h2 := run_primA F cnt bs hF; rw [h1] at h2; exact A.run_length_le _ _ _ _ h2
      simp only
      have hel := run_elemsA F (fun q e' => toA F body q e') (fun q => body.read q)
        (fun q e' bs' h => ihb hok.1.2 q e' bs' h) pfx name n.toInt.toNat 0 e r (by omega)
      rw [A.run_need]
      by_cases hk : n.toInt.toNat ≤ r.length
      · rw [if_pos hk, A.run_alloc, A.run_bind, hel]
        cases h3 : Layout.readElems (fun q => body.read q) pfx name 0 n.toInt.toNat e r with
        | none => rfl
        | some t1 =>
          obtain ⟨o1, e1, r1⟩ := t1
          have hr1 : r1.length ≤ r.length := by
            rw [h3] at hel; exact A.run_length_le _ _ _ _ hel
          simp only [Option.map_some, reshape]
          rw [A.run_map, ihr hok.2 pfx e1 r1 (by omega)]
          cases rest.read pfx e1 r1 with
          | none => rfl
          | some t2 => obtain ⟨o2, e2, r2⟩ := t2; rfl
      · rw [if_neg hk]
        -- the guard refuses only counts the loop would fail on: every element takes a byte
        cases h3 : Layout.readElems (fun q => body.read q) pfx name 0 n.toInt.toNat e r with
        | none => rfl
        | some t1 =>
          obtain ⟨o1, e1, r1⟩ := t1
          rw [h3] at hel
          have hbody := (paid_toA_all F body hok.1.2).2 hok.1.1
          have := elemsA_consumes (fun q e' => toA F body q e')
            (fun q e' bs' x r' hr' => consumes_of_paid (hbody q e') (by unfold SL; omega) bs' x r' hr')
            pfx name n.toInt.toNat 0 e r _ _ hel
          simp only at this
          omega
  | wrap body rest ihb ihr =>
    simp only [costOK, Bool.and_eq_true] at hok
    intro pfx e bs hF
    simp only [toA, L.read]
    rw [A.run_bind, A.run_ofP]
    cases h1 : P.run Prim.decBlob bs with
    | none => rfl
    | some t =>
      obtain ⟨inner, r⟩ := t
      have hp := decBlob_payload bs inner r h1
      simp only [A.run_alloc]
      rw [ihb hok.1 pfx e inner (by omega)]
      cases h3 : body.read pfx e inner with
      | none => rfl
      | some t1 =>
        obtain ⟨o1, e1, r1⟩ := t1
        simp only [Option.map_some, reshape]
        rw [A.run_map, ihr hok.2 pfx e1 r (by omega)]
        cases rest.read pfx e1 r with
        | none => rfl
        | some t2 => obtain ⟨o2, e2, r2⟩ := t2; rfl
  | kfld name p k rest ih =>
    simp only [costOK] at hok
    intro pfx e bs hF
    simp only [toA, L.read]
    rw [A.run_bind, run_primA F p bs hF]
    cases h1 : p.decode bs with
    | none => rfl
    | some t =>
      obtain ⟨v, r⟩ := t
      have hr : r.length ≤ bs.length := by
        have h2 := run_primA F p bs hF; rw [h1] at h2; exact A.run_length_le _ _ _ _ h2
      simp only
      rw [A.run_map, ih hok pfx e r (by omega)]
      cases rest.read pfx e r with
      | none => rfl
      | some t2 => obtain ⟨o, e', r'⟩ := t2; rfl
  | key name p vn rest ih =>
    simp only [costOK] at hok
    intro pfx e bs hF
    simp only [toA, L.read]
    rw [A.run_bind, run_primA F p bs hF]
    cases h1 : p.decode bs with
    | none => rfl
    | some t =>
      obtain ⟨v, r⟩ := t
      have hr : r.length ≤ bs.length := by
        have h2 := run_primA F p bs hF; rw [h1] at h2; exact A.run_length_le _ _ _ _ h2
      simp only
      rw [A.run_map, ih hok pfx _ r (by omega)]
      cases rest.read pfx (e.set vn v.toInt) r with
      | none => rfl
      | some t2 => obtain ⟨o, e', r'⟩ := t2; rfl
  | mopt m name body rest ihb ihr =>
    simp only [costOK, Bool.and_eq_true] at hok
    intro pfx e bs hF
    simp only [toA, L.read]
    rw [A.run_bind, run_primA F .u8 bs hF]
    cases h1 : Layout.Prim.decode .u8 bs with
    | none => rfl
    | some t =>
      obtain ⟨flag, r⟩ := t
      have hr : r.length ≤ bs.length := by
        have h2 := run_primA F .u8 bs hF; rw [h1] at h2; exact A.run_length_le _ _ _ _ h2
      simp only
      split
      · rw [A.run_bind, ihb hok.1 pfx e r (by omega)]
        cases h3 : body.read pfx e r with
        | none => rfl
        | some t1 =>
          obtain ⟨o1, e1, r1⟩ := t1
          have hr1 : r1.length ≤ r.length := by
            have h4 := ihb hok.1 pfx e r (by omega); rw [h3] at h4; exact A.run_length_le _ _ _ _ h4
          simp only [Option.map_some, reshape]
          rw [A.run_map, ihr hok.2 pfx e1 r1 (by omega)]
          cases rest.read pfx e1 r1 with
          | none => rfl
          | some t2 => obtain ⟨o2, e2, r2⟩ := t2; rfl
      · rw [A.run_map, ihr hok.2 pfx e r (by omega)]
        cases rest.read pfx e r with
        | none => rfl
        | some t2 => obtain ⟨o2, e2, r2⟩ := t2; rfl
  | vopt vn name body rest ihb ihr =>
    simp only [costOK, Bool.and_eq_true] at hok
    intro pfx e bs hF
    simp only [toA, L.read]
    rw [A.run_bind, run_primA F .u8 bs hF]
    cases h1 : Layout.Prim.decode .u8 bs with
    | none => rfl
    | some t =>
      obtain ⟨flag, r⟩ := t
      have hr : r.length ≤ bs.length := by
        have h2 := run_primA F .u8 bs hF; rw [h1] at h2; exact A.run_length_le _ _ _ _ h2
      simp only
      split
      · rw [A.run_bind, ihb hok.1 pfx _ r (by omega)]
        cases h3 : body.read pfx (e.set vn flag.toInt) r with
        | none => rfl
        | some t1 =>
          obtain ⟨o1, e1, r1⟩ := t1
          have hr1 : r1.length ≤ r.length := by
            have h4 := ihb hok.1 pfx (e.set vn flag.toInt) r (by omega); rw [h3] at h4; exact A.run_length_le _ _ _ _ h4
          simp only [Option.map_some, reshape]
          rw [A.run_map, ihr hok.2 pfx e1 r1 (by omega)]
          cases rest.read pfx e1 r1 with
          | none => rfl
          | some t2 => obtain ⟨o2, e2, r2⟩ := t2; rfl
      · rw [A.run_map, ihr hok.2 pfx _ r (by omega)]
        cases rest.read pfx (e.set vn 0) r with
        | none => rfl
        | some t2 => obtain ⟨o2, e2, r2⟩ := t2; rfl
  | mrep m name body rest ihb ihr =>
    simp only [costOK, Bool.and_eq_true] at hok
    intro pfx e bs hF
    simp only [toA, L.read]
    rw [A.run_bind, run_primA F .u8 bs hF]
    cases h1 : Layout.Prim.decode .u8 bs with
    | none => rfl
    | some t =>
      obtain ⟨b, r⟩ := t
      have hr : r.length ≤ bs.length := by
        have h2 := run_primA F .u8 bs hF; rw [h1] at h2; exact A.run_length_le _ _ _ _ h2
      simp only
      split
      · rw [A.run_map, ihr hok.2 pfx _ r (by omega)]
        cases rest.read pfx (e.set "" 0) r with
        | none => rfl
        | some t2 => obtain ⟨o2, e2, r2⟩ := t2; rfl
      · rw [A.run_bind, A.run_ofP]
        have hite : P.run (if b.toInt ≤ 8 then Prim.decDecimalLen b.toInt.toNat else Prim.decDecimal) r =
            (if b.toInt ≤ 8 then P.run (Prim.decDecimalLen b.toInt.toNat) r else P.run Prim.decDecimal r) := by
          split <;> rfl
        rw [← hite]
        cases h2 : P.run (if b.toInt ≤ 8 then Prim.decDecimalLen b.toInt.toNat else Prim.decDecimal) r with
        | none => rfl
        | some t0 =>
          obtain ⟨n, r0⟩ := t0
          have hr0 := P.run_length_le _ _ _ _ h2
          simp only
          have hel := run_elemsA F (fun q e' => toA F body q e') (fun q => body.read q)
            (fun q e' bs' h => ihb hok.1 q e' bs' h) pfx name n.toNat 0 (e.set "" b.toInt) r0 (by omega)
          rw [A.run_bind, hel]
          cases h3 : Layout.readElems (fun q => body.read q) pfx name 0 n.toNat (e.set "" b.toInt) r0 with
          | none => rfl
          | some t1 =>
            obtain ⟨o1, e1, r1⟩ := t1
            have hr1 : r1.length ≤ r0.length := by
              rw [h3] at hel; exact A.run_length_le _ _ _ _ hel
            simp only [Option.map_some, reshape]
            rw [A.run_map, ihr hok.2 pfx e1 r1 (by omega)]
            cases rest.read pfx e1 r1 with
            | none => rfl
            | some t2 => obtain ⟨o2, e2, r2⟩ := t2; rfl
  | vrep vn name body rest ihb ihr =>
    simp only [costOK, Bool.and_eq_true] at hok
    intro pfx e bs hF
    simp only [toA, L.read]
    rw [A.run_bind, run_primA F .u8 bs hF]
    cases h1 : Layout.Prim.decode .u8 bs with
    | none => rfl
    | some t =>
      obtain ⟨b, r⟩ := t
      have hr : r.length ≤ bs.length := by
        have h2 := run_primA F .u8 bs hF; rw [h1] at h2; exact A.run_length_le _ _ _ _ h2
      simp only
      split
      · rw [A.run_map, ihr hok.2 pfx _ r (by omega)]
        cases rest.read pfx (e.set vn 0) r with
        | none => rfl
        | some t2 => obtain ⟨o2, e2, r2⟩ := t2; rfl
      · rw [A.run_bind, A.run_ofP]
        have hite : P.run (if b.toInt ≤ 8 then Prim.decDecimalLen b.toInt.toNat else Prim.decDecimal) r =
            (if b.toInt ≤ 8 then P.run (Prim.decDecimalLen b.toInt.toNat) r else P.run Prim.decDecimal r) := by
          split <;> rfl
        rw [← hite]
        cases h2 : P.run (if b.toInt ≤ 8 then Prim.decDecimalLen b.toInt.toNat else Prim.decDecimal) r with
        | none => rfl
        | some t0 =>
          obtain ⟨n, r0⟩ := t0
          have hr0 := P.run_length_le _ _ _ _ h2
          simp only
          have hel := run_elemsA F (fun q e' => toA F body q e') (fun q => body.read q)
            (fun q e' bs' h => ihb hok.1 q e' bs' h) pfx name n.toNat 0 (e.set vn b.toInt) r0 (by omega)
          rw [A.run_bind, hel]
          cases h3 : Layout.readElems (fun q => body.read q) pfx name 0 n.toNat (e.set vn b.toInt) r0 with
          | none => rfl
          | some t1 =>
            obtain ⟨o1, e1, r1⟩ := t1
            have hr1 : r1.length ≤ r0.length := by
              rw [h3] at hel; exact A.run_length_le _ _ _ _ hel
            simp only [Option.map_some, reshape]
            rw [A.run_map, ihr hok.2 pfx e1 r1 (by omega)]
            cases rest.read pfx e1 r1 with
            | none => rfl
            | some t2 => obtain ⟨o2, e2, r2⟩ := t2; rfl
  | srep cnt body rest ihb ihr =>
    simp only [costOK, Bool.and_eq_true] at hok
    intro pfx e bs hF
    simp only [toA, L.read]
    rw [A.run_bind, run_primA F cnt bs hF]
    cases h1 : cnt.decode bs with
    | none => rfl
    | some t =>
      obtain ⟨n, r⟩ := t
      have hr : r.length ≤ bs.length := by
        have h2 := run_primA F cnt bs hF; rw [h1] at h2; exact A.run_length_le _ _ _ _ h2
      simp only
      have hel := run_elemsA F (fun q e' => toA F body q e') (fun q => body.read q)
        (fun q e' bs' h => ihb hok.1 q e' bs' h) pfx "" n.toInt.toNat 0 e r (by omega)
      rw [A.run_bind, hel]
      cases h3 : Layout.readElems (fun q => body.read q) pfx "" 0 n.toInt.toNat e r with
      | none => rfl
      | some t1 =>
        obtain ⟨o1, e1, r1⟩ := t1
        have hr1 : r1.length ≤ r.length := by
          rw [h3] at hel; exact A.run_length_le _ _ _ _ hel
        simp only [Option.map_some, reshape]
        exact ihr hok.2 pfx e1 r1 (by omega)
  | avail body ih =>
    simp only [costOK] at hok
    intro pfx e bs hF
    simp only [toA, L.read, A.run]
    split
    · rename_i hb
      have : bs = [] := by simpa using hb
      subst this; rfl
    · exact ih hok pfx e bs hF
end FailClosed
