/-
  Golib.FailClosed.Findings — what the code *as found* does (witnesses for D01 and D02),
  evaluated on the as-found semantics `runF` / `costF` of Golib.FailClosed.Alloc.
-/
import Golib.FailClosed.ValueAlloc

namespace FailClosed
open Prim Value

/-! ### D01 — a short read is answered with zero padding -/

/-- `ReadLong()` over the three bytes `01 02 03`: as found it returns 0x0102030000000000 -/
theorem d01_readLong_padded :
    A.runF (A.ofP (rdI 8)) [1, 2, 3] false = some (72623842526232576, []) := by decide +kernel

/-- … the repaired reader refuses -/
theorem d01_readLong_strict : A.run (A.ofP (rdI 8)) [1, 2, 3] = none := by decide +kernel

/-- the complete encoding decodes to the same number, so the caller cannot tell them apart -/
theorem d01_readLong_full :
    A.runF (A.ofP (rdI 8)) [1, 2, 3, 0, 0, 0, 0, 0] false = some (72623842526232576, []) := by
  decide +kernel

/-- a truncated value: `DecimalValue` tag, width 4, two of four bytes -/
def decOf : Value → Option Int
  | .dec v => some v
  | _ => none

theorem d01_value_padded :
    (A.runF (decVA false 3) [20, 4, 1, 2] false).map (fun p => (decOf p.1, p.2)) =
      some (some 16908288, []) := by decide +kernel

theorem d01_value_strict : (A.run (decVA true 3) [20, 4, 1, 2]).isNone = true := by decide +kernel

/-! ### D02 — allocation sized by a field of the input, before any availability check -/

/-- `ReadBlob` on `fe 7f ff ff ff`: `make([]byte, 0x7fffffff)` for a 5-byte input -/
theorem d02_blob_asFound :
    A.costF (A.ofP decBlob) [254, 127, 255, 255, 255] false = 2147483652 := by decide +kernel

theorem d02_blob_repaired : A.cost (A.ofP decBlob) [254, 127, 255, 255, 255] = 5 := by
  decide +kernel

/-- `ListValue.Read`: list tag, count 2^31-1 as a 4-byte decimal — 32 GiB for a 6-byte input -/
theorem d02_list_asFound :
    A.costF (decVA false 7) [70, 4, 127, 255, 255, 255] false = 34359738407 := by decide +kernel

theorem d02_list_repaired : A.cost (decVA true 7) [70, 4, 127, 255, 255, 255] = 54 := by
  decide +kernel

/-- `ReadTextArray`: count 32767 — 512 KiB of string headers for a 3-byte input; with the repaired
    `ReadBytes` but without the count guard the allocation is still made -/
theorem d02_textArray_asFound : A.costF (decVA false 3) [73, 127, 255] false = 524324 := by
  decide +kernel

theorem d02_textArray_unguarded : A.cost (decVA false 3) [73, 127, 255] = 524323 := by
  decide +kernel

theorem d02_textArray_repaired : A.cost (decVA true 3) [73, 127, 255] = 51 := by decide +kernel

end FailClosed
