/-
  Golib.FailClosed.PrimA — the primitive readers of io.DataInputX with their allocations.

  Only the count-prefixed array readers allocate ahead of reading (`v := make([]T, sz)` with
  `sz := int(in.ReadShort())`); every other reader allocates through `ReadBytes` only, which
  `A.cost` charges at the `read` nodes.  `arrA guarded w w' elem` is `Read<T>Array`:

      sz := ReadShort();  [repaired: if sz*w > Available() { panic }]
      v := make([]T, sz)  -- sz*w' bytes
      sz times: elem

  `w` = the least number of input bytes one element takes, `w'` = sizeof(T).
-/
import Golib.FailClosed.Alloc
import Golib.Prim.Ops

namespace FailClosed
open Prim

/-! ### how many bytes the element readers take -/

theorem read_consumes (n : Nat) (k : Bytes → P α) (bs : Bytes) (v : α) (r : Bytes)
    (h : P.run (.read n k) bs = some (v, r)) : r.length + n ≤ bs.length := by
  rw [P.run_read] at h
  split at h
  · have := P.run_length_le _ _ _ _ h
    have hl : (bs.drop n).length = bs.length - n := List.length_drop
    omega
  · simp at h

theorem rdI_consumes (w : Nat) (bs : Bytes) (v : Int) (r : Bytes)
    (h : P.run (rdI w) bs = some (v, r)) : r.length + w ≤ bs.length := read_consumes w _ bs v r h

theorem rdU_consumes (w : Nat) (bs : Bytes) (v : Nat) (r : Bytes)
    (h : P.run (rdU w) bs = some (v, r)) : r.length + w ≤ bs.length := read_consumes w _ bs v r h

theorem decBlob_consumes (bs : Bytes) (v : Bytes) (r : Bytes)
    (h : P.run decBlob bs = some (v, r)) : r.length + 1 ≤ bs.length := read_consumes 1 _ bs v r h

theorem decDecimal_consumes (bs : Bytes) (v : Int) (r : Bytes)
    (h : P.run decDecimal bs = some (v, r)) : r.length + 1 ≤ bs.length := read_consumes 1 _ bs v r h

theorem rdBool_consumes (bs : Bytes) (v : Bool) (r : Bytes)
    (h : P.run rdBool bs = some (v, r)) : r.length + 1 ≤ bs.length := read_consumes 1 _ bs v r h

theorem decManyAcc_consumes (elem : P α) (w : Nat)
    (he : ∀ bs v r, P.run elem bs = some (v, r) → r.length + w ≤ bs.length)
    (n : Nat) (acc : List α) (bs : Bytes) (xs : List α) (r : Bytes)
    (h : P.run (decManyAcc elem n acc) bs = some (xs, r)) : r.length + n * w ≤ bs.length := by
  induction n generalizing acc bs with
  | zero => simp [decManyAcc] at h; rw [h.2]; omega
  | succ n ih =>
    simp only [decManyAcc] at h
    rw [P.run_bind] at h
    cases h1 : P.run elem bs with
    | none => rw [h1] at h; simp at h
    | some x =>
      obtain ⟨v, r1⟩ := x
      rw [h1] at h; simp only at h
      have := ih _ _ h
      have := he _ _ _ h1
      rw [Nat.add_mul]; omega

theorem decMany_consumes (elem : P α) (w : Nat)
    (he : ∀ bs v r, P.run elem bs = some (v, r) → r.length + w ≤ bs.length)
    (n : Nat) (bs : Bytes) (xs : List α) (r : Bytes)
    (h : P.run (decMany elem n) bs = some (xs, r)) : r.length + n * w ≤ bs.length :=
  decManyAcc_consumes elem w he n [] bs xs r h

/-! ### guarded allocation ahead of reading -/

/-- `if N > Available() { panic }; make(…, u bytes); body` where `u ≤ d·N` and a successful
    `body` consumes at least `N` bytes: the allocation is paid at `d` more units per byte -/
theorem paid_need_alloc {c0 d s : Nat} (N u : Nat) (body : A α) (hb : Paid c0 s body)
    (hu : u ≤ d * N)
    (hcons : ∀ bs v r, A.run body bs = some (v, r) → r.length + N ≤ bs.length) :
    Paid (c0 + d) s (.need N (.alloc u body)) := by
  intro bs
  rw [A.run_need, A.cost_need]
  by_cases h : N ≤ bs.length
  · simp only [if_pos h, A.run_alloc, A.cost_alloc]
    have h1 := hb bs
    have hdn : d * N ≤ d * bs.length := Nat.mul_le_mul_left d h
    cases hr : A.run body bs with
    | none =>
      rw [hr] at h1; simp only at h1 ⊢
      rw [Nat.add_mul]; omega
    | some x =>
      obtain ⟨v, r⟩ := x
      rw [hr] at h1; simp only at h1 ⊢
      have h2 := hcons bs v r hr
      have h3 : d * (r.length + N) ≤ d * bs.length := Nat.mul_le_mul_left d h2
      rw [Nat.mul_add] at h3
      rw [Nat.add_mul, Nat.add_mul]; omega
  · simp [if_neg h]

theorem Paid.mono {c c' s : Nat} {a : A α} (h : Paid c s a) (hc : c ≤ c') : Paid c' s a := by
  intro bs
  have h1 := h bs
  cases hr : A.run a bs with
  | none =>
    rw [hr] at h1; simp only at h1 ⊢
    exact Nat.le_trans h1 (Nat.mul_le_mul_right _ hc)
  | some x =>
    obtain ⟨v, r⟩ := x
    rw [hr] at h1; simp only at h1 ⊢
    have hl := A.run_length_le a bs v r hr
    obtain ⟨e, he⟩ : ∃ e, bs.length = r.length + e := ⟨bs.length - r.length, by omega⟩
    obtain ⟨g, hg⟩ : ∃ g, c' = c + g := ⟨c' - c, by omega⟩
    rw [he, Nat.mul_add] at h1
    rw [he, hg, Nat.add_mul, Nat.add_mul, Nat.mul_add, Nat.mul_add]
    omega

/-! ### `Read<T>Array` -/

def arrBody (guarded : Bool) (w w' : Nat) (elem : P α) (n : Nat) : A (List α) :=
  if guarded then .need (n * w) (.alloc (n * w') (A.ofP (decMany elem n)))
  else .alloc (n * w') (A.ofP (decMany elem n))

def arrA (guarded : Bool) (w w' : Nat) (elem : P α) : A (List α) :=
  A.bind (A.ofP (rdI 2)) (fun n => if n < 0 then .fail else arrBody guarded w w' elem n.toNat)

/-- the guard is invisible: it refuses only counts the loop would have failed on anyway -/
theorem run_arrBody (guarded : Bool) (w w' : Nat) (elem : P α)
    (he : ∀ bs v r, P.run elem bs = some (v, r) → r.length + w ≤ bs.length) (n : Nat) (bs : Bytes) :
    A.run (arrBody guarded w w' elem n) bs = P.run (decMany elem n) bs := by
  unfold arrBody
  cases guarded with
  | false => simp [A.run_ofP]
  | true =>
    simp only [if_true, A.run_need, A.run_alloc, A.run_ofP]
    split
    · rfl
    · rename_i hn
      cases hr : P.run (decMany elem n) bs with
      | none => rfl
      | some x =>
        obtain ⟨xs, r⟩ := x
        have := decMany_consumes elem w he n bs xs r hr
        omega

theorem run_arrA (guarded : Bool) (w w' : Nat) (elem : P α)
    (he : ∀ bs v r, P.run elem bs = some (v, r) → r.length + w ≤ bs.length) (bs : Bytes) :
    A.run (arrA guarded w w' elem) bs = P.run (decArr elem) bs := by
  unfold arrA decArr
  rw [A.run_bind, P.run_bind, A.run_ofP]
  cases P.run (rdI 2) bs with
  | none => rfl
  | some x =>
    obtain ⟨n, r⟩ := x
    simp only
    split
    · rfl
    · exact run_arrBody guarded w w' elem he n.toNat r

theorem tailFree_arrA (guarded : Bool) (w w' : Nat) (elem : P α) : A.TailFree (arrA guarded w w' elem) := by
  unfold arrA
  apply A.tailFree_bind _ _ (A.tailFree_ofP _)
  intro n
  split
  · exact .fail
  · unfold arrBody
    cases guarded with
    | false => exact .alloc _ _ (A.tailFree_ofP _)
    | true => exact .need _ _ (.alloc _ _ (A.tailFree_ofP _))

/-- the repaired array reader allocates at most `1 + d` units per input byte (`w' ≤ d·w`) -/
theorem paid_arrA (w w' d : Nat) (elem : P α) (hw : w' ≤ d * w)
    (he : ∀ bs v r, P.run elem bs = some (v, r) → r.length + w ≤ bs.length) :
    Paid (1 + d) 0 (arrA true w w' elem) := by
  unfold arrA
  apply paid_bind (paid_ofP0 _ (by omega))
  intro n
  split
  · exact paid_fail _ _
  · unfold arrBody
    simp only [if_true]
    apply paid_need_alloc (c0 := 1) (d := d) _ _ _ (paid_ofP0 _ (Nat.le_refl 1))
    · calc n.toNat * w' ≤ n.toNat * (d * w) := Nat.mul_le_mul_left _ hw
        _ = d * (n.toNat * w) := by rw [Nat.mul_left_comm]
    · intro bs v r h
      rw [A.run_ofP] at h
      exact decMany_consumes elem w he _ bs v r h

/-! ### typed read programs (Golib.Prim.Ops) with their allocations -/

def readOpA (g : Bool) : Op → A Op
  | .shortArr _ => A.map Op.shortArr (arrA g 2 2 (rdI 2))
  | .intArr _ => A.map Op.intArr (arrA g 4 4 (rdI 4))
  | .longArr _ => A.map Op.longArr (arrA g 8 8 (rdI 8))
  | .floatArr _ => A.map Op.floatArr (arrA g 4 4 (rdU 4))
  | .doubleArr _ => A.map Op.doubleArr (arrA g 8 8 (rdU 8))
  | .textArr _ => A.map Op.textArr (arrA g 1 16 decBlob)
  | .bool b => A.ofP (readOp (.bool b))
  | .byte b => A.ofP (readOp (.byte b))
  | .short b => A.ofP (readOp (.short b))
  | .ushort b => A.ofP (readOp (.ushort b))
  | .int3 b => A.ofP (readOp (.int3 b))
  | .int b => A.ofP (readOp (.int b))
  | .long5 b => A.ofP (readOp (.long5 b))
  | .long b => A.ofP (readOp (.long b))
  | .float b => A.ofP (readOp (.float b))
  | .double b => A.ofP (readOp (.double b))
  | .decimal b => A.ofP (readOp (.decimal b))
  | .blob b => A.ofP (readOp (.blob b))
  | .text b => A.ofP (readOp (.text b))
  | .shortBytes b => A.ofP (readOp (.shortBytes b))
  | .intBytes b => A.ofP (readOp (.intBytes b))
  | .textShort b => A.ofP (readOp (.textShort b))

/-- right-nested with an accumulator (linear time in the driver) -/
def readAllAcc (g : Bool) : List Op → List Op → A (List Op)
  | [], acc => .pure acc.reverse
  | op :: ops, acc => A.bind (readOpA g op) (fun v => readAllAcc g ops (v :: acc))

def readAllA (g : Bool) (ops : List Op) : A (List Op) := readAllAcc g ops []

theorem run_map_ofP (f : α → β) (p : P α) (bs : Bytes) :
    A.run (A.map f (A.ofP p)) bs = P.run (P.map f p) bs := by
  rw [A.run_map, A.run_ofP]
  unfold P.map
  rw [P.run_bind]
  cases P.run p bs with
  | none => rfl
  | some x => obtain ⟨v, r⟩ := x; rfl

theorem run_map_arrA (g : Bool) (f : List α → β) (w w' : Nat) (elem : P α)
    (he : ∀ bs v r, P.run elem bs = some (v, r) → r.length + w ≤ bs.length) (bs : Bytes) :
    A.run (A.map f (arrA g w w' elem)) bs = P.run (P.map f (decArr elem)) bs := by
  rw [A.run_map, run_arrA g w w' elem he]
  unfold P.map
  rw [P.run_bind]
  cases P.run (decArr elem) bs with
  | none => rfl
  | some x => obtain ⟨v, r⟩ := x; rfl

/-- the instrumented read of one operation decodes exactly what `Prim.readOp` decodes -/
theorem run_readOpA (g : Bool) (op : Op) (bs : Bytes) :
    A.run (readOpA g op) bs = P.run (readOp op) bs := by
  cases op
  case shortArr xs => exact run_map_arrA g _ 2 2 _ (rdI_consumes 2) bs
  case intArr xs => exact run_map_arrA g _ 4 4 _ (rdI_consumes 4) bs
  case longArr xs => exact run_map_arrA g _ 8 8 _ (rdI_consumes 8) bs
  case floatArr xs => exact run_map_arrA g _ 4 4 _ (rdU_consumes 4) bs
  case doubleArr xs => exact run_map_arrA g _ 8 8 _ (rdU_consumes 8) bs
  case textArr xs => exact run_map_arrA g _ 1 16 _ decBlob_consumes bs
  all_goals exact A.run_ofP _ _

theorem run_readAllAcc (g : Bool) (ops acc : List Op) (bs : Bytes) :
    A.run (readAllAcc g ops acc) bs =
      (P.run (readAll ops) bs).map (fun (vs, r) => (acc.reverse ++ vs, r)) := by
  induction ops generalizing acc bs with
  | nil => simp [readAllAcc, readAll]
  | cons op ops ih =>
    simp only [readAllAcc, readAll]
    rw [A.run_bind, P.run_bind, run_readOpA]
    cases P.run (readOp op) bs with
    | none => rfl
    | some x =>
      obtain ⟨v, r⟩ := x
      simp only
      rw [ih, P.run_bind]
      cases P.run (readAll ops) r with
      | none => rfl
      | some y => obtain ⟨vs, r'⟩ := y; simp

/-- … and a program of them decodes exactly what `Prim.readAll` decodes -/
theorem run_readAllA (g : Bool) (ops : List Op) (bs : Bytes) :
    A.run (readAllA g ops) bs = P.run (readAll ops) bs := by
  unfold readAllA
  rw [run_readAllAcc]
  cases P.run (readAll ops) bs with
  | none => rfl
  | some y => obtain ⟨vs, r'⟩ := y; simp

theorem tailFree_readOpA (g : Bool) (op : Op) : A.TailFree (readOpA g op) := by
  cases op
  case shortArr xs => exact A.tailFree_map _ _ (tailFree_arrA _ _ _ _)
  case intArr xs => exact A.tailFree_map _ _ (tailFree_arrA _ _ _ _)
  case longArr xs => exact A.tailFree_map _ _ (tailFree_arrA _ _ _ _)
  case floatArr xs => exact A.tailFree_map _ _ (tailFree_arrA _ _ _ _)
  case doubleArr xs => exact A.tailFree_map _ _ (tailFree_arrA _ _ _ _)
  case textArr xs => exact A.tailFree_map _ _ (tailFree_arrA _ _ _ _)
  all_goals exact A.tailFree_ofP _

theorem tailFree_readAllAcc (g : Bool) (ops acc : List Op) : A.TailFree (readAllAcc g ops acc) := by
  induction ops generalizing acc with
  | nil => exact .pure _
  | cons op ops ih => exact A.tailFree_bind _ _ (tailFree_readOpA g op) (fun v => ih _)

theorem paid_readOpA (op : Op) : Paid 17 0 (readOpA true op) := by
  cases op
  case shortArr xs => exact paid_map _ ((paid_arrA 2 2 1 _ (by omega) (rdI_consumes 2)).mono (by omega))
  case intArr xs => exact paid_map _ ((paid_arrA 4 4 1 _ (by omega) (rdI_consumes 4)).mono (by omega))
  case longArr xs => exact paid_map _ ((paid_arrA 8 8 1 _ (by omega) (rdI_consumes 8)).mono (by omega))
  case floatArr xs => exact paid_map _ ((paid_arrA 4 4 1 _ (by omega) (rdU_consumes 4)).mono (by omega))
  case doubleArr xs => exact paid_map _ ((paid_arrA 8 8 1 _ (by omega) (rdU_consumes 8)).mono (by omega))
  case textArr xs => exact paid_map _ (paid_arrA 1 16 16 _ (by omega) decBlob_consumes)
  all_goals exact paid_ofP0 _ (by omega)

theorem paid_readAllAcc (ops acc : List Op) : Paid 17 0 (readAllAcc true ops acc) := by
  induction ops generalizing acc with
  | nil => exact paid_pure _ _
  | cons op ops ih => exact paid_bind (paid_readOpA op) (fun v => ih _)

/-- **alloc_bounded** for programs of primitive reads (repaired code): at most 17 bytes are
    allocated per input byte (16 = a string header per 1-byte empty text of a text array) -/
theorem cost_readAllA_le (ops : List Op) (bs : Bytes) :
    A.cost (readAllA true ops) bs ≤ 17 * bs.length :=
  (paid_readAllAcc ops []).bounded bs

end FailClosed
