/-
  Golib.FailClosed.ValueA — `value.ReadValue` with its allocations (property C04).

  `decVA fx` is the decoder of Golib.Value.Model (`Value.decV`) written in the instrumented
  syntax `A`.  `fx = false` is the code as found, `fx = true` the repaired code:

  * ListValue.Read      as found:  `this.table = make([]interface{}, count)` — 16·count bytes
                                    before the first element is read;
                        repaired:  the table grows with the elements actually decoded
                                    (`append`), `slot` bytes charged per decoded element;
  * Read<T>Array        as found:  `make([]T, sz)` unguarded; repaired: `sz·w ≤ Available()` first
                                    (Golib.FailClosed.PrimA.arrA);
  * Map/IntMapValue     both: one linked-map entry per decoded pair (`slot` bytes, charged after
                                    the pair has been read);
  * every value          both: the object made by `CreateValue` (`objUnits`: 1088 bytes for the two
                                    map types, whose constructor allocates a 101-bucket table).

  `run_decVA` shows the instrumented decoder decodes exactly what `Value.decV` decodes, for
  both variants (the guards and the allocation order are invisible in the result).
-/
import Golib.FailClosed.PrimA
import Golib.Value.Model

namespace FailClosed
open Prim Value

/-- amortised bookkeeping bytes per decoded element: a 16-byte interface slot under Go's
    `append` growth (≤ 5× + size-class rounding), or one linked-map entry -/
def slot : Nat := 96

/-- what the constructor behind a type byte allocates (`CreateValue`): the linked map of a
    Map/IntMapValue has a 101-bucket table (measured: 1048 bytes), every other value object is
    at most 32 bytes -/
def objUnits (t : Nat) : Nat := if t = 80 ∨ t = 81 then 1088 else 48

mutual
def decVA (fx : Bool) : Nat → A Value
  | 0 => .fail
  | f+1 => .read 1 (fun t => .alloc (objUnits (t.headD 0)) <|
    match t.headD 0 with
    | 0 => .pure .null
    | 10 => A.map Value.bool (A.ofP rdBool)
    | 20 => A.map Value.dec (A.ofP decDecimal)
    | 21 => A.map Value.int (A.ofP (rdI 4))
    | 22 => A.map Value.long (A.ofP (rdI 8))
    | 30 => A.map Value.f32 (A.ofP (rdU 4))
    | 40 => A.map Value.f64 (A.ofP (rdU 8))
    | 45 => A.ofP (P.bind (rdU 8) (fun s => P.bind (rdI 4) (fun c => P.bind (rdU 8) (fun mn =>
              P.bind (rdU 8) (fun mx => .pure (Value.dsum s c mn mx))))))
    | 46 => A.ofP (P.bind (rdI 8) (fun s => P.bind (rdI 4) (fun c => P.bind (rdI 8) (fun mn =>
              P.bind (rdI 8) (fun mx => .pure (Value.lsum s c mn mx))))))
    | 50 => A.map Value.text (A.ofP decBlob)
    | 51 => A.map Value.hash (A.ofP (rdI 4))
    | 60 => A.map Value.blob (A.ofP decBlob)
    | 61 => A.map Value.ip4 (A.ofP (rdBytes 4))
    | 70 => A.bind (A.ofP decDecimal) (fun n =>
              if n < 0 then .fail
              else if fx then A.map Value.list (decVsA fx f n.toNat [])
              else .alloc (16 * n.toNat) (A.map Value.list (decVsA fx f n.toNat [])))
    | 71 => A.map Value.ai (arrA fx 4 4 (rdI 4))
    | 72 => A.map Value.af (arrA fx 4 4 (rdU 4))
    | 73 => A.map Value.at (arrA fx 1 16 decBlob)
    | 74 => A.map Value.al (arrA fx 8 8 (rdI 8))
    | 80 => A.bind (A.ofP decDecimal) (fun n => A.map Value.map (decKVsA fx f n.toNat []))
    | 81 => A.bind (A.ofP decDecimal) (fun n => A.map Value.imap (decIKVsA fx f n.toNat []))
    | _ => .fail)
def decVsA (fx : Bool) : Nat → Nat → List Value → A (List Value)
  | _, 0, acc => .pure acc.reverse
  | 0, _+1, _ => .fail
  | f+1, c+1, acc =>
    A.bind (decVA fx f) (fun x =>
      .alloc (if fx then slot else 0) (decVsA fx f c (x :: acc)))
def decKVsA (fx : Bool) : Nat → Nat → List (Bytes × Value) → A (List (Bytes × Value))
  | _, 0, acc => .pure acc
  | 0, _+1, _ => .fail
  | f+1, c+1, acc =>
    A.bind (A.ofP decBlob) (fun k => A.bind (decVA fx f) (fun v =>
      .alloc slot (decKVsA fx f c (putKV acc k v))))
def decIKVsA (fx : Bool) : Nat → Nat → List (Int × Value) → A (List (Int × Value))
  | _, 0, acc => .pure acc
  | 0, _+1, _ => .fail
  | f+1, c+1, acc =>
    A.bind (A.ofP (rdI 4)) (fun k => A.bind (decVA fx f) (fun v =>
      .alloc slot (decIKVsA fx f c (putKV acc k v))))
end

/-- `ReadValue` on a whole input, fuel from the input length (as `Value.decode`) -/
def decodeA (fx : Bool) (bs : Bytes) : A Value := decVA fx (bs.length + 1)

end FailClosed
