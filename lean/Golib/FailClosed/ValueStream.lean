/-
  Golib.FailClosed.ValueStream — `value.ReadValue` on the stream input path.

  On a connection `CheckCount` is a no-op (the number of bytes to come is unknown), so the decoder
  that runs there is the one without guards, `decVA false`.  It has neither guards nor tails, hence
  it IS a program of the decoder monad (`A.run_eq_toP`) and the fragmentation theorems of
  Golib.FailClosed.Stream apply to it: `valueP f` decodes over a connection what `Value.decV f`
  decodes from the concatenated bytes.
-/
import Golib.FailClosed.ValueACorrect
import Golib.FailClosed.Stream

namespace FailClosed
open Prim Value

theorem needFree_arrA_false (w w' : Nat) (elem : P α) : A.NeedFree (arrA false w w' elem) := by
  unfold arrA
  apply A.needFree_bind _ _ (A.needFree_ofP _)
  intro n
  split
  · exact .fail
  · unfold arrBody; exact .alloc _ _ (A.needFree_ofP _)

theorem needFree_decVA_all (f : Nat) :
    A.NeedFree (decVA false f) ∧
    (∀ c acc, A.NeedFree (decVsA false f c acc)) ∧
    (∀ c acc, A.NeedFree (decKVsA false f c acc)) ∧
    (∀ c acc, A.NeedFree (decIKVsA false f c acc)) := by
  induction f with
  | zero =>
    refine ⟨?_, ?_, ?_, ?_⟩
    · simp only [decVA]; exact .fail
    · intro c acc; cases c <;> simp only [decVsA] <;> first | exact .pure _ | exact .fail
    · intro c acc; cases c <;> simp only [decKVsA] <;> first | exact .pure _ | exact .fail
    · intro c acc; cases c <;> simp only [decIKVsA] <;> first | exact .pure _ | exact .fail
  | succ f ih =>
    obtain ⟨ihV, ihVs, ihK, ihI⟩ := ih
    refine ⟨?_, ?_, ?_, ?_⟩
    · simp only [decVA]
      apply A.NeedFree.read
      intro t
      apply A.NeedFree.alloc
      split
      case h_1 => exact .pure _
      case h_2 => exact A.needFree_map _ _ (A.needFree_ofP _)
      case h_3 => exact A.needFree_map _ _ (A.needFree_ofP _)
      case h_4 => exact A.needFree_map _ _ (A.needFree_ofP _)
      case h_5 => exact A.needFree_map _ _ (A.needFree_ofP _)
      case h_6 => exact A.needFree_map _ _ (A.needFree_ofP _)
      case h_7 => exact A.needFree_map _ _ (A.needFree_ofP _)
      case h_8 => exact A.needFree_ofP _
      case h_9 => exact A.needFree_ofP _
      case h_10 => exact A.needFree_map _ _ (A.needFree_ofP _)
      case h_11 => exact A.needFree_map _ _ (A.needFree_ofP _)
      case h_12 => exact A.needFree_map _ _ (A.needFree_ofP _)
      case h_13 => exact A.needFree_map _ _ (A.needFree_ofP _)
      case h_14 =>
        apply A.needFree_bind _ _ (A.needFree_ofP _)
        intro n
        split
        · exact .fail
        · simp only [Bool.false_eq_true, if_false]
          exact .alloc _ _ (A.needFree_map _ _ (ihVs _ _))
      case h_15 => exact A.needFree_map _ _ (needFree_arrA_false _ _ _)
      case h_16 => exact A.needFree_map _ _ (needFree_arrA_false _ _ _)
      case h_17 => exact A.needFree_map _ _ (needFree_arrA_false _ _ _)
      case h_18 => exact A.needFree_map _ _ (needFree_arrA_false _ _ _)
      case h_19 => exact A.needFree_bind _ _ (A.needFree_ofP _) (fun n => A.needFree_map _ _ (ihK _ _))
      case h_20 => exact A.needFree_bind _ _ (A.needFree_ofP _) (fun n => A.needFree_map _ _ (ihI _ _))
      case h_21 => exact .fail
    · intro c acc
      cases c with
      | zero => simp only [decVsA]; exact .pure _
      | succ c =>
        simp only [decVsA]
        exact A.needFree_bind _ _ ihV (fun x => .alloc _ _ (ihVs _ _))
    · intro c acc
      cases c with
      | zero => simp only [decKVsA]; exact .pure _
      | succ c =>
        simp only [decKVsA]
        exact A.needFree_bind _ _ (A.needFree_ofP _) (fun k =>
          A.needFree_bind _ _ ihV (fun x => .alloc _ _ (ihK _ _)))
    · intro c acc
      cases c with
      | zero => simp only [decIKVsA]; exact .pure _
      | succ c =>
        simp only [decIKVsA]
        exact A.needFree_bind _ _ (A.needFree_ofP _) (fun k =>
          A.needFree_bind _ _ ihV (fun x => .alloc _ _ (ihI _ _)))

/-- `value.ReadValue` as a program of the decoder monad -/
def valueP (f : Nat) : P Value := A.toP (decVA false f)

theorem run_valueP (f : Nat) (bs : Bytes) : P.run (valueP f) bs = decV f bs := by
  unfold valueP
  rw [← A.run_eq_toP _ (needFree_decVA_all f).1, run_decVA]

/-- over any fragmentation of a connection the value decoder does what `Value.decV` does on the
    concatenated bytes -/
theorem value_stream (f : Nat) (c : Conn) :
    match runC (valueP f) c with
    | some (v, c') => decV f c.bytes = some (v, c'.bytes)
    | none => decV f c.bytes = none := by
  have := runC_eq (valueP f) c
  rw [run_valueP] at this
  cases hr : runC (valueP f) c with
  | none => rw [hr] at this; exact this
  | some x => obtain ⟨v, c'⟩ := x; rw [hr] at this; exact this

/-- a connection that ends before the end of a complete value encoding makes the value decoder fail -/
theorem value_stream_cut_fails (f : Nat) (c : Conn) (s : Bytes) (v : Value) (hs : s ≠ [])
    (h : decV f (c.bytes ++ s) = some (v, [])) : runC (valueP f) c = none := by
  apply stream_prefix_fails (valueP f) c s v hs
  rw [run_valueP]; exact h

end FailClosed
