/-
  Golib.FailClosed.PackA — one count-prefixed pack in the instrumented syntax: `pack.TextPack`.

      AbstractPack.Read;  size := ReadDecimal()
      [repaired: din.CheckCount(size, 6)]
      records = make([]TextRec, size)            -- 24 bytes each
      size times: div := ReadByte(); hash := ReadInt(); text := ReadText()

  (the SM packs, CompositePack's guard, ReadDecimalArray* and BuildHyperLogLog have the same
  shape: a count, a guard, an allocation, a loop — `arrBody`)
-/
import Golib.FailClosed.PrimA

namespace FailClosed
open Prim

/-- `AbstractPack.Read` -/
def headerP : P Unit :=
  .read 1 (fun v =>
    if v.headD 0 ≤ 8 then
      P.bind (decDecimalLen (v.headD 0)) (fun _ => P.bind (rdI 4) (fun _ => P.bind (rdI 8) (fun _ => .pure ())))
    else
      P.bind decDecimal (fun _ => P.bind (rdI 4) (fun _ => P.bind (rdI 4) (fun _ =>
        P.bind (rdI 4) (fun _ => P.bind (rdI 8) (fun _ => .pure ()))))))

/-- one `TextRec` -/
def textRec : P (Nat × Int × Bytes) :=
  P.bind (rdU 1) (fun d => P.bind (rdI 4) (fun h => P.bind decBlob (fun t => .pure (d, h, t))))

theorem textRec_consumes (bs : Bytes) (v : Nat × Int × Bytes) (r : Bytes)
    (h : P.run textRec bs = some (v, r)) : r.length + 6 ≤ bs.length := by
  unfold textRec at h
  rw [P.run_bind] at h
  cases h1 : P.run (rdU 1) bs with
  | none => rw [h1] at h; simp at h
  | some x =>
    obtain ⟨d, r1⟩ := x
    rw [h1] at h; simp only at h
    rw [P.run_bind] at h
    cases h2 : P.run (rdI 4) r1 with
    | none => rw [h2] at h; simp at h
    | some y =>
      obtain ⟨hh, r2⟩ := y
      rw [h2] at h; simp only at h
      rw [P.run_bind] at h
      cases h3 : P.run decBlob r2 with
      | none => rw [h3] at h; simp at h
      | some z =>
        obtain ⟨t, r3⟩ := z
        rw [h3] at h; simp only [P.run_pure, Option.some.injEq, Prod.mk.injEq] at h
        have a1 := rdU_consumes 1 _ _ _ h1
        have a2 := rdI_consumes 4 _ _ _ h2
        have a3 := decBlob_consumes _ _ _ h3
        rw [← h.2]; omega

def textPackA (guarded : Bool) : A (List (Nat × Int × Bytes)) :=
  A.bind (A.ofP headerP) (fun _ => A.bind (A.ofP decDecimal) (fun n =>
    if n < 0 then .fail else arrBody guarded 6 24 textRec n.toNat))

theorem tailFree_textPackA (g : Bool) : A.TailFree (textPackA g) := by
  unfold textPackA
  apply A.tailFree_bind _ _ (A.tailFree_ofP _)
  intro _
  apply A.tailFree_bind _ _ (A.tailFree_ofP _)
  intro n
  split
  · exact .fail
  · unfold arrBody
    cases g with
    | false => exact .alloc _ _ (A.tailFree_ofP _)
    | true => exact .need _ _ (.alloc _ _ (A.tailFree_ofP _))

/-- the guard of the repaired TextPack.Read is invisible in the result -/
theorem run_textPackA (bs : Bytes) : A.run (textPackA true) bs = A.run (textPackA false) bs := by
  unfold textPackA
  rw [A.run_bind, A.run_bind]
  cases A.run (A.ofP headerP) bs with
  | none => rfl
  | some x =>
    obtain ⟨_, r⟩ := x
    simp only
    rw [A.run_bind, A.run_bind]
    cases A.run (A.ofP decDecimal) r with
    | none => rfl
    | some y =>
      obtain ⟨n, r1⟩ := y
      simp only
      split
      · rfl
      · rw [run_arrBody true 6 24 textRec textRec_consumes, run_arrBody false 6 24 textRec textRec_consumes]

/-- repaired `TextPack.Read`: at most 5 bytes allocated per input byte, on every input -/
theorem paid_textPackA : Paid 5 0 (textPackA true) := by
  unfold textPackA
  apply paid_bind (paid_ofP0 _ (by omega))
  intro _
  apply paid_bind (paid_ofP0 _ (by omega))
  intro n
  split
  · exact paid_fail _ _
  · unfold arrBody
    simp only [if_true]
    apply paid_need_alloc (c0 := 1) (d := 4) _ _ _ (paid_ofP0 _ (Nat.le_refl 1))
    · omega
    · intro bs v r h
      rw [A.run_ofP] at h
      exact decMany_consumes textRec 6 textRec_consumes _ bs v r h

/-- as found: header (14 bytes), then the count 2^31-1 — 48 GiB requested for a 19-byte input -/
theorem textPack_witness :
    A.cost (textPackA false) [0, 0, 0, 0, 1, 0, 0, 0, 0, 0, 0, 0, 2, 4, 127, 255, 255, 255] = 51539607546 := by
  decide +kernel

theorem textPack_witness_repaired :
    A.cost (textPackA true) [0, 0, 0, 0, 1, 0, 0, 0, 0, 0, 0, 0, 2, 4, 127, 255, 255, 255] = 18 := by
  decide +kernel

end FailClosed
