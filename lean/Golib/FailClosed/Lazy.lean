/-
  Golib.FailClosed.Lazy — two-phase (lazy) decoding: fail-closed on every later look.

  `StatGeneralPack` keeps the encoded table (`dataBytes`) after `Read` and decodes it on the first
  `GetDataTable()` / `Get()` / `Iterate()` (`unpack`):

      if len(this.dataBytes) > 0 { this.readTable(this.dataBytes, this.data); this.dataBytes = nil }

  `readTable` puts the columns into `this.data` one after the other and panics at the first one it
  cannot decode.  `Obj` is that object: the bytes still to decode and the table; `parse` is the
  column decoder (the columns it got through, and whether it reached the end); `unpack` follows the
  code: the bytes are dropped only AFTER the table decoded completely.

    unpack_error_sticky   a failed `unpack` keeps the bytes, so every later access fails as well
    unpack_error_stable   … and (the column `put` being idempotent) leaves the very same state behind
    write_after_error     what `Write` emits afterwards is what it emitted before: the undecoded bytes
    unpack_ok_idempotent  after a successful `unpack` further accesses return the same table

  `unpackDropFirst` is the other order (bytes dropped before decoding): `dropFirst_not_fail_closed`
  shows a damaged table accepted on the second access, with the partial columns, and re-encoded.
-/
import Golib.Basic

namespace FailClosed.Lazy

structure Obj (T : Type) where
  raw : Bytes
  table : T

variable {T C : Type}

/-- outcome of an access: the object afterwards, and whether the access failed (panicked) -/
inductive Res (T : Type) where
  | ok (s : Obj T)
  | err (s : Obj T)

def Res.obj : Res T → Obj T
  | .ok s => s
  | .err s => s

def Res.failed : Res T → Bool
  | .ok _ => false
  | .err _ => true

/-- put the columns into the table, in order -/
def putAll (put : T → C → T) (t : T) (cols : List C) : T := cols.foldl put t

/-- `unpack` as the code does it -/
def unpack (parse : Bytes → List C × Bool) (put : T → C → T) (s : Obj T) : Res T :=
  if s.raw.isEmpty then .ok s
  else
    let p := parse s.raw
    if p.2 then .ok ⟨[], putAll put s.table p.1⟩
    else .err ⟨s.raw, putAll put s.table p.1⟩      -- panic inside readTable: dataBytes untouched

/-- the wrong order: `dataBytes = nil` before `readTable` -/
def unpackDropFirst (parse : Bytes → List C × Bool) (put : T → C → T) (s : Obj T) : Res T :=
  if s.raw.isEmpty then .ok s
  else
    let p := parse s.raw
    if p.2 then .ok ⟨[], putAll put s.table p.1⟩
    else .err ⟨[], putAll put s.table p.1⟩

/-- `Write`: the cached bytes when there are any, else the encoded table -/
def write (enc : T → Bytes) (s : Obj T) : Bytes := if s.raw.isEmpty then enc s.table else s.raw

/-- `IsEmpty()` -/
def isEmpty (empty : T → Bool) (s : Obj T) : Bool := s.raw.isEmpty && empty s.table

theorem unpack_error_raw (parse : Bytes → List C × Bool) (put : T → C → T) (s s' : Obj T)
    (h : unpack parse put s = .err s') : s'.raw = s.raw ∧ s.raw ≠ [] ∧ (parse s.raw).2 = false := by
  unfold unpack at h
  split at h
  · cases h
  · rename_i hne
    simp only at h
    split at h
    · cases h
    · rename_i hp
      cases h
      exact ⟨rfl, by intro hh; rw [hh] at hne; simp at hne, by simpa using hp⟩

/-- **a failed lazy decode fails on every later access** -/
theorem unpack_error_sticky (parse : Bytes → List C × Bool) (put : T → C → T) (s s' : Obj T)
    (h : unpack parse put s = .err s') : (unpack parse put s').failed = true := by
  obtain ⟨h1, h2, h3⟩ := unpack_error_raw parse put s s' h
  unfold unpack
  have hne : s.raw.isEmpty = false := by
    cases hs : s.raw with
    | nil => exact absurd hs h2
    | cons _ _ => rfl
  simp only [h1, hne, Bool.false_eq_true, if_false, h3]
  rfl

/-- … any number of accesses later -/
def accessN (parse : Bytes → List C × Bool) (put : T → C → T) : Nat → Obj T → Res T
  | 0, s => unpack parse put s
  | n+1, s => accessN parse put n (unpack parse put s).obj

theorem unpack_error_forever (parse : Bytes → List C × Bool) (put : T → C → T) (n : Nat) (s s' : Obj T)
    (h : unpack parse put s = .err s') : (accessN parse put n s').failed = true := by
  induction n generalizing s s' with
  | zero => exact unpack_error_sticky parse put s s' h
  | succ n ih =>
    simp only [accessN]
    have hs := unpack_error_sticky parse put s s' h
    cases hr : unpack parse put s' with
    | ok x => rw [hr] at hs; simp [Res.failed] at hs
    | err x => exact ih s' x hr

/-- what `Write` emits after a failed access is what it emitted before it: the undecoded bytes -/
theorem write_after_error (parse : Bytes → List C × Bool) (put : T → C → T) (enc : T → Bytes)
    (s s' : Obj T) (h : unpack parse put s = .err s') : write enc s' = write enc s ∧ write enc s' = s.raw := by
  obtain ⟨h1, h2, _⟩ := unpack_error_raw parse put s s' h
  unfold write
  have hne : s.raw.isEmpty = false := by
    cases hs : s.raw with
    | nil => exact absurd hs h2
    | cons _ _ => rfl
  rw [h1, hne]; simp

/-- `IsEmpty()` stays false after a failed access -/
theorem isEmpty_after_error (parse : Bytes → List C × Bool) (put : T → C → T) (empty : T → Bool)
    (s s' : Obj T) (h : unpack parse put s = .err s') : isEmpty empty s' = false := by
  obtain ⟨h1, h2, _⟩ := unpack_error_raw parse put s s' h
  unfold isEmpty
  rw [h1]
  cases hs : s.raw with
  | nil => exact absurd hs h2
  | cons _ _ => rfl

/-- with an idempotent column `put` (a keyed table) the state after the first failure is final -/
theorem unpack_error_stable (parse : Bytes → List C × Bool) (put : T → C → T)
    (hput : ∀ t cols, putAll put (putAll put t cols) cols = putAll put t cols)
    (s s' : Obj T) (h : unpack parse put s = .err s') : unpack parse put s' = .err s' := by
  obtain ⟨h1, h2, h3⟩ := unpack_error_raw parse put s s' h
  have ht : s'.table = putAll put s.table (parse s.raw).1 := by
    unfold unpack at h
    split at h
    · cases h
    · simp only [h3, Bool.false_eq_true, if_false] at h
      cases h; rfl
  unfold unpack
  have hne : s.raw.isEmpty = false := by
    cases hs : s.raw with
    | nil => exact absurd hs h2
    | cons _ _ => rfl
  simp only [h1, hne, Bool.false_eq_true, if_false, h3]
  cases s' with
  | mk r t =>
    simp only at h1 ht
    subst h1; subst ht
    rw [hput]

/-- after a successful decode further accesses change nothing -/
theorem unpack_ok_idempotent (parse : Bytes → List C × Bool) (put : T → C → T) (s s' : Obj T)
    (h : unpack parse put s = .ok s') : unpack parse put s' = .ok s' := by
  unfold unpack at h
  split at h
  · cases h; unfold unpack; rename_i he; rw [if_pos he]
  · simp only at h
    split at h
    · cases h; unfold unpack; simp
    · cases h

/-! ### histories: every two-phase decoder, every sequence of looks at the same object

    `Spec` is a two-phase decoder in general: `cache = true` keeps the decoded form and drops the
    bytes after a complete decode (StatGeneralPack's table), `cache = false` decodes the kept bytes
    afresh on every access and never changes the object (ZipPack / LogSinkZipPack / Stat*Pack /
    SMDownCheckPack `GetRecords`).  A history is any list of operations on one object. -/

structure Spec (T C : Type) where
  parse : Bytes → List C × Bool
  put : T → C → T
  enc : T → Bytes
  empty : T → Bool
  cache : Bool

inductive Op where
  | access | write | isEmpty
deriving DecidableEq, Repr

inductive Obs (T : Type) where
  | failed
  | table (t : T)
  | bytes (b : Bytes)
  | bool (b : Bool)

def step (S : Spec T C) (s : Obj T) : Op → Obj T × Obs T
  | .access =>
    -- a caching decoder with nothing pending returns its table; a non-caching one decodes the bytes
    -- it keeps every time, also when there are none (`GetRecords` on empty `Records` fails)
    if s.raw.isEmpty && S.cache then (s, .table s.table)
    else
      let p := S.parse s.raw
      let t' := putAll S.put s.table p.1
      if p.2 then ((if S.cache then ⟨[], t'⟩ else s), .table t')
      else ((if S.cache then ⟨s.raw, t'⟩ else s), .failed)
  | .write => (s, .bytes (write S.enc s))
  | .isEmpty => (s, .bool (isEmpty S.empty s))

def runOps (S : Spec T C) : Obj T → List Op → List (Obs T)
  | _, [] => []
  | s, op :: ops => (step S s op).2 :: runOps S (step S s op).1 ops

/-- what each operation must observe on an object whose kept bytes do not decode -/
def brokenObs (raw : Bytes) : Op → Obs T
  | .access => .failed
  | .write => .bytes raw
  | .isEmpty => .bool false

/-- **fail-closed over histories**: if the bytes an object keeps do not decode, then in EVERY
    history of accesses, writes and emptiness tests on that object — in any order, any number of
    times — every access fails, every write emits exactly the kept bytes and `IsEmpty()` is false;
    and the kept bytes never change (frame condition) -/
theorem history_fail_closed (S : Spec T C) (ops : List Op) (s : Obj T)
    (hne : s.raw ≠ []) (hbad : (S.parse s.raw).2 = false) :
    runOps S s ops = ops.map (brokenObs s.raw) := by
  induction ops generalizing s with
  | nil => rfl
  | cons op ops ih =>
    have hemp : s.raw.isEmpty = false := by
      cases hs : s.raw with
      | nil => exact absurd hs hne
      | cons _ _ => rfl
    simp only [runOps, List.map_cons]
    cases op with
    | access =>
      have h1 : (step S s .access).2 = Obs.failed := by
        simp only [step, hemp, Bool.false_and, Bool.false_eq_true, if_false, hbad]
      have h2 : (step S s .access).1.raw = s.raw := by
        simp only [step, hemp, Bool.false_and, Bool.false_eq_true, if_false, hbad]
        split <;> rfl
      rw [h1, ih _ (by rw [h2]; exact hne) (by rw [h2]; exact hbad), h2]
      rfl
    | write =>
      have h1 : (step S s .write) = (s, Obs.bytes s.raw) := by
        simp only [step, write, hemp, Bool.false_eq_true, if_false]
      rw [h1, ih s hne hbad]; rfl
    | isEmpty =>
      have h1 : (step S s .isEmpty) = (s, Obs.bool false) := by
        simp only [step, isEmpty, hemp, Bool.false_and]
      rw [h1, ih s hne hbad]; rfl

/-- frame: no history changes the bytes an object keeps while they do not decode -/
def finalObj (S : Spec T C) : Obj T → List Op → Obj T
  | s, [] => s
  | s, op :: ops => finalObj S (step S s op).1 ops

theorem history_keeps_bytes (S : Spec T C) (ops : List Op) (s : Obj T)
    (hne : s.raw ≠ []) (hbad : (S.parse s.raw).2 = false) : (finalObj S s ops).raw = s.raw := by
  induction ops generalizing s with
  | nil => rfl
  | cons op ops ih =>
    have hemp : s.raw.isEmpty = false := by
      cases hs : s.raw with
      | nil => exact absurd hs hne
      | cons _ _ => rfl
    have h2 : (step S s op).1.raw = s.raw := by
      cases op
      · simp only [step, hemp, Bool.false_and, Bool.false_eq_true, if_false, hbad]; split <;> rfl
      · rfl
      · rfl
    simp only [finalObj]
    rw [ih _ (by rw [h2]; exact hne) (by rw [h2]; exact hbad), h2]

/-- the accessor of a non-caching decoder never changes the object at all -/
theorem stateless_step_frame (S : Spec T C) (hc : S.cache = false) (s : Obj T) (op : Op) :
    (step S s op).1 = s := by
  cases op
  · simp only [step, hc, Bool.and_false, Bool.false_eq_true, if_false]
    split <;> rfl
  · rfl
  · rfl

/-- a NON-caching decoder whose kept bytes do not decode — empty or not (`GetRecords` on empty
    `Records` fails as well): every access in every history fails -/
theorem stateless_access_fails (S : Spec T C) (hc : S.cache = false) (ops : List Op) (s : Obj T)
    (hbad : (S.parse s.raw).2 = false) :
    ∀ i : Nat, ops[i]? = some Op.access → (runOps S s ops)[i]? = some Obs.failed := by
  induction ops generalizing s with
  | nil => intro i h; simp at h
  | cons op ops ih =>
    intro i h
    have hs : (step S s op).1 = s := stateless_step_frame S hc s op
    cases i with
    | zero =>
      simp only [List.getElem?_cons_zero, Option.some.injEq] at h
      subst h
      simp only [runOps, List.getElem?_cons_zero, step, hc, Bool.and_false, Bool.false_eq_true, if_false, hbad]
    | succ i =>
      simp only [List.getElem?_cons_succ] at h
      simp only [runOps, List.getElem?_cons_succ, hs]
      exact ih s hbad i h

/-! ### the wrong order is not fail-closed -/

/-- a toy table: columns are single bytes below 128, a byte ≥ 128 is a damaged column -/
def toyParse : Bytes → List Nat × Bool
  | [] => ([], true)
  | b :: bs => if b < 128 then let p := toyParse bs; (b :: p.1, p.2) else ([], false)

/-- dropping the bytes before decoding: the first access to the damaged table `01 02 ff 03` fails, the
    second returns the partial table `[1, 2]` without failure, `Write` re-encodes it as a valid
    object and `IsEmpty()` answers for the partial table -/
theorem dropFirst_not_fail_closed :
    let s0 : Obj (List Nat) := ⟨[1, 2, 255, 3], []⟩
    let put := fun (t : List Nat) (c : Nat) => t ++ [c]
    (unpackDropFirst toyParse put s0).failed = true ∧
    (unpackDropFirst toyParse put (unpackDropFirst toyParse put s0).obj).failed = false ∧
    (unpackDropFirst toyParse put (unpackDropFirst toyParse put s0).obj).obj.table = [1, 2] ∧
    write id (unpackDropFirst toyParse put s0).obj = [1, 2] := by decide

/-- the order of the code: the same damaged table fails on the first, second and third access and
    `Write` still emits the damaged bytes -/
example :
    let s0 : Obj (List Nat) := ⟨[1, 2, 255, 3], []⟩
    let put := fun (t : List Nat) (c : Nat) => t ++ [c]
    (unpack toyParse put s0).failed = true ∧
    (accessN toyParse put 0 (unpack toyParse put s0).obj).failed = true ∧
    (accessN toyParse put 1 (unpack toyParse put s0).obj).failed = true ∧
    write id (accessN toyParse put 1 (unpack toyParse put s0).obj).obj = [1, 2, 255, 3] := by decide

end FailClosed.Lazy
