/-
  Golib.FailClosed.Tail — the one documented exception to prefix failure.

  `SMBasePack.Read` ends with

      if din.Available() == 0 { return }          -- message written by an older agent
      if din.ReadByte() > 0 { this.Extra = value.ReadMapValue(din) }

  i.e. the format *defines* the message without the tail as a complete older version.
  `withTail a old t` is that shape: decode the body `a`; if the input has ended return the
  older-version object `old x`, otherwise decode the tail `t x`.

  `older_version_only`: among the strict prefixes of a complete new-version message the only one
  that decodes is the complete older-version message, and it decodes to the older-version object.
-/
import Golib.FailClosed.Alloc

namespace FailClosed
namespace A

/-- a tail-free decoder that succeeded does the same when more input follows -/
theorem run_append (a : A α) (ht : TailFree a) (q s : Bytes) (x : α) (r : Bytes)
    (h : run a q = some (x, r)) : run a (q ++ s) = some (x, r ++ s) := by
  induction ht generalizing q with
  | pure v => simp only [run, Option.some.injEq, Prod.mk.injEq] at h ⊢; exact ⟨h.1, by rw [h.2]⟩
  | fail => simp [run] at h
  | read n k _ ih =>
    rw [run_read] at h ⊢
    split at h
    · rename_i hn
      have hn' : n ≤ (q ++ s).length := by rw [List.length_append]; omega
      rw [if_pos hn', List.take_append_of_le_length hn, List.drop_append_of_le_length hn]
      exact ih _ _ h
    · simp at h
  | alloc u rest _ ih => exact ih q h
  | need n rest _ ih =>
    rw [run_need] at h ⊢
    split at h
    · rename_i hn
      have hn' : n ≤ (q ++ s).length := by rw [List.length_append]; omega
      rw [if_pos hn']; exact ih q h
    · simp at h

def withTail (a : A α) (old : α → β) (t : α → A β) : A β :=
  bind a (fun x => .avail0 (.pure (old x)) (t x))

/-- a complete older-version message decodes to the older-version object -/
theorem withTail_old (a : A α) (old : α → β) (t : α → A β) (q : Bytes) (x : α)
    (h : run a q = some (x, [])) : run (withTail a old t) q = some (old x, []) := by
  unfold withTail
  rw [run_bind, h]; rfl

/-- **older_version_only**: if `q ++ s` is a complete newer-version message (`s ≠ []`) and the
    strict prefix `q` decodes at all, then `q` is a complete older-version message (the body
    decoder consumes exactly `q`) and the result is the older-version object -/
theorem older_version_only (a : A α) (old : α → β) (t : α → A β)
    (ha : TailFree a) (ht : ∀ x, TailFree (t x))
    (q s : Bytes) (v v' : β) (r' : Bytes) (hs : s ≠ [])
    (hfull : run (withTail a old t) (q ++ s) = some (v, []))
    (hq : run (withTail a old t) q = some (v', r')) :
    r' = [] ∧ ∃ x, run a q = some (x, []) ∧ v' = old x := by
  unfold withTail at hfull hq
  rw [run_bind] at hq
  cases h1 : run a q with
  | none => rw [h1] at hq; simp at hq
  | some p =>
    obtain ⟨x, r1⟩ := p
    rw [h1] at hq
    simp only [run] at hq
    cases r1 with
    | nil =>
      simp only [List.isEmpty_nil, if_true, Option.some.injEq, Prod.mk.injEq] at hq
      exact ⟨hq.2.symm, x, rfl, hq.1.symm⟩
    | cons b r1 =>
      simp only [List.isEmpty_cons, Bool.false_eq_true, if_false] at hq
      have h2 := run_append a ha q s x _ h1
      rw [run_bind, h2] at hfull
      simp only [run, List.cons_append, List.isEmpty_cons, Bool.false_eq_true, if_false] at hfull
      have := prefix_fails (t x) (ht x) (b :: r1) s v hs (by simpa using hfull)
      rw [this] at hq
      simp at hq

end A

/-! non-vacuity: body = one byte, tail = a presence flag and one more byte -/
example :
    let d : A Nat := A.withTail (.read 1 (fun b => .pure (b.headD 0))) (fun x => x)
      (fun x => .read 1 (fun fl => if fl.headD 0 > 0 then .read 1 (fun e => .pure (x + 256 * e.headD 0)) else .pure x))
    A.run d [7, 1, 2] = some (519, []) ∧      -- the complete newer-version message
    A.run d [7, 1] = none ∧                   -- a strict prefix inside the tail: fails
    A.run d [7] = some (7, []) ∧              -- the complete older-version message
    A.run d [] = none := by
  decide

end FailClosed
