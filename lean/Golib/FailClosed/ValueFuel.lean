/-
  Golib.FailClosed.ValueFuel — the fuel of `Value.decV` only bounds the recursion:
  more fuel never changes a successful result (`decV_fuel_mono`), so prefix failure carries over
  to `Value.decode`, which takes its fuel from the length of the input it is given.
-/
import Golib.FailClosed.ValueACorrect
namespace FailClosed
open Prim Value

theorem fuel_mono_all (f : Nat) :
    (∀ bs x, decV f bs = some x → decV (f+1) bs = some x) ∧
    (∀ c bs x, decVs f c bs = some x → decVs (f+1) c bs = some x) ∧
    (∀ c acc bs x, decKVs f c acc bs = some x → decKVs (f+1) c acc bs = some x) ∧
    (∀ c acc bs x, decIKVs f c acc bs = some x → decIKVs (f+1) c acc bs = some x) := by
  induction f with
  | zero =>
    refine ⟨?_, ?_, ?_, ?_⟩
    · intro bs x h; simp [decV] at h
    · intro c bs x h; cases c <;> simp_all [decVs]
    · intro c acc bs x h; cases c <;> simp_all [decKVs]
    · intro c acc bs x h; cases c <;> simp_all [decIKVs]
  | succ f ih =>
    obtain ⟨ihV, ihVs, ihK, ihI⟩ := ih
    refine ⟨?_, ?_, ?_, ?_⟩
    · intro bs x h
      cases bs with
      | nil => simp [decV] at h
      | cons t r =>
        simp only [decV] at h ⊢
        split at h
        all_goals try exact h
        case h_14 =>
          cases hd : decDecimal.run r with
          | none => rw [hd] at h; simp at h
          | some y =>
            obtain ⟨n, r1⟩ := y
            rw [hd] at h; simp only at h ⊢
            split at h
            · simp at h
            · rename_i hn
              rw [if_neg hn]
              cases hv : decVs f n.toNat r1 with
              | none => rw [hv] at h; simp at h
              | some z => rw [hv] at h; rw [ihVs _ _ _ hv]; exact h
        case h_19 =>
          cases hd : decDecimal.run r with
          | none => rw [hd] at h; simp at h
          | some y =>
            obtain ⟨n, r1⟩ := y
            rw [hd] at h; simp only at h ⊢
            cases hv : decKVs f n.toNat [] r1 with
            | none => rw [hv] at h; simp at h
            | some z => rw [hv] at h; rw [ihK _ _ _ _ hv]; exact h
        case h_20 =>
          cases hd : decDecimal.run r with
          | none => rw [hd] at h; simp at h
          | some y =>
            obtain ⟨n, r1⟩ := y
            rw [hd] at h; simp only at h ⊢
            cases hv : decIKVs f n.toNat [] r1 with
            | none => rw [hv] at h; simp at h
            | some z => rw [hv] at h; rw [ihI _ _ _ _ hv]; exact h
    · intro c bs x h
      cases c with
      | zero => simpa [decVs] using h
      | succ c =>
        simp only [decVs] at h ⊢
        cases hv : decV f bs with
        | none => rw [hv] at h; simp at h
        | some y =>
          obtain ⟨v, r1⟩ := y
          rw [hv] at h; rw [ihV _ _ hv]; simp only at h ⊢
          cases hw : decVs f c r1 with
          | none => rw [hw] at h; simp at h
          | some z => rw [hw] at h; rw [ihVs _ _ _ hw]; exact h
    · intro c acc bs x h
      cases c with
      | zero => simpa [decKVs] using h
      | succ c =>
        simp only [decKVs] at h ⊢
        cases hk : decBlob.run bs with
        | none => rw [hk] at h; simp at h
        | some y =>
          obtain ⟨k, r1⟩ := y
          rw [hk] at h; simp only at h ⊢
          cases hv : decV f r1 with
          | none => rw [hv] at h; simp at h
          | some z =>
            obtain ⟨v, r2⟩ := z
            rw [hv] at h; rw [ihV _ _ hv]; simp only at h ⊢
            exact ihK _ _ _ _ h
    · intro c acc bs x h
      cases c with
      | zero => simpa [decIKVs] using h
      | succ c =>
        simp only [decIKVs] at h ⊢
        cases hk : (rdI 4).run bs with
        | none => rw [hk] at h; simp at h
        | some y =>
          obtain ⟨k, r1⟩ := y
          rw [hk] at h; simp only at h ⊢
          cases hv : decV f r1 with
          | none => rw [hv] at h; simp at h
          | some z =>
            obtain ⟨v, r2⟩ := z
            rw [hv] at h; rw [ihV _ _ hv]; simp only at h ⊢
            exact ihI _ _ _ _ h

theorem decV_fuel_mono (f g : Nat) (hfg : f ≤ g) (bs : Bytes) (x : Value × Bytes)
    (h : decV f bs = some x) : decV g bs = some x := by
  induction g with
  | zero => have : f = 0 := by omega
            subst this; exact h
  | succ g ih =>
    by_cases hg : f ≤ g
    · exact (fuel_mono_all g).1 bs x (ih hg)
    · have : f = g + 1 := by omega
      subst this; exact h

/-- **prefix failure for `Value.decode`** (fuel taken from the input length): a strict prefix of
    a completely decoded value encoding does not decode -/
theorem decode_prefix_fails (q s : Bytes) (v : Value) (hs : s ≠ [])
    (h : Value.decode (q ++ s) = some (v, [])) : Value.decode q = none := by
  unfold Value.decode at h ⊢
  cases hq : decV (q.length + 1) q with
  | none => rfl
  | some x =>
    have h1 := decV_fuel_mono (q.length + 1) ((q ++ s).length + 1)
      (by rw [List.length_append]; omega) q x hq
    rw [decV_prefix_fails _ q s v hs h] at h1
    simp at h1
end FailClosed
