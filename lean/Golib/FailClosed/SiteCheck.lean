/-
  Golib.FailClosed.SiteCheck — an interpreted form of "every allocation sized from the input is
  guarded" (tie A of C04).

  `xlate/c04` transcribes the body of every decoder function that sizes an allocation from a
  decoded value into a tiny statement language `Prog`:

    read x src    x := … in.Read<src>() …        (a value decoded from the input: anything;
                                                   `ReadByte` yields 0..255)
    copy x y      x := int(y) / int32(y) / y      (a conversion of another variable)
    havoc x       x := anything else
    check x k     in.CheckCount(x, k)   or   if x > Available()/buffer.Len() { panic }  (k = 1)
    make e x      make([]e, x)  /  New…Map(x, …)
    block b       the body of an if / for / switch case: executed any number of times

  `Exec` is its semantics over a state (variable values, bytes still available, log of the sizes
  allocated); the decoded values, the number of bytes each read consumes and the number of times a
  block runs are arbitrary.  `safe` is the dominance check (which variables are known to be bounded
  at each point); `safe_sound` proves it against the semantics: in every execution that starts with
  at most `N` bytes available every allocation is sized by at most `max N 255` elements — by the
  bytes of the input, not by a field found in it.
-/
namespace FailClosed.Sites

inductive Prog where
  | done
  | read (x src : String) (rest : Prog)
  | copy (x y : String) (rest : Prog)
  | havoc (x : String) (rest : Prog)
  | check (x : String) (k : Nat) (rest : Prog)
  | make (elem x : String) (rest : Prog)
  | block (body rest : Prog)
deriving DecidableEq, Repr

structure St where
  env : String → Int
  avail : Nat
  log : List (String × Int)

def St.set (s : St) (x : String) (v : Int) : St :=
  { s with env := fun y => if y = x then v else s.env y }

/-- what a `Read<src>()` can return -/
def srcOK (src : String) (v : Int) : Prop := src = "ReadByte" → 0 ≤ v ∧ v ≤ 255

inductive Exec : Prog → St → St → Prop where
  | done (s : St) : Exec .done s s
  | read (x src rest s s' v a) (hv : srcOK src v) (ha : a ≤ s.avail)
      (h : Exec rest { (s.set x v) with avail := a } s') : Exec (.read x src rest) s s'
  | copy (x y rest s s') (h : Exec rest (s.set x (s.env y)) s') : Exec (.copy x y rest) s s'
  | havoc (x rest s s' v) (h : Exec rest (s.set x v) s') : Exec (.havoc x rest) s s'
  | check (x : String) (k : Nat) (rest s s') (h0 : 0 ≤ s.env x) (hk : s.env x * (k : Int) ≤ (s.avail : Int))
      (h : Exec rest s s') : Exec (.check x k rest) s s'
  | make (e x rest s s') (h : Exec rest { s with log := (e, s.env x) :: s.log } s') :
      Exec (.make e x rest) s s'
  | blockSkip (body rest s s') (h : Exec rest s s') : Exec (.block body rest) s s'
  | blockStep (body rest s s1 s') (h1 : Exec body s s1) (h2 : Exec (.block body rest) s1 s') :
      Exec (.block body rest) s s'

/-- variables assigned somewhere in the program -/
def Prog.assigned : Prog → List String
  | .done => []
  | .read x _ rest => x :: rest.assigned
  | .copy x _ rest => x :: rest.assigned
  | .havoc x rest => x :: rest.assigned
  | .check _ _ rest => rest.assigned
  | .make _ _ rest => rest.assigned
  | .block body rest => body.assigned ++ rest.assigned

def Prog.makes : Prog → Nat
  | .done => 0
  | .read _ _ rest => rest.makes
  | .copy _ _ rest => rest.makes
  | .havoc _ rest => rest.makes
  | .check _ _ rest => rest.makes
  | .make _ _ rest => 1 + rest.makes
  | .block body rest => body.makes + rest.makes

/-- the dominance check: `F` = variables known to be bounded here; `none` = an allocation is sized
    by a variable that is not known to be bounded -/
def safe : Prog → List String → Bool
  | .done, _ => true
  | .read x src rest, F => safe rest (if src = "ReadByte" then x :: F else F.filter (· ≠ x))
  | .copy x y rest, F => safe rest (if y ∈ F then x :: F else F.filter (· ≠ x))
  | .havoc x rest, F => safe rest (F.filter (· ≠ x))
  | .check x k rest, F => if k = 0 then safe rest F else safe rest (x :: F)
  | .make _ x rest, F => decide (x ∈ F) && safe rest F
  | .block body rest, F =>
    let F0 := F.filter (fun v => !(body.assigned.contains v))
    safe body F0 && safe rest F0

def Inv (B : Int) (F : List String) (s : St) : Prop := ∀ x ∈ F, s.env x ≤ B

def LogOK (B : Int) (s : St) : Prop := ∀ e ∈ s.log, e.2 ≤ B

theorem inv_filter {B : Int} {F : List String} {s : St} (p : String → Bool) (h : Inv B F s) :
    Inv B (F.filter p) s := fun x hx => h x (List.mem_filter.mp hx).1

/-- a program does not change the variables it does not assign -/
theorem exec_frame (p : Prog) (s s' : St) (h : Exec p s s') (x : String) (hx : x ∉ p.assigned) :
    s'.env x = s.env x := by
  induction h with
  | done s => rfl
  | read y src rest s s' v a hv ha h ih =>
    simp only [Prog.assigned, List.mem_cons, not_or] at hx
    rw [ih hx.2]; simp [St.set, hx.1]
  | copy y z rest s s' h ih =>
    simp only [Prog.assigned, List.mem_cons, not_or] at hx
    rw [ih hx.2]; simp [St.set, hx.1]
  | havoc y rest s s' v h ih =>
    simp only [Prog.assigned, List.mem_cons, not_or] at hx
    rw [ih hx.2]; simp [St.set, hx.1]
  | check y k rest s s' h0 hk h ih => exact ih hx
  | make e y rest s s' h ih => rw [ih hx]
  | blockSkip body rest s s' h ih =>
    simp only [Prog.assigned, List.mem_append, not_or] at hx
    exact ih hx.2
  | blockStep body rest s s1 s' h1 h2 ih1 ih2 =>
    have hx' := hx
    simp only [Prog.assigned, List.mem_append, not_or] at hx'
    rw [ih2 hx, ih1 hx'.1]

/-- **soundness of the dominance check** -/
theorem safe_sound (N : Nat) (p : Prog) (s s' : St) (h : Exec p s s') :
    ∀ F, safe p F = true → Inv (max N 255) F s → s.avail ≤ N → LogOK (max N 255) s →
      LogOK (max N 255) s' ∧ s'.avail ≤ N := by
  induction h with
  | done s => intro F _ _ ha hl; exact ⟨hl, ha⟩
  | read x src rest s s' v a hv hav h ih =>
    intro F hs hi ha hl
    simp only [safe] at hs
    apply ih _ hs
    · by_cases hb : src = "ReadByte"
      · rw [if_pos hb]
        intro y hy
        rcases List.mem_cons.mp hy with rfl | hy
        · have := hv hb
          simp only [St.set, if_true]
          omega
        · by_cases hyx : y = x
          · subst hyx; have := hv hb; simp only [St.set, if_true]; omega
          · simp only [St.set, hyx, if_false]; exact hi y hy
      · rw [if_neg hb]
        intro y hy
        have := List.mem_filter.mp hy
        have hne : y ≠ x := by simpa using this.2
        simp only [St.set, hne, if_false]; exact hi y this.1
    · show a ≤ N; omega
    · exact hl
  | copy x y rest s s' h ih =>
    intro F hs hi ha hl
    simp only [safe] at hs
    apply ih _ hs
    · by_cases hb : y ∈ F
      · rw [if_pos hb]
        intro z hz
        by_cases hzx : z = x
        · subst hzx; simp only [St.set, if_true]; exact hi y hb
        · rcases List.mem_cons.mp hz with rfl | hz
          · exact absurd rfl hzx
          · simp only [St.set, hzx, if_false]; exact hi z hz
      · rw [if_neg hb]
        intro z hz
        have := List.mem_filter.mp hz
        have hne : z ≠ x := by simpa using this.2
        simp only [St.set, hne, if_false]; exact hi z this.1
    · exact ha
    · exact hl
  | havoc x rest s s' v h ih =>
    intro F hs hi ha hl
    simp only [safe] at hs
    apply ih _ hs
    · intro z hz
      have := List.mem_filter.mp hz
      have hne : z ≠ x := by simpa using this.2
      simp only [St.set, hne, if_false]; exact hi z this.1
    · exact ha
    · exact hl
  | check x k rest s s' h0 hk h ih =>
    intro F hs hi ha hl
    simp only [safe] at hs
    by_cases hk0 : k = 0
    · rw [if_pos hk0] at hs; exact ih _ hs hi ha hl
    · rw [if_neg hk0] at hs
      apply ih _ hs _ ha hl
      intro z hz
      rcases List.mem_cons.mp hz with rfl | hz
      · -- env z * k ≤ avail ≤ N with k ≥ 1
        have hk1 : (1 : Int) ≤ (k : Int) := by omega
        have : s.env z * 1 ≤ s.env z * (k : Int) := Int.mul_le_mul_of_nonneg_left hk1 h0
        have hN : (s.avail : Int) ≤ (N : Int) := by exact_mod_cast ha
        omega
      · exact hi z hz
  | make e x rest s s' h ih =>
    intro F hs hi ha hl
    simp only [safe, Bool.and_eq_true, decide_eq_true_eq] at hs
    apply ih _ hs.2 hi ha
    intro en hen
    rcases List.mem_cons.mp hen with rfl | hen
    · exact hi x hs.1
    · exact hl en hen
  | blockSkip body rest s s' h ih =>
    intro F hs hi ha hl
    simp only [safe, Bool.and_eq_true] at hs
    exact ih _ hs.2 (inv_filter _ hi) ha hl
  | blockStep body rest s s1 s' h1 h2 ih1 ih2 =>
    intro F hs hi ha hl
    have hs' := hs
    simp only [safe, Bool.and_eq_true] at hs'
    -- one run of the body keeps the filtered facts (their variables are not assigned in it)
    have hi0 : Inv (max N 255) (F.filter (fun v => !(body.assigned.contains v))) s := inv_filter _ hi
    have hb := ih1 _ hs'.1 hi0 ha hl
    have hi1 : Inv (max N 255) (F.filter (fun v => !(body.assigned.contains v))) s1 := by
      intro z hz
      have hm := List.mem_filter.mp hz
      have hna : z ∉ body.assigned := by
        have := hm.2
        simp only [Bool.not_eq_true', List.contains_eq_mem, decide_eq_false_iff_not] at this
        exact this
      rw [exec_frame body s s1 h1 z hna]
      exact hi z hm.1
    have hs1 : safe (.block body rest) (F.filter (fun v => !(body.assigned.contains v))) = true := by
      simp only [safe, List.filter_filter, Bool.and_self, Bool.and_eq_true]
      exact hs'
    exact ih2 _ hs1 hi1 hb.2 hb.1

/-- a function whose transcription passes the check sizes every allocation by at most
    `max N 255` elements, `N` = the bytes available when it is entered -/
theorem sites_bounded (p : Prog) (hs : safe p [] = true) (N : Nat) (s s' : St) (ha : s.avail ≤ N)
    (hl : s.log = []) (hx : Exec p s s') : ∀ e ∈ s'.log, e.2 ≤ max (N : Int) 255 := by
  have := safe_sound N p s s' hx [] hs (by intro x hx; cases hx) ha (by intro e he; rw [hl] at he; cases he)
  exact this.1

end FailClosed.Sites
