/-
  Golib.FailClosed.ExtraReads — the fixed-width readers of `DataInputX` that no writer-side program
  of `Prim.Op` reaches: `ReadShortLittle`, `ReadUnsignedShortLittle`, `ReadIntLittle`,
  `ReadUintLittle`, `ReadUnsignedInt`, `ReadUShort` and `ReadDecimalLen(sz)` (the width is the
  caller's: 0 → nothing read, 1,2,3,4,5 → that many bytes, anything else → 8).

  Each is one `ReadBytes(w)` followed by a pure conversion, so it is a one-node `P` program;
  `run_rd` is the whole behaviour: it fails exactly when fewer than `w` bytes are there, consumes
  exactly `w` bytes, and its value is a function of those `w` bytes alone (no byte that is not in
  the input, no byte beyond the `w`-th).  `run_rdAll` lifts this to programs of such reads.
-/
import Golib.Prim.Ops

namespace FailClosed.Extra
open Prim

inductive K where
  | shortLE | ushortLE | intLE | uintLE | uint | ushort
  | decLen (sz : Nat)
deriving DecidableEq, Repr

def decWidth (sz : Nat) : Nat :=
  if sz = 0 then 0 else if sz ≤ 5 then sz else 8

def width : K → Nat
  | .shortLE | .ushortLE | .ushort => 2
  | .intLE | .uintLE | .uint => 4
  | .decLen sz => decWidth sz

/-- the conversion applied to the `width k` bytes read -/
def val : K → Bytes → Int
  | .shortLE, bs => decILittle 2 bs
  | .ushortLE, bs => unleN bs
  | .intLE, bs => decILittle 4 bs
  | .uintLE, bs => unleN bs
  | .uint, bs => unbeN bs
  | .ushort, bs => unbeN bs
  | .decLen sz, bs => if sz = 0 then 0 else decI (decWidth sz) bs

def rd (k : K) : P Int := .read (width k) (fun bs => .pure (val k bs))

/-- the whole behaviour of one such read -/
theorem run_rd (k : K) (bs : Bytes) :
    P.run (rd k) bs =
      if width k ≤ bs.length then some (val k (bs.take (width k)), bs.drop (width k)) else none := by
  unfold rd
  rw [P.run_read]
  rfl

def rdAll : List K → P (List Int)
  | [] => .pure []
  | k :: ks => P.bind (rd k) (fun v => P.bind (rdAll ks) (fun vs => .pure (v :: vs)))

def total (ks : List K) : Nat := (ks.map width).sum

/-- the values of a program of reads over `bs` (meaningful when `total ks ≤ bs.length`) -/
def vals : List K → Bytes → List Int
  | [], _ => []
  | k :: ks, bs => val k (bs.take (width k)) :: vals ks (bs.drop (width k))

/-- a program of such reads fails exactly when the input is shorter than the sum of the widths, and
    otherwise consumes exactly that many bytes -/
theorem run_rdAll (ks : List K) (bs : Bytes) :
    P.run (rdAll ks) bs =
      if total ks ≤ bs.length then some (vals ks bs, bs.drop (total ks)) else none := by
  induction ks generalizing bs with
  | nil => simp [rdAll, total, vals]
  | cons k ks ih =>
    simp only [rdAll, total, List.map_cons, List.sum_cons, vals]
    rw [P.run_bind, run_rd]
    by_cases h1 : width k ≤ bs.length
    · rw [if_pos h1]
      simp only []
      rw [P.run_bind, ih]
      have hl : (bs.drop (width k)).length = bs.length - width k := List.length_drop
      by_cases h2 : total ks ≤ (bs.drop (width k)).length
      · rw [if_pos h2]
        have : width k + (ks.map width).sum ≤ bs.length := by unfold total at h2; omega
        rw [if_pos this]
        simp only [P.run_pure, List.drop_drop]
        unfold total
        rfl
      · rw [if_neg h2]
        have : ¬ width k + (ks.map width).sum ≤ bs.length := by unfold total at h2; omega
        rw [if_neg this]
    · rw [if_neg h1]
      have : ¬ width k + (ks.map width).sum ≤ bs.length := by omega
      rw [if_neg this]

/-- fail closed: every input shorter than the program's width is rejected -/
theorem rdAll_short_fails (ks : List K) (bs : Bytes) (h : bs.length < total ks) :
    P.run (rdAll ks) bs = none := by
  rw [run_rdAll, if_neg (by omega)]

/-- the values are a function of the first `total ks` bytes alone -/
theorem rdAll_append (ks : List K) (bs r : Bytes) (h : bs.length = total ks) :
    P.run (rdAll ks) (bs ++ r) = (P.run (rdAll ks) bs).map (fun x => (x.1, x.2 ++ r)) := by
  have hv : ∀ (ks : List K) (bs r : Bytes), total ks ≤ bs.length → vals ks (bs ++ r) = vals ks bs := by
    intro ks
    induction ks with
    | nil => intros; rfl
    | cons k ks ih =>
      intro bs r hh
      simp only [total, List.map_cons, List.sum_cons] at hh
      simp only [vals]
      rw [List.take_append_of_le_length (by omega), List.drop_append_of_le_length (by omega)]
      rw [ih _ _ (by rw [List.length_drop]; unfold total; omega)]
  rw [run_rdAll, run_rdAll, if_pos (by rw [List.length_append]; omega), if_pos (by omega)]
  simp only [Option.map_some]
  rw [hv ks bs r (by omega), List.drop_append_of_le_length (by omega)]

end FailClosed.Extra
