/-
  Golib.FailClosed.ValueACorrect — the instrumented value decoder `decVA` against `Value.decV`:

  * `run_decVA`          – it decodes exactly what `Value.decV` decodes (both variants);
  * `tailFree_decVA`     – it never asks whether the input has ended;
  * `decV_prefix_fails`  – hence a strict prefix of a complete value encoding never decodes;
  * `paid_decVA`         – the repaired variant allocates at most 1280 bytes per input byte.
-/
import Golib.FailClosed.ValueA
namespace FailClosed
open Prim Value

theorem run_map_ofP' (f : α → β) (p : P α) (bs : Bytes) :
    A.run (A.map f (A.ofP p)) bs = Option.map (fun x => (f x.fst, x.snd)) (P.run p bs) := by
  rw [A.run_map, A.run_ofP]

theorem run_map_arrA' (g : Bool) (f : List α → β) (w w' : Nat) (elem : P α)
    (he : ∀ bs v r, P.run elem bs = some (v, r) → r.length + w ≤ bs.length) (bs : Bytes) :
    A.run (A.map f (arrA g w w' elem)) bs =
      Option.map (fun x => (f x.fst, x.snd)) (P.run (decArr elem) bs) := by
  rw [A.run_map, run_arrA g w w' elem he]

theorem run_decVA_all (fx : Bool) (f : Nat) :
    (∀ bs, A.run (decVA fx f) bs = decV f bs) ∧
    (∀ c acc bs, A.run (decVsA fx f c acc) bs =
        (decVs f c bs).map (fun (xs, r) => (acc.reverse ++ xs, r))) ∧
    (∀ c acc bs, A.run (decKVsA fx f c acc) bs = decKVs f c acc bs) ∧
    (∀ c acc bs, A.run (decIKVsA fx f c acc) bs = decIKVs f c acc bs) := by
  induction f with
  | zero =>
    refine ⟨?_, ?_, ?_, ?_⟩
    · intro bs; simp [decVA, decV]
    · intro c acc bs; cases c <;> simp [decVsA, decVs]
    · intro c acc bs; cases c <;> simp [decKVsA, decKVs]
    · intro c acc bs; cases c <;> simp [decIKVsA, decIKVs]
  | succ f ih =>
    obtain ⟨ihV, ihVs, ihK, ihI⟩ := ih
    refine ⟨?_, ?_, ?_, ?_⟩
    · intro bs
      cases bs with
      | nil => simp [decVA, decV, A.run_read1_nil]
      | cons t r =>
        simp only [decVA, decV, A.run_read1_cons, List.headD_cons, A.run_alloc]
        split
        all_goals simp only []
        all_goals try exact run_map_ofP' _ _ _
        all_goals try rfl
        case h_8 =>
          simp only [A.run_ofP, P.run_bind]
          cases (rdU 8).run r with
          | none => rfl
          | some x1 =>
            obtain ⟨s, r1⟩ := x1; simp only
            cases (rdI 4).run r1 with
            | none => rfl
            | some x2 =>
              obtain ⟨c, r2⟩ := x2; simp only
              cases (rdU 8).run r2 with
              | none => rfl
              | some x3 =>
                obtain ⟨mn, r3⟩ := x3; simp only
                cases (rdU 8).run r3 with
                | none => rfl
                | some x4 => rfl
        case h_9 =>
          simp only [A.run_ofP, P.run_bind]
          cases (rdI 8).run r with
          | none => rfl
          | some x1 =>
            obtain ⟨s, r1⟩ := x1; simp only
            cases (rdI 4).run r1 with
            | none => rfl
            | some x2 =>
              obtain ⟨c, r2⟩ := x2; simp only
              cases (rdI 8).run r2 with
              | none => rfl
              | some x3 =>
                obtain ⟨mn, r3⟩ := x3; simp only
                cases (rdI 8).run r3 with
                | none => rfl
                | some x4 => rfl
        case h_15 => exact run_map_arrA' fx _ 4 4 _ (rdI_consumes 4) r
        case h_16 => exact run_map_arrA' fx _ 4 4 _ (rdU_consumes 4) r
        case h_17 => exact run_map_arrA' fx _ 1 16 _ decBlob_consumes r
        case h_18 => exact run_map_arrA' fx _ 8 8 _ (rdI_consumes 8) r
        case h_14 =>
          rw [A.run_bind, A.run_ofP]
          cases decDecimal.run r with
          | none => rfl
          | some x =>
            obtain ⟨n, r1⟩ := x; simp only
            split
            · rfl
            · have key : A.run (A.map Value.list (decVsA fx f n.toNat [])) r1 =
                  Option.map (fun x => (Value.list x.fst, x.snd)) (decVs f n.toNat r1) := by
                rw [A.run_map, ihVs]; cases decVs f n.toNat r1 <;> simp
              cases fx with
              | true => simpa using key
              | false => simpa using key
        case h_19 =>
          rw [A.run_bind, A.run_ofP]
          cases decDecimal.run r with
          | none => rfl
          | some x =>
            obtain ⟨n, r1⟩ := x; simp only
            rw [A.run_map, ihK]
        case h_20 =>
          rw [A.run_bind, A.run_ofP]
          cases decDecimal.run r with
          | none => rfl
          | some x =>
            obtain ⟨n, r1⟩ := x; simp only
            rw [A.run_map, ihI]
    · intro c acc bs
      cases c with
      | zero => simp [decVsA, decVs]
      | succ c =>
        simp only [decVsA, decVs]
        rw [A.run_bind, ihV]
        cases decV f bs with
        | none => rfl
        | some x =>
          obtain ⟨v, r1⟩ := x
          simp only [A.run_alloc]
          rw [ihVs]
          cases decVs f c r1 <;> simp
    · intro c acc bs
      cases c with
      | zero => simp [decKVsA, decKVs]
      | succ c =>
        simp only [decKVsA, decKVs]
        rw [A.run_bind, A.run_ofP]
        cases decBlob.run bs with
        | none => rfl
        | some x =>
          obtain ⟨k, r1⟩ := x
          simp only
          rw [A.run_bind, ihV]
          cases decV f r1 with
          | none => rfl
          | some y =>
            obtain ⟨v, r2⟩ := y
            simp only [A.run_alloc]
            exact ihK _ _ _
    · intro c acc bs
      cases c with
      | zero => simp [decIKVsA, decIKVs]
      | succ c =>
        simp only [decIKVsA, decIKVs]
        rw [A.run_bind, A.run_ofP]
        cases (rdI 4).run bs with
        | none => rfl
        | some x =>
          obtain ⟨k, r1⟩ := x
          simp only
          rw [A.run_bind, ihV]
          cases decV f r1 with
          | none => rfl
          | some y =>
            obtain ⟨v, r2⟩ := y
            simp only [A.run_alloc]
            exact ihI _ _ _


theorem run_decVA (fx : Bool) (f : Nat) (bs : Bytes) : A.run (decVA fx f) bs = decV f bs :=
  (run_decVA_all fx f).1 bs

theorem run_decodeA (fx : Bool) (bs : Bytes) : A.run (decodeA fx bs) bs = Value.decode bs :=
  run_decVA fx _ bs

/-! ### the value decoder never asks for the end of its input -/

theorem tailFree_decVA_all (fx : Bool) (f : Nat) :
    A.TailFree (decVA fx f) ∧
    (∀ c acc, A.TailFree (decVsA fx f c acc)) ∧
    (∀ c acc, A.TailFree (decKVsA fx f c acc)) ∧
    (∀ c acc, A.TailFree (decIKVsA fx f c acc)) := by
  induction f with
  | zero =>
    refine ⟨?_, ?_, ?_, ?_⟩
    · simp only [decVA]; exact .fail
    · intro c acc; cases c <;> simp only [decVsA] <;> first | exact .pure _ | exact .fail
    · intro c acc; cases c <;> simp only [decKVsA] <;> first | exact .pure _ | exact .fail
    · intro c acc; cases c <;> simp only [decIKVsA] <;> first | exact .pure _ | exact .fail
  | succ f ih =>
    obtain ⟨ihV, ihVs, ihK, ihI⟩ := ih
    refine ⟨?_, ?_, ?_, ?_⟩
    · simp only [decVA]
      apply A.TailFree.read
      intro t
      apply A.TailFree.alloc
      split
      all_goals first
        | exact .pure _
        | exact .fail
        | exact A.tailFree_map _ _ (A.tailFree_ofP _)
        | exact A.tailFree_ofP _
        | exact A.tailFree_map _ _ (tailFree_arrA _ _ _ _)
        | skip
      · apply A.tailFree_bind _ _ (A.tailFree_ofP _)
        intro n
        split
        · exact .fail
        · split
          · exact A.tailFree_map _ _ (ihVs _ _)
          · exact .alloc _ _ (A.tailFree_map _ _ (ihVs _ _))
      · exact A.tailFree_bind _ _ (A.tailFree_ofP _) (fun n => A.tailFree_map _ _ (ihK _ _))
      · exact A.tailFree_bind _ _ (A.tailFree_ofP _) (fun n => A.tailFree_map _ _ (ihI _ _))
    · intro c acc
      cases c with
      | zero => simp only [decVsA]; exact .pure _
      | succ c =>
        simp only [decVsA]
        exact A.tailFree_bind _ _ ihV (fun x => .alloc _ _ (ihVs _ _))
    · intro c acc
      cases c with
      | zero => simp only [decKVsA]; exact .pure _
      | succ c =>
        simp only [decKVsA]
        exact A.tailFree_bind _ _ (A.tailFree_ofP _) (fun k =>
          A.tailFree_bind _ _ ihV (fun x => .alloc _ _ (ihK _ _)))
    · intro c acc
      cases c with
      | zero => simp only [decIKVsA]; exact .pure _
      | succ c =>
        simp only [decIKVsA]
        exact A.tailFree_bind _ _ (A.tailFree_ofP _) (fun k =>
          A.tailFree_bind _ _ ihV (fun x => .alloc _ _ (ihI _ _)))

theorem tailFree_decVA (fx : Bool) (f : Nat) : A.TailFree (decVA fx f) := (tailFree_decVA_all fx f).1

/-- **prefix failure for `Value.decV`**: if the bytes `q ++ s` decode completely (nothing left
    over) and `s` is not empty, the strict prefix `q` does not decode -/
theorem decV_prefix_fails (f : Nat) (q s : Bytes) (v : Value) (hs : s ≠ [])
    (h : decV f (q ++ s) = some (v, [])) : decV f q = none := by
  rw [← run_decVA true] at h ⊢
  exact A.prefix_fails _ (tailFree_decVA true f) q s v hs h

end FailClosed
