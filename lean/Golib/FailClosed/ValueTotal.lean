/-
  Golib.FailClosed.ValueTotal — termination of the value decoder.

  `Value.decV` is a total function (structural recursion on its fuel).  This file shows that the
  fuel is only a device: a successful decode needs no more fuel than the bytes it consumes
  (`fuel_enough_all`), so with the fuel `Value.decode` takes from the input length
  (`|input| + 1`) a failure is never due to the fuel (`decode_complete`), and the result is the
  same for every larger fuel (`decV_fuel_irrelevant`).  In Go terms: the recursion depth and the
  number of loop iterations that do useful work are bounded by the input length.
-/
import Golib.FailClosed.ValueFuel
namespace FailClosed
open Prim Value

/-! ### how much a successful decode consumes -/

theorem decV_consumes (f : Nat) (bs : Bytes) (v : Value) (r : Bytes)
    (h : decV f bs = some (v, r)) : r.length + 1 ≤ bs.length := by
  cases f with
  | zero => simp [decV] at h
  | succ f =>
    rw [← run_decVA true] at h
    simp only [decVA] at h
    rw [A.run_read] at h
    split at h
    · have := A.run_length_le _ _ _ _ h
      have hl : (bs.drop 1).length = bs.length - 1 := List.length_drop
      omega
    · simp at h

theorem decVs_length_le (f c : Nat) (bs : Bytes) (xs : List Value) (r : Bytes)
    (h : decVs f c bs = some (xs, r)) : r.length ≤ bs.length := by
  have h1 := (run_decVA_all true f).2.1 c [] bs
  rw [h] at h1
  exact A.run_length_le _ _ _ _ h1

theorem decKVs_length_le (f c : Nat) (acc : List (Bytes × Value)) (bs : Bytes)
    (xs : List (Bytes × Value)) (r : Bytes)
    (h : decKVs f c acc bs = some (xs, r)) : r.length ≤ bs.length := by
  have h1 := (run_decVA_all true f).2.2.1 c acc bs
  rw [h] at h1
  exact A.run_length_le _ _ _ _ h1

theorem decIKVs_length_le (f c : Nat) (acc : List (Int × Value)) (bs : Bytes)
    (xs : List (Int × Value)) (r : Bytes)
    (h : decIKVs f c acc bs = some (xs, r)) : r.length ≤ bs.length := by
  have h1 := (run_decVA_all true f).2.2.2 c acc bs
  rw [h] at h1
  exact A.run_length_le _ _ _ _ h1


/-! ### the fuel a successful decode needs is bounded by the bytes it consumes -/

theorem fuel_enough_all (f : Nat) :
    (∀ bs v r, decV f bs = some (v, r) → ∀ g, bs.length ≤ g + r.length → decV g bs = some (v, r)) ∧
    (∀ c bs xs r, decVs f c bs = some (xs, r) →
        ∀ g, (c = 0 ∨ bs.length + 1 ≤ g + r.length) → decVs g c bs = some (xs, r)) ∧
    (∀ c acc bs xs r, decKVs f c acc bs = some (xs, r) →
        ∀ g, (c = 0 ∨ bs.length ≤ g + r.length) → decKVs g c acc bs = some (xs, r)) ∧
    (∀ c acc bs xs r, decIKVs f c acc bs = some (xs, r) →
        ∀ g, (c = 0 ∨ bs.length ≤ g + r.length) → decIKVs g c acc bs = some (xs, r)) := by
  induction f with
  | zero =>
    refine ⟨?_, ?_, ?_, ?_⟩
    · intro bs v r h; simp [decV] at h
    · intro c bs xs r h g _
      cases c with
      | zero => cases g <;> simpa [decVs] using h
      | succ c => simp [decVs] at h
    · intro c acc bs xs r h g _
      cases c with
      | zero => cases g <;> simpa [decKVs] using h
      | succ c => simp [decKVs] at h
    · intro c acc bs xs r h g _
      cases c with
      | zero => cases g <;> simpa [decIKVs] using h
      | succ c => simp [decIKVs] at h
  | succ f ih =>
    obtain ⟨ihV, ihVs, ihK, ihI⟩ := ih
    refine ⟨?_, ?_, ?_, ?_⟩
    · intro bs v r h g hg
      have hc := decV_consumes _ _ _ _ h
      cases bs with
      | nil => simp [decV] at h
      | cons t r0 =>
        obtain ⟨g', rfl⟩ : ∃ g', g = g' + 1 := ⟨g - 1, by simp only [List.length_cons] at hg hc; omega⟩
        simp only [List.length_cons] at hg hc
        simp only [decV] at h ⊢
        split at h
        all_goals try exact h
        case h_14 =>
          cases hd : decDecimal.run r0 with
          | none => rw [hd] at h; simp at h
          | some y =>
            obtain ⟨n, r1⟩ := y
            have hd1 := decDecimal_consumes _ _ _ hd
            rw [hd] at h; simp only at h ⊢
            split at h
            · simp at h
            · rename_i hn
              rw [if_neg hn]
              cases hv : decVs f n.toNat r1 with
              | none => rw [hv] at h; simp at h
              | some z =>
                obtain ⟨xs, r2⟩ := z
                rw [hv] at h
                simp only [Option.map_some, Option.some.injEq, Prod.mk.injEq] at h
                obtain ⟨_, hr⟩ := h
                subst hr
                rw [ihVs _ _ _ _ hv g' (Or.inr (by omega))]
                simp_all
        case h_19 =>
          cases hd : decDecimal.run r0 with
          | none => rw [hd] at h; simp at h
          | some y =>
            obtain ⟨n, r1⟩ := y
            have hd1 := decDecimal_consumes _ _ _ hd
            rw [hd] at h; simp only at h ⊢
            cases hv : decKVs f n.toNat [] r1 with
            | none => rw [hv] at h; simp at h
            | some z =>
              obtain ⟨xs, r2⟩ := z
              rw [hv] at h
              simp only [Option.map_some, Option.some.injEq, Prod.mk.injEq] at h
              obtain ⟨_, hr⟩ := h
              subst hr
              rw [ihK _ _ _ _ _ hv g' (Or.inr (by omega))]
              simp_all
        case h_20 =>
          cases hd : decDecimal.run r0 with
          | none => rw [hd] at h; simp at h
          | some y =>
            obtain ⟨n, r1⟩ := y
            have hd1 := decDecimal_consumes _ _ _ hd
            rw [hd] at h; simp only at h ⊢
            cases hv : decIKVs f n.toNat [] r1 with
            | none => rw [hv] at h; simp at h
            | some z =>
              obtain ⟨xs, r2⟩ := z
              rw [hv] at h
              simp only [Option.map_some, Option.some.injEq, Prod.mk.injEq] at h
              obtain ⟨_, hr⟩ := h
              subst hr
              rw [ihI _ _ _ _ _ hv g' (Or.inr (by omega))]
              simp_all
    · intro c bs xs r h g hg
      cases c with
      | zero => cases g <;> simpa [decVs] using h
      | succ c =>
        simp only [decVs] at h
        cases hv : decV f bs with
        | none => rw [hv] at h; simp at h
        | some y =>
          obtain ⟨v, r1⟩ := y
          rw [hv] at h; simp only at h
          cases hw : decVs f c r1 with
          | none => rw [hw] at h; simp at h
          | some z =>
            obtain ⟨ys, r2⟩ := z
            rw [hw] at h
            simp only [Option.map_some, Option.some.injEq, Prod.mk.injEq] at h
            obtain ⟨hx, hr⟩ := h
            subst hr
            have h1 := decV_consumes _ _ _ _ hv
            have h2 := decVs_length_le _ _ _ _ _ hw
            have hg' : bs.length + 1 ≤ g + r2.length := by
              rcases hg with hg | hg
              · omega
              · exact hg
            obtain ⟨g', rfl⟩ : ∃ g', g = g' + 1 := ⟨g - 1, by omega⟩
            simp only [decVs]
            rw [ihV _ _ _ hv g' (by omega)]
            simp only
            rw [ihVs _ _ _ _ hw g' (Or.inr (by omega))]
            simp [hx]
    · intro c acc bs xs r h g hg
      cases c with
      | zero => cases g <;> simpa [decKVs] using h
      | succ c =>
        simp only [decKVs] at h
        cases hk : decBlob.run bs with
        | none => rw [hk] at h; simp at h
        | some y =>
          obtain ⟨k, r1⟩ := y
          rw [hk] at h; simp only at h
          cases hv : decV f r1 with
          | none => rw [hv] at h; simp at h
          | some z =>
            obtain ⟨v, r2⟩ := z
            rw [hv] at h; simp only at h
            have h0 := decBlob_consumes _ _ _ hk
            have h1 := decV_consumes _ _ _ _ hv
            have h2 := decKVs_length_le _ _ _ _ _ _ h
            have hg' : bs.length ≤ g + r.length := by
              rcases hg with hg | hg
              · omega
              · exact hg
            obtain ⟨g', rfl⟩ : ∃ g', g = g' + 1 := ⟨g - 1, by omega⟩
            simp only [decKVs]
            rw [hk]; simp only
            rw [ihV _ _ _ hv g' (by omega)]
            simp only
            exact ihK _ _ _ _ _ h g' (Or.inr (by omega))
    · intro c acc bs xs r h g hg
      cases c with
      | zero => cases g <;> simpa [decIKVs] using h
      | succ c =>
        simp only [decIKVs] at h
        cases hk : (rdI 4).run bs with
        | none => rw [hk] at h; simp at h
        | some y =>
          obtain ⟨k, r1⟩ := y
          rw [hk] at h; simp only at h
          cases hv : decV f r1 with
          | none => rw [hv] at h; simp at h
          | some z =>
            obtain ⟨v, r2⟩ := z
            rw [hv] at h; simp only at h
            have h0 := rdI_consumes 4 _ _ _ hk
            have h1 := decV_consumes _ _ _ _ hv
            have h2 := decIKVs_length_le _ _ _ _ _ _ h
            have hg' : bs.length ≤ g + r.length := by
              rcases hg with hg | hg
              · omega
              · exact hg
            obtain ⟨g', rfl⟩ : ∃ g', g = g' + 1 := ⟨g - 1, by omega⟩
            simp only [decIKVs]
            rw [hk]; simp only
            rw [ihV _ _ _ hv g' (by omega)]
            simp only
            exact ihI _ _ _ _ _ h g' (Or.inr (by omega))

/-- **the fuel is never the reason for a failure**: if the value decoder succeeds with *any*
    amount of fuel, it succeeds, with the same result, with the fuel `Value.decode` takes from the
    length of the input — so `Value.decode bs = none` means the Go decoder panics on `bs`, not
    that the model ran out of steps -/
theorem decode_complete (f : Nat) (bs : Bytes) (x : Value × Bytes) (h : decV f bs = some x) :
    Value.decode bs = some x := by
  obtain ⟨v, r⟩ := x
  exact (fuel_enough_all f).1 bs v r h (bs.length + 1) (by omega)

/-- the result of the value decoder does not depend on the fuel once the fuel exceeds the input -/
theorem decV_fuel_irrelevant (f g : Nat) (bs : Bytes) (hf : bs.length < f) (hg : bs.length < g) :
    decV f bs = decV g bs := by
  cases hd : decV f bs with
  | some x =>
    obtain ⟨v, r⟩ := x
    exact ((fuel_enough_all f).1 bs v r hd g (by omega)).symm
  | none =>
    cases hd2 : decV g bs with
    | none => rfl
    | some y =>
      obtain ⟨v, r⟩ := y
      have := (fuel_enough_all g).1 bs v r hd2 f (by omega)
      rw [hd] at this; simp at this

end FailClosed
