/-
  Golib.FailClosed.Stream — the stream input path (`io.NewDataInputNet`): fragmentation-independence.

  A connection delivers the bytes in fragments of its own choosing: a `Read(p)` returns any prefix
  of what the peer has sent so far (possibly nothing), and once everything has been delivered the
  next `Read` reports the end (io.EOF or an error).  `Conn` is the list of fragments still to
  come; `DataInputX.ReadBytes(n)` on that path is the loop

      for left > 0 { k, err := tcp.Read(buff[got:]); if err != nil { panic }; left -= k; got += k }

  modelled by `readN`: it takes fragments (splitting one when it holds more than is needed) until
  `n` bytes are there, and fails when the connection ends first.  `runC` runs a decoder of the
  monad `P` over a connection.

  `runC_eq`: decoding over ANY fragmentation equals decoding the concatenation of the fragments —
  same value, and what is left of the connection is what is left of the bytes.  Hence every
  theorem about `P.run` (round trips, `P.prefix_fails`) holds verbatim on the stream path:
  `stream_prefix_fails` — a connection that ends before the end of a complete encoding makes
  the decoder fail, whatever the fragments.
-/
import Golib.Basic

namespace FailClosed

/-- fragments still to be delivered (an empty fragment is a `Read` that returned 0 bytes) -/
abbrev Conn := List Bytes

def Conn.bytes (c : Conn) : Bytes := c.flatten

/-- `ReadBytes(n)` over a connection -/
def readN : Nat → Conn → Option (Bytes × Conn)
  | 0, c => some ([], c)
  | _+1, [] => none                                   -- the connection ended: err ≠ nil → panic
  | n+1, f :: c =>
    if f.length ≤ n + 1 then
      match readN (n + 1 - f.length) c with
      | none => none
      | some (b, c') => some (f ++ b, c')
    else some (f.take (n + 1), f.drop (n + 1) :: c)   -- the Read filled the rest of the buffer

/-- a decoder of the monad `P` reading from a connection -/
def runC : P α → Conn → Option (α × Conn)
  | .pure a, c => some (a, c)
  | .fail, _ => none
  | .read n k, c =>
    match readN n c with
    | none => none
    | some (b, c') => runC (k b) c'

theorem readN_spec (n : Nat) (c : Conn) :
    match readN n c with
    | some (b, c') => n ≤ c.bytes.length ∧ b = c.bytes.take n ∧ c'.bytes = c.bytes.drop n
    | none => c.bytes.length < n := by
  induction c generalizing n with
  | nil =>
    cases n with
    | zero => simp [readN, Conn.bytes]
    | succ n => simp [readN, Conn.bytes]
  | cons f c ih =>
    cases n with
    | zero => simp [readN, Conn.bytes]
    | succ n =>
      simp only [readN]
      by_cases hf : f.length ≤ n + 1
      · rw [if_pos hf]
        have h := ih (n + 1 - f.length)
        cases hr : readN (n + 1 - f.length) c with
        | none =>
          rw [hr] at h; simp only at h ⊢
          simp only [Conn.bytes, List.flatten_cons, List.length_append] at h ⊢
          omega
        | some x =>
          obtain ⟨b, c'⟩ := x
          rw [hr] at h; simp only at h ⊢
          obtain ⟨h1, h2, h3⟩ := h
          simp only [Conn.bytes, List.flatten_cons, List.length_append] at h1 h2 h3 ⊢
          refine ⟨by omega, ?_, ?_⟩
          · rw [List.take_append, List.take_of_length_le hf, h2]
          · rw [List.drop_append, List.drop_of_length_le hf, h3]; simp
      · rw [if_neg hf]
        simp only [Conn.bytes, List.flatten_cons, List.length_append]
        have hlt : n + 1 < f.length := by omega
        refine ⟨by omega, ?_, ?_⟩
        · rw [List.take_append_of_le_length (by omega)]
        · rw [List.drop_append_of_le_length (by omega)]

/-- **fragmentation-independence**: over any fragmentation the decoder does what it does on the
    concatenated bytes -/
theorem runC_eq (p : P α) (c : Conn) :
    match runC p c with
    | some (v, c') => P.run p c.bytes = some (v, c'.bytes)
    | none => P.run p c.bytes = none := by
  induction p generalizing c with
  | pure a => simp [runC, P.run]
  | fail => simp [runC, P.run]
  | read n k ih =>
    simp only [runC]
    rw [P.run_read]
    have h := readN_spec n c
    cases hr : readN n c with
    | none =>
      rw [hr] at h; simp only at h ⊢
      rw [if_neg (by omega)]
    | some x =>
      obtain ⟨b, c'⟩ := x
      rw [hr] at h; simp only at h ⊢
      obtain ⟨h1, h2, h3⟩ := h
      rw [if_pos h1, ← h2, ← h3]
      exact ih b c'

theorem runC_some (p : P α) (c : Conn) (v : α) (c' : Conn) (h : runC p c = some (v, c')) :
    P.run p c.bytes = some (v, c'.bytes) := by
  have := runC_eq p c; rw [h] at this; exact this

theorem runC_none (p : P α) (c : Conn) (h : runC p c = none) : P.run p c.bytes = none := by
  have := runC_eq p c; rw [h] at this; exact this

/-- two fragmentations of the same bytes: same outcome, same value, same bytes left -/
theorem runC_fragmentation_independent (p : P α) (c d : Conn) (h : c.bytes = d.bytes) :
    (runC p c).map (fun x => (x.1, x.2.bytes)) = (runC p d).map (fun x => (x.1, x.2.bytes)) := by
  have h1 := runC_eq p c
  have h2 := runC_eq p d
  rw [h] at h1
  cases hc : runC p c with
  | none =>
    rw [hc] at h1
    cases hd : runC p d with
    | none => rfl
    | some y => obtain ⟨w, d'⟩ := y; rw [hd] at h2; simp only at h1 h2; rw [h1] at h2; simp at h2
  | some x =>
    obtain ⟨v, c'⟩ := x
    rw [hc] at h1
    cases hd : runC p d with
    | none => rw [hd] at h2; simp only at h1 h2; rw [h1] at h2; simp at h2
    | some y =>
      obtain ⟨w, d'⟩ := y
      rw [hd] at h2; simp only at h1 h2
      rw [h1] at h2
      simp only [Option.some.injEq, Prod.mk.injEq] at h2
      simp [h2.1, h2.2]

/-- **a stream that ends mid-encoding fails**: if the bytes `q ++ s` (`s ≠ []`) are a complete
    encoding for the decoder `p` and the connection delivers only `q` — in whatever fragments — before
    it ends, the decoder fails -/
theorem stream_prefix_fails (p : P α) (c : Conn) (s : Bytes) (v : α) (hs : s ≠ [])
    (h : P.run p (c.bytes ++ s) = some (v, [])) : runC p c = none := by
  cases hc : runC p c with
  | none => rfl
  | some x =>
    obtain ⟨w, c'⟩ := x
    have := runC_some p c w c' hc
    rw [P.prefix_fails p c.bytes s v hs h] at this
    simp at this

/-- the complete encoding decodes over every fragmentation, to the same value -/
theorem stream_complete (p : P α) (c : Conn) (v : α) (h : P.run p c.bytes = some (v, [])) :
    ∃ c', runC p c = some (v, c') ∧ c'.bytes = [] := by
  have h1 := runC_eq p c
  cases hc : runC p c with
  | none => rw [hc] at h1; simp only at h1; rw [h] at h1; simp at h1
  | some x =>
    obtain ⟨w, c'⟩ := x
    rw [hc] at h1; simp only at h1
    rw [h] at h1
    simp only [Option.some.injEq, Prod.mk.injEq] at h1
    exact ⟨c', by rw [h1.1], h1.2.symm⟩

end FailClosed
