/-
  Golib.FailClosed.LayoutA — the pack layout reader with its allocations.

  `toA F l pfx e` is `Layout.L.read l pfx e` (the reader semantics C03 verifies) in the
  instrumented syntax `A`, for the constructors the transcribed pack layouts use (`plain`):
  every primitive read is charged byte for byte (`primA`), a counted table `rep` is the repaired code
      n := Read<cnt>();  din.CheckCount(n, 1);  t = make([]T, n)   -- at most SL bytes per element
      n times: the element layout
  and a sub-stream `wrap` is charged what decoding the blob costs.

    run_toA   : for `costOK` layouts it reads exactly what `L.read` reads (the guard is invisible)
    paid_toA  : it allocates at most `coef l` bytes per input byte, on every input, where
                `coef l = KL + SL·(number of tables on the deepest path) + (sub-stream depth)` — by induction on the IR
-/
import Golib.FailClosed.LayoutPrim

namespace FailClosed
open Layout (L Val Env Out elemPfx)

abbrev RA := A (Out × Env)

def elemsA (f : String → Env → RA) (pfx name : String) : Nat → Nat → Env → RA
  | _, 0, e => .pure ([], e)
  | i, n+1, e =>
    A.bind (f (elemPfx pfx name i) e) (fun x =>
      A.map (fun y => (x.1 ++ y.1, y.2)) (elemsA f pfx name (i+1) n x.2))

def toA (F : Nat) : L → String → Env → RA
  | .nil, _, e => .pure ([], e)
  | .fld name p _ rest, pfx, e =>
    A.bind (primA F p) (fun v => A.map (fun y => ((pfx ++ name, v) :: y.1, y.2)) (toA F rest pfx e))
  | .lit _ _ rest, pfx, e => toA F rest pfx e
  | .skip p rest, pfx, e => A.bind (primA F p) (fun _ => toA F rest pfx e)
  | .var name p rest, pfx, e => A.bind (primA F p) (fun v => toA F rest pfx (e.set name v.toInt))
  | .ite c t el rest, pfx, e =>
    A.bind (if c.eval e then toA F t pfx e else toA F el pfx e) (fun x =>
      A.map (fun y => (x.1 ++ y.1, y.2)) (toA F rest pfx x.2))
  | .guard c rest, pfx, e => if c.eval e then .fail else toA F rest pfx e
  | .opt name body rest, pfx, e =>
    A.bind (primA F .u8) (fun flag =>
      if flag.toInt != 0 then
        A.bind (toA F body pfx e) (fun x =>
          A.map (fun y => ((pfx ++ name ++ "?", Val.int 1) :: (x.1 ++ y.1), y.2)) (toA F rest pfx x.2))
      else A.map (fun y => ((pfx ++ name ++ "?", Val.int 0) :: y.1, y.2)) (toA F rest pfx e))
  | .rep cnt name body rest, pfx, e =>
    A.bind (primA F cnt) (fun n =>
      .need n.toInt.toNat (.alloc (n.toInt.toNat * SL)
        (A.bind (elemsA (fun q e' => toA F body q e') pfx name 0 n.toInt.toNat e) (fun x =>
          A.map (fun y => ((pfx ++ name ++ "#", Val.int n.toInt.toNat) :: (x.1 ++ y.1), y.2))
            (toA F rest pfx x.2)))))
  | .wrap body rest, pfx, e =>
    A.bind (A.ofP Prim.decBlob) (fun inner =>
      .alloc (A.cost (toA F body pfx e) inner)
        (match A.run (toA F body pfx e) inner with
         | none => .fail
         | some (x, _) => A.map (fun y => (x.1 ++ y.1, y.2)) (toA F rest pfx x.2)))
  | .hdr rest, pfx, e =>
    A.bind (A.ofP Layout.decHeader) (fun h =>
      A.map (fun y => (Layout.hdrOut pfx h ++ y.1, y.2)) (toA F rest pfx e))
  | .times n name body rest, pfx, e =>
    A.bind (elemsA (fun q e' => toA F body q e') pfx name 0 n e) (fun x =>
      A.map (fun y => (x.1 ++ y.1, y.2)) (toA F rest pfx x.2))
  | .sub name body rest, pfx, e =>
    A.bind (toA F body (pfx ++ name ++ ".") e) (fun x =>
      A.map (fun y => (x.1 ++ y.1, y.2)) (toA F rest pfx x.2))
  | .kfld name p _ rest, pfx, e =>
    A.bind (primA F p) (fun v => A.map (fun y => ((pfx ++ name, v) :: y.1, y.2)) (toA F rest pfx e))
  | .key name p vn rest, pfx, e =>
    A.bind (primA F p) (fun v =>
      A.map (fun y => ((pfx ++ name, v) :: y.1, y.2)) (toA F rest pfx (e.set vn v.toInt)))
  | .mopt _ name body rest, pfx, e =>
    A.bind (primA F .u8) (fun flag =>
      if flag.toInt != 0 then
        A.bind (toA F body pfx e) (fun x =>
          A.map (fun y => ((pfx ++ name ++ "?", Val.int 1) :: (x.1 ++ y.1), y.2)) (toA F rest pfx x.2))
      else A.map (fun y => ((pfx ++ name ++ "?", Val.int 0) :: y.1, y.2)) (toA F rest pfx e))
  | .vopt vn name body rest, pfx, e =>
    A.bind (primA F .u8) (fun flag =>
      if flag.toInt != 0 then
        A.bind (toA F body pfx (e.set vn flag.toInt)) (fun x =>
          A.map (fun y => ((pfx ++ name ++ "?", Val.int 1) :: (x.1 ++ y.1), y.2)) (toA F rest pfx x.2))
      else A.map (fun y => ((pfx ++ name ++ "?", Val.int 0) :: y.1, y.2)) (toA F rest pfx (e.set vn 0)))
  | .mrep _ name body rest, pfx, e =>
    -- a keyed table filled by `Put` per decoded element: nothing is allocated from the count
    A.bind (primA F .u8) (fun b =>
      if b.toInt = 0 then
        A.map (fun y => ((pfx ++ name ++ "#", Val.int 0) :: y.1, y.2)) (toA F rest pfx (e.set "" 0))
      else
        A.bind (A.ofP (if b.toInt ≤ 8 then Prim.decDecimalLen b.toInt.toNat else Prim.decDecimal)) (fun n =>
          A.bind (elemsA (fun q e' => toA F body q e') pfx name 0 n.toNat (e.set "" b.toInt)) (fun x =>
            A.map (fun y => ((pfx ++ name ++ "#", Val.int n.toNat) :: (x.1 ++ y.1), y.2))
              (toA F rest pfx x.2))))
  | .vrep vn name body rest, pfx, e =>
    A.bind (primA F .u8) (fun b =>
      if b.toInt = 0 then
        A.map (fun y => ((pfx ++ name ++ "#", Val.int 0) :: y.1, y.2)) (toA F rest pfx (e.set vn 0))
      else
        A.bind (A.ofP (if b.toInt ≤ 8 then Prim.decDecimalLen b.toInt.toNat else Prim.decDecimal)) (fun n =>
          A.bind (elemsA (fun q e' => toA F body q e') pfx name 0 n.toNat (e.set vn b.toInt)) (fun x =>
            A.map (fun y => ((pfx ++ name ++ "#", Val.int n.toNat) :: (x.1 ++ y.1), y.2))
              (toA F rest pfx x.2))))
  | .srep cnt body rest, pfx, e =>
    A.bind (primA F cnt) (fun n =>
      A.bind (elemsA (fun q e' => toA F body q e') pfx "" 0 n.toInt.toNat e) (fun x => toA F rest pfx x.2))
  | .avail body, pfx, e => .avail0 (.pure ([], e)) (toA F body pfx e)
  | .unknown _, _, _ => .fail

/-- the layout begins with a primitive read of at least one byte -/
def reads1 : L → Bool
  | .fld _ p _ _ => simplePrim p
  | .skip p _ => simplePrim p
  | .var _ p _ => simplePrim p
  | .hdr _ => true
  | .wrap _ _ => true          -- the length prefix of the blob
  | .lit _ _ rest => reads1 rest
  | _ => false

/-- the constructors handled, with every table element beginning with a read (so that the
    per-element slot of a table is paid by the element itself) -/
def costOK : L → Bool
  | .nil => true
  | .fld _ _ _ rest => costOK rest
  | .lit _ _ rest => costOK rest
  | .skip _ rest => costOK rest
  | .var _ _ rest => costOK rest
  | .ite _ t e rest => costOK t && costOK e && costOK rest
  | .guard _ rest => costOK rest
  | .opt _ body rest => costOK body && costOK rest
  | .rep _ _ body rest => reads1 body && costOK body && costOK rest
  | .wrap body rest => costOK body && costOK rest
  | .hdr rest => costOK rest
  | .times _ _ body rest => costOK body && costOK rest
  | .sub _ body rest => costOK body && costOK rest
  | .kfld _ _ _ rest => costOK rest
  | .key _ _ _ rest => costOK rest
  | .mopt _ _ body rest => costOK body && costOK rest
  | .vopt _ _ body rest => costOK body && costOK rest
  | .mrep _ _ body rest => costOK body && costOK rest
  | .vrep _ _ body rest => costOK body && costOK rest
  | .srep _ body rest => costOK body && costOK rest
  | .avail body => costOK body
  | .unknown _ => true

/-- bytes allocated per input byte: `KL`, plus `SL + 1` for every level of table / sub-stream nesting -/
def coef : L → Nat
  | .nil => KL
  | .fld _ _ _ rest => coef rest
  | .lit _ _ rest => coef rest
  | .skip _ rest => coef rest
  | .var _ _ rest => coef rest
  | .ite _ t e rest => max (max (coef t) (coef e)) (coef rest)
  | .guard _ rest => coef rest
  | .opt _ body rest => max (coef body) (coef rest)
  | .rep _ _ body rest => max (coef body) (coef rest) + SL
  | .wrap body rest => max (coef body + 1) (coef rest)
  | .hdr rest => coef rest
  | .times _ _ body rest => max (coef body) (coef rest)
  | .sub _ body rest => max (coef body) (coef rest)
  | .kfld _ _ _ rest => coef rest
  | .key _ _ _ rest => coef rest
  | .mopt _ _ body rest => max (coef body) (coef rest)
  | .vopt _ _ body rest => max (coef body) (coef rest)
  | .mrep _ _ body rest => max (coef body) (coef rest)
  | .vrep _ _ body rest => max (coef body) (coef rest)
  | .srep _ body rest => max (coef body) (coef rest)
  | .avail body => coef body
  | .unknown _ => KL

theorem KL_le_coef (l : L) : KL ≤ coef l := by
  induction l <;> simp only [coef] <;> omega

/-! ### allocation bound -/

theorem paid_elemsA {c s : Nat} (f : String → Env → RA) (hf : ∀ q e, Paid c s (f q e))
    (pfx name : String) (n : Nat) : ∀ i e, Paid c (n * s) (elemsA f pfx name i n e) := by
  induction n with
  | zero => intro i e; simp only [elemsA, Nat.zero_mul]; exact paid_pure _ _
  | succ n ih =>
    intro i e
    simp only [elemsA]
    have := paid_bind_slack (hf (elemPfx pfx name i) e)
      (fun x => paid_map (fun y : Out × Env => (x.1 ++ y.1, y.2)) (ih (i+1) x.2))
    rw [Nat.succ_mul, Nat.add_comm]
    exact this

/-- `CheckCount(k, 1); make(k·S bytes); X` where a successful `X` leaves `k·S` units of slack -/
theorem paid_need_alloc_slack {c S : Nat} (k : Nat) (X : A α) (hX : Paid c (k * S) X) :
    Paid (c + S) 0 (.need k (.alloc (k * S) X)) := by
  intro bs
  rw [A.run_need, A.cost_need]
  by_cases h : k ≤ bs.length
  · simp only [if_pos h, A.run_alloc, A.cost_alloc]
    have h1 := hX bs
    have hk : k * S ≤ bs.length * S := Nat.mul_le_mul_right S h
    cases hr : A.run X bs with
    | none =>
      rw [hr] at h1; simp only at h1 ⊢
      rw [Nat.add_mul, Nat.mul_comm S]; omega
    | some x =>
      obtain ⟨v, r⟩ := x
      rw [hr] at h1; simp only at h1 ⊢
      have hl := A.run_length_le X bs v r hr
      have : S * r.length ≤ S * bs.length := Nat.mul_le_mul_left S hl
      rw [Nat.add_mul, Nat.add_mul]; omega
  · simp [if_neg h]

theorem rdBytes_payload (n : Nat) (bs b r : Bytes) (h : P.run (Prim.rdBytes n) bs = some (b, r)) :
    b.length + r.length = bs.length := by
  unfold Prim.rdBytes at h
  rw [P.run_read] at h
  split at h
  · simp only [P.run_pure, Option.some.injEq, Prod.mk.injEq] at h
    rw [← h.1, ← h.2, List.length_take, List.length_drop]; omega
  · simp at h

/-- the payload of a blob is among the bytes the blob reader consumed -/
theorem decBlob_payload (bs b r : Bytes) (h : P.run Prim.decBlob bs = some (b, r)) :
    b.length + r.length + 1 ≤ bs.length := by
  unfold Prim.decBlob at h
  rw [P.run_read] at h
  split at h
  · rename_i h1
    have hd1 : (List.drop 1 bs).length = bs.length - 1 := List.length_drop
    split at h
    · rw [P.run_bind] at h
      cases h3 : P.run (Prim.rdU 2) (List.drop 1 bs) with
      | none => rw [h3] at h; simp at h
      | some y =>
        obtain ⟨n, r3⟩ := y
        rw [h3] at h; simp only at h
        have := rdBytes_payload _ _ _ _ h
        have := P.run_length_le _ _ _ _ h3
        omega
    · rw [P.run_bind] at h
      cases h3 : P.run (Prim.rdI 4) (List.drop 1 bs) with
      | none => rw [h3] at h; simp at h
      | some y =>
        obtain ⟨n, r3⟩ := y
        rw [h3] at h; simp only at h
        split at h
        · simp at h
        · have := rdBytes_payload _ _ _ _ h
          have := P.run_length_le _ _ _ _ h3
          omega
    · simp only [P.run_pure, Option.some.injEq, Prod.mk.injEq] at h
      rw [← h.1, ← h.2]; simp; omega
    · have := rdBytes_payload _ _ _ _ h
      omega
  · simp at h

/-- a sub-stream: the blob is read (and copied), then decoded on its own; what that costs is at
    most `d` units per byte of the blob -/
theorem paid_wrap {c d s : Nat} (u : Bytes → Nat) (k : Bytes → A β) (hu : ∀ b, u b ≤ d * b.length)
    (hk : ∀ b, Paid c 0 (k b)) (hc : d + 1 ≤ c) (hs : s ≤ d) :
    Paid c s (A.bind (A.ofP Prim.decBlob) (fun b => .alloc (u b) (k b))) := by
  intro bs
  rw [A.run_bind, A.cost_bind, A.run_ofP]
  have h0 := A.cost_ofP Prim.decBlob bs
  cases hr : P.run Prim.decBlob bs with
  | none =>
    rw [hr] at h0; simp only at h0 ⊢
    have : bs.length ≤ c * bs.length := Nat.le_mul_of_pos_left _ (by omega)
    omega
  | some x =>
    obtain ⟨b, r⟩ := x
    rw [hr] at h0; simp only [A.run_alloc, A.cost_alloc] at h0 ⊢
    have hb := decBlob_payload bs b r hr
    have h1 := hk b r
    have h2 := hu b
    obtain ⟨e1, he1⟩ : ∃ e1, bs.length = b.length + r.length + (e1 + 1) :=
      ⟨bs.length - (b.length + r.length) - 1, by omega⟩
    obtain ⟨g, hg⟩ : ∃ g, c = d + 1 + g := ⟨c - (d + 1), by omega⟩
    have hde : d ≤ d * (e1 + 1) := Nat.le_mul_of_pos_right d (by omega)
    cases hr2 : A.run (k b) r with
    | none =>
      rw [hr2] at h1; simp only at h1 ⊢
      rw [he1] at h0 ⊢
      subst hg
      simp only [Nat.add_mul, Nat.mul_add, Nat.one_mul, Nat.mul_one] at h1 hde ⊢
      omega
    | some y =>
      obtain ⟨w, r'⟩ := y
      rw [hr2] at h1; simp only at h1 ⊢
      rw [he1] at h0 ⊢
      subst hg
      simp only [Nat.add_mul, Nat.mul_add, Nat.one_mul, Nat.mul_one] at h1 hde ⊢
      omega

theorem SL_lt_KL : SL + 1 ≤ KL := by unfold SL KL; omega

/-- `if Available() == 0 { e } else { t }` -/
theorem paid_avail0 {c s : Nat} {e t : A α} (he : Paid c s e) (ht : Paid c s t) : Paid c s (.avail0 e t) := by
  intro bs
  by_cases hb : bs.isEmpty = true
  · have := he bs
    simpa only [A.run, A.cost, hb, if_true] using this
  · have := ht bs
    have hb' : bs.isEmpty = false := by simpa using hb
    simpa only [A.run, A.cost, hb', Bool.false_eq_true, if_false] using this

/-- the first read of a layout that begins with one pays for a slot of `SL` bytes -/
theorem paid_toA_all (F : Nat) (l : L) (hok : costOK l = true) :
    (∀ pfx e, Paid (coef l) 0 (toA F l pfx e)) ∧
    (reads1 l = true → ∀ pfx e, Paid (coef l) SL (toA F l pfx e)) := by
  induction l with
  | nil =>
    exact ⟨fun pfx e => paid_pure _ _, fun h => by simp [reads1] at h⟩
  | fld name p rng rest ih =>
    simp only [costOK] at hok
    have ihr := (ih hok).1
    refine ⟨fun pfx e => ?_, fun h pfx e => ?_⟩
    · simp only [toA, coef]
      exact paid_bind (paid_primA F p _ (KL_le_coef rest)) (fun v => paid_map _ (ihr pfx e))
    · simp only [toA, coef]
      simp only [reads1] at h
      have hs := (paid_primA_slack F p h (coef rest) (by have := KL_le_coef rest; unfold KL at this; omega)).weaken
        (s' := SL) (by have := KL_le_coef rest; have := SL_lt_KL; omega)
      exact paid_bind' hs (fun v => paid_map _ (ihr pfx e))
  | lit p v rest ih =>
    simp only [costOK] at hok
    refine ⟨fun pfx e => ?_, fun h pfx e => ?_⟩
    · simp only [toA, coef]; exact (ih hok).1 pfx e
    · simp only [toA, coef]; simp only [reads1] at h; exact (ih hok).2 h pfx e
  | skip p rest ih =>
    simp only [costOK] at hok
    have ihr := (ih hok).1
    refine ⟨fun pfx e => ?_, fun h pfx e => ?_⟩
    · simp only [toA, coef]
      exact paid_bind (paid_primA F p _ (KL_le_coef rest)) (fun v => ihr pfx e)
    · simp only [toA, coef]
      simp only [reads1] at h
      have hs := (paid_primA_slack F p h (coef rest) (by have := KL_le_coef rest; unfold KL at this; omega)).weaken
        (s' := SL) (by have := KL_le_coef rest; have := SL_lt_KL; omega)
      exact paid_bind' hs (fun v => ihr pfx e)
  | var name p rest ih =>
    simp only [costOK] at hok
    have ihr := (ih hok).1
    refine ⟨fun pfx e => ?_, fun h pfx e => ?_⟩
    · simp only [toA, coef]
      exact paid_bind (paid_primA F p _ (KL_le_coef rest)) (fun v => ihr pfx _)
    · simp only [toA, coef]
      simp only [reads1] at h
      have hs := (paid_primA_slack F p h (coef rest) (by have := KL_le_coef rest; unfold KL at this; omega)).weaken
        (s' := SL) (by have := KL_le_coef rest; have := SL_lt_KL; omega)
      exact paid_bind' hs (fun v => ihr pfx _)
  | ite c t el rest iht ihe ihr =>
    simp only [costOK, Bool.and_eq_true] at hok
    refine ⟨fun pfx e => ?_, fun h => by simp [reads1] at h⟩
    simp only [toA, coef]
    apply paid_bind
    · split
      · exact ((iht hok.1.1).1 pfx e).mono (by omega)
      · exact ((ihe hok.1.2).1 pfx e).mono (by omega)
    · intro x; exact paid_map _ (((ihr hok.2).1 pfx x.2).mono (by omega))
  | guard c rest ih =>
    simp only [costOK] at hok
    refine ⟨fun pfx e => ?_, fun h => by simp [reads1] at h⟩
    simp only [toA, coef]
    split
    · exact paid_fail _ _
    · exact (ih hok).1 pfx e
  | opt name body rest ihb ihr =>
    simp only [costOK, Bool.and_eq_true] at hok
    refine ⟨fun pfx e => ?_, fun h => by simp [reads1] at h⟩
    simp only [toA, coef]
    have hK : KL ≤ max (coef body) (coef rest) := by have := KL_le_coef rest; omega
    apply paid_bind (paid_primA F .u8 _ hK)
    intro flag
    split
    · exact paid_bind (((ihb hok.1).1 pfx e).mono (by omega))
        (fun x => paid_map _ (((ihr hok.2).1 pfx x.2).mono (by omega)))
    · exact paid_map _ (((ihr hok.2).1 pfx e).mono (by omega))
  | rep cnt name body rest ihb ihr =>
    simp only [costOK, Bool.and_eq_true] at hok
    refine ⟨fun pfx e => ?_, fun h => by simp [reads1] at h⟩
    simp only [toA, coef]
    have hK : KL ≤ max (coef body) (coef rest) + SL := by have := KL_le_coef rest; omega
    apply paid_bind (paid_primA F cnt _ hK)
    intro n
    have hbody := (ihb hok.1.2).2 hok.1.1
    have hel := paid_elemsA (c := coef body) (s := SL) (fun q e' => toA F body q e') hbody pfx name n.toInt.toNat 0 e
    -- elements (slack k·SL) then the rest, all at the coefficient max (coef body) (coef rest)
    have hX : Paid (max (coef body) (coef rest)) (n.toInt.toNat * SL)
        (A.bind (elemsA (fun q e' => toA F body q e') pfx name 0 n.toInt.toNat e) (fun x =>
          A.map (fun y : Out × Env => ((pfx ++ name ++ "#", Val.int n.toInt.toNat) :: (x.1 ++ y.1), y.2))
            (toA F rest pfx x.2))) :=
      paid_bind' (hel.mono (by omega)) (fun x => paid_map _ (((ihr hok.2).1 pfx x.2).mono (by omega)))
    exact (paid_need_alloc_slack _ _ hX).mono (by omega)
  | wrap body rest ihb ihr =>
    simp only [costOK, Bool.and_eq_true] at hok
    have hw : ∀ s, s ≤ coef body → ∀ pfx e, Paid (coef (.wrap body rest)) s (toA F (.wrap body rest) pfx e) := by
      intro s hs pfx e
      simp only [toA, coef]
      apply paid_wrap (d := coef body)
      · intro b; exact ((ihb hok.1).1 pfx e).bounded b
      · intro b
        split
        · exact paid_fail _ _
        · exact paid_map _ (((ihr hok.2).1 pfx _).mono (by omega))
      · omega
      · exact hs
    exact ⟨hw 0 (Nat.zero_le _), fun _ => hw SL (by have := KL_le_coef body; have := SL_lt_KL; omega)⟩
  | hdr rest ih =>
    simp only [costOK] at hok
    have ihr := (ih hok).1
    have h1 : 1 ≤ coef rest := by have := KL_le_coef rest; unfold KL at this; omega
    refine ⟨fun pfx e => ?_, fun h pfx e => ?_⟩
    · simp only [toA, coef]
      exact paid_bind (paid_ofP0 _ h1) (fun v => paid_map _ (ihr pfx e))
    · simp only [toA, coef]
      have hs := (paid_ofP (c := coef rest) Layout.decHeader h1
        (fun bs v r hr => by have := read_consumes 1 _ bs v r hr; omega)).weaken
        (s' := SL) (by have := KL_le_coef rest; have := SL_lt_KL; omega)
      exact paid_bind' hs (fun v => paid_map _ (ihr pfx e))
  | times n name body rest ihb ihr =>
    simp only [costOK, Bool.and_eq_true] at hok
    refine ⟨fun pfx e => ?_, fun h => by simp [reads1] at h⟩
    simp only [toA, coef]
    have hel := paid_elemsA (c := coef body) (s := 0) (fun q e' => toA F body q e') (ihb hok.1).1 pfx name n 0 e
    rw [Nat.mul_zero] at hel
    exact paid_bind (hel.mono (by omega)) (fun x => paid_map _ (((ihr hok.2).1 pfx x.2).mono (by omega)))
  | sub name body rest ihb ihr =>
    simp only [costOK, Bool.and_eq_true] at hok
    refine ⟨fun pfx e => ?_, fun h => by simp [reads1] at h⟩
    simp only [toA, coef]
    exact paid_bind (((ihb hok.1).1 _ e).mono (by omega))
      (fun x => paid_map _ (((ihr hok.2).1 pfx x.2).mono (by omega)))
  | unknown w =>
    exact ⟨fun pfx e => by simp only [toA]; exact paid_fail _ _, fun h => by simp [reads1] at h⟩
  | kfld name p k rest ih =>
    simp only [costOK] at hok
    refine ⟨fun pfx e => ?_, fun h => by simp [reads1] at h⟩
    simp only [toA, coef]
    exact paid_bind (paid_primA F p _ (KL_le_coef rest)) (fun v => paid_map _ ((ih hok).1 pfx e))
  | key name p vn rest ih =>
    simp only [costOK] at hok
    refine ⟨fun pfx e => ?_, fun h => by simp [reads1] at h⟩
    simp only [toA, coef]
    exact paid_bind (paid_primA F p _ (KL_le_coef rest)) (fun v => paid_map _ ((ih hok).1 pfx _))
  | mopt m name body rest ihb ihr =>
    simp only [costOK, Bool.and_eq_true] at hok
    refine ⟨fun pfx e => ?_, fun h => by simp [reads1] at h⟩
    simp only [toA, coef]
    have hK : KL ≤ max (coef body) (coef rest) := by have := KL_le_coef rest; omega
    apply paid_bind (paid_primA F .u8 _ hK)
    intro flag
    split
    · exact paid_bind (((ihb hok.1).1 pfx e).mono (by omega))
        (fun x => paid_map _ (((ihr hok.2).1 pfx x.2).mono (by omega)))
    · exact paid_map _ (((ihr hok.2).1 pfx e).mono (by omega))
  | vopt vn name body rest ihb ihr =>
    simp only [costOK, Bool.and_eq_true] at hok
    refine ⟨fun pfx e => ?_, fun h => by simp [reads1] at h⟩
    simp only [toA, coef]
    have hK : KL ≤ max (coef body) (coef rest) := by have := KL_le_coef rest; omega
    apply paid_bind (paid_primA F .u8 _ hK)
    intro flag
    split
    · exact paid_bind (((ihb hok.1).1 pfx _).mono (by omega))
        (fun x => paid_map _ (((ihr hok.2).1 pfx x.2).mono (by omega)))
    · exact paid_map _ (((ihr hok.2).1 pfx _).mono (by omega))
  | mrep m name body rest ihb ihr =>
    simp only [costOK, Bool.and_eq_true] at hok
    refine ⟨fun pfx e => ?_, fun h => by simp [reads1] at h⟩
    simp only [toA, coef]
    have hK : KL ≤ max (coef body) (coef rest) := by have := KL_le_coef rest; omega
    have h1 : 1 ≤ max (coef body) (coef rest) := by unfold KL at hK; omega
    apply paid_bind (paid_primA F .u8 _ hK)
    intro b
    split
    · exact paid_map _ (((ihr hok.2).1 pfx _).mono (by omega))
    · apply paid_bind (paid_ofP0 _ h1)
      intro n
      have hel := paid_elemsA (c := coef body) (s := 0) (fun q e' => toA F body q e') (ihb hok.1).1 pfx name n.toNat 0 (e.set "" b.toInt)
      rw [Nat.mul_zero] at hel
      exact paid_bind (hel.mono (by omega)) (fun x => paid_map _ (((ihr hok.2).1 pfx x.2).mono (by omega)))
  | vrep vn name body rest ihb ihr =>
    simp only [costOK, Bool.and_eq_true] at hok
    refine ⟨fun pfx e => ?_, fun h => by simp [reads1] at h⟩
    simp only [toA, coef]
    have hK : KL ≤ max (coef body) (coef rest) := by have := KL_le_coef rest; omega
    have h1 : 1 ≤ max (coef body) (coef rest) := by unfold KL at hK; omega
    apply paid_bind (paid_primA F .u8 _ hK)
    intro b
    split
    · exact paid_map _ (((ihr hok.2).1 pfx _).mono (by omega))
    · apply paid_bind (paid_ofP0 _ h1)
      intro n
      have hel := paid_elemsA (c := coef body) (s := 0) (fun q e' => toA F body q e') (ihb hok.1).1 pfx name n.toNat 0 (e.set vn b.toInt)
      rw [Nat.mul_zero] at hel
      exact paid_bind (hel.mono (by omega)) (fun x => paid_map _ (((ihr hok.2).1 pfx x.2).mono (by omega)))
  | srep cnt body rest ihb ihr =>
    simp only [costOK, Bool.and_eq_true] at hok
    refine ⟨fun pfx e => ?_, fun h => by simp [reads1] at h⟩
    simp only [toA, coef]
    have hK : KL ≤ max (coef body) (coef rest) := by have := KL_le_coef rest; omega
    apply paid_bind (paid_primA F cnt _ hK)
    intro n
    have hel := paid_elemsA (c := coef body) (s := 0) (fun q e' => toA F body q e') (ihb hok.1).1 pfx "" n.toInt.toNat 0 e
    rw [Nat.mul_zero] at hel
    exact paid_bind (hel.mono (by omega)) (fun x => ((ihr hok.2).1 pfx x.2).mono (by omega))
  | avail body ih =>
    simp only [costOK] at hok
    refine ⟨fun pfx e => ?_, fun h => by simp [reads1] at h⟩
    simp only [toA, coef]
    exact paid_avail0 (paid_pure _ _) ((ih hok).1 pfx e)

/-- **alloc_bounded for every layout** whose tables are guarded: the instrumented reader allocates
    at most `coef l` bytes per input byte, on every byte string -/
theorem cost_toA_le (F : Nat) (l : L) (hok : costOK l = true) (pfx : String) (e : Env) (bs : Bytes) :
    A.cost (toA F l pfx e) bs ≤ coef l * bs.length :=
  ((paid_toA_all F l hok).1 pfx e).bounded bs

/-! ### the instrumented reader reads what `L.read` reads -/

def reshape (t : Out × Env × Bytes) : (Out × Env) × Bytes := ((t.1, t.2.1), t.2.2)

theorem run_elemsA (F : Nat) (f : String → Env → RA) (g : String → Layout.RDec)
    (hfg : ∀ q e bs, bs.length + 2 ≤ F → A.run (f q e) bs = (g q e bs).map reshape)
    (pfx name : String) (n : Nat) : ∀ i e bs, bs.length + 2 ≤ F →
      A.run (elemsA f pfx name i n e) bs = (Layout.readElems g pfx name i n e bs).map reshape := by
  induction n with
  | zero => intro i e bs _; simp [elemsA, Layout.readElems, reshape]
  | succ n ih =>
    intro i e bs hF
    simp only [elemsA, Layout.readElems]
    rw [A.run_bind, hfg _ _ _ hF]
    cases h1 : g (elemPfx pfx name i) e bs with
    | none => rfl
    | some t =>
      obtain ⟨o1, e1, r1⟩ := t
      simp only [Option.map_some, reshape]
      have hr1 : r1.length ≤ bs.length := by
        have h2 := hfg (elemPfx pfx name i) e bs hF
        rw [h1] at h2
        exact A.run_length_le _ _ _ _ h2
      rw [A.run_map, ih (i+1) e1 r1 (by omega)]
      cases Layout.readElems g pfx name (i+1) n e1 r1 with
      | none => rfl
      | some t2 => obtain ⟨o2, e2, r2⟩ := t2; rfl

/-- `n` elements that each consume at least one byte consume at least `n` bytes -/
theorem elemsA_consumes (f : String → Env → RA)
    (hf : ∀ q e bs x r, A.run (f q e) bs = some (x, r) → r.length + 1 ≤ bs.length)
    (pfx name : String) (n : Nat) : ∀ i e bs x r,
      A.run (elemsA f pfx name i n e) bs = some (x, r) → r.length + n ≤ bs.length := by
  induction n with
  | zero =>
    intro i e bs x r h
    simp only [elemsA, A.run_pure, Option.some.injEq, Prod.mk.injEq] at h
    rw [h.2]; omega
  | succ n ih =>
    intro i e bs x r h
    simp only [elemsA] at h
    rw [A.run_bind] at h
    cases h1 : A.run (f (elemPfx pfx name i) e) bs with
    | none => rw [h1] at h; simp at h
    | some t =>
      obtain ⟨x1, r1⟩ := t
      rw [h1] at h; simp only at h
      rw [A.run_map] at h
      cases h2 : A.run (elemsA f pfx name (i+1) n x1.2) r1 with
      | none => rw [h2] at h; simp at h
      | some t2 =>
        obtain ⟨x2, r2⟩ := t2
        rw [h2] at h
        simp only [Option.map_some, Option.some.injEq, Prod.mk.injEq] at h
        have a1 := hf _ _ _ _ _ h1
        have a2 := ih _ _ _ _ _ h2
        rw [← h.2]; omega

/-- a decoder that leaves at least one unit of slack consumes at least one byte -/
theorem consumes_of_paid {c s : Nat} {a : A α} (h : Paid c s a) (hs : 1 ≤ s) (bs : Bytes) (x : α) (r : Bytes)
    (hr : A.run a bs = some (x, r)) : r.length + 1 ≤ bs.length := by
  have h1 := h bs
  rw [hr] at h1
  simp only at h1
  have hl := A.run_length_le a bs x r hr
  rcases Nat.lt_or_ge r.length bs.length with hlt | hge
  · omega
  · have : r.length = bs.length := by omega
    rw [this] at h1; omega

end FailClosed
