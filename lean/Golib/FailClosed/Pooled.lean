/-
  Golib.FailClosed.Pooled — one in-memory reader used for several decodes.

  A decoder that opens a sub-stream (`io.NewDataInputX(din.ReadBlob())` in `TxRecord.Read`, the lazy
  accessors, every `…FromBytes`) builds a NEW reader over exactly the bytes of that blob: the reader of
  the model (`P.run p bs`) starts with the input and nothing else.  If the reader object is kept between
  decodes (a pool, a field) it has to be re-pointed at the next input, and what the previous decode left
  unread in it — a failed decode stops anywhere, a successful one may leave trailing bytes — is state
  that a later decode could see.

  `step reset p junk st inp` is one decode through such a reader: `st` = the bytes still buffered,
  `reset st inp` = what the reader holds after being re-pointed, the decode runs on that; afterwards the
  reader holds the unread rest (success) or `junk` of what it held (failure: how far the failed decode
  got is not determined by the model — ANY function).  `runHist` folds a whole history of inputs.

  * `replace`      (what `NewDataInputX(buf)` does: the buffer IS the input): every decode of every
                   history, after any number of failed ones, is the decode of its own input alone
                   (`replace_history`, `replace_history_any_start`), so all per-input theorems (prefix
                   failure, locality, allocation) carry over to histories (`replace_prefix_fails_in_history`).
  * `appendReset`  (`buffer.Write(buf)` on the assumption that the buffer is empty): the history is the
                   per-input one exactly as long as nothing was left over (`append_ok_when_drained`);
                   `append_not_fail_closed` is the counter-model: a rejected 5-byte input followed by a
                   3-byte one decodes to a long made of both.
-/
import Golib.Basic

namespace FailClosed.Pooled

/-- re-pointing a kept reader: `old` = bytes still buffered, `inp` = the next input -/
abbrev Reset := Bytes → Bytes → Bytes

/-- `NewDataInputX(buf)` / a `Reset` that replaces the buffer -/
def replace : Reset := fun _ inp => inp

/-- `buffer.Write(buf)`: correct only if the buffer was drained -/
def appendReset : Reset := fun old inp => old ++ inp

/-- one decode through a kept reader: the result, and what the reader holds afterwards -/
def step (reset : Reset) (p : P α) (junk : Bytes → Bytes) (st inp : Bytes) : Option α × Bytes :=
  match P.run p (reset st inp) with
  | some (a, rest) => (some a, rest)
  | none => (none, junk (reset st inp))

/-- a history of decodes through the same kept reader -/
def runHist (reset : Reset) (p : P α) (junk : Bytes → Bytes) : Bytes → List Bytes → List (Option α)
  | _, [] => []
  | st, inp :: more =>
    let r := step reset p junk st inp
    r.1 :: runHist reset p junk r.2 more

/-- the specification: every input decoded on its own, by a reader that holds nothing else -/
def perInput (p : P α) (inputs : List Bytes) : List (Option α) :=
  inputs.map (fun inp => (P.run p inp).map Prod.fst)

theorem step_replace (p : P α) (junk : Bytes → Bytes) (st inp : Bytes) :
    (step replace p junk st inp).1 = (P.run p inp).map Prod.fst := by
  unfold step replace
  cases P.run p inp with
  | none => rfl
  | some x => rfl

/-- with a replacing reset, whatever the reader held at the start and wherever failed decodes stopped,
    the history is the per-input specification -/
theorem replace_history_any_start (p : P α) (junk : Bytes → Bytes) (st : Bytes) (inputs : List Bytes) :
    runHist replace p junk st inputs = perInput p inputs := by
  induction inputs generalizing st with
  | nil => rfl
  | cons inp more ih =>
    simp only [runHist, perInput, List.map_cons]
    rw [step_replace, ih]
    rfl

theorem replace_history (p : P α) (junk : Bytes → Bytes) (inputs : List Bytes) :
    runHist replace p junk [] inputs = perInput p inputs :=
  replace_history_any_start p junk [] inputs

/-- prefix failure inside a history: at whatever position a strict prefix of a complete encoding
    stands, after whatever inputs (failed or not), that decode fails -/
theorem replace_prefix_fails_in_history (p : P α) (junk : Bytes → Bytes) (st : Bytes)
    (before after : List Bytes) (q s : Bytes) (v : α) (hs : s ≠ [])
    (h : P.run p (q ++ s) = some (v, [])) :
    (runHist replace p junk st (before ++ q :: after))[before.length]? = some none := by
  rw [replace_history_any_start]
  unfold perInput
  rw [List.map_append, List.map_cons]
  rw [List.getElem?_append_right (by simp)]
  simp only [List.length_map, Nat.sub_self, List.getElem?_cons_zero]
  rw [P.prefix_fails p q s v hs h]
  rfl

/-- the appending reset is right exactly while nothing is left over: a history in which every decode
    drains the reader (complete encodings only) is the per-input one -/
theorem append_ok_when_drained (p : P α) (junk : Bytes → Bytes) (inputs : List Bytes)
    (h : ∀ inp ∈ inputs, ∃ v, P.run p inp = some (v, [])) :
    runHist appendReset p junk [] inputs = perInput p inputs := by
  induction inputs with
  | nil => rfl
  | cons inp more ih =>
    obtain ⟨v, hv⟩ := h inp (by simp)
    have hm : ∀ i ∈ more, ∃ v, P.run p i = some (v, []) := fun i hi => h i (by simp [hi])
    simp only [runHist, perInput, List.map_cons, step, appendReset, List.nil_append, hv]
    have := ih hm
    unfold perInput at this
    rw [this]
    rfl

/-- `ReadLong`: eight bytes, big endian -/
def readLong : P Nat := .read 8 (fun bs => .pure (bs.foldl (fun a b => a * 256 + b) 0))

/-- the counter-model (the seeded change `DataInputX.Reset` = `buffer.Write`): the first input is
    rejected (5 of 8 bytes; the repaired `ReadBytes` checks before it reads, so the 5 bytes stay in
    the buffer: `junk = id`), the second input has 3 bytes and decodes — to a number whose first five
    bytes are not in it -/
theorem append_not_fail_closed :
    runHist appendReset readLong id [] [[1, 2, 3, 4, 5], [6, 7, 8]] = [none, some 0x0102030405060708] ∧
    perInput readLong [[1, 2, 3, 4, 5], [6, 7, 8]] = [none, none] := by
  constructor <;> decide

end FailClosed.Pooled
