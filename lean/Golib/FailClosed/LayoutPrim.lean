/-
  Golib.FailClosed.LayoutPrim — the wire primitives of the pack layout IR (Golib.Layout.IR) with
  their allocations: `primA F p` is `Layout.Prim.decode p` in the instrumented syntax `A`
  (reads charged byte for byte, array readers with their guarded `make`, tagged values through
  `decVA true`, `F` = fuel of the value decoder).

    run_primA   : it decodes exactly what `Layout.Prim.decode` decodes (for `|input| + 2 ≤ F`)
    paid_primA  : at most `KL = 2048` bytes allocated per input byte
    paid_primA_slack : the non-array, non-value primitives leave `KL - 1` units of slack
                  (they consume at least one byte) — what pays for the slot of a table element
-/
import Golib.Layout.IR
import Golib.FailClosed.ValueAlloc
import Golib.FailClosed.ValueTotal

namespace FailClosed
open Prim Value

/-- bytes per input byte for layouts without tables (values: 1280) -/
def KL : Nat := 2048
/-- upper bound of the size of one table element (`sizeof` of the largest record struct, ProcPerf: 208) -/
def SL : Nat := 512

/-- `MapValue.Read` into a map the pack's constructor made (no tag, no constructor allocation) -/
def mapBodyA (f : Nat) : A Value :=
  A.bind (A.ofP decDecimal) (fun n => A.map Value.map (decKVsA true f n.toNat []))
def imapBodyA (f : Nat) : A Value :=
  A.bind (A.ofP decDecimal) (fun n => A.map Value.imap (decIKVsA true f n.toNat []))

def primA (F : Nat) : Layout.Prim → A Layout.Val
  | .bool => A.map (fun b => Layout.Val.int (if b then 1 else 0)) (A.ofP rdBool)
  | .u8 => A.map (fun n : Nat => Layout.Val.int n) (A.ofP (rdU 1))
  | .i16 => A.map Layout.Val.int (A.ofP (rdI 2))
  | .i24 => A.map Layout.Val.int (A.ofP (rdI 3))
  | .i32 => A.map Layout.Val.int (A.ofP (rdI 4))
  | .i64 => A.map Layout.Val.int (A.ofP (rdI 8))
  | .f32 => A.map (fun n : Nat => Layout.Val.int n) (A.ofP (rdU 4))
  | .f64 => A.map (fun n : Nat => Layout.Val.int n) (A.ofP (rdU 8))
  | .dec => A.map Layout.Val.int (A.ofP decDecimal)
  | .blob => A.map Layout.Val.bytes (A.ofP decBlob)
  | .aI16 => A.map Layout.Val.ints (arrA true 2 2 (rdI 2))
  | .aI32 => A.map Layout.Val.ints (arrA true 4 4 (rdI 4))
  | .aI64 => A.map Layout.Val.ints (arrA true 8 8 (rdI 8))
  | .aF32 => A.map (fun xs : List Nat => Layout.Val.ints (xs.map Int.ofNat)) (arrA true 4 4 (rdU 4))
  | .aF64 => A.map (fun xs : List Nat => Layout.Val.ints (xs.map Int.ofNat)) (arrA true 8 8 (rdU 8))
  | .aText => A.map Layout.Val.strs (arrA true 1 16 decBlob)
  | .value => A.map Layout.Val.value (decVA true F)
  | .mapV => A.map Layout.Val.value (decVA true F)
  | .imapV => A.map Layout.Val.value (decVA true F)
  | .mapBody => A.map Layout.Val.value (mapBodyA F)
  | .imapBody => A.map Layout.Val.value (imapBodyA F)
  | .u16 => A.map (fun n : Nat => Layout.Val.int n) (A.ofP (rdU 2))
  | .a8I16 => A.map Layout.Val.ints (A.ofP (P.bind (rdU 1) (fun n => decMany (rdI 2) n)))
  | .b24 => A.map Layout.Val.bytes (A.ofP (P.bind (rdI 3) (fun n => if n < 0 then .fail else rdBytes n.toNat)))
  | .anylist => A.map id (A.ofP Layout.decAnyList)

/-- the primitives that are plain `P` programs consuming at least one byte -/
def simplePrim : Layout.Prim → Bool
  | .bool | .u8 | .i16 | .i24 | .i32 | .i64 | .f32 | .f64 | .dec | .blob | .u16 => true
  | _ => false

theorem run_map_ofP_prim (f : α → Layout.Val) (p : P α) (bs : Bytes) :
    A.run (A.map f (A.ofP p)) bs = Layout.Prim.ofP p f bs := by
  rw [A.run_map, A.run_ofP]; rfl

theorem run_map_arrA_prim (f : List α → Layout.Val) (w w' : Nat) (elem : P α)
    (he : ∀ bs v r, P.run elem bs = some (v, r) → r.length + w ≤ bs.length) (bs : Bytes) :
    A.run (A.map f (arrA true w w' elem)) bs = Layout.Prim.ofP (decArr elem) f bs := by
  rw [A.run_map, run_arrA true w w' elem he]; rfl

/-! fuel of the map-body decoders -/

theorem decKVs_fuel_irrelevant (f g c : Nat) (acc : List (Bytes × Value)) (bs : Bytes)
    (hf : bs.length ≤ f) (hg : bs.length ≤ g) : decKVs f c acc bs = decKVs g c acc bs := by
  cases hd : decKVs f c acc bs with
  | some x =>
    obtain ⟨v, r⟩ := x
    exact ((fuel_enough_all f).2.2.1 c acc bs v r hd g (Or.inr (by omega))).symm
  | none =>
    cases hd2 : decKVs g c acc bs with
    | none => rfl
    | some y =>
      obtain ⟨v, r⟩ := y
      have := (fuel_enough_all g).2.2.1 c acc bs v r hd2 f (Or.inr (by omega))
      rw [hd] at this; simp at this

theorem decIKVs_fuel_irrelevant (f g c : Nat) (acc : List (Int × Value)) (bs : Bytes)
    (hf : bs.length ≤ f) (hg : bs.length ≤ g) : decIKVs f c acc bs = decIKVs g c acc bs := by
  cases hd : decIKVs f c acc bs with
  | some x =>
    obtain ⟨v, r⟩ := x
    exact ((fuel_enough_all f).2.2.2 c acc bs v r hd g (Or.inr (by omega))).symm
  | none =>
    cases hd2 : decIKVs g c acc bs with
    | none => rfl
    | some y =>
      obtain ⟨v, r⟩ := y
      have := (fuel_enough_all g).2.2.2 c acc bs v r hd2 f (Or.inr (by omega))
      rw [hd] at this; simp at this

theorem run_mapBodyA (F : Nat) (bs : Bytes) (hF : bs.length + 2 ≤ F) :
    A.run (mapBodyA F) bs = Value.decode (80 :: bs) := by
  unfold mapBodyA Value.decode
  simp only [List.length_cons, decV]
  rw [A.run_bind, A.run_ofP]
  cases hd : P.run decDecimal bs with
  | none => rfl
  | some x =>
    obtain ⟨n, r⟩ := x
    simp only
    have hr := decDecimal_consumes _ _ _ hd
    rw [A.run_map, (run_decVA_all true F).2.2.1,
      decKVs_fuel_irrelevant F (bs.length + 1) _ _ r (by omega) (by omega)]

theorem run_imapBodyA (F : Nat) (bs : Bytes) (hF : bs.length + 2 ≤ F) :
    A.run (imapBodyA F) bs = Value.decode (81 :: bs) := by
  unfold imapBodyA Value.decode
  simp only [List.length_cons, decV]
  rw [A.run_bind, A.run_ofP]
  cases hd : P.run decDecimal bs with
  | none => rfl
  | some x =>
    obtain ⟨n, r⟩ := x
    simp only
    have hr := decDecimal_consumes _ _ _ hd
    rw [A.run_map, (run_decVA_all true F).2.2.2,
      decIKVs_fuel_irrelevant F (bs.length + 1) _ _ r (by omega) (by omega)]

/-- the instrumented primitive decodes exactly what the layout primitive decodes -/
theorem run_primA (F : Nat) (p : Layout.Prim) (bs : Bytes) (hF : bs.length + 2 ≤ F) :
    A.run (primA F p) bs = p.decode bs := by
  cases p
  case aI16 => exact run_map_arrA_prim _ 2 2 _ (rdI_consumes 2) bs
  case aI32 => exact run_map_arrA_prim _ 4 4 _ (rdI_consumes 4) bs
  case aI64 => exact run_map_arrA_prim _ 8 8 _ (rdI_consumes 8) bs
  case aF32 => exact run_map_arrA_prim _ 4 4 _ (rdU_consumes 4) bs
  case aF64 => exact run_map_arrA_prim _ 8 8 _ (rdU_consumes 8) bs
  case aText => exact run_map_arrA_prim _ 1 16 _ decBlob_consumes bs
  case value =>
    simp only [primA, Layout.Prim.decode, A.run_map, run_decVA, Value.decode]
    rw [decV_fuel_irrelevant F (bs.length + 1) bs (by omega) (by omega)]
  case mapV =>
    simp only [primA, Layout.Prim.decode, A.run_map, run_decVA, Value.decode]
    rw [decV_fuel_irrelevant F (bs.length + 1) bs (by omega) (by omega)]
  case imapV =>
    simp only [primA, Layout.Prim.decode, A.run_map, run_decVA, Value.decode]
    rw [decV_fuel_irrelevant F (bs.length + 1) bs (by omega) (by omega)]
  case mapBody =>
    simp only [primA, Layout.Prim.decode, A.run_map, run_mapBodyA F bs hF]
  case imapBody =>
    simp only [primA, Layout.Prim.decode, A.run_map, run_imapBodyA F bs hF]
  all_goals exact run_map_ofP_prim _ _ bs

/-! allocation -/

/-- slack of both parts adds up -/
theorem paid_bind_slack {c s s' : Nat} {a : A α} {f : α → A β} (ha : Paid c s a)
    (hf : ∀ x, Paid c s' (f x)) : Paid c (s + s') (A.bind a f) := by
  intro bs
  rw [A.run_bind, A.cost_bind]
  have h1 := ha bs
  cases hr : A.run a bs with
  | none => rw [hr] at h1; simpa using h1
  | some x =>
    obtain ⟨v, r⟩ := x
    rw [hr] at h1; simp only at h1 ⊢
    have h2 := hf v r
    cases hr2 : A.run (f v) r with
    | none => rw [hr2] at h2; simp only at h2 ⊢; omega
    | some y => obtain ⟨w, r'⟩ := y; rw [hr2] at h2; simp only at h2 ⊢; omega

theorem paid_bind' {c s : Nat} {a : A α} {f : α → A β} (ha : Paid c s a)
    (hf : ∀ x, Paid c 0 (f x)) : Paid c s (A.bind a f) := by
  have := paid_bind_slack ha hf; simpa using this

theorem paid_mapBodyA (F : Nat) : Paid KL 0 (mapBodyA F) := by
  unfold mapBodyA
  exact paid_bind (paid_ofP0 _ (by unfold KL; omega))
    (fun n => paid_map _ (((paid_decVA_all F).2.2.1 _ _).mono (by unfold KL; omega)))

theorem paid_imapBodyA (F : Nat) : Paid KL 0 (imapBodyA F) := by
  unfold imapBodyA
  exact paid_bind (paid_ofP0 _ (by unfold KL; omega))
    (fun n => paid_map _ (((paid_decVA_all F).2.2.2 _ _).mono (by unfold KL; omega)))

/-- every primitive: at most `c` bytes per input byte, for any `c ≥ KL` -/
theorem paid_primA (F : Nat) (p : Layout.Prim) (c : Nat) (hc : KL ≤ c) : Paid c 0 (primA F p) := by
  have h1 : 1 ≤ c := by unfold KL at hc; omega
  have h17 : 17 ≤ c := by unfold KL at hc; omega
  have h1280 : 1280 ≤ c := by unfold KL at hc; omega
  cases p
  case aI16 => exact paid_map _ ((paid_arrA 2 2 1 _ (by omega) (rdI_consumes 2)).mono (by omega))
  case aI32 => exact paid_map _ ((paid_arrA 4 4 1 _ (by omega) (rdI_consumes 4)).mono (by omega))
  case aI64 => exact paid_map _ ((paid_arrA 8 8 1 _ (by omega) (rdI_consumes 8)).mono (by omega))
  case aF32 => exact paid_map _ ((paid_arrA 4 4 1 _ (by omega) (rdU_consumes 4)).mono (by omega))
  case aF64 => exact paid_map _ ((paid_arrA 8 8 1 _ (by omega) (rdU_consumes 8)).mono (by omega))
  case aText => exact paid_map _ ((paid_arrA 1 16 16 _ (by omega) decBlob_consumes).mono (by omega))
  case value => exact paid_map _ (((paid_decVA F).weaken (Nat.zero_le _)).mono h1280)
  case mapV => exact paid_map _ (((paid_decVA F).weaken (Nat.zero_le _)).mono h1280)
  case imapV => exact paid_map _ (((paid_decVA F).weaken (Nat.zero_le _)).mono h1280)
  case mapBody => exact paid_map _ ((paid_mapBodyA F).mono hc)
  case imapBody => exact paid_map _ ((paid_imapBodyA F).mono hc)
  all_goals exact paid_map _ (paid_ofP0 _ h1)

/-- the simple primitives consume at least one byte, so they leave `c - 1` units of slack -/
theorem paid_primA_slack (F : Nat) (p : Layout.Prim) (hp : simplePrim p = true) (c : Nat) (hc : 1 ≤ c) :
    Paid c (c - 1) (primA F p) := by
  cases p <;> simp only [simplePrim, Bool.false_eq_true] at hp
  case bool => exact paid_map _ (paid_ofP _ hc (fun bs v r h => rdBool_consumes bs v r h))
  case u8 => exact paid_map _ (paid_ofP _ hc (fun bs v r h => rdU_consumes 1 bs v r h))
  case i16 => exact paid_map _ (paid_ofP _ hc (fun bs v r h => by have := rdI_consumes 2 bs v r h; omega))
  case i24 => exact paid_map _ (paid_ofP _ hc (fun bs v r h => by have := rdI_consumes 3 bs v r h; omega))
  case i32 => exact paid_map _ (paid_ofP _ hc (fun bs v r h => by have := rdI_consumes 4 bs v r h; omega))
  case i64 => exact paid_map _ (paid_ofP _ hc (fun bs v r h => by have := rdI_consumes 8 bs v r h; omega))
  case f32 => exact paid_map _ (paid_ofP _ hc (fun bs v r h => by have := rdU_consumes 4 bs v r h; omega))
  case f64 => exact paid_map _ (paid_ofP _ hc (fun bs v r h => by have := rdU_consumes 8 bs v r h; omega))
  case dec => exact paid_map _ (paid_ofP _ hc (fun bs v r h => decDecimal_consumes bs v r h))
  case blob => exact paid_map _ (paid_ofP _ hc (fun bs v r h => decBlob_consumes bs v r h))
  case u16 => exact paid_map _ (paid_ofP _ hc (fun bs v r h => by have := rdU_consumes 2 bs v r h; omega))

/-- … and a successful run of one consumes at least one byte -/
theorem primA_consumes (F : Nat) (p : Layout.Prim) (hp : simplePrim p = true) (bs : Bytes)
    (v : Layout.Val) (r : Bytes) (h : A.run (primA F p) bs = some (v, r)) : r.length + 1 ≤ bs.length := by
  have hp1 := paid_primA_slack F p hp 2 (by omega) bs
  rw [h] at hp1
  simp only at hp1
  have := A.run_length_le _ _ _ _ h
  omega

end FailClosed
