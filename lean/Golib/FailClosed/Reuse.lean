/-
  Golib.FailClosed.Reuse — reusing one object for several `Read`s.

  A `Read` method decodes INTO an object that already exists.  `Reader S` is such a method: the
  object before, the input, the object after and whether it returned (a panic leaves whatever it
  had stored so far).  `Resets rd obs`: a successful `Read` determines everything `obs` shows of the
  object from the input alone.  For such readers a failed `Read` leaves nothing behind that a later
  valid `Read` into the same object could show (`reuse_after_failure`, and over whole histories
  `reuse_history`).  Readers that `Put` into a table the object already holds do not reset
  (`additive_not_reset`): they are the exceptions, listed exactly by tie A
  (`Gen.AllocSites.additiveReaders`, obligation `C04Gen.additive_readers_exact`).
-/
import Golib.Basic

namespace FailClosed.Reuse

abbrev Reader (S : Type) := S → Bytes → S × Bool

def Resets {S O : Type} (rd : Reader S) (obs : S → O) : Prop :=
  ∀ s s' bs, (rd s bs).2 = true → (rd s' bs).2 = true ∧ obs (rd s bs).1 = obs (rd s' bs).1

/-- a failed `Read`, then a valid `Read` into the same object: what a fresh decode gives -/
theorem reuse_after_failure {S O : Type} (rd : Reader S) (obs : S → O) (h : Resets rd obs)
    (fresh : S) (bad good : Bytes) (hgood : (rd fresh good).2 = true) :
    (rd (rd fresh bad).1 good).2 = true ∧ obs (rd (rd fresh bad).1 good).1 = obs (rd fresh good).1 := by
  have := h fresh (rd fresh bad).1 good hgood
  exact ⟨this.1, this.2.symm⟩

/-- the object after a whole history of `Read`s (failed or not) -/
def readAll {S : Type} (rd : Reader S) (s : S) : List Bytes → S
  | [] => s
  | b :: bs => readAll rd (rd s b).1 bs

/-- … after ANY history of earlier `Read`s into the object, failed or successful, in any order -/
theorem reuse_history {S O : Type} (rd : Reader S) (obs : S → O) (h : Resets rd obs)
    (fresh : S) (hist : List Bytes) (good : Bytes) (hgood : (rd fresh good).2 = true) :
    (rd (readAll rd fresh hist) good).2 = true ∧
      obs (rd (readAll rd fresh hist) good).1 = obs (rd fresh good).1 := by
  have := h fresh (readAll rd fresh hist) good hgood
  exact ⟨this.1, this.2.symm⟩

/-! ### the layout readers

    A `Read` method transcribed into the layout IR assigns the fields its layout names, in wire order
    (`Layout.L.read` returns exactly that list).  Seen through the fields it assigns, the object after a
    successful `Read` is that list whatever the object held before; after a failed `Read` it is anything
    (`junk`).  What this observation does NOT show: fields the reader never assigns, and entries a reader
    `Put`s into a table it does not replace — the additive readers of tie A. -/

def fieldReader {F : Type} (read : Bytes → Option F) (junk : Option F → Bytes → Option F) : Reader (Option F) :=
  fun s bs => match read bs with
    | some o => (some o, true)
    | none => (junk s bs, false)

theorem fieldReader_resets {F : Type} (read : Bytes → Option F) (junk : Option F → Bytes → Option F) :
    Resets (fieldReader read junk) id := by
  intro s s' bs h
  unfold fieldReader at h ⊢
  cases hr : read bs with
  | none => rw [hr] at h; simp at h
  | some o => simp

/-! ### two shapes of readers -/

/-- a reader that assigns its fields from the input (`this.f = in.Read…()`), here: two bytes into two
    fields; on a short input it keeps what it had assigned so far -/
def assignReader : Reader (Nat × Nat)
  | (_, _), [a, b] => ((a, b), true)
  | (_, y), [a] => ((a, y), false)
  | s, _ => (s, false)

theorem assignReader_resets : Resets assignReader id := by
  intro s s' bs h
  obtain ⟨x, y⟩ := s
  obtain ⟨x', y'⟩ := s'
  match bs, h with
  | [a, b], _ => exact ⟨rfl, rfl⟩
  | [a], h => simp [assignReader] at h
  | [], h => simp [assignReader] at h
  | _ :: _ :: _ :: _, h => simp [assignReader] at h

/-- a reader that `Put`s what it decodes into the table the object holds (MapValue.Read, ParamPack,
    StatRemoteIpPack, StatUserAgentPack, EventPack.Attr): count byte, then that many keys -/
def putReader : Reader (List Nat)
  | t, n :: ks => if ks.length = n then (t ++ ks, true) else (t ++ ks, false)
  | t, [] => (t, false)

/-- … does not reset: after the failed `Read` of `02 07` the valid `Read` of `01 09` shows the key 7
    of the damaged input -/
theorem additive_not_reset : ¬ Resets putReader id := by
  intro h
  have := (h [] (putReader [] [2, 7]).1 [1, 9] (by decide)).2
  revert this; decide

end FailClosed.Reuse
