/-
  Golib.Ext.Keys — CodeModel of the composite key types that implement `hmap.LinkedKey`:

    lang/variable/I2.go I3.go L2.go L3.go      (int32 / int64 tuples)
    lang/POID.go PKIND.go PKOID.go             (pcode int64 + int32 ids)
    lang/topology/LINK.go                      (ip bytes + port)

  Integers are unbounded `Int` with explicit wrap-around (`Hash.wrap32`, `Hash.wrap64`) wherever the Go
  code computes in a sized type; `uint(x)` of a signed value is its 64-bit pattern (`toUint`).
  The definitions follow the Go bodies statement by statement, including

    * I2.Hash folds V2 then V1, I3.Hash V1 V2 V3 (field orders differ);
    * L2/L3.Hash: `prime*result + v ^ int64(uint64(v)>>32)` parses as `(prime*result + v) ^ (v>>>32)`
      (`+` and `^` have the same precedence in Go);
    * POID/PKIND/PKOID.CompareTo compare the SIGN OF THE WRAPPED DIFFERENCE (`this.PCode - o.PCode` in int64,
      `this.Oid - o.Oid` in int32), not the values;
    * I3.ToBytes writes V2 at offset 8 (V3 is never written);
    * LINK.ToBytes writes `int32(Port)`; LINK.HashCode is `hash.Hash(IP) | int32(Port)`;
      LINK.Equals dereferences its argument after testing it for nil.

  Core Lean only; imported by the driver.
-/
import Golib.Prim.Codec
import Golib.Hash.Crc

namespace Ext.Keys
open Prim

/-- `uint(x)` for a signed 32/64-bit `x` on a 64-bit platform: sign-extend, reinterpret -/
def toUint (v : Int) : Nat := (v % 18446744073709551616).toNat

abbrev wrap32 := Hash.wrap32
abbrev wrap64 := Hash.wrap64

def I32 (v : Int) : Prop := -2147483648 ≤ v ∧ v ≤ 2147483647
def I64 (v : Int) : Prop := -9223372036854775808 ≤ v ∧ v ≤ 9223372036854775807
instance (v : Int) : Decidable (I32 v) := by unfold I32; infer_instance
instance (v : Int) : Decidable (I64 v) := by unfold I64; infer_instance

/-- 64-bit pattern of an int64 -/
def u64 (v : Int) : Nat := (v % 18446744073709551616).toNat
/-- 32-bit pattern of an int32 -/
def u32 (v : Int) : Nat := (v % 4294967296).toNat

/-- `a ^ b` on int64 -/
def xor64 (a b : Int) : Int := Hash.toI64 (u64 a ^^^ u64 b)
/-- `a | b` on int32 -/
def or32 (a b : Int) : Int := Hash.toI32 (u32 a ||| u32 b)
/-- `int64(uint64(v) >> 32)` -/
def hi32 (v : Int) : Int := ((u64 v >>> 32 : Nat) : Int)

/-- `compare.CompareToInt` / `CompareToLong` -/
def cmpInt (l r : Int) : Int := if l = r then 0 else if l > r then 1 else -1

/-- `if a1 != b1 { return cmp(a1,b1) }; if a2 != b2 {…}; return cmp(an,bn)` -/
def cmpLex : List (Int × Int) → Int
  | [] => 0
  | [(a, b)] => cmpInt a b
  | (a, b) :: rest => if a ≠ b then cmpInt a b else cmpLex rest

/-- `v1 := x - y (wrapped); if v1 != 0 { if v1 > 0 {1} else {-1} }` chain of POID/PKIND/PKOID -/
def sgn (d : Int) : Int := if d > 0 then 1 else -1
def cmpDiff : List Int → Int
  | [] => 0
  | d :: rest => if d ≠ 0 then sgn d else cmpDiff rest

/-- `result = prime*result + v` in int32, starting from 1 -/
def fold32 (vals : List Int) : Int := vals.foldl (fun r v => wrap32 (31 * r + v)) 1
/-- `result = prime*result + v ^ int64(uint64(v)>>32)` in int64, starting from 1 -/
def fold64x (vals : List Int) : Int := vals.foldl (fun r v => xor64 (wrap64 (31 * r + v)) (hi32 v)) 1
/-- `result = prime*result + x` in int (64 bit), starting from 1 -/
def foldInt (vals : List Int) : Int := vals.foldl (fun r v => wrap64 (31 * r + v)) 1
/-- `int(pcode ^ int64(uint64(pcode)>>32))` -/
def foldPcode (p : Int) : Int := xor64 p (hi32 p)

/-- fixed-width big-endian fields one after the other -/
def encFields (w : Nat) (vals : List Int) : Bytes := (vals.map (encI w)).flatten

/-! ### I2 -/

structure I2 where
  v1 : Int
  v2 : Int
  deriving DecidableEq, Repr

namespace I2
def WF (k : I2) : Prop := I32 k.v1 ∧ I32 k.v2
def hash (k : I2) : Nat := toUint (fold32 [k.v2, k.v1])
def equals (a b : I2) : Bool := a.v2 == b.v2 && a.v1 == b.v1
def compareTo (a b : I2) : Int := cmpLex [(a.v1, b.v1), (a.v2, b.v2)]
def toBytes (k : I2) : Bytes := encFields 4 [k.v1, k.v2]
def toObject : P I2 := P.bind (rdI 4) (fun a => P.bind (rdI 4) (fun b => .pure ⟨a, b⟩))
end I2

/-! ### I3 -/

structure I3 where
  v1 : Int
  v2 : Int
  v3 : Int
  deriving DecidableEq, Repr

namespace I3
def WF (k : I3) : Prop := I32 k.v1 ∧ I32 k.v2 ∧ I32 k.v3
def hash (k : I3) : Nat := toUint (fold32 [k.v1, k.v2, k.v3])
def equals (a b : I3) : Bool := a.v2 == b.v2 && a.v3 == b.v3 && a.v1 == b.v1
def compareTo (a b : I3) : Int := cmpLex [(a.v1, b.v1), (a.v2, b.v2), (a.v3, b.v3)]
/-- `SetBytesInt(b, 8, this.V2)`: the third slot holds V2 again -/
def toBytes (k : I3) : Bytes := encFields 4 [k.v1, k.v2, k.v2]
def toObject : P I3 :=
  P.bind (rdI 4) (fun a => P.bind (rdI 4) (fun b => P.bind (rdI 4) (fun c => .pure ⟨a, b, c⟩)))
end I3

/-! ### L2 -/

structure L2 where
  v1 : Int
  v2 : Int
  deriving DecidableEq, Repr

namespace L2
def WF (k : L2) : Prop := I64 k.v1 ∧ I64 k.v2
def hash (k : L2) : Nat := toUint (fold64x [k.v1, k.v2])
def equals (a b : L2) : Bool := a.v1 == b.v1 && a.v2 == b.v2
def compareTo (a b : L2) : Int := cmpLex [(a.v1, b.v1), (a.v2, b.v2)]
def toBytes (k : L2) : Bytes := encFields 8 [k.v1, k.v2]
def toObject : P L2 := P.bind (rdI 8) (fun a => P.bind (rdI 8) (fun b => .pure ⟨a, b⟩))
end L2

/-! ### L3 -/

structure L3 where
  v1 : Int
  v2 : Int
  v3 : Int
  deriving DecidableEq, Repr

namespace L3
def WF (k : L3) : Prop := I64 k.v1 ∧ I64 k.v2 ∧ I64 k.v3
def hash (k : L3) : Nat := toUint (fold64x [k.v1, k.v2, k.v3])
def equals (a b : L3) : Bool := a.v1 == b.v1 && a.v2 == b.v2 && a.v3 == b.v3
def compareTo (a b : L3) : Int := cmpLex [(a.v1, b.v1), (a.v2, b.v2), (a.v3, b.v3)]
def toBytes (k : L3) : Bytes := encFields 8 [k.v1, k.v2, k.v3]
def toObject : P L3 :=
  P.bind (rdI 8) (fun a => P.bind (rdI 8) (fun b => P.bind (rdI 8) (fun c => .pure ⟨a, b, c⟩)))
end L3

/-! ### POID / PKIND (same code, field `Oid` / `OKind`) -/

structure POID where
  pcode : Int
  oid : Int
  deriving DecidableEq, Repr

namespace POID
def WF (k : POID) : Prop := I64 k.pcode ∧ I32 k.oid
def hash (k : POID) : Nat := toUint (foldInt [k.oid, foldPcode k.pcode])
/-- `if this.Oid != other.Oid {false}; if this.PCode != other.PCode {false}; true` -/
def equals (a b : POID) : Bool := !(a.oid != b.oid) && !(a.pcode != b.pcode)
def compareTo (a b : POID) : Int := cmpDiff [wrap64 (a.pcode - b.pcode), wrap32 (a.oid - b.oid)]
/-- the order CompareTo evidently intends -/
def compareSpec (a b : POID) : Int := cmpLex [(a.pcode, b.pcode), (a.oid, b.oid)]
end POID

/-! ### PKOID -/

structure PKOID where
  pcode : Int
  okind : Int
  oid : Int
  deriving DecidableEq, Repr

namespace PKOID
def WF (k : PKOID) : Prop := I64 k.pcode ∧ I32 k.okind ∧ I32 k.oid
def hash (k : PKOID) : Nat := toUint (foldInt [k.oid, k.okind, foldPcode k.pcode])
def equals (a b : PKOID) : Bool := !(a.oid != b.oid) && !(a.okind != b.okind) && !(a.pcode != b.pcode)
def compareTo (a b : PKOID) : Int :=
  cmpDiff [wrap64 (a.pcode - b.pcode), wrap32 (a.okind - b.okind), wrap32 (a.oid - b.oid)]
def compareSpec (a b : PKOID) : Int := cmpLex [(a.pcode, b.pcode), (a.okind, b.okind), (a.oid, b.oid)]
end PKOID

/-! ### LINK -/

/-- `compare.CompareToBytes` (as a sign: the Go function returns `l_sz - r_sz` at the end) -/
def compareToBytes : Bytes → Bytes → Int
  | [], [] => 0
  | [], r => -(r.length : Int)
  | l, [] => (l.length : Int)
  | a :: l, b :: r => if a > b then 1 else if a < b then -1 else compareToBytes l r

def equalBytes (l r : Bytes) : Bool := compareToBytes l r == 0

/-- `IP` as the byte list it holds (nil and the empty slice are not distinguished by any method modelled here);
    `Port` is a Go `int` -/
structure LINK where
  ip : Bytes
  port : Int
  deriving DecidableEq, Repr

namespace LINK
def WF (k : LINK) : Prop := WFB k.ip ∧ I64 k.port
def hashCode (k : LINK) : Int := or32 (Hash.hash k.ip) (wrap32 k.port)
def hash (k : LINK) : Nat := toUint (hashCode k)
/-- `Equals(h)`; `none` = the nil argument: `k` stays nil and `k.IP` panics -/
def equalsOpt (a : LINK) : Option LINK → Option Bool
  | none => none
  | some b => some (equalBytes a.ip b.ip && a.port == b.port)
def equals (a b : LINK) : Bool := equalBytes a.ip b.ip && a.port == b.port
def includes (a k : LINK) : Bool :=
  if equalBytes a.ip k.ip == false then false else if a.port == 0 then true else a.port == k.port
/-- `out.WriteBlob(IP); out.WriteInt(int32(Port))` -/
def toBytes (k : LINK) : Bytes := encBlob k.ip ++ encI 4 k.port
/-- `IP = in.ReadBlob(); Port = int(in.ReadInt())` -/
def toObject : P LINK := P.bind decBlob (fun ip => P.bind (rdI 4) (fun p => .pure ⟨ip, p⟩))
end LINK

end Ext.Keys
