/-
  Golib.Ext.KeysLemmas — lemmas about the key-type CodeModel (Golib.Ext.Keys).
-/
import Golib.Ext.Keys

namespace Ext.Keys
open Prim

/-! ### comparison helpers -/

theorem cmpInt_eq_zero (a b : Int) : cmpInt a b = 0 ↔ a = b := by
  unfold cmpInt; repeat' split
  all_goals omega

theorem cmpInt_neg (a b : Int) : cmpInt a b = -1 ↔ a < b := by
  unfold cmpInt; repeat' split
  all_goals omega

theorem cmpInt_pos (a b : Int) : cmpInt a b = 1 ↔ b < a := by
  unfold cmpInt; repeat' split
  all_goals omega

theorem cmpInt_swap (a b : Int) : cmpInt b a = - cmpInt a b := by
  unfold cmpInt; repeat' split
  all_goals omega

theorem cmpInt_range (a b : Int) : cmpInt a b = -1 ∨ cmpInt a b = 0 ∨ cmpInt a b = 1 := by
  unfold cmpInt; repeat' split
  all_goals simp

/-- lexicographic "less than" on a list of component pairs -/
def lexLt : List (Int × Int) → Prop
  | [] => False
  | (a, b) :: rest => a < b ∨ (a = b ∧ lexLt rest)

def swapPairs (l : List (Int × Int)) : List (Int × Int) := l.map (fun p => (p.2, p.1))

theorem cmpLex_cons (a b : Int) (rest : List (Int × Int)) :
    cmpLex ((a, b) :: rest) = if a ≠ b then cmpInt a b else cmpLex rest := by
  cases rest with
  | nil =>
    simp only [cmpLex]
    split
    · rfl
    · rename_i h; simp at h; subst h; simp [cmpInt]
  | cons p rest => rfl

theorem cmpLex_neg (l : List (Int × Int)) : cmpLex l = -1 ↔ lexLt l := by
  induction l with
  | nil => simp [cmpLex, lexLt]
  | cons p rest ih =>
    obtain ⟨a, b⟩ := p
    rw [cmpLex_cons]; simp only [lexLt]
    split
    · rename_i h; rw [cmpInt_neg]; constructor
      · intro h'; exact Or.inl h'
      · intro h'; rcases h' with h' | ⟨h', _⟩
        · exact h'
        · exact absurd h' h
    · rename_i h; simp at h; subst h; rw [ih]; simp

theorem cmpLex_zero (l : List (Int × Int)) : cmpLex l = 0 ↔ ∀ p ∈ l, p.1 = p.2 := by
  induction l with
  | nil => simp [cmpLex]
  | cons p rest ih =>
    obtain ⟨a, b⟩ := p
    rw [cmpLex_cons]
    split
    · rename_i h; rw [cmpInt_eq_zero]; simp [h]
    · rename_i h; simp at h; subst h; rw [ih]; simp

theorem cmpLex_swap (l : List (Int × Int)) : cmpLex (swapPairs l) = - cmpLex l := by
  induction l with
  | nil => simp [cmpLex, swapPairs]
  | cons p rest ih =>
    obtain ⟨a, b⟩ := p
    simp only [swapPairs, List.map_cons] at ih ⊢
    rw [cmpLex_cons, cmpLex_cons]
    split
    · rename_i h; rw [if_pos (fun e => h e.symm)]; exact cmpInt_swap a b
    · rename_i h; simp at h; subst h; simp; exact ih

theorem cmpLex_range (l : List (Int × Int)) : cmpLex l = -1 ∨ cmpLex l = 0 ∨ cmpLex l = 1 := by
  induction l with
  | nil => simp [cmpLex]
  | cons p rest ih =>
    obtain ⟨a, b⟩ := p
    rw [cmpLex_cons]; split
    · exact cmpInt_range a b
    · exact ih

theorem cmpLex_pos (l : List (Int × Int)) : cmpLex l = 1 ↔ lexLt (swapPairs l) := by
  rw [← cmpLex_neg, cmpLex_swap]; omega

/-! ### wrapped differences (POID / PKIND / PKOID) -/

theorem wrap64_id (v : Int) (h : I64 v) : wrap64 v = v := by
  unfold I64 at h; show Hash.wrap64 v = v; unfold Hash.wrap64; omega

theorem wrap32_id (v : Int) (h : I32 v) : wrap32 v = v := by
  unfold I32 at h; show Hash.wrap32 v = v; unfold Hash.wrap32; omega

theorem wrap64_zero (a b : Int) (ha : I64 a) (hb : I64 b) : wrap64 (a - b) = 0 ↔ a = b := by
  unfold I64 at ha hb; show Hash.wrap64 (a - b) = 0 ↔ _; unfold Hash.wrap64; omega

theorem wrap32_zero (a b : Int) (ha : I32 a) (hb : I32 b) : wrap32 (a - b) = 0 ↔ a = b := by
  unfold I32 at ha hb; show Hash.wrap32 (a - b) = 0 ↔ _; unfold Hash.wrap32; omega

/-- where the difference does not overflow, the sign chain is the comparison -/
theorem cmpDiff_cons_of_fits (a b d : Int) (rest : List Int) (rl : List (Int × Int))
    (hd : d = a - b) (hr : cmpDiff rest = cmpLex rl) (hne : rl ≠ []) :
    cmpDiff (d :: rest) = cmpLex ((a, b) :: rl) := by
  subst hd
  cases rl with
  | nil => exact absurd rfl hne
  | cons p rl =>
    simp only [cmpDiff, cmpLex]
    by_cases h : a = b
    · subst h; simp [hr]
    · have : a - b ≠ 0 := by omega
      simp only [this, h, ne_eq, not_false_eq_true, if_true]
      unfold sgn cmpInt; simp only [h, if_false]
      split <;> split <;> omega

theorem cmpDiff_single_of_fits (a b d : Int) (hd : d = a - b) :
    cmpDiff [d] = cmpLex [(a, b)] := by
  subst hd
  simp only [cmpDiff, cmpLex]
  unfold sgn cmpInt
  by_cases h : a = b
  · subst h; simp
  · have : a - b ≠ 0 := by omega
    simp only [this, h, ne_eq, not_false_eq_true, if_true, if_false]
    split <;> split <;> omega

/-! ### byte comparison (LINK) -/

theorem compareToBytes_zero (l r : Bytes) : compareToBytes l r = 0 ↔ l = r := by
  induction l generalizing r with
  | nil => cases r <;> simp [compareToBytes]; omega
  | cons a l ih =>
    cases r with
    | nil => simp [compareToBytes]; omega
    | cons b r =>
      simp only [compareToBytes]
      split
      · simp; omega
      · split
        · simp; omega
        · have : a = b := by omega
          subst this; rw [ih]; simp

theorem equalBytes_iff (l r : Bytes) : equalBytes l r = true ↔ l = r := by
  unfold equalBytes; rw [beq_iff_eq]; exact compareToBytes_zero l r

/-! ### fixed-width field codecs -/

theorem I32_inRange (v : Int) (h : I32 v) : inRange 4 v := (inRange_4 v).mpr h
theorem I64_inRange (v : Int) (h : I64 v) : inRange 8 v := (inRange_8 v).mpr h

theorem run_rd2 (w : Nat) (a b : Int) (r : Bytes) (ha : inRange w a) (hb : inRange w b)
    {α : Type} (mk : Int → Int → α) :
    P.run (P.bind (rdI w) (fun x => P.bind (rdI w) (fun y => .pure (mk x y)))) (encFields w [a, b] ++ r)
      = some (mk a b, r) := by
  simp only [encFields, List.map_cons, List.map_nil, List.flatten_cons, List.flatten_nil, List.append_nil,
    List.append_assoc]
  rw [P.run_bind_some _ _ _ _ _ (run_rdI w a _ ha)]
  rw [P.run_bind_some _ _ _ _ _ (run_rdI w b _ hb)]
  rfl

theorem run_rd3 (w : Nat) (a b c : Int) (r : Bytes) (ha : inRange w a) (hb : inRange w b) (hc : inRange w c)
    {α : Type} (mk : Int → Int → Int → α) :
    P.run (P.bind (rdI w) (fun x => P.bind (rdI w) (fun y => P.bind (rdI w) (fun z => .pure (mk x y z)))))
      (encFields w [a, b, c] ++ r) = some (mk a b c, r) := by
  simp only [encFields, List.map_cons, List.map_nil, List.flatten_cons, List.flatten_nil, List.append_nil,
    List.append_assoc]
  rw [P.run_bind_some _ _ _ _ _ (run_rdI w a _ ha)]
  rw [P.run_bind_some _ _ _ _ _ (run_rdI w b _ hb)]
  rw [P.run_bind_some _ _ _ _ _ (run_rdI w c _ hc)]
  rfl

theorem encFields_length (w : Nat) (vals : List Int) : (encFields w vals).length = w * vals.length := by
  induction vals with
  | nil => simp [encFields]
  | cons v vs ih =>
    simp only [encFields, List.map_cons, List.flatten_cons, List.length_append, encI_length, List.length_cons] at ih ⊢
    rw [ih, Nat.mul_succ]; omega

theorem encFields_WFB (w : Nat) (vals : List Int) : WFB (encFields w vals) := by
  induction vals with
  | nil => simp [encFields]; exact WFB_nil
  | cons v vs ih =>
    simp only [encFields, List.map_cons, List.flatten_cons] at ih ⊢
    exact WFB_append.mpr ⟨encI_WFB _ _, ih⟩

theorem toUint_lt (v : Int) : toUint v < 18446744073709551616 := by
  unfold toUint; omega

end Ext.Keys
