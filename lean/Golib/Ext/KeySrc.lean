/-
  Golib.Ext.KeySrc — the shape in which xlate/x01 re-transcribes the method bodies of the key types
  (field order of Hash, the fields Equals compares, order and style of CompareTo, offsets of
  ToBytes/ToObject) and an interpreter of that shape in terms of the same arithmetic as Golib.Ext.Keys.
  Golib/Gen/X01.lean is DATA of this shape, regenerated from the Go source on every run;
  Golib/Props/X01Gen.lean proves that the interpreted data IS the hand-written model, for all inputs.
-/
import Golib.Ext.Keys

namespace Ext.KeySrc
open Ext.Keys Prim

inductive Arith | i32 | i64 | int | unknown
  deriving DecidableEq, Repr

/-- one `result = …` statement of Hash(); `f` is the index of the struct field -/
inductive HStep
  | add (f : Nat)        -- prime*result + this.F            /  prime*result + int(this.F)
  | addXorHi (f : Nat)   -- prime*result + this.F ^ int64(uint64(this.F)>>32)      (parsed (… + F) ^ (…))
  | addPcode (f : Nat)   -- prime*result + int(this.F ^ int64(uint64(this.F)>>32))
  | unknown
  deriving DecidableEq, Repr

inductive CmpStyle
  | three    -- if a.F != b.F { return compare.CompareToX(a.F, b.F) } …; return compare.CompareToX(a.L, b.L)
  | diff     -- v1 := a.F - b.F; if v1 != 0 { if v1 > 0 {1} else {-1} } …; return 0
  | none | unknown
  deriving DecidableEq, Repr

structure Src where
  name : String
  fields : List Arith                 -- struct fields in declaration order (int32 / int64)
  hashArith : Arith
  hashInit : Int
  hashPrime : Int
  hashSteps : List HStep
  hashRet : String                    -- the return expression, e.g. "uint(result)"
  equalsFields : List Nat             -- in source order
  cmpStyle : CmpStyle
  cmpFields : List Nat
  bufSize : Nat
  toBytes : List (Nat × Nat × Nat)    -- (offset, width, field) per SetBytesInt/SetBytesLong call
  toObject : List (Nat × Nat × Nat)   -- (field, width, offset) per `this.F = io.ToInt/ToLong(b, off)`
  deriving DecidableEq, Repr

def wrapA : Arith → Int → Int
  | .i32 => wrap32
  | _ => wrap64

def hashOf (s : Src) (v : List Int) : Nat :=
  toUint (s.hashSteps.foldl (fun r st =>
    match st with
    | .add f => wrapA s.hashArith (s.hashPrime * r + v.getD f 0)
    | .addXorHi f => xor64 (wrap64 (s.hashPrime * r + v.getD f 0)) (hi32 (v.getD f 0))
    | .addPcode f => wrap64 (s.hashPrime * r + foldPcode (v.getD f 0))
    | .unknown => 0) s.hashInit)

def equalsOf (s : Src) (a b : List Int) : Bool :=
  s.equalsFields.all (fun f => a.getD f 0 == b.getD f 0)

def wrapF (s : Src) (f : Nat) : Int → Int := wrapA (s.fields.getD f .i64)

def cmpOf (s : Src) (a b : List Int) : Int :=
  match s.cmpStyle with
  | .three => cmpLex (s.cmpFields.map (fun f => (a.getD f 0, b.getD f 0)))
  | .diff => cmpDiff (s.cmpFields.map (fun f => wrapF s f (a.getD f 0 - b.getD f 0)))
  | _ => 0

/-- the writes fill the buffer left to right without gap or overlap -/
def contiguous : List (Nat × Nat × Nat) → Nat → Nat → Bool
  | [], pos, size => pos == size
  | (off, w, _) :: rest, pos, size => off == pos && contiguous rest (pos + w) size

def toBytesOf (s : Src) (v : List Int) : Option Bytes :=
  if contiguous s.toBytes 0 s.bufSize then
    some ((s.toBytes.map (fun x => encI x.2.1 (v.getD x.2.2 0))).flatten)
  else none

/-- ToObject as (field, width, offset) reads in source order; in the model shape: offsets ascending from 0
    without gap, field i assigned from read i -/
def toObjectShape (s : Src) : Option (List Nat) :=
  if contiguous (s.toObject.map (fun x => (x.2.2, x.2.1, x.1))) 0 s.bufSize
      && s.toObject.map (·.1) == List.range s.toObject.length then
    some (s.toObject.map (·.2.1))
  else none

/-- LINK is transcribed as text (normalised expressions / call sequences) -/
structure LinkSrc where
  hashRet : String
  hashCode : String
  equals : List String
  includes : List String
  toBytes : List String
  toObject : List String
  deriving DecidableEq, Repr

end Ext.KeySrc
