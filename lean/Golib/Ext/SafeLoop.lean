/-
  Golib.Ext.SafeLoop — CodeModels of three small package-level state machines:

  * util/panicutil/safefor.go + loop_counter.go   (`Safe.*`)
      state: `onofflookup` (a Go map, nil until SetLoopOffMap), `AllOff`, the key set of `PerfMap`, `cyclecounts`
      `Safe(name, cb)`    : deferred PerfMap[name] = elapsed (ALWAYS runs, also when cb panics); AllOff → no call;
                            name present and false → no call; otherwise cb().  There is NO recover: a panic of cb
                            leaves Safe.
      `SafeFor(name, cb)` : `for { if AllOff { return }; if name is off { sleep } else { cb(); PerfMap[name] = … }; sleep }`
                            — returns only through AllOff, leaves through a panic of cb, and with the name switched off
                            it spins without ever calling cb (`End.spins`).  A callback is its action per call number.
      `SetLoopOffMap(&m)` : onofflookup = *m (nil pointer: panic)      `SetOnOff(name, b)` : onofflookup[name] = b
                            (assignment to the nil map of a fresh process: panic)
      `ResetPerfMap()`    : returns the old map, installs an empty one
      `Cycle(id)`         : cyclecounts[id] += 1; id outside [0, MAX_COUNTERS) is an index panic
  * util/keygen/KeyGen.go   (`Key.*`): the generator is math/rand — a PARAMETER (`Prng`); what is logic: SetSeed replaces
      the state, Next reinterprets the float bits as int64, RandInt/RandLong panic for a bound ≤ 0, AddSeed's type switch
  * util/dateutil/DateSyncTime.go  (`Sync.*`): ticker life cycle + the resynchronisation rule of `clock()`
-/
import Golib.Basic
import Golib.Hash.Crc

namespace Ext.Safe

abbrev Name := Bytes

def MAX_COUNTERS : Int := 8192

structure State where
  lookup : Option (List (Name × Bool))
  allOff : Bool
  perf : List Name
  counts : Int → Nat

def State.init : State := ⟨none, false, [], fun _ => 0⟩

/-- what one call of the callback does -/
inductive Act
  | ret        -- returns
  | panic      -- panics
  | allOff     -- sets `AllOff = true` and returns (the only way a SafeFor loop ends without a panic)
  deriving DecidableEq, Repr

/-- a callback: its action at call number 0, 1, 2, … -/
abbrev Cb := Nat → Act

def find (m : List (Name × Bool)) (k : Name) : Option Bool := (m.find? (fun p => p.1 == k)).map (·.2)

/-- `on, ok := onofflookup[name]` then `ok && !on` -/
def isOff (st : State) (name : Name) : Bool :=
  match st.lookup with
  | none => false
  | some m => find m name == some false

def mapSet (m : List (Name × Bool)) (k : Name) (b : Bool) : List (Name × Bool) :=
  if m.any (fun p => p.1 == k) then m.map (fun p => if p.1 == k then (k, b) else p) else m ++ [(k, b)]

def perfPut (st : State) (name : Name) : State :=
  { st with perf := if st.perf.contains name then st.perf else st.perf ++ [name] }

inductive End
  | returned | escaped | spins | fuel
  deriving DecidableEq, Repr

inductive Out
  | unit
  | panic
  | safe (ran escaped : Bool)
  | safeFor (runs : Nat) (e : End)
  | keys (ks : List Name)
  deriving DecidableEq, Repr

/-- `Safe(name, cb)` -/
def safe (st : State) (name : Name) (cb : Cb) : State × Out :=
  if st.allOff then (perfPut st name, .safe false false)
  else if isOff st name then (perfPut st name, .safe false false)
  else
    match cb 0 with
    | .ret => (perfPut st name, .safe true false)
    | .panic => (perfPut st name, .safe true true)            -- the deferred PerfMap update still runs
    | .allOff => (perfPut { st with allOff := true } name, .safe true false)

/-- the loop of `SafeFor`; `runs` = calls made so far -/
def safeForLoop (name : Name) (cb : Cb) : Nat → State → Nat → State × Out
  | 0, st, runs => (st, .safeFor runs .fuel)
  | f + 1, st, runs =>
    if st.allOff then (st, .safeFor runs .returned)
    else if isOff st name then (st, .safeFor runs .spins)
    else
      match cb runs with
      | .ret => safeForLoop name cb f (perfPut st name) (runs + 1)
      | .panic => (st, .safeFor (runs + 1) .escaped)
      | .allOff => safeForLoop name cb f (perfPut { st with allOff := true } name) (runs + 1)

inductive Op
  | setMap (m : Option (Option (List (Name × Bool))))   -- none: nil pointer; some none: pointer to a nil map
  | setOnOff (name : Name) (b : Bool)
  | setAllOff (b : Bool)
  | safe (name : Name) (cb : Cb)
  | safeFor (name : Name) (cb : Cb) (fuel : Nat)
  | resetPerf
  | cycle (id : Int)

/-- duplicates in the text of a map literal: the last one wins -/
def normMap (m : List (Name × Bool)) : List (Name × Bool) := m.foldl (fun acc p => mapSet acc p.1 p.2) []

def step (st : State) : Op → State × Out
  | .setMap none => (st, .panic)
  | .setMap (some none) => ({ st with lookup := none }, .unit)
  | .setMap (some (some m)) => ({ st with lookup := some (normMap m) }, .unit)
  | .setOnOff name b =>
    match st.lookup with
    | none => (st, .panic)
    | some m => ({ st with lookup := some (mapSet m name b) }, .unit)
  | .setAllOff b => ({ st with allOff := b }, .unit)
  | .safe name cb => safe st name cb
  | .safeFor name cb fuel => safeForLoop name cb fuel st 0
  | .resetPerf => ({ st with perf := [] }, .keys st.perf)
  | .cycle id =>
    if 0 ≤ id ∧ id < MAX_COUNTERS then ({ st with counts := fun j => if j = id then st.counts id + 1 else st.counts j }, .unit)
    else (st, .panic)

def run (st : State) : List Op → State × List Out
  | [] => (st, [])
  | op :: ops => let r := step st op; let q := run r.1 ops; (q.1, r.2 :: q.2)

/-- number of `Cycle(id)` calls in a history -/
def cycles (id : Int) : List Op → Nat
  | [] => 0
  | .cycle j :: ops => (if j = id then 1 else 0) + cycles id ops
  | _ :: ops => cycles id ops

end Ext.Safe

/-! ## keygen -/
namespace Ext.Key

/-- math/rand as far as keygen uses it -/
structure Prng (σ : Type) where
  seed : Int → σ
  norm : σ → Nat × σ                 -- NormFloat64, as the float64 bit pattern
  int31n : σ → Int → Int × σ         -- defined for 0 < n
  int63n : σ → Int → Int × σ

/-- the documented contract of `Int31n` / `Int63n` -/
structure PrngOK {σ : Type} (g : Prng σ) : Prop where
  bits : ∀ s, (g.norm s).1 < 18446744073709551616
  r31 : ∀ s n, 0 < n → 0 ≤ (g.int31n s n).1 ∧ (g.int31n s n).1 < n
  r63 : ∀ s n, 0 < n → 0 ≤ (g.int63n s n).1 ∧ (g.int63n s n).1 < n

/-- dynamic type of one `AddSeed` argument -/
inductive ArgTy
  | int8 | int16 | int32 | int64 | uint8 | uint16 | uint32 | uint64 | float32 | float64 | other
  deriving DecidableEq, Repr

inductive Op
  | setSeed (i : Int)
  | next
  | randInt (i : Int)
  | randLong (i : Int)
  | addSeed (now : Int) (args : List ArgTy)

inductive Out
  | unit | val (v : Int) | panic
  deriving DecidableEq, Repr

/-- the type switch of `AddSeed`: the integer cases have empty bodies (Go does not fall through), the float case
    asserts `it.(int64)` on a float: panics.  So an argument is either ignored or fatal. -/
def addSeedPanics (args : List ArgTy) : Bool := args.any (fun a => a == .float32 || a == .float64)

def step {σ : Type} (g : Prng σ) (s : σ) : Op → σ × Out
  | .setSeed i => (g.seed i, .unit)
  | .next => let r := g.norm s; (r.2, .val (Hash.toI64 r.1))
  | .randInt i => if i ≤ 0 then (s, .panic) else let r := g.int31n s i; (r.2, .val r.1)
  | .randLong i => if i ≤ 0 then (s, .panic) else let r := g.int63n s i; (r.2, .val r.1)
  | .addSeed now args => if addSeedPanics args then (s, .panic) else (g.seed now, .unit)

def run {σ : Type} (g : Prng σ) (s : σ) : List Op → σ × List Out
  | [] => (s, [])
  | op :: ops => let r := step g s op; let q := run g r.1 ops; (q.1, r.2 :: q.2)

end Ext.Key

/-! ## DateSyncTime -/
namespace Ext.Sync

def TIME_SYNC_INTERVAL : Int := 5000

inductive Ticker
  | nil | running | stopped
  deriving DecidableEq, Repr

structure State where
  ticker : Ticker
  sync : Int       -- SyncTimeMillis
  last : Int       -- lastSyncTime
  leaked : Nat     -- goroutines ranging over a ticker nobody can reach any more
  deriving DecidableEq, Repr

def State.init : State := ⟨.nil, 0, 0, 0⟩

inductive Op
  | start (now : Int)         -- StartSyncTime, system clock = now
  | stop                      -- StopSyncTime
  | isSync                    -- IsSyncTime
  | tick (t now : Int)        -- one delivery of the ticker: its time stamp t, the system clock now

inductive Out
  | unit | bool (b : Bool) | panic
  deriving DecidableEq, Repr

def step (st : State) : Op → State × Out
  | .start now =>
    (⟨.running, now, now, if st.ticker = .nil then st.leaked else st.leaked + 1⟩, .unit)
  | .stop =>
    match st.ticker with
    | .nil => (st, .panic)                       -- syncTimeTicker.Stop() on the nil pointer
    | _ => ({ st with ticker := .stopped }, .unit)    -- the goroutine stays blocked on the channel for ever
  | .isSync => (st, .bool (st.ticker != .nil))
  | .tick t now =>
    if st.ticker = .running then
      if t > st.last + TIME_SYNC_INTERVAL then ({ st with sync := now, last := now }, .unit)
      else ({ st with sync := t }, .unit)
    else (st, .unit)

def run (st : State) : List Op → State × List Out
  | [] => (st, [])
  | op :: ops => let r := step st op; let q := run r.1 ops; (q.1, r.2 :: q.2)

end Ext.Sync
