/-
  Golib.Ext.UrlUtil — util/urlutil/URL.go as the code has it.

  `process` splits at the first `?`, takes `File` from the last `/` of what is left of it, the
  protocol up to the first `://`, host[:port] up to the next `/`, and the port with
  `strconv.Atoi` WHOSE ERROR IS IGNORED (so the field holds whatever Atoi returns with the error).
  Path and Query are percent-decoded (raw text kept when decoding fails); `String()` reassembles
  from the DECODED parts and omits an empty port / query.

  (core Lean only; imported by the driver)
-/
import Golib.Ext.StrLib

namespace Ext.Url
open Ext.Str

structure URL where
  url : Bytes
  proto : Bytes
  host : Bytes
  rawPath : Bytes
  path : Bytes
  rawPort : Bytes
  port : Int
  rawQuery : Bytes
  query : Bytes
  file : Bytes
  deriving DecidableEq, Repr

def sepScheme : Bytes := [58, 47, 47]   -- "://"
def https : Bytes := [104, 116, 116, 112, 115]

/-- `ParsePort(str)` -/
def parsePort (s : Bytes) : Bytes × Bytes × Bool :=
  match indexOf [58] s with
  | some p => (s.take p, s.drop (p + 1), true)
  | none => (s, [], false)

/-- the query is split off at the first `?` : (query, rest) -/
def splitQ (u : Bytes) : Bytes × Bytes :=
  match indexOf [63] u with
  | some p => (u.drop (p + 1), u.take p)
  | none => ([], u)

/-- `File`: from the last `/` of the text before the query -/
def fileOf (urlStr : Bytes) : Bytes :=
  match lastIndexB 47 urlStr with
  | some p => urlStr.drop p
  | none => []

/-- the protocol is what precedes the first `://` : (protocol, rest) -/
def splitProto (urlStr : Bytes) : Bytes × Bytes :=
  match indexOf sepScheme urlStr with
  | some p => (urlStr.take p, urlStr.drop (p + 3))
  | none => ([], urlStr)

/-- host[:port] ends at the next `/` : (hostport, path) -/
def splitPath (tmp : Bytes) : Bytes × Bytes :=
  match indexOf [47] tmp with
  | some p => (tmp.take p, tmp.drop p)
  | none => (tmp, [])

def process (u : Bytes) : URL :=
  let q := splitQ u
  let pr := splitProto q.2
  let hp := splitPath pr.2
  let dflt : Int := if pr.1 = https then 443 else 80
  let pp := parsePort hp.1
  let port : Int := if pp.2.2 then (atoi pp.2.1).1 else dflt
  { url := u, proto := pr.1, host := pp.1, rawPath := hp.2,
    path := (unescape false hp.2).getD hp.2,
    rawPort := pp.2.1, port := port, rawQuery := q.1,
    query := (unescape true q.1).getD q.1, file := fileOf q.2 }

def protoPart (x : URL) : Bytes := if x.proto = [] then [] else x.proto ++ sepScheme
def portPart (x : URL) : Bytes := if x.rawPort = [] then [] else 58 :: x.rawPort
def queryPart (x : URL) : Bytes := if x.query = [] then [] else 63 :: x.query

/-- `String()` -/
def toString (x : URL) : Bytes := protoPart x ++ x.host ++ portPart x ++ x.path ++ queryPart x
/-- `Domain()` -/
def domain (x : URL) : Bytes := protoPart x ++ x.host
/-- `DomainPath()` -/
def domainPath (x : URL) : Bytes := protoPart x ++ x.host ++ portPart x ++ x.path
/-- `HostPort()` -/
def hostPort (x : URL) : Bytes :=
  if x.port > 0 ∧ x.port ≠ 443 ∧ x.port ≠ 80 then x.host ++ 58 :: itoa x.port else x.host

end Ext.Url
