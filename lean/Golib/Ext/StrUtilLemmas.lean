/-
  Golib.Ext.StrUtilLemmas — lemmas about the models of Golib.Ext.StrLib2 / StrUtil used by Props/X05.
  (proof file; not imported by the driver)
-/
import Golib.Ext.StrUtil

namespace Ext.StrUtil
open Ext.Str

/-! ### padding -/

theorem flat_rep (k c : Nat) : (List.replicate k [c]).flatten = List.replicate k c := by
  induction k with
  | zero => rfl
  | succ k ih => simp [List.replicate_succ, ih]

theorem padding_eq (n : Int) (c : Nat) : padding n [c] = List.replicate n.toNat c := flat_rep _ _

/-! ### split / join -/

theorem splitF_ne_nil (f : Nat) (sep s : Bytes) : splitF f sep s ≠ [] := by
  cases f with
  | zero => simp [splitF]
  | succ f => unfold splitF; split <;> simp

theorem join_cons_ne (sep x : Bytes) {l : List Bytes} (h : l ≠ []) : join sep (x :: l) = x ++ sep ++ join sep l := by
  cases l with
  | nil => exact absurd rfl h
  | cons y r => rfl

theorem join_splitF (sep : Bytes) : ∀ (f : Nat) (s : Bytes), join sep (splitF f sep s) = s
  | 0, s => rfl
  | f + 1, s => by
    unfold splitF
    split
    · rfl
    · rename_i i hi
      rw [join_cons_ne sep _ (splitF_ne_nil _ _ _), join_splitF sep f]
      exact (indexOf_some hi).symm

/-! ### rune chunks -/

def Ascii (s : Bytes) : Prop := ∀ b ∈ s, b < 128

def mk1 (b : Nat) : Chunk := ⟨[b], [b]⟩

theorem runeAt_ascii (b : Nat) (r : Bytes) (h : b < 128) : runeAt (b :: r) = mk1 b := by
  simp [runeAt, seqWidth, h, mk1]

theorem chunksF_ascii : ∀ (s : Bytes) (f : Nat), s.length ≤ f → Ascii s → chunksF f s = s.map mk1
  | [], f, _, _ => by cases f <;> rfl
  | b :: r, 0, h, _ => by simp at h
  | b :: r, f + 1, h, ha => by
    have hb : b < 128 := ha b (by simp)
    have hr : Ascii r := fun x hx => ha x (by simp [hx])
    simp only [chunksF, runeAt_ascii b r hb, mk1, List.length_cons, List.length_nil, List.map_cons]
    have : chunksF f (List.drop (0 + 1) (b :: r)) = r.map mk1 := by
      simpa using chunksF_ascii r f (by simp at h; omega) hr
    simpa [mk1] using this

theorem chunks_ascii (s : Bytes) (h : Ascii s) : chunks s = s.map mk1 :=
  chunksF_ascii s s.length (Nat.le_refl _) h

theorem mapRunes_ascii (f : Nat → Nat) (s : Bytes) (h : Ascii s) : mapRunes f s = s.map f := by
  unfold mapRunes
  rw [chunks_ascii s h]
  induction s with
  | nil => rfl
  | cons b r ih =>
    have hr : Ascii r := fun x hx => h x (by simp [hx])
    simp [mk1] at ih ⊢
    exact ih hr

theorem toLower_ascii (s : Bytes) (h : Ascii s) : toLower s = s.map lowerB := mapRunes_ascii _ s h
theorem toUpper_ascii (s : Bytes) (h : Ascii s) : toUpper s = s.map upperB := mapRunes_ascii _ s h

theorem take_drop_len (s : Bytes) (w : Nat) : s.take w ++ s.drop (s.take w).length = s := by
  rw [List.length_take]
  by_cases h : w ≤ s.length
  · rw [Nat.min_eq_left h]; exact List.take_append_drop w s
  · have h' : s.length ≤ w := by omega
    rw [Nat.min_eq_right h', List.take_of_length_le h', List.drop_length]; simp

theorem runeAt_raw (s : Bytes) : ∃ w, 1 ≤ w ∧ (runeAt s).raw = s.take w := by
  unfold runeAt
  by_cases h : seqWidth s = 0
  · exact ⟨1, Nat.le_refl _, by simp [h]⟩
  · exact ⟨seqWidth s, by omega, by simp [h]⟩

/-- the rune chunks tile the text: their raw bytes concatenated are the text -/
theorem chunksF_raw : ∀ (f : Nat) (s : Bytes), s.length ≤ f → (chunksF f s).flatMap (·.raw) = s
  | 0, s, h => by
    have : s = [] := List.eq_nil_of_length_eq_zero (by omega)
    subst this; rfl
  | f + 1, [], _ => rfl
  | f + 1, c :: cs, h => by
    obtain ⟨w, hw, hr⟩ := runeAt_raw (c :: cs)
    simp only [chunksF, List.flatMap_cons, hr]
    have hl : ((c :: cs).drop ((c :: cs).take w).length).length ≤ f := by
      simp only [List.length_drop, List.length_take, List.length_cons] at h ⊢
      omega
    rw [chunksF_raw f _ hl]
    exact take_drop_len _ _

theorem chunks_raw (s : Bytes) : (chunks s).flatMap (·.raw) = s := chunksF_raw _ _ (Nat.le_refl _)

theorem chunksF_raw_ne : ∀ (f : Nat) (s : Bytes) (k : Chunk), k ∈ chunksF f s → k.raw ≠ []
  | 0, _, _, h => by simp [chunksF] at h
  | _ + 1, [], _, h => by simp [chunksF] at h
  | f + 1, c :: cs, k, h => by
    simp only [chunksF, List.mem_cons] at h
    rcases h with h | h
    · obtain ⟨w, hw, hr⟩ := runeAt_raw (c :: cs)
      subst h
      rw [hr]
      cases w with
      | zero => omega
      | succ w => simp
    · exact chunksF_raw_ne f _ k h

/-! ### Tokenizer -/

theorem groups_ne_nil (isD : Chunk → Bool) (ks : List Chunk) : groups isD ks ≠ [] := by
  cases ks with
  | nil => simp [groups]
  | cons k ks =>
    unfold groups
    split
    · split <;> simp
    · simp

theorem groups_flatten (isD : Chunk → Bool) : ∀ ks, (groups isD ks).flatten = ks.filter (fun k => !isD k)
  | [] => rfl
  | k :: ks => by
    have ih := groups_flatten isD ks
    unfold groups
    split
    · rename_i g gs hg
      rw [hg] at ih
      by_cases hd : isD k <;> simp [hd] at ih ⊢ <;> simpa using ih
    · rename_i hg
      exact absurd hg (groups_ne_nil isD ks)

theorem groups_no_delim (isD : Chunk → Bool) : ∀ ks, ∀ g ∈ groups isD ks, ∀ k ∈ g, isD k = false
  | [], g, hg, k, hk => by
    simp [groups] at hg; subst hg; simp at hk
  | k0 :: ks, g, hg, k, hk => by
    have ih := groups_no_delim isD ks
    unfold groups at hg
    split at hg
    · rename_i g0 gs hgs
      rw [hgs] at ih
      by_cases hd : isD k0
      · simp only [hd, if_true, List.mem_cons] at hg
        rcases hg with rfl | hg
        · simp at hk
        · exact ih g (by simpa using hg) k hk
      · simp only [hd, Bool.false_eq_true, if_false, List.mem_cons] at hg
        rcases hg with rfl | hg
        · simp only [List.mem_cons] at hk
          rcases hk with rfl | hk
          · simpa using hd
          · exact ih g0 (by simp) k hk
        · exact ih g (by simp [hg]) k hk
    · rename_i hgs
      exact absurd hgs (groups_ne_nil isD ks)

theorem groups_mem_sub (isD : Chunk → Bool) : ∀ ks, ∀ g ∈ groups isD ks, ∀ k ∈ g, k ∈ ks := by
  intro ks g hg k hk
  have : k ∈ (groups isD ks).flatten := List.mem_flatten.mpr ⟨g, hg, hk⟩
  rw [groups_flatten] at this
  exact (List.mem_filter.mp this).1

theorem fields_flatten (isD : Chunk → Bool) (ks : List Chunk) :
    (fields isD ks).flatten = rawOf (ks.filter (fun k => !isD k)) := by
  rw [← groups_flatten]
  unfold fields
  generalize groups isD ks = gs
  induction gs with
  | nil => rfl
  | cons g gs ih =>
    cases g with
    | nil => simpa [rawOf] using ih
    | cons a g => simp [rawOf] at ih ⊢; rw [ih]

/-! ### CutLastString -/

theorem lastIndexOf_single (c : Nat) (a r : Bytes) (h : c ∉ r) : lastIndexOf [c] (a ++ c :: r) = some a.length := by
  unfold lastIndexOf
  have e : (a ++ c :: r).reverse = r.reverse ++ [c] ++ a.reverse := by simp
  rw [e, List.reverse_singleton, indexOf_append_fresh c [] r.reverse a.reverse (by simpa using h)]
  simp <;> omega

theorem lastIndexOf_absent (c : Nat) (s : Bytes) (h : c ∉ s) : lastIndexOf [c] s = none := by
  unfold lastIndexOf
  rw [List.reverse_singleton, indexOf_single_absent c s.reverse (by simpa using h)]
  rfl

theorem lastIndexOf_nil (s : Bytes) : lastIndexOf [] s = some s.length := by
  unfold lastIndexOf
  rw [List.reverse_nil, indexOf_nil_sep]
  simp

/-! ### ToPair on ASCII text -/

theorem ascii_take (s : Bytes) (n : Nat) (h : Ascii s) : Ascii (s.take n) :=
  fun b hb => h b (List.mem_of_mem_take hb)
theorem ascii_drop (s : Bytes) (n : Nat) (h : Ascii s) : Ascii (s.drop n) :=
  fun b hb => h b (List.mem_of_mem_drop hb)

theorem indexOf_le {sep : Bytes} : ∀ {s : Bytes} {n : Nat}, indexOf sep s = some n → n ≤ s.length
  | [], n, h => by
    unfold indexOf at h
    split at h <;> simp at h
    omega
  | c :: cs, n, h => by
    unfold indexOf at h
    split at h
    · simp at h; omega
    · cases hm : indexOf sep cs with
      | none => simp [hm] at h
      | some m =>
        simp [hm] at h
        have := indexOf_le hm
        simp; omega

theorem indexOf_bound {sep s : Bytes} {n : Nat} (h : indexOf sep s = some n) : n + sep.length ≤ s.length := by
  have hl := indexOf_le h
  have e := congrArg List.length (indexOf_some h)
  simp only [List.length_append, List.length_take, List.length_drop] at e
  omega

/-! ### TrimAllSpace / TruncateRune on ASCII text -/

def asciiSpace (b : Nat) : Bool := b = 9 || b = 10 || b = 11 || b = 12 || b = 13 || b = 32

theorem isSpaceChunk_mk1 (b : Nat) : isSpaceChunk (mk1 b) = asciiSpace b := by
  simp only [isSpaceChunk, mk1, spaceEncs, asciiSpace, List.contains_eq_mem]
  simp [Bool.or_assoc]

theorem trimAllSpace_ascii (s : Bytes) (h : Ascii s) : trimAllSpace s = s.filter (fun b => !asciiSpace b) := by
  unfold trimAllSpace
  rw [chunks_ascii s h]
  clear h
  induction s with
  | nil => rfl
  | cons b r ih =>
    simp only [List.map_cons, List.filter_cons, isSpaceChunk_mk1]
    by_cases hb : asciiSpace b <;> simp [hb, mk1] at ih ⊢ <;> exact ih

theorem truncate_offsets (sz : Nat) : ∀ (s : Bytes) (o : Nat),
    ((offsets o (s.map mk1)).filter (fun p => ((p.1 : Nat) : Int) < (sz : Int))).flatMap (·.2.norm) = s.take (sz - o)
  | [], o => by simp [offsets]
  | b :: r, o => by
    simp only [List.map_cons, offsets, List.filter_cons, mk1, List.length_cons, List.length_nil]
    have ih := truncate_offsets sz r (o + 1)
    by_cases ho : (o : Int) < (sz : Int)
    · simp only [ho, decide_true, if_true, List.flatMap_cons]
      have : sz - o = (sz - (o + 1)) + 1 := by omega
      rw [this, List.take_succ_cons, ← ih]
      simp
    · simp only [ho, decide_false]
      have : sz - o = 0 := by omega
      rw [this, List.take_zero]
      have : sz - (o + 1) = 0 := by omega
      rw [this, List.take_zero] at ih
      simpa using ih

theorem truncateRune_ascii (s : Bytes) (sz : Nat) (h : Ascii s) : truncateRune s sz = s.take sz := by
  unfold truncateRune
  rw [chunks_ascii s h]
  simpa using truncate_offsets sz s 0

/-! ### NullTermToStrings -/

theorem indexByte_absent (c : Nat) : ∀ (s : Bytes), c ∉ s → indexByte c s = none
  | [], _ => rfl
  | x :: s, h => by
    have hx : x ≠ c := by intro e; apply h; simp [e]
    have hs : c ∉ s := by intro e; apply h; simp [e]
    simp [indexByte, hx, indexByte_absent c s hs]

theorem indexByte_first (c : Nat) : ∀ (a r : Bytes), c ∉ a → indexByte c (a ++ c :: r) = some a.length
  | [], r, _ => by simp [indexByte]
  | x :: a, r, h => by
    have hx : x ≠ c := by intro e; apply h; simp [e]
    have ha : c ∉ a := by intro e; apply h; simp [e]
    simp [indexByte, hx, indexByte_first c a r ha]

/-- records that are non-empty and free of NUL, each followed by one NUL -/
def nulEnc (xs : List Bytes) : Bytes := xs.flatMap (· ++ [0])

theorem nulEnc_length : ∀ (xs : List Bytes), xs.length ≤ (nulEnc xs).length
  | [] => by simp [nulEnc]
  | x :: xs => by
    have e : nulEnc (x :: xs) = (x ++ [0]) ++ nulEnc xs := by simp [nulEnc]
    have := nulEnc_length xs
    rw [e]; simp only [List.length_append, List.length_cons, List.length_nil]; omega

theorem nullTermF_records : ∀ (xs : List Bytes) (x : Bytes) (acc : List Bytes) (tail : Bytes) (f : Nat),
    (∀ y ∈ x :: xs, y ≠ [] ∧ 0 ∉ y) → xs.length < f →
    nullTermF f (nulEnc (x :: xs) ++ 0 :: tail) acc = some (acc.reverse ++ x :: xs)
  | [], x, acc, tail, f, h, hf => by
    cases f with
    | zero => omega
    | succ f =>
      have hx := (h x (by simp)).2
      simp only [nulEnc, List.flatMap_cons, List.flatMap_nil, List.append_nil, List.append_assoc,
        List.singleton_append, nullTermF]
      rw [indexByte_first 0 x _ hx]
      simp
  | x' :: xs, x, acc, tail, f, h, hf => by
    cases f with
    | zero => simp at hf
    | succ f =>
      have hx := (h x (by simp)).2
      have hx' := h x' (by simp)
      have ih := nullTermF_records xs x' (x :: acc) tail f
        (fun y hy => h y (by simp at hy ⊢; exact Or.inr hy)) (by simp at hf; omega)
      have e : nulEnc (x :: x' :: xs) ++ 0 :: tail = x ++ 0 :: (nulEnc (x' :: xs) ++ 0 :: tail) := by
        simp [nulEnc]
      rw [e]
      simp only [nullTermF]
      rw [indexByte_first 0 x _ hx]
      have d : List.drop (x.length + 1) (x ++ 0 :: (nulEnc (x' :: xs) ++ 0 :: tail)) = nulEnc (x' :: xs) ++ 0 :: tail := by
        simp
      have t : List.take x.length (x ++ 0 :: (nulEnc (x' :: xs) ++ 0 :: tail)) = x := by simp
      simp only [d, t]
      obtain ⟨b, bs, hb⟩ : ∃ b bs, x' = b :: bs := by
        cases x' with
        | nil => exact absurd rfl hx'.1
        | cons b bs => exact ⟨b, bs, rfl⟩
      have hb0 : b ≠ 0 := by
        intro e0; apply hx'.2; simp [hb, e0]
      have e2 : nulEnc (x' :: xs) ++ 0 :: tail = b :: (bs ++ 0 :: (nulEnc xs ++ 0 :: tail)) := by
        simp [nulEnc, hb]
      rw [e2] at ih ⊢
      simp only [hb0, if_false]
      rw [ih]
      simp

/-! ### uuidutil.ToLong -/

def polyF : Bytes → Int → Int
  | [], h => h
  | c :: cs, h => polyF cs (31 * h + c)

theorem wrap64_step (h : Int) (c : Nat) : wrap64 (31 * wrap64 h + c) = wrap64 (31 * h + c) := by
  unfold wrap64; omega

theorem wrap64_idem (h : Int) : wrap64 (wrap64 h) = wrap64 h := by
  unfold wrap64; omega

theorem toLongF_poly : ∀ (s : Bytes) (h : Int), toLongF s (wrap64 h) = wrap64 (polyF s h)
  | [], h => rfl
  | c :: cs, h => by
    simp only [toLongF, polyF, wrap64_step]
    exact toLongF_poly cs _

end Ext.StrUtil
