/-
  Golib.Ext.ShellArg — util/shellarg/ShellArg.go as the code has it.

  `NewShellArg(args)` walks argv once.  At a position holding `a`:
    * `a` with prefix `-tag.` is ALSO recorded in `Tags` (value = the text after the prefix);
    * if the next word exists and does not start with `-`, it is the value (`parameter[a]`), and if the
      word after that again does not start with `-` it is the second value (`parameter2[a]`);
    * otherwise `parameter[a] = ""`.
  The three tables are `hmap.StringKeyLinkedMap`s (unbounded; a regular descriptor in the sense of
  `Golib.HMap.Spec`): insertion ordered, `Put` of a present key replaces the value in place.

  (core Lean only; imported by the driver)
-/
import Golib.Ext.StrLib

namespace Ext.ShellArg
open Ext.Str

abbrev Tab := List (Bytes × Bytes)

def get : Tab → Bytes → Option Bytes
  | [], _ => none
  | (a, b) :: t, k => if a = k then some b else get t k

/-- `StringKeyLinkedMap.Put` (unbounded): replace in place, or append -/
def put : Tab → Bytes → Bytes → Tab
  | [], k, v => [(k, v)]
  | (a, b) :: t, k, v => if a = k then (a, v) :: t else (a, b) :: put t k v

structure SA where
  tags : Tab := []
  param : Tab := []
  param2 : Tab := []
  deriving DecidableEq, Repr

/-- a word that can be a value: `strings.HasPrefix(w, "-") == false` -/
def isVal (w : Bytes) : Bool := !(([45] : Bytes).isPrefixOf w)

def tagPrefix : Bytes := [45, 116, 97, 103, 46]   -- "-tag."

def addTag (s : SA) (a : Bytes) : SA :=
  if tagPrefix.isPrefixOf a then { s with tags := put s.tags a (a.drop 5) } else s

/-- one key position: (key, first value or "", optional second value, number of words consumed) -/
def group : List Bytes → Option (Bytes × Bytes × Option Bytes × Nat)
  | [] => none
  | [a] => some (a, [], none, 1)
  | a :: v :: rest =>
    if isVal v then
      match rest with
      | v2 :: _ => if isVal v2 then some (a, v, some v2, 3) else some (a, v, none, 2)
      | [] => some (a, v, none, 2)
    else some (a, [], none, 1)

def apply (s : SA) (g : Bytes × Bytes × Option Bytes) : SA :=
  let s := addTag s g.1
  let s := { s with param := put s.param g.1 g.2.1 }
  match g.2.2 with
  | some v2 => { s with param2 := put s.param2 g.1 v2 }
  | none => s

/-- the groups argv is cut into, left to right -/
def groups : Nat → List Bytes → List (Bytes × Bytes × Option Bytes)
  | 0, _ => []
  | f + 1, args =>
    match group args with
    | none => []
    | some (a, v, v2, n) => (a, v, v2) :: groups f (args.drop n)

/-- `NewShellArg(args)` -/
def parse (args : List Bytes) : SA := (groups args.length args).foldl apply {}

def hasKey (s : SA) (k : Bytes) : Bool := (get s.param k).isSome
def keysOf (s : SA) : List Bytes := s.param.map (·.1)
def getStr (s : SA) (k d : Bytes) : Bytes := (get s.param k).getD d

/-- `castutil.CInt(string)` -/
def cIntStr (v : Bytes) : Int := let r := atoi v; if r.2 then wrap32 r.1 else 0
/-- `castutil.CLong(string)` -/
def cLongStr (v : Bytes) : Int := let r := atoi v; if r.2 then r.1 else 0

def getInt (s : SA) (k : Bytes) (d : Int) : Int :=
  match get s.param k with | some v => cIntStr v | none => d
def getLong (s : SA) (k : Bytes) (d : Int) : Int :=
  match get s.param k with | some v => cLongStr v | none => d
def getBool (s : SA) (k : Bytes) (d : Bool) : Bool :=
  match get s.param k with | some v => eqFoldTrue v | none => d
/-- `Get2(key)`: `none` = panic (nil interface asserted to string) -/
def get2 (s : SA) (k : Bytes) : Option Bytes := get s.param2 k

end Ext.ShellArg
