/-
  Golib.Ext.TopoLemmas — lemmas about the NODE model (Golib.Ext.Topo): the sets as insertion-ordered duplicate-free
  lists, histories of AddListen / AddOutter, well-formedness of every link the code can create, the byte round trip.
-/
import Golib.Ext.Topo
import Golib.Ext.KeysLemmas
import Golib.Value.Facts

namespace Ext.Topo
open Prim Ext.Keys

/-! ### putSet / putAll -/

theorem mem_putSet (s : List LINK) (k x : LINK) : x ∈ putSet s k ↔ x ∈ s ∨ x = k := by
  unfold putSet
  split
  · rename_i h
    have hk : k ∈ s := by simpa using h
    constructor
    · intro hx; exact Or.inl hx
    · rintro (hx | hx)
      · exact hx
      · exact hx ▸ hk
  · simp

theorem nodup_putSet (s : List LINK) (k : LINK) (h : s.Nodup) : (putSet s k).Nodup := by
  unfold putSet
  split
  · exact h
  · rename_i hc
    have hk : k ∉ s := by simpa using hc
    rw [List.nodup_append]
    refine ⟨h, by simp, ?_⟩
    intro a ha b hb
    simp at hb
    subst hb
    intro e; exact hk (e ▸ ha)

theorem mem_putAll (ks : List LINK) : ∀ (s : List LINK) (x : LINK), x ∈ putAll s ks ↔ x ∈ s ∨ x ∈ ks := by
  induction ks with
  | nil => intro s x; simp [putAll]
  | cons k t ih =>
    intro s x
    show x ∈ putAll (putSet s k) t ↔ _
    rw [ih, mem_putSet]
    simp only [List.mem_cons]
    constructor
    · rintro ((h | h) | h)
      · exact Or.inl h
      · exact Or.inr (Or.inl h)
      · exact Or.inr (Or.inr h)
    · rintro (h | h | h)
      · exact Or.inl (Or.inl h)
      · exact Or.inl (Or.inr h)
      · exact Or.inr h

theorem nodup_putAll (ks : List LINK) : ∀ (s : List LINK), s.Nodup → (putAll s ks).Nodup := by
  induction ks with
  | nil => intro s h; exact h
  | cons k t ih => intro s h; exact ih _ (nodup_putSet s k h)

theorem putAll_append (s a b : List LINK) : putAll s (a ++ b) = putAll (putAll s a) b := by
  unfold putAll; rw [List.foldl_append]

/-- a key that is already there changes nothing; the first occurrence fixes the position -/
theorem putSet_of_mem (s : List LINK) (k : LINK) (h : k ∈ s) : putSet s k = s := by
  unfold putSet; simp [h]

theorem putSet_of_not_mem (s : List LINK) (k : LINK) (h : k ∉ s) : putSet s k = s ++ [k] := by
  unfold putSet; simp [h]

/-- new distinct keys are appended in order -/
theorem putAll_fresh (ks : List LINK) : ∀ (s : List LINK), (s ++ ks).Nodup → putAll s ks = s ++ ks := by
  induction ks with
  | nil => intro s _; simp [putAll]
  | cons k t ih =>
    intro s h
    have hk : k ∉ s := by
      intro hm
      rw [List.nodup_append] at h
      exact h.2.2 k hm k (by simp) rfl
    show putAll (putSet s k) t = _
    rw [putSet_of_not_mem s k hk, ih (s ++ [k]) (by simpa using h)]
    simp

/-! ### histories -/

theorem outerLinks_state_free (ext : Ext) (n m : NODE) (l r : Bytes) : outerLinks ext n l r = outerLinks ext m l r := rfl

theorem step_attr (ext : Ext) (n : NODE) (op : Op) : (step ext n op).attr = n.attr := by
  cases op <;> rfl

theorem step_listen (ext : Ext) (n : NODE) (op : Op) :
    (step ext n op).listen = putAll n.listen (op.listenPart ext) := by
  cases op <;> rfl

theorem step_outter (ext : Ext) (n : NODE) (op : Op) :
    (step ext n op).outter = putAll n.outter (op.outerPart ext) := by
  cases op <;> rfl

theorem run_attr (ext : Ext) (ops : List Op) : ∀ n, (run ext n ops).attr = n.attr := by
  induction ops with
  | nil => intro n; rfl
  | cons op t ih => intro n; show (run ext (step ext n op) t).attr = _; rw [ih, step_attr]

theorem run_listen (ext : Ext) (ops : List Op) : ∀ n,
    (run ext n ops).listen = putAll n.listen (ops.flatMap (Op.listenPart ext)) := by
  induction ops with
  | nil => intro n; rfl
  | cons op t ih =>
    intro n
    show (run ext (step ext n op) t).listen = _
    rw [ih, step_listen, List.flatMap_cons, putAll_append]

theorem run_outter (ext : Ext) (ops : List Op) : ∀ n,
    (run ext n ops).outter = putAll n.outter (ops.flatMap (Op.outerPart ext)) := by
  induction ops with
  | nil => intro n; rfl
  | cons op t ih =>
    intro n
    show (run ext (step ext n op) t).outter = _
    rw [ih, step_outter, List.flatMap_cons, putAll_append]

/-! ### every link the code can create is well formed -/

/-- the resolver parameter answers 4 bytes when it answers an IPv4 address (`val.To4()`) -/
def ExtOK (ext : Ext) : Prop := ∀ s ip, ext s = .v4 ip → ip.length = 4 ∧ WFB ip

/-- a link as `CreateLINK` builds it: 4 address bytes, an int32 port -/
def LinkOK (k : LINK) : Prop := k.ip.length = 4 ∧ WFB k.ip ∧ I32 k.port

theorem octet_lt (f : Bytes) (v : Nat) (h : octet f = some v) : v < 256 := by
  unfold octet at h
  split at h
  · simp at h
  split at h
  · simp at h
  split at h
  · simp at h
  split at h
  · simp at h
  simp only [] at h
  split at h
  · simp at h
  · simp at h; omega

theorem parseV4_ok (s ip : Bytes) (h : parseV4 s = some ip) : ip.length = 4 ∧ WFB ip := by
  unfold parseV4 at h
  split at h
  · split at h
    · rename_i a b c d a' b' c' d' ha hb hc hd
      simp at h
      subst h
      refine ⟨rfl, ?_⟩
      have := octet_lt _ _ ha; have := octet_lt _ _ hb; have := octet_lt _ _ hc; have := octet_lt _ _ hd
      intro x hx
      simp at hx
      omega
    · exact absurd h (by simp)
  · exact absurd h (by simp)

theorem wrap32_I32 (v : Int) : I32 (Hash.wrap32 v) := by
  unfold Hash.wrap32 I32; omega

theorem portOf_I32 (p : Bytes) : I32 (portOf p) := by
  unfold portOf
  rw [show Ext.Cast.cInt (.str p) = if (Ext.Str.atoi p).2 then Hash.wrap32 (Ext.Str.atoi p).1 else 0 from rfl]
  split
  · exact wrap32_I32 _
  · unfold I32; omega

theorem zero_ok : zeroIP.length = 4 ∧ WFB zeroIP := by decide

theorem createLINK_ok (ext : Ext) (hx : ExtOK ext) (s : Bytes) (p : Int) (hp : I32 p) : LinkOK (createLINK ext s p) := by
  unfold createLINK lookup
  split
  · exact ⟨zero_ok.1, zero_ok.2, by show I32 0; unfold I32; omega⟩
  · rename_i ip h
    split at h
    · rename_i ip' h4
      simp at h; subst h
      exact ⟨(parseV4_ok _ _ h4).1, (parseV4_ok _ _ h4).2, hp⟩
    · exact ⟨(hx _ _ h).1, (hx _ _ h).2, hp⟩
  · exact ⟨zero_ok.1, zero_ok.2, hp⟩

theorem listenLinks_ok (ext : Ext) (hx : ExtOK ext) (locals : List Bytes) (addr : Bytes) :
    ∀ k ∈ listenLinks ext locals addr, LinkOK k := by
  intro k hk
  unfold listenLinks at hk
  split at hk
  · simp at hk
  · split at hk
    · simp at hk
    · split at hk
      · simp only [List.mem_map] at hk
        obtain ⟨l, _, rfl⟩ := hk
        exact createLINK_ok ext hx _ _ (portOf_I32 _)
      · simp at hk; subst hk
        exact createLINK_ok ext hx _ _ (portOf_I32 _)

theorem outerLinks_ok (ext : Ext) (hx : ExtOK ext) (n : NODE) (l r : Bytes) :
    ∀ k ∈ outerLinks ext n l r, LinkOK k := by
  intro k hk
  unfold outerLinks at hk
  split at hk
  · simp at hk
  split at hk
  · simp at hk
  split at hk
  · simp at hk
  split at hk
  · simp at hk
  split at hk
  · simp at hk
  · simp only [List.mem_singleton] at hk; subst hk; exact createLINK_ok ext hx _ _ (portOf_I32 _)

/-- a well-formed NODE: what `NewNODE` + Attr puts + AddListen/AddOutter can reach and the stream can carry -/
structure NodeOK (n : NODE) : Prop where
  attrWF : Value.WFKVs n.attr
  attrNodup : (n.attr.map (·.1)).Nodup
  listenOK : ∀ k ∈ n.listen, LinkOK k
  outterOK : ∀ k ∈ n.outter, LinkOK k
  listenNodup : n.listen.Nodup
  outterNodup : n.outter.Nodup

theorem nodeOK_run (ext : Ext) (hx : ExtOK ext) (n : NODE) (h : NodeOK n) (ops : List Op) : NodeOK (run ext n ops) := by
  refine ⟨?_, ?_, ?_, ?_, ?_, ?_⟩
  · rw [run_attr]; exact h.attrWF
  · rw [run_attr]; exact h.attrNodup
  · intro k hk
    rw [run_listen, mem_putAll] at hk
    rcases hk with hk | hk
    · exact h.listenOK k hk
    · simp only [List.mem_flatMap] at hk
      obtain ⟨op, _, hop⟩ := hk
      cases op with
      | listen ls a => exact listenLinks_ok ext hx ls a k hop
      | outer l r => simp [Op.listenPart] at hop
  · intro k hk
    rw [run_outter, mem_putAll] at hk
    rcases hk with hk | hk
    · exact h.outterOK k hk
    · simp only [List.mem_flatMap] at hk
      obtain ⟨op, _, hop⟩ := hk
      cases op with
      | listen ls a => simp [Op.outerPart] at hop
      | outer l r => exact outerLinks_ok ext hx _ l r k hop
  · rw [run_listen]; exact nodup_putAll _ _ h.listenNodup
  · rw [run_outter]; exact nodup_putAll _ _ h.outterNodup

/-! ### the byte round trip -/

theorem link_rt (k : LINK) (r : Bytes) (h : LinkOK k) : P.run LINK.toObject (LINK.toBytes k ++ r) = some (k, r) := by
  unfold LINK.toObject LINK.toBytes
  rw [List.append_assoc, P.run_bind_some _ _ _ _ _ (run_decBlob k.ip _ (by have := h.1; omega))]
  rw [P.run_bind_some _ _ _ _ _ (run_rdI 4 k.port r (I32_inRange _ h.2.2))]
  rfl

theorem decLinkList_enc (ks : List LINK) : ∀ (acc : List LINK) (r : Bytes), (∀ k ∈ ks, LinkOK k) → (acc ++ ks).Nodup →
    decLinkList ks.length acc (encLinkList ks ++ r) = some (acc ++ ks, r) := by
  induction ks with
  | nil => intro acc r _ _; simp [decLinkList, encLinkList]
  | cons k t ih =>
    intro acc r hok hn
    have hk : k ∉ acc := by
      intro hm
      rw [List.nodup_append] at hn
      exact hn.2.2 k hm k (by simp) rfl
    simp only [List.length_cons, decLinkList, encLinkList, List.append_assoc]
    rw [link_rt k _ (hok k (by simp))]
    simp only
    rw [putSet_of_not_mem acc k hk, ih (acc ++ [k]) r (fun x hx => hok x (by simp [hx])) (by simpa using hn)]
    simp

theorem decLinks_enc (ks : List LINK) (r : Bytes) (hok : ∀ k ∈ ks, LinkOK k) (hn : ks.Nodup)
    (hl : ks.length ≤ 9223372036854775807) : decLinks (encLinks ks ++ r) = some (ks, r) := by
  unfold decLinks encLinks
  rw [List.append_assoc, run_decDecimal (ks.length : Int) _ (by rw [inRange_8]; omega)]
  simp only [Int.toNat_natCast]
  simpa using decLinkList_enc ks [] r hok (by simpa using hn)

theorem readBody_body (n : NODE) (r : Bytes) (h : NodeOK n)
    (hl : n.attr.length ≤ 9223372036854775807 ∧ n.listen.length ≤ 9223372036854775807 ∧
      n.outter.length ≤ 9223372036854775807) :
    readBody (body n ++ r) = some (n, r) := by
  unfold readBody body
  simp only [List.append_assoc]
  rw [run_decDecimal (n.attr.length : Int) _ (by rw [inRange_8]; omega)]
  simp only [Int.toNat_natCast]
  have hsz := Value.szKVs_le_length n.attr
  rw [Value.decKVs_encKVs n.attr [] _ _ h.attrWF (by simpa using h.attrNodup)
    (by simp only [List.length_append]; omega)]
  simp only [List.nil_append]
  rw [decLinks_enc n.listen _ h.listenOK h.listenNodup hl.2.1]
  simp only
  rw [decLinks_enc n.outter _ h.outterOK h.outterNodup hl.2.2]

end Ext.Topo
