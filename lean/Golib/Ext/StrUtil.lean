/-
  Golib.Ext.StrUtil — CodeModel of the string utilities of util/stringutil/StringUtil.go that no property speaks
  about, plus util/uuidutil (ToLong), util/percentutil, util/exception and util/ansi (formatting).
  Transcribed function by function; byte strings as Go indexes them, rune chunks where Go decodes UTF-8
  (Golib.Ext.StrLib2).  `Option` results: `none` = the Go function panics (no recover in it).
  (core Lean only; imported by the driver)
-/
import Golib.Ext.StrLib2

namespace Ext.StrUtil
open Ext.Str

/-! ### padding: LPad, RPad, LPadInt (bytes) -/

/-- `padding(n, ch)`: the loop runs `max n 0` times -/
def padding (n : Int) (ch : Bytes) : Bytes := (List.replicate n.toNat ch).flatten

def lpad (s : Bytes) (n : Int) : Bytes :=
  if s.isEmpty then padding n [32]
  else if (s.length : Int) ≥ n then s
  else padding (n - s.length) [32] ++ s

def rpad (s : Bytes) (n : Int) : Bytes :=
  if s.isEmpty then padding n [32]
  else if (s.length : Int) ≥ n then s
  else s ++ padding (n - s.length) [32]

/-- `LPadInt(v, size)`: zeros in front of `%d` of v — in front of the sign too -/
def lpadInt (v size : Int) : Bytes :=
  let r := itoa v
  if (r.length : Int) > size then r else padding (size - r.length) [48] ++ r

/-! ### CutLastString -/

/-- `className[x+1:]` with `x = LastIndex(className, delim)`: one byte is skipped whatever the length of delim -/
def cutLast (s delim : Bytes) : Option Bytes :=
  match lastIndexOf delim s with
  | some x => sliceFrom s (x + 1)
  | none => some s

/-! ### ToPair, Substring, SubstringN: offsets found in the LOWERED text, applied to the text itself -/

def toPair (s sep : Bytes) : Option (Bytes × Bytes) :=
  match indexOf (toLower sep) (toLower s) with
  | some pos =>
    match slice s 0 pos, sliceFrom s (pos + sep.length) with
    | some k, some v => some (trimSpace k, trimSpace v)
    | _, _ => none
  | none => some ([], [])

/-- the body of Substring; `none` = panic (recovered by the deferred function: the result is "") -/
def substringBody (s frm to : Bytes) : Option Bytes :=
  match indexOf (toLower frm) (toLower s) with
  | none => some []
  | some p =>
    let pos := p + frm.length
    if to.isEmpty then (slice s pos s.length).map trimSpace
    else
      match sliceFrom s pos with
      | none => none
      | some rest =>
        let pos1 := match indexOf (toLower to) (toLower rest) with
          | none => s.length
          | some q => pos + q
        (slice s pos pos1).map trimSpace

def substring (s frm to : Bytes) : Bytes := (substringBody s frm to).getD []

/-- the loop of SubstringN from the state (lastPos, pos, idx, result reversed); `none` = panic -/
def substringNLoop (s frm to : Bytes) (n : Int) : Nat → Nat → Nat → Nat → List Bytes → Option (List Bytes)
  | 0, _, _, _, acc => some acc.reverse
  | fuel + 1, lastPos, p, idx, acc =>
    let pos := p + frm.length
    let pos1? : Option Nat :=
      if to.isEmpty then some s.length
      else match sliceFrom s (lastPos + pos) with
        | none => none
        | some rest => match indexOf (toLower to) (toLower rest) with
          | none => some s.length
          | some q => some (pos + q)
    match pos1? with
    | none => none
    | some pos1 =>
      match slice s (lastPos + pos) (lastPos + pos1) with
      | none => none
      | some str =>
        let acc := trimSpace str :: acc
        let lastPos := lastPos + pos1 + to.length
        let idx := idx + 1
        if n ≠ -1 ∧ (idx : Int) ≥ n then some acc.reverse
        else if lastPos ≥ s.length then some acc.reverse
        else
          match indexOf (toLower frm) (toLower (s.drop lastPos)) with
          | none => some acc.reverse
          | some p' => substringNLoop s frm to n fuel lastPos p' idx acc

/-- `SubstringN`: a panic is recovered and the (unnamed) result is nil -/
def substringN (s frm to : Bytes) (n : Int) : List Bytes :=
  match indexOf (toLower frm) (toLower s) with
  | none => []
  | some p => (substringNLoop s frm to n (s.length + 2) 0 p 0 []).getD []

/-! ### Tokenizer, FirstWord, LastWord (runes) -/

/-- maximal runs between delimiter runes (with the empty runs) -/
def groups (isD : Chunk → Bool) : List Chunk → List (List Chunk)
  | [] => [[]]
  | k :: ks =>
    match groups isD ks with
    | g :: gs => if isD k then [] :: g :: gs else (k :: g) :: gs
    | [] => [[]]

def rawOf (g : List Chunk) : Bytes := g.flatMap (·.raw)

/-- `strings.FieldsFunc(src, f)`: the non-empty runs, as slices of the text itself -/
def fields (isD : Chunk → Bool) (ks : List Chunk) : List Bytes :=
  ((groups isD ks).filter (fun g => !g.isEmpty)).map rawOf

def isDelim (delim : Bytes) (k : Chunk) : Bool := (chunks delim).any (fun d => d.sameRune k)

def tokenizer (src delim : Bytes) : List Bytes :=
  if src.isEmpty || delim.isEmpty then [src] else fields (isDelim delim) (chunks src)

def firstWord (t delim : Bytes) : Bytes :=
  if t.isEmpty || delim.isEmpty then t else
  match tokenizer t delim with
  | x :: _ => trimSpace x
  | [] => []

def lastWord (t delim : Bytes) : Bytes :=
  if t.isEmpty || delim.isEmpty then t else
  match (tokenizer t delim).getLast? with
  | some x => trimSpace x
  | none => []

/-! ### trimming / truncation -/

def trimEmpty (s : Bytes) : Bytes := if s.isEmpty then s else trimSpace s

def isSpaceChunk (k : Chunk) : Bool := spaceEncs.contains k.norm

/-- `TrimAllSpace`: every rune that is not white space, written back with WriteRune -/
def trimAllSpace (s : Bytes) : Bytes :=
  ((chunks s).filter (fun k => !isSpaceChunk k)).flatMap (·.norm)

/-- runes with their BYTE offsets, as `for i, ch := range str` yields them -/
def offsets : Nat → List Chunk → List (Nat × Chunk)
  | _, [] => []
  | o, k :: ks => (o, k) :: offsets (o + k.raw.length) ks

/-- `TruncateRune(str, sz)`: keeps the runes whose byte offset is below sz -/
def truncateRune (s : Bytes) (sz : Int) : Bytes :=
  ((offsets 0 (chunks s)).filter (fun p => (p.1 : Int) < sz)).flatMap (·.2.norm)

/-! ### membership tests -/

def isNotEmpty (s : Bytes) : Bool := !s.isEmpty
def stringInSlice (a : Bytes) (l : List Bytes) : Bool := l.any (· == a)
def contains (l : List Bytes) (a : Bytes) : Bool := l.any (· == a)
def inArray (s : Bytes) (l : List Bytes) : Bool :=
  l.any (fun it => toUpper (trimSpace s) == toUpper (trimSpace it))
def inArrayCS (s : Bytes) (l : List Bytes) : Bool :=
  l.any (fun it => trimSpace s == trimSpace it)

/-! ### NullTermToStrings -/

def indexByte (c : Nat) : Bytes → Option Nat
  | [] => none
  | x :: xs => if x = c then some 0 else (indexByte c xs).map (· + 1)

/-- `none` = index out of range: after a terminator the code reads `b[0]` without a length check -/
def nullTermF : Nat → Bytes → List Bytes → Option (List Bytes)
  | 0, _, acc => some acc.reverse
  | f + 1, b, acc =>
    match indexByte 0 b with
    | none => some acc.reverse
    | some i =>
      let acc := b.take i :: acc
      match b.drop (i + 1) with
      | [] => none
      | x :: r => if x = 0 then some acc.reverse else nullTermF f (x :: r) acc

def nullTerm (b : Bytes) : Option (List Bytes) := nullTermF (b.length + 1) b []

/-! ### EscapeSpace -/

def isDigit (c : Nat) : Bool := 48 ≤ c && c ≤ 57

/-- `linuxPattern.FindAllString(a, -1)`: leftmost non-overlapping `\ddd` -/
def findEsc (s : Bytes) : List Bytes :=
  match s with
  | c :: d1 :: d2 :: d3 :: r =>
    if c = 92 ∧ isDigit d1 ∧ isDigit d2 ∧ isDigit d3 then [c, d1, d2, d3] :: findEsc r
    else findEsc (d1 :: d2 :: d3 :: r)
  | _ => []
termination_by s.length
decreasing_by all_goals (simp only [List.length_cons]; omega)

/-- `fmt.Sprintf("%c", i)` for 0 ≤ i ≤ 0o777: UTF-8 of the code point -/
def encRune (i : Nat) : Bytes :=
  if i < 0x80 then [i] else [0xC0 + i / 64, 0x80 + i % 64]

def escapeSpace (a : Bytes) : Bytes :=
  (findEsc a).foldl (fun a m =>
    match m with
    | [_, d1, d2, d3] =>
      if d1 ≤ 55 ∧ d2 ≤ 55 ∧ d3 ≤ 55 then
        replaceAll a m (encRune ((d1 - 48) * 64 + (d2 - 48) * 8 + (d3 - 48)))
      else a
    | _ => a) a

/-! ### Concat (integers and strings; floats are not modelled) -/

inductive Item
  | str (s : Bytes)
  | int (v : Int)      -- int, int32, int64 (FormatInt) and uint, uint32, uint64 (FormatUint) print alike
  deriving Repr

def Item.text : Item → Bytes
  | .str s => s
  | .int v => itoa v

def concat (l : List Item) : Bytes := l.flatMap Item.text

/-! ### ParseMapSASToString over the entries in the order the map iteration yields them -/

/-- `Truncate(str, n)` for n ≥ 0 (C07's `take`) -/
def truncate (s : Bytes) (n : Nat) : Bytes := s.take n

/-- `if idx > maxCount { break }` with an `idx` that is never incremented: a negative maxCount stops before the
    first entry, any other maxCount never stops the loop; an entry with an empty value list gets no line end -/
def mapSAS (m : List (Bytes × Option Bytes)) (maxCount : Int) (ksz vsz : Nat) : Bytes :=
  if maxCount < 0 then [] else
  m.flatMap (fun e => truncate e.1 ksz ++ [61] ++
    (match e.2 with | some v0 => truncate v0 vsz ++ [10] | none => []))

/-! ### uuidutil.ToLong -/

def wrap64 (v : Int) : Int := (v + 9223372036854775808) % 18446744073709551616 - 9223372036854775808

def toLongF : Bytes → Int → Int
  | [], h => h
  | c :: cs, h => toLongF cs (wrap64 (31 * h + c))

/-- `h = 31*h + int64(uuid[i])` in int64 arithmetic -/
def toLong (s : Bytes) : Int := toLongF s 0

/-! ### percentutil.TopFloat over any strict comparison -/

def topBy {α : Type} (gt : α → α → Bool) (src top : α) : α := if gt src top then top else src

/-! ### exception.CustomException.Error, ansi colours -/

def sName : Bytes := [110, 97, 109, 101, 58]                          -- "name:"
def sMessage : Bytes := [10, 44, 109, 101, 115, 115, 97, 103, 101, 58] -- "\n,message:"
def sEsc : Bytes := [10, 44, 101, 115, 99, 58]                        -- "\n,esc:"
def sStack : Bytes := [10, 44, 115, 116, 97, 99, 107, 58]             -- "\n,stack:"

/-- arguments in the order of NewCustomException(t, msg, stack, esc); the text prints esc before stack -/
def errorText (t msg stack esc : Bytes) : Bytes :=
  sName ++ t ++ sMessage ++ msg ++ sEsc ++ esc ++ sStack ++ stack

inductive Colour | red | yellow | green | cyan | blue
  deriving DecidableEq, Repr

def Colour.digit : Colour → Nat
  | .red => 49 | .green => 50 | .yellow => 51 | .blue => 52 | .cyan => 54

def ansiCode (c : Colour) : Bytes := [27, 91, 51, c.digit, 109]   -- ESC [ 3 d m
def ansiReset : Bytes := [27, 91, 48, 109]                         -- ESC [ 0 m

/-- `enable` is set to true by init() and never changed -/
def colour (c : Colour) (s : Bytes) : Bytes := ansiCode c ++ s ++ ansiReset

end Ext.StrUtil
