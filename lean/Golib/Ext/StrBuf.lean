/-
  Golib.Ext.StrBuf — util/stringutil/StringBuffer.go as the code has it: a byte buffer and an
  indentation depth; every Append writes `strings.Repeat("\t", indent) + str`.
  `strings.Repeat` PANICS on a negative count, so once more blocks were closed than opened every
  write panics (the decrement of the Close operations has already happened by then).

  (core Lean only; imported by the driver)
-/
import Golib.Basic

namespace Ext.StrBuf

inductive Op
  | append (s : Bytes)
  | appendLine (s : Bytes)
  | appendLineIndent (s : Bytes)
  | appendLineClose (s : Bytes)
  | appendClose (s : Bytes)
  | appendComment (s : Bytes)
  | clear
  deriving DecidableEq, Repr

structure SB where
  buf : Bytes := []
  indent : Int := 0
  deriving DecidableEq, Repr

/-- `Append(str)`: `false` = panic (negative Repeat count), buffer untouched -/
def write (b : SB) (s : Bytes) : SB × Bool :=
  if b.indent < 0 then (b, false)
  else ({ b with buf := b.buf ++ (List.replicate b.indent.toNat 9 ++ s) }, true)

def comment : Bytes := [47, 47, 47, 32]   -- "/// "

def step (b : SB) : Op → SB × Bool
  | .append s => write b s
  | .appendLine s => write b (s ++ [10])
  | .appendLineIndent s =>
    let r := write b (s ++ [10])
    if r.2 then ({ r.1 with indent := r.1.indent + 1 }, true) else r
  | .appendLineClose s => write { b with indent := b.indent - 1 } (s ++ [10])
  | .appendClose s => write { b with indent := b.indent - 1 } s
  | .appendComment s => write b (comment ++ (s ++ [10]))
  | .clear => ({ buf := [], indent := 0 }, true)

/-- a history: the final state and, per operation, whether it returned -/
def run : SB → List Op → SB × List Bool
  | b, [] => (b, [])
  | b, op :: ops =>
    let r := step b op
    let q := run r.1 ops
    (q.1, r.2 :: q.2)

/-- the depth an operation writes at, relative to the depth before it -/
def Op.delta : Op → Int
  | .appendLineClose _ | .appendClose _ => -1
  | _ => 0

end Ext.StrBuf
