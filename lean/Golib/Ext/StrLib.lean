/-
  Golib.Ext.StrLib — the Go standard-library string functions that the text utilities of X02 call,
  on byte strings (a Go string is its UTF-8 bytes; `len`, slicing and `strings.Index` count bytes).

    indexOf      strings.Index        (first byte offset of a substring; the empty substring is at 0)
    lastIndexB   strings.LastIndex with a one-byte separator
    trimSpace    strings.TrimSpace    (Unicode White_Space, decoded from UTF-8; invalid bytes are not space)
    toLowerAscii / eqFoldTrue         strings.ToLower(s) == "true"
    atoi         strconv.Atoi on a 64-bit platform, INCLUDING the value returned together with an error
    itoa         strconv.Itoa / fmt %d
    unescape     net/url PathUnescape / QueryUnescape

  Modelled from the library documentation and source (go1.2x), not verified; compared by harness/x02.
  (core Lean only; imported by the driver)
-/
import Golib.Basic

namespace Ext.Str

/-! ### strings.Index -/

/-- `strings.Index(s, sep)`: byte offset of the first occurrence, `none` for -1 -/
def indexOf (sep : Bytes) : Bytes → Option Nat
  | [] => if sep.isEmpty then some 0 else none
  | c :: cs => if sep.isPrefixOf (c :: cs) then some 0 else (indexOf sep cs).map (· + 1)

/-- `strings.LastIndex(s, string(c))` for a single byte `c` -/
def lastIndexB (c : Nat) : Bytes → Option Nat
  | [] => none
  | x :: xs =>
    match lastIndexB c xs with
    | some p => some (p + 1)
    | none => if x = c then some 0 else none

theorem indexOf_nil_sep (s : Bytes) : indexOf [] s = some 0 := by
  cases s <;> simp [indexOf]

/-- a reported offset is an occurrence: `s = s[:n] ++ sep ++ s[n+len(sep):]` -/
theorem indexOf_some {sep : Bytes} : ∀ {s : Bytes} {n : Nat}, indexOf sep s = some n →
    s = s.take n ++ sep ++ s.drop (n + sep.length)
  | [], n, h => by
    unfold indexOf at h
    split at h
    · rename_i he
      have : sep = [] := by simpa using he
      subst this; simp at h; subst h; simp
    · cases h
  | c :: cs, n, h => by
    unfold indexOf at h
    split at h
    · rename_i hp
      cases h
      have := List.isPrefixOf_iff_prefix.mp hp
      obtain ⟨t, ht⟩ := this
      rw [← ht]; simp
    · cases hi : indexOf sep cs with
      | none => simp [hi] at h
      | some m =>
        simp [hi] at h; subst h
        have ih := indexOf_some hi
        simp only [List.take_succ_cons, List.cons_append]
        have e : m + 1 + sep.length = (m + sep.length) + 1 := by omega
        rw [e, List.drop_succ_cons]
        exact congrArg (c :: ·) ih

/-- -1 means the separator does not occur anywhere -/
theorem indexOf_none {sep : Bytes} : ∀ {s : Bytes}, indexOf sep s = none → ∀ a b, s ≠ a ++ sep ++ b
  | [], h, a, b, e => by
    unfold indexOf at h
    split at h
    · cases h
    · rename_i he
      have h1 : a ++ sep ++ b = [] := e.symm
      simp at h1
      exact he (by simp [h1.2.1])
  | c :: cs, h, a, b, e => by
    unfold indexOf at h
    split at h
    · cases h
    · rename_i hp
      cases hi : indexOf sep cs with
      | some m => simp [hi] at h
      | none =>
        cases a with
        | nil =>
          apply hp
          rw [e]; simp only [List.nil_append]
          exact List.isPrefixOf_iff_prefix.mpr ⟨b, rfl⟩
        | cons x a' =>
          simp only [List.cons_append, List.cons.injEq] at e
          exact indexOf_none hi a' b e.2

/-- if the first byte of the separator does not occur in `a`, the first occurrence in
    `a ++ sep ++ r` is at `len(a)` -/
theorem indexOf_append_fresh (c : Nat) (t : Bytes) : ∀ (a r : Bytes), c ∉ a →
    indexOf (c :: t) (a ++ (c :: t) ++ r) = some a.length
  | [], r, _ => by
    simp only [List.nil_append, List.cons_append, List.length_nil]
    unfold indexOf
    have : (c :: t).isPrefixOf (c :: (t ++ r)) = true :=
      List.isPrefixOf_iff_prefix.mpr ⟨r, by simp⟩
    simp [this]
  | x :: a, r, h => by
    have hx : x ≠ c := by intro e; apply h; simp [e]
    have ha : c ∉ a := by intro e; apply h; simp [e]
    simp only [List.cons_append]
    unfold indexOf
    have np : (c :: t).isPrefixOf (x :: (a ++ c :: (t ++ r))) = false := by
      simp [List.isPrefixOf, hx.symm]
    have ih := indexOf_append_fresh c t a r ha
    simp only [List.cons_append, List.append_assoc] at ih
    simp [np, ih]

/-- a byte that does not occur is not found -/
theorem indexOf_single_absent (c : Nat) : ∀ (s : Bytes), c ∉ s → indexOf [c] s = none
  | [], _ => by simp [indexOf]
  | x :: s, h => by
    have hx : x ≠ c := by intro e; apply h; simp [e]
    have hs : c ∉ s := by intro e; apply h; simp [e]
    unfold indexOf
    have np : [c].isPrefixOf (x :: s) = false := by simp [List.isPrefixOf, hx.symm]
    simp [np, indexOf_single_absent c s hs]

/-- a separator whose first byte does not occur is not found -/
theorem indexOf_absent (c : Nat) (t : Bytes) : ∀ (s : Bytes), c ∉ s → indexOf (c :: t) s = none
  | [], _ => by simp [indexOf]
  | x :: s, h => by
    have hx : x ≠ c := by intro e; apply h; simp [e]
    have hs : c ∉ s := by intro e; apply h; simp [e]
    unfold indexOf
    have np : (c :: t).isPrefixOf (x :: s) = false := by simp [List.isPrefixOf, hx.symm]
    simp [np, indexOf_absent c t s hs]

/-! ### strings.TrimSpace -/

/-- UTF-8 encodings of the 25 code points with Unicode property White_Space (`unicode.IsSpace`) -/
def spaceEncs : List Bytes :=
  [[9], [10], [11], [12], [13], [32], [0xC2, 0x85], [0xC2, 0xA0], [0xE1, 0x9A, 0x80],
   [0xE2, 0x80, 0x80], [0xE2, 0x80, 0x81], [0xE2, 0x80, 0x82], [0xE2, 0x80, 0x83], [0xE2, 0x80, 0x84],
   [0xE2, 0x80, 0x85], [0xE2, 0x80, 0x86], [0xE2, 0x80, 0x87], [0xE2, 0x80, 0x88], [0xE2, 0x80, 0x89],
   [0xE2, 0x80, 0x8A], [0xE2, 0x80, 0xA8], [0xE2, 0x80, 0xA9], [0xE2, 0x80, 0xAF], [0xE2, 0x81, 0x9F],
   [0xE3, 0x80, 0x80]]

/-- drop one leading white-space character, if there is one -/
def dropSpace1 (encs : List Bytes) (s : Bytes) : Option Bytes :=
  encs.findSome? (fun e => if e.isPrefixOf s then some (s.drop e.length) else none)

def trimLeftF (encs : List Bytes) : Nat → Bytes → Bytes
  | 0, s => s
  | f + 1, s =>
    match dropSpace1 encs s with
    | some r => trimLeftF encs f r
    | none => s

def trimLeft (s : Bytes) : Bytes := trimLeftF spaceEncs s.length s

/-- trailing white space: the same scan on the reversed string with reversed encodings -/
def trimRight (s : Bytes) : Bytes :=
  (trimLeftF (spaceEncs.map List.reverse) s.length s.reverse).reverse

def trimSpace (s : Bytes) : Bytes := trimRight (trimLeft s)

def startsWithSpace (s : Bytes) : Bool := (dropSpace1 spaceEncs s).isSome
def endsWithSpace (s : Bytes) : Bool := (dropSpace1 (spaceEncs.map List.reverse) s.reverse).isSome

theorem trimLeftF_fixed (encs : List Bytes) (f : Nat) (s : Bytes) (h : dropSpace1 encs s = none) :
    trimLeftF encs f s = s := by
  cases f <;> simp [trimLeftF, h]

/-- a string that neither starts nor ends with a white-space character is left alone -/
theorem trimSpace_fixed (s : Bytes) (h1 : startsWithSpace s = false) (h2 : endsWithSpace s = false) :
    trimSpace s = s := by
  unfold startsWithSpace at h1
  unfold endsWithSpace at h2
  have e1 : dropSpace1 spaceEncs s = none := by
    cases h : dropSpace1 spaceEncs s with
    | none => rfl
    | some _ => simp [h] at h1
  have e2 : dropSpace1 (spaceEncs.map List.reverse) s.reverse = none := by
    cases h : dropSpace1 (spaceEncs.map List.reverse) s.reverse with
    | none => rfl
    | some _ => simp [h] at h2
  unfold trimSpace trimLeft trimRight
  rw [trimLeftF_fixed _ _ _ e1, trimLeftF_fixed _ _ _ e2, List.reverse_reverse]

theorem dropSpace1_suffix (encs : List Bytes) (s r : Bytes) (h : dropSpace1 encs s = some r) :
    ∃ e, s = e ++ r := by
  unfold dropSpace1 at h
  obtain ⟨e, _, he⟩ := List.exists_of_findSome?_eq_some h
  split at he
  · rename_i hp
    obtain ⟨t, ht⟩ := List.isPrefixOf_iff_prefix.mp hp
    cases he
    exact ⟨e, by rw [← ht]; simp⟩
  · cases he

theorem trimLeftF_suffix (encs : List Bytes) : ∀ (f : Nat) (s : Bytes), ∃ a, s = a ++ trimLeftF encs f s
  | 0, s => ⟨[], by simp [trimLeftF]⟩
  | f + 1, s => by
    unfold trimLeftF
    cases h : dropSpace1 encs s with
    | none => exact ⟨[], by simp⟩
    | some r =>
      obtain ⟨e, he⟩ := dropSpace1_suffix encs s r h
      obtain ⟨a, ha⟩ := trimLeftF_suffix encs f r
      exact ⟨e ++ a, by simp only; rw [List.append_assoc, ← ha, he]⟩

/-- `TrimSpace` only removes a prefix and a suffix -/
theorem trimSpace_infix (s : Bytes) : ∃ a b, s = a ++ trimSpace s ++ b := by
  obtain ⟨a, ha⟩ := trimLeftF_suffix spaceEncs s.length s
  obtain ⟨b, hb⟩ := trimLeftF_suffix (spaceEncs.map List.reverse) (trimLeft s).length (trimLeft s).reverse
  refine ⟨a, b.reverse, ?_⟩
  unfold trimSpace trimRight
  have hb' := congrArg List.reverse hb
  simp only [List.reverse_reverse, List.reverse_append] at hb'
  rw [List.append_assoc, ← hb']
  exact ha

/-! ### strings.ToLower(s) == "true" -/

/-- `strings.ToLower(s) == "true"`: no code point other than `T R U E t r u e` lower-cases to one of
    `t r u e`, and an invalid byte becomes U+FFFD, so this is ASCII case folding of a 4-byte string -/
def eqFoldTrue (s : Bytes) : Bool :=
  match s with
  | [a, b, c, d] => (a == 116 || a == 84) && (b == 114 || b == 82) && (c == 117 || c == 85) && (d == 101 || d == 69)
  | _ => false

/-! ### strconv.Atoi / Itoa -/

inductive UR | ok (n : Nat) | syntax | range
  deriving DecidableEq, Repr

/-- the digit loop of `strconv.ParseUint(s, 10, 64)`: a non-digit is a syntax error; overflow is
    reported as soon as it happens, WITHOUT looking at the remaining characters -/
def parseUintLoop : Bytes → Nat → UR
  | [], n => .ok n
  | c :: cs, n =>
    if 48 ≤ c ∧ c ≤ 57 then
      if n ≥ 1844674407370955162 then .range
      else if n * 10 + (c - 48) > 18446744073709551615 then .range
      else parseUintLoop cs (n * 10 + (c - 48))
    else .syntax

/-- `Atoi` after the sign: the value returned and whether `err == nil` -/
def atoiSigned (neg : Bool) (body : Bytes) : Int × Bool :=
  if body.isEmpty then (0, false) else
  match parseUintLoop body 0 with
  | .syntax => (0, false)
  | .range => if neg then (-9223372036854775808, false) else (9223372036854775807, false)
  | .ok n =>
    if neg then (if n > 9223372036854775808 then (-9223372036854775808, false) else (-(n : Int), true))
    else (if n ≥ 9223372036854775808 then (9223372036854775807, false) else ((n : Int), true))

/-- `strconv.Atoi(s)` (int is 64 bit): the value returned and whether `err == nil`.
    A syntax error returns 0; a range error returns the nearest int64. -/
def atoi (s : Bytes) : Int × Bool :=
  match s with
  | 45 :: r => atoiSigned true r
  | 43 :: r => atoiSigned false r
  | r => atoiSigned false r

theorem atoiSigned_range (neg : Bool) (body : Bytes) :
    -9223372036854775808 ≤ (atoiSigned neg body).1 ∧ (atoiSigned neg body).1 ≤ 9223372036854775807 ∧
    ((atoiSigned neg body).2 = false → (atoiSigned neg body).1 = 0 ∨ (atoiSigned neg body).1 = 9223372036854775807
      ∨ (atoiSigned neg body).1 = -9223372036854775808) := by
  unfold atoiSigned
  split
  · simp
  · split
    · simp
    · cases neg <;> simp
    · cases neg
      · simp only [Bool.false_eq_true, if_false]
        split <;> simp <;> omega
      · simp only [if_true]
        split <;> simp <;> omega

/-- decimal digits of a natural number, most significant first -/
def natDigits (n : Nat) : Bytes := (Nat.toDigits 10 n).map Char.toNat

/-- `strconv.Itoa` / `fmt.Sprintf("%d")` -/
def itoa (v : Int) : Bytes :=
  if v < 0 then 45 :: natDigits v.natAbs else natDigits v.natAbs

/-! ### int conversions of Go -/

/-- `int32(v)` for an `int64`/`int` value: keep the low 32 bits, two's complement -/
def wrap32 (v : Int) : Int := (v + 2147483648) % 4294967296 - 2147483648

theorem wrap32_inRange (v : Int) (h : -2147483648 ≤ v ∧ v ≤ 2147483647) : wrap32 v = v := by
  unfold wrap32; omega

theorem wrap32_range (v : Int) : -2147483648 ≤ wrap32 v ∧ wrap32 v ≤ 2147483647 := by
  unfold wrap32; omega

theorem wrap32_congr (v : Int) : (wrap32 v - v) % 4294967296 = 0 := by
  unfold wrap32; omega

theorem wrap32_periodic (v k : Int) : wrap32 (v + 4294967296 * k) = wrap32 v := by
  unfold wrap32; omega

/-! ### net/url unescape -/

def hexv (c : Nat) : Option Nat :=
  if 48 ≤ c ∧ c ≤ 57 then some (c - 48)
  else if 97 ≤ c ∧ c ≤ 102 then some (c - 87)
  else if 65 ≤ c ∧ c ≤ 70 then some (c - 55)
  else none

/-- `url.PathUnescape` (`plus = false`) / `url.QueryUnescape` (`plus = true`); `none` = error -/
def unescape (plus : Bool) : Bytes → Option Bytes
  | [] => some []
  | c :: r =>
    if c = 37 then
      match r with
      | a :: b :: r' =>
        match hexv a, hexv b with
        | some x, some y => (unescape plus r').map ((x * 16 + y) :: ·)
        | _, _ => none
      | _ => none
    else (unescape plus r).map ((if plus && c == 43 then 32 else c) :: ·)

/-- without `%` (and, for a query, without `+`) unescaping is the identity -/
theorem unescape_plain (plus : Bool) : ∀ (s : Bytes), 37 ∉ s → (plus = true → 43 ∉ s) → unescape plus s = some s
  | [], _, _ => by simp [unescape]
  | c :: r, h1, h2 => by
    have hc : c ≠ 37 := by intro e; apply h1; simp [e]
    have hr : 37 ∉ r := by intro e; apply h1; simp [e]
    have h2r : plus = true → 43 ∉ r := by intro p e; apply h2 p; simp [e]
    have ih := unescape_plain plus r hr h2r
    unfold unescape
    simp only [hc, if_false, ih, Option.map_some]
    cases plus with
    | false => simp
    | true =>
      have : c ≠ 43 := by intro e; apply h2 rfl; simp [e]
      simp [this]

end Ext.Str
