/-
  Golib.Ext.CastMath — util/castutil/CastUtil.go and the integer part of util/mathutil/MathUtil.go
  as decision tables over the dynamic type of the argument.

  Every C* function is `switch val.(type) { case string: …; default: val.(T) }` under a
  `recover()` that turns the panic of a failed assertion into the zero value.  So ONLY `string` and
  the one asserted type `T` convert; every other dynamic type — `int`, `int32`, `float32` included —
  yields 0 / "" / false.

  Floats are carried as their IEEE bit patterns and never computed on here (compared by the harness).
  (core Lean only; imported by the driver)
-/
import Golib.Ext.StrLib

namespace Ext.Cast
open Ext.Str

/-- dynamic types the harness passes -/
inductive Dyn
  | nil
  | str (s : Bytes)
  | i64 (v : Int)        -- int64
  | int (v : Int)        -- int
  | i32 (v : Int)        -- int32
  | f64 (bits : Nat)     -- float64, by bit pattern
  | f32 (bits : Nat)     -- float32, by bit pattern
  | bool (b : Bool)
  | boolVal (b : Bool)   -- *value.BoolValue
  | boolValNil           -- (*value.BoolValue)(nil)
  deriving DecidableEq, Repr

/-- `CInt` -/
def cInt : Dyn → Int
  | .nil => 0
  | .str s => let r := atoi s; if r.2 then wrap32 r.1 else 0
  | .i64 v => wrap32 v
  | _ => 0          -- val.(int64) panics, recovered

/-- `CLong` -/
def cLong : Dyn → Int
  | .nil => 0
  | .str s => let r := atoi s; if r.2 then r.1 else 0
  | .i64 v => v
  | _ => 0

/-- result of the float conversions: a bit pattern, or "what strconv.ParseFloat says" -/
inductive FRes
  | bits (b : Nat)
  | parse (s : Bytes)     -- ParseFloat(s, 32|64), 0 on error — not modelled further
  | narrow (b : Nat)      -- float32(float64 with these bits) — not modelled further
  deriving DecidableEq, Repr

/-- `CDouble` -/
def cDouble : Dyn → FRes
  | .str s => .parse s
  | .f64 b => .bits b
  | _ => .bits 0

/-- `CFloat` -/
def cFloat : Dyn → FRes
  | .str s => .parse s
  | .f64 b => .narrow b
  | _ => .bits 0

/-- `CBool` -/
def cBool : Dyn → Bool
  | .bool b => b
  | .boolVal b => b
  | .str s => eqFoldTrue s
  | _ => false      -- incl. the nil *BoolValue (nil dereference, recovered)

inductive SRes
  | text (s : Bytes)
  | fmtFloat (b : Nat)    -- strconv.FormatFloat(v, 'f', 7, 64) — not modelled further
  deriving DecidableEq, Repr

def ascii (s : String) : Bytes := s.toList.map Char.toNat

/-- `fmt.Sprintf("%s", v)` for a non-string operand: the "bad verb" form `%!s(type=value)` -/
def badVerb (ty : String) (v : Bytes) : Bytes := ascii "%!s(" ++ ascii ty ++ 61 :: v ++ [41]

/-- `CString` -/
def cString : Dyn → SRes
  | .nil => .text []
  | .str s => .text s
  | .f64 b => .fmtFloat b
  | .f32 _ => .text []                       -- case float32, float64: val.(float64) panics
  | .i64 v => .text (badVerb "int64" (itoa v))
  | .int v => .text (badVerb "int" (itoa v))
  | .i32 v => .text (badVerb "int32" (itoa v))
  | .bool b => .text (badVerb "bool" (ascii (if b then "true" else "false")))
  | .boolVal _ => .text []                   -- not compared (prints a pointer)
  | .boolValNil => .text []                  -- not compared

/-! ### the decision table, as data (re-read from the source by xlate/x02) -/

/-- the Go types that occur in the switches and in the harness's arguments -/
inductive GoTy
  | string | int64 | int | int32 | float64 | float32 | bool | boolValuePtr | other
  deriving DecidableEq, Repr

/-- dynamic type of an argument; `none` for the nil interface -/
def Dyn.goType : Dyn → Option GoTy
  | .nil => none
  | .str _ => some .string
  | .i64 _ => some .int64
  | .int _ => some .int
  | .i32 _ => some .int32
  | .f64 _ => some .float64
  | .f32 _ => some .float32
  | .bool _ => some .bool
  | .boolVal _ => some .boolValuePtr
  | .boolValNil => some .boolValuePtr

/-- one function: the `case` type lists of its type switch (source order) and the type its `default`
    clause asserts (`none`: the default clause asserts nothing) -/
abbrev Row := List (List GoTy) × Option GoTy

/-- which way control goes: nil test, the i-th case clause, or the default clause where the assertion
    succeeds / panics (recovered) / is absent -/
inductive Branch
  | isNil
  | case (i : Nat)
  | dfltOk
  | dfltPanic
  | dfltPlain
  deriving DecidableEq, Repr

def findCase (t : GoTy) : List (List GoTy) → Nat → Option Nat
  | [], _ => none
  | c :: cs, i => if c.contains t then some i else findCase t cs (i + 1)

def branchOf (row : Row) (d : Dyn) : Branch :=
  match d.goType with
  | none => .isNil
  | some t =>
    match findCase t row.1 0 with
    | some i => .case i
    | none =>
      match row.2 with
      | none => .dfltPlain
      | some a => if a = t then .dfltOk else .dfltPanic

/-- rows of CInt, CLong, CFloat, CDouble, CString, CBool as the models above assume them -/
def switchTable : List Row :=
  [([[.string]], some .int64),
   ([[.string]], some .int64),
   ([[.string]], some .float64),
   ([[.string]], some .float64),
   ([[.string], [.float32, .float64]], none),
   ([[.bool], [.boolValuePtr], [.string]], none)]

/-- what each branch of `CInt` computes -/
def cIntBy : Branch → Dyn → Int
  | .case 0, .str s => let r := atoi s; if r.2 then wrap32 r.1 else 0
  | .dfltOk, .i64 v => wrap32 v
  | _, _ => 0

def cLongBy : Branch → Dyn → Int
  | .case 0, .str s => let r := atoi s; if r.2 then r.1 else 0
  | .dfltOk, .i64 v => v
  | _, _ => 0

def cDoubleBy : Branch → Dyn → FRes
  | .case 0, .str s => .parse s
  | .dfltOk, .f64 b => .bits b
  | _, _ => .bits 0

def cFloatBy : Branch → Dyn → FRes
  | .case 0, .str s => .parse s
  | .dfltOk, .f64 b => .narrow b
  | _, _ => .bits 0

def cBoolBy : Branch → Dyn → Bool
  | .case 0, .bool b => b
  | .case 1, .boolVal b => b
  | .case 2, .str s => eqFoldTrue s
  | _, _ => false

/-- `CString`: case 0 returns the string; case 1 asserts float64 (a float32 panics); default is `%s` -/
def cStringBy : Branch → Dyn → SRes
  | .case 0, .str s => .text s
  | .case 1, .f64 b => .fmtFloat b
  | .dfltPlain, .i64 v => .text (badVerb "int64" (itoa v))
  | .dfltPlain, .int v => .text (badVerb "int" (itoa v))
  | .dfltPlain, .i32 v => .text (badVerb "int32" (itoa v))
  | .dfltPlain, .bool b => .text (badVerb "bool" (ascii (if b then "true" else "false")))
  | _, _ => .text []

/-! ### mathutil -/

/-- `Scale(n)`: 10^n for n = 1,2,3 and 10000 for EVERY other n (0, negative and ≥ 5 included) -/
def scale (n : Int) : Int :=
  if n = 1 then 10 else if n = 2 then 100 else if n = 3 then 1000 else 10000

def scaleTable : List (Int × Int) := [(1, 10), (2, 100), (3, 1000)]
def scaleDefault : Int := 10000

/-- `RoundScale(value, scale)` on a value that is an integer `v` (exactly representable, and
    `v * Scale(scale)` exactly representable): truncation leaves it alone.  The float steps are
    `value * r` (exact by hypothesis), `int64(·)` (exact on an integer), `/ r` (exact: the quotient is
    the representable `v`). This is the integer arithmetic of those steps. -/
def roundScaleInt (v : Int) (sc : Int) : Int :=
  if sc = 0 then v else (v * scale sc) / scale sc

/-- `ref.INT.HashCode()` / `ref.BYTE.HashCode()` -/
def intHashCode (v : Int) : Int := wrap32 v
def byteHashCode (b : Nat) : Int := b

end Ext.Cast
