/-
  Golib.Ext.Topo — CodeModel of lang/topology/NODE.go (the parts LINK.go contributes are in Golib.Ext.Keys).

  Strings are byte lists, as the Go code treats them (`strings.LastIndex`, slicing, `==`).

  * `getIPPORT`  : x = LastIndex(addr, ":"); if x < 0, x = LastIndex(addr, "."); IP = addr[0:x], Port = addr[x+1:];
                   no separator at all: `addr[0:-1]` panics, the deferred recover returns nil        (`none`)
  * `IPO.IsIPv6` : IP != "" && contains ':'        `IPO.IsLocal127` : IP == "127.0.0.1" (exactly that string)
  * `CreateLINK(ipStr, port)`: `net.LookupIP(ipStr)`; error → the zero link {0.0.0.0, Port 0} (never nil);
                   first address a.To4() copied into the 4 bytes (an IPv6 address copies nothing), Port = port.
                   `net.LookupIP` of a strict dotted quad is that address with no resolver involved (`parseV4`, the
                   code of netip.parseIPv4); everything else (IPv6 literals, host names, garbage) is the PARAMETER `ext`.
  * `AddListen`, `AddOutter`, `hasListen` (always false: `if k != nil { return false }` and CreateLINK never
                   returns nil), `IsAttachable`
  * `ToBytes` / `ToObject` with `toLinkBytes` / `toLinkObject`; the LinkedSets are the insertion-ordered duplicate
                   free lists `putSet` builds (C09 / X01.keyed_maps_refine: the linked hash table with LINK.Hash /
                   LINK.Equals refines exactly that)
-/
import Golib.Ext.Keys
import Golib.Ext.CastMath
import Golib.Value.Model

namespace Ext.Topo
open Prim Ext.Keys

/-! ### address strings -/

/-- `strings.LastIndex(s, string(c))` as an Option -/
def lastIndexAux (c : Nat) : Bytes → Nat → Option Nat → Option Nat
  | [], _, acc => acc
  | b :: r, i, acc => lastIndexAux c r (i + 1) (if b = c then some i else acc)

def lastIndex (c : Nat) (s : Bytes) : Option Nat := lastIndexAux c s 0 none

structure IPO where
  ip : Bytes
  port : Bytes
  deriving DecidableEq, Repr

/-- `getIPPORT`; `none` = the recovered slice panic (no ':' and no '.') -/
def getIPPORT (addr : Bytes) : Option IPO :=
  match lastIndex 58 addr with
  | some x => some ⟨addr.take x, addr.drop (x + 1)⟩
  | none =>
    match lastIndex 46 addr with
    | some x => some ⟨addr.take x, addr.drop (x + 1)⟩
    | none => none

def IPO.isIPv6 (o : IPO) : Bool := !o.ip.isEmpty && o.ip.contains 58
/-- "127.0.0.1" -/
def lit127 : Bytes := [49, 50, 55, 46, 48, 46, 48, 46, 49]
def IPO.isLocal127 (o : IPO) : Bool := o.ip == lit127
/-- "*", "0.0.0.0", "::" -/
def isWild (ip : Bytes) : Bool := ip == [42] || ip == [48, 46, 48, 46, 48, 46, 48] || ip == [58, 58]

/-! ### `net.LookupIP` on a dotted quad (netip.parseIPv4) -/

/-- fields between '.' (a trailing '.' gives a trailing empty field) -/
def splitDots : Bytes → Bytes → List Bytes
  | [], cur => [cur.reverse]
  | b :: r, cur => if b = 46 then cur.reverse :: splitDots r [] else splitDots r (b :: cur)

/-- one octet: 1..3 digits, no leading zero unless the field is "0", value ≤ 255 -/
def octet (f : Bytes) : Option Nat :=
  if f.isEmpty then none
  else if !f.all (fun b => 48 ≤ b && b ≤ 57) then none
  else if f.length > 1 && f.head? == some 48 then none
  else if f.length > 3 then none
  else
    let v := f.foldl (fun a b => a * 10 + (b - 48)) 0
    if v > 255 then none else some v

def parseV4 (s : Bytes) : Option Bytes :=
  match splitDots s [] with
  | [a, b, c, d] =>
    match octet a, octet b, octet c, octet d with
    | some a, some b, some c, some d => some [a, b, c, d]
    | _, _, _, _ => none
  | _ => none

/-- what `net.LookupIP` answered, as far as CreateLINK looks at it -/
inductive Look
  | err                 -- lookup error
  | v4 (ip : Bytes)     -- first address has a 4-byte form
  | other               -- first address is IPv6 only: `copy(k.IP, nil)` copies nothing
  deriving DecidableEq, Repr

/-- the resolver for everything that is not a dotted quad: a parameter of the model -/
abbrev Ext := Bytes → Look

def lookup (ext : Ext) (s : Bytes) : Look :=
  match parseV4 s with
  | some ip => .v4 ip
  | none => ext s

def zeroIP : Bytes := [0, 0, 0, 0]

/-- `CreateLINK(ipStr, port)`; never nil -/
def createLINK (ext : Ext) (ipStr : Bytes) (port : Int) : LINK :=
  match lookup ext ipStr with
  | .err => ⟨zeroIP, 0⟩
  | .v4 ip => ⟨ip, port⟩
  | .other => ⟨zeroIP, port⟩

/-- `int(castutil.CInt(portString))` -/
def portOf (p : Bytes) : Int := Ext.Cast.cInt (.str p)

/-! ### NODE -/

/-- `LinkedSet.Put` on the insertion-ordered list: a key that is there stays where it is -/
def putSet (s : List LINK) (k : LINK) : List LINK := if s.contains k then s else s ++ [k]
def putAll (s : List LINK) (ks : List LINK) : List LINK := ks.foldl putSet s

structure NODE where
  attr : List (Bytes × Value)
  listen : List LINK
  outter : List LINK
  deriving Repr

def NODE.empty : NODE := ⟨[], [], []⟩

/-- the links one `AddListen(localIpSet, addr)` puts, in order -/
def listenLinks (ext : Ext) (locals : List Bytes) (addr : Bytes) : List LINK :=
  match getIPPORT addr with
  | none => []
  | some o =>
    if o.isLocal127 then []
    else if isWild o.ip then locals.map (fun l => createLINK ext l (portOf o.port))
    else [createLINK ext o.ip (portOf o.port)]

def addListen (ext : Ext) (n : NODE) (locals : List Bytes) (addr : Bytes) : NODE :=
  { n with listen := putAll n.listen (listenLinks ext locals addr) }

/-- `hasListen(ip, port)` as written: `k := CreateLINK(..); if k != nil { return false } else { … }` -/
def hasListen (_ext : Ext) (_n : NODE) (_ip _port : Bytes) : Bool := false

/-- what the name says (the else branch, reached when CreateLINK succeeds) -/
def hasListenSpec (ext : Ext) (n : NODE) (ip port : Bytes) : Bool :=
  n.listen.contains (createLINK ext ip (portOf port))

/-- the links one `AddOutter(local, remote)` puts (none or one) -/
def outerLinks (ext : Ext) (n : NODE) (loc remote : Bytes) : List LINK :=
  match getIPPORT loc with
  | none => []
  | some l =>
    if l.isIPv6 then []
    else if hasListen ext n l.ip l.port then []
    else
      match getIPPORT remote with
      | none => []
      | some r =>
        if r.isIPv6 || r.isLocal127 then []
        else [createLINK ext r.ip (portOf r.port)]

def addOutter (ext : Ext) (n : NODE) (loc remote : Bytes) : NODE :=
  { n with outter := putAll n.outter (outerLinks ext n loc remote) }

def isAttachable (n : NODE) (k : LINK) : Bool := n.listen.any (fun l => LINK.includes l k)

/-! ### the byte codec -/

def encLinkList : List LINK → Bytes
  | [] => []
  | k :: ks => LINK.toBytes k ++ encLinkList ks

/-- `toLinkBytes` -/
def encLinks (ks : List LINK) : Bytes := encDecimal ks.length ++ encLinkList ks

/-- everything after the version byte and the type byte -/
def body (n : NODE) : Bytes :=
  encDecimal n.attr.length ++ Value.encKVs n.attr ++ encLinks n.listen ++ encLinks n.outter

/-- `ToBytes`: ver 0, `Attr.GetValueType()` = 80, `Attr.Write`, listen, outter -/
def toBytes (n : NODE) : Bytes := 0 :: 80 :: body n

/-- the loop of `toLinkObject`: `data.Put(NewLINK().ToObject(in))` count times -/
def decLinkList : Nat → List LINK → Bytes → Option (List LINK × Bytes)
  | 0, acc, r => some (acc, r)
  | c + 1, acc, r =>
    match P.run LINK.toObject r with
    | none => none
    | some (k, r') => decLinkList c (putSet acc k) r'

/-- `toLinkObject` (a count ≤ 0 reads nothing) -/
def decLinks (bs : Bytes) : Option (List LINK × Bytes) :=
  match P.run decDecimal bs with
  | none => none
  | some (c, r) => decLinkList c.toNat [] r

/-- `ToObject` after its `in.ReadByte()`: `mv.Read(in)` (NOT ReadValue: no type byte is consumed), listen, outter -/
def readBody (bs : Bytes) : Option (NODE × Bytes) :=
  match P.run decDecimal bs with
  | none => none
  | some (c, r) =>
    match Value.decKVs (r.length + 1) c.toNat [] r with
    | none => none
    | some (attr, r1) =>
      match decLinks r1 with
      | none => none
      | some (ls, r2) =>
        match decLinks r2 with
        | none => none
        | some (os, r3) => some (⟨attr, ls, os⟩, r3)

/-- `ToObject(b)`; `none` = it panics (the NODE is then partly overwritten) -/
def toObject : Bytes → Option (NODE × Bytes)
  | [] => none
  | _ver :: r => readBody r

/-! ### histories -/

inductive Op
  | listen (locals : List Bytes) (addr : Bytes)
  | outer (loc remote : Bytes)
  deriving Repr

def step (ext : Ext) (n : NODE) : Op → NODE
  | .listen locals addr => addListen ext n locals addr
  | .outer l r => addOutter ext n l r

def run (ext : Ext) (n : NODE) (ops : List Op) : NODE := ops.foldl (step ext) n

/-- what an op contributes to each set -/
def Op.listenPart (ext : Ext) : Op → List LINK
  | .listen locals addr => listenLinks ext locals addr
  | .outer _ _ => []
def Op.outerPart (ext : Ext) : Op → List LINK
  | .listen _ _ => []
  | .outer l r => outerLinks ext NODE.empty l r

end Ext.Topo
