/-
  Golib.Ext.ParamText — util/paramtext/ParamText.go as the code has it.

  `NewParamTextBrace(text, sb, eb)` cuts `text` into tokens: literal strings and references
  `sb name eb`; the reference keeps `strings.TrimSpace(name)`.  The loop of the constructor is
  `step`: one iteration either finishes (`done`) or emits one token and continues on a suffix.
  With `sb = eb = ""` and a non-empty text an iteration does not consume anything: the constructor
  never returns (see `Props/X02.lean`, `finding_emptyBraces_diverges`); the model is total through
  fuel and answers `none` there.

  (core Lean only; imported by the driver)
-/
import Golib.Ext.StrLib

namespace Ext.ParamText
open Ext.Str

/-- a token; a reference carries the RAW text between the braces (the code stores its `TrimSpace`) -/
inductive Tok
  | lit (s : Bytes)
  | ref (raw : Bytes)
  deriving DecidableEq, Repr

inductive Step
  | done (ts : List Tok)
  | more (t : Tok) (rest : Bytes)
  deriving DecidableEq, Repr

/-- one iteration of `for len(plainText) > 0 { … }` (called with a non-empty text) -/
def step (sb eb text : Bytes) : Step :=
  match indexOf sb text with
  | none => .done [.lit text]
  | some 0 =>
    let after := text.drop sb.length
    match indexOf eb after with
    | none => .done [.lit text]
    | some n => .more (.ref (after.take n)) (after.drop (n + eb.length))
  | some (p + 1) => .more (.lit (text.take (p + 1))) (text.drop (p + 1))

def parseF (sb eb : Bytes) : Nat → Bytes → Option (List Tok)
  | _, [] => some []
  | 0, _ :: _ => none
  | f + 1, c :: cs =>
    match step sb eb (c :: cs) with
    | .done ts => some ts
    | .more t rest => (parseF sb eb f rest).map (t :: ·)

/-- the token list built by `NewParamTextBrace`; `none`: the constructor does not terminate -/
def parse (sb eb text : Bytes) : Option (List Tok) := parseF sb eb (text.length + 1) text

def Tok.key : Tok → Option Bytes
  | .lit _ => none
  | .ref raw => some (trimSpace raw)

/-- `GetKeys()` -/
def keys (ts : List Tok) : List Bytes := ts.filterMap Tok.key

def lookup (m : List (Bytes × Bytes)) (k : Bytes) : Option Bytes :=
  match m with
  | [] => none
  | (a, b) :: t => if a = k then some b else lookup t k

/-- `ToStringMap(p)`; `p = none` is the nil map -/
def toStringMap (sb eb : Bytes) (p : Option (List (Bytes × Bytes))) : List Tok → Bytes
  | [] => []
  | .lit s :: ts => s ++ toStringMap sb eb p ts
  | .ref raw :: ts =>
    let k := trimSpace raw
    (match p.bind (lookup · k) with
     | some v => v
     | none => sb ++ k ++ eb) ++ toStringMap sb eb p ts

/-- `ToStringStr(p)`: every reference is replaced by the same string -/
def toStringStr (p : Bytes) : List Tok → Bytes
  | [] => []
  | .lit s :: ts => s ++ toStringStr p ts
  | .ref _ :: ts => p ++ toStringStr p ts

/-- the text a token was cut from -/
def Tok.src (sb eb : Bytes) : Tok → Bytes
  | .lit s => s
  | .ref raw => sb ++ raw ++ eb

def flatten (sb eb : Bytes) (ts : List Tok) : Bytes := (ts.map (Tok.src sb eb)).flatten

end Ext.ParamText
