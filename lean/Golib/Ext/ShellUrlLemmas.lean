/-
  Golib.Ext.ShellUrlLemmas — the table laws behind ShellArg and the splitter laws behind URL.
  (proof file; not imported by the driver)
-/
import Golib.Ext.ShellArg
import Golib.Ext.UrlUtil

namespace Ext.ShellArg
open Ext.Str

/-! ### the ordered table -/

theorem get_put_same : ∀ (t : Tab) (k v : Bytes), get (put t k v) k = some v
  | [], k, v => by simp [put, get]
  | (a, b) :: t, k, v => by
    unfold put
    by_cases h : a = k
    · simp [h, get]
    · simp [h, get, get_put_same t k v]

theorem get_put_other : ∀ (t : Tab) (k k' v : Bytes), k ≠ k' → get (put t k v) k' = get t k'
  | [], k, k', v, h => by simp [put, get, h]
  | (a, b) :: t, k, k', v, h => by
    unfold put
    by_cases ha : a = k
    · subst ha; simp [get, h]
    · simp only [ha, if_false, get]
      rw [get_put_other t k k' v h]

/-- `Put` of a present key keeps the iteration order -/
theorem keys_put_present : ∀ (t : Tab) (k v : Bytes), (get t k).isSome → (put t k v).map (·.1) = t.map (·.1)
  | [], k, v, h => by simp [get] at h
  | (a, b) :: t, k, v, h => by
    unfold put
    by_cases ha : a = k
    · simp [ha]
    · simp only [get, ha, if_false] at h
      simp [ha, keys_put_present t k v h]

/-- `Put` of a new key appends it -/
theorem keys_put_absent : ∀ (t : Tab) (k v : Bytes), get t k = none → (put t k v).map (·.1) = t.map (·.1) ++ [k]
  | [], k, v, _ => by simp [put]
  | (a, b) :: t, k, v, h => by
    unfold put
    by_cases ha : a = k
    · simp [get, ha] at h
    · simp only [get, ha, if_false] at h
      simp [ha, keys_put_absent t k v h]

theorem get_append (t u : Tab) (k : Bytes) :
    get (t ++ u) k = match get t k with | some v => some v | none => get u k := by
  induction t with
  | nil => simp [get]
  | cons e t ih =>
    obtain ⟨a, b⟩ := e
    simp only [List.cons_append, get]
    by_cases h : a = k <;> simp [h, ih]

/-- the value of a key after a sequence of `Put`s is the one of the LAST `Put` of that key -/
theorem get_foldl_put : ∀ (gs : List (Bytes × Bytes)) (t0 : Tab) (k : Bytes),
    get (gs.foldl (fun t g => put t g.1 g.2) t0) k =
      match get gs.reverse k with | some v => some v | none => get t0 k
  | [], t0, k => by simp [get]
  | g :: gs, t0, k => by
    simp only [List.foldl_cons, List.reverse_cons]
    rw [get_foldl_put gs (put t0 g.1 g.2) k, get_append]
    cases h : get gs.reverse k with
    | some v => simp
    | none =>
      simp only [get]
      by_cases hk : g.1 = k
      · subst hk; simp [get_put_same]
      · simp [hk, get_put_other t0 g.1 k g.2 hk]

theorem addTag_param (s : SA) (a : Bytes) : (addTag s a).param = s.param := by
  unfold addTag; split <;> rfl

theorem apply_param (s : SA) (g : Bytes × Bytes × Option Bytes) : (apply s g).param = put s.param g.1 g.2.1 := by
  unfold apply
  cases g.2.2 <;> simp [addTag_param]

theorem foldl_apply_param : ∀ (gs : List (Bytes × Bytes × Option Bytes)) (s : SA),
    (gs.foldl apply s).param = (gs.map (fun g => (g.1, g.2.1))).foldl (fun t g => put t g.1 g.2) s.param
  | [], s => rfl
  | g :: gs, s => by
    simp only [List.foldl_cons, List.map_cons]
    rw [foldl_apply_param gs (apply s g), apply_param]

/-! ### well-formed option lists -/

/-- the argv of options `k v*` -/
def render : List (Bytes × List Bytes) → List Bytes
  | [] => []
  | (k, vs) :: r => k :: (vs ++ render r)

def WF (gs : List (Bytes × List Bytes)) : Prop :=
  ∀ g ∈ gs, isVal g.1 = false ∧ g.2.length ≤ 2 ∧ ∀ v ∈ g.2, isVal v = true

theorem group_wf (k : Bytes) (vs rest : List Bytes) (hl : vs.length ≤ 2) (hv : ∀ v ∈ vs, isVal v = true)
    (hr : ∀ w r, rest = w :: r → isVal w = false) :
    group (k :: (vs ++ rest)) = some (k, vs.headD [], vs[1]?, 1 + vs.length) := by
  match vs, hl, hv with
  | [], _, _ =>
    cases rest with
    | nil => simp [group]
    | cons w r => simp [group, hr w r rfl]
  | [v], _, hv =>
    have h1 : isVal v = true := hv v (by simp)
    cases rest with
    | nil => simp [group, h1]
    | cons w r => simp [group, h1, hr w r rfl]
  | [v, v2], _, hv =>
    have h1 : isVal v = true := hv v (by simp)
    have h2 : isVal v2 = true := hv v2 (by simp)
    simp [group, h1, h2]
  | _ :: _ :: _ :: _, hl, _ => simp at hl

theorem render_head (gs : List (Bytes × List Bytes)) (h : WF gs) : ∀ w r, render gs = w :: r → isVal w = false := by
  intro w r e
  cases gs with
  | nil => simp [render] at e
  | cons g gs =>
    obtain ⟨k, vs⟩ := g
    simp only [render, List.cons.injEq] at e
    rw [← e.1]
    exact (h (k, vs) (by simp)).1

/-- argv made of options (each key starts with `-`, each of its ≤ 2 values does not) is cut into exactly
    those options -/
theorem groups_wf : ∀ (gs : List (Bytes × List Bytes)) (f : Nat), WF gs → (render gs).length ≤ f →
    groups f (render gs) = gs.map (fun g => (g.1, g.2.headD [], g.2[1]?))
  | [], f, _, _ => by cases f <;> simp [groups, render, group]
  | (k, vs) :: gs, f, h, hf => by
    have hg := h (k, vs) (by simp)
    have hrest : WF gs := fun g hg' => h g (by simp [hg'])
    cases f with
    | zero => simp [render] at hf
    | succ f =>
      unfold groups
      simp only [render]
      rw [group_wf k vs (render gs) hg.2.1 hg.2.2 (render_head gs hrest)]
      simp only [List.map_cons]
      have e : (k :: (vs ++ render gs)).drop (1 + vs.length) = render gs := by
        rw [Nat.add_comm]; simp
      rw [e, groups_wf gs f hrest (by simp [render] at hf; omega)]

end Ext.ShellArg

namespace Ext.Url
open Ext.Str

theorem splitQ_some (pre q : Bytes) (h : 63 ∉ pre) : splitQ (pre ++ 63 :: q) = (q, pre) := by
  unfold splitQ
  have := indexOf_append_fresh 63 [] pre q h
  simp only [List.append_assoc, List.cons_append, List.nil_append] at this
  rw [this]
  simp

theorem splitQ_none (pre : Bytes) (h : 63 ∉ pre) : splitQ pre = ([], pre) := by
  unfold splitQ; rw [indexOf_single_absent 63 pre h]

theorem splitProto_some (proto rest : Bytes) (h : 58 ∉ proto) :
    splitProto (proto ++ 58 :: 47 :: 47 :: rest) = (proto, rest) := by
  unfold splitProto sepScheme
  have := indexOf_append_fresh 58 [47, 47] proto rest h
  simp only [List.append_assoc, List.cons_append, List.nil_append] at this
  rw [this]
  have e : proto.length + 3 = (proto ++ [58, 47, 47]).length := by simp
  simp only [List.take_left' rfl]
  rw [e]
  have e2 : proto ++ 58 :: 47 :: 47 :: rest = (proto ++ [58, 47, 47]) ++ rest := by simp
  rw [e2, List.drop_left' rfl]

theorem splitPath_some (hp p : Bytes) (h : 47 ∉ hp) : splitPath (hp ++ 47 :: p) = (hp, 47 :: p) := by
  unfold splitPath
  have := indexOf_append_fresh 47 [] hp p h
  simp only [List.append_assoc, List.cons_append, List.nil_append] at this
  rw [this]
  simp

theorem splitPath_none (hp : Bytes) (h : 47 ∉ hp) : splitPath hp = (hp, []) := by
  unfold splitPath; rw [indexOf_single_absent 47 hp h]

theorem parsePort_some (host p : Bytes) (h : 58 ∉ host) : parsePort (host ++ 58 :: p) = (host, p, true) := by
  unfold parsePort
  have := indexOf_append_fresh 58 [] host p h
  simp only [List.append_assoc, List.cons_append, List.nil_append] at this
  rw [this]
  simp

theorem parsePort_none (host : Bytes) (h : 58 ∉ host) : parsePort host = (host, [], false) := by
  unfold parsePort; rw [indexOf_single_absent 58 host h]

end Ext.Url
