/-
  Golib.Ext.UdpClientLemmas — proofs about the batching machine of Golib.Ext.UdpClient:
  frame codec round trip, the refinement of the byte-level machine to the frame-level cut spec,
  conservation (nothing lost ⇒ wire ++ channel = what was handed over), laws of the spec, counters.
  (core Lean only)
-/
import Golib.Ext.UdpClient

namespace Ext.Udp

/-! ### frames -/

theorem encFrame_length (f : Frame) : (encFrame f).length = frameLen f := by
  simp [encFrame, frameLen, Prim.encBytes32]; omega

@[simp] theorem encFrames_nil : encFrames [] = [] := rfl
@[simp] theorem encFrames_cons (f : Frame) (fs : List Frame) :
    encFrames (f :: fs) = encFrame f ++ encFrames fs := by simp [encFrames]
@[simp] theorem size_nil : size [] = 0 := rfl
@[simp] theorem size_cons (f : Frame) (fs : List Frame) : size (f :: fs) = frameLen f + size fs := by
  simp [size]

theorem encFrame_ne_nil (f : Frame) : encFrame f ≠ [] := by simp [encFrame]

theorem encFrames_length (fs : List Frame) : (encFrames fs).length = size fs := by
  induction fs with
  | nil => rfl
  | cons f fs ih => simp [encFrame_length, ih]

theorem encFrames_append (a b : List Frame) : encFrames (a ++ b) = encFrames a ++ encFrames b := by
  simp [encFrames]

theorem encFrames_eq_nil (fs : List Frame) : encFrames fs = [] ↔ fs = [] := by
  cases fs with
  | nil => simp
  | cons f fs => simp [encFrame_ne_nil]

theorem size_append (a b : List Frame) : size (a ++ b) = size a + size b := by
  simp [size]

theorem run_decFrame (f : Frame) (h : f.wf) (r : Bytes) :
    P.run decFrame (encFrame f ++ r) = some (f, r) := by
  obtain ⟨_, h2, h3⟩ := h
  unfold decFrame encFrame
  rw [List.cons_append, P.run_read1, List.append_assoc,
    P.run_bind_some _ _ _ _ _ (Prim.run_rdI 4 f.ver _ h2),
    P.run_bind_some _ _ _ _ _ (Prim.run_decBytes32 _ _ h3)]
  simp [P.run]

theorem parseFuel_succ (n : Nat) (b : Nat) (bs : Bytes) (f : Frame) (r : Bytes)
    (h : P.run decFrame (b :: bs) = some (f, r)) :
    parseFuel (n+1) (b :: bs) = (parseFuel n r).map (f :: ·) := by
  simp [parseFuel, h]

theorem parseFuel_encFrames (fs : List Frame) (h : ∀ f ∈ fs, f.wf) :
    ∀ n, fs.length ≤ n → parseFuel n (encFrames fs) = some fs := by
  induction fs with
  | nil => intro n _; cases n <;> simp [parseFuel]
  | cons f fs ih =>
    intro n hn
    cases n with
    | zero => simp at hn
    | succ n =>
      have hr := run_decFrame f (h f (by simp)) (encFrames fs)
      have hn' : fs.length ≤ n := by simpa using hn
      have ih' := ih (fun g hg => h g (by simp [hg])) n hn'
      rw [encFrames_cons]
      rw [encFrame, List.cons_append] at hr ⊢
      rw [parseFuel_succ _ _ _ _ _ hr, ih']
      rfl

theorem length_le_size (fs : List Frame) : fs.length ≤ size fs := by
  induction fs with
  | nil => simp
  | cons f fs ih => simp [frameLen]; omega

theorem parseDatagram_encFrames (fs : List Frame) (h : ∀ f ∈ fs, f.wf) :
    parseDatagram (encFrames fs) = some fs := by
  unfold parseDatagram
  apply parseFuel_encFrames fs h
  rw [encFrames_length]; exact length_le_size fs

/-! ### refinement: byte-level machine vs frame-level cut -/

structure Rel (s : St) (c : Cut) : Prop where
  isOpen : s.isOpen = true
  notClosed : s.closed = false
  buf : s.buf = encFrames c.cur
  offered : s.offered = c.done.map encFrames

theorem push_some (cfg : Cfg) (s : St) (d : Bytes) (t : St) (h : push cfg s d = some t) :
    s.closed = false ∧ t.isOpen = s.isOpen ∧ t.closed = s.closed ∧ t.buf = s.buf ∧ t.wire = s.wire ∧
    t.packCount = s.packCount ∧ t.chanCount = s.chanCount ∧ t.sendCount = s.sendCount ∧
    t.errCount = s.errCount ∧ t.offered = d :: s.offered ∧
    ((t.chan = s.chan ++ [d] ∧ t.lost = s.lost) ∨ (t.chan = s.chan ∧ t.lost = d :: s.lost)) := by
  unfold push at h
  split at h
  · simp at h
  · split at h <;> simp at h <;> subst h <;> simp_all

theorem push_open (cfg : Cfg) (s : St) (d : Bytes) (h : s.closed = false) :
    ∃ t, push cfg s d = some t := by
  unfold push; simp [h]; split <;> simp

theorem send_rel (cfg : Cfg) (s : St) (c : Cut) (f : Frame) (fl : Bool) (h : Rel s c) :
    Rel (send cfg s f fl) (c.send cfg.limit f fl) := by
  obtain ⟨ho, hc, hb, hof⟩ := h
  rcases s with ⟨isOpen, closed, buf, chan, wire, offered, lost, pc, cc, sc, ec⟩
  rcases c with ⟨done, cur⟩
  simp only at ho hc hb hof
  subst ho hc hb hof
  have e1 : (encFrames cur).isEmpty = cur.isEmpty := by
    cases cur <;> simp [encFrame]
  unfold send push Cut.send Cut.close
  simp only [e1, encFrames_length, encFrame_length]
  cases hcur : cur.isEmpty <;> cases fl <;>
    by_cases h1 : size cur + frameLen f > cfg.limit <;>
    by_cases h2 : chan.length < cfg.chanCap <;>
    by_cases h3 : chan.length + 1 < cfg.chanCap <;>
    simp [h1, h2, h3] <;> constructor <;> simp_all [encFrames_append]

theorem tick_rel (cfg : Cfg) (s : St) (c : Cut) (h : Rel s c) :
    Rel (tick cfg s) c.close := by
  obtain ⟨ho, hc, hb, hof⟩ := h
  rcases s with ⟨isOpen, closed, buf, chan, wire, offered, lost, pc, cc, sc, ec⟩
  rcases c with ⟨done, cur⟩
  simp only at ho hc hb hof
  subst ho hc hb hof
  have e1 : (encFrames cur).isEmpty = cur.isEmpty := by
    cases cur <;> simp [encFrame]
  unfold tick push Cut.close
  simp only [e1]
  cases hcur : cur.isEmpty <;>
    by_cases h2 : chan.length < cfg.chanCap <;>
    simp [h2] <;> constructor <;> simp_all

theorem proc_rel (cfg : Cfg) (s : St) (c : Cut) (h : Rel s c) :
    Rel (proc cfg s) c := by
  obtain ⟨ho, hc, hb, hof⟩ := h
  unfold proc
  split
  · exact ⟨ho, hc, hb, hof⟩
  · split <;> exact ⟨ho, hc, hb, hof⟩

theorem step_rel (cfg : Cfg) (s : St) (c : Cut) (op : Op) (h : Rel s c) (hp : op.plain = true) :
    Rel (step cfg s op) (specStep cfg.limit c op) := by
  cases op with
  | send f fl => exact send_rel cfg s c f fl h
  | sendNil => exact ⟨h.isOpen, h.notClosed, h.buf, h.offered⟩
  | tick => exact tick_rel cfg s c h
  | proc => exact proc_rel cfg s c h
  | shutdown => simp [Op.plain] at hp
  | reopen => simp [Op.plain] at hp

theorem foldl_rel (cfg : Cfg) (ops : List Op) (hp : ∀ op ∈ ops, op.plain = true) :
    ∀ s c, Rel s c → Rel (ops.foldl (step cfg) s) (ops.foldl (specStep cfg.limit) c) := by
  induction ops with
  | nil => intro s c h; exact h
  | cons op ops ih =>
    intro s c h
    simp only [List.foldl_cons]
    exact ih (fun o ho => hp o (by simp [ho])) _ _ (step_rel cfg s c op h (hp op (by simp)))

theorem run_rel (cfg : Cfg) (ops : List Op) (hp : ∀ op ∈ ops, op.plain = true) :
    Rel (run cfg ops) (spec cfg.limit ops) := by
  apply foldl_rel cfg ops hp
  exact ⟨rfl, rfl, rfl, rfl⟩

/-! ### conservation -/

def Inv (s : St) : Prop := s.lost = [] → s.offered.reverse = s.wire.reverse ++ s.chan

theorem drain_lost (cfg : Cfg) (ch : List Bytes) : ∀ w l, (drain cfg ch (w, l)).2 = [] →
    l = [] ∧ (drain cfg ch (w, l)).1 = ch.reverse ++ w := by
  induction ch with
  | nil => intro w l h; simpa [drain] using h
  | cons d rest ih =>
    intro w l h
    unfold drain at h ⊢
    split
    · rename_i hd
      rw [if_pos hd] at h
      obtain ⟨h1, h2⟩ := ih _ _ h
      subst h1
      exact ⟨rfl, by simp [h2]⟩
    · rename_i hd
      rw [if_neg hd] at h
      have := ih _ _ h
      simp at this

theorem drain_suffix (cfg : Cfg) (ch : List Bytes) : ∀ w l, w <:+ (drain cfg ch (w, l)).1 := by
  induction ch with
  | nil => intro w l; simp [drain]
  | cons d rest ih =>
    intro w l
    unfold drain
    split
    · exact List.IsSuffix.trans (List.suffix_cons d w) (ih _ _)
    · exact ih _ _

theorem send_inv (cfg : Cfg) (s : St) (f : Frame) (fl : Bool) (h : Inv s) : Inv (send cfg s f fl) := by
  rcases s with ⟨isOpen, closed, buf, chan, wire, offered, lost, pc, cc, sc, ec⟩
  unfold Inv at h ⊢
  simp only at h
  cases isOpen <;> cases closed <;> cases fl <;> by_cases hb : buf = [] <;>
    by_cases h1 : cfg.limit < buf.length + (encFrame f).length <;>
    by_cases h2 : chan.length < cfg.chanCap <;>
    by_cases h3 : chan.length + 1 < cfg.chanCap <;>
    simp [send, push, hb, h1, h2, h3] <;> simp_all

theorem tick_inv (cfg : Cfg) (s : St) (h : Inv s) : Inv (tick cfg s) := by
  rcases s with ⟨isOpen, closed, buf, chan, wire, offered, lost, pc, cc, sc, ec⟩
  unfold Inv at h ⊢
  simp only at h
  cases isOpen <;> cases closed <;> by_cases hb : buf = [] <;>
    by_cases h2 : chan.length < cfg.chanCap <;>
    simp [tick, push, hb, h2] <;> simp_all

theorem proc_inv (cfg : Cfg) (s : St) (h : Inv s) : Inv (proc cfg s) := by
  rcases s with ⟨isOpen, closed, buf, chan, wire, offered, lost, pc, cc, sc, ec⟩
  unfold Inv at h ⊢
  simp only at h
  unfold proc
  (repeat' split) <;> simp_all

theorem shutdown_inv (cfg : Cfg) (s : St) (h : Inv s) : Inv (shutdown cfg s) := by
  unfold shutdown
  split
  · exact h
  · unfold Inv at h ⊢
    simp only
    intro hl
    have := drain_lost cfg s.chan s.wire s.lost hl
    rw [this.2, h this.1]; simp

theorem step_inv (cfg : Cfg) (s : St) (op : Op) (h : Inv s) : Inv (step cfg s op) := by
  cases op with
  | send f fl => exact send_inv cfg s f fl h
  | sendNil => exact h
  | tick => exact tick_inv cfg s h
  | proc => exact proc_inv cfg s h
  | shutdown => exact shutdown_inv cfg s h
  | reopen => exact h

theorem foldl_inv (cfg : Cfg) (ops : List Op) : ∀ s, Inv s → Inv (ops.foldl (step cfg) s) := by
  induction ops with
  | nil => intro s h; exact h
  | cons op ops ih => intro s h; exact ih _ (step_inv cfg s op h)

/-- nothing was dropped ⇒ what is on the wire followed by what waits in the channel is exactly what was
    handed to the channel, in order (any history, including shutdown / reopen) -/
theorem lost_nil_wire (cfg : Cfg) (ops : List Op) (h : (run cfg ops).lost = []) :
    (run cfg ops).wire.reverse ++ (run cfg ops).chan = (run cfg ops).offered.reverse := by
  have := foldl_inv cfg ops {} (by intro _; rfl)
  exact (this h).symm

theorem send_frame (cfg : Cfg) (s : St) (f : Frame) (fl : Bool) :
    (send cfg s f fl).wire = s.wire ∧ (send cfg s f fl).packCount = s.packCount + 1 ∧
    (send cfg s f fl).sendCount = s.sendCount ∧ (send cfg s f fl).errCount = s.errCount := by
  rcases s with ⟨isOpen, closed, buf, chan, wire, offered, lost, pc, cc, sc, ec⟩
  cases isOpen <;> cases closed <;> cases fl <;> by_cases hb : buf = [] <;>
    by_cases h1 : cfg.limit < buf.length + (encFrame f).length <;>
    by_cases h2 : chan.length < cfg.chanCap <;>
    by_cases h3 : chan.length + 1 < cfg.chanCap <;>
    simp [send, push, hb, h1, h2, h3] <;> simp_all

theorem tick_frame (cfg : Cfg) (s : St) :
    (tick cfg s).wire = s.wire ∧ (tick cfg s).packCount = s.packCount ∧
    (tick cfg s).sendCount = s.sendCount ∧ (tick cfg s).errCount = s.errCount := by
  rcases s with ⟨isOpen, closed, buf, chan, wire, offered, lost, pc, cc, sc, ec⟩
  cases isOpen <;> cases closed <;> by_cases hb : buf = [] <;>
    by_cases h2 : chan.length < cfg.chanCap <;>
    simp [tick, push, hb, h2] <;> simp_all

/-- the wire only ever grows at its newest end -/
theorem wire_suffix (cfg : Cfg) (s : St) (op : Op) : s.wire <:+ (step cfg s op).wire := by
  cases op with
  | send f fl => simp [step, (send_frame cfg s f fl).1]
  | sendNil => simp [step]
  | tick => simp [step, (tick_frame cfg s).1]
  | proc =>
    simp only [step]; unfold proc
    (repeat' split) <;> simp
  | shutdown =>
    simp only [step]; unfold shutdown
    split
    · simp
    · exact drain_suffix cfg _ _ _
  | reopen => simp [step, reopen]

/-! ### laws of the spec -/

def flat (c : Cut) : List Frame := c.done.reverse.flatten ++ c.cur

theorem flat_close (c : Cut) : flat c.close = flat c := by
  unfold Cut.close
  split
  · rfl
  · simp [flat]

theorem flat_send (l : Nat) (c : Cut) (f : Frame) (fl : Bool) : flat (c.send l f fl) = flat c ++ [f] := by
  have e : ∀ c1 : Cut, flat { c1 with cur := c1.cur ++ [f] } = flat c1 ++ [f] := by
    intro c1; simp [flat]
  unfold Cut.send
  simp only []
  split <;> split <;> simp [flat_close, e]

theorem flat_step (l : Nat) (c : Cut) (op : Op) : flat (specStep l c op) = flat c ++ accepted [op] := by
  cases op <;> simp [specStep, accepted, flat_close, flat_send]

theorem accepted_cons (op : Op) (ops : List Op) : accepted (op :: ops) = accepted [op] ++ accepted ops := by
  cases op <;> simp [accepted]

theorem flat_foldl (l : Nat) (ops : List Op) : ∀ c, flat (ops.foldl (specStep l) c) = flat c ++ accepted ops := by
  induction ops with
  | nil => intro c; simp [accepted]
  | cons op ops ih =>
    intro c
    rw [List.foldl_cons, ih, flat_step, accepted_cons op ops, List.append_assoc]

theorem spec_flatten (l : Nat) (ops : List Op) :
    (spec l ops).done.reverse.flatten ++ (spec l ops).cur = accepted ops := by
  have := flat_foldl l ops {}
  simpa [flat, spec] using this

def Good (l : Nat) (c : Cut) : Prop :=
  (∀ g ∈ c.done, g ≠ [] ∧ (size g ≤ l ∨ g.length = 1)) ∧ (size c.cur ≤ l ∨ c.cur.length = 1)

theorem good_close (l : Nat) (c : Cut) (h : Good l c) : Good l c.close := by
  rcases c with ⟨done, cur⟩
  unfold Good at h ⊢
  unfold Cut.close
  cases cur with
  | nil => simpa using h
  | cons a cur => simp_all

theorem good_send (l : Nat) (c : Cut) (f : Frame) (fl : Bool) (h : Good l c) : Good l (c.send l f fl) := by
  rcases c with ⟨done, cur⟩
  unfold Good at h ⊢
  simp only at h
  cases cur with
  | nil => cases fl <;> simp_all [Cut.send, Cut.close]
  | cons a cur =>
    by_cases h1 : l < frameLen a + size cur + frameLen f <;> cases fl <;>
      simp [Cut.send, Cut.close, size_append, h1] <;> simp_all <;> omega

theorem good_step (l : Nat) (c : Cut) (op : Op) (h : Good l c) : Good l (specStep l c op) := by
  cases op <;> simp [specStep, good_close, good_send, h]

theorem good_foldl (l : Nat) (ops : List Op) : ∀ c, Good l c → Good l (ops.foldl (specStep l) c) := by
  induction ops with
  | nil => intro c h; exact h
  | cons op ops ih => intro c h; exact ih _ (good_step l c op h)

theorem spec_good (l : Nat) (ops : List Op) : Good l (spec l ops) :=
  good_foldl l ops {} ⟨by simp, by simp⟩

theorem spec_nonempty (l : Nat) (ops : List Op) : ∀ g ∈ (spec l ops).done, g ≠ [] :=
  fun g hg => ((spec_good l ops).1 g hg).1

/-- a datagram exceeds the limit only when it is a single frame -/
theorem spec_size (l : Nat) (ops : List Op) :
    (∀ g ∈ (spec l ops).done, size g ≤ l ∨ g.length = 1) ∧
    (size (spec l ops).cur ≤ l ∨ (spec l ops).cur.length = 1) :=
  ⟨fun g hg => ((spec_good l ops).1 g hg).2, (spec_good l ops).2⟩

/-! ### counters -/

def nSends : List Op → Nat
  | [] => 0
  | .send _ _ :: r => nSends r + 1
  | .sendNil :: r => nSends r + 1
  | _ :: r => nSends r

theorem step_packCount (cfg : Cfg) (s : St) (op : Op) :
    (step cfg s op).packCount = s.packCount + nSends [op] := by
  cases op with
  | send f fl => simp [step, nSends, (send_frame cfg s f fl).2.1]
  | sendNil => simp [step, nSends]
  | tick => simp [step, nSends, (tick_frame cfg s).2.1]
  | proc => simp only [step, nSends]; unfold proc; (repeat' split) <;> simp
  | shutdown => simp only [step, nSends]; unfold shutdown; split <;> simp
  | reopen => simp [step, nSends, reopen]

theorem nSends_cons (op : Op) (ops : List Op) : nSends (op :: ops) = nSends [op] + nSends ops := by
  cases op <;> simp [nSends] <;> omega

theorem foldl_packCount (cfg : Cfg) (ops : List Op) :
    ∀ s, (ops.foldl (step cfg) s).packCount = s.packCount + nSends ops := by
  induction ops with
  | nil => intro s; simp [nSends]
  | cons op ops ih =>
    intro s
    rw [List.foldl_cons, ih, step_packCount, nSends_cons op ops]; omega

theorem packCount_eq (cfg : Cfg) (ops : List Op) : (run cfg ops).packCount = nSends ops := by
  have := foldl_packCount cfg ops {}
  simpa [run] using this

def ChanInv (s : St) : Prop := s.isOpen = true ∧ s.closed = false ∧ s.chanCount = s.offered.length

theorem send_chanInv (cfg : Cfg) (s : St) (f : Frame) (fl : Bool) (h : ChanInv s) :
    ChanInv (send cfg s f fl) := by
  rcases s with ⟨isOpen, closed, buf, chan, wire, offered, lost, pc, cc, sc, ec⟩
  unfold ChanInv at h ⊢
  simp only at h
  obtain ⟨rfl, rfl, rfl⟩ := h
  cases fl <;> by_cases hb : buf = [] <;>
    by_cases h1 : cfg.limit < buf.length + (encFrame f).length <;>
    by_cases h2 : chan.length < cfg.chanCap <;>
    by_cases h3 : chan.length + 1 < cfg.chanCap <;>
    simp [send, push, hb, h1, h2, h3]

theorem tick_chanInv (cfg : Cfg) (s : St) (h : ChanInv s) : ChanInv (tick cfg s) := by
  rcases s with ⟨isOpen, closed, buf, chan, wire, offered, lost, pc, cc, sc, ec⟩
  unfold ChanInv at h ⊢
  simp only at h
  obtain ⟨rfl, rfl, rfl⟩ := h
  by_cases hb : buf = [] <;>
    by_cases h2 : chan.length < cfg.chanCap <;>
    simp [tick, push, hb, h2]

theorem step_chanInv (cfg : Cfg) (s : St) (op : Op) (hp : op.plain = true) (h : ChanInv s) :
    ChanInv (step cfg s op) := by
  cases op with
  | send f fl => exact send_chanInv cfg s f fl h
  | sendNil => exact h
  | tick => exact tick_chanInv cfg s h
  | proc => simp only [step]; unfold proc; (repeat' split) <;> exact h
  | shutdown => simp [Op.plain] at hp
  | reopen => simp [Op.plain] at hp

theorem foldl_chanInv (cfg : Cfg) (ops : List Op) (hp : ∀ op ∈ ops, op.plain = true) :
    ∀ s, ChanInv s → ChanInv (ops.foldl (step cfg) s) := by
  induction ops with
  | nil => intro s h; exact h
  | cons op ops ih =>
    intro s h
    exact ih (fun o ho => hp o (by simp [ho])) _ (step_chanInv cfg s op (hp op (by simp)) h)

theorem chanCount_eq (cfg : Cfg) (ops : List Op) (hp : ∀ op ∈ ops, op.plain = true) :
    (run cfg ops).chanCount = (run cfg ops).offered.length :=
  (foldl_chanInv cfg ops hp {} ⟨rfl, rfl, rfl⟩).2.2

def SendInv (s : St) : Prop := s.sendCount = s.wire.length + s.errCount

theorem step_sendInv (cfg : Cfg) (s : St) (op : Op) (hp : op.plain = true) (h : SendInv s) :
    SendInv (step cfg s op) := by
  unfold SendInv at h ⊢
  cases op with
  | send f fl =>
    obtain ⟨e1, _, e2, e3⟩ := send_frame cfg s f fl
    simp only [step, e1, e2, e3, h]
  | sendNil => exact h
  | tick =>
    obtain ⟨e1, _, e2, e3⟩ := tick_frame cfg s
    simp only [step, e1, e2, e3, h]
  | proc => simp only [step]; unfold proc; (repeat' split) <;> simp [h] <;> omega
  | shutdown => simp [Op.plain] at hp
  | reopen => simp [Op.plain] at hp

theorem foldl_sendInv (cfg : Cfg) (ops : List Op) (hp : ∀ op ∈ ops, op.plain = true) :
    ∀ s, SendInv s → SendInv (ops.foldl (step cfg) s) := by
  induction ops with
  | nil => intro s h; exact h
  | cons op ops ih =>
    intro s h
    exact ih (fun o ho => hp o (by simp [ho])) _ (step_sendInv cfg s op (hp op (by simp)) h)

/-- sendCount counts the process() iterations that took a datagram: those written plus those the socket refused -/
theorem sendCount_eq (cfg : Cfg) (ops : List Op) (hp : ∀ op ∈ ops, op.plain = true) :
    (run cfg ops).sendCount = (run cfg ops).wire.length + (run cfg ops).errCount :=
  foldl_sendInv cfg ops hp {} rfl

end Ext.Udp
