/-
  Golib.Ext.UdpClientLemmas — proofs about the batching machine of Golib.Ext.UdpClient:
  frame codec round trip, the refinement of the byte-level machine to the frame-level cut spec,
  conservation (nothing lost ⇒ wire ++ channel = what was handed over), laws of the spec, counters.
  (core Lean only)
-/
import Golib.Ext.UdpClient

set_option profiler true
set_option profiler.threshold 500

namespace Ext.Udp

/-! ### frames -/

theorem encFrame_length (f : Frame) : (encFrame f).length = frameLen f := by
  simp [encFrame, frameLen, Prim.encBytes32]; omega

@[simp] theorem encFrames_nil : encFrames [] = [] := rfl
@[simp] theorem encFrames_cons (f : Frame) (fs : List Frame) :
    encFrames (f :: fs) = encFrame f ++ encFrames fs := by simp [encFrames]
@[simp] theorem size_nil : size [] = 0 := rfl
@[simp] theorem size_cons (f : Frame) (fs : List Frame) : size (f :: fs) = frameLen f + size fs := by
  simp [size]

theorem encFrame_ne_nil (f : Frame) : encFrame f ≠ [] := by simp [encFrame]

theorem encFrames_length (fs : List Frame) : (encFrames fs).length = size fs := by
  induction fs with
  | nil => rfl
  | cons f fs ih => simp [encFrame_length, ih]

theorem encFrames_append (a b : List Frame) : encFrames (a ++ b) = encFrames a ++ encFrames b := by
  simp [encFrames]

theorem encFrames_eq_nil (fs : List Frame) : encFrames fs = [] ↔ fs = [] := by
  cases fs with
  | nil => simp
  | cons f fs => simp [encFrame_ne_nil]

theorem size_append (a b : List Frame) : size (a ++ b) = size a + size b := by
  simp [size]

theorem run_decFrame (f : Frame) (h : f.wf) (r : Bytes) :
    P.run decFrame (encFrame f ++ r) = some (f, r) := by
  obtain ⟨_, h2, h3⟩ := h
  unfold decFrame encFrame
  rw [List.cons_append, P.run_read1, List.append_assoc,
    P.run_bind_some _ _ _ _ _ (Prim.run_rdI 4 f.ver _ h2),
    P.run_bind_some _ _ _ _ _ (Prim.run_decBytes32 _ _ h3)]
  simp [P.run]

theorem parseFuel_succ (n : Nat) (b : Nat) (bs : Bytes) (f : Frame) (r : Bytes)
    (h : P.run decFrame (b :: bs) = some (f, r)) :
    parseFuel (n+1) (b :: bs) = (parseFuel n r).map (f :: ·) := by
  simp [parseFuel, h]

theorem parseFuel_encFrames (fs : List Frame) (h : ∀ f ∈ fs, f.wf) :
    ∀ n, fs.length ≤ n → parseFuel n (encFrames fs) = some fs := by
  induction fs with
  | nil => intro n _; cases n <;> simp [parseFuel]
  | cons f fs ih =>
    intro n hn
    cases n with
    | zero => simp at hn
    | succ n =>
      have hr := run_decFrame f (h f (by simp)) (encFrames fs)
      have hn' : fs.length ≤ n := by simpa using hn
      have ih' := ih (fun g hg => h g (by simp [hg])) n hn'
      rw [encFrames_cons]
      rw [encFrame, List.cons_append] at hr ⊢
      rw [parseFuel_succ _ _ _ _ _ hr, ih']
      rfl

theorem length_le_size (fs : List Frame) : fs.length ≤ size fs := by
  induction fs with
  | nil => simp
  | cons f fs ih => simp [frameLen]; omega

theorem parseDatagram_encFrames (fs : List Frame) (h : ∀ f ∈ fs, f.wf) :
    parseDatagram (encFrames fs) = some fs := by
  unfold parseDatagram
  apply parseFuel_encFrames fs h
  rw [encFrames_length]; exact length_le_size fs

/-! ### refinement: byte-level machine vs frame-level cut -/

structure Rel (s : St) (c : Cut) : Prop where
  isOpen : s.isOpen = true
  notClosed : s.closed = false
  buf : s.buf = encFrames c.cur
  offered : s.offered = c.done.map encFrames

theorem push_some (cfg : Cfg) (s : St) (d : Bytes) (t : St) (h : push cfg s d = some t) :
    s.closed = false ∧ t.isOpen = s.isOpen ∧ t.closed = s.closed ∧ t.buf = s.buf ∧ t.wire = s.wire ∧
    t.packCount = s.packCount ∧ t.chanCount = s.chanCount ∧ t.sendCount = s.sendCount ∧
    t.errCount = s.errCount ∧ t.offered = d :: s.offered ∧
    ((t.chan = s.chan ++ [d] ∧ t.lost = s.lost) ∨ (t.chan = s.chan ∧ t.lost = d :: s.lost)) := by
  unfold push at h
  split at h
  · simp at h
  · split at h <;> simp at h <;> subst h <;> simp_all

theorem push_open (cfg : Cfg) (s : St) (d : Bytes) (h : s.closed = false) :
    ∃ t, push cfg s d = some t := by
  unfold push; simp [h]; split <;> simp

theorem send_rel (cfg : Cfg) (s : St) (c : Cut) (f : Frame) (fl : Bool) (h : Rel s c) :
    Rel (send cfg s f fl) (c.send cfg.limit f fl) := by
  obtain ⟨ho, hc, hb, hof⟩ := h
  rcases s with ⟨isOpen, closed, buf, chan, wire, offered, lost, pc, cc, sc, ec⟩
  rcases c with ⟨done, cur⟩
  simp only at ho hc hb hof
  subst ho hc hb hof
  have e1 : (encFrames cur).isEmpty = cur.isEmpty := by
    cases cur <;> simp [encFrame]
  unfold send push Cut.send Cut.close
  simp only [e1, encFrames_length, encFrame_length]
  cases hcur : cur.isEmpty <;> cases fl <;>
    by_cases h1 : size cur + frameLen f > cfg.limit <;>
    by_cases h2 : chan.length < cfg.chanCap <;>
    simp [h1, h2, hcur, encFrames_append] <;> constructor <;> simp_all [encFrames_append]

theorem tick_rel (cfg : Cfg) (s : St) (c : Cut) (h : Rel s c) :
    Rel (tick cfg s) c.close := by
  obtain ⟨ho, hc, hb, hof⟩ := h
  rcases s with ⟨isOpen, closed, buf, chan, wire, offered, lost, pc, cc, sc, ec⟩
  rcases c with ⟨done, cur⟩
  simp only at ho hc hb hof
  subst ho hc hb hof
  have e1 : (encFrames cur).isEmpty = cur.isEmpty := by
    cases cur <;> simp [encFrame]
  unfold tick push Cut.close
  simp only [e1]
  cases hcur : cur.isEmpty <;>
    by_cases h2 : chan.length < cfg.chanCap <;>
    simp [h2, hcur] <;> constructor <;> simp_all

theorem proc_rel (cfg : Cfg) (s : St) (c : Cut) (h : Rel s c) :
    Rel (proc cfg s) c := by
  obtain ⟨ho, hc, hb, hof⟩ := h
  unfold proc
  split
  · exact ⟨ho, hc, hb, hof⟩
  · split <;> exact ⟨ho, hc, hb, hof⟩

theorem step_rel (cfg : Cfg) (s : St) (c : Cut) (op : Op) (h : Rel s c) (hp : op.plain = true) :
    Rel (step cfg s op) (specStep cfg.limit c op) := by
  cases op with
  | send f fl => exact send_rel cfg s c f fl h
  | sendNil => exact ⟨h.isOpen, h.notClosed, h.buf, h.offered⟩
  | tick => exact tick_rel cfg s c h
  | proc => exact proc_rel cfg s c h
  | shutdown => simp [Op.plain] at hp
  | reopen => simp [Op.plain] at hp

theorem foldl_rel (cfg : Cfg) (ops : List Op) (hp : ∀ op ∈ ops, op.plain = true) :
    ∀ s c, Rel s c → Rel (ops.foldl (step cfg) s) (ops.foldl (specStep cfg.limit) c) := by
  induction ops with
  | nil => intro s c h; exact h
  | cons op ops ih =>
    intro s c h
    simp only [List.foldl_cons]
    exact ih (fun o ho => hp o (by simp [ho])) _ _ (step_rel cfg s c op h (hp op (by simp)))

theorem run_rel (cfg : Cfg) (ops : List Op) (hp : ∀ op ∈ ops, op.plain = true) :
    Rel (run cfg ops) (spec cfg.limit ops) := by
  apply foldl_rel cfg ops hp
  exact ⟨rfl, rfl, rfl, rfl⟩

end Ext.Udp
