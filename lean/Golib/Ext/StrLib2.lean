/-
  Golib.Ext.StrLib2 — library functions that the string utilities of X05 call and that Golib.Ext.StrLib (X02)
  does not have yet.  Byte strings exactly as Go indexes them; where Go decodes UTF-8 (range over a string,
  bufio.ReadRune, strings.FieldsFunc, strings.ToLower/ToUpper, strings.Split with an empty separator) the text is
  cut into *rune chunks* with Go's decoder: a well-formed sequence of 1..4 bytes, or ONE ill-formed byte that
  decodes to U+FFFD (RuneError, width 1).

    runeAt / chunks        utf8.DecodeRuneInString, `for _, r := range s`
    norm                   the bytes `string(r)` / WriteRune(r) writes back: the chunk, or EF BF BD for an ill-formed byte
    toLower / toUpper      strings.ToLower / ToUpper restricted to texts whose non-ASCII code points are caseless
                           (ASCII letters folded; an ill-formed byte is rewritten to U+FFFD as strings.Map does)
    lastIndexOf            strings.LastIndex
    split / join           strings.Split / strings.Join;  replaceAll = strings.Replace(s, old, new, -1), old ≠ ""
    slice / sliceFrom      s[a:b] / s[a:] with Go's bounds check (none = run-time panic)

  Modelled from the library documentation and source (go1.23), not verified; compared by harness/x05.
  (core Lean only; imported by the driver)
-/
import Golib.Ext.StrLib

namespace Ext.Str

/-! ### slicing with Go's bounds checks -/

/-- `s[a:b]`; `none` = "slice bounds out of range" -/
def slice (s : Bytes) (a b : Nat) : Option Bytes :=
  if a ≤ b ∧ b ≤ s.length then some ((s.take b).drop a) else none

/-- `s[a:]` -/
def sliceFrom (s : Bytes) (a : Nat) : Option Bytes :=
  if a ≤ s.length then some (s.drop a) else none

/-! ### UTF-8 decoding as Go does it -/

def isCont (b : Nat) : Bool := 0x80 ≤ b && b ≤ 0xBF

/-- width of the well-formed sequence at the head of `s`, 0 if the first byte is ill-formed there
    (utf8.DecodeRune: accept ranges exclude overlong forms, surrogates and values above U+10FFFF) -/
def seqWidth : Bytes → Nat
  | [] => 0
  | b0 :: r =>
    if b0 < 0x80 then 1
    else if 0xC2 ≤ b0 ∧ b0 ≤ 0xDF then
      match r with
      | b1 :: _ => if isCont b1 then 2 else 0
      | _ => 0
    else if 0xE0 ≤ b0 ∧ b0 ≤ 0xEF then
      match r with
      | b1 :: b2 :: _ =>
        let lo := if b0 = 0xE0 then 0xA0 else 0x80
        let hi := if b0 = 0xED then 0x9F else 0xBF
        if lo ≤ b1 ∧ b1 ≤ hi ∧ isCont b2 then 3 else 0
      | _ => 0
    else if 0xF0 ≤ b0 ∧ b0 ≤ 0xF4 then
      match r with
      | b1 :: b2 :: b3 :: _ =>
        let lo := if b0 = 0xF0 then 0x90 else 0x80
        let hi := if b0 = 0xF4 then 0x8F else 0xBF
        if lo ≤ b1 ∧ b1 ≤ hi ∧ isCont b2 ∧ isCont b3 then 4 else 0
      | _ => 0
    else 0

/-- U+FFFD in UTF-8 -/
def runeError : Bytes := [0xEF, 0xBF, 0xBD]

/-- one decoded rune: the bytes it occupies in the text (`raw`, 1..4 bytes) and the bytes that writing the
    rune back produces (`norm`: equal to `raw` unless the byte was ill-formed) -/
structure Chunk where
  raw : Bytes
  norm : Bytes
  deriving DecidableEq, Repr

def runeAt (s : Bytes) : Chunk :=
  let w := seqWidth s
  if w = 0 then ⟨s.take 1, runeError⟩ else ⟨s.take w, s.take w⟩

def chunksF : Nat → Bytes → List Chunk
  | 0, _ => []
  | _ + 1, [] => []
  | f + 1, c :: cs =>
    let k := runeAt (c :: cs)
    k :: chunksF f ((c :: cs).drop k.raw.length)

/-- `for _, r := range s`: the runes of `s` in order -/
def chunks (s : Bytes) : List Chunk := chunksF s.length s

/-- two runes are equal iff their written-back bytes are (UTF-8 is injective on code points) -/
def Chunk.sameRune (a b : Chunk) : Bool := a.norm == b.norm

def lowerB (b : Nat) : Nat := if 65 ≤ b ∧ b ≤ 90 then b + 32 else b
def upperB (b : Nat) : Nat := if 97 ≤ b ∧ b ≤ 122 then b - 32 else b

def mapRunes (f : Nat → Nat) (s : Bytes) : Bytes :=
  (chunks s).flatMap (fun k => if k.norm.length = 1 then k.norm.map f else k.norm)

/-- `strings.ToLower` on a text whose non-ASCII code points have no lower-case mapping -/
def toLower (s : Bytes) : Bytes := mapRunes lowerB s
/-- `strings.ToUpper`, same domain -/
def toUpper (s : Bytes) : Bytes := mapRunes upperB s

/-! ### strings.LastIndex / Split / Join / Replace -/

/-- `strings.LastIndex(s, sep)`: the first occurrence of the reversed separator in the reversed text -/
def lastIndexOf (sep s : Bytes) : Option Nat :=
  (indexOf sep.reverse s.reverse).map (fun i => s.length - sep.length - i)

def splitF : Nat → Bytes → Bytes → List Bytes
  | 0, _, s => [s]
  | f + 1, sep, s =>
    match indexOf sep s with
    | none => [s]
    | some i => s.take i :: splitF f sep (s.drop (i + sep.length))

/-- `strings.Split(s, sep)`: with an empty separator the text is exploded into its UTF-8 sequences
    (the bytes of the text itself: an ill-formed byte stays as it is) -/
def split (s sep : Bytes) : List Bytes :=
  if sep.isEmpty then (chunks s).map (·.raw) else splitF s.length sep s

/-- `strings.Join` -/
def join (sep : Bytes) : List Bytes → Bytes
  | [] => []
  | [x] => x
  | x :: y :: r => x ++ sep ++ join sep (y :: r)

/-- `strings.Replace(s, old, new, -1)` for a non-empty `old` -/
def replaceAll (s old new : Bytes) : Bytes := join new (splitF s.length old s)

end Ext.Str
