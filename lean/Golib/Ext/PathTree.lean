/-
  Golib.Ext.PathTree — CodeModel of util/pathutil/PathTree.go and the abstract association it is
  measured against.

  The Go structure is a first-child / next-sibling tree of ENTRY records (node, value, right, child,
  parent).  `Tree` is exactly that shape (the parent pointer is only used by the enumerator, which the
  Go code never starts — see `Enumer`).  `insSib` / `findT` follow `PathTree.insert` / `PathTree.find`
  branch by branch, including

    * InsertArray ignores nil/empty paths, nil values and **paths of one segment**;
    * a fresh literal segment is linked in as the FIRST child of its parent, a fresh `*` at the right end;
    * `count` (what Size() returns) is incremented once per created ENTRY, except for the first ENTRY
      created below an existing leaf (branch `cur.child == nil` of `insert`);
    * `find` takes the first sibling that `Include`s the segment (`*` matches every non-empty segment)
      and never backtracks.

  Core Lean only; the driver imports this file.
-/

namespace Ext.PathTree

abbrev Seg := String
abbrev Path := List Seg

/-- a chain of sibling ENTRYs: `nil` is the Go nil pointer -/
inductive Tree (V : Type) where
  | nil : Tree V
  | node (name : Seg) (val : Option V) (child right : Tree V) : Tree V
  deriving Repr

variable {V : Type}

def Tree.isNil : Tree V → Bool
  | .nil => true
  | .node .. => false

/-- `cur.node = n` followed by `expand(cur, path, value)`: one ENTRY per remaining segment, the value at the end.
    `right` is what the first new ENTRY's `right` points to. -/
def chain : Seg → Path → V → Tree V → Tree V
  | n, [], v, right => .node n (some v) .nil right
  | n, m :: r, v, right => .node n none (chain m r v .nil) right

/-- `insert(p, cur, path, value)` walking the sibling chain `cur` for segment `n`, remaining segments `rest`.
    Result: new chain, returned old value, number of `count++` executed.  `none`: the walk fell off the right end
    with a literal (non-`*`) segment — the caller links a fresh chain in front of `p.child`. -/
def insSib : Tree V → Seg → Path → V → Option (Tree V × Option V × Nat)
  | .nil, n, rest, v =>
      if n = "*" then some (chain n rest v .nil, none, 1 + rest.length) else none
  | .node name val child right, n, rest, v =>
      if n = name then
        match rest with
        | [] => some (.node name (some v) child right, val, 0)
        | m :: r =>
          if child.isNil then
            -- cur.child == nil: the new child is NOT counted, the ENTRYs below it are
            some (.node name val (chain m r v .nil) right, none, r.length)
          else
            match insSib child m r v with
            | some (c', old, k) => some (.node name val c' right, old, k)
            | none => some (.node name val (chain m r v child) right, none, 1 + r.length)
      else
        match insSib right n rest v with
        | some (r', old, k) => some (.node name val child r', old, k)
        | none => none

/-- the PathTree object: `Top.child` and `count` -/
structure PT (V : Type) where
  top : Tree V := .nil
  count : Nat := 0

/-- `InsertArray(paths, value)`; a nil value is `none` -/
def insertArray (t : PT V) (paths : Path) (v : Option V) : PT V × Option V :=
  match v, paths with
  | none, _ => (t, none)
  | some _, [] => (t, none)
  | some _, [_] => (t, none)
  | some v, n :: m :: r =>
    if t.top.isNil then
      ({ top := chain n (m :: r) v .nil, count := t.count + (2 + r.length) }, none)
    else
      match insSib t.top n (m :: r) v with
      | some (t', old, k) => ({ top := t', count := t.count + k }, old)
      | none => ({ top := chain n (m :: r) v t.top, count := t.count + (2 + r.length) }, none)

/-- `ENTRY.Include` -/
def incl (name v : Seg) : Bool := (name == "*" && v != "") || name == v

/-- `find(cur, m)` -/
def findT : Tree V → Seg → Path → Option V
  | .nil, _, _ => none
  | .node name val child right, n, rest =>
      if incl name n then
        match rest with
        | [] => val
        | m :: r => findT child m r
      else findT right n rest

/-- `FindArray(path)` -/
def findArray (t : PT V) : Path → Option V
  | [] => none
  | n :: rest => findT t.top n rest

/-- `strings.Split(s, "/")` for the one-byte separator -/
def splitPath (s : String) : Path := s.splitOn "/"

/-- `Insert(path, value)` -/
def insert (t : PT V) (s : String) (v : Option V) : PT V × Option V :=
  if s = "" then (t, none) else insertArray t (splitPath s) v

/-- `Find(path)` -/
def find (t : PT V) (s : String) : Option V :=
  if s = "" then none else findArray t (splitPath s)

def size (t : PT V) : Nat := t.count

/-- `Paths()/Values()/Entries()` build `NewPathTreeEnumer(type)`, whose `entry` is never set: the cursor of a
    new enumerator is nil whatever the tree holds. -/
structure Enumer where
  started : Bool := false      -- `entry != nil`
  deriving Repr, DecidableEq

def enumerOf (_t : PT V) : Enumer := {}
def Enumer.hasMore (e : Enumer) : Bool := e.started
/-- what a caller collects with `for e.HasMoreElements() { e.NextElement(top) }` -/
def Enumer.drain (e : Enumer) (all : List α) : List α := if e.started then all else []

/-- number of ENTRY records of a chain (with everything below) -/
def Tree.nodes : Tree V → Nat
  | .nil => 0
  | .node _ _ c r => 1 + c.nodes + r.nodes

/-- every (path, value) stored in the chain, pre-order (the order of the Java enumerator this was ported from);
    `pre` is the reversed path of the parent -/
def Tree.flatten : Tree V → Path → List (Path × V)
  | .nil, _ => []
  | .node name val c r, pre =>
      (match val with | some v => [((name :: pre).reverse, v)] | none => []) ++
      c.flatten (name :: pre) ++ r.flatten pre

/-! ### history runner -/

/-- one operation of a history -/
inductive Op (V : Type) where
  | ins (p : Path) (v : Option V)
  | get (p : Path)
  | size
  | enum

inductive Out (V : Type) where
  | val (v : Option V)
  | n (k : Nat)
  | more (b : Bool)
  deriving DecidableEq

def step (t : PT V) : Op V → PT V × Out V
  | .ins p v => let (t', o) := insertArray t p v; (t', .val o)
  | .get p => (t, .val (findArray t p))
  | .size => (t, .n t.count)
  | .enum => (t, .more (enumerOf t).hasMore)

def run (t : PT V) : List (Op V) → PT V × List (Out V)
  | [] => (t, [])
  | op :: ops =>
    let (t', o) := step t op
    let (t'', os) := run t' ops
    (t'', o :: os)

/-! ### the abstract association: a log of the effective inserts, newest first -/

abbrev Log (V : Type) := List (Path × V)

/-- value stored under exactly this path -/
def Log.get (l : Log V) (p : Path) : Option V := (l.find? (fun e => e.1 == p)).map (·.2)

/-- some stored path starts with `q` -/
def Log.has (l : Log V) (q : Path) : Bool := l.any (fun e => q.isPrefixOf e.1)

/-- an insert takes effect iff the value is non-nil and the path has at least two segments -/
def Log.ins (l : Log V) (p : Path) (v : Option V) : Log V :=
  match v with
  | some v => if 2 ≤ p.length then (p, v) :: l else l
  | none => l

/-- Greedy resolution of a looked-up path against the stored paths, segment by segment: the literal segment
    if some stored path continues with it, else `*` if the segment is non-empty and some stored path continues
    with `*`, else nothing; no backtracking.  `has q` / `lk q` are asked about paths relative to the segments
    already resolved. -/
def specFind (has : Path → Bool) (lk : Path → Option V) : Path → Option V
  | [] => none
  | [n] =>
      if has [n] then lk [n]
      else if n ≠ "" ∧ has ["*"] then lk ["*"]
      else none
  | n :: m :: r =>
      if has [n] then specFind (fun q => has (n :: q)) (fun q => lk (n :: q)) (m :: r)
      else if n ≠ "" ∧ has ["*"] then specFind (fun q => has ("*" :: q)) (fun q => lk ("*" :: q)) (m :: r)
      else none

/-- the abstract machine -/
def absStep (l : Log V) : Op V → Log V × Out V
  | .ins p v => (l.ins p v, .val (match v with | some _ => if 2 ≤ p.length then l.get p else none | none => none))
  | .get p => (l, .val (specFind l.has l.get p))
  | .size => (l, .n 0)      -- Size() is not a function of the abstract state (see X01.finding_size_*)
  | .enum => (l, .more false)

end Ext.PathTree
