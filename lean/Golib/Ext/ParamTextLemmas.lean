/-
  Golib.Ext.ParamTextLemmas — structure of the token list built by `NewParamTextBrace`.
  (proof file; not imported by the driver)
-/
import Golib.Ext.ParamText

namespace Ext.ParamText
open Ext.Str

theorem flatten_cons (sb eb : Bytes) (t : Tok) (ts : List Tok) :
    flatten sb eb (t :: ts) = t.src sb eb ++ flatten sb eb ts := by
  simp [flatten]

/-- an iteration that finishes has emitted the whole remaining text -/
theorem step_done (sb eb text : Bytes) (ts : List Tok) (h : step sb eb text = .done ts) :
    flatten sb eb ts = text := by
  unfold step at h
  cases h1 : indexOf sb text with
  | none => simp only [h1] at h; cases h; simp [flatten, Tok.src]
  | some p =>
    cases p with
    | zero =>
      simp only [h1] at h
      cases h2 : indexOf eb (text.drop sb.length) with
      | none => simp only [h2] at h; cases h; simp [flatten, Tok.src]
      | some n => simp [h2] at h
    | succ p => simp [h1] at h

/-- one iteration cuts a prefix off: nothing is lost or invented -/
theorem step_more (sb eb text : Bytes) (t : Tok) (rest : Bytes) (h : step sb eb text = .more t rest) :
    t.src sb eb ++ rest = text := by
  unfold step at h
  cases h1 : indexOf sb text with
  | none => simp [h1] at h
  | some p =>
    cases p with
    | zero =>
      simp only [h1] at h
      have e1 := indexOf_some h1
      simp only [List.take_zero, List.nil_append, Nat.zero_add] at e1
      cases h2 : indexOf eb (text.drop sb.length) with
      | none => simp [h2] at h
      | some n =>
        simp only [h2, Step.more.injEq] at h
        have e2 := indexOf_some h2
        rw [← h.1, ← h.2]
        simp only [Tok.src]
        rw [List.append_assoc, List.append_assoc]
        rw [List.append_assoc] at e2
        rw [← e2]; exact e1.symm
    | succ p =>
      simp only [h1, Step.more.injEq] at h
      rw [← h.1, ← h.2]
      simp only [Tok.src]
      exact List.take_append_drop _ _

/-- progress: unless both braces are empty an iteration that continues has consumed something -/
theorem step_shrinks (sb eb text : Bytes) (hne : text ≠ []) (hb : sb ≠ [] ∨ eb ≠ []) (t : Tok) (rest : Bytes)
    (h : step sb eb text = .more t rest) : rest.length < text.length := by
  have hpos : 0 < text.length := by
    cases text with
    | nil => exact absurd rfl hne
    | cons _ _ => simp
  unfold step at h
  cases h1 : indexOf sb text with
  | none => simp [h1] at h
  | some p =>
    cases p with
    | zero =>
      simp only [h1] at h
      cases h2 : indexOf eb (text.drop sb.length) with
      | none => simp [h2] at h
      | some n =>
        simp only [h2, Step.more.injEq] at h
        rw [← h.2]
        simp only [List.length_drop]
        have e1 := congrArg List.length (indexOf_some h1)
        have e2 := congrArg List.length (indexOf_some h2)
        simp only [List.length_append, List.length_take, List.length_drop] at e1 e2
        have : 0 < sb.length ∨ 0 < eb.length := by
          rcases hb with h | h
          · left; cases sb with
            | nil => exact absurd rfl h
            | cons _ _ => simp
          · right; cases eb with
            | nil => exact absurd rfl h
            | cons _ _ => simp
        omega
    | succ p =>
      simp only [h1, Step.more.injEq] at h
      rw [← h.2]
      simp only [List.length_drop]
      omega

theorem parseF_flatten (sb eb : Bytes) : ∀ (f : Nat) (text : Bytes) (ts : List Tok),
    parseF sb eb f text = some ts → flatten sb eb ts = text
  | _, [], ts, h => by
    unfold parseF at h
    cases h; simp [flatten]
  | 0, _ :: _, ts, h => by simp [parseF] at h
  | f + 1, c :: cs, ts, h => by
    unfold parseF at h
    cases hst : step sb eb (c :: cs) with
    | done ts' =>
      have hs := step_done sb eb (c :: cs) ts' hst
      simp only [hst] at h
      cases h; exact hs
    | more t rest =>
      have hs := step_more sb eb (c :: cs) t rest hst
      simp only [hst] at h
      cases hr : parseF sb eb f rest with
      | none => simp [hr] at h
      | some ts' =>
        simp only [hr, Option.map_some, Option.some.injEq] at h
        rw [← h, flatten_cons, parseF_flatten sb eb f rest ts' hr]
        exact hs

theorem parseF_total (sb eb : Bytes) (hb : sb ≠ [] ∨ eb ≠ []) : ∀ (f : Nat) (text : Bytes),
    text.length < f → (parseF sb eb f text).isSome
  | _, [], _ => by simp [parseF]
  | 0, _ :: _, h => by simp at h
  | f + 1, c :: cs, h => by
    unfold parseF
    cases hst : step sb eb (c :: cs) with
    | done ts' => simp
    | more t rest =>
      have hl := step_shrinks sb eb (c :: cs) (by simp) hb t rest hst
      have := parseF_total sb eb hb f rest (by omega)
      simp only
      cases hr : parseF sb eb f rest with
      | none => simp [hr] at this
      | some _ => simp

/-- with both braces empty an iteration on a non-empty text emits a reference named "" and leaves the
    text as it was -/
theorem step_emptyBraces (text : Bytes) : step [] [] text = .more (.ref []) text := by
  unfold step
  simp [indexOf_nil_sep]

theorem parseF_emptyBraces : ∀ (f : Nat) (c : Nat) (cs : Bytes), parseF [] [] f (c :: cs) = none
  | 0, _, _ => by simp [parseF]
  | f + 1, c, cs => by
    unfold parseF
    rw [step_emptyBraces]
    simp [parseF_emptyBraces f c cs]

/-! ### the expected parse of a text assembled from segments -/

/-- `lit₁ sb name₁ eb lit₂ sb name₂ eb … tail` -/
def build (sb eb : Bytes) : List (Bytes × Bytes) → Bytes → Bytes
  | [], tail => tail
  | (l, n) :: r, tail => l ++ (sb ++ (n ++ (eb ++ build sb eb r tail)))

def litTok (l : Bytes) : List Tok := if l = [] then [] else [.lit l]

def expect : List (Bytes × Bytes) → Bytes → List Tok
  | [], tail => litTok tail
  | (l, n) :: r, tail => litTok l ++ .ref n :: expect r tail

theorem step_lit (c : Nat) (t : Bytes) (eb : Bytes) (x : Nat) (l : Bytes) (hl : c ∉ x :: l) (rest : Bytes) :
    step (c :: t) eb ((x :: l) ++ ((c :: t) ++ rest)) = .more (.lit (x :: l)) ((c :: t) ++ rest) := by
  unfold step
  have h := indexOf_append_fresh c t (x :: l) rest hl
  rw [List.append_assoc] at h
  rw [h]
  simp only [List.length_cons]
  rw [List.take_left' (by simp), List.drop_left' (by simp)]

theorem step_ref (c : Nat) (t : Bytes) (d : Nat) (u : Bytes) (n : Bytes) (hn : d ∉ n) (rest : Bytes) :
    step (c :: t) (d :: u) ((c :: t) ++ (n ++ ((d :: u) ++ rest))) = .more (.ref n) rest := by
  unfold step
  have h0 : indexOf (c :: t) ((c :: t) ++ (n ++ ((d :: u) ++ rest))) = some 0 := by
    have := indexOf_append_fresh c t [] (n ++ ((d :: u) ++ rest)) (by simp)
    simpa using this
  rw [h0]
  simp only
  rw [List.drop_left' rfl]
  have h := indexOf_append_fresh d u n rest hn
  rw [List.append_assoc] at h
  rw [h]
  simp only
  have e : n.length + (d :: u).length = (n ++ (d :: u)).length := by simp
  rw [List.take_left' rfl, e, ← List.append_assoc, List.drop_left' rfl]

theorem step_tail (c : Nat) (t : Bytes) (eb : Bytes) (tail : Bytes) (h : c ∉ tail) :
    step (c :: t) eb tail = .done [.lit tail] := by
  unfold step
  rw [indexOf_absent c t tail h]

theorem build_length_pos (sb eb : Bytes) (l n : Bytes) (r : List (Bytes × Bytes)) (tail : Bytes) :
    (build sb eb ((l, n) :: r) tail).length = l.length + (sb.length + (n.length + (eb.length + (build sb eb r tail).length))) := by
  simp [build]

theorem parseF_segments (c : Nat) (t : Bytes) (d : Nat) (u : Bytes) :
    ∀ (segs : List (Bytes × Bytes)) (tail : Bytes) (f : Nat),
    (∀ s ∈ segs, c ∉ s.1 ∧ d ∉ s.2) → c ∉ tail →
    (build (c :: t) (d :: u) segs tail).length < f →
    parseF (c :: t) (d :: u) f (build (c :: t) (d :: u) segs tail) = some (expect segs tail)
  | [], tail, f, _, ht, hf => by
    simp only [build] at hf ⊢
    cases tail with
    | nil => cases f <;> simp [parseF, expect, litTok]
    | cons x xs =>
      cases f with
      | zero => simp at hf
      | succ f =>
        unfold parseF
        rw [step_tail c t (d :: u) (x :: xs) ht]
        simp [expect, litTok]
  | (l, n) :: r, tail, f, hs, ht, hf => by
    have hln := hs (l, n) (by simp)
    have hr : ∀ s ∈ r, c ∉ s.1 ∧ d ∉ s.2 := fun s h => hs s (by simp [h])
    rw [build_length_pos] at hf
    -- the reference iteration, from a text that starts with the start brace
    have refStep : ∀ g, (c :: t).length + (n.length + ((d :: u).length + (build (c :: t) (d :: u) r tail).length)) < g →
        parseF (c :: t) (d :: u) g ((c :: t) ++ (n ++ ((d :: u) ++ build (c :: t) (d :: u) r tail)))
          = some (.ref n :: expect r tail) := by
      intro g hg
      cases g with
      | zero => simp at hg
      | succ g =>
        simp only [List.cons_append]
        unfold parseF
        have := step_ref c t d u n hln.2 (build (c :: t) (d :: u) r tail)
        simp only [List.cons_append] at this
        rw [this]
        simp only
        rw [parseF_segments c t d u r tail g hr ht (by simp only [List.length_cons] at hg; omega)]
        simp
    cases l with
    | nil =>
      simp only [build, List.nil_append, expect, litTok, if_true]
      exact refStep f (by simpa using hf)
    | cons x l =>
      cases f with
      | zero => simp at hf
      | succ f =>
        simp only [build, expect, litTok, List.cons_ne_nil, if_false]
        have hstep := step_lit c t (d :: u) x l hln.1 (n ++ ((d :: u) ++ build (c :: t) (d :: u) r tail))
        simp only [List.cons_append] at hstep ⊢
        unfold parseF
        rw [hstep]
        simp only
        have := refStep f (by simp only [List.length_cons] at hf ⊢; omega)
        simp only [List.cons_append] at this
        rw [this]
        simp

end Ext.ParamText
