/-
  Golib.Ext.PathTreeLemmas — the first-child / next-sibling trie of `Golib.Ext.PathTree` refines the
  abstract association (`Log`, `specFind`, `absStep`).
-/
import Golib.Ext.PathTree

namespace Ext.PathTree

variable {V : Type}

set_option linter.unusedSimpArgs false

/-! ### exact-match observers on a sibling chain -/

/-- some sibling of the chain is named `n` -/
def has1 : Tree V → Seg → Bool
  | .nil, _ => false
  | .node name _ _ right, n => if n = name then true else has1 right n

/-- child chain of the first sibling named `n` -/
def sub : Tree V → Seg → Tree V
  | .nil, _ => .nil
  | .node name _ child right, n => if n = name then child else sub right n

/-- value stored under exactly the path `n :: rest` -/
def lookup : Tree V → Seg → Path → Option V
  | .nil, _, _ => none
  | .node name val _ right, n, [] => if n = name then val else lookup right n []
  | .node name _ child right, n, m :: r => if n = name then lookup child m r else lookup right n (m :: r)

/-- the ENTRY reached by exactly the path `n :: rest` exists -/
def hasNode : Tree V → Seg → Path → Bool
  | .nil, _, _ => false
  | .node name _ _ right, n, [] => if n = name then true else hasNode right n []
  | .node name _ child right, n, m :: r => if n = name then hasNode child m r else hasNode right n (m :: r)

/-- sibling names pairwise distinct, `*` only as the last sibling; recursively -/
def WF : Tree V → Prop
  | .nil => True
  | .node name _ child right =>
      has1 right name = false ∧ (name = "*" → right = .nil) ∧ WF child ∧ WF right

theorem hasNode_nil_path (t : Tree V) (n : Seg) : hasNode t n [] = has1 t n := by
  induction t with
  | nil => rfl
  | node name val c r _ ihr => simp only [hasNode, has1, ihr]

theorem hasNode_cons (t : Tree V) (n m : Seg) (r : Path) :
    hasNode t n (m :: r) = hasNode (sub t n) m r := by
  induction t with
  | nil => simp [hasNode, sub]
  | node name val c rt _ ihr => simp only [hasNode, sub, ihr]; split <;> rfl

theorem lookup_cons (t : Tree V) (n m : Seg) (r : Path) :
    lookup t n (m :: r) = lookup (sub t n) m r := by
  induction t with
  | nil => simp [lookup, sub]
  | node name val c rt _ ihr => simp only [lookup, sub, ihr]; split <;> rfl

theorem lookup_of_has1_false {t : Tree V} {n : Seg} (h : has1 t n = false) (rest : Path) :
    lookup t n rest = none := by
  induction t with
  | nil => cases rest <;> rfl
  | node name val c r _ ihr =>
    simp only [has1] at h
    by_cases hn : n = name
    · simp [hn] at h
    · simp only [hn, if_false] at h
      cases rest <;> simp [lookup, hn, ihr h]

theorem hasNode_of_has1_false {t : Tree V} {n : Seg} (h : has1 t n = false) (rest : Path) :
    hasNode t n rest = false := by
  induction t with
  | nil => cases rest <;> rfl
  | node name val c r _ ihr =>
    simp only [has1] at h
    by_cases hn : n = name
    · simp [hn] at h
    · simp only [hn, if_false] at h
      cases rest <;> simp [hasNode, hn, ihr h]

theorem WF_sub {t : Tree V} (h : WF t) (n : Seg) : WF (sub t n) := by
  induction t with
  | nil => trivial
  | node name val c r _ ihr =>
    simp only [WF] at h
    simp only [sub]
    split
    · exact h.2.2.1
    · exact ihr h.2.2.2

/-! ### fresh chains -/

theorem has1_chain (n : Seg) (rest : Path) (v : V) (right : Tree V) (n' : Seg) :
    has1 (chain n rest v right) n' = if n' = n then true else has1 right n' := by
  cases rest <;> simp [chain, has1]

theorem lookup_chain (rest : Path) : ∀ (n : Seg) (v : V) (right : Tree V) (n' : Seg) (rest' : Path),
    lookup (chain n rest v right) n' rest' =
      if n' = n then (if rest' = rest then some v else none) else lookup right n' rest' := by
  induction rest with
  | nil =>
    intro n v right n' rest'
    cases rest' <;> simp [chain, lookup]
  | cons m r ih =>
    intro n v right n' rest'
    cases rest' with
    | nil => simp [chain, lookup]
    | cons m' r' =>
      simp only [chain, lookup, ih]
      by_cases h1 : n' = n <;> by_cases h2 : m' = m <;> by_cases h3 : r' = r <;> simp [h1, h2, h3]

theorem hasNode_chain (rest : Path) : ∀ (n : Seg) (v : V) (right : Tree V) (n' : Seg) (rest' : Path),
    hasNode (chain n rest v right) n' rest' =
      if n' = n then rest'.isPrefixOf rest else hasNode right n' rest' := by
  induction rest with
  | nil =>
    intro n v right n' rest'
    cases rest' <;> simp [chain, hasNode]
  | cons m r ih =>
    intro n v right n' rest'
    cases rest' with
    | nil => simp [chain, hasNode]
    | cons m' r' =>
      simp only [chain, hasNode, ih]
      by_cases h1 : n' = n <;> by_cases h2 : m' = m <;> simp [h1, h2, List.isPrefixOf]

theorem nodes_chain (rest : Path) : ∀ (n : Seg) (v : V) (right : Tree V),
    (chain n rest v right).nodes = 1 + rest.length + right.nodes := by
  induction rest with
  | nil => intro n v right; simp [chain, Tree.nodes]
  | cons m r ih => intro n v right; simp only [chain, Tree.nodes, ih, List.length_cons]; omega

theorem WF_chain (rest : Path) : ∀ (n : Seg) (v : V) (right : Tree V),
    has1 right n = false → (n = "*" → right = .nil) → WF right → WF (chain n rest v right) := by
  induction rest with
  | nil => intro n v right h1 h2 h3; exact ⟨h1, h2, trivial, h3⟩
  | cons m r ih =>
    intro n v right h1 h2 h3
    exact ⟨h1, h2, ih m v .nil rfl (fun _ => rfl) trivial, h3⟩

/-! ### `insSib` as an in-place update `upd` plus the caller's prepend -/

/-- in-place part of `insert`: the walk along the sibling chain that ends at the sibling named `n`, or appends a
    new one at the right end -/
def upd : Tree V → Seg → Path → V → Tree V × Option V × Nat
  | .nil, n, rest, v => (chain n rest v .nil, none, 1 + rest.length)
  | .node name val child right, n, rest, v =>
    if n = name then
      match rest with
      | [] => (.node name (some v) child right, val, 0)
      | m :: r =>
        if child.isNil then (.node name val (chain m r v .nil) right, none, r.length)
        else if (has1 child m || m == "*") = true then
          (.node name val (upd child m r v).1 right, (upd child m r v).2.1, (upd child m r v).2.2)
        else (.node name val (chain m r v child) right, none, 1 + r.length)
    else
      (.node name val child (upd right n rest v).1, (upd right n rest v).2.1, (upd right n rest v).2.2)

theorem insSib_eq (t : Tree V) : ∀ (n : Seg) (rest : Path) (v : V),
    insSib t n rest v = if (has1 t n || n == "*") = true then some (upd t n rest v) else none := by
  induction t with
  | nil => intro n rest v; simp [insSib, upd, has1]
  | node name val child right ihc ihr =>
    intro n rest v
    by_cases hn : n = name
    · subst hn
      cases rest with
      | nil => simp [insSib, upd, has1]
      | cons m r =>
        by_cases hc : child.isNil = true
        · simp [insSib, upd, has1, hc]
        · by_cases hb : (has1 child m || m == "*") = true
          · simp [insSib, upd, has1, hc, ihc m r v, hb]
          · simp [insSib, upd, has1, hc, ihc m r v, hb]
    · by_cases hb : (has1 right n || n == "*") = true
      · simp [insSib, upd, has1, hn, ihr n rest v, hb]
      · simp [insSib, has1, hn, ihr n rest v, hb]

/-- what every caller of `insSib` makes of its result -/
def ins (t : Tree V) (n : Seg) (rest : Path) (v : V) : Tree V × Option V × Nat :=
  if (has1 t n || n == "*") = true then upd t n rest v else (chain n rest v t, none, 1 + rest.length)

theorem ins_eq (t : Tree V) (n : Seg) (rest : Path) (v : V) :
    ins t n rest v =
      match insSib t n rest v with
      | some r => r
      | none => (chain n rest v t, none, 1 + rest.length) := by
  rw [insSib_eq]; unfold ins; split <;> rfl

theorem ins_nil (n : Seg) (rest : Path) (v : V) :
    ins (.nil : Tree V) n rest v = (chain n rest v .nil, none, 1 + rest.length) := by
  unfold ins; split <;> rfl

theorem upd_self_nil (name : Seg) (val : Option V) (c r : Tree V) (v : V) :
    upd (.node name val c r) name [] v = (.node name (some v) c r, val, 0) := by
  simp [upd]

theorem isNil_eq {t : Tree V} (h : t.isNil = true) : t = .nil := by
  cases t with
  | nil => rfl
  | node => simp [Tree.isNil] at h

theorem upd_self_cons (name : Seg) (val : Option V) (c r : Tree V) (m : Seg) (rs : Path) (v : V) :
    (upd (.node name val c r) name (m :: rs) v).1 = .node name val (ins c m rs v).1 r ∧
    (upd (.node name val c r) name (m :: rs) v).2.1 = (ins c m rs v).2.1 ∧
    (upd (.node name val c r) name (m :: rs) v).2.2 ≤ (ins c m rs v).2.2 := by
  by_cases hc : c.isNil = true
  · have := isNil_eq hc; subst this
    simp [upd, ins_nil, Tree.isNil]
  · by_cases hb : (has1 c m || m == "*") = true
    · simp [upd, ins, hc, hb]
    · simp [upd, ins, hc, hb]

theorem upd_ne {n name : Seg} (hn : n ≠ name) (val : Option V) (c r : Tree V) (rest : Path) (v : V) :
    upd (.node name val c r) n rest v =
      (.node name val c (upd r n rest v).1, (upd r n rest v).2.1, (upd r n rest v).2.2) := by
  simp [upd, hn]

/-! ### insert lemmas -/

theorem cond_false {t : Tree V} {n : Seg} (h : ¬ (has1 t n || n == "*") = true) :
    has1 t n = false ∧ n ≠ "*" := by
  simpa using h

/-- the shape of every insert lemma: what `upd` does to an observation carries over to `ins` -/
theorem lookup_ins_of_upd (t : Tree V) (n : Seg) (rest : Path) (v : V)
    (h : ∀ n' rest', lookup (upd t n rest v).1 n' rest' =
      if n' = n ∧ rest' = rest then some v else lookup t n' rest') (n' : Seg) (rest' : Path) :
    lookup (ins t n rest v).1 n' rest' = if n' = n ∧ rest' = rest then some v else lookup t n' rest' := by
  unfold ins
  split
  · exact h n' rest'
  · rename_i hc
    have h1 := (cond_false hc).1
    simp only [lookup_chain]
    by_cases hn : n' = n
    · subst hn
      by_cases hr : rest' = rest
      · simp [hr]
      · simp [hr, lookup_of_has1_false h1]
    · simp [hn]

theorem lookup_upd (t : Tree V) : ∀ (n : Seg) (rest : Path) (v : V) (n' : Seg) (rest' : Path),
    lookup (upd t n rest v).1 n' rest' = if n' = n ∧ rest' = rest then some v else lookup t n' rest' := by
  induction t with
  | nil =>
    intro n rest v n' rest'
    simp only [upd, lookup_chain]
    by_cases h1 : n' = n <;> by_cases h2 : rest' = rest <;> simp [h1, h2, lookup]
  | node name val c r ihc ihr =>
    intro n rest v n' rest'
    by_cases hn : n = name
    · subst hn
      cases rest with
      | nil =>
        rw [upd_self_nil]
        cases rest' <;> by_cases h1 : n' = n <;> simp [lookup, h1]
      | cons m rs =>
        rw [(upd_self_cons n val c r m rs v).1]
        have hi := lookup_ins_of_upd c m rs v (ihc m rs v)
        cases rest' with
        | nil => simp [lookup]
        | cons m' r' =>
          simp only [lookup, hi]
          by_cases h1 : n' = n <;> simp [h1]
    · rw [upd_ne hn]
      cases rest' with
      | nil =>
        simp only [lookup, ihr]
        by_cases h1 : n' = name
        · have : ¬ name = n := fun h => hn h.symm
          simp [h1, this]
        · simp [h1]
      | cons m' r' =>
        simp only [lookup, ihr]
        by_cases h1 : n' = name
        · have : ¬ name = n := fun h => hn h.symm
          simp [h1, this]
        · simp [h1]

theorem lookup_ins (t : Tree V) (n : Seg) (rest : Path) (v : V) (n' : Seg) (rest' : Path) :
    lookup (ins t n rest v).1 n' rest' = if n' = n ∧ rest' = rest then some v else lookup t n' rest' :=
  lookup_ins_of_upd t n rest v (lookup_upd t n rest v) n' rest'

/-- the returned old value -/
theorem old_upd (t : Tree V) : ∀ (n : Seg) (rest : Path) (v : V),
    (upd t n rest v).2.1 = lookup t n rest ∧ (ins t n rest v).2.1 = lookup t n rest := by
  induction t with
  | nil => intro n rest v; simp [ins_nil, upd, lookup]
  | node name val c r ihc ihr =>
    intro n rest v
    have hu : (upd (.node name val c r) n rest v).2.1 = lookup (.node name val c r) n rest := by
      by_cases hn : n = name
      · subst hn
        cases rest with
        | nil => simp [upd_self_nil, lookup]
        | cons m rs => rw [(upd_self_cons n val c r m rs v).2.1, (ihc m rs v).2]; simp [lookup]
      · rw [upd_ne hn]
        cases rest <;> simp [lookup, hn, (ihr n _ v).1]
    refine ⟨hu, ?_⟩
    unfold ins
    split
    · exact hu
    · rename_i hc
      simp [lookup_of_has1_false (cond_false hc).1]

theorem old_ins (t : Tree V) (n : Seg) (rest : Path) (v : V) : (ins t n rest v).2.1 = lookup t n rest :=
  (old_upd t n rest v).2

/-- the ENTRYs that exist after an insert -/
theorem hasNode_ins_of_upd (t : Tree V) (n : Seg) (rest : Path) (v : V)
    (h : ∀ n' rest', hasNode (upd t n rest v).1 n' rest' =
      (hasNode t n' rest' || (n' :: rest').isPrefixOf (n :: rest))) (n' : Seg) (rest' : Path) :
    hasNode (ins t n rest v).1 n' rest' = (hasNode t n' rest' || (n' :: rest').isPrefixOf (n :: rest)) := by
  unfold ins
  split
  · exact h n' rest'
  · rename_i hc
    have h1 := (cond_false hc).1
    simp only [hasNode_chain]
    by_cases hn : n' = n
    · subst hn
      simp [hasNode_of_has1_false h1, List.isPrefixOf]
    · simp [hn, List.isPrefixOf]

theorem hasNode_upd (t : Tree V) : ∀ (n : Seg) (rest : Path) (v : V) (n' : Seg) (rest' : Path),
    hasNode (upd t n rest v).1 n' rest' = (hasNode t n' rest' || (n' :: rest').isPrefixOf (n :: rest)) := by
  induction t with
  | nil =>
    intro n rest v n' rest'
    simp only [upd, hasNode_chain]
    by_cases h1 : n' = n <;> simp [h1, hasNode, List.isPrefixOf]
  | node name val c r ihc ihr =>
    intro n rest v n' rest'
    by_cases hn : n = name
    · subst hn
      cases rest with
      | nil =>
        rw [upd_self_nil]
        cases rest' <;> by_cases h1 : n' = n <;> simp [hasNode, h1, List.isPrefixOf]
      | cons m rs =>
        rw [(upd_self_cons n val c r m rs v).1]
        have hi := hasNode_ins_of_upd c m rs v (ihc m rs v)
        cases rest' with
        | nil => by_cases h1 : n' = n <;> simp [hasNode, h1, List.isPrefixOf]
        | cons m' r' =>
          simp only [hasNode, hi]
          by_cases h1 : n' = n <;> simp [h1, List.isPrefixOf]
    · rw [upd_ne hn]
      have hn' : ¬ name = n := fun h => hn h.symm
      cases rest' with
      | nil =>
        simp only [hasNode, ihr]
        by_cases h1 : n' = name <;> simp [h1, hn', List.isPrefixOf]
      | cons m' r' =>
        simp only [hasNode, ihr]
        by_cases h1 : n' = name <;> simp [h1, hn', List.isPrefixOf]

theorem hasNode_ins (t : Tree V) (n : Seg) (rest : Path) (v : V) (n' : Seg) (rest' : Path) :
    hasNode (ins t n rest v).1 n' rest' = (hasNode t n' rest' || (n' :: rest').isPrefixOf (n :: rest)) :=
  hasNode_ins_of_upd t n rest v (hasNode_upd t n rest v) n' rest'

/-- sibling names after the in-place walk -/
theorem has1_upd (t : Tree V) : ∀ (n : Seg) (rest : Path) (v : V) (n' : Seg),
    has1 (upd t n rest v).1 n' = (has1 t n' || decide (n' = n)) := by
  induction t with
  | nil => intro n rest v n'; by_cases h : n' = n <;> simp [upd, has1_chain, has1, h]
  | node name val c r _ ihr =>
    intro n rest v n'
    by_cases hn : n = name
    · subst hn
      cases rest with
      | nil => rw [upd_self_nil]; by_cases h : n' = n <;> simp [has1, h]
      | cons m rs => rw [(upd_self_cons n val c r m rs v).1]; by_cases h : n' = n <;> simp [has1, h]
    · rw [upd_ne hn]
      simp only [has1, ihr]
      by_cases h : n' = name <;> simp [h]

/-- well-formedness is preserved -/
theorem WF_ins_of_upd (t : Tree V) (n : Seg) (rest : Path) (v : V) (hw : WF t)
    (h : (has1 t n || n == "*") = true → WF (upd t n rest v).1) : WF (ins t n rest v).1 := by
  unfold ins
  split
  · rename_i hc; exact h hc
  · rename_i hc
    have h1 := cond_false hc
    exact WF_chain rest n v t h1.1 (fun h => absurd h h1.2) hw

theorem WF_upd (t : Tree V) : ∀ (n : Seg) (rest : Path) (v : V), WF t →
    (has1 t n || n == "*") = true → WF (upd t n rest v).1 := by
  induction t with
  | nil =>
    intro n rest v _ _
    exact WF_chain rest n v .nil rfl (fun _ => rfl) trivial
  | node name val c r ihc ihr =>
    intro n rest v hw hc
    obtain ⟨w1, w2, w3, w4⟩ := hw
    by_cases hn : n = name
    · subst hn
      cases rest with
      | nil => rw [upd_self_nil]; exact ⟨w1, w2, w3, w4⟩
      | cons m rs =>
        rw [(upd_self_cons n val c r m rs v).1]
        exact ⟨w1, w2, WF_ins_of_upd c m rs v w3 (ihc m rs v w3), w4⟩
    · rw [upd_ne hn]
      have hc' : (has1 r n || n == "*") = true := by simpa [has1, hn] using hc
      have hn' : ¬ name = n := fun h => hn h.symm
      refine ⟨?_, ?_, w3, ihr n rest v w4 hc'⟩
      · rw [has1_upd, w1]; simp [hn']
      · intro hs
        have hr := w2 hs
        subst hr
        subst hs
        simp [has1, hn] at hc'

theorem WF_ins (t : Tree V) (n : Seg) (rest : Path) (v : V) (hw : WF t) : WF (ins t n rest v).1 :=
  WF_ins_of_upd t n rest v hw (WF_upd t n rest v hw)

/-- `count` increments never exceed the number of ENTRYs created -/
theorem cnt_upd (t : Tree V) : ∀ (n : Seg) (rest : Path) (v : V),
    (upd t n rest v).2.2 + t.nodes ≤ (upd t n rest v).1.nodes ∧
    (ins t n rest v).2.2 + t.nodes ≤ (ins t n rest v).1.nodes := by
  induction t with
  | nil => intro n rest v; simp [ins_nil, upd, nodes_chain, Tree.nodes]
  | node name val c r ihc ihr =>
    intro n rest v
    have hu : (upd (.node name val c r) n rest v).2.2 + (Tree.node name val c r).nodes
        ≤ (upd (.node name val c r) n rest v).1.nodes := by
      by_cases hn : n = name
      · subst hn
        cases rest with
        | nil => simp [upd_self_nil, Tree.nodes]
        | cons m rs =>
          have h3 := (upd_self_cons n val c r m rs v).2.2
          have h4 := (ihc m rs v).2
          rw [(upd_self_cons n val c r m rs v).1]
          simp only [Tree.nodes]
          omega
      · rw [upd_ne hn]
        have h4 := (ihr n rest v).1
        simp only [Tree.nodes]
        omega
    refine ⟨hu, ?_⟩
    unfold ins
    split
    · exact hu
    · simp only [nodes_chain]; omega

theorem cnt_ins (t : Tree V) (n : Seg) (rest : Path) (v : V) :
    (ins t n rest v).2.2 + t.nodes ≤ (ins t n rest v).1.nodes := (cnt_upd t n rest v).2

/-! ### `find` is the greedy resolution of the spec -/

/-- `specFind` asks `has` / `lk` only about non-empty relative paths -/
theorem specFind_congr (p : Path) : ∀ (has has' : Path → Bool) (lk lk' : Path → Option V),
    (∀ a b, has (a :: b) = has' (a :: b)) → (∀ a b, lk (a :: b) = lk' (a :: b)) →
    specFind has lk p = specFind has' lk' p := by
  induction p with
  | nil => intros; rfl
  | cons n rest ih =>
    intro has has' lk lk' h1 h2
    cases rest with
    | nil => simp only [specFind, h1, h2]
    | cons m r =>
      simp only [specFind]
      rw [h1 n [], h1 "*" [],
        ih (fun q => has (n :: q)) (fun q => has' (n :: q)) (fun q => lk (n :: q)) (fun q => lk' (n :: q))
          (fun a b => h1 n (a :: b)) (fun a b => h2 n (a :: b)),
        ih (fun q => has ("*" :: q)) (fun q => has' ("*" :: q)) (fun q => lk ("*" :: q))
          (fun q => lk' ("*" :: q)) (fun a b => h1 "*" (a :: b)) (fun a b => h2 "*" (a :: b))]

/-- where `find` goes on after it has settled on the sibling named `s` -/
def cont (t : Tree V) (s : Seg) : Path → Option V
  | [] => lookup t s []
  | m :: r => findT (sub t s) m r

theorem cont_node_self (name : Seg) (val : Option V) (c r : Tree V) (rest : Path) :
    cont (.node name val c r) name rest = match rest with | [] => val | m :: r' => findT c m r' := by
  cases rest <;> simp [cont, lookup, sub]

theorem cont_node_ne {s name : Seg} (h : s ≠ name) (val : Option V) (c r : Tree V) (rest : Path) :
    cont (.node name val c r) s rest = cont r s rest := by
  cases rest <;> simp [cont, lookup, sub, h]

/-- one level of `find` on a well-formed sibling chain: the literal sibling if there is one, else `*` -/
theorem findT_step (t : Tree V) : WF t → ∀ (n : Seg) (rest : Path),
    findT t n rest =
      if has1 t n = true then cont t n rest
      else if n ≠ "" ∧ has1 t "*" = true then cont t "*" rest
      else none := by
  induction t with
  | nil => intro _ n rest; simp [findT, has1]
  | node name val c r _ ihr =>
    intro hw n rest
    obtain ⟨w1, w2, w3, w4⟩ := hw
    have hf : findT (.node name val c r) n rest =
        if incl name n = true then cont (.node name val c r) name rest else findT r n rest := by
      rw [cont_node_self]; cases rest <;> simp [findT]
    rw [hf]
    by_cases hn : n = name
    · subst hn; simp [incl, has1]
    · have hn' : ¬ name = n := fun h => hn h.symm
      by_cases hs : name = "*"
      · subst hs
        have := w2 rfl
        subst this
        by_cases he : n = ""
        · subst he; simp [incl, has1, findT]
        · simp [incl, he, hn, has1]
      · have hs' : ¬ "*" = name := fun h => hs h.symm
        have hi : incl name n = false := by simp [incl, hs, hn']
        rw [hi, ihr w4]
        simp [has1, hn, hs', cont_node_ne hn, cont_node_ne hs']

/-- the relative-path observers handed to `specFind` -/
def hasP (t : Tree V) : Path → Bool
  | [] => false
  | a :: b => hasNode t a b

def lkP (t : Tree V) : Path → Option V
  | [] => none
  | a :: b => lookup t a b

theorem findT_eq_spec : ∀ (rest : Path) (t : Tree V) (n : Seg), WF t →
    findT t n rest = specFind (hasP t) (lkP t) (n :: rest) := by
  intro rest
  induction rest with
  | nil =>
    intro t n hw
    rw [findT_step t hw]
    simp only [specFind, hasP, lkP, hasNode_nil_path, cont]
  | cons m r ih =>
    intro t n hw
    have e : ∀ s : Seg, specFind (fun q => hasP t (s :: q)) (fun q => lkP t (s :: q)) (m :: r) =
        specFind (hasP (sub t s)) (lkP (sub t s)) (m :: r) := fun s =>
      specFind_congr _ _ _ _ _ (fun a b => hasNode_cons t s a b) (fun a b => lookup_cons t s a b)
    rw [findT_step t hw]
    simp only [specFind]
    rw [e n, e "*"]
    simp only [hasP, hasNode_nil_path, cont]
    rw [ih (sub t n) m (WF_sub hw n), ih (sub t "*") m (WF_sub hw "*")]

/-! ### the log -/

theorem Log.get_cons (p : Path) (v : V) (l : Log V) (q : Path) :
    Log.get ((p, v) :: l) q = if q = p then some v else Log.get l q := by
  unfold Log.get
  simp only [List.find?_cons]
  by_cases h : q = p
  · subst h; simp
  · have hb : (p == q) = false := by
      simpa using fun e : p = q => h e.symm
    simp [h, hb]

theorem Log.has_cons (p : Path) (v : V) (l : Log V) (q : Path) :
    Log.has ((p, v) :: l) q = (q.isPrefixOf p || Log.has l q) := by
  simp [Log.has, List.any_cons]

/-- every prefix of a stored path is known to `has` -/
theorem Log.has_of_get {l : Log V} {p : Path} {v : V} (h : l.get p = some v) (q : Path)
    (hq : q.isPrefixOf p = true) : l.has q = true := by
  induction l with
  | nil => simp [Log.get] at h
  | cons e l ih =>
    obtain ⟨p', v'⟩ := e
    rw [Log.get_cons] at h
    rw [Log.has_cons]
    by_cases hp : p = p'
    · subst hp; simp [hq]
    · simp only [hp, if_false] at h
      simp [ih h]

theorem Log.len_of_get {l : Log V} {p : Path} {v : V} (h : l.get p = some v) : ∃ e ∈ l, e.1 = p := by
  induction l with
  | nil => simp [Log.get] at h
  | cons e l ih =>
    obtain ⟨p', v'⟩ := e
    rw [Log.get_cons] at h
    by_cases hp : p = p'
    · exact ⟨(p', v'), List.mem_cons_self, hp.symm⟩
    · simp only [hp, if_false] at h
      obtain ⟨e, he, hpe⟩ := ih h
      exact ⟨e, List.mem_cons_of_mem _ he, hpe⟩

/-- the greedy resolution finds a stored path: all its prefixes exist, and the literal segment is preferred -/
theorem specFind_of_lk (p : Path) : ∀ (has : Path → Bool) (lk : Path → Option V) (v : V),
    p ≠ [] → lk p = some v → (∀ q, q ≠ [] → q.isPrefixOf p = true → has q = true) →
    specFind has lk p = some v := by
  induction p with
  | nil => intro _ _ _ h; exact absurd rfl h
  | cons n rest ih =>
    intro has lk v _ hl hh
    cases rest with
    | nil =>
      have : has [n] = true := hh [n] (by simp) (by simp [List.isPrefixOf])
      simp [specFind, this, hl]
    | cons m r =>
      have : has [n] = true := hh [n] (by simp) (by simp [List.isPrefixOf])
      simp only [specFind, this, if_true]
      exact ih (fun q => has (n :: q)) (fun q => lk (n :: q)) v (by simp) hl
        (fun q hq hp => hh (n :: q) (by simp) (by simpa [List.isPrefixOf] using hp))

/-! ### the refinement -/

def Op.isSize : Op V → Bool
  | .size => true
  | _ => false

/-- the log (abstract state) after a history -/
def absRun (l : Log V) : List (Op V) → Log V × List (Out V)
  | [] => (l, [])
  | op :: ops =>
    let (l', o) := absStep l op
    let (l'', os) := absRun l' ops
    (l'', o :: os)

/-- representation invariant tying a PT to a log -/
def Rep (t : PT V) (l : Log V) : Prop :=
  WF t.top ∧
  (∀ n rest, lookup t.top n rest = l.get (n :: rest)) ∧
  (∀ n rest, hasNode t.top n rest = l.has (n :: rest)) ∧
  t.count ≤ t.top.nodes ∧
  (∀ e ∈ l, 2 ≤ e.1.length)

/-- `InsertArray` of an effective insert, through `ins` -/
theorem insertArray_eq (t : PT V) (n m : Seg) (r : Path) (v : V) :
    insertArray t (n :: m :: r) (some v) =
      ({ top := (ins t.top n (m :: r) v).1, count := t.count + (ins t.top n (m :: r) v).2.2 },
        (ins t.top n (m :: r) v).2.1) := by
  obtain ⟨top, count⟩ := t
  simp only [insertArray]
  by_cases hc : top.isNil = true
  · have := isNil_eq hc
    subst this
    have : 2 + r.length = 1 + (r.length + 1) := by omega
    simp [ins_nil, Tree.isNil, this]
  · rw [ins_eq]
    cases h : insSib top n (m :: r) v with
    | none =>
      have : 2 + r.length = 1 + (r.length + 1) := by omega
      simp [hc, this]
    | some x =>
      obtain ⟨t', old, k⟩ := x
      simp [hc]

theorem rep_init : Rep ({} : PT V) [] := by
  refine ⟨trivial, ?_, ?_, Nat.le_refl _, ?_⟩
  · intro n rest; cases rest <;> simp [lookup, Log.get]
  · intro n rest; cases rest <;> simp [hasNode, Log.has]
  · intro e he; cases he

theorem rep_ins (t : PT V) (l : Log V) (h : Rep t l) (n m : Seg) (r : Path) (v : V) :
    Rep (insertArray t (n :: m :: r) (some v)).1 ((n :: m :: r, v) :: l) := by
  obtain ⟨hw, hl, hh, hc, h2⟩ := h
  rw [insertArray_eq]
  refine ⟨WF_ins _ _ _ _ hw, ?_, ?_, ?_, ?_⟩
  · intro n' rest'
    simp only [lookup_ins, Log.get_cons, hl, List.cons.injEq]
  · intro n' rest'
    simp only [hasNode_ins, Log.has_cons, hh]
    exact Bool.or_comm _ _
  · have := cnt_ins t.top n (m :: r) v
    simp only
    omega
  · intro e he
    cases he with
    | head => simp
    | tail _ he => exact h2 e he

theorem rep_step (t : PT V) (l : Log V) (op : Op V) (h : Rep t l) : Rep (step t op).1 (absStep l op).1 := by
  cases op with
  | ins p v =>
    cases v with
    | none => simpa [step, absStep, insertArray, Log.ins] using h
    | some v =>
      match p with
      | [] => simpa [step, absStep, insertArray, Log.ins] using h
      | [_] => simpa [step, absStep, insertArray, Log.ins] using h
      | n :: m :: r =>
        have := rep_ins t l h n m r v
        simpa [step, absStep, Log.ins] using this
  | get p => exact h
  | size => exact h
  | enum => exact h

theorem find_eq_spec (t : PT V) (l : Log V) (h : Rep t l) (p : Path) :
    findArray t p = specFind l.has l.get p := by
  cases p with
  | nil => rfl
  | cons n rest =>
    simp only [findArray]
    rw [findT_eq_spec rest t.top n h.1]
    exact specFind_congr _ _ _ _ _ (fun a b => h.2.2.1 a b) (fun a b => h.2.1 a b)

/-- outputs agree except for `size` (the abstract machine answers 0 there) -/
theorem step_out (t : PT V) (l : Log V) (op : Op V) (h : Rep t l) (hs : op.isSize = false) :
    (step t op).2 = (absStep l op).2 := by
  cases op with
  | ins p v =>
    cases v with
    | none => simp [step, absStep, insertArray]
    | some v =>
      match p with
      | [] => simp [step, absStep, insertArray]
      | [_] => simp [step, absStep, insertArray]
      | n :: m :: r =>
        simp only [step, absStep, insertArray_eq, old_ins, h.2.1]
        simp
  | get p => simp only [step, absStep, find_eq_spec t l h p]
  | size => simp [Op.isSize] at hs
  | enum => rfl

theorem run_refines_from (ops : List (Op V)) : ∀ (t : PT V) (l : Log V), Rep t l →
    (∀ op ∈ ops, op.isSize = false) →
    (run t ops).2 = (absRun l ops).2 ∧ Rep (run t ops).1 (absRun l ops).1 := by
  induction ops with
  | nil => intro t l h _; exact ⟨rfl, h⟩
  | cons op ops ih =>
    intro t l h hs
    have h1 := step_out t l op h (hs op List.mem_cons_self)
    have h2 := rep_step t l op h
    have h3 := ih (step t op).1 (absStep l op).1 h2 (fun o ho => hs o (List.mem_cons_of_mem _ ho))
    simp only [run, absRun]
    exact ⟨by rw [h1, h3.1], h3.2⟩

theorem run_refines (ops : List (Op V)) (hs : ∀ op ∈ ops, op.isSize = false) :
    (run ({} : PT V) ops).2 = (absRun [] ops).2 ∧ Rep (run ({} : PT V) ops).1 (absRun [] ops).1 :=
  run_refines_from ops {} [] rep_init hs

/-- Find of a stored path returns its value: for every reachable state -/
theorem find_stored (t : PT V) (l : Log V) (h : Rep t l) (p : Path) (v : V) (hp : l.get p = some v) :
    findArray t p = some v := by
  rw [find_eq_spec t l h p]
  refine specFind_of_lk p l.has l.get v ?_ hp (fun q _ hq => Log.has_of_get hp q hq)
  obtain ⟨e, he, hpe⟩ := Log.len_of_get hp
  have := h.2.2.2.2 e he
  intro hnil
  rw [hpe, hnil] at this
  simp at this

theorem count_le_nodes (t : PT V) (l : Log V) (h : Rep t l) : t.count ≤ t.top.nodes := h.2.2.2.1

/-! ### the enumeration the Go code never starts: `flatten` lists exactly the stored paths, once each -/

theorem mem_flatten (t : Tree V) : WF t → ∀ (pre p : Path) (v : V),
    (p, v) ∈ t.flatten pre ↔ ∃ q, p = pre.reverse ++ q ∧ lkP t q = some v := by
  induction t with
  | nil =>
    intro _ pre p v
    simp only [Tree.flatten, List.not_mem_nil, false_iff]
    rintro ⟨q, _, hl⟩
    cases q <;> simp [lkP, lookup] at hl
  | node name val c r ihc ihr =>
    intro hw pre p v
    obtain ⟨w1, _, w3, w4⟩ := hw
    simp only [Tree.flatten, List.mem_append, ihc w3, ihr w4]
    constructor
    · rintro ((h | ⟨q, hq, hl⟩) | ⟨q, hq, hl⟩)
      · cases val with
        | none => simp at h
        | some v' =>
          simp at h
          obtain ⟨rfl, rfl⟩ := h
          exact ⟨[name], by simp, by simp [lkP, lookup]⟩
      · cases q with
        | nil => simp [lkP] at hl
        | cons m r' => exact ⟨name :: m :: r', by simp [hq], by simpa [lkP, lookup] using hl⟩
      · cases q with
        | nil => simp [lkP] at hl
        | cons n rest =>
          have hn : n ≠ name := by
            intro e; subst e
            rw [lkP, lookup_of_has1_false w1] at hl
            cases hl
          exact ⟨n :: rest, hq, by cases rest <;> simpa [lkP, lookup, hn] using hl⟩
    · rintro ⟨q, hq, hl⟩
      cases q with
      | nil => simp [lkP] at hl
      | cons n rest =>
        by_cases hn : n = name
        · subst hn
          cases rest with
          | nil =>
            left; left
            simp [lkP, lookup] at hl
            subst hl
            simp [hq]
          | cons m r' =>
            left; right
            exact ⟨m :: r', by simp [hq], by simpa [lkP, lookup] using hl⟩
        · right
          exact ⟨n :: rest, hq, by cases rest <;> simpa [lkP, lookup, hn] using hl⟩

/-- `flatten` is complete and sound for the exact-match lookup (`lkP t [] = none`, so `p ≠ []` comes for free) -/
theorem flatten_complete (t : Tree V) (hw : WF t) (p : Path) (v : V) :
    (p, v) ∈ t.flatten [] ↔ p ≠ [] ∧ lkP t p = some v := by
  rw [mem_flatten t hw]
  constructor
  · rintro ⟨q, hq, hl⟩
    simp at hq
    subst hq
    refine ⟨?_, hl⟩
    intro e; subst e; simp [lkP] at hl
  · rintro ⟨_, hl⟩
    exact ⟨p, by simp, hl⟩

theorem nodup_flatten (t : Tree V) : WF t → ∀ (pre : Path), ((t.flatten pre).map (·.1)).Nodup := by
  induction t with
  | nil => intro _ pre; simp [Tree.flatten]
  | node name val c r ihc ihr =>
    intro hw pre
    obtain ⟨w1, _, w3, w4⟩ := hw
    have hA : ∀ a ∈ List.map (fun e : Path × V => e.1) (match val with
          | some v => [((name :: pre).reverse, v)]
          | none => []), a = pre.reverse ++ [name] := by
      cases val <;> simp
    have hB : ∀ b ∈ (c.flatten (name :: pre)).map (·.1),
        ∃ m r', b = pre.reverse ++ name :: m :: r' := by
      intro b hb
      obtain ⟨⟨p, v⟩, hm, rfl⟩ := List.mem_map.1 hb
      obtain ⟨q, hq, hl⟩ := (mem_flatten c w3 _ _ _).1 hm
      cases q with
      | nil => simp [lkP] at hl
      | cons m r' => exact ⟨m, r', by simp [hq]⟩
    have hC : ∀ x ∈ (r.flatten pre).map (·.1),
        ∃ n rest, n ≠ name ∧ x = pre.reverse ++ n :: rest := by
      intro x hx
      obtain ⟨⟨p, v⟩, hm, rfl⟩ := List.mem_map.1 hx
      obtain ⟨q, hq, hl⟩ := (mem_flatten r w4 _ _ _).1 hm
      cases q with
      | nil => simp [lkP] at hl
      | cons n rest =>
        refine ⟨n, rest, ?_, hq⟩
        intro e; subst e
        rw [lkP, lookup_of_has1_false w1] at hl
        cases hl
    simp only [Tree.flatten, List.map_append]
    rw [List.nodup_append, List.nodup_append]
    refine ⟨⟨?_, ihc w3 _, ?_⟩, ihr w4 _, ?_⟩
    · cases val <;> simp
    · intro a ha b hb
      rw [hA a ha]
      obtain ⟨m, r', rfl⟩ := hB b hb
      simp
    · intro a ha b hb
      obtain ⟨n, rest, hn, rfl⟩ := hC b hb
      rcases List.mem_append.1 ha with ha | ha
      · rw [hA a ha]
        intro e
        have := List.append_cancel_left e
        simp at this
        exact hn this.1.symm
      · obtain ⟨m, r', rfl⟩ := hB a ha
        intro e
        have := List.append_cancel_left e
        simp at this
        exact hn this.1.symm

/-- the stored paths are listed once each -/
theorem flatten_nodup (t : Tree V) (hw : WF t) : ((t.flatten []).map (·.1)).Nodup :=
  nodup_flatten t hw []

end Ext.PathTree
